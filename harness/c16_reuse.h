/* C16 oracle (d): one export context serves many exports - different pages,
 * different targets, option changes, in any order - and some of the targets
 * fail (a stdio stream that refuses everything from byte k on, /dev/full, a
 * read-only stream, a file in a directory that does not exist).
 *
 *  - every export that can succeed must give the bytes a FRESH context with the
 *    same option setting gives for that page (the statement promises identical
 *    data for every page and option setting, not "for the first export of a
 *    context"; export.c: "You can call this function repeatedly, it does not
 *    change the state of the vbi_export")
 *  - an export whose target refused data while the function ran must report
 *    failure (export.c: vbi_export_stdio/_file "@c FALSE on failure",
 *    vbi_export_mem -1, vbi_export_alloc NULL); what the target did accept is a
 *    prefix of the reference ("may write incomplete files")
 *  - the export following a failed one is compared like any other, under its
 *    own key export-after-failure-differs
 *  - file names live in exact-size blocks that are freed right after the call,
 *    LeakSanitizer runs once the contexts are gone (asan flavour). */
#ifndef C16_REUSE_H
#define C16_REUSE_H

#include <stdarg.h>
#include <sys/stat.h>

/* ---------------- a stream that fails from byte `limit` on ---------------- */

struct ru_sink {
	size_t limit, accepted;
	uint8_t *data;          /* the accepted bytes */
	int refused;            /* a write was cut short or rejected */
	int err;
	unsigned long calls;
};

static ssize_t ru_sink_write(void *c, const char *buf, size_t n)
{
	struct ru_sink *s = c;
	size_t room = s->limit - s->accepted, take = n < room ? n : room;
	s->calls++;
	if (take) { memcpy(s->data + s->accepted, buf, take); s->accepted += take; }
	if (take < n) { s->refused = 1; errno = s->err; }
	return (ssize_t)take;   /* 0 = error, short count = error after a partial write */
}

static FILE *ru_sink_open(struct ru_sink *s, size_t limit, int err)
{
	cookie_io_functions_t io = { NULL, ru_sink_write, NULL, NULL };
	memset(s, 0, sizeof *s);
	s->limit = limit;
	s->err = err;
	s->data = malloc(limit ? limit : 1);
	if (!s->data) { fprintf(stderr, "c16: out of memory\n"); exit(2); }
	return fopencookie(s, "w", io);
}

/* stdio buffering of the target stream: 0 unbuffered, 1 small, 2 large, 3 line, 4 default */
static const char *const ru_bufname[5] = { "nbf", "fbf-small", "fbf-large", "lbf", "default" };
static char *ru_setbuf(struct vf_rng *r, FILE *fp, int mode)
{
	char *b = NULL;
	size_t n;
	switch (mode) {
	case 0: setvbuf(fp, NULL, _IONBF, 0); break;
	case 1: n = (size_t)vf_range(r, 1, 400); b = malloc(n); setvbuf(fp, b, _IOFBF, n); break;
	case 2: n = (size_t)vf_range(r, 1024, 70000); b = malloc(n); setvbuf(fp, b, _IOFBF, n); break;
	case 3: n = (size_t)vf_range(r, 16, 3000); b = malloc(n); setvbuf(fp, b, _IOLBF, n); break;
	default: break;
	}
	return b;
}

/* ---------------- bookkeeping ---------------- */

struct ru_page { vbi_page *pg; char tag; void *ref; size_t ref_n; int ref_ok; char ref_err[200]; };

static char ru_hist[700];
static size_t ru_errlen;
static int ru_nfail, ru_nafter;   /* per context: exports reported failed / exports compared right after one */
static void ru_hist_add(const char *fmt, ...)
{
	char t[120];
	size_t l, h;
	va_list ap;
	va_start(ap, fmt);
	vsnprintf(t, sizeof t, fmt, ap);
	va_end(ap);
	vf_log("  context step: %s\n", t);
	l = strlen(t); h = strlen(ru_hist);
	if (h + l + 2 >= sizeof ru_hist) {      /* keep the tail */
		size_t drop = h / 2;
		memmove(ru_hist + 3, ru_hist + drop, h - drop + 1);
		memcpy(ru_hist, "...", 3);
		h = strlen(ru_hist);
	}
	snprintf(ru_hist + h, sizeof ru_hist - h, "%s%s", h ? " " : "", t);
}

/* reference outputs: a fresh context with the same option setting, one per page */
static int ru_refs(struct optvec *o, struct ru_page *P, int np)
{
	int i;
	char phase[64];
	for (i = 0; i < np; i++) {
		vbi_export *f;
		free(P[i].ref); P[i].ref = NULL; P[i].ref_n = 0; P[i].ref_ok = 0; P[i].ref_err[0] = 0;
		f = make_export(o);
		if (!f) return 0;
		snprintf(phase, sizeof phase, "vbi_export_alloc:%s", o->mod);
		vf_phase(phase);
		P[i].ref_ok = NULL != vbi_export_alloc(f, &P[i].ref, &P[i].ref_n, P[i].pg);
		if (!P[i].ref_ok) snprintf(P[i].ref_err, sizeof P[i].ref_err, "%s", vbi_export_errstr(f));
		vbi_export_delete(f);
		vf_count("exports_alloc", 1);
	}
	return 1;
}

static void ru_compare(const struct optvec *o, struct ru_page *rp, const char *tname, int ok, const uint8_t *d, size_t n, int *after_fail)
{
	char key[96];
	snprintf(key, sizeof key, "model:C16:%s:%s", *after_fail ? "export-after-failure-differs" : "context-reuse-differs", o->mod);
	if (*after_fail) { vf_count("exports_after_failure_compared", 1); ru_nafter++; }
	vf_count("reuse_exports_compared", 1);
	if (!!ok != !!rp->ref_ok)
		vf_fail(key, "options {%s} page %c: a fresh context %s%s%s, the reused context %s with %s; history of the context: %s", o->cls, rp->tag,
			rp->ref_ok ? "exports the page" : "fails (", rp->ref_ok ? "" : rp->ref_err, rp->ref_ok ? "" : ")", ok ? "succeeds" : "fails", tname, ru_hist);
	else if (ok && (n != rp->ref_n || memcmp(rp->ref, d, n))) {
		size_t at = first_diff(rp->ref, rp->ref_n, d, n);
		vf_fail(key, "options {%s} page %c: %s gave %zu bytes, a fresh context gives %zu; first difference at offset %zu (fresh %s.. vs %s..); history of the context: %s",
			o->cls, rp->tag, tname, n, rp->ref_n, at, vf_hex((uint8_t *)rp->ref + at, rp->ref_n - at > 16 ? 16 : rp->ref_n - at),
			vf_hex(d + at, n - at > 16 ? 16 : n - at), ru_hist);
	}
	*after_fail = 0;
}

/* a target that refused data (or could not be opened): the function must say so,
 * and vbi_export_errstr() must give a string (export.c: "remains valid until the
 * next call of an export function"; every byte is read: ASan sees a stale one) */
static void ru_failed_target(vbi_export *e, const struct optvec *o, struct ru_page *rp, const char *tname, int lib_ok, int must_fail, int *after_fail)
{
	char key[96];
	if (!lib_ok) {
		const char *es;
		vf_phase("vbi_export_errstr");
		es = vbi_export_errstr(e);
		if (!es) {
			snprintf(key, sizeof key, "model:C16:failed-export-without-error-string:%s", o->mod);
			vf_fail(key, "options {%s} page %c: %s failed and vbi_export_errstr() returns NULL; history of the context: %s", o->cls, rp->tag, tname, ru_hist);
		} else {
			ru_errlen += strlen(es);
			vf_count("error_strings_read", 1);
			if (!strcmp(es, "Unknown error.")) { vf_count("error_strings_without_a_cause", 1); vf_log("  no specific error message after: %s\n", tname); }
		}
	}
	if (lib_ok && must_fail) {
		snprintf(key, sizeof key, "model:C16:failing-target-reports-success:%s", o->mod);
		vf_fail(key, "options {%s} page %c (%zu bytes): %s returned success; history of the context: %s", o->cls, rp->tag, rp->ref_n, tname, ru_hist);
	}
	if (!lib_ok) {
		*after_fail = 1; ru_nfail++;
		vf_count("exports_reported_failed", 1);
		snprintf(key, sizeof key, "exports_reported_failed_%s", o->mod);
		vf_count(key, 1);
	}
}

/* option change on the used context: every option of the module is set
 * explicitly, so the context and a fresh one made from `o` are configured alike */
static void ru_gen_explicit_optvec(struct vf_rng *r, struct optvec *o, const char *mod)
{
	static const char *nets[] = { "", "ZDF", "a\"b<&>c", "Net with spaces 123" };
	static const char *creators[] = { "c16 \"harness\" 1.0", "", "libzvbi", "reuse 2" };
	gen_optvec(r, o, mod);
	o->via_string = 0;
	o->network = nets[vf_below(r, 4)];
	o->creator = creators[vf_below(r, 4)];
	if (!strcmp(mod, "html"))
		snprintf(o->cls, sizeof o->cls, "color=%d header=%d rev=%d net=%d", o->color, o->header, o->reveal, o->network[0] != 0);
	else if (strcmp(mod, "text"))
		snprintf(o->cls, sizeof o->cls, "aspect=%d transp=%d titled=%d rev=%d net=%d", o->aspect, o->transparency, o->titled, o->reveal, o->network[0] != 0);
}

static int ru_apply_options(vbi_export *e, const struct optvec *o)
{
	int ok = 1;
	vf_phase("vbi_export_option_set");
	ok &= vbi_export_option_set(e, "reveal", o->reveal);
	ok &= vbi_export_option_set(e, "network", o->network);
	ok &= vbi_export_option_set(e, "creator", o->creator);
	if (!strcmp(o->mod, "text")) {
		ok &= vbi_export_option_menu_set(e, "format", o->format);
		ok &= vbi_export_option_menu_set(e, "control", o->control);
		ok &= vbi_export_option_set(e, "gfx_chr", o->gfx);
		ok &= vbi_export_option_set(e, "charset", o->charset);
	} else if (!strcmp(o->mod, "html")) {
		ok &= vbi_export_option_set(e, "gfx_chr", o->gfx);
		ok &= vbi_export_option_set(e, "color", o->color);
		ok &= vbi_export_option_set(e, "header", o->header);
	} else {
		ok &= vbi_export_option_set(e, "aspect", o->aspect);
		if (strcmp(o->mod, "ppm")) {
			ok &= vbi_export_option_set(e, "transparency", o->transparency);
			ok &= vbi_export_option_set(e, "titled", o->titled);
		}
	}
	if (!ok) vf_fail("harness:option-set", "setting a documented option of module %s on a used context failed: %s", o->mod, vbi_export_errstr(e));
	return ok;
}

/* file name in a block of its own that is gone as soon as the call returned */
static char *ru_name(const char *fmt, ...)
{
	char t[128], *p;
	va_list ap;
	va_start(ap, fmt);
	vsnprintf(t, sizeof t, fmt, ap);
	va_end(ap);
	p = (char *)exact_alloc(strlen(t) + 1);
	strcpy(p, t);
	return p;
}

enum { RU_ALLOC, RU_MEM, RU_MEM_SMALL, RU_STDIO_MEM, RU_STDIO_SINK, RU_FILE,            /* can succeed */
       RU_SINK_FAIL, RU_FULL_STDIO, RU_FULL_FILE, RU_NODIR_FILE, RU_RDONLY_STDIO,       /* fail */
       RU_ISDIR_FILE, RU_RODIR_FILE,
       RU_SETOPT };
#define RU_LAST_FAILING RU_RODIR_FILE

/* ---------------- one context, `steps` exports ---------------- */

static void reuse_module(struct vf_rng *r, const char *mod, struct ru_page *P, int np, long steps)
{
	struct optvec o;
	vbi_export *e;
	int after_fail = 0, prev_failing = 0;
	long s;
	char phase[64], tname[160];

	gen_optvec(r, &o, mod);
	e = make_export(&o);
	if (!e) return;
	if (!ru_refs(&o, P, np)) { vbi_export_delete(e); return; }
	ru_hist[0] = 0;
	ru_nfail = ru_nafter = 0;
	vf_count("contexts_reused", 1);

	for (s = 0; s < steps && vf_failed() <= 6; s++) {
		struct ru_page *rp = &P[vf_below(r, (unsigned)np)];
		int kind, last = s == steps - 1;
		unsigned d = vf_below(r, 100);
		if (last || (prev_failing && d < 75))
			kind = (int)vf_below(r, 6);                     /* an export that can succeed */
		else if (d < 45) kind = (int)vf_below(r, 6);
		else if (d < 70) kind = RU_SINK_FAIL;
		else if (d < 92) kind = RU_FULL_STDIO + (int)vf_below(r, 6);
		else kind = RU_SETOPT;
		if (kind == RU_SINK_FAIL && !(rp->ref_ok && rp->ref_n > 0)) kind = RU_STDIO_SINK;
		prev_failing = kind >= RU_SINK_FAIL && kind <= RU_LAST_FAILING;

		switch (kind) {
		case RU_ALLOC: {
			void *b = NULL; size_t n = 0; int ok;
			snprintf(phase, sizeof phase, "vbi_export_alloc:%s", mod); vf_phase(phase);
			ru_hist_add("alloc(%c)", rp->tag);
			ok = NULL != vbi_export_alloc(e, &b, &n, rp->pg);
			ru_compare(&o, rp, "vbi_export_alloc", ok, b, n, &after_fail);
			free(b);
			vf_count("exports_alloc", 1);
			break; }
		case RU_MEM: case RU_MEM_SMALL: {
			size_t need = rp->ref_ok ? rp->ref_n : 64, size;
			uint8_t *b; ssize_t rr;
			if (kind == RU_MEM) size = need + (vf_chance(r, 1, 2) ? 0 : vf_below(r, 64));
			else size = !need ? 0 : vf_chance(r, 1, 3) ? need - 1 : vf_below(r, (unsigned)need);
			b = exact_alloc(size);
			memset(b, 0x3C, size);
			snprintf(phase, sizeof phase, "vbi_export_mem:%s", mod); vf_phase(phase);
			ru_hist_add("mem(%c,%s)", rp->tag, size_rel(size, need));
			rr = vbi_export_mem(e, b, size, rp->pg);
			snprintf(tname, sizeof tname, "vbi_export_mem(%zu bytes) = %zd", size, rr);
			if (rp->ref_ok && size < need)        /* too small: only the size needed is defined */
				ru_compare(&o, rp, tname, rr == (ssize_t)need, rp->ref, rp->ref_n, &after_fail);
			else
				ru_compare(&o, rp, tname, rr >= 0, b, rr >= 0 ? ((size_t)rr < size ? (size_t)rr : size) : 0, &after_fail);
			if (rp->ref_ok && size >= need && rr >= 0 && (size_t)rr != need) {
				char key[96];
				snprintf(key, sizeof key, "model:C16:mem-return:%s", mod);
				vf_fail(key, "options {%s} page %c: reused context, vbi_export_mem with a %zu byte buffer returned %zd, size needed is %zu; history: %s", o.cls, rp->tag, size, rr, need, ru_hist);
			}
			if (exact_underrun(b)) {
				char key[96];
				snprintf(key, sizeof key, "model:C16:mem-underrun:%s", mod);
				vf_fail(key, "options {%s} page %c: reused context, vbi_export_mem with a %zu byte buffer wrote before the buffer; history: %s", o.cls, rp->tag, size, ru_hist);
			}
			exact_free(b);
			vf_count("exports_mem", 1);
			break; }
		case RU_STDIO_MEM: {
			char *mb = NULL; size_t mn = 0; int ok;
			FILE *fp = open_memstream(&mb, &mn);
			snprintf(phase, sizeof phase, "vbi_export_stdio:%s", mod); vf_phase(phase);
			ru_hist_add("stdio(%c)", rp->tag);
			ok = vbi_export_stdio(e, fp, rp->pg);
			if (fclose(fp)) ok = 0;
			ru_compare(&o, rp, "vbi_export_stdio(memstream)", ok, (uint8_t *)mb, mn, &after_fail);
			free(mb);
			vf_count("exports_stdio", 1);
			break; }
		case RU_STDIO_SINK: case RU_SINK_FAIL: {
			/* a stream that accepts k bytes; k >= size: must succeed */
			static const int errs[] = { ENOSPC, EPIPE, EIO, EFBIG, EDQUOT };
			struct ru_sink sk;
			size_t n = rp->ref_n, k;
			int bm = (int)vf_below(r, 5), ok, refused_in_call, cl;
			FILE *fp; char *sb;
			if (kind == RU_STDIO_SINK) k = n + vf_below(r, 3);
			else switch (vf_below(r, 8)) {
				case 0: k = 0; break;
				case 1: k = n - 1; break;
				case 2: k = vf_below(r, n < 700 ? (unsigned)n : 700); break;          /* inside the header */
				case 3: k = n - 1 - vf_below(r, n < 64 ? (unsigned)n : 64); break;     /* inside the trailer */
				default: k = vf_below(r, (unsigned)n);
			}
			fp = ru_sink_open(&sk, k, errs[vf_below(r, 5)]);
			if (!fp) { free(sk.data); vf_fail("harness:fopencookie", "fopencookie failed"); break; }
			sb = ru_setbuf(r, fp, bm);
			snprintf(phase, sizeof phase, "vbi_export_stdio:%s", mod); vf_phase(phase);
			ru_hist_add("%s(%c,k=%zu/%zu,%s)", kind == RU_SINK_FAIL ? "STDIO-FAILS" : "stdio-sink", rp->tag, k, n, ru_bufname[bm]);
			errno = 0;
			ok = vbi_export_stdio(e, fp, rp->pg);
			refused_in_call = sk.refused;
			cl = fclose(fp);
			free(sb);
			snprintf(tname, sizeof tname, "vbi_export_stdio to a stream failing with errno %d after %zu bytes (%s)", sk.err, k, ru_bufname[bm]);
			if (kind == RU_STDIO_SINK || !rp->ref_ok) {
				if (cl) ok = 0;
				ru_compare(&o, rp, tname, ok, sk.data, sk.accepted, &after_fail);
				vf_count("exports_stdio", 1);
			} else {
				char key[96];
				vf_count("exports_on_failing_stream", 1);
				snprintf(key, sizeof key, "exports_on_failing_stream_%s", mod);
				vf_count(key, 1);
				vf_count(refused_in_call ? "failing_stream_error_during_export" : "failing_stream_error_at_close", 1);
				if (!sk.refused) {
					snprintf(key, sizeof key, "model:C16:targets-differ:%s", mod);
					vf_fail(key, "options {%s} page %c: %s: only %zu of %zu bytes were offered to the stream (return value %d); history: %s", o.cls, rp->tag, tname, sk.accepted, n, ok, ru_hist);
				}
				if (sk.accepted > n || memcmp(sk.data, rp->ref, sk.accepted)) {
					size_t at = first_diff(rp->ref, rp->ref_n, sk.data, sk.accepted);
					snprintf(key, sizeof key, "model:C16:failing-target-prefix-differs:%s", mod);
					vf_fail(key, "options {%s} page %c: %s: the %zu bytes the stream accepted are not the first bytes of the export, first difference at offset %zu; history: %s",
						o.cls, rp->tag, tname, sk.accepted, at, ru_hist);
				}
				/* A line buffered stream whose flush fails has fwrite() report everything written
				   (glibc: "the data is in the buffer"), only ferror()/fclose() tell: the caller's
				   business according to the documentation.  Everywhere else a refusal while the
				   function ran is visible to the library. */
				ru_failed_target(e, &o, rp, tname, ok, refused_in_call && bm != 3, &after_fail);
				vf_sig("fail-stream mod=%s at=%s buf=%s during=%d", mod, k == 0 ? "0" : k + 1 == n ? "n-1" : k < 700 ? "head" : "body", ru_bufname[bm], refused_in_call);
			}
			free(sk.data);
			break; }
		case RU_FILE: {
			char *name = ru_name("c16-%ld-reuse.tmp", (long)getpid()), keep[64];
			uint8_t *d; size_t n; int ok;
			snprintf(keep, sizeof keep, "%s", name);
			snprintf(phase, sizeof phase, "vbi_export_file:%s", mod); vf_phase(phase);
			ru_hist_add("file(%c)", rp->tag);
			ok = vbi_export_file(e, name, rp->pg);
			exact_free((uint8_t *)name);
			d = read_file(keep, &n);
			ru_compare(&o, rp, "vbi_export_file", ok, d, n, &after_fail);
			free(d);
			unlink(keep);
			vf_count("exports_file", 1);
			break; }
		case RU_FULL_STDIO: case RU_RDONLY_STDIO: {
			/* /dev/full: every write(2) fails with ENOSPC.  Unbuffered: the first fwrite() fails.  Fully
			   buffered (own buffer of any size, or what stdio picks): the error appears when the buffer
			   is flushed, during the export if the output is larger than the buffer - then the stream's
			   error indicator (cleared by vbi_export_stdio when it starts) is set when the function
			   returns - otherwise at fclose(), which is the caller's business. */
			static const char *const fbn[4] = { "unbuffered", "fully buffered (small buffer)", "fully buffered (large buffer)", "with the buffering stdio chose" };
			int bm = (int)vf_below(r, 4), ok, err_in_call, must;
			FILE *fp = kind == RU_FULL_STDIO ? fopen("/dev/full", "wb") : fopen("/dev/null", "rb");
			char *sb = NULL;
			size_t bn = 0;
			if (!fp) { vf_count("device_targets_unavailable", 1); break; }
			switch (bm) {
			case 0: setvbuf(fp, NULL, _IONBF, 0); break;
			case 1: bn = (size_t)vf_range(r, 1, 400); sb = malloc(bn); setvbuf(fp, sb, _IOFBF, bn); break;
			case 2: bn = (size_t)vf_range(r, 1024, 70000); sb = malloc(bn); setvbuf(fp, sb, _IOFBF, bn); break;
			default: break;
			}
			snprintf(phase, sizeof phase, "vbi_export_stdio:%s", mod); vf_phase(phase);
			ru_hist_add("%s(%c,%s)", kind == RU_FULL_STDIO ? "STDIO-DEV-FULL" : "STDIO-READ-ONLY", rp->tag, bm == 0 ? "nbf" : bm == 1 ? "fbf-small" : bm == 2 ? "fbf-large" : "default");
			ok = vbi_export_stdio(e, fp, rp->pg);
			err_in_call = ferror(fp);
			fclose(fp);
			free(sb);
			snprintf(tname, sizeof tname, "vbi_export_stdio to %s, %s%s", kind == RU_FULL_STDIO ? "a stream on /dev/full" : "a stream opened for reading", fbn[bm],
				 err_in_call ? ", error indicator of the stream set when the function returned" : "");
			must = rp->ref_ok && rp->ref_n > 0 && (err_in_call || bm == 0 || kind == RU_RDONLY_STDIO);
			/* an output larger than the stream buffer cannot have gone to /dev/full without an error */
			if (kind == RU_FULL_STDIO && rp->ref_ok && (bm == 1 || bm == 2) && rp->ref_n > bn + 1 && !err_in_call) {
				char key[96];
				snprintf(key, sizeof key, "model:C16:targets-differ:%s", mod);
				vf_fail(key, "options {%s} page %c (%zu bytes): %s with a %zu byte buffer: no write error although the output is larger than the buffer, not all data was written (return value %d); history: %s",
					o.cls, rp->tag, rp->ref_n, tname, bn, ok, ru_hist);
			}
			ru_failed_target(e, &o, rp, tname, ok, must, &after_fail);
			if (kind == RU_FULL_STDIO) {
				vf_count("exports_on_full_device", 1);
				vf_count(bm == 0 ? "exports_on_full_device_stdio_unbuffered" : "exports_on_full_device_stdio_buffered", 1);
				if (bm && err_in_call) vf_count("exports_on_full_device_stdio_buffered_error_during_export", 1);
			} else
				vf_count("exports_on_read_only_stream", 1);
			vf_sig("fail-dev mod=%s kind=%d buf=%d during=%d", mod, kind, bm, !!err_in_call);
			break; }
		case RU_FULL_FILE: case RU_NODIR_FILE: {
			char *name = kind == RU_FULL_FILE ? ru_name("/dev/full") : ru_name("c16-%ld-no-such-dir/out.tmp", (long)getpid());
			struct stat st;
			int ok;
			if (kind == RU_FULL_FILE && (stat("/dev/full", &st) || !S_ISCHR(st.st_mode))) { exact_free((uint8_t *)name); vf_count("device_targets_unavailable", 1); break; }
			snprintf(phase, sizeof phase, "vbi_export_file:%s", mod); vf_phase(phase);
			ru_hist_add("%s(%c)", kind == RU_FULL_FILE ? "FILE-DEV-FULL" : "FILE-NO-DIR", rp->tag);
			ok = vbi_export_file(e, name, rp->pg);
			exact_free((uint8_t *)name);
			snprintf(tname, sizeof tname, "vbi_export_file to %s", kind == RU_FULL_FILE ? "/dev/full" : "a directory that does not exist");
			ru_failed_target(e, &o, rp, tname, ok, kind == RU_NODIR_FILE || (rp->ref_ok && rp->ref_n > 0), &after_fail);
			if (kind == RU_FULL_FILE && (stat("/dev/full", &st) || !S_ISCHR(st.st_mode)))
				vf_fail("model:C16:file-target-removed-a-device", "vbi_export_file(\"/dev/full\") failed and removed the device node");
			vf_count(kind == RU_FULL_FILE ? "exports_on_full_device" : "exports_to_missing_directory", 1);
			vf_sig("fail-dev mod=%s kind=%d", mod, kind);
			break; }
		case RU_ISDIR_FILE: case RU_RODIR_FILE: {
			/* the name of a directory; a file in a directory the process may not write to */
			char dname[64], *name;
			struct stat st;
			int ok, dropped = 0;
			snprintf(dname, sizeof dname, "c16-%ld-%s", (long)getpid(), kind == RU_ISDIR_FILE ? "isdir" : "rodir");
			if (mkdir(dname, kind == RU_ISDIR_FILE ? 0755 : 0555) && errno != EEXIST) { vf_count("device_targets_unavailable", 1); break; }
			if (kind == RU_RODIR_FILE) {
				chmod(dname, 0555);
				/* root may write anywhere: give up the privilege for the time of the call, if that is possible */
				if (geteuid() == 0) {
					if (seteuid(65534)) { rmdir(dname); vf_count("exports_to_unwritable_directory_skipped_as_root", 1); break; }
					dropped = 1;
				}
			}
			name = kind == RU_ISDIR_FILE ? ru_name("%s", dname) : ru_name("%s/out.tmp", dname);
			snprintf(phase, sizeof phase, "vbi_export_file:%s", mod); vf_phase(phase);
			ru_hist_add("%s(%c)", kind == RU_ISDIR_FILE ? "FILE-IS-DIR" : "FILE-RO-DIR", rp->tag);
			ok = vbi_export_file(e, name, rp->pg);
			if (dropped && seteuid(0)) { fprintf(stderr, "c16: cannot regain privileges\n"); exit(2); }
			exact_free((uint8_t *)name);
			snprintf(tname, sizeof tname, "vbi_export_file to %s", kind == RU_ISDIR_FILE ? "a name that is a directory" : "a directory without write permission");
			ru_failed_target(e, &o, rp, tname, ok, 1, &after_fail);
			if (stat(dname, &st) || !S_ISDIR(st.st_mode))
				vf_fail("model:C16:file-target-removed-a-directory", "%s failed and the directory is gone", tname);
			if (kind == RU_RODIR_FILE) { char f[96]; chmod(dname, 0755); snprintf(f, sizeof f, "%s/out.tmp", dname); unlink(f); }
			if (rmdir(dname)) unlink(dname);
			vf_count(kind == RU_ISDIR_FILE ? "exports_to_directory_name" : "exports_to_unwritable_directory", 1);
			vf_sig("fail-dev mod=%s kind=%d", mod, kind);
			break; }
		case RU_SETOPT: {
			ru_gen_explicit_optvec(r, &o, mod);
			ru_hist_add("options{%s}", o.cls);
			if (!ru_apply_options(e, &o) || !ru_refs(&o, P, np)) { s = steps; break; }
			vf_count("option_changes_on_used_context", 1);
			break; }
		}
	}
	vf_sig("reuse mod=%s failed=%s compared-after-failure=%s pages=%d cc=%d ok=%d", mod, ru_nfail == 0 ? "0" : ru_nfail == 1 ? "1" : "n",
	       ru_nafter == 0 ? "0" : ru_nafter == 1 ? "1" : "n", np, P[0].pg->columns < 40, P[0].ref_ok);
	vf_phase("vbi_export_delete");
	vbi_export_delete(e);
}

/* Second page in a decoder of its own (the first stays alive), then every
 * module with one context each. */
static void oracle_reuse(struct vf_rng *r, long steps)
{
	static vbi_page pg_a;
	static const char *const mods[5] = { "text", "html", "ppm", "png", "xpm" };
	struct ru_page P[2];
	vbi_decoder *dec_a = cor_dec;
	int a_is_cc = PG_is_cc, np = 1, m, ok;

	pg_a = PG;
	memset(P, 0, sizeof P);
	P[0].pg = &pg_a; P[0].tag = 'A';
	cor_dec = NULL;
	cor_new_decoder();
	ok = cor_gen_page(r);
	if (ok) {
		P[1].pg = &PG; P[1].tag = 'B'; np = 2;
		vf_sample("second page for context reuse: %s -> %dx%d", PG_desc, PG.columns, PG.rows);
		vf_count("reuse_second_pages", 1);
	}
	for (m = 0; m < 5 && vf_failed() <= 12; m++)
		reuse_module(r, mods[m], P, np, steps);
	free(P[0].ref); free(P[1].ref);
	vf_phase("vbi_decoder_delete");
	cor_end();                     /* decoder of page B */
	cor_dec = dec_a;
	PG = pg_a;
	PG_is_cc = a_is_cc;
#if C16_ASAN
	vf_phase("leak-check-after-exports");
	vf_leak_check();
#endif
}

#endif
