/* C01 - executor: runs a generated script against one vbi_decoder, including the
 * read-side API battery, event handlers (with nested API calls where the
 * documentation allows them) and the bookkeeping for evidence. */
#ifndef C01_EXEC_H
#define C01_EXEC_H

#include <errno.h>
#include <pthread.h>
#ifdef HAVE_CONFIG_H
#  include "config.h"
#endif
#include "vbi.h"
#include "hamm.h"
#include "export.h"
#include "search.h"
#include "exp-gfx.h"
#include "exp-txt.h"
#include "c01_gen.h"

/* ---------------- counters (flushed with vf_count outside heap windows) ---------------- */
enum {
	C_FRAMES, C_TTX_LINES, C_CC_LINES, C_VPS_LINES, C_WSS_LINES, C_JUNK_LINES,
	C_EV_TTX, C_EV_CAPTION, C_EV_NETWORK, C_EV_NETWORK_ID, C_EV_TRIGGER, C_EV_ASPECT, C_EV_PROG_INFO, C_EV_LOCAL_TIME, C_EV_PROG_ID, C_EV_OTHER,
	C_FETCH_VT, C_FETCH_VT_OK, C_FETCH_VT_L25_OK, C_FETCH_VT_L35_OK, C_FETCH_900_OK, C_FETCH_CC, C_FETCH_CC_OK,
	C_CLASSIFY, C_TITLE, C_TITLE_OK, C_RESOLVE_LINK, C_LINKS_FOUND, C_RESOLVE_HOME, C_IS_CACHED, C_IS_CACHED_YES, C_HI_SUBNO,
	C_EXPORT, C_EXPORT_OK, C_EXPORT_TEXT_OK, C_EXPORT_HTML_OK, C_EXPORT_PPM_OK, C_EXPORT_PNG_OK, C_EXPORT_XPM_OK,
	C_PRINT, C_DRAW_VT, C_DRAW_CC, C_SEARCH_NEW, C_SEARCH_NEW_OK, C_SEARCH_NEXT, C_SEARCH_HIT, C_SEARCH_NOTFOUND, C_SEARCH_EMPTY, C_SEARCH_CANCELED, C_SEARCH_ERROR,
	C_CHSW, C_REGISTER, C_UNREGISTER, C_REGION, C_LEVEL, C_BRIGHT, C_NESTED, C_NESTED_FETCH_CC, C_HELD_RENDER, C_DRCS_PAGES_USED,
	C_FN_LOP, C_FN_UNKNOWN, C_FN_GPOP, C_FN_POP, C_FN_GDRCS, C_FN_DRCS, C_FN_AIT, C_FN_MPT, C_FN_MPTEX, C_FN_OTHER, C_CACHED_PAGES,
	C_MUTATED, C_DECODER_CYCLES, C_CAROUSEL_ROUNDS, N_CNT
};
static const char *const cnt_name[N_CNT] = {
	"frames", "ttx_lines", "cc_lines", "vps_lines", "wss_lines", "junk_lines",
	"ev_ttx_page", "ev_caption", "ev_network", "ev_network_id", "ev_trigger", "ev_aspect", "ev_prog_info", "ev_local_time", "ev_prog_id", "ev_other",
	"fetch_vt", "fetch_vt_ok", "fetch_vt_l25_ok", "fetch_vt_l35_ok", "fetch_900_ok", "fetch_cc", "fetch_cc_ok",
	"classify", "page_title", "page_title_ok", "resolve_link", "links_found", "resolve_home", "is_cached", "is_cached_yes", "cache_hi_subno",
	"export", "export_ok", "export_text_ok", "export_html_ok", "export_ppm_ok", "export_png_ok", "export_xpm_ok",
	"print_page", "draw_vt", "draw_cc", "search_new", "search_new_ok", "search_next", "search_hit", "search_notfound", "search_cache_empty", "search_canceled", "search_error",
	"channel_switched", "handler_register", "handler_unregister", "set_default_region", "set_level", "set_brightness_contrast",
	"nested_calls_in_handler", "nested_fetch_cc", "held_page_renders", "pages_with_drcs",
	"stored_lop", "stored_unknown", "stored_gpop", "stored_pop", "stored_gdrcs", "stored_drcs", "stored_ait", "stored_mpt", "stored_mptex", "stored_other", "cached_pages_at_end",
	"mutated_packets", "decoder_cycles", "carousel_rounds"
};
static long cnt[N_CNT];
static void flush_counts(void)
{
	int i;
	for (i = 0; i < N_CNT; i++) { if (cnt[i]) vf_count(cnt_name[i], cnt[i]); cnt[i] = 0; }
}

/* ---------------- script ---------------- */
enum { OP_FRAME, OP_FETCH_VT, OP_FETCH_CC, OP_CLASSIFY, OP_TITLE, OP_SEARCH, OP_CHSW, OP_REGISTER, OP_UNREGISTER,
       OP_REGION, OP_LEVEL, OP_BRIGHT, OP_IS_CACHED, OP_HI_SUBNO, OP_HELD, OP_EMPTY_FRAME, N_OPK };
struct op { int kind, a, b, c, d, first, n; double t; };
#define MAXOPS 8000
#define MAXLINES 120000
static struct op ops[MAXOPS];
static int n_ops;
static vbi_sliced pool[MAXLINES];
static int n_pool;

/* which read-side ops / behaviours are enabled */
#define RD_FETCH   0x001
#define RD_NAV     0x002
#define RD_SEARCH  0x004
#define RD_EXPORT  0x008
#define RD_DRAW    0x010
#define RD_CHSW    0x020
#define RD_NESTED  0x040
#define RD_MISC    0x080
#define RD_HELD    0x100
#define RD_LINKS   0x200
static unsigned rd;

/* ---------------- run-time state ---------------- */
static vbi_decoder *g_vbi;
static struct vf_rng xr;
static int in_handler;
static unsigned ev_seen, api_ok, fn_seen;
static int seen_pg[64], seen_sub[64], n_seen;
static vbi_page held[3];
static int held_ok[3], held_cc[3];
static vbi_page tmp_pg, tmp_pg2;
#define N_EXP 5
static const char *const exp_kw[N_EXP] = { "text", "html", "ppm", "png", "xpm" };
static vbi_export *exp_obj[N_EXP];
static int deadlock_reported;
static int nest_rate;                  /* 1/nest_rate of events trigger a nested call; 0 = never */
static int leak_probe_done;

static void on_event(vbi_event *ev, void *ud);
static void on_event_b(vbi_event *ev, void *ud);

static void note_page(int pgno, int subno)
{
	seen_pg[n_seen & 63] = pgno; seen_sub[n_seen & 63] = subno; n_seen++;
}

static int pick_pgno(int *subno)
{
	extern int c01_station_pgno(struct vf_rng *r);
	unsigned k = vf_below(&xr, 16);
	*subno = VBI_ANY_SUBNO;
	if (k < 7 && n_seen) {
		int i = (int)vf_below(&xr, (unsigned)(n_seen > 64 ? 64 : n_seen));
		if (vf_chance(&xr, 1, 2)) *subno = seen_sub[i];
		return seen_pg[i];
	}
	if (k < 12) { if (vf_chance(&xr, 1, 4)) *subno = (int)vf_below(&xr, 0x80); return c01_station_pgno(&xr); }
	if (k == 12) return 0x900;
	if (k == 13) { static const int odd[] = { 0, -1, 1, 8, 9, 0xFF, 0x100, 0x8FF, 0x1FF, 0x900, 0x901, 0xFFF, 0x7FFFFFFF, -0x100, 0x1000100 }; *subno = vf_chance(&xr, 1, 2) ? VBI_ANY_SUBNO : (int)vf_u32(&xr); return odd[vf_below(&xr, sizeof odd / sizeof odd[0])]; }
	*subno = vf_chance(&xr, 1, 2) ? VBI_ANY_SUBNO : (int)vf_below(&xr, 0x4000);
	return vf_range(&xr, 0x100, 0x8FF);
}

/* ---------------- exports ---------------- */

static vbi_export *get_export(int m)
{
	char *err = NULL;
	int i;
	if (exp_obj[m]) return exp_obj[m];
	vf_phase("vbi_export_new");
	exp_obj[m] = vbi_export_new(exp_kw[m], &err);
	if (err) free(err);
	if (!exp_obj[m]) return NULL;
	for (i = 0; i < 12; i++) {
		vbi_option_info *oi;
		vf_phase("vbi_export_option_info_enum");
		oi = vbi_export_option_info_enum(exp_obj[m], i);
		if (!oi) break;
		if (!oi->keyword || !vf_chance(&xr, 1, 2)) continue;
		vf_phase("vbi_export_option_set");
		switch (oi->type) {
		case VBI_OPTION_BOOL:
		case VBI_OPTION_INT:
		case VBI_OPTION_MENU:
			vbi_export_option_set(exp_obj[m], oi->keyword, vf_range(&xr, oi->min.num, oi->max.num));
			break;
		case VBI_OPTION_REAL:
			vbi_export_option_set(exp_obj[m], oi->keyword, oi->min.dbl + (oi->max.dbl - oi->min.dbl) * vf_unit(&xr));
			break;
		case VBI_OPTION_STRING: {
			static const char *const strs[] = { "#", " ", "32", "0x2A", "", "UTF-8", "ISO-8859-1", "ASCII", "UCS-2", "no-such-charset", "999999999999", "0x", "\xE4" };
			const char *s = strs[vf_below(&xr, sizeof strs / sizeof strs[0])];
			if (0 == strcmp(oi->keyword, "charset") && vf_chance(&xr, 1, 2)) s = vf_chance(&xr, 1, 2) ? "UTF-8" : "ISO-8859-1";
			vbi_export_option_set(exp_obj[m], oi->keyword, s);
			break; }
		default: break;
		}
	}
	return exp_obj[m];
}

static void drop_exports(void)
{
	int m;
	for (m = 0; m < N_EXP; m++)
		if (exp_obj[m]) { vf_phase("vbi_export_delete"); vbi_export_delete(exp_obj[m]); exp_obj[m] = NULL; }
}

static void do_export(vbi_page *pg, int m)
{
	vbi_export *e = get_export(m);
	void *buf = NULL;
	size_t size = 0;
	if (!e) return;
	cnt[C_EXPORT]++;
	if (vf_chance(&xr, 2, 3)) {
		vf_phase("vbi_export_alloc");
		if (vbi_export_alloc(e, &buf, &size, pg)) {
			cnt[C_EXPORT_OK]++; cnt[C_EXPORT_TEXT_OK + m]++; api_ok |= 1u << (8 + m);
			if (size > 0) { volatile uint8_t x = ((uint8_t *)buf)[0] ^ ((uint8_t *)buf)[size - 1]; (void)x; }
			free(buf);
		} else {
			vf_phase("vbi_export_errstr");
			{ char *s = vbi_export_errstr(e); if (s) { volatile size_t l = strlen(s); (void)l; } }
		}
	} else {
		/* caller buffer: exact-size heap block so that ASan sees any overrun */
		static const size_t sizes[] = { 0, 1, 7, 100, 1000, 4096, 65536, 600000 };
		size_t cap = sizes[vf_below(&xr, sizeof sizes / sizeof sizes[0])];
		ssize_t rr;
		buf = malloc(cap ? cap : 1);
		if (!buf) return;
		vf_phase("vbi_export_mem");
		rr = vbi_export_mem(e, cap ? buf : NULL, cap, pg);
		if (rr >= 0) { cnt[C_EXPORT_OK]++; cnt[C_EXPORT_TEXT_OK + m]++; }
		free(buf);
	}
}

/* ---------------- per-page battery ---------------- */

static void exercise_page(vbi_page *pg, int is_cc, int heavy, int unref)
{
	int i;
	if (pg->rows < 1 || pg->rows > 25 || pg->columns < 1 || pg->columns > 41) {
		vf_fail("model:C01:page-geometry", "fetched page %x has rows=%d columns=%d", pg->pgno, pg->rows, pg->columns);
		return;
	}
	for (i = 0; i < 32; i++) if (pg->drcs[i]) { cnt[C_DRCS_PAGES_USED]++; break; }
	if ((rd & RD_LINKS) && vf_chance(&xr, 1, heavy ? 1 : 3)) {
		int row, col, found = 0;
		vbi_link ld;
		for (row = 0; row < pg->rows; row++)
			for (col = 0; col < pg->columns; col++) {
				if (!heavy && !pg->text[row * pg->columns + col].link && !vf_chance(&xr, 1, 8)) continue;
				memset(&ld, 0x5A, sizeof ld);
				ld.url[0] = 0; ld.name[0] = 0;
				vf_phase("vbi_resolve_link");
				vbi_resolve_link(pg, col, row, &ld);
				cnt[C_RESOLVE_LINK]++;
				if (ld.type != VBI_LINK_NONE) {
					found++;
					if (ld.type == VBI_LINK_PAGE || ld.type == VBI_LINK_SUBPAGE) note_page(ld.pgno, ld.subno);
					else if (!memchr(ld.url, 0, sizeof ld.url))
						vf_fail("model:C01:link-url-unterminated", "vbi_resolve_link page %x row %d col %d type %d", pg->pgno, row, col, ld.type);
				}
			}
		cnt[C_LINKS_FOUND] += found;
		if (found) api_ok |= 1u << 3;
		vf_phase("vbi_resolve_home");
		vbi_resolve_home(pg, &ld);
		cnt[C_RESOLVE_HOME]++;
		if (ld.type == VBI_LINK_PAGE) note_page(ld.pgno, ld.subno);
	}
	if ((rd & RD_EXPORT) && vf_chance(&xr, 1, 2)) {
		static const char *const fmts[] = { "UTF-8", "ISO-8859-1", "ASCII", "UCS-2", "UTF-16", "EUC-JP", "nope", "" };
		static const int sizes[] = { 0, 1, 2, 40, 41, 1000, 1025, 4100, 8000 };
		int size = sizes[vf_below(&xr, sizeof sizes / sizeof sizes[0])], n;
		char *buf = malloc((size_t)size + 1);
		if (buf) {
			vf_phase("vbi_print_page");
			n = vbi_print_page(pg, buf, size, fmts[vf_below(&xr, sizeof fmts / sizeof fmts[0])], (int)vf_below(&xr, 2), (int)vf_below(&xr, 2));
			cnt[C_PRINT]++;
			if (n > size) vf_fail("model:C01:print-page-overrun", "vbi_print_page returned %d for a %d byte buffer", n, size);
			if (n > 0) api_ok |= 1u << 4;
			free(buf);
		}
	}
	if ((rd & RD_EXPORT) && vf_chance(&xr, 1, 2)) {
		int m = (int)vf_below(&xr, N_EXP);
		if (m == 3 && !heavy && !vf_chance(&xr, 1, 3)) m = 0;   /* PNG is expensive */
		do_export(pg, m);
	}
	if ((rd & RD_DRAW) && vf_chance(&xr, 1, 2)) {
		int pal = !is_cc && vf_chance(&xr, 1, 4);
		size_t bpp = pal ? 1 : 4;
		size_t sz = is_cc ? (size_t)pg->columns * 16 * (size_t)pg->rows * 26 * 4 : (size_t)pg->columns * 12 * (size_t)pg->rows * 10 * bpp;
		void *canvas = malloc(sz);
		if (canvas) {
			if (is_cc) { vf_phase("vbi_draw_cc_page"); vbi_draw_cc_page(pg, VBI_PIXFMT_RGBA32_LE, canvas); cnt[C_DRAW_CC]++; }
			else { vf_phase("vbi_draw_vt_page"); vbi_draw_vt_page(pg, pal ? VBI_PIXFMT_PAL8 : VBI_PIXFMT_RGBA32_LE, canvas, (int)vf_below(&xr, 2), (int)vf_below(&xr, 2)); cnt[C_DRAW_VT]++; }
			api_ok |= 1u << 5;
			free(canvas);
		}
	}
	if (unref) {
		vf_phase("vbi_unref_page");
		vbi_unref_page(pg);
	}
}

/* ---------------- pages kept across later vbi_decode calls ---------------- */

#if defined(__SANITIZE_ADDRESS__)
#  include <sanitizer/asan_interface.h>
#  define C01_POISONED(p, n) (__asan_region_is_poisoned((void *)(p), (n)) != NULL)
#elif __has_include(<valgrind/memcheck.h>)
#  include <valgrind/memcheck.h>
/* under memcheck: VALGRIND_GET_VBITS returns 3 when part of the range is not addressable (and prints nothing) */
static unsigned char c01_vbits[48 * 60 + 64];
#  define C01_POISONED(p, n) (RUNNING_ON_VALGRIND && 3 == VALGRIND_GET_VBITS((p), c01_vbits, (n)))
#else
#  define C01_POISONED(p, n) 0
#endif

static void release_held(int h)
{
	if (!held_ok[h]) return;
	held_ok[h] = 0;
	vf_phase("vbi_unref_page");
	vbi_unref_page(&held[h]);
}

/* format.h: "the page may reference other objects in cache which are locked by the fetch
 * functions, vbi_unref_page() must be called when done."  A page that has not been
 * unreferenced yet must therefore still own its DRCS fonts and its DRCS colour table.
 * Returns 1 if the page is intact.  Checked with the ASan shadow memory so that the
 * finding gets its own key and the case goes on; rendering such a page would only
 * repeat the same use-after-free in whatever function touches the font first. */
static int held_page_intact(const vbi_page *pg, int h)
{
	int i;
	for (i = 0; i < 32; i++)
		if (pg->drcs[i] && C01_POISONED(pg->drcs[i], 48 * 60)) {
			vf_fail("model:C01:held-page-drcs-freed",
				"[drcs-font] page %x.%x fetched earlier and not yet passed to vbi_unref_page: its DRCS font pg->drcs[%d] was freed by a later vbi_decode (held slot %d)",
				pg->pgno, pg->subno, i, h);
			return 0;
		}
	if (pg->drcs_clut && C01_POISONED(pg->drcs_clut, 2 + 2 * 4 + 2 * 16)) {
		vf_fail("model:C01:held-page-drcs-freed",
			"[drcs-clut] page %x.%x fetched earlier and not yet passed to vbi_unref_page: its pg->drcs_clut table was freed by a later vbi_decode (held slot %d)",
			pg->pgno, pg->subno, h);
		return 0;
	}
	return 1;
}

/* Single thread, no call in progress: the caption mutex must be free.  If it is not (left
 * locked by an earlier call, or its memory overwritten) the next vbi_decode or
 * vbi_fetch_cc_page would block forever; report that instead of stalling the worker, and
 * end the case. */
static int case_aborted;
static int caption_mutex_stuck(const char *next_call)
{
	int e = pthread_mutex_trylock(&g_vbi->cc.mutex);
	if (e == 0) { pthread_mutex_unlock(&g_vbi->cc.mutex); return 0; }
	if (!deadlock_reported++)
		vf_fail("deadlock:caption-mutex-left-locked",
			"no library call is in progress but pthread_mutex_trylock(&vbi->cc.mutex) = %d (%s); %s would never return", e, strerror(e), next_call);
	case_aborted = 1;
	return 1;
}

/* ---------------- individual read-side calls ---------------- */

static void do_fetch_vt(int pgno, int subno, int level, int rows, int nav, int heavy, int may_hold)
{
	vbi_page *pg = &tmp_pg;
	cnt[C_FETCH_VT]++;
	vf_phase("vbi_fetch_vt_page");
	if (!vbi_fetch_vt_page(g_vbi, pg, pgno, subno, (vbi_wst_level)level, rows, nav)) return;
	cnt[C_FETCH_VT_OK]++; api_ok |= 1u << 0;
	if (level == 2) cnt[C_FETCH_VT_L25_OK]++;
	if (level == 3) cnt[C_FETCH_VT_L35_OK]++;
	if (pgno == 0x900) { cnt[C_FETCH_900_OK]++; api_ok |= 1u << 6; }
	if (may_hold && (rd & RD_HELD) && vf_chance(&xr, 1, 4)) {
		/* keep the page (the documented way: vbi_unref_page only when done with it);
		   it is rendered again later by OP_HELD, after more vbi_decode calls */
		int h = (int)vf_below(&xr, 3);
		release_held(h);
		held[h] = *pg; held_ok[h] = 1; held_cc[h] = 0;
		exercise_page(pg, 0, heavy, 0);
		return;
	}
	exercise_page(pg, 0, heavy, 1);
}

static void do_fetch_cc(int pgno, int may_hold)
{
	vbi_page *pg = &tmp_pg;
	cnt[C_FETCH_CC]++;
	if (in_handler) {
		/* The documentation calls vbi_fetch_cc_page "safe" inside a handler.  The caption
		   mutex is a default (non recursive) mutex and this process has a single thread,
		   so if it is held now the call below could never return: report instead of hanging. */
		int e = pthread_mutex_trylock(&g_vbi->cc.mutex);
		if (e == EBUSY) {
			if (!deadlock_reported++)
				vf_fail("deadlock:vbi_fetch_cc_page:in-handler",
					"event handler (event mask seen 0x%x) called with the caption mutex held; vbi_fetch_cc_page(%d) from this handler blocks forever", ev_seen, pgno);
			return;
		}
		if (e == 0) pthread_mutex_unlock(&g_vbi->cc.mutex);
		cnt[C_NESTED_FETCH_CC]++;
	} else if (caption_mutex_stuck("vbi_fetch_cc_page"))
		return;
	vf_phase("vbi_fetch_cc_page");
	if (!vbi_fetch_cc_page(g_vbi, pg, pgno, (int)vf_below(&xr, 2))) return;
	cnt[C_FETCH_CC_OK]++; api_ok |= 1u << 1;
	if (may_hold && (rd & RD_HELD) && vf_chance(&xr, 1, 6)) {
		int h = (int)vf_below(&xr, 3);
		release_held(h);
		held[h] = *pg; held_ok[h] = 1; held_cc[h] = 1;
		exercise_page(pg, 1, 0, 0);
		return;
	}
	exercise_page(pg, 1, 0, 1);
}

static void do_classify(int pgno)
{
	vbi_subno sub = 0;
	char *lang = NULL;
	vbi_page_type t;
	vf_phase("vbi_classify_page");
	t = vbi_classify_page(g_vbi, pgno, vf_chance(&xr, 1, 4) ? NULL : &sub, vf_chance(&xr, 1, 4) ? NULL : &lang);
	cnt[C_CLASSIFY]++;
	if (lang) { volatile size_t l = strlen(lang); (void)l; }
	if (t != VBI_UNKNOWN_PAGE && t != VBI_NO_PAGE) api_ok |= 1u << 2;
}

static void do_title(int pgno, int subno)
{
	char *buf = malloc(41);
	if (!buf) return;
	memset(buf, 'x', 41);
	vf_phase("vbi_page_title");
	cnt[C_TITLE]++;
	if (vbi_page_title(g_vbi, pgno, subno, buf)) {
		cnt[C_TITLE_OK]++; api_ok |= 1u << 7;
		if (!memchr(buf, 0, 41)) vf_fail("model:C01:title-unterminated", "vbi_page_title(%x) returned TRUE without NUL in 41 bytes", pgno);
	}
	free(buf);
}

static int progress_countdown;
static int search_progress(vbi_page *pg)
{
	volatile int x = pg->pgno + pg->rows;
	(void)x;
	if (progress_countdown > 0 && --progress_countdown == 0) return 0;
	return 1;
}

static int make_pattern(uint16_t *pat, int kind)
{
	int n = 0, i;
	if (kind == 0 && tmp_pg.rows > 2 && tmp_pg.rows <= 25 && tmp_pg.columns >= 40 && tmp_pg.columns <= 41) {   /* tmp_pg may be the debris of a failed fetch */
		/* taken from the page fetched last */
		int row = vf_range(&xr, 1, tmp_pg.rows - 1), col = (int)vf_below(&xr, 30), len = vf_range(&xr, 1, 8);
		for (i = 0; i < len; i++) {
			unsigned u = tmp_pg.text[row * tmp_pg.columns + col + i].unicode;
			pat[n++] = (uint16_t)(u ? u : 0x20);
		}
	} else if (kind == 1) {
		static const char *const atoms[] = { "a", "e", "[a-z]", "[^0-9]", ".", ".*", "+", "?", "*", "|", "(", ")", "^", "$", "\\", "\\x41", "\\u00e4", "\\p2", "\\P1,4", "\\p99",
			"[", "]", "[\\p2,3]", ":alpha:", "[:gfx:]", ":drcs:", "[:title:]", "{", "}", "\\d", "www", "\\.", "[]]", "[^]", "x{2,3}", "\\pz" };
		int k = vf_range(&xr, 1, 8);
		while (k-- > 0 && n < 56) { const char *s = atoms[vf_below(&xr, sizeof atoms / sizeof atoms[0])]; while (*s && n < 60) pat[n++] = (uint8_t)*s++; }
	} else if (kind == 2) {
		static const char *const words[] = { "www", "Seite", "100", "a", " ", "e", "ZVBI", "Sport", "@", "12:34", "zzzzqq" };
		const char *s = words[vf_below(&xr, sizeof words / sizeof words[0])];
		while (*s) pat[n++] = (uint8_t)*s++;
	} else {
		int len = vf_range(&xr, 1, 20);
		for (i = 0; i < len; i++) pat[n++] = (uint16_t)(1 + vf_below(&xr, 0xFFFF));
	}
	if (n == 0) pat[n++] = 'a';
	pat[n] = 0;
	return n;
}

static void do_search(int pgno, int subno, int kind, int flags)
{
	uint16_t pat[64];
	vbi_search *s;
	int i, nnext;
	make_pattern(pat, kind);
	if (vf_verbose) { int k; vf_log("  search pattern kind=%d flags=%d:", kind, flags); for (k = 0; pat[k]; k++) vf_log(pat[k] >= 0x20 && pat[k] < 0x7F ? "%c" : "\\u%04x", pat[k]); vf_log("\n"); }
	if (pgno < 0x100 || pgno > 0x8FF) pgno = 0x100;          /* the page walk indexes per-page statistics by pgno */
	cnt[C_SEARCH_NEW]++;
	progress_countdown = (flags & 8) ? vf_range(&xr, 1, 5) : 0;
	vf_phase("vbi_search_new");
	s = vbi_search_new(g_vbi, pgno, subno, pat, flags & 1, (kind == 1) || (flags & 2), (flags & 4) ? search_progress : NULL);
	if (!s) return;
	cnt[C_SEARCH_NEW_OK]++;
	nnext = vf_range(&xr, 1, 5);
	for (i = 0; i < nnext; i++) {
		vbi_page *pg = NULL;
		int st, dir = vf_chance(&xr, 3, 4) ? +1 : -1;
		cnt[C_SEARCH_NEXT]++;
		vf_phase("vbi_search_next");
		st = vbi_search_next(s, &pg, dir);
		switch (st) {
		case VBI_SEARCH_SUCCESS:
			cnt[C_SEARCH_HIT]++; api_ok |= 1u << 13;
			if (!pg) vf_fail("model:C01:search-success-no-page", "vbi_search_next returned SUCCESS with *pg == NULL");
			else if (vf_chance(&xr, 1, 2)) { tmp_pg2 = *pg; exercise_page(&tmp_pg2, 0, 0, 0); }   /* search.c: "Do not call vbi_unref_page() for this page. Also the page must not be modified": work on a copy, no unref */
			break;
		case VBI_SEARCH_NOT_FOUND: cnt[C_SEARCH_NOTFOUND]++; break;
		case VBI_SEARCH_CACHE_EMPTY: cnt[C_SEARCH_EMPTY]++; break;
		case VBI_SEARCH_CANCELED: cnt[C_SEARCH_CANCELED]++; break;
		default: cnt[C_SEARCH_ERROR]++; break;
		}
		if (st != VBI_SEARCH_SUCCESS && st != VBI_SEARCH_CANCELED && vf_chance(&xr, 1, 2)) break;
	}
	vf_phase("vbi_search_delete");
	vbi_search_delete(s);
}

static const int ev_masks[] = { -1, VBI_EVENT_TTX_PAGE, VBI_EVENT_CAPTION, VBI_EVENT_TTX_PAGE | VBI_EVENT_CAPTION, VBI_EVENT_NETWORK | VBI_EVENT_NETWORK_ID,
	VBI_EVENT_TRIGGER, VBI_EVENT_TRIGGER | VBI_EVENT_TTX_PAGE | VBI_EVENT_CAPTION, VBI_EVENT_ASPECT | VBI_EVENT_PROG_INFO, VBI_EVENT_LOCAL_TIME | VBI_EVENT_PROG_ID,
	0x0FDE, VBI_EVENT_CLOSE, 0x7FFFFFFF };

static void do_register(int which, int maskidx)
{
	int mask = ev_masks[(unsigned)maskidx % (sizeof ev_masks / sizeof ev_masks[0])];
	cnt[C_REGISTER]++;
	switch (which % 4) {
	case 0: vf_phase("vbi_event_handler_register"); vbi_event_handler_register(g_vbi, mask, on_event, (void *)1); break;
	case 1: vf_phase("vbi_event_handler_register"); vbi_event_handler_register(g_vbi, mask, on_event, (void *)2); break;
	case 2: vf_phase("vbi_event_handler_register"); vbi_event_handler_register(g_vbi, mask, on_event_b, (void *)3); break;
	default: vf_phase("vbi_event_handler_add"); vbi_event_handler_add(g_vbi, mask, on_event_b, (void *)3); break;
	}
}
static void do_unregister(int which)
{
	cnt[C_UNREGISTER]++;
	switch (which % 4) {
	case 0: vf_phase("vbi_event_handler_unregister"); vbi_event_handler_unregister(g_vbi, on_event, (void *)1); break;
	case 1: vf_phase("vbi_event_handler_unregister"); vbi_event_handler_unregister(g_vbi, on_event, (void *)2); break;
	case 2: vf_phase("vbi_event_handler_unregister"); vbi_event_handler_unregister(g_vbi, on_event_b, (void *)3); break;
	default: vf_phase("vbi_event_handler_remove"); vbi_event_handler_remove(g_vbi, on_event_b); break;
	}
}

static void do_held(void)
{
	int h = (int)vf_below(&xr, 3);
	if (!held_ok[h]) return;
	if (!held_cc[h] && !held_page_intact(&held[h], h)) { held_ok[h] = 0; return; }   /* nothing left to unreference safely */
	cnt[C_HELD_RENDER]++;
	exercise_page(&held[h], held_cc[h], 0, 0);
	if (vf_chance(&xr, 1, 3)) release_held(h);
}

/* ---------------- event handlers ---------------- */

static void check_str(const char *what, const void *s, size_t n)
{
	if (!memchr(s, 0, n))
		vf_fail("model:C01:event-string-unterminated", "%s in an event payload has no NUL within its %zu byte field (uninitialised or overrun)", what, n);
}

static void nested_call(vbi_event *ev)
{
	int sub;
	cnt[C_NESTED]++;
	switch (vf_below(&xr, 12)) {
	case 0: case 1: case 2:
		if (ev->type == VBI_EVENT_TTX_PAGE)
			do_fetch_vt(ev->ev.ttx_page.pgno, vf_chance(&xr, 1, 2) ? ev->ev.ttx_page.subno : VBI_ANY_SUBNO, (int)vf_below(&xr, 4), vf_chance(&xr, 1, 2) ? 25 : vf_range(&xr, 1, 25), (int)vf_below(&xr, 2), 0, 0);
		else { int pg = pick_pgno(&sub); do_fetch_vt(pg, sub, (int)vf_below(&xr, 4), 25, 1, 0, 0); }
		break;
	case 3: case 4:
		do_fetch_cc(ev->type == VBI_EVENT_CAPTION ? ev->ev.caption.pgno : vf_range(&xr, 1, 8), 0);
		break;
	case 5: do_classify(pick_pgno(&sub)); break;
	case 6: do_register((int)vf_below(&xr, 4), (int)vf_below(&xr, 12)); break;
	case 7: do_unregister((int)vf_below(&xr, 4)); break;
	case 8: if (rd & RD_CHSW) { vf_phase("vbi_channel_switched"); vbi_channel_switched(g_vbi, 0); cnt[C_CHSW]++; } break;
	case 9: { int pg = pick_pgno(&sub); vf_phase("vbi_is_cached"); cnt[C_IS_CACHED]++; if (vbi_is_cached(g_vbi, pg, sub)) cnt[C_IS_CACHED_YES]++; break; }
	case 10: { int pg = pick_pgno(&sub); do_title(pg, sub); break; }
	default:
		if ((rd & RD_SEARCH) && vf_chance(&xr, 1, 4)) do_search(vf_range(&xr, 0x100, 0x8FF), VBI_ANY_SUBNO, 2, 0);
		else { vf_phase("vbi_teletext_set_level"); vbi_teletext_set_level(g_vbi, vf_range(&xr, -1, 4)); cnt[C_LEVEL]++; }
	}
}

static void handle(vbi_event *ev)
{
	ev_seen |= (unsigned)ev->type;
	switch (ev->type) {
	case VBI_EVENT_TTX_PAGE:
		cnt[C_EV_TTX]++;
		note_page(ev->ev.ttx_page.pgno, ev->ev.ttx_page.subno);
		if (ev->ev.ttx_page.raw_header) { volatile uint8_t x = ev->ev.ttx_page.raw_header[0] ^ ev->ev.ttx_page.raw_header[39]; (void)x; }
		if (ev->ev.ttx_page.pn_offset < -1 || ev->ev.ttx_page.pn_offset > 37)
			vf_fail("model:C01:pn-offset", "TTX_PAGE event pn_offset=%d", ev->ev.ttx_page.pn_offset);
		break;
	case VBI_EVENT_CAPTION: cnt[C_EV_CAPTION]++; break;
	case VBI_EVENT_NETWORK: cnt[C_EV_NETWORK]++; check_str("network.name", ev->ev.network.name, sizeof ev->ev.network.name); break;
	case VBI_EVENT_NETWORK_ID: cnt[C_EV_NETWORK_ID]++; check_str("network.name", ev->ev.network.name, sizeof ev->ev.network.name); break;
	case VBI_EVENT_TRIGGER: {
		vbi_link *l = ev->ev.trigger;
		cnt[C_EV_TRIGGER]++;
		check_str("trigger.name", l->name, sizeof l->name);
		check_str("trigger.url", l->url, sizeof l->url);
		check_str("trigger.script", l->script, sizeof l->script);
		break; }
	case VBI_EVENT_ASPECT: { volatile double x = ev->ev.aspect.ratio + ev->ev.aspect.first_line; (void)x; cnt[C_EV_ASPECT]++; break; }
	case VBI_EVENT_PROG_INFO: {
		vbi_program_info *pi = ev->ev.prog_info;
		int i;
		cnt[C_EV_PROG_INFO]++;
		check_str("prog_info.title", pi->title, sizeof pi->title);
		for (i = 0; i < 8; i++) check_str("prog_info.description", pi->description[i], sizeof pi->description[i]);
		if (pi->audio[0].language) { volatile size_t l = strlen((const char *)pi->audio[0].language); (void)l; }
		if (pi->audio[1].language) { volatile size_t l = strlen((const char *)pi->audio[1].language); (void)l; }
		for (i = 0; i < 8; i++) if (pi->caption_language[i]) { volatile size_t l = strlen((const char *)pi->caption_language[i]); (void)l; }
		break; }
	case VBI_EVENT_LOCAL_TIME: { volatile long x = (long)ev->ev.local_time->time + ev->ev.local_time->seconds_east; (void)x; cnt[C_EV_LOCAL_TIME]++; break; }
	case VBI_EVENT_PROG_ID: { volatile long x = (long)ev->ev.prog_id->pil + ev->ev.prog_id->cni; (void)x; cnt[C_EV_PROG_ID]++; break; }
	default: cnt[C_EV_OTHER]++; break;
	}
	if (!in_handler && (rd & RD_NESTED) && nest_rate && vf_chance(&xr, 1, (unsigned)nest_rate)) {
		in_handler = 1;
		nested_call(ev);
		in_handler = 0;
	}
}
static void on_event(vbi_event *ev, void *ud) { (void)ud; handle(ev); }
static void on_event_b(vbi_event *ev, void *ud) { (void)ud; handle(ev); }

/* ---------------- cache census (observation through the internal header) ---------------- */

static void census(void)
{
	vbi_cache *ca = g_vbi->ca;
	cache_page *cp, *cp1;
	struct node *lists[2];
	int k;
	lists[0] = &ca->priority; lists[1] = &ca->referenced;
	for (k = 0; k < 2; k++)
		FOR_ALL_NODES (cp, cp1, lists[k], pri_node) {
			int c;
			switch (cp->function) {
			case PAGE_FUNCTION_LOP: c = C_FN_LOP; break;
			case PAGE_FUNCTION_UNKNOWN: c = C_FN_UNKNOWN; break;
			case PAGE_FUNCTION_GPOP: c = C_FN_GPOP; break;
			case PAGE_FUNCTION_POP: c = C_FN_POP; break;
			case PAGE_FUNCTION_GDRCS: c = C_FN_GDRCS; break;
			case PAGE_FUNCTION_DRCS: c = C_FN_DRCS; break;
			case PAGE_FUNCTION_AIT: c = C_FN_AIT; break;
			case PAGE_FUNCTION_MPT: c = C_FN_MPT; break;
			case PAGE_FUNCTION_MPT_EX: c = C_FN_MPTEX; break;
			default: c = C_FN_OTHER; break;
			}
			cnt[c]++;
			fn_seen |= 1u << (c - C_FN_LOP);
			cnt[C_CACHED_PAGES]++;
		}
}

/* ---------------- script execution ---------------- */

static void exec_op(const struct op *o)
{
	int sub;
	switch (o->kind) {
	case OP_FRAME:
	case OP_EMPTY_FRAME: {
		/* exact-size heap copy: reading one line too many is an ASan report */
		vbi_sliced *sl = malloc((size_t)(o->n ? o->n : 1) * sizeof *sl);
		if (!sl) return;
		if (o->n) memcpy(sl, pool + o->first, (size_t)o->n * sizeof *sl);
		cnt[C_FRAMES]++;
		if (caption_mutex_stuck("vbi_decode")) { free(sl); return; }
		vf_phase("vbi_decode");
		vbi_decode(g_vbi, sl, o->n, o->t);
		free(sl);
		break; }
	case OP_FETCH_VT: {
		int pg = pick_pgno(&sub), level = o->a & 3, rows = o->b, nav = (rd & RD_NAV) ? o->c : 0;
		do_fetch_vt(pg, sub, level, rows, nav, o->d, 1);
		break; }
	case OP_FETCH_CC: do_fetch_cc(o->a, 1); break;
	case OP_CLASSIFY: do_classify(o->a ? o->a : pick_pgno(&sub)); break;
	case OP_TITLE: { int pg = pick_pgno(&sub); do_title(pg, sub); break; }
	case OP_SEARCH: { int pg = o->a ? o->a : pick_pgno(&sub); do_search(pg, o->b, o->c, o->d); break; }
	case OP_CHSW: vf_phase("vbi_channel_switched"); vbi_channel_switched(g_vbi, 0); cnt[C_CHSW]++; break;
	case OP_REGISTER: do_register(o->a, o->b); break;
	case OP_UNREGISTER: do_unregister(o->a); break;
	case OP_REGION: vf_phase("vbi_teletext_set_default_region"); vbi_teletext_set_default_region(g_vbi, o->a); cnt[C_REGION]++; break;
	case OP_LEVEL: vf_phase("vbi_teletext_set_level"); vbi_teletext_set_level(g_vbi, o->a); cnt[C_LEVEL]++; break;
	case OP_BRIGHT: vf_phase("vbi_set_brightness"); vbi_set_brightness(g_vbi, o->a); vf_phase("vbi_set_contrast"); vbi_set_contrast(g_vbi, o->b); cnt[C_BRIGHT]++; break;
	case OP_IS_CACHED: { int pg = pick_pgno(&sub); vf_phase("vbi_is_cached"); cnt[C_IS_CACHED]++; if (vbi_is_cached(g_vbi, pg, sub)) { cnt[C_IS_CACHED_YES]++; api_ok |= 1u << 14; } break; }
	case OP_HI_SUBNO: { int pg = pick_pgno(&sub); if (pg >= 0x100 && pg <= 0x8FF) { volatile int x; vf_phase("vbi_cache_hi_subno"); x = vbi_cache_hi_subno(g_vbi, pg); (void)x; cnt[C_HI_SUBNO]++; } break; }
	case OP_HELD: do_held(); break;
	default: break;
	}
}

static void exec_reset_state(void)
{
	in_handler = 0; ev_seen = 0; api_ok = 0; fn_seen = 0; n_seen = 0; deadlock_reported = 0; case_aborted = 0;
	memset(held_ok, 0, sizeof held_ok);
	memset(&tmp_pg, 0, sizeof tmp_pg);
}

#endif
