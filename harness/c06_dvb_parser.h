/* Independent reader of DVB VBI streams, shared by the C06 and C07 harnesses.
 *
 * Written from the layouts in ISO/IEC 13818-1 (transport packet 2.4.3.2, PES
 * packet 2.4.3.6/2.4.3.7), EN 300 472 section 4 and EN 301 775 section 4
 * (tables 1-12), NOT from src/dvb_demux.c:
 *
 *  transport packet (188 bytes)
 *    sync_byte 0x47 | transport_error_indicator 1, payload_unit_start_indicator 1,
 *    transport_priority 1, PID 13 | transport_scrambling_control 2,
 *    adaptation_field_control 2, continuity_counter 4 | 184 bytes payload
 *    VBI: adaptation_field_control '01', not scrambled, PUSI exactly on the
 *    packet that starts a PES packet, continuity_counter + 1 mod 16.
 *
 *  PES packet
 *    00 00 01 | stream_id 0xBD (private_stream_1) | PES_packet_length 16 (N*184-6)
 *    '10' PES_scrambling_control 2 ('00') PES_priority data_alignment_indicator ('1')
 *         copyright original_or_copy
 *    PTS_DTS_flags 2 ('10') ESCR ES_rate DSM_trick additional_copy CRC extension (all 0)
 *    PES_header_data_length 0x24
 *    '0010' PTS[32..30] '1' | PTS[29..22] | PTS[21..15] '1' | PTS[14..7] | PTS[6..0] '1'
 *    31 stuffing bytes 0xFF          (header is 45 bytes in total)
 *    data_identifier 0x10-0x1F (every data unit has length 0x2C) or 0x99-0x9B
 *    data units up to the end of the packet, none crossing it:
 *      data_unit_id | data_unit_length | data_field | N stuffing bytes 0xFF
 *
 *  data fields (first byte: reserved '11' or segment flags, field_parity, line_offset 5)
 *    0x02/0x03 Teletext  framing_code 0xE4, 42 bytes msb = first bit in the VBI;
 *                        line_offset 0 (undefined) or 7-22
 *    0xC3 VPS            13 bytes msb first; field_parity 1, line_offset 16
 *    0xC4 WSS            14 bits msb first + reserved '11'; field_parity 1, line_offset 23
 *    0xC5 Closed Caption 16 bits msb first; field_parity 1, line_offset 21
 *    0xC6 monochrome 4:2:2 samples  first_segment last_segment field_parity line_offset 7-23,
 *                        first_pixel_position 16, n_pixels 8 (1-251), Y samples
 *    0xFF stuffing       all bytes 0xFF
 *
 * libzvbi sliced bit order (from the modulation column of the raw decoder's
 * service table): Teletext, Caption and WSS bytes hold the first transmitted
 * bit in the lsb, so the stream bytes are bit-reversed; VPS is msb first and
 * is copied.
 */
#ifndef C06_DVB_PARSER_H
#define C06_DVB_PARSER_H

#include <stdint.h>
#include <stddef.h>
#include <string.h>
#include <stdio.h>

enum { DK_TTX = 1, DK_VPS, DK_WSS, DK_CC, DK_RAW };

static const char *dp_kind_name(int k)
{
	switch (k) {
	case DK_TTX: return "teletext";
	case DK_VPS: return "vps";
	case DK_WSS: return "wss";
	case DK_CC: return "caption";
	case DK_RAW: return "raw";
	}
	return "?";
}

#define DP_MAXLINES 96
#define DP_MAXRAW 40
#define DP_MAXDU 1600

struct dp_line {
	int kind;
	unsigned line;                  /* ITU-R frame line; 0 = undefined (Teletext only) */
	int second_field;
	uint8_t data[42];               /* libzvbi sliced bit order */
	unsigned first_pixel, n_samples;/* DK_RAW */
	int raw_idx;                    /* DK_RAW: index into raw[] or -1 */
	unsigned du_off;
};

struct dp_pes {
	unsigned size;
	int64_t pts;
	unsigned data_identifier;
	int fixed;
	int n_lines;                    /* stored in lines[] */
	int n_lines_total;              /* found */
	struct dp_line lines[DP_MAXLINES];
	int n_raw;
	uint8_t raw[DP_MAXRAW][720];
	int n_du;
	unsigned du_off[DP_MAXDU];      /* offset of every data unit in the packet */
	int n_stuffing_units, n_padded_units, split257;
};

static uint8_t dp_rev8(uint8_t c)
{
	uint8_t r = 0;
	int i;
	for (i = 0; i < 8; i++)
		if (c & (1u << i)) r |= (uint8_t)(0x80u >> i);
	return r;
}

static int dp_all_ff(const uint8_t *p, size_t n)
{
	size_t i;
	for (i = 0; i < n; i++) if (p[i] != 0xFF) return 0;
	return 1;
}

#define DP_FAIL(rule, ...) do { snprintf(why, whylen, __VA_ARGS__); return rule; } while (0)

/* Strict parse of one PES packet occupying exactly p[0..n).  Returns NULL when
 * the packet is well-formed, else the name of the violated rule (why = detail). */
static const char *dp_parse_pes(const uint8_t *p, size_t n, struct dp_pes *o, char *why, size_t whylen)
{
	size_t pos;
	unsigned plen, last_line = 0;
	int open_raw = -1;              /* index in lines[] of a raw line still missing segments */
	unsigned raw_next = 0;          /* next expected first_pixel_position */
	unsigned raw_lofp = 0;
	int open_uncounted = 0;

	o->size = (unsigned)n;
	o->n_lines = o->n_lines_total = o->n_raw = o->n_du = 0;
	o->n_stuffing_units = o->n_padded_units = o->split257 = 0;
	o->pts = -1; o->data_identifier = 0; o->fixed = 0;
	if (whylen) why[0] = 0;

	if (n < 184 || n % 184 != 0) DP_FAIL("pes-size", "PES packet size %zu is not a positive multiple of 184", n);
	if (p[0] != 0 || p[1] != 0 || p[2] != 1) DP_FAIL("start-code", "packet_start_code_prefix %02x%02x%02x", p[0], p[1], p[2]);
	if (p[3] != 0xBD) DP_FAIL("stream-id", "stream_id 0x%02x, expected private_stream_1 0xBD", p[3]);
	plen = (unsigned)p[4] * 256u + p[5];
	if ((size_t)plen + 6 != n) DP_FAIL("pes-length", "PES_packet_length %u + 6 != packet size %zu", plen, n);
	if ((p[6] & 0xC0) != 0x80) DP_FAIL("pes-flags", "byte 6 = 0x%02x: marker bits not '10'", p[6]);
	if (p[6] & 0x30) DP_FAIL("pes-flags", "byte 6 = 0x%02x: PES_scrambling_control not '00'", p[6]);
	if (!(p[6] & 0x04)) DP_FAIL("pes-flags", "byte 6 = 0x%02x: data_alignment_indicator not set", p[6]);
	if ((p[7] & 0xC0) != 0x80) DP_FAIL("pts-flags", "byte 7 = 0x%02x: PTS_DTS_flags not '10'", p[7]);
	if (p[7] & 0x3F) DP_FAIL("pts-flags", "byte 7 = 0x%02x: optional field flags set but the header has room for a PTS only", p[7]);
	if (p[8] != 0x24) DP_FAIL("header-length", "PES_header_data_length 0x%02x, expected 0x24", p[8]);
	if ((p[9] & 0xF0) != 0x20) DP_FAIL("pts-markers", "PTS byte 0 = 0x%02x: prefix not '0010'", p[9]);
	if (!(p[9] & 1) || !(p[11] & 1) || !(p[13] & 1))
		DP_FAIL("pts-markers", "PTS marker bit missing in %02x %02x %02x %02x %02x", p[9], p[10], p[11], p[12], p[13]);
	o->pts = ((int64_t)((p[9] >> 1) & 7) << 30) | ((int64_t)p[10] << 22) | ((int64_t)(p[11] >> 1) << 15)
		| ((int64_t)p[12] << 7) | (int64_t)(p[13] >> 1);
	if (!dp_all_ff(p + 14, 31)) DP_FAIL("header-stuffing", "PES header stuffing bytes are not all 0xFF: %02x.. at byte 14", p[14]);
	o->data_identifier = p[45];
	if (p[45] >= 0x10 && p[45] <= 0x1F) o->fixed = 1;
	else if (p[45] >= 0x99 && p[45] <= 0x9B) o->fixed = 0;
	else DP_FAIL("data-identifier", "data_identifier 0x%02x is not 0x10-0x1F or 0x99-0x9B", p[45]);

	pos = 46;
	while (pos < n) {
		unsigned id, len, minlen = 0, lofp, fp, lo, line;
		const uint8_t *d;
		struct dp_line *l = NULL;
		int kind = 0;

		if (pos + 2 > n) DP_FAIL("du-crosses-end", "one byte left at offset %zu, too small for a data unit", pos);
		id = p[pos]; len = p[pos + 1];
		d = p + pos + 2;
		if (pos + 2 + len > n) DP_FAIL("du-crosses-end", "data unit 0x%02x at offset %zu with length %u crosses the packet end %zu", id, pos, len, n);
		if (o->fixed && len != 0x2C) DP_FAIL("du-fixed-length", "data unit 0x%02x at offset %zu has length 0x%02x, data_identifier 0x%02x requires 0x2C", id, pos, len, p[45]);
		if (o->n_du < DP_MAXDU) o->du_off[o->n_du] = (unsigned)pos;
		o->n_du++;

		switch (id) {
		case 0xFF:
			if (!dp_all_ff(d, len)) DP_FAIL("stuffing-bytes", "stuffing data unit at offset %zu contains a byte other than 0xFF", pos);
			o->n_stuffing_units++;
			if (len == 0 && pos + 2 == n && pos >= 46 + 256 && p[pos - 256] == 0xFF && p[pos - 255] == 254)
				o->split257 = 1;
			pos += 2 + len;
			continue;
		case 0x02: case 0x03: kind = DK_TTX; minlen = 1 + 1 + 42; break;
		case 0xC3: kind = DK_VPS; minlen = 1 + 13; break;
		case 0xC4: kind = DK_WSS; minlen = 1 + 2; break;
		case 0xC5: kind = DK_CC; minlen = 1 + 2; break;
		case 0xC6: kind = DK_RAW; minlen = 1 + 2 + 1 + 1; break;
		default:
			DP_FAIL("du-id", "data_unit_id 0x%02x at offset %zu is not defined for VBI data", id, pos);
		}
		if (len < minlen) DP_FAIL("du-length", "data unit 0x%02x at offset %zu: length %u < %u", id, pos, len, minlen);
		lofp = d[0];
		fp = (lofp >> 5) & 1;
		lo = lofp & 31;
		line = lo ? (fp ? lo : 313 + lo) : 0;

		if (kind != DK_RAW && (open_raw >= 0 || open_uncounted))
			DP_FAIL("raw-segments", "data unit 0x%02x at offset %zu follows a raw line whose last segment is missing", id, pos);
		if (kind != DK_RAW && (lofp & 0xC0) != 0xC0)
			DP_FAIL("du-reserved-bits", "data unit 0x%02x at offset %zu: reserved bits of byte 0x%02x not '11'", id, pos, lofp);

		switch (kind) {
		case DK_TTX:
			if (lo != 0 && (lo < 7 || lo > 22)) DP_FAIL("du-line-offset", "Teletext line_offset %u (field_parity %u) at offset %zu", lo, fp, pos);
			if (d[1] != 0xE4) DP_FAIL("ttx-framing-code", "framing_code 0x%02x at offset %zu, expected 0xE4", d[1], pos);
			break;
		case DK_VPS:
			if (!fp || lo != 16) DP_FAIL("du-line-offset", "VPS field_parity %u line_offset %u at offset %zu, must be first field line 16", fp, lo, pos);
			break;
		case DK_WSS:
			if (!fp || lo != 23) DP_FAIL("du-line-offset", "WSS field_parity %u line_offset %u at offset %zu, must be first field line 23", fp, lo, pos);
			if ((d[2] & 3) != 3) DP_FAIL("du-reserved-bits", "WSS data unit at offset %zu: trailing reserved bits of 0x%02x not '11'", pos, d[2]);
			break;
		case DK_CC:
			if (!fp || lo != 21) DP_FAIL("du-line-offset", "Closed Caption field_parity %u line_offset %u at offset %zu, must be first field line 21", fp, lo, pos);
			break;
		case DK_RAW:
			if (lo < 7 || lo > 23) DP_FAIL("du-line-offset", "monochrome samples line_offset %u at offset %zu, must be 7-23", lo, pos);
			break;
		}

		if (kind == DK_RAW) {
			unsigned fpp = (unsigned)d[1] * 256u + d[2], np = d[3];
			int first = !!(lofp & 0x80), last = !!(lofp & 0x40);
			if (np < 1 || np > 251) DP_FAIL("raw-n-pixels", "n_pixels %u at offset %zu, must be 1-251", np, pos);
			if (len < 4 + np) DP_FAIL("du-length", "monochrome samples unit at offset %zu: length %u < 4 + n_pixels %u", pos, len, np);
			if (fpp + np > 720) DP_FAIL("raw-position", "first_pixel_position %u + n_pixels %u > 720 at offset %zu", fpp, np, pos);
			if (!dp_all_ff(d + 4 + np, len - 4 - np)) DP_FAIL("du-stuffing-bytes", "bytes after the samples at offset %zu are not 0xFF", pos);
			if (len > 4 + np && !o->fixed) o->n_padded_units++;
			if (first) {
				if (open_raw >= 0 || open_uncounted) DP_FAIL("raw-segments", "first segment at offset %zu while the previous raw line is incomplete", pos);
				if (line <= last_line) DP_FAIL("line-order", "raw line %u at offset %zu after line %u", line, pos, last_line);
				last_line = line;
				o->n_lines_total++;
				if (o->n_lines < DP_MAXLINES && o->n_raw < DP_MAXRAW) {
					l = &o->lines[o->n_lines];
					memset(l, 0, sizeof *l);
					l->kind = DK_RAW; l->line = line; l->second_field = !fp;
					l->first_pixel = fpp; l->n_samples = 0; l->raw_idx = o->n_raw;
					l->du_off = (unsigned)pos;
					memset(o->raw[o->n_raw], 0, 720);
					open_raw = o->n_lines;
					o->n_lines++; o->n_raw++;
				} else {
					open_raw = -1; open_uncounted = 1;
				}
				raw_next = fpp; raw_lofp = lofp & 0x3F;
			} else {
				if (open_raw < 0 && !open_uncounted) DP_FAIL("raw-segments", "continuation segment at offset %zu without a first segment", pos);
				if ((lofp & 0x3F) != raw_lofp) DP_FAIL("raw-segments", "continuation segment at offset %zu names another line (0x%02x vs 0x%02x)", pos, lofp & 0x3F, raw_lofp);
				if (fpp != raw_next) DP_FAIL("raw-segments", "continuation segment at offset %zu starts at pixel %u, expected %u", pos, fpp, raw_next);
			}
			if (open_raw >= 0) {
				l = &o->lines[open_raw];
				memcpy(o->raw[l->raw_idx] + (fpp - l->first_pixel), d + 4, np);
				l->n_samples += np;
			}
			raw_next = fpp + np;
			if (last) { open_raw = -1; open_uncounted = 0; }
			pos += 2 + len;
			continue;
		}

		/* sliced line */
		{
			static const unsigned paylen[] = { 0, 2 + 42, 1 + 13, 1 + 2, 1 + 2 };
			if (!dp_all_ff(d + paylen[kind], len - paylen[kind]))
				DP_FAIL("du-stuffing-bytes", "bytes after the data field of unit 0x%02x at offset %zu are not 0xFF", id, pos);
			if (len > paylen[kind] && !o->fixed) o->n_padded_units++;
		}
		if (line != 0) {
			if (line <= last_line) DP_FAIL("line-order", "line %u (unit 0x%02x at offset %zu) after line %u", line, id, pos, last_line);
			last_line = line;
		}
		o->n_lines_total++;
		if (o->n_lines < DP_MAXLINES) {
			int i;
			l = &o->lines[o->n_lines++];
			memset(l, 0, sizeof *l);
			l->kind = kind; l->line = line; l->second_field = !fp; l->raw_idx = -1; l->du_off = (unsigned)pos;
			switch (kind) {
			case DK_TTX: for (i = 0; i < 42; i++) l->data[i] = dp_rev8(d[2 + i]); break;
			case DK_VPS: memcpy(l->data, d + 1, 13); break;
			case DK_WSS: l->data[0] = dp_rev8(d[1]); l->data[1] = (uint8_t)(dp_rev8(d[2]) & 0x3F); break;
			case DK_CC: l->data[0] = dp_rev8(d[1]); l->data[1] = dp_rev8(d[2]); break;
			}
		}
		pos += 2 + len;
	}
	if (open_raw >= 0 || open_uncounted) DP_FAIL("raw-segments", "last segment of a raw line is missing at the packet end");
	return NULL;
}

/* Number of payload bytes to compare for a sliced kind; WSS is compared on 14 bits by the caller */
static unsigned dp_payload_bytes(int kind)
{
	switch (kind) {
	case DK_TTX: return 42;
	case DK_VPS: return 13;
	case DK_WSS: return 2;
	case DK_CC: return 2;
	}
	return 0;
}

/* ---------------- transport stream ---------------- */

struct dp_ts_hdr { int tei, pusi, prio; unsigned pid; int scrambling, afc; unsigned cc; };

static void dp_ts_header(const uint8_t *p, struct dp_ts_hdr *h)
{
	h->tei = (p[1] >> 7) & 1;
	h->pusi = (p[1] >> 6) & 1;
	h->prio = (p[1] >> 5) & 1;
	h->pid = ((unsigned)(p[1] & 0x1F) << 8) | p[2];
	h->scrambling = (p[3] >> 6) & 3;
	h->afc = (p[3] >> 4) & 3;
	h->cc = p[3] & 15;
}

struct dp_ts_state {
	unsigned pid;
	int have_cc;
	unsigned next_cc;
	size_t have, need;              /* PES bytes collected / total (0 = between PES packets) */
	long n_packets;
	uint8_t pes[65536 + 6 + 184];
};

static void dp_ts_init(struct dp_ts_state *st, unsigned pid)
{
	st->pid = pid; st->have_cc = 0; st->next_cc = 0; st->have = st->need = 0; st->n_packets = 0;
}

/* Push one 188-byte transport packet of a VBI-only stream.  Returns NULL if it
 * conforms, else the violated rule.  *complete is set when a PES packet is
 * complete in st->pes[0..st->have). */
static const char *dp_ts_push(struct dp_ts_state *st, const uint8_t *p, int *complete, char *why, size_t whylen)
{
	struct dp_ts_hdr h;
	*complete = 0;
	if (whylen) why[0] = 0;
	if (p[0] != 0x47) DP_FAIL("ts-sync", "sync_byte 0x%02x in transport packet %ld", p[0], st->n_packets);
	dp_ts_header(p, &h);
	if (h.tei) DP_FAIL("ts-error-indicator", "transport_error_indicator set in packet %ld", st->n_packets);
	if (h.pid != st->pid) DP_FAIL("ts-pid", "PID 0x%04x in packet %ld, expected 0x%04x", h.pid, st->n_packets, st->pid);
	if (h.scrambling) DP_FAIL("ts-scrambling", "transport_scrambling_control %d in packet %ld", h.scrambling, st->n_packets);
	if (h.afc != 1) DP_FAIL("ts-adaptation-field-control", "adaptation_field_control %d in packet %ld, expected '01'", h.afc, st->n_packets);
	if (st->have_cc && h.cc != st->next_cc)
		DP_FAIL("ts-continuity", "continuity_counter %u in packet %ld, expected %u", h.cc, st->n_packets, st->next_cc);
	st->have_cc = 1;
	st->next_cc = (h.cc + 1) & 15;
	if (st->need == 0) {
		unsigned plen;
		if (!h.pusi) DP_FAIL("ts-payload-unit-start", "packet %ld starts a PES packet but payload_unit_start_indicator is 0", st->n_packets);
		if (p[4] != 0 || p[5] != 0 || p[6] != 1) DP_FAIL("start-code", "payload of packet %ld with PUSI does not begin with a start code: %02x%02x%02x", st->n_packets, p[4], p[5], p[6]);
		plen = (unsigned)p[8] * 256u + p[9];
		if ((plen + 6) % 184 != 0) DP_FAIL("pes-size", "PES_packet_length %u + 6 is not a multiple of 184 (packet %ld)", plen, st->n_packets);
		st->need = plen + 6;
		st->have = 0;
	} else {
		if (h.pusi) DP_FAIL("ts-payload-unit-start", "payload_unit_start_indicator set in packet %ld inside a PES packet", st->n_packets);
	}
	memcpy(st->pes + st->have, p + 4, 184);
	st->have += 184;
	st->n_packets++;
	if (st->have >= st->need) {
		*complete = 1;
		st->need = 0;
	}
	return NULL;
}

/* ---------------- PES framing (ISO 13818-1), used by C07 ---------------- */

/* Position of the next packet_start_code_prefix followed by a stream_id that
 * names a PES packet (0xBC-0xFF) at or after pos; n if none is complete. */
static size_t dp_pes_next_header(const uint8_t *s, size_t n, size_t pos)
{
	for (; pos + 4 <= n; pos++)
		if (s[pos] == 0 && s[pos + 1] == 0 && s[pos + 2] == 1 && s[pos + 3] >= 0xBC)
			return pos;
	return n;
}

/* End of the PES packet whose header is at pos (6 + PES_packet_length), or
 * (size_t)-1 when the length field is not inside the stream. */
static size_t dp_pes_claimed_end(const uint8_t *s, size_t n, size_t pos)
{
	if (pos + 6 > n) return (size_t)-1;
	return pos + 6 + ((size_t)s[pos + 4] * 256u + s[pos + 5]);
}

#endif
