/* C08 - Closed Caption display memory follows EIA-608 / 47 CFR 15.119 for every command sequence.
 *
 * Transmitter: an independent EIA-608 encoder (c08_enc.h) produces command / character
 * histories for both fields and all eight channels.  System under test: the caption decoder
 * inside the service decoder (src/caption.c), fed through vbi_decode() with
 * VBI_SLICED_CAPTION_525 on lines 21 / 284, observed through vbi_fetch_cc_page(1..8) and
 * VBI_EVENT_CAPTION.  Oracle: the reference display-memory model of c08_model.h (written from
 * the rule texts quoted in /repo/test/cc608-*.xml), strict first, then with named quirks
 * (DESIGN.md section 2 item 5).
 *
 * The decoder runs once per case; its pages at the checkpoints are recorded and every model
 * variant is evaluated against the record.
 */
#include "vf.h"
#include <string.h>
#include <stdlib.h>
#include <stdarg.h>
#include <limits.h>
/* internal headers: libzvbi.h cannot be combined with cc608_decoder.h (third opinion for triage) */
#include "vbi.h"
#include "sliced.h"
#include "cc.h"
#include "cc608_decoder.h"
#include "c08_enc.h"
#include "c08_model.h"

#define MAXFRAMES 6000
#define MAXCK 72

struct frame { uint8_t p[2][2]; uint8_t ck; };
static struct frame frames[MAXFRAMES];
static int n_frames;

/* ------------------------------------------------------------------ */
/* record of the decoder run                                           */

struct dcell { uint16_t uc; uint8_t fg, bg, op, fl; };
#define DF_UL 1
#define DF_IT 2
#define DF_FL 4
#define DF_OTHER 8

struct snap {
	int frame;
	struct dcell pg[8][M_ROWS][M_COLS];
	int ev[8];          /* caption events for the page since the previous checkpoint */
	int changed[8];     /* page differs from the previous checkpoint */
	int fetch_ok[8];
};
static struct snap snaps[MAXCK];
static struct dcell prev_pg[8][M_ROWS][M_COLS];
static int n_snaps;
static int ev_count[8], ev_other;

static void cap_handler(vbi_event *ev, void *ud)
{
	(void)ud;
	if (ev->type == VBI_EVENT_CAPTION) {
		int p = ev->ev.caption.pgno;
		if (p >= 1 && p <= 8) ev_count[p - 1]++;
		else ev_other++;
	}
}

static int fetch_page(vbi_decoder *vbi, int p, struct dcell out[M_ROWS][M_COLS])
{
	static vbi_page pg;
	int r, c;
	vf_phase("vbi_fetch_cc_page");
	if (!vbi_fetch_cc_page(vbi, &pg, p + 1, TRUE)) return 0;
	if (pg.rows != M_ROWS || pg.columns != M_COLS) return -1;
	for (r = 0; r < M_ROWS; r++)
		for (c = 0; c < M_COLS; c++) {
			const vbi_char *vc = &pg.text[r * pg.columns + c];
			struct dcell *d = &out[r][c];
			d->uc = (uint16_t)vc->unicode;
			d->fg = (uint8_t)vc->foreground; d->bg = (uint8_t)vc->background; d->op = (uint8_t)vc->opacity;
			d->fl = (uint8_t)((vc->underline ? DF_UL : 0) | (vc->italic ? DF_IT : 0) | (vc->flash ? DF_FL : 0)
				| ((vc->bold || vc->conceal || vc->size) ? DF_OTHER : 0));
		}
	return 1;
}

static void take_snapshot(vbi_decoder *vbi, int frame)
{
	struct snap *s;
	int p;
	if (n_snaps >= MAXCK) return;
	s = &snaps[n_snaps++];
	s->frame = frame;
	for (p = 0; p < 8; p++) {
		s->fetch_ok[p] = fetch_page(vbi, p, s->pg[p]);
		s->ev[p] = ev_count[p];
		ev_count[p] = 0;
		s->changed[p] = 0 != memcmp(s->pg[p], prev_pg[p], sizeof prev_pg[p]);
		memcpy(prev_pg[p], s->pg[p], sizeof prev_pg[p]);
	}
}

static int sut_cc608;      /* mode "cc608": the second EIA-608 implementation of the library (src/cc608_decoder.c) is the system under test */

static int fetch_page_cc608(_vbi_cc608_decoder *cd, int p, struct dcell out[M_ROWS][M_COLS])
{
	static vbi_page pg;
	int r, c;
	vf_phase("_vbi_cc608_decoder_get_page");
	if (!_vbi_cc608_decoder_get_page(cd, &pg, p + 1, TRUE)) return 0;
	if (pg.rows != M_ROWS || pg.columns != M_COLS) return -1;
	for (r = 0; r < M_ROWS; r++)
		for (c = 0; c < M_COLS; c++) {
			const vbi_char *vc = &pg.text[r * pg.columns + c];
			struct dcell *d = &out[r][c];
			d->uc = (uint16_t)vc->unicode;
			d->fg = (uint8_t)vc->foreground; d->bg = (uint8_t)vc->background; d->op = (uint8_t)vc->opacity;
			d->fl = (uint8_t)((vc->underline ? DF_UL : 0) | (vc->italic ? DF_IT : 0) | (vc->flash ? DF_FL : 0)
				| ((vc->bold || vc->conceal || vc->size) ? DF_OTHER : 0));
		}
	return 1;
}

static void run_decoder_cc608(void)
{
	_vbi_cc608_decoder *cd;
	double t = 1000.0;
	int i, p;
	n_snaps = 0;
	memset(ev_count, 0, sizeof ev_count);
	ev_other = 0;
	vf_phase("_vbi_cc608_decoder_new");
	cd = _vbi_cc608_decoder_new();
	if (!cd) { vf_fail("harness:alloc", "_vbi_cc608_decoder_new failed"); return; }
	for (p = 0; p < 8; p++) fetch_page_cc608(cd, p, prev_pg[p]);
	for (i = 0; i < n_frames; i++) {
		uint8_t b[2];
		vf_phase("_vbi_cc608_decoder_feed");
		b[0] = e608_par(frames[i].p[0][0]); b[1] = e608_par(frames[i].p[0][1]);
		_vbi_cc608_decoder_feed(cd, b, 21, t, -1);
		b[0] = e608_par(frames[i].p[1][0]); b[1] = e608_par(frames[i].p[1][1]);
		_vbi_cc608_decoder_feed(cd, b, 284, t, -1);
		t += 1001.0 / 30000.0;
		if (frames[i].ck && n_snaps < MAXCK) {
			struct snap *s = &snaps[n_snaps++];
			s->frame = i;
			for (p = 0; p < 8; p++) {
				s->fetch_ok[p] = fetch_page_cc608(cd, p, s->pg[p]);
				s->ev[p] = 1;          /* the event clause is decided on the service decoder (job asan) */
				s->changed[p] = 0 != memcmp(s->pg[p], prev_pg[p], sizeof prev_pg[p]);
				memcpy(prev_pg[p], s->pg[p], sizeof prev_pg[p]);
			}
		}
	}
	vf_phase("_vbi_cc608_decoder_delete");
	_vbi_cc608_decoder_delete(cd);
	vf_phase("case");
}

static void run_decoder(void)
{
	vbi_decoder *vbi;
	double t = 1000.0;
	int i, p, trace_page = -1;
	if (sut_cc608) { run_decoder_cc608(); return; }
	if (vf_verbose && getenv("C08_TRACE_PAGE")) trace_page = atoi(getenv("C08_TRACE_PAGE")) - 1;
	if (trace_page > 7) trace_page = -1;
	n_snaps = 0;
	memset(ev_count, 0, sizeof ev_count);
	ev_other = 0;
	vf_phase("vbi_decoder_new");
	vbi = vbi_decoder_new();
	if (!vbi) { vf_fail("harness:alloc", "vbi_decoder_new failed"); return; }
	vbi_event_handler_register(vbi, VBI_EVENT_CAPTION, cap_handler, NULL);
	for (p = 0; p < 8; p++) fetch_page(vbi, p, prev_pg[p]);
	for (i = 0; i < n_frames; i++) {
		vbi_sliced sl[2];
		memset(sl, 0, sizeof sl);
		sl[0].id = VBI_SLICED_CAPTION_525; sl[0].line = 21;
		sl[0].data[0] = e608_par(frames[i].p[0][0]); sl[0].data[1] = e608_par(frames[i].p[0][1]);
		sl[1].id = VBI_SLICED_CAPTION_525; sl[1].line = 284;
		sl[1].data[0] = e608_par(frames[i].p[1][0]); sl[1].data[1] = e608_par(frames[i].p[1][1]);
		vf_phase("vbi_decode");
		vbi_decode(vbi, sl, 2, t);
		t += 1001.0 / 30000.0;
		if (frames[i].ck) take_snapshot(vbi, i);
		if (trace_page >= 0) {
			/* triage aid (-v and C08_TRACE_PAGE=1..8): rows of that page whenever they change */
			static struct dcell cur[M_ROWS][M_COLS], old[M_ROWS][M_COLS];
			int r;
			if (i == 0) memset(old, 0, sizeof old);
			if (fetch_page(vbi, trace_page, cur) == 1)
				for (r = 0; r < M_ROWS; r++)
					if (memcmp(cur[r], old[r], sizeof cur[r])) {
						char b[40];
						int c;
						for (c = 0; c < M_COLS; c++)
							b[c] = cur[r][c].op == VBI_TRANSPARENT_SPACE ? ' ' : cur[r][c].uc == 0x20 ? '_' : (cur[r][c].uc > 0x20 && cur[r][c].uc < 0x7f) ? (char)cur[r][c].uc : '#';
						b[M_COLS] = 0;
						vf_log("  trace: after frame %d page %d row %2d [%s]\n", i, trace_page + 1, r + 1, b);
					}
			memcpy(old, cur, sizeof old);
		}
	}
	vf_phase("vbi_decoder_delete");
	vbi_decoder_delete(vbi);
	vf_phase("case");
}

/* ------------------------------------------------------------------ */
/* character table: 47 CFR 15.119 (g) "Standard characters" / "Special characters" [CS],     */
/* EIA-608-B 6.4.2 extended characters by the names given in cc608-charsets.xml.              */

static const uint16_t special_uc[16] = { 0xAE, 0xB0, 0xBD, 0xBF, 0x2122, 0xA2, 0xA3, 0x266A, 0xE0, 0x20, 0xE8, 0xE2, 0xEA, 0xEE, 0xF4, 0xFB };
static const uint16_t ext2_uc[32] = {
	0xC1, 0xC9, 0xD3, 0xDA, 0xDC, 0xFC, 0x2018, 0xA1, 0x2A, 0x27, 0x2014, 0xA9, 0x2120, 0x2022, 0x201C, 0x201D,
	0xC0, 0xC2, 0xC7, 0xC8, 0xCA, 0xCB, 0xEB, 0xCE, 0xCF, 0xEF, 0xD4, 0xD9, 0xF9, 0xDB, 0xAB, 0xBB };
static const uint16_t ext3_uc[32] = {
	0xC3, 0xE3, 0xCD, 0xCC, 0xEC, 0xD2, 0xF2, 0xD5, 0xF5, 0x7B, 0x7D, 0x5C, 0x5E, 0x5F, 0x7C, 0x7E,
	0xC4, 0xE4, 0xD6, 0xF6, 0xDF, 0xA5, 0xA4, 0x2502, 0xC5, 0xE5, 0xD8, 0xF8, 0x250C, 0x2510, 0x2514, 0x2518 };

static unsigned ref_unicode(unsigned code)
{
	if (code < 0x80) {
		switch (code) {
		case 0x2A: return 0xE1; case 0x5C: return 0xE9; case 0x5E: return 0xED; case 0x5F: return 0xF3;
		case 0x60: return 0xFA; case 0x7B: return 0xE7; case 0x7C: return 0xF7; case 0x7D: return 0xD1;
		case 0x7E: return 0xF1; case 0x7F: return 0x2588;
		default: return code;
		}
	}
	if ((code & 0xFFF0) == 0x1130) return special_uc[code & 15];
	if ((code & 0xFFE0) == 0x1220) return ext2_uc[code & 31];
	if ((code & 0xFFE0) == 0x1320) return ext3_uc[code & 31];
	return 0xFFFD;
}

static int uc_matches(unsigned code, unsigned uc)
{
	unsigned want = ref_unicode(code);
	if (uc == want) return 1;
	if (code == 0x7F && uc == 0x25A0) return 1;   /* "solid block": U+2588 or U+25A0, the standard names no code point */
	return 0;
}

static const uint8_t vbi_col_of[8] = { VBI_WHITE, VBI_GREEN, VBI_BLUE, VBI_CYAN, VBI_RED, VBI_YELLOW, VBI_MAGENTA, VBI_BLACK };

/* ------------------------------------------------------------------ */
/* comparison of one page                                              */

struct mismatch {
	int any;
	int ck, frame, page, row, col;
	const char *kind;
	char text[200];
};

static void mm_set(struct mismatch *mm, int page, int row, int col, const char *kind, const char *fmt, ...)
{
	va_list ap;
	if (mm->any) return;
	mm->any = 1; mm->page = page; mm->row = row; mm->col = col; mm->kind = kind;
	va_start(ap, fmt);
	vsnprintf(mm->text, sizeof mm->text, fmt, ap);
	va_end(ap);
}

static long cells_compared;
static int collect_evidence, nonempty_compared;

static int is_space_cell(const struct dcell *d) { return d->uc == 0x20; }

static void compare_page(const struct model *m, int page, const struct dcell pg[M_ROWS][M_COLS], struct mismatch *mm)
{
	const struct m_chan *c = &m->ch[page];
	const struct m_mem *ref = &c->mem[c->disp];
	int text = page >= 4, r, col;
	for (r = 0; r < M_ROWS && !mm->any; r++)
		for (col = 0; col < M_COLS; col++) {
			const struct m_cell *rc = &ref->c[r][col];
			const struct dcell *d = &pg[r][col];
			if (collect_evidence == 1) cells_compared++;
			if (rc->kind == K_EMPTY) {
				int adj;
				if (text) {
					/* Text Mode displays a box; an empty reference cell is a space of any opacity */
					if (!is_space_cell(d)) { mm_set(mm, page, r, col, col == 0 || col == 33 ? "margin" : "spurious-char", "reference cell empty, page has U+%04X", d->uc); return; }
					continue;
				}
				if (d->op == VBI_TRANSPARENT_SPACE) {
					if (!is_space_cell(d)) { mm_set(mm, page, r, col, "spurious-char", "transparent cell holds U+%04X", d->uc); return; }
					continue;
				}
				/* 15.119 (d)(1) [RU]: "a solid space equal to one column width may be placed before the first
				 * character and after the last character of each row" */
				adj = (col > 0 && ref->c[r][col - 1].kind != K_EMPTY) || (col < 33 && ref->c[r][col + 1].kind != K_EMPTY);
				if (is_space_cell(d) && adj) continue;
				if (is_space_cell(d) && QON(m, Q_STALE_SOLID_SPACE) && rc->hadnb) continue;
				mm_set(mm, page, r, col, is_space_cell(d) ? (col == 0 || col == 33 ? "margin" : "spurious-space") : "spurious-char",
				       "reference cell transparent, page has U+%04X opacity %d", d->uc, d->op);
				return;
			}
			/* non-empty reference cell */
			if (!text && d->op == VBI_TRANSPARENT_SPACE) {
				mm_set(mm, page, r, col, "missing", "reference has code 0x%04X, page cell is transparent", rc->code); return;
			}
			if (rc->kind == K_ATTR || rc->code == 0x20) {
				if (!is_space_cell(d)) { mm_set(mm, page, r, col, "char", "reference has a space (code 0x%04X kind %d), page has U+%04X", rc->code, rc->kind, d->uc); return; }
			} else if (!uc_matches(rc->code, d->uc)) {
				mm_set(mm, page, r, col, text && is_space_cell(d) ? "missing" : "char", "reference has code 0x%04X (U+%04X), page has U+%04X", rc->code, ref_unicode(rc->code), d->uc);
				return;
			}
			if (d->fl & DF_OTHER) { mm_set(mm, page, r, col, "attr-other", "bold/conceal/size set"); return; }
			if (!(rc->a.unk & U_BG)) {
				int wantop = rc->a.op == OP_OPAQUE ? VBI_OPAQUE : rc->a.op == OP_SEMI ? VBI_SEMI_TRANSPARENT : VBI_TRANSPARENT_FULL;
				if (d->op != wantop) { mm_set(mm, page, r, col, "attr-opacity", "opacity: reference %d, page %d", wantop, d->op); return; }
				if (rc->a.op != OP_BGTRANSP && d->bg != vbi_col_of[rc->a.bg]) { mm_set(mm, page, r, col, "attr-background", "background: reference %d, page %d", vbi_col_of[rc->a.bg], d->bg); return; }
			}
			if (rc->kind == K_ATTR || rc->code == 0x20) continue;   /* the texts are silent on colour/underline/italic/flash of a space */
			if (!(rc->a.unk & U_FG) && d->fg != vbi_col_of[rc->a.fg]) { mm_set(mm, page, r, col, "attr-foreground", "foreground: reference %d, page %d", vbi_col_of[rc->a.fg], d->fg); return; }
			if (!(rc->a.unk & U_UL) && !!(d->fl & DF_UL) != rc->a.ul) { mm_set(mm, page, r, col, "attr-underline", "underline: reference %d, page %d", rc->a.ul, !!(d->fl & DF_UL)); return; }
			if (!(rc->a.unk & U_IT) && !!(d->fl & DF_IT) != rc->a.it) { mm_set(mm, page, r, col, "attr-italic", "italic: reference %d, page %d", rc->a.it, !!(d->fl & DF_IT)); return; }
			if (!(rc->a.unk & U_FL) && !!(d->fl & DF_FL) != rc->a.fl) { mm_set(mm, page, r, col, "attr-flash", "flash: reference %d, page %d", rc->a.fl, !!(d->fl & DF_FL)); return; }
		}
}

/* ------------------------------------------------------------------ */
/* evaluate one model variant against the recorded run                 */

static struct model mdl;
static long pages_compared, pages_skipped_unflushed, pages_skipped_poisoned;
static int ck_lastcmd[MAXCK][8], ck_style[MAXCK][8];

static int evaluate(unsigned quirks, struct mismatch *mm)
{
	int i, k = 0, p;
	memset(mm, 0, sizeof *mm);
	m_init(&mdl, quirks);
	for (i = 0; i < n_frames; i++) {
		m_feed(&mdl, 0, frames[i].p[0][0], frames[i].p[0][1]);
		m_feed(&mdl, 1, frames[i].p[1][0], frames[i].p[1][1]);
		if (!frames[i].ck || k >= n_snaps) continue;
		for (p = 0; p < 8; p++) {
			const struct m_chan *c = &mdl.ch[p];
			if (collect_evidence) { ck_lastcmd[k][p] = c->last_cmd; ck_style[k][p] = c->style; }
			if (collect_evidence == 2) continue;
			if (c->poisoned) { if (collect_evidence == 1) pages_skipped_poisoned++; continue; }
			if (c->unflushed) { if (collect_evidence == 1) pages_skipped_unflushed++; continue; }
			if (collect_evidence == 1) {
				pages_compared++;
				if (!m_mem_empty(&c->mem[c->disp])) {
					static const char *const cn[5] = { "nonempty_pages_compared_no_style", "nonempty_pages_compared_pop-on", "nonempty_pages_compared_roll-up",
						"nonempty_pages_compared_paint-on", "nonempty_pages_compared_text" };
					nonempty_compared = 1;
					vf_count(cn[c->style], 1);
					vf_sig("st=%d d=%d row=%d col=%s cmd=%s pg=%s", c->style, c->style == S_ROLL ? c->depth : 0, c->row,
					       c->col <= 1 ? "1" : c->col >= 32 ? "32" : "2-31", m_cl_name[c->last_cmd], p >= 4 ? "T" : "CC");
				}
			}
			if (snaps[k].fetch_ok[p] != 1) { mm_set(mm, p, 0, 0, "fetch-failed", "vbi_fetch_cc_page(%d) returned %d", p + 1, snaps[k].fetch_ok[p]); }
			else compare_page(&mdl, p, snaps[k].pg[p], mm);
			if (mm->any) { mm->ck = k; mm->frame = snaps[k].frame; return 1; }
		}
		k++;
	}
	return 0;
}

/* ------------------------------------------------------------------ */
/* disassembler (samples, details, replay)                             */

static int dis_pair(char *o, size_t n, int a, int b)
{
	static const char *const misc[16] = { "RCL", "BS", "AOF", "AON", "DER", "RU2", "RU3", "RU4", "FON", "RDC", "TR", "RTD", "EDM", "CR", "ENM", "EOC" };
	int ch2 = (a >> 3) & 1, g = a & 7;
	if (a == 0 && b == 0) return snprintf(o, n, "_ ");
	if (a >= 0x20) {
		if (b >= 0x20) return snprintf(o, n, "'%c%c' ", a == 0x27 ? '`' : a, b == 0x27 ? '`' : b);
		return snprintf(o, n, "'%c' ", a == 0x27 ? '`' : a);
	}
	if (a < 0x10) return snprintf(o, n, "<%02x%02x> ", a, b);
	if (b >= 0x40) {
		int row = m_pac_row[(g << 1) | ((b >> 5) & 1)] + 1;
		if (b & 0x10) return snprintf(o, n, "%sPAC%d,%d%s ", ch2 ? "@2:" : "", row, (b & 0xE) * 2, (b & 1) ? "u" : "");
		return snprintf(o, n, "%sPAC%d,c%d%s ", ch2 ? "@2:" : "", row, (b >> 1) & 7, (b & 1) ? "u" : "");
	}
	if (b < 0x20) return snprintf(o, n, "<%02x%02x> ", a, b);
	switch (g) {
	case 0: return snprintf(o, n, "%sBG%d%s ", ch2 ? "@2:" : "", (b >> 1) & 7, (b & 1) ? "s" : "");
	case 1: if (b < 0x30) return snprintf(o, n, "%sMR%d%s ", ch2 ? "@2:" : "", (b >> 1) & 7, (b & 1) ? "u" : "");
		if (b == 0x39) return snprintf(o, n, "%sTS ", ch2 ? "@2:" : "");
		return snprintf(o, n, "%sSP%d ", ch2 ? "@2:" : "", b & 15);
	case 2: case 3: return snprintf(o, n, "%sX%d:%02x ", ch2 ? "@2:" : "", g, b);
	case 4: case 5: if (b < 0x30) return snprintf(o, n, "%s%s ", ch2 ? "@2:" : "", misc[b & 15]); break;
	case 7: if (b >= 0x21 && b <= 0x23) return snprintf(o, n, "%sTO%d ", ch2 ? "@2:" : "", b & 3);
		if (b == 0x2D) return snprintf(o, n, "%sBT ", ch2 ? "@2:" : "");
		if (b == 0x2E || b == 0x2F) return snprintf(o, n, "%sFA%s ", ch2 ? "@2:" : "", (b & 1) ? "U" : "");
		break;
	default: break;
	}
	return snprintf(o, n, "<%02x%02x> ", a, b);
}

/* mnemonics of field f from frame `from` to `to` (inclusive) */
static const char *dis_range(int f, int from, int to, size_t limit)
{
	static char bufs[2][3000];
	static int slot;
	char *o = bufs[slot ^= 1];
	size_t n = 0;
	int i;
	if (limit > sizeof bufs[0] - 40) limit = sizeof bufs[0] - 40;
	if (from < 0) from = 0;
	o[0] = 0;
	for (i = from; i <= to && i < n_frames && n < limit; i++) {
		if (frames[i].p[f][0] == 0 && frames[i].p[f][1] == 0 && !frames[i].ck) continue;
		n += (size_t)dis_pair(o + n, sizeof bufs[0] - n, frames[i].p[f][0], frames[i].p[f][1]);
		if (frames[i].ck) n += (size_t)snprintf(o + n, sizeof bufs[0] - n, "! ");
	}
	return o;
}

static void dump_ref_row(const struct m_mem *mm, int r, char *o)
{
	int c;
	for (c = 0; c < M_COLS; c++) {
		const struct m_cell *p = &mm->c[r][c];
		o[c] = p->kind == K_EMPTY ? ' ' : p->kind == K_ATTR ? '_' : (p->code >= 0x21 && p->code < 0x7f) ? (char)p->code : p->code == 0x20 ? '_' : '#';
	}
	o[M_COLS] = 0;
}
static void dump_dec_row(const struct dcell row[M_COLS], char *o)
{
	int c;
	for (c = 0; c < M_COLS; c++)
		o[c] = row[c].op == VBI_TRANSPARENT_SPACE ? ' ' : row[c].uc == 0x20 ? '_' : (row[c].uc > 0x20 && row[c].uc < 0x7f) ? (char)row[c].uc : '#';
	o[M_COLS] = 0;
}

static void third_opinion(int upto_frame, int page, int row, char *o)
{
	_vbi_cc608_decoder *cd = _vbi_cc608_decoder_new();
	static vbi_page pg;
	double t = 1000.0;
	int i, c;
	o[0] = 0;
	if (!cd) return;
	for (i = 0; i <= upto_frame && i < n_frames; i++) {
		uint8_t b[2];
		b[0] = e608_par(frames[i].p[0][0]); b[1] = e608_par(frames[i].p[0][1]);
		_vbi_cc608_decoder_feed(cd, b, 21, t, -1);
		b[0] = e608_par(frames[i].p[1][0]); b[1] = e608_par(frames[i].p[1][1]);
		_vbi_cc608_decoder_feed(cd, b, 284, t, -1);
		t += 1001.0 / 30000.0;
	}
	if (_vbi_cc608_decoder_get_page(cd, &pg, page + 1, TRUE) && pg.columns == 34) {
		for (c = 0; c < 34; c++) {
			const vbi_char *vc = &pg.text[row * pg.columns + c];
			o[c] = vc->opacity == VBI_TRANSPARENT_SPACE ? ' ' : vc->unicode == 0x20 ? '_' : (vc->unicode > 0x20 && vc->unicode < 0x7f) ? (char)vc->unicode : '#';
		}
		o[34] = 0;
	}
	_vbi_cc608_decoder_delete(cd);
}

/* ------------------------------------------------------------------ */
/* verdict for the recorded run                                        */

static char case_desc[256];

static const char *witness_detail(const struct mismatch *mm, unsigned quirks)
{
	static char buf[3400];
	char refrow[40], decrow[40], third[40];
	struct mismatch tmp;
	int f = (mm->page & 2) ? 1 : 0;
	evaluate(quirks, &tmp);                 /* leaves mdl at the mismatch (or at the end) */
	dump_ref_row(&mdl.ch[mm->page].mem[mdl.ch[mm->page].disp], mm->row, refrow);
	dump_dec_row(snaps[mm->ck].pg[mm->page][mm->row], decrow);
	third[0] = 0;
	if (vf_verbose) third_opinion(mm->frame, mm->page, mm->row, third);
	snprintf(buf, sizeof buf, "%s: page %d (%s%d) row %d col %d at frame %d: %s | reference row [%s] page row [%s]%s%s | field %d up to there: %s",
		 mm->kind, mm->page + 1, mm->page >= 4 ? "T" : "CC", (mm->page & 3) + 1, mm->row + 1, mm->col, mm->frame, mm->text,
		 refrow, decrow, third[0] ? " cc608_decoder row " : "", third, f + 1, dis_range(f, 0, mm->frame, 2400));
	return buf;
}

static void dump_pages_verbose(unsigned quirks, const struct mismatch *mm)
{
	struct mismatch tmp;
	int r;
	if (!vf_verbose) return;
	evaluate(quirks, &tmp);
	{
		int i; char a[32], b[32];
		for (i = 0; i <= mm->frame && i < n_frames; i++) {
			dis_pair(a, sizeof a, frames[i].p[0][0], frames[i].p[0][1]);
			dis_pair(b, sizeof b, frames[i].p[1][0], frames[i].p[1][1]);
			vf_log("  frame %3d  F1 %-12s F2 %-12s%s\n", i, a, b, frames[i].ck ? " !" : "");
		}
	}
	vf_log("  --- page %d at checkpoint %d (frame %d), model quirks 0x%x: reference | decoder | cc608_decoder\n", mm->page + 1, mm->ck, mm->frame, quirks);
	for (r = 0; r < M_ROWS; r++) {
		char a[40], b[40], c[40];
		dump_ref_row(&mdl.ch[mm->page].mem[mdl.ch[mm->page].disp], r, a);
		dump_dec_row(snaps[mm->ck].pg[mm->page][r], b);
		third_opinion(mm->frame, mm->page, r, c);
		vf_log("  %2d %s | %s | %s\n", r + 1, a, b, c);
	}
}


/* Re-runs the decoder and fetches page p after every frame of the interval to find the frame in
 * which the page changed although no caption event for it was raised during that frame. */
static int locate_silent_change(int k, int p)
{
	vbi_decoder *vbi;
	static struct dcell cur[M_ROWS][M_COLS], last[M_ROWS][M_COLS];
	double t = 1000.0;
	int i, from = k ? snaps[k - 1].frame + 1 : 0, to = snaps[k].frame, found = -1;
	vf_phase("vbi_decoder_new");
	vbi = vbi_decoder_new();
	if (!vbi) return -1;
	vbi_event_handler_register(vbi, VBI_EVENT_CAPTION, cap_handler, NULL);
	fetch_page(vbi, p, last);
	for (i = 0; i <= to && i < n_frames; i++) {
		vbi_sliced sl[2];
		memset(sl, 0, sizeof sl);
		sl[0].id = VBI_SLICED_CAPTION_525; sl[0].line = 21;
		sl[0].data[0] = e608_par(frames[i].p[0][0]); sl[0].data[1] = e608_par(frames[i].p[0][1]);
		sl[1].id = VBI_SLICED_CAPTION_525; sl[1].line = 284;
		sl[1].data[0] = e608_par(frames[i].p[1][0]); sl[1].data[1] = e608_par(frames[i].p[1][1]);
		ev_count[p] = 0;
		vf_phase("vbi_decode");
		vbi_decode(vbi, sl, 2, t);
		t += 1001.0 / 30000.0;
		/* same fetch schedule as the recorded run outside the interval */
		if (i < from) { if (frames[i].ck) { int pp; static struct dcell dummy[M_ROWS][M_COLS]; for (pp = 0; pp < 8; pp++) fetch_page(vbi, pp, pp == p ? last : dummy); } continue; }
		fetch_page(vbi, p, cur);
		if (memcmp(cur, last, sizeof cur) && ev_count[p] == 0) { found = i; break; }
		memcpy(last, cur, sizeof cur);
	}
	vf_phase("vbi_decoder_delete");
	vbi_decoder_delete(vbi);
	vf_phase("case");
	return found;
}

static const char *pair_class(int a, int b)
{
	static char buf[24];
	char *sp;
	if (a >= 0x20) return b == 0x20 || (a == 0x20 && b < 0x20) ? "space" : "char";
	dis_pair(buf, sizeof buf, a & ~8, b);
	sp = strchr(buf, ' '); if (sp) *sp = 0;
	if (!strncmp(buf, "PAC", 3)) return "PAC";
	if (!strncmp(buf, "MR", 2)) return "midrow";
	if (!strncmp(buf, "BG", 2)) return "BG";
	if (!strncmp(buf, "SP", 2)) return "special";
	if (buf[0] == 'X') return "ext";
	if (!strncmp(buf, "RU", 2)) return "RU";
	if (!strncmp(buf, "TO", 2)) return "TO";
	if (!strncmp(buf, "FA", 2)) return "FA";
	if (buf[0] == '_') return "null";
	return buf;
}

/* how far into the history the first mismatch lies */
static long mm_progress(const struct mismatch *mm)
{
	return (((long)mm->ck * 8 + mm->page) * M_ROWS + mm->row) * M_COLS + mm->col;
}

static unsigned m_open_quirks(void)
{
	unsigned S = 0;
	int q;
	for (q = 0; q < Q_COUNT; q++) if (m_qstatus(q) != QK_REPAIRED) S |= QBIT(q);
	return S;
}

/* returns bitmask of quirks that explain the divergence (0 = none needed), or ~0u for an unexplained one */
static unsigned judge(void)
{
	struct mismatch strict, all, t;
	unsigned S, OPT, ALL = (1u << Q_COUNT) - 1u;
	int q, changed, k, p;

	collect_evidence = 1;
	evaluate(0, &strict);
	collect_evidence = 0;

	/* event clause: "A caption event for the channel is raised whenever that visible page changed" */
	for (k = 0; k < n_snaps; k++)
		for (p = 0; p < 8; p++) {
			if (snaps[k].changed[p]) vf_count("page_changes_observed", 1);
			if (snaps[k].changed[p] && snaps[k].ev[p]) vf_count("page_changes_announced_by_event", 1);
			if (!snaps[k].changed[p] && snaps[k].ev[p]) vf_count("intervals_with_event_but_same_page", 1);
			if (snaps[k].changed[p] && snaps[k].ev[p] == 0) {
				static const char *const stn[5] = { "none", "pop-on", "roll-up", "paint-on", "text" };
				char key[96];
				int f = (p & 2) ? 1 : 0, from = k ? snaps[k - 1].frame + 1 : 0;
				int fr = locate_silent_change(k, p), st = S_NONE, i;
				const char *cls = "unlocated";
				if (fr >= 0) {
					/* style of the page just before that frame, as the model with the open quirks (closest to the implementation) sees it */
					m_init(&mdl, m_open_quirks());
					for (i = 0; i < fr; i++) { m_feed(&mdl, 0, frames[i].p[0][0], frames[i].p[0][1]); m_feed(&mdl, 1, frames[i].p[1][0], frames[i].p[1][1]); }
					st = mdl.ch[p].style;
					cls = pair_class(frames[fr].p[f][0], frames[fr].p[f][1]);
				}
				snprintf(key, sizeof key, "model:C08:no-event:%s:%s", stn[st], cls);
				vf_fail(key, "page %d changed in frame %d (pair %02x%02x of field %d) but no VBI_EVENT_CAPTION for it was raised between the checkpoints at frame %d and %d; field %d in between: %s | %s",
					p + 1, fr, fr >= 0 ? frames[fr].p[f][0] : 0, fr >= 0 ? frames[fr].p[f][1] : 0, f + 1, from - 1, snaps[k].frame, f + 1, dis_range(f, from, snaps[k].frame, 600), case_desc);
				k = n_snaps; break;     /* one per case */
			}
		}
	if (ev_other) vf_fail("model:C08:event-pgno", "%d caption events with a page number outside 1..8", ev_other);

	if (!strict.any) return 0;
	/* behaviour the standard leaves to the decoder (QK_OPTION): either setting is the strict model */
	OPT = 0;
	for (q = 0; q < Q_COUNT; q++) if (m_qstatus(q) == QK_OPTION) OPT |= QBIT(q);
	if (OPT && !evaluate(OPT, &t)) { vf_count("cases_agreeing_with_strict_model_optional_features_off", 1); return 0; }
	vf_count("cases_diverging_from_strict", 1);

	/* Which set S of named quirks makes the model an exact oracle again for this history?
	 * 1. the open (expected) quirks; 2. every quirk, including those repaired by a proposed fix
	 * (an unpatched tree); 3. hill climbing from the open set: toggle the quirk that moves the
	 * first mismatch furthest towards the end of the history (partially patched trees).
	 * Only a set with NO remaining mismatch counts as an explanation, and every member of the
	 * minimised set is reported under its own key - a repaired quirk has no known-findings entry
	 * and therefore always alarms.  Anything else is a plain violation. */
	S = m_open_quirks();
	if (evaluate(S, &t)) {
		if (!evaluate(ALL, &all)) S = ALL;
		else {
			long best = mm_progress(&t);
			int steps;
			for (steps = 0; steps < 2 * Q_COUNT; steps++) {
				int bq = -1;
				long bp = best;
				for (q = 0; q < Q_COUNT; q++) {
					long pr = evaluate(S ^ QBIT(q), &t) ? mm_progress(&t) : LONG_MAX;
					if (pr > bp) { bp = pr; bq = q; }
				}
				if (bq < 0) break;
				S ^= QBIT(bq); best = bp;
				if (best == LONG_MAX) break;
			}
			if (best != LONG_MAX) {
				char key[80];
				evaluate(S, &all);
				snprintf(key, sizeof key, "model:C08:%s%s", sut_cc608 ? "cc608:" : "", all.kind);
				vf_fail(key, "not explained by any set of listed quirks. Closest model (quirks 0x%x): %s || strict model: %s | %s", S, witness_detail(&all, S), strict.kind, case_desc);
				dump_pages_verbose(S, &all);
				vf_count("cases_unexplained", 1);
				return ~0u;
			}
		}
	}
	do {
		changed = 0;
		for (q = 0; q < Q_COUNT; q++) {
			if (!(S & QBIT(q))) continue;
			if (!evaluate(S & ~QBIT(q), &t)) { S &= ~QBIT(q); changed = 1; }
		}
	} while (changed);
	{
		char set[400];
		size_t n = 0;
		unsigned B = S & OPT;
		set[0] = 0;
		if (B) evaluate(B, &strict);               /* strict model with the optional features as this decoder has them */
		S &= ~OPT;
		if (!S || !strict.any) return 0;
		for (q = 0; q < Q_COUNT; q++) if (S & QBIT(q)) n += (size_t)snprintf(set + n, sizeof set - n, "%s%s", n ? "+" : "", m_quirk_name[q]);
		for (q = 0; q < Q_COUNT; q++)
			if (S & QBIT(q)) {
				char key[80];
				snprintf(key, sizeof key, "model:C08:%s%s", sut_cc608 ? "cc608:" : "", m_quirk_name[q]);
				vf_fail(key, "divergence from the strict model disappears exactly with {%s}%s. Strict: %s | %s", set,
					m_qstatus(q) == QK_OPEN ? "" : " (this quirk is repaired by a proposed fix: regression or unpatched tree)", witness_detail(&strict, B), case_desc);
				vf_count(m_quirk_name[q], 1);
			}
		dump_pages_verbose(B, &strict);
	}
	return S;
}

/* ------------------------------------------------------------------ */
/* per-field pair queues -> frames                                     */

#define MAXQ 6000
struct qp { uint8_t a, b, ck, glue; };      /* glue: must directly follow the previous pair (repeat of a control code) */
static struct qp q[2][MAXQ];
static int qn[2];
static int pend[2];

static void q_reset(void) { qn[0] = qn[1] = 0; pend[0] = pend[1] = -1; }
static void q_push(int f, int a, int b, int glue)
{
	if (qn[f] >= MAXQ) return;
	q[f][qn[f]].a = (uint8_t)a; q[f][qn[f]].b = (uint8_t)b; q[f][qn[f]].ck = 0; q[f][qn[f]].glue = (uint8_t)glue;
	qn[f]++;
}
static void q_flush_pend(int f) { if (pend[f] >= 0) { q_push(f, pend[f], 0, 0); pend[f] = -1; } }
static void q_char(int f, int c)
{
	if (pend[f] < 0) pend[f] = c;
	else { q_push(f, pend[f], c, 0); pend[f] = -1; }
}
static void q_ctrl(int f, unsigned pair, int times)
{
	int i;
	q_flush_pend(f);
	for (i = 0; i < times; i++) q_push(f, (int)(pair >> 8), (int)(pair & 0xff), i > 0);
}
static void q_null(int f, int n) { q_flush_pend(f); while (n-- > 0) q_push(f, 0, 0, 0); }
static void q_check(int f)
{
	q_flush_pend(f);
	if (qn[f] == 0) q_push(f, 0, 0, 0);
	q[f][qn[f] - 1].ck = 1;
}

/* sequential: field queues are laid out one after the other in the order given by `order` marks;
 * zipped: frame i carries q[0][i] and q[1][i] (shorter queue padded with nulls) */
static void frames_zip(void)
{
	int i, n = qn[0] > qn[1] ? qn[0] : qn[1], nck = 0;
	q_flush_pend(0); q_flush_pend(1);
	n = qn[0] > qn[1] ? qn[0] : qn[1];
	if (n > MAXFRAMES) n = MAXFRAMES;
	n_frames = n;
	for (i = 0; i < n; i++) {
		int f;
		frames[i].ck = 0;
		for (f = 0; f < 2; f++) {
			if (i < qn[f]) { frames[i].p[f][0] = q[f][i].a; frames[i].p[f][1] = q[f][i].b; frames[i].ck |= q[f][i].ck; }
			else frames[i].p[f][0] = frames[i].p[f][1] = 0;
		}
	}
	if (n > 0) frames[n - 1].ck = 1;
	/* at most MAXCK checkpoints: thin out from the front, always keep the last */
	for (i = 0; i < n; i++) nck += frames[i].ck;
	for (i = 0; i < n - 1 && nck > MAXCK; i++) if (frames[i].ck) { frames[i].ck = 0; nck--; }
}

/* ------------------------------------------------------------------ */
/* script notation (self-test vectors, quirk witnesses)                */
/*   'text'  RCL RDC RU2-4 TR RTD EOC EDM ENM CR BS DER FON TO1-3 TS BT FA FAU AOF                        */
/*   PACr,i[u] (indent i columns)  PACr,cN[u] (colour N)  MRn[u]  BGn[s]  SPn  X2:hh X3:hh                 */
/*   @1 @2 data channel of the field   F1 F2 field   ! checkpoint   _ null pair   *tok = sent twice        */

static int script_f, script_ch2;

static int script_tok(const char *t)
{
	static const char *const misc[16] = { "RCL", "BS", "AOF", "AON", "DER", "RU2", "RU3", "RU4", "FON", "RDC", "TR", "RTD", "EDM", "CR", "ENM", "EOC" };
	int times = 1, i, f = script_f, c2 = script_ch2;
	if (*t == '*') { times = 2; t++; }
	if (!strcmp(t, "F1")) { script_f = 0; script_ch2 = 0; return 1; }
	if (!strcmp(t, "F2")) { script_f = 1; script_ch2 = 0; return 1; }
	if (!strcmp(t, "@1")) { script_ch2 = 0; return 1; }
	if (!strcmp(t, "@2")) { script_ch2 = 1; return 1; }
	if (!strcmp(t, "!")) { q_check(f); return 1; }
	if (!strcmp(t, "_")) { q_null(f, 1); return 1; }
	for (i = 0; i < 16; i++)
		if (!strcmp(t, misc[i])) { q_ctrl(f, e608_misc(c2, f, (enum e608_misc)i), times); return 1; }
	if (!strncmp(t, "PAC", 3)) {
		int row = atoi(t + 3), ul = t[strlen(t) - 1] == 'u';
		const char *c = strchr(t, ',');
		if (!c || row < 1 || row > 15) return 0;
		if (c[1] == 'c') q_ctrl(f, e608_pac(c2, row, -1, atoi(c + 2), ul), times);
		else q_ctrl(f, e608_pac(c2, row, atoi(c + 1), 0, ul), times);
		return 1;
	}
	if (!strncmp(t, "MR", 2)) { q_ctrl(f, e608_midrow(c2, t[2] - '0', t[3] == 'u'), times); return 1; }
	if (!strncmp(t, "BG", 2)) { q_ctrl(f, e608_bg(c2, t[2] - '0', t[3] == 's'), times); return 1; }
	if (!strncmp(t, "SP", 2)) { q_ctrl(f, e608_special(c2, atoi(t + 2)), times); return 1; }
	if (!strcmp(t, "TS")) { q_ctrl(f, e608_special(c2, 9), times); return 1; }
	if (!strcmp(t, "BT")) { q_ctrl(f, e608_bt(c2), times); return 1; }
	if (!strcmp(t, "FA")) { q_ctrl(f, e608_fa(c2, 0), times); return 1; }
	if (!strcmp(t, "FAU")) { q_ctrl(f, e608_fa(c2, 1), times); return 1; }
	if (!strncmp(t, "TO", 2)) { q_ctrl(f, e608_to(c2, t[2] - '0'), times); return 1; }
	if ((t[0] == 'X') && (t[1] == '2' || t[1] == '3') && t[2] == ':') { q_ctrl(f, e608_ext(c2, t[1] - '0', (int)strtol(t + 3, NULL, 16)), times); return 1; }
	return 0;
}

/* builds frames: the fields are NOT interleaved, each token occupies its own frame(s) */
static int script_build(const char *s)
{
	char tok[64];
	/* sequential layout: keep both queues aligned by padding the other field with nulls */
	q_reset();
	script_f = 0; script_ch2 = 0;
	while (*s) {
		size_t n = 0;
		while (*s == ' ') s++;
		if (!*s) break;
		if (*s == '\'') {
			s++;
			while (*s && *s != '\'') q_char(script_f, *s++ == '`' ? 0x27 : s[-1]);
			if (*s) s++;
			q_flush_pend(script_f);
		} else {
			while (*s && *s != ' ' && n < sizeof tok - 1) tok[n++] = *s++;
			tok[n] = 0;
			if (!script_tok(tok)) return 0;
		}
		/* align */
		while (qn[0] < qn[1]) q_push(0, 0, 0, 0);
		while (qn[1] < qn[0]) q_push(1, 0, 0, 0);
		/* a checkpoint mark may sit on the shorter queue's padding: move it to the last frame */
	}
	{
		int i;
		for (i = 0; i < qn[0]; i++) if (q[0][i].ck || q[1][i].ck) {
			/* the mark belongs after everything emitted so far in both fields: it already is (queues aligned) */
		}
	}
	frames_zip();
	return 1;
}

/* ------------------------------------------------------------------ */
/* oracle self-test: hand vectors taken from the repository's own EIA-608 test streams          */
/* (test/cc608-roll-up.xml, cc608-attributes.xml) plus the three streams as a corpus.           */

static struct model stm;

static void st_run(const char *script, unsigned quirks)
{
	int i;
	if (!script_build(script)) { vf_fail("selftest:C08:script", "cannot assemble: %s", script); n_frames = 0; }
	m_init(&stm, quirks);
	for (i = 0; i < n_frames; i++) {
		m_feed(&stm, 0, frames[i].p[0][0], frames[i].p[0][1]);
		m_feed(&stm, 1, frames[i].p[1][0], frames[i].p[1][1]);
	}
}

static void st_row(int page, int row1, char *o)
{
	const struct m_chan *c = &stm.ch[page];
	int i;
	dump_ref_row(&c->mem[c->disp], row1 - 1, o);
	memmove(o, o + 1, 32); o[32] = 0;
	for (i = 31; i >= 0 && o[i] == ' '; i--) o[i] = 0;
}

static void st_expect_row(const char *name, int page, int row1, const char *want)
{
	char got[40];
	st_row(page, row1, got);
	if (strcmp(got, want)) vf_fail("selftest:C08:model", "%s: page %d row %d is [%s], expected [%s]", name, page + 1, row1, got, want);
}

static const struct m_cell *st_cell(int page, int row1, int col) { const struct m_chan *c = &stm.ch[page]; return &c->mem[c->disp].c[row1 - 1][col]; }

static void st_expect_attr(const char *name, int page, int row1, int col, int fg, int it, int ul, int fl)
{
	const struct m_cell *p = st_cell(page, row1, col);
	if (p->kind != K_CHAR || (p->a.unk & (U_FG | U_IT | U_UL)) || p->a.fg != fg || p->a.it != it || p->a.ul != ul || (!(p->a.unk & U_FL) && p->a.fl != fl))
		vf_fail("selftest:C08:model", "%s: page %d row %d col %d kind %d fg %d it %d ul %d fl %d unk 0x%x, expected fg %d it %d ul %d fl %d",
			name, page + 1, row1, col, p->kind, p->a.fg, p->a.it, p->a.ul, p->a.fl, p->a.unk, fg, it, ul, fl);
}

static void selftest_vectors(void)
{
	/* roll-up.xml "There are 32 columns" / (f)(1)(v) */
	st_run("RU4 PAC15,0 '12345678901234567890123456789012' !", 0);
	st_expect_row("32 columns", 0, 15, "12345678901234567890123456789012");
	st_run("RU4 PAC15,0 'This sentence does not fit in 32 columns.' !", 0);
	st_expect_row("(f)(1)(v) column 32 replaces", 0, 15, "This_sentence_does_not_fit_in_3.");
	/* (f)(1)(iii) roll-up, window of 3 */
	st_run("RU3 PAC15,0 'one' CR 'two' CR 'three' CR 'four' !", 0);
	st_expect_row("(f)(1)(iii) a", 0, 12, ""); st_expect_row("(f)(1)(iii) b", 0, 13, "two");
	st_expect_row("(f)(1)(iii) c", 0, 14, "three"); st_expect_row("(f)(1)(iii) d", 0, 15, "four");
	/* (f)(1)(ii) window moves intact; C.4 depth takes precedence */
	st_run("RU3 PAC15,0 'one' CR 'two' CR 'three' PAC4,c0 !", 0);
	st_expect_row("(f)(1)(ii) move a", 0, 2, "one"); st_expect_row("move b", 0, 3, "two"); st_expect_row("move c", 0, 4, "three"); st_expect_row("move d", 0, 15, "");
	st_run("RU3 PAC15,0 'one' CR 'two' CR 'three' PAC1,c0 !", 0);
	st_expect_row("C.4 a", 0, 1, "one"); st_expect_row("C.4 c", 0, 3, "three");
	/* (f)(1)(iv) shrinking erases the top rows */
	st_run("RU4 PAC15,0 'a' CR 'b' CR 'c' CR 'd' RU2 !", 0);
	st_expect_row("(f)(1)(iv) a", 0, 12, ""); st_expect_row("(f)(1)(iv) b", 0, 13, ""); st_expect_row("(f)(1)(iv) c", 0, 14, "c"); st_expect_row("(f)(1)(iv) d", 0, 15, "d");
	/* (e)(1)(i),(ii): PAC indent and TO are non-destructive ("PAC     TOx       are" vector) */
	st_run("RU4 PAC15,0 'PAC     TOx       are' PAC15,4 'and' TO3 TO2 'codes' TO1 TO3 !", 0);
	st_expect_row("non-destructive", 0, 15, "PAC_and_TOx_codes_are");
	st_run("RU4 PAC15,0 'XXXXXXXXXXX' PAC15,0 'We can overwrite text.' !", 0);
	st_expect_row("(f) overwrite", 0, 15, "We_can_overwrite_text.");
	/* column 32 cannot be passed: "<pac column=29/><to3/><to3/>X" */
	st_run("RU4 PAC15,28 TO3 TO2 'X' !", 0);
	st_expect_row("TO limit", 0, 15, "                               X");
	st_run("RU4 PAC15,28 TO3 TS TS 'X' !", 0);
	st_expect_row("TS limit", 0, 15, "                               X");
	/* (f)(1)(vi) backspace, C.13 */
	st_run("RU4 PAC15,0 'X' BS !", 0); st_expect_row("BS", 0, 15, "");
	st_run("RU4 PAC15,0 BS 'It has no effect.' !", 0); st_expect_row("BS col 1", 0, 15, "It_has_no_effect.");
	st_run("RU4 PAC15,0 '1234567890123456789012345678901' BS !", 0); st_expect_row("BS 31", 0, 15, "123456789012345678901234567890");
	st_run("RU4 PAC15,0 '12345678901234567890123456789012' BS !", 0); st_expect_row("C.13", 0, 15, "123456789012345678901234567890 2");
	/* (f)(1)(vii) DER */
	st_run("RU4 PAC15,0 '12345678901234567890123456789012' PAC15,0 TO1 DER !", 0); st_expect_row("DER", 0, 15, "1");
	st_run("RU4 PAC15,0 '12345678901234567890123456789012' PAC15,28 TO3 DER !", 0); st_expect_row("DER 32", 0, 15, "1234567890123456789012345678901");
	/* (i)(1) a control code may repeat once */
	st_run("RU4 PAC15,0 TO2 TO2 TO2 TO2 'x' !", 0); st_expect_row("(i)(1) repeat", 0, 15, "    x");
	st_run("RU4 PAC15,0 'ab' *CR 'cd' !", 0); st_expect_row("repeat CR a", 0, 14, "ab"); st_expect_row("repeat CR b", 0, 15, "cd");
	/* pop-on: (f) EOC swaps without erasing; (f)(2)(i) CR has no effect */
	st_run("RCL ENM PAC14,0 'top' CR PAC15,0 'bottom' !", 0); st_expect_row("pop-on hidden", 0, 14, "");
	st_run("RCL ENM PAC14,0 'top' PAC15,0 'bottom' EOC !", 0); st_expect_row("EOC a", 0, 14, "top"); st_expect_row("EOC b", 0, 15, "bottom");
	st_run("RCL PAC14,0 'one' EOC RCL PAC15,0 'two' EOC !", 0); st_expect_row("EOC swap a", 0, 14, ""); st_expect_row("EOC swap b", 0, 15, "two");
	st_run("RCL PAC14,0 'one' EOC RCL PAC15,0 'two' EOC _ EOC !", 0); st_expect_row("EOC no erase", 0, 14, "one");
	/* (f)(1)(x) RUx erases pop-on/paint-on captions; RCL/RDC do not affect a roll-up display */
	st_run("RCL PAC14,0 'one' EOC RU2 !", 0); st_expect_row("(f)(1)(x)", 0, 14, "");
	st_run("RU2 PAC15,0 'roll' RCL PAC3,0 'pop' RDC !", 0); st_expect_row("(f)(1)(x) keep", 0, 15, "roll"); st_expect_row("pop hidden", 0, 3, "");
	/* paint-on */
	st_run("RDC PAC4,0 'Paint-On mode.' !", 0); st_expect_row("paint-on", 0, 4, "Paint-On_mode.");
	/* Text Mode: 7.4 */
	st_run("TR 'Text channel T1.' CR 'second' !", 0); st_expect_row("text a", 4, 1, "Text_channel_T1."); st_expect_row("text b", 4, 2, "second");
	st_run("TR 'a' CR 'b' TR 'c' !", 0); st_expect_row("TR erases", 4, 1, "c"); st_expect_row("TR erases 2", 4, 2, "");
	/* (f)(1)(ix): interleaved channels and fields keep their cursor */
	st_run("RU4 PAC15,0 'Reception >' @2 RU4 PAC15,0 'CC2' @1 RU4 '< for' F2 RU2 PAC15,0 'CC3' F1 !", 0);
	st_expect_row("(ix) CC1", 0, 15, "Reception_><_for"); st_expect_row("(ix) CC2", 1, 15, "CC2"); st_expect_row("(ix) CC3", 2, 15, "CC3");
	/* B.7: EDM in Text Mode acts on the caption memory */
	st_run("RU2 PAC15,0 'cap' TR 'txt' EDM !", 0); st_expect_row("B.7 caption", 0, 15, ""); st_expect_row("B.7 text", 4, 1, "txt");
	/* attributes.xml */
	st_run("RU4 PAC15,c2 MR7 'Blue italic' !", 0); st_expect_row("(h)(ii) text", 0, 15, "_Blue_italic"); st_expect_attr("(h)(ii) italics keeps colour", 0, 15, 2, MC_BLUE, 1, 0, 0);
	st_run("RU4 PAC15,c7 'White ital. >' MR1 '< green' !", 0); st_expect_attr("(h)(ii) colour turns off italics", 0, 15, 15, MC_GREEN, 0, 0, 0);
	st_run("RU4 PAC15,c4 MR7u FON '< Red' !", 0); st_expect_row("(h)(iv) two spaces", 0, 15, "__<_Red"); st_expect_attr("(h)(iv)", 0, 15, 3, MC_RED, 1, 1, 1);
	st_run("RU4 PAC15,c4 FON '< Red fl. >' MR0 '< white' !", 0); st_expect_attr("(h)(iii) mid-row turns off flash", 0, 15, 14, MC_WHITE, 0, 0, 0);
	st_run("RU4 PAC15,c5 'Yellow on .... broken' PAC15,16 'lack.' !", 0); st_expect_row("C.7 text", 0, 15, "Yellow_on_...._black.");
	st_expect_attr("C.7 left neighbour beats the indenting PAC", 0, 15, 17, MC_YELLOW, 0, 0, 0);
	st_run("RU4 PAC15,c5 'Yellow >' PAC15,12 '< white' !", 0); st_expect_attr("PAC after a transparent cell", 0, 15, 13, MC_WHITE, 0, 0, 0);
	st_run("RU4 PAC15,c1 'Green >' TS '< ditto' !", 0); st_expect_attr("(h) transparent space keeps attributes", 0, 15, 9, MC_GREEN, 0, 0, 0);
	st_run("RU4 PAC15,c1 'green' CR 'white' !", 0); st_expect_attr("C.14 no PAC after CR", 0, 15, 1, MC_WHITE, 0, 0, 0);
	st_run("RU4 PAC15,c2 'x' BG0 'Blue on white' !", 0); st_expect_row("6.2 automatic backspace", 0, 15, "_Blue_on_white");
	if (st_cell(0, 15, 2)->a.bg != MC_WHITE || st_cell(0, 15, 2)->a.fg != MC_BLUE) vf_fail("selftest:C08:model", "6.2 background attribute");
	st_run("RU4 PAC15,0 'x' X2:20 !", 0); if (st_cell(0, 15, 1)->code != 0x1220 || st_cell(0, 15, 2)->kind != K_EMPTY) vf_fail("selftest:C08:model", "6.4.2 extended character backspace");
	/* quirk switches really change the model (spot checks) */
	st_run("RU3 PAC15,0 'one' CR 'two' PAC4,c0 !", QBIT(Q_PAC_ROLLUP_ERASES)); st_expect_row("Q-PAC-rollup-erases", 0, 3, "");
	st_run("RCL PAC14,0 'one' EOC RCL PAC15,0 'two' EOC _ EOC !", QBIT(Q_EOC_ERASES_HIDDEN)); st_expect_row("Q-EOC-erases-hidden", 0, 14, "");
	st_run("TR 'a' CR 'b' TR 'c' !", QBIT(Q_TR_NO_CLEAR)); st_expect_row("Q-TR-no-clear", 4, 2, "b");
	/* Q-line-buffer-row-copy: the row is copied at a space and at a solid block 0x7F, never in between (session 4);
	 * TR and EOC reach CC2 here without caption.c flushing its pending word */
	st_run("@2 RU2 PAC15,0 'ab\x7f' 'cd' @1 TR 'x ' @2 EOC PAC1,0 EOC !", 0); st_expect_row("solid block strict", 1, 15, "ab#cd");
	st_run("@2 RU2 PAC15,0 'ab\x7f' 'cd' @1 TR 'x ' @2 EOC PAC1,0 EOC !", QBIT(Q_LINE_BUFFER)); st_expect_row("solid block copies the row", 1, 15, "ab#");
	st_run("@2 RU2 PAC15,0 'ab ' 'cd' @1 TR 'x ' @2 EOC PAC1,0 EOC !", QBIT(Q_LINE_BUFFER)); st_expect_row("space copies the row", 1, 15, "ab_");
	st_run("@2 RU2 PAC15,0 'ab-' 'cd' @1 TR 'x ' @2 EOC PAC1,0 EOC !", QBIT(Q_LINE_BUFFER)); st_expect_row("other characters do not", 1, 15, "");
}

/* --- the repository's XML test streams as a corpus for the model --- */

static char xml_rows[4000][33];
static int n_xml_rows;

static void xml_note_rows(void)
{
	int r, i;
	for (r = 1; r <= 15; r++) {
		char row[40];
		st_row(0, r, row);
		if (!row[0]) continue;
		for (i = 0; i < n_xml_rows; i++) if (!strcmp(xml_rows[i], row)) break;
		if (i == n_xml_rows && n_xml_rows < 4000) strcpy(xml_rows[n_xml_rows++], row);
	}
}
static int xml_seen(const char *row) { int i; for (i = 0; i < n_xml_rows; i++) if (!strcmp(xml_rows[i], row)) return 1; return 0; }

static long xml_attr(const char *s, const char *end, const char *name, long def)
{
	size_t l = strlen(name);
	for (; s + l + 2 < end; s++)
		if (s[-1] == ' ' && !strncmp(s, name, l) && s[l] == '=' && s[l + 1] == '"') return strtol(s + l + 2, NULL, 0);
	return def;
}

/* minimal reader for the cc608-test-stream format (see test/cc608-test-stream.dtd) */
static int xml_run(const char *path)
{
	static const struct { const char *n; unsigned code; } el[] = {
		{ "bao", 0x102E }, { "bas", 0x102F }, { "bbo", 0x1024 }, { "bbs", 0x1025 }, { "bco", 0x1026 }, { "bcs", 0x1027 }, { "bgo", 0x1022 },
		{ "bgs", 0x1023 }, { "bmo", 0x102C }, { "bms", 0x102D }, { "bro", 0x1028 }, { "brs", 0x1029 }, { "bs", 0x1421 }, { "bt", 0x172D },
		{ "bwo", 0x1020 }, { "bws", 0x1021 }, { "byo", 0x102A }, { "bys", 0x102B }, { "cr", 0x142D }, { "der", 0x1424 }, { "edm", 0x142C },
		{ "enm", 0x142E }, { "eoc", 0x142F }, { "fa", 0x172E }, { "fau", 0x172F }, { "fon", 0x1428 }, { "rcl", 0x1420 }, { "rdc", 0x1429 },
		{ "rtd", 0x142B }, { "ru2", 0x1425 }, { "ru3", 0x1426 }, { "ru4", 0x1427 }, { "to1", 0x1721 }, { "to2", 0x1722 }, { "to3", 0x1723 }, { "tr", 0x142A } };
	FILE *fp = fopen(path, "rb");
	static char buf[200000];
	size_t n;
	char *s, *body;
	int ch = 1, pendc = -1, started = 0;
	long pairs = 0;
	if (!fp) return -1;
	n = fread(buf, 1, sizeof buf - 1, fp);
	fclose(fp);
	buf[n] = 0;
	body = strstr(buf, "<cc608-test-stream>");
	if (!body) return -1;
	s = body + 19;
	m_init(&stm, 0);
#define XFEED(a, b) do { m_feed(&stm, (ch - 1) >> 1, (a), (b)); pairs++; } while (0)
#define XFLUSH() do { if (pendc >= 0) { XFEED(pendc, 0); pendc = -1; } } while (0)
	while (*s) {
		int c = (unsigned char)*s++;
		if (c < 0x20) continue;
		if (c == '<') {
			char *end;
			unsigned i;
			unsigned code = 0;
			if (!strncmp(s, "!--", 3)) { end = strstr(s, "-->"); if (!end) break; s = end + 3; continue; }
			if (!strncmp(s, "/cc608-test-stream", 18)) break;
			end = strchr(s, '>');
			if (!end) break;
			{
				long nch = xml_attr(s, end, "ch", ch);
				if (nch >= 1 && nch <= 4 && nch != ch) { XFLUSH(); ch = (int)nch; }
			}
			if (!strncmp(s, "pause", 5)) { XFLUSH(); XFEED(0, 0); started = 1; xml_note_rows(); s = end + 1; continue; }
			if (!strncmp(s, "pac", 3) && (s[3] == ' ' || s[3] == '/')) {
				long col = xml_attr(s, end, "column", -1), color = xml_attr(s, end, "color", 0), row = xml_attr(s, end, "row", 15), u = xml_attr(s, end, "u", 0);
				code = e608_pac((ch - 1) & 1, (int)row, col > 0 ? (int)((col - 1) / 4) * 4 : -1, (int)color, (int)u);
			} else if (!strncmp(s, "mr", 2) && (s[2] == ' ' || s[2] == '/')) {
				code = e608_midrow((ch - 1) & 1, (int)xml_attr(s, end, "color", 0), (int)xml_attr(s, end, "u", 0));
			} else if (!strncmp(s, "spec", 4)) code = e608_special((ch - 1) & 1, (int)xml_attr(s, end, "code", 0));
			else if (!strncmp(s, "ext2", 4)) code = e608_ext((ch - 1) & 1, 2, (int)xml_attr(s, end, "code", 32));
			else if (!strncmp(s, "ext3", 4)) code = e608_ext((ch - 1) & 1, 3, (int)xml_attr(s, end, "code", 32));
			else {
				for (i = 0; i < sizeof el / sizeof el[0]; i++) {
					size_t l = strlen(el[i].n);
					if (!strncmp(s, el[i].n, l) && (s[l] == ' ' || s[l] == '/' || s[l] == '>')) break;
				}
				if (i < sizeof el / sizeof el[0]) {
					code = el[i].code | (((unsigned)(ch - 1) & 1u) << 11);
					if ((code & 0x7700) == 0x1400) code |= ((unsigned)(ch - 1) & 2u) << 7;
				}
			}
			if (code) { XFLUSH(); XFEED((int)(code >> 8), (int)(code & 0xff)); started = 1; }
			s = end + 1;
			continue;
		}
		if (c == '&') {
			if (*s == '#') { c = (int)strtol(s + 1, &s, 10); if (*s == ';') s++; }
			else if (!strncmp(s, "amp;", 4)) s += 4;
			else if (!strncmp(s, "lt;", 3)) { s += 3; c = '<'; }
			else if (!strncmp(s, "gt;", 3)) { s += 3; c = '>'; }
			else if (!strncmp(s, "ts;", 3)) { s += 3; XFLUSH(); XFEED(0x11 | (((ch - 1) & 1) << 3), 0x39); continue; }
		}
		if (!started && c == ' ') continue;
		if (pendc < 0) pendc = c; else { XFEED(pendc, c); pendc = -1; }
	}
	XFLUSH();
	xml_note_rows();
	return (int)pairs;
}

static void selftest_corpus(void)
{
	static const char *const must_ru[] = {
		"12345678901234567890123456789012", "This_sentence_does_not_fit_in_3.", "123456789012345678901234567890 2",
		"123456789012345678901234567890", "PAC_and_TOx_codes_are", "not_destructive.", "We_can_overwrite_text.",
		"                               X", "1", "1234567890123456789012345678901", "It_has_no_effect.", "    <_four_transp._spaces.",
		"Reception_of_data_><_for", "another_><_caption_channel_or", "for_><_Text_mode_does_not", "End_of_test_stream." };
	static const char *const mustnot_ru[] = { "RUx_did_not_delete_the", "displayed_memory.", "non-displayed_memory." };
	char path[512];
	const char *repo = getenv("VERIF_REPO");
	unsigned i;
	int n;
	if (!repo || !*repo) repo = "/repo";
	n_xml_rows = 0;
	snprintf(path, sizeof path, "%s/test/cc608-roll-up.xml", repo);
	n = xml_run(path);
	if (n < 0) { vf_log("corpus %s not readable, skipped\n", path); return; }
	if (n < 3000) vf_fail("selftest:C08:corpus", "%s: only %d pairs parsed", path, n);
	{ int pz; for (pz = 0; pz < 8; pz++) if (stm.ch[pz].poisoned) vf_log("roll-up.xml: page %d poisoned at the end: %s\n", pz + 1, stm.ch[pz].poison_why); }
	for (i = 0; i < sizeof must_ru / sizeof must_ru[0]; i++)
		if (!xml_seen(must_ru[i])) vf_fail("selftest:C08:corpus", "roll-up.xml: the model never displayed the row [%s] the stream's own text announces", must_ru[i]);
	for (i = 0; i < sizeof mustnot_ru / sizeof mustnot_ru[0]; i++)
		if (xml_seen(mustnot_ru[i])) vf_fail("selftest:C08:corpus", "roll-up.xml: the model displayed [%s], which the stream shows only on a non-conforming decoder", mustnot_ru[i]);
	n_xml_rows = 0;
	snprintf(path, sizeof path, "%s/test/cc608-attributes.xml", repo);
	n = xml_run(path);
	if (n < 3000) vf_fail("selftest:C08:corpus", "%s: only %d pairs parsed", path, n);
	if (!xml_seen("End_of_test_stream.") || !xml_seen("_Blue_italic_on_black_text.") || !xml_seen("_Blue_on_white_opaque_backgr.") || !xml_seen("___<_Red_it._un._fl._on_black."))
		vf_fail("selftest:C08:corpus", "attributes.xml: expected rows missing");
	n_xml_rows = 0;
	snprintf(path, sizeof path, "%s/test/cc608-charsets.xml", repo);
	n = xml_run(path);
	if (n < 3000) vf_fail("selftest:C08:corpus", "%s: only %d pairs parsed", path, n);
	if (!xml_seen("End_of_test_stream.") || !xml_seen("Column_32_above_shows_an_M.")) vf_fail("selftest:C08:corpus", "charsets.xml: expected rows missing");
}

/* ------------------------------------------------------------------ */
/* history generator                                                   */

enum { P_POP, P_ROLL, P_PAINT, P_TEXT, P_WILD, P_EDGE_LASTCOL, P_EDGE_BASEROW, P_EDGE_PAIRS, P_COUNT };
static const char *const prof_name[P_COUNT] = { "pop-on", "roll-up", "paint-on", "text", "wild", "edge-last-column", "edge-base-row", "edge-command-pairs" };

struct gen {
	struct vf_rng *r;
	int f;                 /* field */
	int dbl;               /* 0 never, 1 always, 2 mixed: control code repetition */
	int split_repeat;      /* a null pair may be put between a code and its repetition */
	int ch2;               /* selected data channel of the field */
	int text;              /* field in Text Mode */
	int style[2], depth[2], base[2];  /* generator's intent for the two caption channels of the field */
	int nullrate;          /* 1/nullrate chance of a null pair after an op; 0 = none */
	int ckrate;            /* chance (percent) of a checkpoint after a flushing op */
	int budget;            /* pairs left for this field */
};

static int g_times(struct gen *g) { return g->dbl == 1 ? 2 : g->dbl == 0 ? 1 : 1 + (int)vf_below(g->r, 2); }

static void g_ctrl(struct gen *g, unsigned pair)
{
	int t = g_times(g);
	if (t == 2 && g->split_repeat && vf_chance(g->r, 1, 6)) {
		q_ctrl(g->f, pair, 1); q_null(g->f, 1); q_ctrl(g->f, pair, 1);
	} else q_ctrl(g->f, pair, t);
	g->budget -= t;
}
static void g_misc(struct gen *g, enum e608_misc m) { g_ctrl(g, e608_misc(g->ch2, g->f, m)); }

static void g_maybe_null(struct gen *g)
{
	if (g->nullrate && vf_chance(g->r, 1, (unsigned)g->nullrate)) { int n = vf_range(g->r, 1, 3); q_null(g->f, n); g->budget -= n; }
}
static void g_maybe_check(struct gen *g) { if ((int)vf_below(g->r, 100) < g->ckrate) q_check(g->f); }

static const char g_alpha[] = "ETAOINSHRDLUetaoinshrdlucmfwypvbgkqjxz0123456789.,!?-:;\"'()/&%$#@+=<>[]";
static const uint8_t g_accent[] = { 0x2A, 0x5C, 0x5E, 0x5F, 0x60, 0x7B, 0x7C, 0x7D, 0x7E, 0x7F };

static int g_rand_char(struct gen *g)
{
	unsigned k = vf_below(g->r, 40);
	if (k == 0) return g_accent[vf_below(g->r, sizeof g_accent)];
	if (k == 1) return vf_range(g->r, 0x21, 0x7F);
	return g_alpha[vf_below(g->r, sizeof g_alpha - 1)];
}

static void g_word(struct gen *g, int maxlen, int trailing_space)
{
	int n = vf_range(g->r, 1, maxlen), i;
	for (i = 0; i < n; i++) q_char(g->f, g_rand_char(g));
	if (trailing_space) q_char(g->f, 0x20);
	g->budget -= (n + 2) / 2;
}

static void g_words(struct gen *g, int nwords, int maxlen)
{
	int i;
	for (i = 0; i < nwords; i++) {
		g_word(g, maxlen, 1);
		if (vf_chance(g->r, 1, 3)) { q_flush_pend(g->f); g_maybe_check(g); }
	}
}

static void g_pac(struct gen *g, int row, int allow_color)
{
	int ul = vf_chance(g->r, 1, 5);
	if (allow_color && vf_chance(g->r, 1, 2)) g_ctrl(g, e608_pac(g->ch2, row, -1, vf_chance(g->r, 1, 2) ? 0 : vf_range(g->r, 0, 7), ul));
	else g_ctrl(g, e608_pac(g->ch2, row, 4 * (vf_chance(g->r, 1, 2) ? 0 : vf_range(g->r, 0, 7)), 0, ul));
}

static void g_special(struct gen *g)
{
	int n = vf_range(g->r, 0, 15);
	g_ctrl(g, e608_special(g->ch2, n));
}

/* select (resume) a channel of the field with the style the generator intends for it */
static void g_select_caption(struct gen *g, int ch2, int style, int depth)
{
	g->ch2 = ch2; g->text = 0;
	if (style == S_POP) g_misc(g, E608_RCL);
	else if (style == S_PAINT) g_misc(g, E608_RDC);
	else g_misc(g, depth == 2 ? E608_RU2 : depth == 3 ? E608_RU3 : E608_RU4);
	g->style[ch2] = style;
	if (style == S_ROLL) g->depth[ch2] = depth;
}
static void g_select_text(struct gen *g, int ch2, int restart)
{
	g->ch2 = ch2; g->text = 1;
	g_misc(g, restart ? E608_TR : E608_RTD);
}

/* --- disciplined profiles: what a captioning encoder normally sends --- */

static void g_clean_pop(struct gen *g)
{
	int ncap = vf_range(g->r, 1, 6), i, j;
	g_select_caption(g, g->ch2, S_POP, 0);
	for (i = 0; i < ncap && g->budget > 0; i++) {
		int rows = vf_range(g->r, 1, 3), row = vf_range(g->r, 1, 16 - rows);
		if (i) g_misc(g, E608_RCL);
		if (vf_chance(g->r, 9, 10)) g_misc(g, E608_ENM);
		for (j = 0; j < rows; j++) {
			g_pac(g, row + j, 1);
			if (vf_chance(g->r, 1, 4)) g_ctrl(g, e608_midrow(g->ch2, vf_range(g->r, 0, 6), vf_chance(g->r, 1, 4)));
			g_words(g, vf_range(g->r, 1, 4), 7);
			if (vf_chance(g->r, 1, 6)) g_special(g);
			if (vf_chance(g->r, 1, 8)) { g_word(g, 5, 0); g_misc(g, E608_BS); }
			g_maybe_null(g);
		}
		if (vf_chance(g->r, 1, 3)) { g_misc(g, E608_EDM); q_check(g->f); g_maybe_null(g); }
		g_misc(g, E608_EOC);
		q_check(g->f);
		g_maybe_null(g);
	}
	if (vf_chance(g->r, 1, 2)) { g_misc(g, E608_EDM); q_check(g->f); }
}

static void g_clean_roll(struct gen *g)
{
	int depth = vf_range(g->r, 2, 4), base = vf_chance(g->r, 1, 2) ? 15 : vf_range(g->r, depth, 15), lines = vf_range(g->r, 1, 10), i;
	g_select_caption(g, g->ch2, S_ROLL, depth);
	g->base[g->ch2] = base;
	if (base != 15 || vf_chance(g->r, 1, 2)) g_pac(g, base, 1);
	for (i = 0; i < lines && g->budget > 0; i++) {
		if (vf_chance(g->r, 1, 5)) g_ctrl(g, e608_midrow(g->ch2, vf_range(g->r, 0, 6), vf_chance(g->r, 1, 4)));
		g_words(g, vf_range(g->r, 1, 5), 7);
		if (vf_chance(g->r, 1, 8)) g_special(g);
		g_maybe_null(g);
		g_misc(g, E608_CR);
		g_maybe_check(g);
		if (vf_chance(g->r, 4, 5)) g_pac(g, base, 1);
		if (vf_chance(g->r, 1, 12)) { g_misc(g, E608_EDM); q_check(g->f); }
	}
	g_word(g, 6, 1);
	q_check(g->f);
}

static void g_clean_paint(struct gen *g)
{
	int n = vf_range(g->r, 1, 8), i;
	g_select_caption(g, g->ch2, S_PAINT, 0);
	for (i = 0; i < n && g->budget > 0; i++) {
		g_pac(g, vf_range(g->r, 1, 15), 1);
		if (vf_chance(g->r, 1, 4)) g_ctrl(g, e608_midrow(g->ch2, vf_range(g->r, 0, 6), vf_chance(g->r, 1, 4)));
		g_words(g, vf_range(g->r, 1, 4), 7);
		if (vf_chance(g->r, 1, 5)) { g_misc(g, E608_DER); g_maybe_check(g); }
		g_maybe_null(g);
		if (vf_chance(g->r, 1, 6)) { g_misc(g, E608_EDM); q_check(g->f); }
	}
	g_pac(g, vf_range(g->r, 1, 15), 1);
	q_check(g->f);
}

static void g_clean_text(struct gen *g)
{
	int lines = vf_range(g->r, 1, 20), i;
	g_select_text(g, g->ch2, 1);
	for (i = 0; i < lines && g->budget > 0; i++) {
		if (vf_chance(g->r, 1, 4)) g_ctrl(g, e608_pac(g->ch2, vf_range(g->r, 1, 15), 4 * vf_range(g->r, 0, 3), 0, 0));
		g_words(g, vf_range(g->r, 1, 5), 8);
		g_maybe_null(g);
		g_misc(g, E608_CR);
		g_maybe_check(g);
	}
	g_word(g, 6, 1);
	q_check(g->f);
}

/* --- wild: any command at any time --- */

static void g_wild_op(struct gen *g)
{
	struct vf_rng *r = g->r;
	switch (vf_below(r, 34)) {
	case 0: case 1: case 2: case 3: case 4: case 5: g_words(g, vf_range(r, 1, 3), 9); break;
	case 6: g_word(g, 12, 0); break;
	case 7: case 8: case 9: g_pac(g, vf_range(r, 1, 15), 1); g_maybe_check(g); break;
	case 10: g_ctrl(g, e608_midrow(g->ch2, vf_range(r, 0, 7), vf_chance(r, 1, 3))); g_maybe_check(g); break;
	case 11: g_misc(g, E608_FON); break;
	case 12: g_ctrl(g, e608_bg(g->ch2, vf_range(r, 0, 7), vf_chance(r, 1, 3))); g_maybe_check(g); break;
	case 13: switch (vf_below(r, 3)) { case 0: g_ctrl(g, e608_bt(g->ch2)); break; case 1: g_ctrl(g, e608_fa(g->ch2, 0)); break; default: g_ctrl(g, e608_fa(g->ch2, 1)); } break;
	case 14: g_special(g); break;
	case 15: g_ctrl(g, e608_special(g->ch2, 9)); break;
	case 16: g_ctrl(g, e608_ext(g->ch2, vf_range(r, 2, 3), vf_range(r, 0x20, 0x3F))); break;
	case 17: case 18: g_misc(g, E608_BS); break;
	case 19: g_misc(g, E608_DER); g_maybe_check(g); break;
	case 20: case 21: g_ctrl(g, e608_to(g->ch2, vf_range(r, 1, 3))); break;
	case 22: case 23: case 24: g_misc(g, E608_CR); g_maybe_check(g); break;
	case 25: g_misc(g, E608_EDM); g_maybe_check(g); break;
	case 26: g_misc(g, E608_ENM); break;
	case 27: g_misc(g, E608_EOC); g->text = 0; g->style[g->ch2] = S_POP; g_maybe_check(g); if (vf_chance(r, 4, 5)) g_pac(g, vf_range(r, 1, 15), 1); break;
	case 28: case 29: { /* style / channel switch within the field */
		int ch2 = vf_chance(r, 2, 3) ? g->ch2 : !g->ch2;
		switch (vf_below(r, 6)) {
		case 0: g_select_caption(g, ch2, S_POP, 0); break;
		case 1: g_select_caption(g, ch2, S_PAINT, 0); break;
		case 2: case 3: g_select_caption(g, ch2, S_ROLL, vf_chance(r, 1, 2) && g->depth[ch2] ? g->depth[ch2] : vf_range(r, 2, 4)); break;
		case 4: g_select_text(g, ch2, 1); break;
		default: g_select_text(g, ch2, 0); break;
		}
		g_maybe_check(g);
		if (vf_chance(r, 1, 2)) g_pac(g, vf_range(r, 1, 15), 1);
		break;
	}
	case 30: g_misc(g, vf_chance(r, 1, 2) ? E608_AOF : E608_AON); break;
	case 31: { int n = vf_range(r, 1, 4); q_null(g->f, n); g->budget -= n; break; }
	case 32: q_char(g->f, g_rand_char(g)); q_flush_pend(g->f); g->budget--; break;      /* single character + null byte */
	default: q_char(g->f, 0x20); g->budget--; g_maybe_check(g); break;
	}
	g_maybe_null(g);
}

static void g_start_any(struct gen *g)
{
	switch (vf_below(g->r, 5)) {
	case 0: g_select_caption(g, g->ch2, S_POP, 0); g_misc(g, E608_ENM); break;
	case 1: g_select_caption(g, g->ch2, S_PAINT, 0); break;
	case 2: case 3: g_select_caption(g, g->ch2, S_ROLL, vf_range(g->r, 2, 4)); break;
	default: g_select_text(g, g->ch2, 1); break;
	}
	if (vf_chance(g->r, 5, 6)) g_pac(g, vf_range(g->r, 1, 15), 1);
}

static void g_finish(struct gen *g)
{
	/* end with something that makes the last content visible */
	if (!g->text && g->style[g->ch2] == S_POP) { if (vf_chance(g->r, 3, 4)) g_misc(g, E608_EOC); }
	else if (vf_chance(g->r, 1, 2)) q_char(g->f, 0x20);
	else g_pac(g, vf_range(g->r, 1, 15), 0);
	q_check(g->f);
}

/* --- targeted families --- */

static void g_one_command(struct gen *g, int k)
{
	struct vf_rng *r = g->r;
	switch (k) {
	case 0: g_word(g, 4, 0); break;
	case 1: q_char(g->f, 0x20); g->budget--; break;
	case 2: g_pac(g, vf_range(r, 1, 15), 1); break;
	case 3: g_ctrl(g, e608_midrow(g->ch2, vf_range(r, 0, 7), vf_chance(r, 1, 3))); break;
	case 4: g_misc(g, E608_FON); break;
	case 5: g_ctrl(g, e608_bg(g->ch2, vf_range(r, 0, 7), vf_chance(r, 1, 3))); break;
	case 6: g_ctrl(g, vf_chance(r, 1, 2) ? e608_bt(g->ch2) : e608_fa(g->ch2, (int)vf_below(r, 2))); break;
	case 7: g_special(g); break;
	case 8: g_ctrl(g, e608_special(g->ch2, 9)); break;
	case 9: g_ctrl(g, e608_ext(g->ch2, vf_range(r, 2, 3), vf_range(r, 0x20, 0x3F))); break;
	case 10: g_misc(g, E608_BS); break;
	case 11: g_misc(g, E608_DER); break;
	case 12: g_ctrl(g, e608_to(g->ch2, vf_range(r, 1, 3))); break;
	case 13: g_misc(g, E608_CR); break;
	case 14: g_misc(g, E608_EDM); break;
	case 15: g_misc(g, E608_ENM); break;
	case 16: g_misc(g, E608_EOC); g->text = 0; g->style[g->ch2] = S_POP; break;
	case 17: g_select_caption(g, g->ch2, S_POP, 0); break;
	case 18: g_select_caption(g, g->ch2, S_PAINT, 0); break;
	case 19: g_select_caption(g, g->ch2, S_ROLL, vf_range(r, 2, 4)); break;
	case 20: g_select_text(g, g->ch2, 1); break;
	default: g_select_text(g, g->ch2, 0); break;
	}
}
#define N_COMMANDS 22

static void g_edge_lastcol(struct gen *g)
{
	struct vf_rng *r = g->r;
	int row = vf_range(r, 1, 15), n, i;
	g_start_any(g);
	g_ctrl(g, e608_pac(g->ch2, row, 28, 0, vf_chance(r, 1, 5)));
	if (vf_chance(r, 2, 3)) g_ctrl(g, e608_to(g->ch2, vf_range(r, 1, 3)));
	n = vf_range(r, 0, 6);
	for (i = 0; i < n; i++) q_char(g->f, g_rand_char(g));
	g->budget -= n / 2 + 1;
	n = vf_range(r, 1, 4);
	for (i = 0; i < n; i++) {
		static const int pick[] = { 0, 0, 1, 3, 5, 7, 8, 9, 10, 10, 11, 12, 12, 13, 6, 4 };
		g_one_command(g, pick[vf_below(r, sizeof pick / sizeof pick[0])]);
	}
	g_finish(g);
}

static void g_edge_baserow(struct gen *g)
{
	struct vf_rng *r = g->r;
	int n = vf_range(r, 2, 8), i;
	g_select_caption(g, g->ch2, S_ROLL, vf_range(r, 2, 4));
	for (i = 0; i < n && g->budget > 0; i++) {
		int row = vf_chance(r, 2, 3) ? vf_range(r, 1, 5) : vf_range(r, 1, 15);
		switch (vf_below(r, 6)) {
		case 0: case 1: case 2: g_pac(g, row, 1); g_maybe_check(g); g_words(g, vf_range(r, 1, 3), 6); break;
		case 3: g_misc(g, E608_CR); g_maybe_check(g); break;
		case 4: g_select_caption(g, g->ch2, S_ROLL, vf_range(r, 2, 4)); g_maybe_check(g); break;
		default: g_words(g, 2, 6); g_misc(g, E608_CR); break;
		}
	}
	g_finish(g);
}

static void g_edge_pairs(struct gen *g)
{
	struct vf_rng *r = g->r;
	g_start_any(g);
	if (vf_chance(r, 3, 4)) g_words(g, vf_range(r, 1, 3), 6);
	if (vf_chance(r, 1, 3)) { g_word(g, 5, 0); }
	g_one_command(g, (int)vf_below(r, N_COMMANDS));
	g_one_command(g, (int)vf_below(r, N_COMMANDS));
	if (vf_chance(r, 1, 2)) g_one_command(g, (int)vf_below(r, N_COMMANDS));
	if (vf_chance(r, 2, 3)) g_words(g, vf_range(r, 1, 2), 6);
	g_finish(g);
}

static void g_run_profile(struct gen *g, int prof, int len)
{
	int i, reps;
	g->budget = len;
	switch (prof) {
	case P_POP: g_clean_pop(g); break;
	case P_ROLL: g_clean_roll(g); break;
	case P_PAINT: g_clean_paint(g); break;
	case P_TEXT: g_clean_text(g); break;
	case P_EDGE_LASTCOL: reps = vf_range(g->r, 1, 3); for (i = 0; i < reps; i++) g_edge_lastcol(g); break;
	case P_EDGE_BASEROW: g_edge_baserow(g); break;
	case P_EDGE_PAIRS: reps = vf_range(g->r, 1, 3); for (i = 0; i < reps; i++) g_edge_pairs(g); break;
	default:
		g_start_any(g);
		while (g->budget > 0) g_wild_op(g);
		g_finish(g);
		break;
	}
}

/* ------------------------------------------------------------------ */

static int pick_profile(struct vf_rng *r)
{
	static const uint8_t w[P_COUNT] = { 12, 14, 9, 8, 27, 10, 8, 12 };
	unsigned t = 0, k, i;
	for (i = 0; i < P_COUNT; i++) t += w[i];
	k = vf_below(r, t);
	for (i = 0; i < P_COUNT; i++) { if (k < w[i]) return (int)i; k -= w[i]; }
	return P_WILD;
}

static void gen_init(struct gen *g, struct vf_rng *r, int f)
{
	unsigned k;
	memset(g, 0, sizeof *g);
	g->r = r; g->f = f;
	k = vf_below(r, 20);
	if (f == 0) g->dbl = k < 14 ? 1 : k < 16 ? 0 : 2;
	else g->dbl = k < 13 ? 0 : k < 17 ? 1 : 2;
	g->split_repeat = vf_chance(r, 1, 40);
	g->ch2 = (int)vf_below(r, 2);
	g->nullrate = vf_chance(r, 1, 3) ? 0 : vf_range(r, 2, 12);
	g->ckrate = vf_range(r, 20, 90);
}

static int run_generated(struct vf_rng *r)
{
	struct gen g[2];
	int fields, prof[2], len, f, segs, s;
	unsigned verdict;
	long before = pages_compared;

	q_reset();
	fields = (int)vf_below(r, 10);           /* 0-4: field 1 only, 5-6: field 2 only, 7-9: both */
	gen_init(&g[0], r, 0); gen_init(&g[1], r, 1);
	if (fields >= 7 && vf_chance(r, 1, 2)) g[1].ch2 = g[0].ch2;   /* same data channel bit on both fields */
	len = vf_chance(r, 1, 12) ? vf_range(r, 300, vf_tier ? 2500 : 900) : vf_range(r, 12, 160);
	prof[0] = prof[1] = -1;
	for (f = 0; f < 2; f++) {
		if ((f == 0 && fields >= 5 && fields <= 6) || (f == 1 && fields < 5)) continue;
		prof[f] = pick_profile(r);
		if (vf_chance(r, 1, 3)) q_null(f, vf_range(r, 1, 30));   /* the fields start at different times */
		segs = vf_chance(r, 1, 4) ? vf_range(r, 2, 3) : 1;
		for (s = 0; s < segs; s++) {
			int p = s == 0 ? prof[f] : pick_profile(r);
			if (s && vf_chance(r, 1, 2)) g[f].ch2 = !g[f].ch2;    /* continue on the other data channel of the field */
			g_run_profile(&g[f], p, len / segs);
			if (qn[f] >= MAXQ - 64) break;
		}
	}
	frames_zip();
	snprintf(case_desc, sizeof case_desc, "profiles F1=%s F2=%s repeat F1=%d F2=%d frames=%d",
		 prof[0] < 0 ? "-" : prof_name[prof[0]], prof[1] < 0 ? "-" : prof_name[prof[1]], g[0].dbl, g[1].dbl, n_frames);
	vf_sample("%s | F1: %s | F2: %s", case_desc, dis_range(0, 0, n_frames - 1, 700), dis_range(1, 0, n_frames - 1, 400));
	run_decoder();
	verdict = judge();
	vf_count("frames_fed", n_frames);
	vf_count("checkpoints", n_snaps);
	vf_count(prof[0] >= 0 ? prof_name[prof[0]] : prof_name[prof[1]], 1);
	if (verdict == 0) vf_count("cases_agreeing_with_strict_model", 1);
	(void)before;
	return nonempty_compared;
}


/* ------------------------------------------------------------------ */
/* mode "cc608local": local postconditions on the second implementation (src/cc608_decoder.c)        */
/*                                                                                                      */
/* The full differential oracle needs a quirk model per implementation (the strict reference model    */
/* and cc608_decoder.c disagree on about half of the generated histories, first of all because a      */
/* colour PAC keeps the cursor column there).  What can be decided without one: after an arbitrary    */
/* generated history (any decoder state), a short suffix that itself fixes mode, memory and cursor    */
/* - RDC (paint-on: what is written is displayed at once), EDM, an INDENT PAC (row and column        */
/* explicit) - must leave exactly what 47 CFR 15.119 says in the addressed row:                        */
/*   put  PAC r,i 'text'            columns i+1.. hold the text, white, underline as in the PAC        */
/*   der  PAC r,0 'full row' PAC r,i DER    (f)(1)(vii): cursor column and all to its right erased     */
/*   bs   PAC r,i 'text' BS xk      (f)(1)(vi): one column left, erasing the character there           */
/*   to   PAC r,i TOk 'text'        (e)(1)(ii): k columns further right, nothing erased                */
/*   edm  'text' EDM                (f)(1)(viii)... displayed memory erased                            */
/*   eoc  RCL ENM PAC r,i 'text' EOC   pop-on: text appears with EOC, not before                       */
/*   ru   RUa PAC r,0 'row' (CR 'row')x(a-1) RUb, b < a   (f)(1)(iv): "decreasing the number of roll-up   */
/*        rows instantly changes the size of the active display window ... A row which is turned off   */
/*        should also be erased from memory": the top a-b rows vanish at once, the lower b rows stay     */
/* Cells outside the addressed row must be transparent (the suffix erased the displayed memory).      */

static int loc_fail(const char *what, int p, int row, const struct dcell pgc[M_ROWS][M_COLS], const char *expect, int f)
{
	char dec[40], key[64];
	dump_dec_row(pgc[row], dec);
	snprintf(key, sizeof key, "model:C08:cc608:local:%s", what);
	vf_fail(key, "page %d row %d: expected [%s], cc608_decoder shows [%s] (' ' transparent, '_' space, '#' other) | field %d: ...%s | %s",
		p + 1, row + 1, expect, dec, f + 1, dis_range(f, n_frames > 60 ? n_frames - 60 : 0, n_frames - 1, 900), case_desc);
	return 1;
}

static int run_cc608_local(struct vf_rng *r)
{
	struct gen g[2];
	static const char alnum[] = "ABCDEFGHIJKLMNOPQRSTUVWXYZabcdefghijklmnopqrstuvwxyz0123456789";
	static const char *const kinds[] = { "put", "der", "bs", "to", "edm", "eoc", "ru", "bsin" };
	char exp[M_COLS + 1], exp_up[3][M_COLS + 1], text[40];
	int f, ch2, p, row, ind, ul, n, k, kind, i, c, plen, nbs = 0, tok = 0, der_col = 0, ru_a = 0, ru_b = 0, n_up = 0;
	struct snap *s;

	sut_cc608 = m_sut_cc608 = 1;
	q_reset();
	gen_init(&g[0], r, 0); gen_init(&g[1], r, 1);
	plen = vf_chance(r, 1, 8) ? 0 : vf_range(r, 4, 200);
	for (f = 0; f < 2; f++) {
		if (!plen || vf_chance(r, 1, 3)) continue;
		g_run_profile(&g[f], pick_profile(r), plen);
	}
	/* the suffix */
	f = (int)vf_below(r, 2); ch2 = (int)vf_below(r, 2); p = f * 2 + ch2;
	row = vf_range(r, 1, 15); ind = (int)vf_below(r, 8) * 4; ul = (int)vf_below(r, 2);
	kind = (int)vf_below(r, 8);
	if (kind == 6 && row < 4) row = vf_range(r, 4, 15);   /* a base row with room for four rows */
	q_flush_pend(0); q_flush_pend(1);
	while (qn[f] < qn[1 - f]) q_push(f, 0, 0, 0);       /* the suffix comes after everything on the other field, too */
	q_null(f, 1);
#define CTL(pair) q_ctrl(f, (pair), 2)
	memset(exp, ' ', M_COLS); exp[M_COLS] = 0;
	n = vf_range(r, 1, 32 - ind);
	if (vf_chance(r, 1, 4)) n = 32 - ind;                /* up to the last column */
	for (i = 0; i < n; i++) text[i] = alnum[vf_below(r, sizeof alnum - 1)];
	text[n] = 0;
	if (kind == 5) { CTL(e608_misc(ch2, f, E608_RCL)); CTL(e608_misc(ch2, f, E608_ENM)); }
	else CTL(e608_misc(ch2, f, E608_RDC));
	CTL(e608_misc(ch2, f, E608_EDM));
	switch (kind) {
	case 7: /* bsin: the cursor is brought back into the text (PAC + tab offset), BS erases one character there,
		   (f)(1)(vi); the characters to its right stay */
		tok = vf_range(r, 1, 3);
		if (n < tok + 1) n = tok + 1 + (int)vf_below(r, 4);
		if (ind + n > 32) { ind = 0; }
		for (i = 0; i < n; i++) text[i] = alnum[vf_below(r, sizeof alnum - 1)];
		text[n] = 0;
		CTL(e608_pac(ch2, row, ind, 0, ul));
		for (i = 0; i < n; i++) q_char(f, text[i]);
		CTL(e608_pac(ch2, row, ind, 0, ul));
		CTL(e608_to(ch2, tok));
		CTL(e608_misc(ch2, f, E608_BS));
		for (i = 0; i < n; i++) if (i != tok - 1) exp[1 + ind + i] = text[i];
		break;
	case 6: { /* ru: depth a, a rows of text, then the smaller depth b */
		int j, m;
		ru_a = vf_range(r, 3, 4); ru_b = vf_range(r, 2, ru_a - 1);
		ind = 0; ul = 0;
		CTL(e608_misc(ch2, f, ru_a == 4 ? E608_RU4 : E608_RU3));
		CTL(e608_pac(ch2, row, 0, 0, 0));
		for (j = 0; j < ru_a; j++) {
			char line[12];
			m = vf_range(r, 2, 9);
			for (i = 0; i < m; i++) line[i] = alnum[vf_below(r, sizeof alnum - 1)];
			if (j) CTL(e608_misc(ch2, f, E608_CR));
			for (i = 0; i < m; i++) q_char(f, line[i]);
			/* row j of the window ends up ru_a-1-j rows above the base row; the lower ru_b rows survive */
			if (ru_a - 1 - j == 0) { for (i = 0; i < m; i++) exp[1 + i] = line[i]; memcpy(text, line, (size_t)m); text[m] = 0; n = m; }
			else if (ru_a - 1 - j < ru_b) { char *e = exp_up[ru_a - 1 - j - 1]; memset(e, ' ', M_COLS); e[M_COLS] = 0; for (i = 0; i < m; i++) e[1 + i] = line[i]; n_up = ru_a - 1 - j > n_up ? ru_a - 1 - j : n_up; }
		}
		q_check(f);                                     /* all a rows on the screen */
		CTL(e608_misc(ch2, f, ru_b == 2 ? E608_RU2 : E608_RU3));
		break; }
	case 0: /* put */
		CTL(e608_pac(ch2, row, ind, 0, ul));
		for (i = 0; i < n; i++) q_char(f, text[i]);
		for (i = 0; i < n; i++) exp[1 + ind + i] = text[i];
		break;
	case 1: /* der: a full row, then DER at column ind+1 */
		CTL(e608_pac(ch2, row, 0, 0, ul));
		for (i = 0; i < 32; i++) { c = alnum[vf_below(r, sizeof alnum - 1)]; q_char(f, c); if (i < ind) exp[1 + i] = (char)c; }
		CTL(e608_pac(ch2, row, ind, 0, ul));
		CTL(e608_misc(ch2, f, E608_DER));
		der_col = 1 + ind;
		break;
	case 2: /* bs */
		CTL(e608_pac(ch2, row, ind, 0, ul));
		for (i = 0; i < n; i++) q_char(f, text[i]);
		nbs = vf_range(r, 1, n < 3 ? n : 3);
		/* a cursor that went past column 32 stays in column 32: the first BS then moves to column 31 (f)(1)(vi) and erases it */
		for (i = 0; i < nbs; i++) CTL(e608_misc(ch2, f, E608_BS));
		k = n;
		if (ind + n == 32) { k = n - 1 - nbs; if (k < 0) k = 0; for (i = 0; i < k; i++) exp[1 + ind + i] = text[i]; exp[32] = text[n - 1]; }
		else { k = n - nbs; if (k < 0) k = 0; for (i = 0; i < k; i++) exp[1 + ind + i] = text[i]; }
		break;
	case 3: /* to */
		tok = vf_range(r, 1, 3);
		if (ind + tok + n > 32) n = 32 - ind - tok;
		if (n < 1) { n = 1; ind = 0; }
		CTL(e608_pac(ch2, row, ind, 0, ul));
		CTL(e608_to(ch2, tok));
		for (i = 0; i < n; i++) q_char(f, text[i]);
		for (i = 0; i < n; i++) exp[1 + ind + tok + i] = text[i];
		break;
	case 4: /* edm */
		CTL(e608_pac(ch2, row, ind, 0, ul));
		for (i = 0; i < n; i++) q_char(f, text[i]);
		CTL(e608_misc(ch2, f, E608_EDM));
		break;
	default: /* eoc */
		CTL(e608_pac(ch2, row, ind, 0, ul));
		for (i = 0; i < n; i++) q_char(f, text[i]);
		q_check(f);                                     /* before EOC: nothing visible */
		CTL(e608_misc(ch2, f, E608_EOC));
		for (i = 0; i < n; i++) exp[1 + ind + i] = text[i];
		break;
	}
	q_check(f);
	frames_zip();
	snprintf(case_desc, sizeof case_desc, "local %s: field %d channel %d row %d indent %d underline %d text '%s' bs %d to %d, prefix %d pairs",
		 kinds[kind], f + 1, ch2 + 1, row, ind, ul, text, nbs, tok, plen);
	vf_sample("%s", case_desc);
	run_decoder();
	vf_count("local_cases", 1);
	{ char cn[40]; snprintf(cn, sizeof cn, "local_%s", kinds[kind]); vf_count(cn, 1); }
	if (n_snaps < 1) { vf_fail("harness:C08:local:no-checkpoint", "no checkpoint recorded"); return 0; }
	vf_sig("local %s f%d ch%d ind%d n%s ul%d prefix%s", kinds[kind], f, ch2, ind, ind + n == 32 ? "=32" : n == 1 ? "1" : "k", ul, plen ? (plen > 60 ? "long" : "short") : "0");
	if (kind == 5 && n_snaps >= 2) {
		/* the checkpoint before EOC */
		s = &snaps[n_snaps - 2];
		if (s->fetch_ok[p] == 1)
			for (c = 0; c < M_COLS; c++)
				if (s->pg[p][row - 1][c].op != VBI_TRANSPARENT_SPACE) {
					char e2[M_COLS + 1]; memset(e2, ' ', M_COLS); e2[M_COLS] = 0;
					return loc_fail("pop-on-visible-before-EOC", p, row - 1, s->pg[p], e2, f);
				}
	}
	s = &snaps[n_snaps - 1];
	if (s->fetch_ok[p] != 1) { vf_fail("model:C08:cc608:local:fetch-failed", "_vbi_cc608_decoder_get_page(%d) returned %d | %s", p + 1, s->fetch_ok[p], case_desc); return 1; }
	{
		int rr;
		for (rr = 0; rr < M_ROWS; rr++) {
			for (c = 0; c < M_COLS; c++) {
				const struct dcell *d = &s->pg[p][rr][c];
				int up = row - 1 - rr;      /* rows above the addressed row (kind ru: the surviving window rows) */
				int want = rr == row - 1 ? exp[c] : (kind == 6 && up >= 1 && up <= n_up) ? exp_up[up - 1][c] : ' ';
				const char *exprow = rr == row - 1 ? exp : (kind == 6 && up >= 1 && up <= n_up) ? exp_up[up - 1] : "                                  ";
				if (want != ' ') {
					if (d->op == VBI_TRANSPARENT_SPACE || d->uc != (unsigned)want) return loc_fail(kind == 2 ? "backspace" : kind == 3 ? "tab-offset" : kind == 6 ? "roll-up-shrink-lost-row" : kind == 7 ? "backspace-inside-text" : "text-at-cursor", p, rr, s->pg[p], exprow, f);
					if (d->fg != VBI_WHITE || !!(d->fl & DF_UL) != ul || (d->fl & (DF_IT | DF_FL | DF_OTHER)))
						return loc_fail("attributes-of-indent-PAC", p, rr, s->pg[p], exp, f);
					continue;
				}
				if (d->op == VBI_TRANSPARENT_SPACE) { if (d->uc != 0x20) return loc_fail("transparent-cell-not-blank", p, rr, s->pg[p], exp, f); continue; }
				/* (d)(1): a solid space may stand before the first and after the last character of a row */
				if (exprow[0] && d->uc == 0x20 && ((c > 0 && exprow[c - 1] != ' ') || (c < M_COLS - 1 && exprow[c + 1] != ' '))) continue;
				if (kind == 6 && up > n_up && up < ru_a) return loc_fail("roll-up-shrink-row-not-erased", p, rr, s->pg[p], exprow, f);
				if (rr != row - 1) return loc_fail("other-row-not-erased", p, rr, s->pg[p], "                                  ", f);
				return loc_fail(kind == 1 ? (c >= der_col ? "DER-left-cell" : "DER-changed-left-part") : kind == 4 ? "EDM-left-cell" : kind == 2 ? "backspace" : "spurious-cell", p, rr, s->pg[p], exp, f);
			}
		}
	}
	cells_compared += M_ROWS * M_COLS;
	return 1;
}

/* ------------------------------------------------------------------ */
/* quirk witnesses: one minimal command sequence per named quirk (mode "witness")               */

static const struct { int q; const char *script; } witness[] = {
	{ Q_PAC_ROLLUP_ERASES,      "RU3 PAC15,0 'one ' CR 'two ' PAC10,0 !" },
	{ Q_EOC_ERASES_HIDDEN,      "RCL PAC14,0 'one' EOC ! RCL PAC15,0 'two' EOC ! RCL EOC !" },
	{ Q_TR_NO_CLEAR,            "TR 'older text ' CR ! TR 'new ' !" },
	{ Q_NO_EXTENDED_CHARS,      "RDC PAC15,0 'ax' X2:20 ' ' !" },
	{ Q_FON_NOT_SPACING,        "RDC PAC15,0 'a' FON 'b ' !" },
	{ Q_FIELD2_NO_DEDUP,        "F2 RU2 PAC15,0 'one ' *CR 'two ' !" },
	{ Q_DEDUP_ACROSS_NULLS,     "RU2 PAC15,0 'one ' CR 'two ' CR _ CR 'three ' !" },
	{ Q_SHARED_CHANNEL_STATE,   "RU2 PAC15,0 'cc1 ' ! F2 @2 RU2 PAC15,0 'cc4 ' ! F1 'more ' !" },
	{ Q_TO_DESTRUCTIVE,         "RDC PAC15,0 'abcd ' PAC15,0 'x' TO1 ' ' !" },
	{ Q_PAC_INDENT_DESTRUCTIVE, "RDC PAC15,0 ' bcdef ' PAC15,4 ' ' !" },
	{ Q_CURSOR_COL33,           "RDC PAC15,28 'abcd' BS ' ' !" },
	{ Q_CR_IN_POP_PAINT,        "RDC PAC5,0 'a ' CR 'b ' !" },
	{ Q_CR_POP_ON_SHOWS_ROW,    "RCL PAC15,0 'hidden ' CR !" },
	{ Q_ATTRS_SURVIVE_ROW_END,  "RU2 PAC15,c1 'green ' CR 'white ' !" },
	{ Q_PEN_ATTRIBUTES,         "RDC PAC15,c1 'ab' MR4 BS 'c ' !" },
	{ Q_RU_DEPTH_CHANGE_ERASES, "RU3 PAC15,0 'one ' CR 'two ' RU2 !" },
	{ Q_EDM_ENM_IN_TEXT_MODE,   "RU2 PAC15,0 'cap ' TR 'txt ' EDM !" },
	{ Q_TEXT_PAC_MOVES_ROW,     "TR 'a ' PAC5,0 'b ' !" },
	{ Q_ATTR_CODE_NO_BACKSPACE, "RDC PAC15,0 'ax' BG2 'b ' !" },
	{ Q_MIDROW_ITALICS_WHITE,   "RDC PAC15,c1 'a' MR7 'b ' !" },
	{ Q_STALE_SOLID_SPACE,      "RDC PAC15,0 'ab' PAC15,0 DER !" },
	{ Q_LINE_BUFFER, "RU2 PAC15,0 'roll ' RCL PAC3,0 'pop' EOC !" },
	/* the row copy happens at spaces and at the solid block 0x7F (caption.c: (unicode & 0x7F) == 0x20 is true of U+25A0):
	 * 'cd' never reaches the displayed page because TR / EOC arrive while field 1 addresses another channel */
	{ Q_LINE_BUFFER, "@2 RU2 PAC15,0 'ab\x7f' 'cd' @1 TR 'x ' @2 EOC PAC1,0 EOC !" },
};
#define N_WITNESS ((int)(sizeof witness / sizeof witness[0]))

/* every quirk switch must change what the model computes for its witness (a dead switch would make
 * the "disappears exactly with" test meaningless); Q-stale-solid-space acts in the comparison only */
static void selftest_witnesses(void)
{
	static struct model a, b;
	int w, p, i;
	for (w = 0; w < N_WITNESS; w++) {
		int differs = 0;
		if (witness[w].q == Q_STALE_SOLID_SPACE) continue;
		if (!script_build(witness[w].script)) { vf_fail("selftest:C08:script", "cannot assemble: %s", witness[w].script); continue; }
		m_init(&a, 0); m_init(&b, QBIT(witness[w].q));
		for (i = 0; i < n_frames; i++) {
			m_feed(&a, 0, frames[i].p[0][0], frames[i].p[0][1]); m_feed(&a, 1, frames[i].p[1][0], frames[i].p[1][1]);
			m_feed(&b, 0, frames[i].p[0][0], frames[i].p[0][1]); m_feed(&b, 1, frames[i].p[1][0], frames[i].p[1][1]);
			if (!frames[i].ck) continue;
			for (p = 0; p < 8; p++) {
				int r, col;
				const struct m_mem *x = &a.ch[p].mem[a.ch[p].disp], *y = &b.ch[p].mem[b.ch[p].disp];
				for (r = 0; r < M_ROWS; r++)
					for (col = 0; col < M_COLS; col++) {
						const struct m_cell *cx = &x->c[r][col], *cy = &y->c[r][col];
						if (cx->kind != cy->kind || cx->code != cy->code || (cx->kind != K_EMPTY && memcmp(&cx->a, &cy->a, sizeof cx->a))) differs = 1;
					}
			}
		}
		if (!differs) vf_fail("selftest:C08:quirk-switch", "%s does not change the model's display memory for its witness [%s]", m_quirk_name[witness[w].q], witness[w].script);
	}
}

static int run_witness(long idx)
{
	int w = (int)(idx % N_WITNESS);
	unsigned S;
	if (!script_build(witness[w].script)) { vf_fail("selfcheck:C08:witness-script", "cannot assemble %s", witness[w].script); return 0; }
	snprintf(case_desc, sizeof case_desc, "witness for %s: %s", m_quirk_name[witness[w].q], witness[w].script);
	vf_sample("%s", case_desc);
	run_decoder();
	S = judge();
	vf_count("witness_sequences", 1);
	if (S == 0) { vf_count("witness_no_longer_diverging", 1); return 1; }     /* repaired in the tree under test */
	if (S == QBIT(witness[w].q)) vf_count(m_qstatus(witness[w].q) == QK_OPEN ? "witness_open_quirk_confirmed" : "witness_repaired_quirk_present", 1);
	if (S != QBIT(witness[w].q)) {
		char key[96];
		snprintf(key, sizeof key, "selfcheck:C08:witness:%s", m_quirk_name[witness[w].q]);
		vf_fail(key, "minimal sequence [%s] is explained by quirk set 0x%x, expected exactly 0x%x", witness[w].script, S, QBIT(witness[w].q));
	}
	vf_sig("witness %s", m_quirk_name[witness[w].q]);
	return 1;
}

/* triage aid (no job uses it): --mode script decodes the script in the environment variable C08_SCRIPT
 * (notation above) and judges it like a generated history; with -v the decoder's page of every channel
 * that is not empty is printed at every checkpoint. */
static int run_script(void)
{
	const char *s = getenv("C08_SCRIPT");
	unsigned S;
	if (!s || !script_build(s)) { vf_fail("harness:C08:script", "C08_SCRIPT missing or not assembled"); return 0; }
	snprintf(case_desc, sizeof case_desc, "script: %.230s", s);
	vf_sample("%s", case_desc);
	run_decoder();
	if (vf_verbose) {
		int k, p, r;
		for (k = 0; k < n_snaps; k++)
			for (p = 0; p < 8; p++)
				for (r = 0; r < M_ROWS; r++) {
					char b[40];
					int c, any = 0;
					dump_dec_row(snaps[k].pg[p][r], b);
					for (c = 0; c < M_COLS; c++) if (b[c] != (p >= 4 ? '_' : ' ')) any = 1;
					if (any) vf_log("  ck %d frame %d page %d row %2d [%s]\n", k, snaps[k].frame, p + 1, r + 1, b);
				}
	}
	S = judge();
	vf_log("  script verdict: quirk set 0x%x\n", S);
	return 1;
}

static int run_case(struct vf_rng *r, long idx)
{
	int nt;
	nonempty_compared = 0;
	pages_compared = pages_skipped_unflushed = pages_skipped_poisoned = 0;
	cells_compared = 0;
	sut_cc608 = !strcmp(vf_mode, "cc608") || (getenv("C08_SUT") && !strcmp(getenv("C08_SUT"), "cc608"));
	m_sut_cc608 = sut_cc608;
	if (!strcmp(vf_mode, "cc608local")) nt = run_cc608_local(r);
	else if (!strcmp(vf_mode, "witness")) nt = run_witness(idx);
	else if (!strcmp(vf_mode, "script")) nt = run_script();
	else nt = run_generated(r);
	vf_count("pages_compared", pages_compared);
	vf_count("pages_not_compared_pending_word", pages_skipped_unflushed);
	vf_count("pages_not_compared_outside_rule_texts", pages_skipped_poisoned);
	vf_count("cells_compared", cells_compared);
	{
		int k, p; long ev = 0;
		for (k = 0; k < n_snaps; k++) for (p = 0; p < 8; p++) ev += snaps[k].ev[p];
		vf_count("caption_events", ev);
	}
	return nt;
}

static void selftest(void)
{
	selftest_vectors();
	selftest_corpus();
	selftest_witnesses();
}

int main(int argc, char **argv) { return vf_main(argc, argv, run_case, selftest); }
