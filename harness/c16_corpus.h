/* C16 page corpus: vbi_page objects produced by the REAL decoder.
 *
 * A compact Teletext packetiser (Hamming 8/4, 24/18, odd parity; packets
 * X/0..X/25, X/26, X/27/0, X/27/4, X/28/0, X/28/3) and an EIA-608 byte-pair
 * generator feed vbi_decode(); the page under test is then obtained with
 * vbi_fetch_vt_page() / vbi_fetch_cc_page().  Nothing here is an oracle: the
 * corpus only has to be diverse (double width/height/size, conceal, flash,
 * mosaics, DRCS, transparent/boxed attributes, Level 2.5 enhancement, FLOF
 * navigation row, caption attributes).
 */
#ifndef C16_CORPUS_H
#define C16_CORPUS_H

static vbi_decoder *cor_dec;
static double cor_now;
static vbi_sliced cor_fr[16];
static int cor_nfr;
static vbi_page PG;          /* the page under test */
static int PG_is_cc;
static char PG_desc[400];

/* what the generator sent and asked for (evidence + signatures) */
static struct cor_meta {
	int station;        /* made by c16_station.h */
	unsigned ctrl;      /* C4..C14 of the page */
	int lv, rows, nav;  /* fetch arguments: level index 0..3, rows, navigation */
	int flof, row24;    /* X/27/0 with "display row 24" sent; packet X/24 sent */
	int hex;            /* page number is not decimal */
} META;

/* features observed in the fetched page (evidence + signatures) */
static struct pg_feat {
	int dw, dh, ds, conceal, flash, gfx, drcs, transp, semi, link, nonascii, bold_italic, underline;
	int body_visible;     /* cells of rows 1.. that are not transparent space */
	int row0_visible;
} FEAT;
static int PG_boxed;         /* newsflash / subtitle page with a visible (boxed) area */

/* ---------------- coding ---------------- */

static const uint8_t cor_ham8_tab[16] = {
	0x15, 0x02, 0x49, 0x5e, 0x64, 0x73, 0x38, 0x2f, 0xd0, 0xc7, 0x8c, 0x9b, 0xa1, 0xb6, 0xfd, 0xea
};
static uint8_t cor_ham8(int v) { return cor_ham8_tab[v & 15]; }

static uint8_t cor_par(unsigned c)
{
	unsigned n = 0, i;
	c &= 0x7f;
	for (i = 0; i < 7; i++) n += (c >> i) & 1;
	return (uint8_t)((n & 1) ? c : (c | 0x80));
}

/* EN 300 706 8.3: positions 1..24, P1..P5 at 1,2,4,8,16 (odd parity over the
 * positions having that index bit), P6 at 24 (odd parity over everything). */
static void cor_ham24(uint8_t *d, unsigned v)
{
	static const int dpos[18] = { 3, 5, 6, 7, 9, 10, 11, 12, 13, 14, 15, 17, 18, 19, 20, 21, 22, 23 };
	unsigned cw = 0;
	int i, k, par;
	for (i = 0; i < 18; i++)
		if ((v >> i) & 1) cw |= 1u << (dpos[i] - 1);
	for (k = 0; k < 5; k++) {
		par = 0;
		for (i = 1; i <= 23; i++)
			if ((i >> k) & 1) par ^= (int)((cw >> (i - 1)) & 1);
		if (!par) cw |= 1u << ((1 << k) - 1);
	}
	par = 0;
	for (i = 0; i < 23; i++) par ^= (int)((cw >> i) & 1);
	if (!par) cw |= 1u << 23;
	d[0] = (uint8_t)cw; d[1] = (uint8_t)(cw >> 8); d[2] = (uint8_t)(cw >> 16);
}

#define TRIP(addr, mode, data) ((unsigned)(addr) | ((unsigned)(mode) << 6) | ((unsigned)(data) << 11))

/* ---------------- transmission ---------------- */

static void cor_flush(void)
{
	if (cor_nfr) {
		vbi_decode(cor_dec, cor_fr, cor_nfr, cor_now);
		cor_now += 0.04;
		cor_nfr = 0;
	}
}

static void cor_tx(const uint8_t *pkt)
{
	memset(&cor_fr[cor_nfr], 0, sizeof cor_fr[0]);
	cor_fr[cor_nfr].id = VBI_SLICED_TELETEXT_B;
	cor_fr[cor_nfr].line = (uint32_t)(7 + cor_nfr);
	memcpy(cor_fr[cor_nfr].data, pkt, 42);
	if (++cor_nfr == 16) cor_flush();
}

static void cor_addr(uint8_t *p, int mag, int packet)
{
	p[0] = cor_ham8((mag & 7) | ((packet & 1) << 3));
	p[1] = cor_ham8(packet >> 1);
}

/* ctrl bit n-4 = Cn (C4..C14) */
static void cor_header(int mag, int page, int subno, unsigned ctrl, const char *text)
{
	uint8_t p[42];
	int i;
#define CB(n) ((int)((ctrl >> ((n) - 4)) & 1))
	cor_addr(p, mag, 0);
	p[2] = cor_ham8(page & 15); p[3] = cor_ham8(page >> 4);
	p[4] = cor_ham8(subno & 15);
	p[5] = cor_ham8(((subno >> 4) & 7) | (CB(4) << 3));
	p[6] = cor_ham8((subno >> 8) & 15);
	p[7] = cor_ham8(((subno >> 12) & 3) | (CB(5) << 2) | (CB(6) << 3));
	p[8] = cor_ham8(CB(7) | (CB(8) << 1) | (CB(9) << 2) | (CB(10) << 3));
	p[9] = cor_ham8(CB(11) | (CB(12) << 1) | (CB(13) << 2) | (CB(14) << 3));
#undef CB
	{ size_t tl = text ? strlen(text) : 0; for (i = 0; i < 32; i++) p[10 + i] = cor_par((unsigned char)((size_t)i < tl ? text[i] : ' ')); }
	cor_tx(p);
}

static void cor_row(int mag, int row, const uint8_t *d40)
{
	uint8_t p[42];
	int i;
	cor_addr(p, mag, row);
	for (i = 0; i < 40; i++) p[2 + i] = cor_par(d40[i]);
	cor_tx(p);
}

/* packet with a designation code and 13 Hamming 24/18 triplets (X/26, POP/GPOP rows 1..25) */
static void cor_trip_packet(int mag, int packet, int designation, const unsigned *trip13)
{
	uint8_t p[42];
	int i;
	cor_addr(p, mag, packet);
	p[2] = cor_ham8(designation);
	for (i = 0; i < 13; i++) cor_ham24(p + 3 + 3 * i, trip13[i]);
	cor_tx(p);
}
static void cor_x26(int mag, int designation, const unsigned *trip13) { cor_trip_packet(mag, 26, designation, trip13); }

/* packet with 40 Hamming 8/4 nibbles (MOT, MIP, BTT rows) */
static void cor_nibble_row(int mag, int row, const uint8_t *n40)
{
	uint8_t p[42];
	int i;
	cor_addr(p, mag, row);
	for (i = 0; i < 40; i++) p[2 + i] = cor_ham8(n40[i]);
	cor_tx(p);
}

/* time filling header: terminates the page open in this magazine (parallel mode) */
static void cor_end_page(int mag) { cor_header(mag, 0xFF, 0x3F7F, 0, NULL); }

/* bit writer for X/28: 13 triplets, LSB first */
struct cor_bits { unsigned t[13]; int n; };
static void cor_put(struct cor_bits *b, unsigned v, int count)
{
	int i;
	for (i = 0; i < count && b->n < 13 * 18; i++, b->n++)
		if ((v >> i) & 1) b->t[b->n / 18] |= 1u << (b->n % 18);
}
static void cor_x28(int mag, int designation, const struct cor_bits *b)
{
	uint8_t p[42];
	int i;
	cor_addr(p, mag, 28);
	p[2] = cor_ham8(designation);
	for (i = 0; i < 13; i++) cor_ham24(p + 3 + 3 * i, b->t[i]);
	cor_tx(p);
}

static void cor_link6(uint8_t *p, int mag, int lmag, int page, int subno)
{
	int m = (mag ^ lmag) & 7;
	p[0] = cor_ham8(page & 15); p[1] = cor_ham8(page >> 4);
	p[2] = cor_ham8(subno & 15);
	p[3] = cor_ham8(((subno >> 4) & 7) | ((m & 1) << 3));
	p[4] = cor_ham8((subno >> 8) & 15);
	p[5] = cor_ham8(((subno >> 12) & 3) | (((m >> 1) & 1) << 2) | (((m >> 2) & 1) << 3));
}

/* ---------------- Teletext page generator ---------------- */

static const uint8_t cor_attrs[] = {
	0x0D, 0x0E, 0x0F, 0x0C, 0x0D, 0x0E, 0x0F, 0x0C,            /* sizes */
	0x18, 0x08, 0x09, 0x0B, 0x0B, 0x0A, 0x0A, 0x1D, 0x1C, 0x1E, 0x1F, 0x19, 0x1A, 0x1B,
	0x00, 0x01, 0x02, 0x03, 0x04, 0x05, 0x06, 0x07,
	0x10, 0x11, 0x12, 0x13, 0x14, 0x15, 0x16, 0x17
};

static void cor_gen_row(struct vf_rng *r, uint8_t *d, int style)
{
	int i;
	static const char *words[] = { "NEWS ", "100 ", "Sport 301 ", "www.zvbi.org ", "a@b.cd ", "WETTER>> ", "{|}~ ", "[\\]^_` ", "#$@ " };
	switch (style) {
	case 0: /* plain text with words (links) */
		for (i = 0; i < 40;) {
			if (vf_chance(r, 1, 3)) {
				const char *w = words[vf_below(r, sizeof words / sizeof words[0])];
				while (*w && i < 40) d[i++] = (uint8_t)*w++;
			} else d[i++] = (uint8_t)vf_range(r, 0x20, 0x7f);
		}
		break;
	case 1: /* text with spacing attributes */
		for (i = 0; i < 40; i++)
			d[i] = vf_chance(r, 1, 5) ? cor_attrs[vf_below(r, sizeof cor_attrs)] : (uint8_t)vf_range(r, 0x20, 0x7f);
		break;
	case 2: /* mosaics */
		d[0] = (uint8_t)vf_range(r, 0x10, 0x17);
		for (i = 1; i < 40; i++)
			d[i] = vf_chance(r, 1, 8) ? cor_attrs[vf_below(r, sizeof cor_attrs)] : (uint8_t)(vf_chance(r, 1, 4) ? vf_range(r, 0x40, 0x5f) : (0x20 | vf_below(r, 0x60)));
		break;
	case 3: /* anything */
		for (i = 0; i < 40; i++) d[i] = (uint8_t)vf_below(r, 128);
		break;
	case 4: /* size attribute near the right/left edge */
		for (i = 0; i < 40; i++) d[i] = (uint8_t)vf_range(r, 0x41, 0x5a);
		d[vf_chance(r, 1, 2) ? vf_range(r, 34, 39) : vf_range(r, 0, 4)] = (uint8_t)vf_range(r, 0x0D, 0x0F);
		if (vf_chance(r, 1, 2)) d[vf_range(r, 5, 33)] = (uint8_t)vf_range(r, 0x0C, 0x0F);
		break;
	default: /* blank */
		memset(d, 0x20, 40);
	}
}

struct cor_x26gen { unsigned t[16 * 13]; int n; };
static void cor_t(struct cor_x26gen *g, unsigned v) { if (g->n < 16 * 13 - 1) g->t[g->n++] = v; }

/* one column address triplet of local enhancement data / of an object.
 * have_drcs bit 0: global DRCS page linked, bit 1: normal DRCS page linked */
static unsigned cor_col_triplet(struct vf_rng *r, int col, int have_drcs)
{
	switch ((have_drcs && vf_chance(r, 1, 3)) ? 13 : vf_below(r, 14)) {
	case 0: return TRIP(col, 0x00, vf_below(r, 32));                       /* foreground */
	case 1: return TRIP(col, 0x03, vf_below(r, 32));                       /* background */
	case 2: return TRIP(col, 0x07, vf_below(r, 32));                       /* flash */
	case 3: case 4: case 5:                                                /* display attributes */
		return TRIP(col, 0x0C, (vf_chance(r, 1, 2) ? 0x40 : 0) | (vf_chance(r, 1, 3) ? 0x01 : 0) | (vf_below(r, 32) << 1 & 0x3E));
	case 6: return TRIP(col, 0x09, vf_range(r, 0x20, 0x7f));               /* G0 */
	case 7: return TRIP(col, 0x0F, vf_range(r, 0x20, 0x7f));               /* G2 */
	case 8: return TRIP(col, vf_chance(r, 1, 2) ? 0x02 : 0x0B, vf_range(r, 0x20, 0x7f)); /* G3 */
	case 9: return TRIP(col, 0x01, vf_range(r, 0x20, 0x7f));               /* G1 mosaic */
	case 10: return TRIP(col, vf_range(r, 0x10, 0x1F), vf_range(r, 0x41, 0x7a)); /* diacritical */
	case 11: return TRIP(col, 0x0E, vf_below(r, 128));                     /* font style (3.5) */
	case 12: return TRIP(col, 0x08, vf_below(r, 88));                      /* modified G0/G2 designation */
	default:
		if (have_drcs) return TRIP(col, 0x0D, (((have_drcs & 2) && vf_chance(r, 1, 2)) ? 0x40 : ((have_drcs & 1) ? 0 : 0x40)) | vf_below(r, 48));
		return TRIP(col, 0x09, vf_range(r, 0x41, 0x5a));
	}
}

/* Local enhancement data: set-active-position + column triplets, rows ascending */
static void cor_gen_x26(struct vf_rng *r, struct cor_x26gen *g, int have_drcs, int max_ops)
{
	int row = vf_chance(r, 1, 6) ? 0 : vf_range(r, 1, 6), ops = vf_range(r, 1, max_ops);
	g->n = 0;
	if (vf_chance(r, 1, 4)) cor_t(g, TRIP(40 + vf_range(r, 0, 23), 0x00, vf_below(r, 32)));       /* full screen colour */
	if (have_drcs && vf_chance(r, 1, 8)) cor_t(g, TRIP(40 + 1, 0x18, (vf_below(r, 2) << 6) | 0)); /* DRCS mode, sub-table 0 */
	while (ops-- > 0 && row <= 24) {
		int col = vf_chance(r, 1, 3) ? vf_range(r, 36, 39) : vf_range(r, 0, 39), k = vf_range(r, 1, 5);
		if (row == 0) cor_t(g, TRIP(0x3F, 0x07, vf_below(r, 32)));
		else if (vf_chance(r, 1, 5)) cor_t(g, TRIP(40 + (row == 24 ? 0 : row), 0x01, vf_below(r, 128)));  /* full row colour */
		else cor_t(g, TRIP(40 + (row == 24 ? 0 : row), 0x04, col));
		if (row == 0 && col < 8) col = 8 + (int)vf_below(r, 32);
		while (k-- > 0 && col < 40) {
			cor_t(g, cor_col_triplet(r, col, have_drcs));
			col += vf_range(r, 0, 3);
		}
		row += vf_range(r, 1, 6);
	}
	cor_t(g, TRIP(0x3F, 0x1F, 0x7F));
	while (g->n % 13) g->t[g->n++] = TRIP(0x3F, 0x1F, 0x7F);
}

static void cor_ev(vbi_event *ev, void *ud) { (void)ev; (void)ud; }

static void cor_new_decoder(void)
{
	cor_dec = vbi_decoder_new();
	if (!cor_dec) { vf_fail("harness:alloc", "vbi_decoder_new failed"); exit(2); }
	vbi_event_handler_register(cor_dec, VBI_EVENT_TTX_PAGE | VBI_EVENT_CAPTION, cor_ev, NULL);
	cor_now = 1000.0;
	cor_nfr = 0;
}

static void cor_end(void)
{
	if (cor_dec) { vbi_decoder_delete(cor_dec); cor_dec = NULL; }
}

static int cor_gen_ttx(struct vf_rng *r)
{
	int mag = (int)vf_below(r, 8), page, subno, i, level, rows, nav, have_drcs = 0, n_x26 = 0, flof = 0, x28 = 0;
	unsigned ctrl = 0;
	static const int levels[4] = { VBI_WST_LEVEL_1, VBI_WST_LEVEL_1p5, VBI_WST_LEVEL_2p5, VBI_WST_LEVEL_3p5 };
	int lv = (int)vf_below(r, 4);
	int dmag[2] = { 0, 0 }, dpage[2] = { 0, 0 };
	uint8_t d[40];
	int mag8;

	vf_phase("vbi_decode(teletext)");
	memset(&META, 0, sizeof META);
	level = levels[lv];
	page = (int)(vf_below(r, 10) << 4 | vf_below(r, 10));
	/* only pages with decimal numbers are Level One Pages the formatter accepts */
	if (mag == 1 && page == 0x00 && 0) page = 1;
	subno = vf_chance(r, 1, 2) ? 0 : (int)(vf_below(r, 8) << 4 | vf_below(r, 10));   /* BCD 00..79; others are normalised by the cache */
	if (subno == 0 && vf_chance(r, 1, 4)) subno = 1;
	if (vf_chance(r, 1, 6)) ctrl |= 1u << (5 - 4);   /* newsflash */
	if (vf_chance(r, 1, 6)) ctrl |= 1u << (6 - 4);   /* subtitle */
	if (vf_chance(r, 1, 8)) ctrl |= 1u << (7 - 4);   /* suppress header */
	if (vf_chance(r, 1, 12)) ctrl |= 1u << (10 - 4); /* inhibit display */
	ctrl |= vf_below(r, 8) << (12 - 4);              /* national option */

	/* DRCS pages first (function unknown: hex units digit), converted on demand;
	 * bit 0: global DRCS via link 26, bit 1: normal DRCS via link 25 */
	if (lv >= 2 && vf_chance(r, 1, 2)) {
		int which;
		have_drcs = vf_range(r, 1, 3);
		for (which = 0; which < 2; which++) {
			/* X/28/3 (DRCS modes) only on request: storing such a page leaks a cache reference
			 * in the unchanged tree (packet.c, defect candidate of C01) */
			int use_x283 = strchr(vf_mode, 'D') && vf_chance(r, 1, 3);
			if (!(have_drcs & (1 << which))) continue;
			dmag[which] = vf_chance(r, 1, 2) ? mag : (int)vf_below(r, 8);
			dpage[which] = (int)(vf_below(r, 8) << 4) | vf_range(r, 0xA, 0xF);
			if (dmag[which] == mag && dpage[which] == page) dpage[which] ^= 0x10;
			if (which == 1 && dmag[1] == dmag[0] && dpage[1] == dpage[0] && (have_drcs & 1)) dpage[1] ^= 0x20;
			cor_header(dmag[which], dpage[which], 0, 0, "DRCS");
			if (use_x283) {
				struct cor_bits b;
				memset(&b, 0, sizeof b);
				cor_put(&b, which ? 5 : 4, 4); cor_put(&b, 0, 3); cor_put(&b, 0, 11);
				for (i = 0; i < 48; i++) cor_put(&b, vf_chance(r, 2, 3) ? 0 : vf_below(r, 4), 4);
				cor_x28(dmag[which], 3, &b);
			}
			for (i = 1; i <= 24; i++) {
				int j;
				if (vf_chance(r, 1, 30)) continue;
				for (j = 0; j < 40; j++) d[j] = (uint8_t)(0x40 | vf_below(r, 64));
				cor_row(dmag[which], i, d);
			}
			cor_header(dmag[which], 0xFF, 0x3F7F, 0, NULL);
		}
	}

	cor_header(mag, page, subno, ctrl, "  ZVBI C16 test  Mon 01 Jan");

	if (lv >= 2 && vf_chance(r, 1, 2)) {      /* X/28/0 format 1: charset, colour map, default colours */
		struct cor_bits b;
		memset(&b, 0, sizeof b);
		cor_put(&b, 0, 4); cor_put(&b, 0, 3);
		cor_put(&b, vf_below(r, 88), 7); cor_put(&b, vf_below(r, 88), 7);
		cor_put(&b, 0, 3); cor_put(&b, 0, 4);
		for (i = 0; i < 16; i++) cor_put(&b, vf_below(r, 4096), 12);
		cor_put(&b, vf_below(r, 32), 5); cor_put(&b, vf_below(r, 32), 5);
		cor_put(&b, vf_below(r, 2), 1); cor_put(&b, vf_below(r, 8), 3);
		cor_x28(mag, 0, &b);
		x28 = 1;
	}
	if (have_drcs) {                           /* X/27/4: link 24 GPOP (none), 25 DRCS, 26 GDRCS */
		uint8_t p[42];
		cor_addr(p, mag, 27);
		p[2] = cor_ham8(4);
		for (i = 0; i < 6; i++) {
			unsigned t1 = 0, t2 = 0;          /* unused links: never referenced by the pages generated here */
			int which = (i == 1) ? 1 : (i == 2) ? 0 : -1;
			if (which >= 0 && (have_drcs & (1 << which)))
				t1 = (which ? 3u : 2u) | ((unsigned)(dpage[which] & 15) << 7)
					| ((unsigned)((dmag[which] ^ mag) & 7) << 12) | ((unsigned)(dpage[which] >> 4) << 15);
			cor_ham24(p + 3 + 6 * i, t1 & 0x3FFFF);
			cor_ham24(p + 6 + 6 * i, t2);
		}
		cor_tx(p);
	}
	if (vf_chance(r, 1, 3)) {                  /* X/27/0 FLOF */
		uint8_t p[42];
		flof = 1;
		cor_addr(p, mag, 27);
		p[2] = cor_ham8(0);
		for (i = 0; i < 6; i++)
			cor_link6(p + 3 + 6 * i, mag, (int)vf_below(r, 8), (int)(vf_below(r, 10) << 4 | vf_below(r, 10)), vf_chance(r, 1, 2) ? 0x3F7F : (int)vf_below(r, 0x10));
		p[39] = cor_ham8(vf_chance(r, 5, 6) ? 0xF : 0x7);
		if (vbi_unham8(p[39]) & 8) META.flof = 1;
		p[40] = 0; p[41] = 0;
		cor_tx(p);
	}
	/* X/26 local enhancement.  Always present when the page will be formatted at
	 * Level >= 1.5: without it the formatter takes default_object_invocation(), which
	 * indexes pop_link[][-1] in the unchanged tree (defect candidate of C01, not ours) */
	if (lv >= 1) {
		struct cor_x26gen g;
		cor_gen_x26(r, &g, have_drcs, lv >= 2 ? 30 : 8);
		n_x26 = g.n / 13;
		for (i = 0; i < n_x26; i++) cor_x26(mag, i, g.t + 13 * i);
	}
	{
		int base_style = (int)vf_below(r, 6), lastrow = vf_chance(r, 3, 4) ? 24 : 23;
		for (i = 1; i <= lastrow; i++) {
			int style = vf_chance(r, 1, 2) ? base_style : (int)vf_below(r, 6);
			if (vf_chance(r, 1, 12)) continue;     /* row not transmitted */
			cor_gen_row(r, d, style);
			cor_row(mag, i, d);
			if (i == 24) META.row24 = 1;
		}
	}
	cor_header(mag, 0xFF, 0x3F7F, 0, NULL);    /* time filling header terminates the page (parallel mode) */
	cor_flush();

	rows = vf_chance(r, 7, 10) ? 25 : vf_chance(r, 1, 4) ? 1 : vf_range(r, 2, 24);
	nav = vf_chance(r, 2, 3);
	mag8 = mag ? mag : 8;
	META.ctrl = ctrl; META.lv = lv; META.rows = rows; META.nav = nav;
	memset(&PG, 0, sizeof PG);
	vf_phase("vbi_fetch_vt_page");
	if (!vbi_fetch_vt_page(cor_dec, &PG, mag8 * 0x100 + page, vf_chance(r, 1, 2) ? VBI_ANY_SUBNO : subno, (vbi_wst_level)level, rows, nav)) {
		snprintf(PG_desc, sizeof PG_desc, "ttx %x%02x/%04x fetch failed", mag8, page, subno);
		return 0;
	}
	PG_is_cc = 0;
	snprintf(PG_desc, sizeof PG_desc, "ttx %x%02x/%04x ctrl=0x%x level=%d rows=%d nav=%d x26=%d x28=%d flof=%d drcs=%d",
		 mag8, page, subno, ctrl, lv, rows, nav, n_x26, x28, flof, have_drcs);
	return 1;
}

/* ---------------- caption generator ---------------- */

static void cor_cc(int field2, unsigned a, unsigned b)
{
	vbi_sliced s;
	memset(&s, 0, sizeof s);
	s.id = field2 ? VBI_SLICED_CAPTION_525_F2 : VBI_SLICED_CAPTION_525_F1;
	s.line = field2 ? 284 : 21;
	s.data[0] = cor_par(a); s.data[1] = cor_par(b);
	vbi_decode(cor_dec, &s, 1, cor_now);
	cor_now += 1 / 29.97;
}
static void cor_cc_cmd(int f2, unsigned a, unsigned b) { cor_cc(f2, a, b); cor_cc(f2, a, b); }

static int cor_gen_cc(struct vf_rng *r)
{
	int f2 = vf_chance(r, 1, 5), ch2 = vf_chance(r, 1, 4), mode = (int)vf_below(r, 4), n = vf_range(r, 4, 60), pgno;
	unsigned c1 = ch2 ? 0x1C : 0x14, cb = ch2 ? 0x08 : 0;
	static const unsigned pac_hi[8] = { 0x11, 0x11, 0x12, 0x12, 0x15, 0x15, 0x16, 0x16 };

	vf_phase("vbi_decode(caption)");
	memset(&META, 0, sizeof META);
	switch (mode) {
	case 0: cor_cc_cmd(f2, c1, 0x20); break;                           /* RCL pop-on */
	case 1: cor_cc_cmd(f2, c1, 0x25 + vf_below(r, 3)); break;          /* RU2-4 */
	case 2: cor_cc_cmd(f2, c1, 0x29); break;                           /* RDC paint-on */
	default: cor_cc_cmd(f2, c1, vf_chance(r, 1, 2) ? 0x2A : 0x2B); break; /* TR / RTD text */
	}
	while (n-- > 0) {
		switch (vf_below(r, 12)) {
		case 0: { unsigned k = vf_below(r, 8); cor_cc_cmd(f2, (pac_hi[k] | cb), (vf_chance(r, 1, 2) ? 0x40 : 0x60) + vf_below(r, 32)); break; } /* PAC */
		case 1: cor_cc_cmd(f2, 0x11 | cb, 0x20 + vf_below(r, 16)); break;     /* mid-row */
		case 2: cor_cc_cmd(f2, 0x11 | cb, 0x30 + vf_below(r, 16)); break;     /* special char */
		case 3: cor_cc_cmd(f2, (0x12 + vf_below(r, 2)) | cb, 0x20 + vf_below(r, 32)); break; /* extended */
		case 4: cor_cc_cmd(f2, 0x17 | cb, 0x21 + vf_below(r, 3)); break;      /* tab */
		case 5: if (mode == 1 || mode == 3) cor_cc_cmd(f2, c1, 0x2D); else cor_cc_cmd(f2, c1, 0x21); break; /* CR / BS */
		case 6: if (mode == 0 && vf_chance(r, 1, 2)) cor_cc_cmd(f2, c1, 0x2F); else cor_cc_cmd(f2, 0x10 | cb, 0x20 + vf_below(r, 16)); break; /* EOC / bg attr */
		case 7: if (vf_chance(r, 1, 6)) cor_cc_cmd(f2, c1, vf_chance(r, 1, 2) ? 0x2C : 0x24); else cor_cc(f2, 0, 0); break; /* EDM / DER / null */
		default: cor_cc(f2, (unsigned)vf_range(r, 0x20, 0x7f), vf_chance(r, 1, 8) ? 0 : (unsigned)vf_range(r, 0x20, 0x7f)); break;
		}
	}
	if (mode == 0 && vf_chance(r, 4, 5)) cor_cc_cmd(f2, c1, 0x2F);
	pgno = 1 + (ch2 ? 1 : 0) + (f2 ? 2 : 0) + (mode == 3 ? 4 : 0);
	if (vf_chance(r, 1, 12)) pgno = vf_range(r, 1, 8);
	memset(&PG, 0, sizeof PG);
	vf_phase("vbi_fetch_cc_page");
	if (!vbi_fetch_cc_page(cor_dec, &PG, pgno, TRUE)) {
		snprintf(PG_desc, sizeof PG_desc, "cc page %d fetch failed", pgno);
		return 0;
	}
	PG_is_cc = 1;
	snprintf(PG_desc, sizeof PG_desc, "cc pgno=%d mode=%d field2=%d ch2=%d", pgno, mode, f2, ch2);
	return 1;
}

static void cor_features(void)
{
	int i, n = PG.rows * PG.columns;
	memset(&FEAT, 0, sizeof FEAT);
	for (i = 0; i < n; i++) {
		const vbi_char *c = &PG.text[i];
		if (c->size == VBI_DOUBLE_WIDTH) FEAT.dw++;
		if (c->size == VBI_DOUBLE_HEIGHT) FEAT.dh++;
		if (c->size == VBI_DOUBLE_SIZE) FEAT.ds++;
		if (c->conceal) FEAT.conceal++;
		if (c->flash) FEAT.flash++;
		if (c->unicode >= 0xEE00 && c->unicode <= 0xEFFF) FEAT.gfx++;
		if (c->unicode >= 0xF000) FEAT.drcs++;
		if (c->opacity == VBI_TRANSPARENT_SPACE || c->opacity == VBI_TRANSPARENT_FULL) FEAT.transp++;
		if (c->opacity == VBI_SEMI_TRANSPARENT) FEAT.semi++;
		if (c->link) FEAT.link++;
		if (c->unicode >= 0x80 && c->unicode < 0xE600) FEAT.nonascii++;
		if (c->bold || c->italic) FEAT.bold_italic++;
		if (c->underline) FEAT.underline++;
		if (c->opacity != VBI_TRANSPARENT_SPACE && i % PG.columns < 40) { if (i >= PG.columns) FEAT.body_visible++; else FEAT.row0_visible++; }
	}
	PG_boxed = !PG_is_cc && (META.ctrl & 6) && FEAT.body_visible > 0;
}

#endif
