/*
 *  C18/C19 proxy rig: a well-behaved proxy client process.
 *
 *  Uses only the public client API (vbi_proxy_client_create,
 *  vbi_capture_proxy_new, vbi_capture_pull_sliced / vbi_capture_pull,
 *  vbi_capture_update_services, vbi_proxy_client_channel_request/_notify,
 *  vbi_capture_delete, vbi_proxy_client_destroy).  It is driven by the rig
 *  controller (rig/proxy_rig.py) through one-line commands on stdin and
 *  reports every API call / return and every frame as one JSON object per
 *  line on stdout (which the controller also tees into the client's log file).
 *
 *  The client never reads unless it was told to ("read K", "readuntil TS",
 *  "free"), so "keeps up" and "stalls" are decided by the controller's virtual
 *  clock and never by wall-clock speed.  The library's own RPC timeouts are
 *  disabled with VBI_PROXY_CLIENT_NO_TIMEOUTS for the same reason.
 *
 *  Second mode: "--reference N [raw]" prints the first N frames of a freshly
 *  opened simulated capture device (the "direct capture" the daemon's frames
 *  are compared against) in the same line format.
 *
 *  commands:
 *    connect <services-hex> <strict> <buffers> <scanning> <flags>
 *    read <k> | readuntil <ts> | free | stop | drain
 *    svc <reset> <commit> <services-hex> <strict>
 *    chn <prio> <is_valid> <sub_prio> <min_duration> <allow_suspend>
 *    notify <flags-hex> <scanning>
 *    close | quit
 */

#include <stdio.h>
#include <stdlib.h>
#include <string.h>
#include <stdarg.h>
#include <errno.h>
#include <unistd.h>
#include <time.h>
#include <sys/time.h>
#include <sys/select.h>

#include "libzvbi.h"

static const char *dev_name;
static const char *client_name;

static vbi_proxy_client *vpc;
static vbi_capture *cap;
static unsigned int granted;	/* as reported by the API */
static long want;		/* frames still to read; -1 = unlimited */
static int until_active;
static double until_ts;
static long n_frames;
static double last_ts = -1.0;

static double
now (void)
{
	struct timespec ts;

	clock_gettime (CLOCK_MONOTONIC, &ts);
	return ts.tv_sec + ts.tv_nsec * 1e-9;
}

static void
out (const char *fmt, ...)
{
	char buf[8192];
	va_list ap;
	int n, m;

	n = snprintf (buf, sizeof (buf), "{\"t\":%.6f,", now ());
	va_start (ap, fmt);
	m = vsnprintf (buf + n, sizeof (buf) - n - 2, fmt, ap);
	va_end (ap);
	if (m > (int) sizeof (buf) - n - 3)
		m = sizeof (buf) - n - 3;
	n += m;
	buf[n++] = '}';
	buf[n++] = '\n';
	/* one write per line, no stdio buffering */
	for (m = 0; m < n; ) {
		ssize_t r = write (1, buf + m, n - m);
		if (r < 0) {
			if (errno == EINTR)
				continue;
			_exit (4);
		}
		m += r;
	}
}

static void
json_escape (char *dst, size_t size, const char *src)
{
	size_t o = 0;

	if (src == NULL)
		src = "";
	for (; *src && o + 8 < size; ++src) {
		unsigned char c = *src;
		if (c == '"' || c == '\\') {
			dst[o++] = '\\';
			dst[o++] = c;
		} else if (c < 0x20 || c >= 0x7f) {
			o += snprintf (dst + o, size - o, "\\u%04x", c);
		} else {
			dst[o++] = c;
		}
	}
	dst[o] = 0;
}

static unsigned int
fnv (const uint8_t *p, size_t n)
{
	unsigned int h = 2166136261u;

	while (n-- > 0)
		h = (h ^ *p++) * 16777619u;
	return h;
}

static void
format_lines (char *buf, size_t size, const vbi_sliced *s, int n)
{
	size_t o = 0;
	int i;

	buf[0] = 0;
	for (i = 0; i < n && o + 40 < size; ++i)
		o += snprintf (buf + o, size - o, "%s%x@%u:%08x",
			       i ? "," : "", s[i].id, s[i].line,
			       fnv (s[i].data, sizeof (s[i].data)));
}

static void
event_cb (void *data, VBI_PROXY_EV_TYPE ev_mask)
{
	data = data;
	out ("\"ev\":\"callback\",\"mask\":%d,\"granted\":%d,\"reclaimed\":%d,"
	     "\"changed\":%d,\"norm\":%d,\"has_token\":%d",
	     (int) ev_mask,
	     !!(ev_mask & VBI_PROXY_EV_CHN_GRANTED),
	     !!(ev_mask & VBI_PROXY_EV_CHN_RECLAIMED),
	     !!(ev_mask & VBI_PROXY_EV_CHN_CHANGED),
	     !!(ev_mask & VBI_PROXY_EV_NORM_CHANGED),
	     vpc ? (int) vbi_proxy_client_has_channel_control (vpc) : -1);
}

static void
do_connect (unsigned int services, int strict, int buffers, int scanning,
	    int flags)
{
	char *err = NULL;
	char esc[512];
	unsigned int sv = services;
	vbi_raw_decoder *par;

	if (vpc != NULL || cap != NULL) {
		out ("\"ev\":\"connect\",\"ok\":false,\"err\":\"already connected\"");
		return;
	}

	out ("\"ev\":\"call\",\"fn\":\"vbi_capture_proxy_new\",\"services\":\"0x%x\","
	     "\"strict\":%d,\"buffers\":%d,\"scanning\":%d,\"flags\":%d",
	     services, strict, buffers, scanning, flags);

	vpc = vbi_proxy_client_create (dev_name, client_name,
				       (VBI_PROXY_CLIENT_FLAGS)
				       (flags | VBI_PROXY_CLIENT_NO_TIMEOUTS),
				       &err, 0);
	if (vpc == NULL) {
		json_escape (esc, sizeof (esc), err);
		out ("\"ev\":\"connect\",\"ok\":false,\"err\":\"create: %s\"", esc);
		free (err);
		return;
	}

	vbi_proxy_client_set_callback (vpc, event_cb, NULL);

	cap = vbi_capture_proxy_new (vpc, buffers, scanning,
				     services ? &sv : NULL, strict, &err);
	if (cap == NULL) {
		json_escape (esc, sizeof (esc), err);
		out ("\"ev\":\"connect\",\"ok\":false,\"err\":\"%s\"", esc);
		free (err);
		vbi_proxy_client_destroy (vpc);
		vpc = NULL;
		return;
	}

	granted = services ? sv : 0;
	par = vbi_capture_parameters (cap);

	out ("\"ev\":\"connect\",\"ok\":true,\"granted\":\"0x%x\",\"scanning\":%d,"
	     "\"start\":[%d,%d],\"count\":[%d,%d],\"bpl\":%d,\"fd\":%d,\"api\":%d",
	     granted, par->scanning, par->start[0], par->start[1],
	     par->count[0], par->count[1], par->bytes_per_line,
	     vbi_capture_fd (cap), (int) vbi_proxy_client_get_driver_api (vpc));
}

static void
lost_connection (const char *where)
{
	out ("\"ev\":\"error\",\"where\":\"%s\",\"errno\":%d", where, errno);
	want = 0;
	until_active = 0;
}

/* one call of the pull function: returns 1 frame, 0 other message, -1 error */
static int
pull_once (void)
{
	vbi_capture_buffer *sb = NULL;
	vbi_capture_buffer *rb = NULL;
	struct timeval tv;
	char lines[4096];
	int r;
	int use_raw = !!(granted & (VBI_SLICED_VBI_625 | VBI_SLICED_VBI_525));

	tv.tv_sec = 0;
	tv.tv_usec = 0;

	if (use_raw)
		r = vbi_capture_pull (cap, &rb, &sb, &tv);
	else
		r = vbi_capture_pull_sliced (cap, &sb, &tv);

	if (r > 0) {
		int n = sb ? sb->size / (int) sizeof (vbi_sliced) : 0;

		format_lines (lines, sizeof (lines),
			      sb ? (vbi_sliced *) sb->data : NULL, n);
		++n_frames;
		if (sb != NULL)
			last_ts = sb->timestamp;
		if (use_raw && rb != NULL) {
			vbi_raw_decoder *par = vbi_capture_parameters (cap);
			long img = (long) (par->count[0] + par->count[1])
				* par->bytes_per_line;
			if (img > rb->size)
				img = rb->size;
			out ("\"ev\":\"frame\",\"ts\":\"%.17g\",\"n\":%d,\"L\":\"%s\","
			     "\"rawsize\":%d,\"rawts\":\"%.17g\",\"raw\":\"%08x\"",
			     sb ? sb->timestamp : -1.0, n, lines, rb->size,
			     rb->timestamp, fnv (rb->data, img > 0 ? img : 0));
		} else {
			out ("\"ev\":\"frame\",\"ts\":\"%.17g\",\"n\":%d,\"L\":\"%s\"",
			     sb->timestamp, n, lines);
		}
		if (want > 0)
			--want;
		if (until_active && sb && sb->timestamp >= until_ts) {
			until_active = 0;
			want = 0;
			out ("\"ev\":\"caught_up\",\"ts\":\"%.17g\"", sb->timestamp);
		}
	} else if (r == 0) {
		out ("\"ev\":\"async\"");
	} else {
		lost_connection ("pull");
	}
	return r;
}

static int
sock_readable_now (void)
{
	fd_set rd;
	struct timeval tv;
	int fd = cap ? vbi_capture_fd (cap) : -1;

	if (fd < 0)
		return 0;
	FD_ZERO (&rd);
	FD_SET (fd, &rd);
	tv.tv_sec = 0;
	tv.tv_usec = 0;
	return select (fd + 1, &rd, NULL, NULL, &tv) > 0;
}

static void
do_svc (int reset, int commit, unsigned int services, int strict)
{
	char *err = NULL;
	char esc[512];
	unsigned int r;

	if (cap == NULL) {
		out ("\"ev\":\"svc\",\"ok\":false,\"err\":\"not connected\"");
		return;
	}
	out ("\"ev\":\"call\",\"fn\":\"vbi_capture_update_services\",\"reset\":%d,"
	     "\"commit\":%d,\"services\":\"0x%x\",\"strict\":%d",
	     reset, commit, services, strict);
	r = vbi_capture_update_services (cap, reset, commit, services, strict, &err);
	if (reset)
		granted = r;
	else
		granted = (granted & ~services) | r;
	json_escape (esc, sizeof (esc), err);
	out ("\"ev\":\"svc\",\"ok\":true,\"ret\":\"0x%x\",\"granted\":\"0x%x\","
	     "\"err\":\"%s\",\"fd\":%d", r, granted, esc, vbi_capture_fd (cap));
	free (err);
	if (vbi_capture_fd (cap) < 0)
		lost_connection ("update_services");
}

static void
do_close (void)
{
	if (cap != NULL) {
		out ("\"ev\":\"call\",\"fn\":\"vbi_capture_delete\"");
		vbi_capture_delete (cap);
		cap = NULL;
	}
	if (vpc != NULL) {
		vbi_proxy_client_destroy (vpc);
		vpc = NULL;
	}
	want = 0;
	until_active = 0;
	granted = 0;
	out ("\"ev\":\"closed\"");
}

static void
command (char *line)
{
	char cmd[32];
	unsigned int a = 0;
	int b = 0, c = 0, d = 0, e = 0, f = 0;
	double ts;
	long k;

	cmd[0] = 0;
	sscanf (line, "%31s", cmd);

	if (0 == strcmp (cmd, "connect")) {
		if (sscanf (line, "%*s %x %d %d %d %d", &a, &b, &c, &d, &e) != 5) {
			out ("\"ev\":\"badcmd\"");
			return;
		}
		do_connect (a, b, c, d, e);
	} else if (0 == strcmp (cmd, "read")) {
		k = 1;
		sscanf (line, "%*s %ld", &k);
		if (want >= 0)
			want += k;
		out ("\"ev\":\"ack\",\"cmd\":\"read\",\"want\":%ld", want);
	} else if (0 == strcmp (cmd, "readuntil")) {
		ts = 0;
		sscanf (line, "%*s %lf", &ts);
		out ("\"ev\":\"ack\",\"cmd\":\"readuntil\"");
		if (last_ts >= ts) {
			out ("\"ev\":\"caught_up\",\"ts\":\"%.17g\"", last_ts);
		} else {
			until_ts = ts;
			until_active = 1;
			want = -1;
		}
	} else if (0 == strcmp (cmd, "free")) {
		want = -1;
		until_active = 0;
		out ("\"ev\":\"ack\",\"cmd\":\"free\"");
	} else if (0 == strcmp (cmd, "stop")) {
		want = 0;
		until_active = 0;
		out ("\"ev\":\"stopped\",\"frames\":%ld", n_frames);
	} else if (0 == strcmp (cmd, "drain")) {
		long n = 0;
		while (cap != NULL && sock_readable_now ()) {
			if (pull_once () < 0)
				break;
			++n;
		}
		out ("\"ev\":\"drained\",\"msgs\":%ld,\"frames\":%ld", n, n_frames);
	} else if (0 == strcmp (cmd, "svc")) {
		if (sscanf (line, "%*s %d %d %x %d", &b, &c, &a, &d) != 4) {
			out ("\"ev\":\"badcmd\"");
			return;
		}
		do_svc (b, c, a, d);
	} else if (0 == strcmp (cmd, "chn")) {
		vbi_channel_profile prof;
		int r;

		if (sscanf (line, "%*s %d %d %d %d %d", &b, &c, &d, &e, &f) != 5
		    || vpc == NULL) {
			out ("\"ev\":\"badcmd\"");
			return;
		}
		memset (&prof, 0, sizeof (prof));
		prof.is_valid = c;
		prof.sub_prio = d;
		prof.min_duration = e;
		prof.exp_duration = e;
		prof.allow_suspend = f;
		out ("\"ev\":\"call\",\"fn\":\"vbi_proxy_client_channel_request\","
		     "\"prio\":%d,\"valid\":%d,\"sub_prio\":%d,\"min_duration\":%d",
		     b, c, d, e);
		r = vbi_proxy_client_channel_request (vpc, (VBI_CHN_PRIO) b, &prof);
		out ("\"ev\":\"chn\",\"ret\":%d,\"has_token\":%d", r,
		     (int) vbi_proxy_client_has_channel_control (vpc));
		if (r < 0)
			lost_connection ("channel_request");
	} else if (0 == strcmp (cmd, "notify")) {
		int r;

		if (sscanf (line, "%*s %x %d", &a, &b) != 2 || vpc == NULL) {
			out ("\"ev\":\"badcmd\"");
			return;
		}
		out ("\"ev\":\"call\",\"fn\":\"vbi_proxy_client_channel_notify\","
		     "\"flags\":%u,\"scanning\":%d", a, b);
		r = vbi_proxy_client_channel_notify (vpc, (VBI_PROXY_CHN_FLAGS) a, b);
		out ("\"ev\":\"notify\",\"ret\":%d,\"has_token\":%d", r,
		     (int) vbi_proxy_client_has_channel_control (vpc));
		if (r < 0)
			lost_connection ("channel_notify");
	} else if (0 == strcmp (cmd, "close")) {
		do_close ();
	} else if (0 == strcmp (cmd, "quit")) {
		if (cap != NULL || vpc != NULL)
			do_close ();
		out ("\"ev\":\"quit\",\"frames\":%ld", n_frames);
		exit (0);
	} else if (cmd[0] != 0) {
		out ("\"ev\":\"badcmd\"");
	}
}

static int
reference (int n_ref, int with_raw)
{
	unsigned int services = VBI_SLICED_TELETEXT_B | VBI_SLICED_VPS
		| VBI_SLICED_CAPTION_625 | VBI_SLICED_WSS_625;
	vbi_capture *sim;
	vbi_raw_decoder *par;
	char lines[4096];
	int i;

	sim = vbi_capture_sim_new (625, &services, /* interlaced */ FALSE,
				   /* synchronous */ TRUE);
	if (sim == NULL)
		return 2;
	par = vbi_capture_parameters (sim);
	out ("\"ev\":\"refpar\",\"services\":\"0x%x\",\"start\":[%d,%d],"
	     "\"count\":[%d,%d],\"bpl\":%d", services, par->start[0],
	     par->start[1], par->count[0], par->count[1], par->bytes_per_line);

	for (i = 0; i < n_ref; ++i) {
		vbi_capture_buffer *sb = NULL, *rb = NULL;
		struct timeval tv = { 0, 0 };
		int r, n;

		if (with_raw)
			r = vbi_capture_pull (sim, &rb, &sb, &tv);
		else
			r = vbi_capture_pull_sliced (sim, &sb, &tv);
		if (r <= 0)
			return 2;
		n = sb->size / (int) sizeof (vbi_sliced);
		format_lines (lines, sizeof (lines), (vbi_sliced *) sb->data, n);
		if (with_raw)
			out ("\"ev\":\"ref\",\"idx\":%d,\"n\":%d,\"L\":\"%s\",\"raw\":\"%08x\"",
			     i, n, lines,
			     fnv (rb->data, (size_t) (par->count[0] + par->count[1])
				  * par->bytes_per_line));
		else
			out ("\"ev\":\"ref\",\"idx\":%d,\"n\":%d,\"L\":\"%s\"", i, n, lines);
	}
	vbi_capture_delete (sim);
	return 0;
}

int
main (int argc, char **argv)
{
	static char inbuf[4096];
	size_t inlen = 0;

	if (argc >= 3 && 0 == strcmp (argv[1], "--reference"))
		return reference (atoi (argv[2]),
				  argc >= 4 && 0 == strcmp (argv[3], "raw"));
	if (argc < 3) {
		fprintf (stderr, "usage: %s <device> <name> | --reference N [raw]\n",
			 argv[0]);
		return 2;
	}
	dev_name = argv[1];
	client_name = argv[2];

	out ("\"ev\":\"start\",\"pid\":%d,\"name\":\"%s\"", (int) getpid (), client_name);

	for (;;) {
		fd_set rd;
		int fd = -1, maxfd = 0, r;
		char *nl;

		FD_ZERO (&rd);
		FD_SET (0, &rd);
		if (cap != NULL && (want != 0)) {
			fd = vbi_capture_fd (cap);
			if (fd >= 0) {
				FD_SET (fd, &rd);
				maxfd = fd;
			}
		}
		r = select (maxfd + 1, &rd, NULL, NULL, NULL);
		if (r < 0) {
			if (errno == EINTR)
				continue;
			return 3;
		}
		/* commands first: the controller's order is authoritative */
		if (FD_ISSET (0, &rd)) {
			ssize_t n = read (0, inbuf + inlen, sizeof (inbuf) - 1 - inlen);
			if (n <= 0) {
				/* controller went away */
				return 0;
			}
			inlen += n;
			inbuf[inlen] = 0;
			while ((nl = memchr (inbuf, '\n', inlen)) != NULL) {
				size_t l = nl - inbuf + 1;
				char linebuf[1024];
				size_t c = l - 1 < sizeof (linebuf) - 1 ? l - 1 : sizeof (linebuf) - 1;
				memcpy (linebuf, inbuf, c);
				linebuf[c] = 0;
				memmove (inbuf, inbuf + l, inlen - l);
				inlen -= l;
				command (linebuf);
			}
			if (inlen >= sizeof (inbuf) - 1)
				inlen = 0;
			continue;
		}
		if (fd >= 0 && FD_ISSET (fd, &rd) && cap != NULL && want != 0)
			pull_once ();
	}
}
