/* C13 - station, programme, time and aspect announcements are faithful and debounced.
 *
 * Reception histories over the carriers VPS (line 16), Teletext packet 8/30
 * format 1 and 2, WSS 625 (line 23) and - separately, as it belongs to 525 line
 * systems - XDS network name / call letters (caption field 2) are built with the
 * independent transmitters of c13_tx.h and fed to the real service decoder with
 * regular time stamps.  One handler logs every NETWORK / NETWORK_ID / PROG_ID /
 * LOCAL_TIME / ASPECT event together with the index of the reception being
 * decoded.  A probe Teletext page makes the state of the cache observable.
 *
 * Monitor: temporal rules over (receptions, events, probe observations), stating
 * only what the property states:
 *  R1 events carry the values transmitted (CNIs, PIL/flags, time, aspect)
 *  R2 an identifier is announced only after it was received before, unchanged
 *     (CNI, XDS name: in one of the two preceding receptions on the carrier; VPS
 *     PID: in some earlier reception; WSS: three identical repeats + odd parity;
 *     XDS call letters: twice in a row)
 *  R3 the same NETWORK / NETWORK_ID announcement, or the same ASPECT, is not made
 *     again while the same values keep arriving (no reception in between was the
 *     first or the second of a run on its carrier)
 *  R4 single deviating receptions: no NETWORK event, probe page stays cached
 *  R5 change to a different known station: exactly one NETWORK event, probe dropped
 * R4 and R5 need to know which station is "the identified" one.  Carrier domains:
 * all carriers name the station (judged), none is in the table (judged: never a
 * NETWORK event), some carriers send a CNI of zero = none (judged, zero is no
 * identifier), the carriers disagree - one CNI is in the table, another is not -
 * (not decided by the statement: only R1-R3 and, against the twin history that
 * differs in nothing but the single deviations, R4).
 *
 * Violations which are one of the three recorded deviations of the library and
 * nothing else are reported under the deviation's key (quirk-parameterised
 * reference model, see "reference model" below); everything else is plain.
 *
 * Modes: "hist" random phase-structured 625-line histories, "xds" the same for
 * XDS, "exh" all histories of length <= p0 over a 4 value alphabet per carrier,
 * "zap" station changes that come with a time stamp discontinuity (dropped or
 * duplicated frames, as a tuner does when it is retuned) or are announced with
 * vbi_channel_switched(): the only mode in which vbi_decode()'s frame drop
 * countdown runs.  There a blank NETWORK / ASPECT event (the documented
 * revocation) may precede the announcement of the new station - and only there:
 *  R5 with a time gap: exactly one NETWORK event names the new station, at most
 *     one blank one before it and none after it, old probe page dropped
 * A gap without a station change is run (R1-R3, sanitizers) but its NETWORK
 * events are not judged: vbi_decode() documents that irregular time stamps may
 * be taken for a channel switch, the statement does not speak about them.
 */
#include "vf.h"
#include <string.h>
#include <stdlib.h>
#include <stdarg.h>
#include <time.h>
#include "vbi.h"
#include "tables.h"
#include "vps.h"
#include "packet-830.h"
#include "c13_tx.h"

enum { CR_VPS, CR_8301, CR_8302, CR_WSS, CR_XNAME, CR_XCALL, NCARRIER };
static const char *const cr_name[NCARRIER] = { "VPS", "8/30-1", "8/30-2", "WSS", "XDS-name", "XDS-call" };

#define MAXRX 600
#define MAXEV 2400
#define EVMASK (VBI_EVENT_NETWORK | VBI_EVENT_NETWORK_ID | VBI_EVENT_PROG_ID | VBI_EVENT_LOCAL_TIME | VBI_EVENT_ASPECT | VBI_EVENT_TTX_PAGE)

struct rx {
	int carrier;
	unsigned cni;                   /* CNI carriers */
	unsigned clean_cni;             /* what the carrier sends when this reception is not a single deviation */
	unsigned pil; int pcs, pty, lci, luf, prf, mi;
	int lto; long mjd; int hh, mm, ss;
	struct tx_wss wss; uint8_t word[2];
	char str[36];                   /* XDS */
	int station;                    /* table id by the reference lookup, 0 unknown */
	int deviant;                    /* generated as a single deviating reception */
	int phase;
	long frame;                     /* the (last) frame that carried it */
	int gap;                        /* a time stamp discontinuity (or vbi_channel_switched()) on this reception's frame or on
	                                 * the frames without identification lines since the reception before */
};

struct evrec {
	int rx, type, blank;
	int pos;                        /* the reception being decoded or, outside receptions, the last one decoded */
	long frame;                     /* number of the vbi_decode() call */
	vbi_network net;
	vbi_program_id pid;
	vbi_local_time lt;
	vbi_aspect_ratio asp;
};

static struct rx rxs[MAXRX];
static int n_rx;
static struct evrec evs_lib[MAXEV];       /* what the library did */
static struct evrec evs_ref[MAXEV];       /* what the reference model does (attribution of known deviations only) */
static struct evrec *evs = evs_lib;       /* the log the rules are looking at */
static int n_ev, ev_overflow;
static int cur_rx;
static vbi_decoder *vbi;
static double now;
static long n_ttx_events;

/* frames and time stamps.  Every vbi_decode() call is one frame; the time stamp advances by the regular frame
 * period unless a discontinuity was ordered for the next frame (mode "zap" only). */
#define MAXGAP 64
static long frame_no;                   /* frames decoded so far = number of the frame being decoded, from 1 */
static int gap_pending; static double gap_delta;
static long gap_frames[MAXGAP]; static int n_gap_frames;        /* frames that started the decoder's frame drop countdown */
static long ts_gap_frames[MAXGAP]; static int n_ts_gap_frames;  /* those of them whose time stamp was irregular */
static int gap_mark;                    /* a gap since the last reception was transmitted */
static int last_tx_rx;

static void note_gap(long frame)
{
	if (n_gap_frames < MAXGAP) gap_frames[n_gap_frames++] = frame;
	gap_mark = 1;
}

static double tick(double regular)
{
	frame_no++;
	if (gap_pending) {
		now += gap_delta; gap_pending = 0; note_gap(frame_no); vf_count("time_gaps", 1);
		if (n_ts_gap_frames < MAXGAP) ts_gap_frames[n_ts_gap_frames++] = frame_no;
	}
	else now += regular;
	return now;
}

/* ---------------- stations (data from network-table.h) ---------------- */

struct station { int id; const char *name; unsigned cni[3]; int ok[3]; };
static struct station *stations;
static int n_stations;
static int n_multi;     /* stations [0, n_multi) have at least two usable carriers */

static unsigned col(const struct vbi_cni_entry *p, int c)
{
	return c == CR_VPS ? p->cni4 : c == CR_8301 ? p->cni1 : p->cni2;
}

/* reference lookup, written from the column meanings documented in tables.h */
static const struct vbi_cni_entry *ref_lookup(int carrier, unsigned v)
{
	const struct vbi_cni_entry *p;
	if (!v || carrier > CR_8302) return NULL;
	for (p = vbi_cni_table; p->name; p++)
		if (col(p, carrier) == v) return p;
	return NULL;
}

static int in_col(int c, unsigned v)
{
	const struct vbi_cni_entry *p;
	int n = 0;
	for (p = vbi_cni_table; p->name; p++) if (col(p, c) == v) n++;
	return n;
}

static void build_stations(void)
{
	const struct vbi_cni_entry *p;
	int n = 0, i, j, pass;
	for (p = vbi_cni_table; p->name; p++) n++;
	stations = calloc((size_t)n, sizeof *stations);
	n_stations = 0;
	for (pass = 0; pass < 2; pass++) {
		for (p = vbi_cni_table; p->name; p++) {
			struct station s;
			int usable = 0, dup = 0;
			memset(&s, 0, sizeof s);
			s.id = p->id; s.name = p->name;
			for (i = 0; i < 3; i++) {
				unsigned v = col(p, i);
				s.cni[i] = v;
				/* usable: unique in its column, not the 0xDC3 special, and for 8/30-2 the
				 * low 12 bits do not alias somebody's VPS code */
				s.ok[i] = v && in_col(i, v) == 1 && (v & 0xFFF) != 0xDC3 && v != 0xDC1 && v != 0xDC2;
				if (i == CR_8302 && s.ok[i] && in_col(CR_VPS, v & 0xFFF) && (p->cni4 != (v & 0xFFF))) s.ok[i] = 0;
				usable += s.ok[i];
			}
			for (j = 0; j < n_stations; j++) if (stations[j].id == s.id) dup = 1;
			for (j = 0; p->id && vbi_cni_table[j].name; j++)
				if (&vbi_cni_table[j] != p && vbi_cni_table[j].id == p->id) dup = 1;
			if (dup || !s.id) continue;
			if ((pass == 0 && usable >= 2) || (pass == 1 && usable == 1))
				stations[n_stations++] = s;
		}
		if (pass == 0) n_multi = n_stations;
	}
}

static unsigned unknown_cni(struct vf_rng *r, int carrier)
{
	for (;;) {
		unsigned v = carrier == CR_VPS ? (unsigned)vf_range(r, 1, 0xFFF) : (unsigned)vf_range(r, 1, 0xFFFF);
		if ((v & 0xFFF) == 0xDC3) continue;
		if (in_col(carrier, v)) continue;
		if (carrier == CR_8302 && in_col(CR_VPS, v & 0xFFF)) continue;
		return v;
	}
}

/* ---------------- reference tables ---------------- */

/* EN 300 294: active lines of each format; 625-line first field numbering, full
 * picture = lines 23..310 (288 lines per field) */
static int wss_parity_ok(const uint8_t w[2]) { return ((w[0] ^ (w[0] >> 1) ^ (w[0] >> 2) ^ (w[0] >> 3)) & 1) == 1; }

static const char *check_aspect(const struct tx_wss *t, const vbi_aspect_ratio *a)
{
	static const int lines[8] = { 576, 504, 504, 430, 430, 0, 576, 576 };
	static const int top[8] = { 0, 0, 1, 0, 1, 0, 0, 0 };
	int n = lines[t->format] / 2, first, last;
	if (t->format == 5) {
		/* "> 16:9", number of lines not signalled: centred, not taller than 16:9 */
		if (a->first_line < 59 || a->last_line > 274 || abs((a->first_line - 23) - (310 - a->last_line)) > 1) return "active lines of a >16:9 box";
	} else {
		first = top[t->format] ? 23 : 23 + (288 - n) / 2;
		last = first + n - 1;
		if (a->last_line - a->first_line != last - first) return "number of active lines";
		if (a->first_line != first && !(((288 - n) & 1) && a->first_line == first + 1)) return "first active line";
	}
	if (t->format == 7) { if (a->ratio == 1.0) return "anamorphic 16:9 reported with ratio 1"; }
	else if (a->ratio != 1.0) return "ratio of a non-anamorphic format";
	if (!!a->film_mode != !!t->film) return "film mode";
	if (t->subt_mode == 0 && a->open_subtitles != VBI_SUBT_NONE) return "open subtitles (none)";
	if (t->subt_mode == 1 && a->open_subtitles != VBI_SUBT_ACTIVE) return "open subtitles (in active image)";
	if (t->subt_mode == 2 && a->open_subtitles != VBI_SUBT_MATTE) return "open subtitles (out of active image)";
	return NULL;
}

/* ---------------- decoder plumbing ---------------- */

static void handler(vbi_event *ev, void *ud)
{
	struct evrec *e;
	(void)ud;
	if (ev->type == VBI_EVENT_TTX_PAGE) { n_ttx_events++; return; }
	if (n_ev >= MAXEV) { ev_overflow = 1; return; }
	e = &evs_lib[n_ev++];
	memset(e, 0, sizeof *e);
	e->rx = cur_rx; e->type = ev->type;
	e->pos = cur_rx >= 0 ? cur_rx : last_tx_rx; e->frame = frame_no;
	switch (ev->type) {
	case VBI_EVENT_NETWORK: case VBI_EVENT_NETWORK_ID: e->net = ev->ev.network; break;
	case VBI_EVENT_PROG_ID: e->pid = *ev->ev.prog_id; break;
	case VBI_EVENT_LOCAL_TIME: e->lt = *ev->ev.local_time; break;
	case VBI_EVENT_ASPECT: e->asp = ev->ev.aspect; break;
	}
	if (vf_verbose) {
		if (ev->type == VBI_EVENT_NETWORK || ev->type == VBI_EVENT_NETWORK_ID)
			vf_log("      event %s nuid=%u vps=%03x 8301=%04x 8302=%04x name='%s' call='%s' cycle=%d\n", ev->type == VBI_EVENT_NETWORK ? "NETWORK" : "NETWORK_ID",
				e->net.nuid, e->net.cni_vps, e->net.cni_8301, e->net.cni_8302, e->net.name, e->net.call, e->net.cycle);
		else vf_log("      event type 0x%x\n", ev->type);
	}
}

/* Handler churn: in one history of three an application registers, re-registers with another mask and
 * unregisters a second handler between receptions.  Its masks are subsets of what the monitor's own handler
 * already requests, so no event type is newly activated and nothing the decoder remembers may change: the
 * announcements must be exactly those of a history without the churn. */
static uint32_t churn_state;
static int churn_on, h2_registered;
static void handler2(vbi_event *ev, void *ud) { (void)ev; (void)ud; }
static uint32_t churn_next(void) { churn_state ^= churn_state << 13; churn_state ^= churn_state >> 17; churn_state ^= churn_state << 5; return churn_state; }
static void churn(void)
{
	static const int masks[] = { VBI_EVENT_ASPECT, VBI_EVENT_NETWORK, VBI_EVENT_NETWORK_ID, VBI_EVENT_PROG_ID, VBI_EVENT_LOCAL_TIME,
		VBI_EVENT_TTX_PAGE, VBI_EVENT_NETWORK | VBI_EVENT_NETWORK_ID, VBI_EVENT_ASPECT | VBI_EVENT_PROG_ID };
	if (!churn_on || (churn_next() & 7)) return;
	if (h2_registered && (churn_next() & 1)) {
		vf_phase("vbi_event_handler_unregister");
		vbi_event_handler_unregister(vbi, handler2, NULL);
		h2_registered = 0;
	} else {
		vf_phase("vbi_event_handler_register");
		vbi_event_handler_register(vbi, masks[churn_next() % (sizeof masks / sizeof masks[0])], handler2, NULL);
		h2_registered = 1;
	}
	vf_count("handler_churn_actions", 1);
}

static void decode1(unsigned id, int line, const uint8_t *data, int n)
{
	vbi_sliced sl;
	churn();
	memset(&sl, 0, sizeof sl);
	sl.id = id; sl.line = (uint32_t)line;
	memcpy(sl.data, data, (size_t)n);
	tick(0.04);
	vf_phase("vbi_decode");
	vbi_decode(vbi, &sl, 1, now);
}

static void idle_frames(int n)
{
	while (n-- > 0) { tick(0.04); vf_phase("vbi_decode"); vbi_decode(vbi, NULL, 0, now); }
}

/* probe page: parallel magazine 3..7, so the rolling header comparison stays out of it */
static int probe_counter;
static int tx_probe(void)
{
	uint8_t p[42];
	int k = probe_counter++, pgno;
	int save = cur_rx;
	pgno = 0x300 + 0x100 * (k % 5) + ((k / 5) % 10) * 0x10 + (k / 50) % 10;
	cur_rx = -1;
	tx_ttx_header(p, pgno, 0, 0, 0, "C13 PROBE                       ");
	decode1(VBI_SLICED_TELETEXT_B, 7, p, 42);
	tx_ttx_row(p, (pgno >> 8) & 7, 1, "PROBE");
	decode1(VBI_SLICED_TELETEXT_B, 8, p, 42);
	tx_ttx_header(p, (pgno & 0x700) | 0xFF, 0x3F7F, 0, 0, "C13 PROBE                       ");
	decode1(VBI_SLICED_TELETEXT_B, 9, p, 42);
	cur_rx = save;
	vf_count("probe_pages", 1);
	return pgno;
}

/* A page of the current station that is still in progress: header and one row, no terminating header yet.  It is in
 * the magazine of the next probe page, whose header will terminate it - if it is still there. */
static int tx_open_page(void)
{
	uint8_t p[42];
	int pgno = 0x300 + 0x100 * (probe_counter % 5) + 0x98;
	int save = cur_rx;
	cur_rx = -1;
	tx_ttx_header(p, pgno, 0, 0, 0, "C13 PROBE                       ");
	decode1(VBI_SLICED_TELETEXT_B, 7, p, 42);
	tx_ttx_row(p, (pgno >> 8) & 7, 1, "PAGE IN PROGRESS AT THE STATION CHANGE");
	decode1(VBI_SLICED_TELETEXT_B, 8, p, 42);
	cur_rx = save;
	vf_count("pages_left_in_progress", 1);
	return pgno;
}

static int cached(int pgno)
{
	vf_phase("vbi_is_cached");
	return vbi_is_cached(vbi, pgno, VBI_ANY_SUBNO);
}

static uint8_t vps_background[13];
static const char *rx_str(int i);

static void transmit(struct vf_rng *r, int i)
{
	struct rx *x = &rxs[i];
	uint8_t p[42];
	cur_rx = last_tx_rx = i;
	if (vf_verbose) vf_log("   rx %s phase %d frame %ld%s\n", rx_str(i), x->phase, frame_no + 1, gap_pending ? " (time gap)" : "");
	switch (x->carrier) {
	case CR_VPS: {
		struct tx_vps t = { x->cni, x->pil, x->pcs, x->pty };
		uint8_t b[13];
		memcpy(b, vps_background, 13);
		tx_vps(b, &t);
		decode1(VBI_SLICED_VPS, 16, b, 13);
		break;
	}
	case CR_8301: {
		/* designation code 0 (multiplexed transmission) or 1 (non-multiplexed): both are format 1 */
		struct tx_8301 t = { x->cni, x->lto, x->mjd, x->hh, x->mm, x->ss, r ? (int)vf_below(r, 2) : 1 };
		tx_8301(p, &t);
		vf_count(t.multiplexed ? "packets_8301_designation_0" : "packets_8301_designation_1", 1);
		decode1(VBI_SLICED_TELETEXT_B, 10, p, 42);
		break;
	}
	case CR_8302: {
		struct tx_8302 t = { x->cni, x->pil, x->lci, x->luf, x->prf, x->mi, x->pcs, x->pty };
		tx_8302(p, &t);
		if (r && vf_chance(r, 1, 2)) { p[2] = tx_ham84(3); vf_count("packets_8302_designation_3", 1); }   /* format 2, non-multiplexed */
		if (r && vf_chance(r, 1, 8)) {          /* one correctable bit error in a Hamming 8/4 byte */
			p[9 + vf_below(r, 13)] ^= (uint8_t)(1u << vf_below(r, 8));
			vf_count("hamming_single_bit_errors", 1);
		}
		decode1(VBI_SLICED_TELETEXT_B, 10, p, 42);
		break;
	}
	case CR_WSS:
		decode1(VBI_SLICED_WSS_625, 23, x->word, 2);
		break;
	case CR_XNAME: case CR_XCALL: {
		uint8_t pr[24][2];
		int n = tx_xds_packet(pr, 2, x->carrier == CR_XNAME ? 1 : 2, x->str, (int)strlen(x->str)), k;
		for (k = 0; k < n; k++) {
			vbi_sliced sl[2];
			memset(sl, 0, sizeof sl);
			sl[0].id = VBI_SLICED_CAPTION_525; sl[0].line = 21; sl[0].data[0] = 0x80; sl[0].data[1] = 0x80;
			sl[1].id = VBI_SLICED_CAPTION_525; sl[1].line = 284; sl[1].data[0] = pr[k][0]; sl[1].data[1] = pr[k][1];
			tick(1 / 29.97);
			vf_phase("vbi_decode");
			vbi_decode(vbi, sl, 2, now);
		}
		break;
	}
	}
	cur_rx = -1;
	if (gap_mark) { x->gap = 1; gap_mark = 0; }
	x->frame = frame_no;
	vf_count("receptions", 1);
}

/* ---------------- the monitor ---------------- */

static char desc[1400];

static const char *rx_str(int i)
{
	static char b[4][80];
	static int k;
	char *s = b[k++ & 3];
	const struct rx *x = &rxs[i];
	if (x->carrier <= CR_8302) snprintf(s, 80, "#%d %s cni=%04x%s", i, cr_name[x->carrier], x->cni, x->deviant ? "(deviant)" : "");
	else if (x->carrier == CR_WSS) snprintf(s, 80, "#%d WSS %02x%02x%s", i, x->word[0], x->word[1], x->deviant ? "(deviant)" : "");
	else snprintf(s, 80, "#%d %s '%s'%s", i, cr_name[x->carrier], x->str, x->deviant ? "(deviant)" : "");
	return s;
}

/* last receptions on the carrier before i, newest first, as text */
static const char *carrier_tail(int i)
{
	static char b[200];
	int j, n = 0, o = 0;
	b[0] = 0;
	for (j = i; j >= 0 && n < 5; j--)
		if (rxs[j].carrier == rxs[i].carrier) {
			o += snprintf(b + o, sizeof b - (size_t)o, "%s%s", n ? " <- " : "", rx_str(j));
			n++;
		}
	return b;
}

static int same_value(const struct rx *a, const struct rx *b)
{
	if (a->carrier != b->carrier) return 0;
	if (a->carrier <= CR_8302) return a->cni == b->cni;
	if (a->carrier == CR_WSS) return a->word[0] == b->word[0] && a->word[1] == b->word[1];
	return 0 == strcmp(a->str, b->str);
}

static int prev_on_carrier(int i)
{
	int j;
	for (j = i - 1; j >= 0; j--) if (rxs[j].carrier == rxs[i].carrier) return j;
	return -1;
}

static int is_blank(const vbi_network *n)
{
	return n->nuid == 0 && n->cni_vps == 0 && n->cni_8301 == 0 && n->cni_8302 == 0 && n->name[0] == 0 && n->call[0] == 0;
}

static int same_pid(const struct rx *a, const struct rx *b)
{
	return a->cni == b->cni && a->pil == b->pil && a->pcs == b->pcs && a->pty == b->pty;
}

static int sig_pattern(int i)
{
	/* the four receptions on the carrier before i: bit set = same value as i */
	int j = i, k, pat = 0;
	for (k = 0; k < 4; k++) {
		j = prev_on_carrier(j);
		if (j < 0) { pat |= 2 << (2 * k); break; }     /* none */
		if (same_value(&rxs[j], &rxs[i])) pat |= 1 << (2 * k);
	}
	return pat;
}

static int between_mask(int i)
{
	int j = prev_on_carrier(i), k, m = 0;
	for (k = (j < 0 ? 0 : j + 1); k < i; k++) m |= 1 << rxs[k].carrier;
	return m;
}

/* Violations go through viol(): reported at once, or collected so that run_hist() can first try to
 * attribute them to one of the named, recorded deviations of the library (see "reference model"). */
struct vrec { char key[160]; int phase; char detail[900]; };
#define MAXVIOL 48
static struct vrec vlist[MAXVIOL];
static int n_vlist, collecting, eval_only, viol_phase;

static void viol(const char *key, const char *fmt, ...) __attribute__((format(printf, 2, 3)));
static void viol(const char *key, const char *fmt, ...)
{
	char buf[900];
	va_list ap;
	va_start(ap, fmt);
	vsnprintf(buf, sizeof buf, fmt, ap);
	va_end(ap);
	if (!collecting) { vf_fail(key, "%s", buf); return; }
	if (n_vlist < MAXVIOL) {
		struct vrec *v = &vlist[n_vlist++];
		snprintf(v->key, sizeof v->key, "%s", key);
		snprintf(v->detail, sizeof v->detail, "%s", buf);
		v->phase = viol_phase;
	}
}
/* evidence (counters, signatures) only for the library's own log */
#define COUNT(name, k) do { if (!eval_only) vf_count(name, k); } while (0)
#define SIG(...) do { if (!eval_only) vf_sig(__VA_ARGS__); } while (0)

/* 0 every carrier names the same station of the table, 1 every carrier has a CNI that is not in the
 * table, 2 some carriers name the station, the others send no CNI (zero: "unknown or not applicable"),
 * 3 the carriers disagree (one names a station of the table, another has a CNI that is not in the table),
 * 4 xds, 5 exhaustive */
enum { D_KNOWN, D_UNKNOWN, D_PARTIAL, D_DISAGREE, D_XDS, D_EXH, D_ZAP, D_ZAPX };
static int domain;
static const char *const dom_name[] = { "known", "unknown", "known+zero", "disagree", "xds", "exh", "zap", "zap-xds" };

/* Violations seen while one carrier sends a zero CNI next to carriers naming a station, or while the
 * carriers disagree, get their own keys (different code paths, different root causes). */
static const char *dkey(const char *key)
{
	static char b[4][160];
	static int k;
	char *s = b[k++ & 3];
	snprintf(s, 160, "%s%s", key, domain == D_PARTIAL ? ":zero-cni-carrier" : domain == D_DISAGREE ? ":carriers-disagree" : "");
	return s;
}

/* a reception that tells the decoder something new: the first or second of a run of identical values
 * on its carrier (the second is the one that confirms the value) */
static int prev_on_carrier(int i);
static int same_value(const struct rx *a, const struct rx *b);
static int input_change(int i)
{
	int p = prev_on_carrier(i), pp;
	if (p < 0 || !same_value(&rxs[p], &rxs[i])) return 1;
	pp = prev_on_carrier(p);
	return pp < 0 || !same_value(&rxs[pp], &rxs[p]);
}

/* The blank ASPECT event of vbi_chsw_reset() ("unknown aspect ratio", revoking what was announced).  The
 * transmitters never send subtitle mode 3, so no transmitted WSS word stands for it. */
static int is_blank_aspect(const vbi_aspect_ratio *a)
{
	return a->open_subtitles == VBI_SUBT_UNKNOWN && a->ratio == 1.0 && !a->film_mode;
}

/* Has the frame drop countdown of vbi_decode() been started (time stamp discontinuity, vbi_channel_switched())
 * since the frame of the last NETWORK event naming a station, up to the given frame?  Only then a blank NETWORK /
 * ASPECT event may be raised on a frame of its own accord (documented: "you may also receive blank events
 * revoking a previously sent event"). */
static int countdown_open(long ident_frame, long frame)
{
	int k;
	for (k = 0; k < n_gap_frames; k++) if (gap_frames[k] > ident_frame && gap_frames[k] <= frame) return 1;
	return 0;
}

/* A recorded deviation of the library, seen only where time stamps are irregular (mode "zap"): a station
 * identified while *no* station is identified (after vbi_channel_switched() or a revocation) does not go
 * through vbi_chsw_reset(), so a frame drop countdown started in between keeps running, and when it expires
 * the station just announced is revoked, its pages are dropped and it is announced once more.
 * Q-identification-keeps-frame-drop-countdown: the blank NETWORK event evs[ex] is exactly that - the NETWORK
 * event before it names a station (N1), the one before N1 is blank (B0), a time stamp discontinuity g0 lies
 * between B0 and N1 (first one after B0), and evs[ex] comes with the 40th regular frame after g0. */
static int q_stale_countdown_blank(int ex)
{
	int e, n1 = -1, b0 = -1, k, j;
	long g0 = 0, f, regular = 0;
	if (evs[ex].type != VBI_EVENT_NETWORK || !is_blank(&evs[ex].net)) return 0;
	for (e = ex - 1; e >= 0; e--) if (evs[e].type == VBI_EVENT_NETWORK) { if (n1 < 0) n1 = e; else { b0 = e; break; } }
	if (n1 < 0 || b0 < 0 || is_blank(&evs[n1].net) || !is_blank(&evs[b0].net)) return 0;
	for (k = 0; k < n_ts_gap_frames; k++) if (ts_gap_frames[k] > evs[b0].frame && ts_gap_frames[k] <= evs[n1].frame && (!g0 || ts_gap_frames[k] < g0)) g0 = ts_gap_frames[k];
	if (!g0) return 0;
	for (f = g0 + 1; f <= evs[ex].frame; f++) {
		for (j = 0, k = 0; k < n_ts_gap_frames; k++) if (ts_gap_frames[k] == f) j = 1;
		if (!j) regular++;
	}
	return regular == 40;
}

/* the same station announced at frame f1 and again at frame f2 with nothing but such a blank event in between */
static int q_stale_countdown_between(long f1, long f2)
{
	int e, ex = -1, n = 0, named1 = 0;
	for (e = 0; e < n_ev; e++) {
		if (evs[e].type != VBI_EVENT_NETWORK) continue;
		if (evs[e].frame == f1 && !is_blank(&evs[e].net)) named1 = 1;
		if (evs[e].frame > f1 && evs[e].frame < f2) { n++; ex = e; }
	}
	return named1 && n == 1 && q_stale_countdown_blank(ex);
}
#define Q_COUNTDOWN_KEY "model:C13:Q-identification-keeps-frame-drop-countdown"

static int blank_network_at_frame(long frame)
{
	int e;
	for (e = 0; e < n_ev; e++) if (evs[e].type == VBI_EVENT_NETWORK && evs[e].frame == frame && is_blank(&evs[e].net)) return 1;
	return 0;
}

/* some announcement made at frame f1 and again at frame f2 with such a blank event in between */
static int q_stale_countdown_within(long f1, long f2)
{
	int e;
	for (e = 0; e < n_ev; e++) if (evs[e].type == VBI_EVENT_NETWORK && evs[e].frame > f1 && evs[e].frame < f2 && q_stale_countdown_blank(e)) return 1;
	return 0;
}

/* Can the frame drop countdown have ended after frame a, up to frame b?  It is started by a discontinuity and runs
 * for "about 1.5 s" (40 regular frames in the library; 64 frames allowed here). */
static int countdown_may_have_ended(long a, long b)
{
	int k;
	for (k = 0; k < n_gap_frames; k++) if (gap_frames[k] <= b && a - gap_frames[k] <= 64) return 1;
	return 0;
}

static int same_announcement(const vbi_network *a, const vbi_network *b)
{
	return a->nuid == b->nuid && a->cni_vps == b->cni_vps && a->cni_8301 == b->cni_8301 && a->cni_8302 == b->cni_8302
		&& !strcmp((const char *)a->name, (const char *)b->name) && !strcmp((const char *)a->call, (const char *)b->call);
}

static void rules_R1_R2_R3(void)
{
	int e, c, i;
	unsigned last_tx[3] = { 0, 0, 0 };
	unsigned conf_tx[3] = { 0, 0, 0 };      /* last value received twice in a row */
	unsigned last_nz[3] = { 0, 0, 0 }, conf_nz[3] = { 0, 0, 0 };    /* the same, zero (= no CNI) receptions ignored */
	int zeroed[3] = { 1, 1, 1 };
	char last_call[36] = "", conf_call[36] = "";
	int call_zeroed = 1;
	int upto = -1;                  /* receptions folded into last_tx */
	int last_asp_ev = -1, revoked_since_asp = 1;
	int first_nuid[2048]; /* by station id */
	long ident_frame = 0;           /* frame of the last NETWORK event naming a station */
	long last_frame[3] = { 0, 0, 0 };       /* frame of the last reception on the carrier */
	memset(first_nuid, 0, sizeof first_nuid);

	for (e = 0; e < n_ev; e++) {
		struct evrec *v = &evs[e];
		const struct rx *x;
		/* fold receptions up to and including the one that raised this event */
		for (i = upto + 1; i <= (v->rx >= 0 ? v->rx : v->pos) && i < n_rx; i++) {
			int p = prev_on_carrier(i), rep = p >= 0 && same_value(&rxs[p], &rxs[i]);
			if (rxs[i].carrier <= CR_8302) { last_tx[rxs[i].carrier] = rxs[i].cni; zeroed[rxs[i].carrier] = 0; last_frame[rxs[i].carrier] = rxs[i].frame; if (rep) conf_tx[rxs[i].carrier] = rxs[i].cni;
				if (rxs[i].cni) { last_nz[rxs[i].carrier] = rxs[i].cni; if (rep) conf_nz[rxs[i].carrier] = rxs[i].cni; } }
			if (rxs[i].carrier == CR_XCALL) { strcpy(last_call, rxs[i].str); if (rep) { strcpy(conf_call, rxs[i].str); call_zeroed = 0; } }
		}
		if ((v->rx >= 0 ? v->rx : v->pos) > upto) upto = v->rx >= 0 ? v->rx : v->pos;
		viol_phase = -1;
		if (v->rx < 0 && n_gap_frames
		    && ((v->type == VBI_EVENT_NETWORK && is_blank(&v->net)) || (v->type == VBI_EVENT_ASPECT && is_blank_aspect(&v->asp) && (countdown_open(ident_frame, v->frame) || blank_network_at_frame(v->frame))))) {
			/* the revocation at the end of the frame drop countdown, on a frame without identification lines;
			 * a blank ASPECT event next to a blank NETWORK event is judged with that one */
			if (v->type == VBI_EVENT_NETWORK) {
				if (!countdown_open(ident_frame, v->frame)) {
					if (q_stale_countdown_blank(e))
						viol(Q_COUNTDOWN_KEY, "model:C13:event-outside-reception: blank NETWORK event at frame %ld, on a frame without identification lines, after the station had been announced at frame %ld and with regular time stamps since; it comes 40 regular frames after a time stamp discontinuity that preceded the announcement, when no station was identified", v->frame, ident_frame);
					else
						viol("model:C13:event-outside-reception", "blank NETWORK event at frame %ld, on a frame without identification lines, although no time stamp discontinuity occurred since a station was announced at frame %ld", v->frame, ident_frame);
				}
				COUNT("ev_network_blank", 1); if (countdown_open(ident_frame, v->frame)) COUNT("ev_network_blank_after_time_gap", 1);
				v->blank = 1;
				for (c = 0; c < 3; c++) { zeroed[c] = 1; conf_tx[c] = last_nz[c] = conf_nz[c] = 0; }
				call_zeroed = 1; conf_call[0] = 0;
			} else { COUNT("ev_aspect_revoked", 1); revoked_since_asp = 1; }
			continue;
		}
		if (v->rx < 0 || v->rx >= n_rx) {
			viol("model:C13:event-outside-reception", "event type 0x%x raised while no identification line was being decoded (probe page or idle frame)", v->type);
			continue;
		}
		x = &rxs[v->rx];
		viol_phase = x->phase;
		switch (v->type) {
		case VBI_EVENT_NETWORK:
		case VBI_EVENT_NETWORK_ID: {
			const vbi_network *n = &v->net;
			const char *tn = v->type == VBI_EVENT_NETWORK ? "NETWORK" : "NETWORK_ID";
			int blank = is_blank(n);
			COUNT(v->type == VBI_EVENT_NETWORK ? (blank ? "ev_network_blank" : "ev_network") : (blank ? "ev_network_id_blank" : "ev_network_id"), 1);
			v->blank = blank;
			if (!blank && v->type == VBI_EVENT_NETWORK) ident_frame = v->frame;
			if (blank && v->type == VBI_EVENT_NETWORK && countdown_open(ident_frame, v->frame)) COUNT("ev_network_blank_after_time_gap", 1);
			if (blank) {
				for (c = 0; c < 3; c++) { zeroed[c] = 1; conf_tx[c] = last_nz[c] = conf_nz[c] = 0; }
				call_zeroed = 1; conf_call[0] = 0;
				break;
			}
			if (x->carrier == CR_WSS || x->carrier == CR_XCALL) {
				viol("model:C13:R1:network-event-from-unrelated-carrier", "%s event raised while decoding %s", tn, rx_str(v->rx));
				break;
			}
			if (x->carrier <= CR_8302) {
				int got[3] = { n->cni_vps, n->cni_8301, n->cni_8302 };
				const struct vbi_cni_entry *st = ref_lookup(x->carrier, x->cni);
				/* R1: values.  The announcing carrier: the value being decoded.  The other carriers:
				 * what was last received there, or last received twice in a row (the statement wants
				 * identifiers announced only after a repeat), or zero = unknown after a revocation. */
				for (c = 0; c < 3; c++) {
					if ((unsigned)got[c] == last_tx[c]) continue;
					if (c != x->carrier && (unsigned)got[c] == conf_tx[c] && (conf_tx[c] || zeroed[c])) continue;
					if (c != x->carrier && got[c] == 0 && zeroed[c]) continue;
					/* unknown: the carrier has not been received since the frame drop countdown may have ended (it
					 * ends without an event when there is nothing to revoke) */
					if (c != x->carrier && got[c] == 0 && n_gap_frames && countdown_may_have_ended(last_frame[c], v->frame)) continue;
					viol(c == x->carrier ? "model:C13:R1:announced-cni-differs" : "model:C13:R1:other-cni-differs",
						"%s event during %s carries cni[%s]=0x%04x, last transmitted on that carrier 0x%04x; event cni_vps=%04x cni_8301=%04x cni_8302=%04x nuid=%u name='%s'",
						tn, rx_str(v->rx), cr_name[c], got[c], last_tx[c], n->cni_vps, n->cni_8301, n->cni_8302, n->nuid, n->name);
				}
				if (st) {
					if (n->nuid == 0 || strncmp((const char *)n->name, st->name, 60))
						viol("model:C13:R1:station-name", "%s event during %s (table: id %d '%s') carries nuid=%u name='%s'", tn, rx_str(v->rx), st->id, st->name, n->nuid, n->name);
					else if (st->id > 0 && st->id < 2048) {
						if (!first_nuid[st->id]) first_nuid[st->id] = (int)n->nuid;
						else if (first_nuid[st->id] != (int)n->nuid)
							viol("model:C13:R1:nuid-unstable", "station '%s' announced with nuid %u, earlier %d", st->name, n->nuid, first_nuid[st->id]);
					}
				} else if (n->nuid != 0 || n->name[0]) {
					/* the announcing CNI is not in the table: no station, or the station that
					 * the CNI of another carrier stands for */
					int okc = 0;
					for (c = 0; c < 3; c++) {
						/* the CNI that carrier sent last, or sent last twice in a row (a single
						 * deviating word does not undo an identification); zero is no CNI */
						const struct vbi_cni_entry *o = c != x->carrier && last_nz[c] ? ref_lookup(c, last_nz[c]) : NULL;
						const struct vbi_cni_entry *o2 = c != x->carrier && conf_nz[c] ? ref_lookup(c, conf_nz[c]) : NULL;
						if (o && n->nuid != 0 && !strncmp((const char *)n->name, o->name, 60)) okc = 1;
						if (o2 && n->nuid != 0 && !strncmp((const char *)n->name, o2->name, 60)) okc = 1;
					}
					if (!okc)
						viol("model:C13:R1:unknown-station-named", "%s event during %s (CNI not in the table) carries nuid=%u name='%s'; event cni_vps=%04x cni_8301=%04x cni_8302=%04x",
							tn, rx_str(v->rx), n->nuid, n->name, n->cni_vps, n->cni_8301, n->cni_8302);
				}
			} else {        /* XDS name */
				if (strcmp((const char *)n->name, x->str))
					viol("model:C13:R1:xds-name-differs", "%s event during %s carries name '%s'", tn, rx_str(v->rx), n->name);
				/* call letters: those last received twice in a row (none: empty); the ones received
				 * last are the transmitted value too, but announcing them is R2's business */
				if (!strcmp((const char *)n->call, conf_call) && (conf_call[0] || call_zeroed)) ;
				else if (n->call[0] == 0 && call_zeroed) ;
				else if (n->call[0] && !strcmp((const char *)n->call, last_call)) {
					int q;
					for (q = v->rx; q >= 0; q--) if (rxs[q].carrier == CR_XCALL) break;
					viol("model:C13:R2:xds:call-letters-announced-without-repeat", "%s event during %s announces call letters '%s' received once: %s", tn, rx_str(v->rx), n->call, q >= 0 ? carrier_tail(q) : "-");
				} else
					viol("model:C13:R1:xds-call-differs", "%s event during %s carries call letters '%s', last transmitted '%s', last transmitted twice in a row '%s'", tn, rx_str(v->rx), n->call, last_call, conf_call);
				if (n->nuid == 0)
					viol("model:C13:R1:xds-nuid-zero", "%s event during %s carries nuid 0", tn, rx_str(v->rx));
			}
			/* R2: received before, unchanged */
			{
				int p1 = prev_on_carrier(v->rx), p2 = p1 >= 0 ? prev_on_carrier(p1) : -1;
				int ok = (p1 >= 0 && same_value(&rxs[p1], x)) || (p2 >= 0 && same_value(&rxs[p2], x));
				if (!ok)
					viol(dkey(x->cni == 0 && x->carrier <= CR_8302 ? "model:C13:R2:zero-cni-announced-on-first-reception" : "model:C13:R2:announced-without-repeat"),
						"%s event (nuid %u) raised by %s which was not preceded by the same value on that carrier: %s",
						tn, n->nuid, rx_str(v->rx), carrier_tail(v->rx));
			}
			SIG("%s by=%s pattern=%02x between=%02x dom=%s", tn, cr_name[x->carrier], sig_pattern(v->rx), between_mask(v->rx) & 0x3f, dom_name[domain]);
			/* R3: the same announcement is not made again while the same values keep arriving: between
			 * two identical events of one type some reception must have been the first or the second
			 * (confirming) one of a run on its carrier */
			{
				int e2, changed = 0;
				for (e2 = e - 1; e2 >= 0; e2--)
					if (evs[e2].type == v->type && !evs[e2].blank && evs[e2].rx >= 0 && same_announcement(&evs[e2].net, n)) break;
				if (e2 >= 0) {
					for (i = evs[e2].rx + 1; i <= v->rx; i++)
						if ((rxs[i].carrier != CR_WSS && input_change(i)) || rxs[i].gap) changed = 1;
					if (!changed && n_ts_gap_frames && q_stale_countdown_within(evs[e2].frame, v->frame))
						viol(Q_COUNTDOWN_KEY, "%s: %s (nuid %u name='%s') raised at frame %ld and, after a blank NETWORK event, again at frame %ld while the same values kept arriving; the blank event comes 40 regular frames after a time stamp discontinuity that preceded the first announcement, when no station was identified",
							v->type == VBI_EVENT_NETWORK ? "model:C13:R3:network-repeated" : "model:C13:R3:network-id-repeated", tn, n->nuid, n->name, evs[e2].frame, v->frame);
					else if (!changed)
						viol(dkey(v->type == VBI_EVENT_NETWORK ? "model:C13:R3:network-repeated" : "model:C13:R3:network-id-repeated"),
							"%s (nuid %u vps=%03x 8301=%04x 8302=%04x name='%s' call='%s') raised again by %s although every reception since the same announcement (by %s) repeated its carrier's value",
							tn, n->nuid, n->cni_vps, n->cni_8301, n->cni_8302, n->name, n->call, rx_str(v->rx), rx_str(evs[e2].rx));
				}
			}
			break;
		}
		case VBI_EVENT_PROG_ID: {
			const vbi_program_id *p = &v->pid;
			COUNT(p->channel == VBI_PID_CHANNEL_VPS ? "ev_prog_id_vps" : "ev_prog_id_8302", 1);
			if (p->channel == VBI_PID_CHANNEL_VPS) {
				int j, seen = 0;
				if (x->carrier != CR_VPS) { viol("model:C13:R1:prog-id-from-unrelated-carrier", "VPS PROG_ID during %s", rx_str(v->rx)); break; }
				if (p->cni != x->cni || p->pil != x->pil || (int)p->pcs_audio != x->pcs || (int)p->pty != x->pty || p->cni_type != VBI_CNI_TYPE_VPS)
					viol("model:C13:R1:vps-prog-id-differs", "PROG_ID cni=%x pil=%05x pcs=%d pty=%02x, transmitted cni=%x pil=%05x pcs=%d pty=%02x",
						p->cni, p->pil, (int)p->pcs_audio, p->pty, x->cni, x->pil, x->pcs, x->pty);
				for (j = 0; j < v->rx; j++) if (rxs[j].carrier == CR_VPS && same_pid(&rxs[j], x)) seen = 1;
				if (!seen)
					viol("model:C13:R2:vps-pid-announced-on-first-reception", "PROG_ID pil=%05x pcs=%d pty=%02x announced by %s, never received before", x->pil, x->pcs, x->pty, rx_str(v->rx));
				SIG("PROG_ID by=VPS pattern=%02x between=%02x", sig_pattern(v->rx), between_mask(v->rx) & 0x3f);
			} else {
				if (x->carrier != CR_8302) { viol("model:C13:R1:prog-id-from-unrelated-carrier", "8/30-2 PROG_ID during %s", rx_str(v->rx)); break; }
				if ((int)p->channel != VBI_PID_CHANNEL_LCI_0 + x->lci || p->cni != x->cni || p->pil != x->pil || !!p->luf != x->luf || !!p->mi != x->mi
				    || !!p->prf != x->prf || (int)p->pcs_audio != x->pcs || (int)p->pty != x->pty || p->cni_type != VBI_CNI_TYPE_8302)
					viol("model:C13:R1:8302-prog-id-differs", "PROG_ID lci=%d cni=%x pil=%05x luf=%d mi=%d prf=%d pcs=%d pty=%02x, transmitted lci=%d cni=%x pil=%05x luf=%d mi=%d prf=%d pcs=%d pty=%02x",
						(int)p->channel, p->cni, p->pil, p->luf, p->mi, p->prf, (int)p->pcs_audio, p->pty, x->lci, x->cni, x->pil, x->luf, x->mi, x->prf, x->pcs, x->pty);
				SIG("PROG_ID by=8/30-2 lci=%d flags=%d", x->lci, x->luf * 4 + x->mi * 2 + x->prf);
			}
			break;
		}
		case VBI_EVENT_LOCAL_TIME: {
			long long want = ((long long)x->mjd - 40587) * 86400 + x->hh * 3600 + x->mm * 60 + x->ss;
			COUNT("ev_local_time", 1);
			if (x->carrier != CR_8301) { viol("model:C13:R1:local-time-from-unrelated-carrier", "LOCAL_TIME during %s", rx_str(v->rx)); break; }
			if ((long long)v->lt.time != want || v->lt.seconds_east != x->lto * 1800 || !v->lt.seconds_east_valid)
				viol("model:C13:R1:local-time-differs", "LOCAL_TIME time=%lld seconds_east=%d valid=%d; transmitted MJD %ld %02d:%02d:%02d UTC (= %lld), offset %d half hours",
					(long long)v->lt.time, v->lt.seconds_east, v->lt.seconds_east_valid, x->mjd, x->hh, x->mm, x->ss, want, x->lto);
			SIG("LOCAL_TIME lto=%s", x->lto < 0 ? "west" : x->lto > 0 ? "east" : "0");
			break;
		}
		case VBI_EVENT_ASPECT: {
			if (x->carrier != CR_WSS || (is_blank_aspect(&v->asp) && (countdown_open(ident_frame, v->frame) || blank_network_at_frame(v->frame)))) {
				/* revocation after a channel switch ("blank events ... revoking a previously sent event") */
				COUNT("ev_aspect_revoked", 1);
				revoked_since_asp = 1;
				break;
			}
			COUNT("ev_aspect", 1);
			{
				const char *why = check_aspect(&x->wss, &v->asp);
				int j = v->rx, k, reps = 0;
				if (why)
					viol("model:C13:R1:aspect-differs", "ASPECT first=%d last=%d ratio=%g film=%d subt=%d does not match WSS format %d film=%d subtitles=%d: %s",
						v->asp.first_line, v->asp.last_line, v->asp.ratio, v->asp.film_mode, (int)v->asp.open_subtitles, x->wss.format, x->wss.film, x->wss.subt_mode, why);
				for (k = 0; k < 3; k++) { j = prev_on_carrier(j); if (j < 0 || !same_value(&rxs[j], x)) break; reps++; }
				if (reps < 3)
					viol("model:C13:R2:wss-announced-without-repeats", "ASPECT announced by %s after only %d identical repeat(s): %s", rx_str(v->rx), reps, carrier_tail(v->rx));
				if (!wss_parity_ok(x->word))
					viol("model:C13:R2:wss-bad-parity-announced", "ASPECT announced from WSS word %02x%02x whose group 1 parity is even", x->word[0], x->word[1]);
				if (last_asp_ev >= 0 && !revoked_since_asp && 0 == memcmp(&evs[last_asp_ev].asp, &v->asp, sizeof v->asp)) {
					int changed = 0;
					for (i = evs[last_asp_ev].rx + 1; i <= v->rx; i++) {
						int p = prev_on_carrier(i);
						if (rxs[i].carrier == CR_WSS && p >= 0 && !same_value(&rxs[p], &rxs[i])) changed = 1;
					}
					if (!changed)
						viol("model:C13:R3:aspect-repeated", "identical ASPECT raised again by %s while the same WSS word kept arriving since %s", rx_str(v->rx), rx_str(evs[last_asp_ev].rx));
				}
				last_asp_ev = e; revoked_since_asp = 0;
				SIG("ASPECT fmt=%d film=%d subt=%d pattern=%02x", x->wss.format, x->wss.film, x->wss.subt_mode, sig_pattern(v->rx));
			}
			break;
		}
		}
	}
	if (ev_overflow && !eval_only) vf_fail("harness:C13:event-log-overflow", "more than %d events", MAXEV);
}

static int count_network_events(int rx_from, int rx_to, int *first_rx)
{
	int e, n = 0;
	for (e = 0; e < n_ev; e++)
		if (evs[e].type == VBI_EVENT_NETWORK && evs[e].rx >= rx_from && evs[e].rx < rx_to) {
			if (!n && first_rx) *first_rx = evs[e].rx;
			n++;
		}
	return n;
}

static int count_deviants(int a, int b)
{
	int i, n = 0;
	for (i = a; i < b; i++) n += rxs[i].deviant;
	return n;
}

/* ---------------- generators ---------------- */

static void new_decoder(void)
{
	n_rx = n_ev = ev_overflow = 0; cur_rx = last_tx_rx = -1; now = 1000.0; probe_counter = 0; n_ttx_events = 0;
	frame_no = 0; gap_pending = 0; n_gap_frames = n_ts_gap_frames = 0; gap_mark = 0;
	vf_phase("vbi_decoder_new");
	vbi = vbi_decoder_new();
	if (!vbi) { vf_fail("harness:alloc", "vbi_decoder_new failed"); return; }
	vbi_event_handler_register(vbi, EVMASK, handler, NULL);
	churn_state = ((uint32_t)vf_seed * 2654435761u) ^ ((uint32_t)vf_case * 40503u) ^ 0x9E3779B9u;
	if (!churn_state) churn_state = 1;
	churn_next(); churn_next();
	churn_on = strcmp(vf_mode, "exh") != 0 && (churn_next() % 3) == 0;
	h2_registered = 0;
}

static void del_decoder(void)
{
	vf_phase("vbi_decoder_delete");
	vbi_decoder_delete(vbi);
	vbi = NULL;
}

struct prog { unsigned pil; int pcs, pty, lci, luf, prf, mi; };
static void rand_prog(struct vf_rng *r, struct prog *p)
{
	static const unsigned special[] = { 0x07FFF /* timer control */, 0x07FBF /* inhibit/terminate */, 0x07F7F /* interruption */, 0x07F3F /* continue */ };
	if (vf_chance(r, 1, 6)) p->pil = special[vf_below(r, 4)] | ((unsigned)vf_below(r, 32) << 15);
	else p->pil = ((unsigned)vf_range(r, 1, 31) << 15) | ((unsigned)vf_range(r, 1, 12) << 11) | ((unsigned)vf_range(r, 0, 23) << 6) | (unsigned)vf_range(r, 0, 59);
	if (vf_chance(r, 1, 8)) p->pil = vf_u32(r) & 0xFFFFF;
	p->pcs = (int)vf_below(r, 4); p->pty = (int)vf_below(r, 256);
	p->lci = (int)vf_below(r, 4); p->luf = (int)vf_below(r, 2); p->prf = (int)vf_below(r, 2); p->mi = (int)vf_below(r, 2);
}

static void rand_wss(struct vf_rng *r, struct tx_wss *t)
{
	memset(t, 0, sizeof *t);
	t->format = (int)vf_below(r, 8); t->film = (int)vf_below(r, 2); t->colour = (int)vf_below(r, 2); t->helper = (int)vf_below(r, 2);
	t->ttx_subtitles = (int)vf_below(r, 2); t->subt_mode = (int)vf_below(r, 3);
	t->surround = (int)vf_below(r, 2); t->copyright = (int)vf_below(r, 2); t->generation = (int)vf_below(r, 2);
}

struct clock_ { long mjd; int sec; int lto; };

static struct rx *add_rx(int carrier)
{
	struct rx *x;
	if (n_rx >= MAXRX) return NULL;
	x = &rxs[n_rx++];
	memset(x, 0, sizeof *x);
	x->carrier = carrier;
	return x;
}

static void fill_common(struct rx *x, const struct prog *pg, struct clock_ *ck)
{
	x->pil = pg->pil; x->pcs = pg->pcs; x->pty = pg->pty; x->lci = pg->lci; x->luf = pg->luf; x->prf = pg->prf; x->mi = pg->mi;
	x->lto = ck->lto; x->mjd = ck->mjd; x->hh = ck->sec / 3600; x->mm = ck->sec / 60 % 60; x->ss = ck->sec % 60;
	if (x->carrier == CR_8301) { ck->sec++; if (ck->sec >= 86400) { ck->sec = 0; ck->mjd++; } }
}

/* NETWORK events in [rx_from, rx_to) that change or revoke an identification made before: a station
 * was identified (the last NETWORK event carried a nuid) and this one is blank or carries another nuid */
static int count_network_changes(int rx_from, int rx_to, int *first_rx)
{
	int e, n = 0;
	unsigned cur = 0;
	for (e = 0; e < n_ev; e++) {
		if (evs[e].type != VBI_EVENT_NETWORK) continue;
		if (cur != 0 && evs[e].net.nuid != cur && evs[e].rx >= rx_from && evs[e].rx < rx_to) {
			if (!n && first_rx) *first_rx = evs[e].rx;
			n++;
		}
		cur = evs[e].net.nuid;
	}
	return n;
}

/* What the twin of a history (the same history without its single deviating receptions) did in the
 * steady part of each phase. */
struct twin { int quiet[8]; };

/* One phase of a 625 line history: receptions [start, settled) let the station settle, then the probe page is
 * sent, [settled, end) is the steady part with the single deviations. */
struct phase_rec {
	int start, settled, end, changed_station, now_known, probe, probe_before, nact;
	int old_probe_cached_after_settle, probe_cached_at_end;         /* observations */
};
static struct phase_rec ph[8];
static int nphase;

/* R4 / R5 over the phases of the history, looking at the log in evs[] and the observations in ph[] */
static void judge_phases(const struct twin *tw)
{
	int phase;
	for (phase = 0; phase < nphase; phase++) {
		int first = -1;
		int n_after = count_network_events(ph[phase].settled, ph[phase].end, &first);
		int ndev = count_deviants(ph[phase].settled, ph[phase].end);
		int nact = ph[phase].nact;
		viol_phase = phase;
		if (domain == D_DISAGREE) {
			/* The statement does not say which station is "the identified" one while the carriers
			 * disagree, so NETWORK events as such are not judged here.  What it does say is that
			 * single deviations cause neither a network change nor a cleared cache: judged against
			 * the twin history, which differs in nothing but the single deviations. */
			if (!tw || !tw->quiet[phase] || !ndev) {
				COUNT("steady_windows_unjudged", 1);
			} else {
				int n_chg = count_network_changes(ph[phase].settled, ph[phase].end, &first);
				if (n_chg > 0)
					viol(dkey("model:C13:R4:network-event-after-single-deviation"),
						"%d NETWORK event(s) changing or revoking the identification in the steady part of phase %d (receptions %d..%d, %d single deviations, no station change), first raised by %s; carrier history: %s; the same history without the single deviations raises no NETWORK event there and keeps the probe page; %s",
						n_chg, phase, ph[phase].settled, ph[phase].end - 1, ndev, rx_str(first), carrier_tail(first), desc);
				if (!ph[phase].probe_cached_at_end)
					viol(dkey("model:C13:R4:cache-cleared-after-single-deviation"),
						"probe page %x cached after the station had settled is gone at the end of phase %d (receptions %d..%d, %d single deviations, no station change); the same history without the single deviations keeps it; %s",
						ph[phase].probe, phase, ph[phase].settled, ph[phase].end - 1, ndev, desc);
				COUNT("steady_windows_judged_against_twin", 1);
				COUNT("single_deviations", ndev);
				SIG("R4 dom=%s ndev=%d carriers=%d", dom_name[domain], ndev > 3 ? 3 : ndev, nact);
			}
			if (phase > 0 && ph[phase].changed_station) COUNT("station_changes_unjudged", 1);
			continue;
		}
		if (n_after > 0) {
			viol(dkey(ndev ? "model:C13:R4:network-event-after-single-deviation" : "model:C13:network-event-without-change"), "%d NETWORK event(s) in the steady part of phase %d (receptions %d..%d, %d single deviations, no station change), first raised by %s; carrier history: %s; %s",
				n_after, phase, ph[phase].settled, ph[phase].end - 1, ndev, rx_str(first), carrier_tail(first), desc);
		}
		if (!ph[phase].probe_cached_at_end) {
			viol(dkey(ndev ? "model:C13:R4:cache-cleared-after-single-deviation" : "model:C13:cache-cleared-without-change"), "probe page %x cached after the station had settled is gone at the end of phase %d (receptions %d..%d, %d single deviations, no station change); %s",
				ph[phase].probe, phase, ph[phase].settled, ph[phase].end - 1, ndev, desc);
		}
		COUNT("steady_windows", 1);
		COUNT("single_deviations", ndev);
		if (ndev) SIG("R4 dom=%s ndev=%d carriers=%d", dom_name[domain], ndev > 3 ? 3 : ndev, nact);
		if (phase > 0 && ph[phase].changed_station && ph[phase].now_known) {
			int n_change = count_network_events(ph[phase].start, ph[phase].settled, NULL);
			COUNT("station_changes_known_to_known", 1);
			if (n_change != 1)
				viol(dkey("model:C13:R5:network-events-on-change"), "%d NETWORK events while the station changed to another known station (phase %d, receptions %d..%d), exactly one expected; %s",
					n_change, phase, ph[phase].start, ph[phase].settled - 1, desc);
			if (ph[phase].old_probe_cached_after_settle)
				viol(dkey("model:C13:R5:old-pages-kept"), "probe page %x of the previous station is still cached after the change to another known station (phase %d); %s", ph[phase].probe_before, phase, desc);
			SIG("R5 dom=%s carriers=%d", dom_name[domain], nact);
		} else if (phase > 0 && ph[phase].changed_station) {
			COUNT("station_changes_unjudged", 1);
		}
	}
	viol_phase = -1;
}

/* ---------------- reference model of the station identification, with named deviations ----------------
 *
 * Used for one thing only: to tell whether a violation found by the rules is one of the recorded deviations
 * of the library (known-findings.json) and nothing else (DESIGN.md section 2 item 5).  A violation is
 * reported under a deviation's key only if
 *   (a) the library's NETWORK / NETWORK_ID events and the probe observations of this history (and the
 *       outcome of its twin) are exactly those of the model with all recorded deviations switched on,
 *   (b) the rules find the same violation in that model's log, and
 *   (c) they no longer find it when this one deviation is switched off.
 * Everything else keeps its plain key.
 *
 * The strict model is the debounce the statement describes:
 *   - every kind of CNI (VPS, 8/30-1, 8/30-2) has its own repeat counter; a CNI counts when it has been
 *     received twice in a row, once per run; zero is no CNI
 *   - a confirmed CNI which names another station of the table changes the network: one NETWORK event,
 *     cache cleared
 *   - a confirmed CNI which is not in the table revokes the identification only if the network was
 *     identified through this very kind of CNI
 *   - when the network changes or is revoked, the CNIs the other carriers had confirmed belong to the old
 *     network and are forgotten; a CNI received once so far may be the new network's and is kept
 * Recorded deviations of the library:
 *   Q_STALE    the CNIs remembered for the other carriers survive a change of network, so that a carrier
 *              which was silent on station B still "repeats" A's CNI when the viewer zaps back to A
 *   Q_UNKNOWN  a confirmed CNI which is not in the table revokes an identification made through another
 *              kind of CNI (station_lookup() == 0 != nuid -> vbi_chsw_reset(vbi, 0))
 *   Q_SHARED   one repeat counter (vbi_network.cycle) for the three kinds of CNI: whichever carrier repeats
 *              its stored value first after any change does the announcing; a revocation forgets all CNIs
 */
enum { Q_STALE = 1, Q_UNKNOWN = 2, Q_SHARED = 4, Q_ALL = 7 };
static const int quirk_bit[3] = { Q_STALE, Q_UNKNOWN, Q_SHARED };
static const char *const quirk_key[3] = {
	"model:C13:Q-stale-cni-of-silent-carrier",
	"model:C13:Q-unknown-cni-revokes-identification",
	"model:C13:Q-shared-repeat-counter",
};

struct mstate { unsigned stored[3]; int cyc[3], cycle; unsigned nuid; int src; char name[64]; };
static int m_reset[MAXEV], m_nreset;    /* receptions during which the model clears the cache */

static void m_emit(struct evrec *log, int *n, int rx, int type, const struct mstate *m)
{
	struct evrec *e;
	if (*n >= MAXEV) return;
	e = &log[(*n)++];
	memset(e, 0, sizeof *e);
	e->rx = rx; e->type = type;
	e->net.nuid = m->nuid;
	e->net.cni_vps = (int)m->stored[0]; e->net.cni_8301 = (int)m->stored[1]; e->net.cni_8302 = (int)m->stored[2];
	snprintf((char *)e->net.name, sizeof e->net.name, "%s", m->name);
}

/* clean: the twin history (single deviations left out).  Returns the number of events written to log. */
static int model_run(int quirks, int clean, struct evrec *log)
{
	struct mstate m;
	int i, n = 0;
	memset(&m, 0, sizeof m); m.src = -1; m_nreset = 0;
	for (i = 0; i < n_rx; i++) {
		int c = rxs[i].carrier, *cy;
		const struct vbi_cni_entry *e;
		unsigned v, id;
		if (c > CR_8302) continue;
		v = clean ? rxs[i].clean_cni : rxs[i].cni;
		cy = (quirks & Q_SHARED) ? &m.cycle : &m.cyc[c];
		if (v != m.stored[c]) { m.stored[c] = v; *cy = 1; continue; }
		if (*cy != 1 || v == 0) continue;
		e = ref_lookup(c, v);
		id = e ? (unsigned)e->id : 0;
		if (!(quirks & Q_UNKNOWN) && !id && m.nuid && m.src != c) id = m.nuid;      /* says nothing about the network */
		else if (!id) m.name[0] = 0;
		else snprintf(m.name, sizeof m.name, "%.62s", e->name);
		if (id != m.nuid) {
			if (m.nuid) {
				if (m_nreset < MAXEV) m_reset[m_nreset++] = i;
				if (!id) {
					struct mstate keep = m;
					memset(&m, 0, sizeof m); m.src = -1;
					m_emit(log, &n, i, VBI_EVENT_NETWORK, &m);      /* the revocation: a blank event */
					if (!(quirks & Q_SHARED)) { memcpy(m.stored, keep.stored, sizeof m.stored); memcpy(m.cyc, keep.cyc, sizeof m.cyc); }
				}
				if (!(quirks & Q_STALE)) {
					/* what the other carriers had confirmed belongs to the old network; a CNI received
					 * once so far may already be the new network's and stays */
					int k;
					for (k = 0; k < 3; k++) if (k != c && ((quirks & Q_SHARED) || m.cyc[k] == 2)) { m.stored[k] = 0; m.cyc[k] = 0; }
				}
			}
			m.nuid = id; m.src = c;
			m_emit(log, &n, i, VBI_EVENT_NETWORK, &m);
		}
		m_emit(log, &n, i, VBI_EVENT_NETWORK_ID, &m);
		*cy = 2;
	}
	return n;
}

/* the probe observations the model's cache clears amount to */
static void model_observe(struct phase_rec *p)
{
	int k, j;
	for (k = 0; k < nphase; k++) {
		p[k].probe_cached_at_end = 1;
		p[k].old_probe_cached_after_settle = 0;
		for (j = 0; j < m_nreset; j++) if (m_reset[j] >= p[k].settled && m_reset[j] < p[k].end) p[k].probe_cached_at_end = 0;
		if (k > 0 && p[k].changed_station && p[k].probe_before) {
			p[k].old_probe_cached_after_settle = 1;
			for (j = 0; j < m_nreset; j++) if (m_reset[j] >= p[k - 1].settled && m_reset[j] < p[k].settled) p[k].old_probe_cached_after_settle = 0;
		}
	}
}

static int same_network_logs(const struct evrec *a, int na, const struct evrec *b, int nb)
{
	int i = 0, j = 0;
	for (;;) {
		while (i < na && a[i].type != VBI_EVENT_NETWORK && a[i].type != VBI_EVENT_NETWORK_ID) i++;
		while (j < nb && b[j].type != VBI_EVENT_NETWORK && b[j].type != VBI_EVENT_NETWORK_ID) j++;
		if (i >= na || j >= nb) return i >= na && j >= nb;
		if (a[i].rx != b[j].rx || a[i].type != b[j].type || a[i].net.nuid != b[j].net.nuid || a[i].net.cni_vps != b[j].net.cni_vps
		    || a[i].net.cni_8301 != b[j].net.cni_8301 || a[i].net.cni_8302 != b[j].net.cni_8302
		    || strncmp((const char *)a[i].net.name, (const char *)b[j].net.name, 60) || a[i].net.call[0]) return 0;
		i++; j++;
	}
}

/* the rules applied to the model with the given deviations; result in vlist[] */
static void evaluate_model(int quirks, int with_twin)
{
	struct twin tw_m;
	int k;
	memset(&tw_m, 0, sizeof tw_m);
	evs = evs_ref;
	if (with_twin) {
		n_ev = model_run(quirks, 1, evs_ref);
		model_observe(ph);
		for (k = 0; k < nphase; k++) tw_m.quiet[k] = count_network_events(ph[k].settled, ph[k].end, NULL) == 0 && ph[k].probe_cached_at_end;
	}
	n_ev = model_run(quirks, 0, evs_ref);
	model_observe(ph);
	if (vf_verbose) {
		vf_log("   reference model with deviations%s%s%s%s:\n", quirks ? "" : " none", quirks & Q_STALE ? " stale" : "", quirks & Q_UNKNOWN ? " unknown" : "", quirks & Q_SHARED ? " shared" : "");
		for (k = 0; k < n_ev; k++)
			vf_log("      %s: %s nuid=%u vps=%03x 8301=%04x 8302=%04x name='%s'\n", rx_str(evs_ref[k].rx), evs_ref[k].type == VBI_EVENT_NETWORK ? "NETWORK" : "NETWORK_ID",
				evs_ref[k].net.nuid, evs_ref[k].net.cni_vps, evs_ref[k].net.cni_8301, evs_ref[k].net.cni_8302, evs_ref[k].net.name);
		for (k = 0; k < m_nreset; k++) vf_log("      cache cleared during #%d\n", m_reset[k]);
		if (with_twin) for (k = 0; k < nphase; k++) vf_log("      twin quiet in phase %d: %d\n", k, tw_m.quiet[k]);
	}
	eval_only = 1; collecting = 1; n_vlist = 0;
	rules_R1_R2_R3();
	judge_phases(with_twin ? &tw_m : NULL);
	eval_only = 0; collecting = 0;
}

static int has_viol(const struct vrec *l, int n, const struct vrec *v)
{
	int i;
	for (i = 0; i < n; i++) if (l[i].phase == v->phase && !strcmp(l[i].key, v->key)) return 1;
	return 0;
}

/* vlist[] holds the violations found in the library's log: report each under its own key, or under the key
 * of the recorded deviation that explains it */
static void attribute(const struct twin *tw_lib)
{
	/* the sets of deviations taken out of the model, in the order in which they are tried: each one alone,
	 * then (for violations which more than one deviation produces independently) two, then all */
	static const int out_set[7] = { Q_STALE, Q_UNKNOWN, Q_SHARED, Q_STALE | Q_UNKNOWN, Q_STALE | Q_SHARED, Q_UNKNOWN | Q_SHARED, Q_ALL };
	static const int out_key[7] = { 0, 1, 2, 1, 2, 2, 2 };        /* filed under (index into quirk_key) */
	static const char *const out_name[7] = { "stale", "unknown", "shared", "stale+unknown", "stale+shared", "unknown+shared", "stale+unknown+shared" };
	static struct vrec lib_v[MAXVIOL], all_v[MAXVIOL], var_v[7][MAXVIOL];
	struct phase_rec ph_lib[8];
	int n_lib = n_vlist, n_all = 0, n_var[7], n_ev_lib = n_ev, explained, q, i, k, nq = 3, pending;
	int filed[3] = { 0, 0, 0 }, pass;

	memcpy(lib_v, vlist, sizeof lib_v);
	memcpy(ph_lib, ph, sizeof ph_lib);

	/* (a) is the library doing exactly what the model with all recorded deviations does? */
	evaluate_model(Q_ALL, tw_lib != NULL);
	explained = same_network_logs(evs_lib, n_ev_lib, evs_ref, n_ev);
	for (k = 0; k < nphase; k++)
		if (ph[k].probe_cached_at_end != ph_lib[k].probe_cached_at_end || ph[k].old_probe_cached_after_settle != ph_lib[k].old_probe_cached_after_settle) explained = 0;
	if (explained && tw_lib) {
		/* and its twin */
		n_ev = model_run(Q_ALL, 1, evs_ref);
		model_observe(ph);
		for (k = 0; k < nphase; k++)
			if (tw_lib->quiet[k] != (count_network_events(ph[k].settled, ph[k].end, NULL) == 0 && ph[k].probe_cached_at_end)) explained = 0;
		evaluate_model(Q_ALL, 1);
	}
	if (explained) {
		memcpy(all_v, vlist, sizeof all_v); n_all = n_vlist;
		for (q = 0; q < 7; q++) {
			if (q == 3) {
				/* anything left that no single deviation explains? */
				pending = 0;
				for (i = 0; i < n_lib; i++)
					if (has_viol(all_v, n_all, &lib_v[i]) && has_viol(var_v[0], n_var[0], &lib_v[i]) && has_viol(var_v[1], n_var[1], &lib_v[i]) && has_viol(var_v[2], n_var[2], &lib_v[i])) pending = 1;
				if (!pending) break;
			}
			evaluate_model(Q_ALL & ~out_set[q], tw_lib != NULL);
			memcpy(var_v[q], vlist, sizeof var_v[q]); n_var[q] = n_vlist;
			nq = q + 1;
		}
	}
	evs = evs_lib; n_ev = n_ev_lib;
	memcpy(ph, ph_lib, sizeof ph_lib);
	vf_count(explained ? "violating_histories_matching_the_model_of_recorded_deviations" : "violating_histories_not_matching_the_model", 1);

	/* first the violations explained by a recorded deviation: one short record per deviation and history (the
	 * description of the history is attached to the others only, replaying shows everything) */
	for (pass = 0; pass < 2; pass++) {
		if (pass == 1) vf_sample("%s", desc);
		for (i = 0; i < n_lib; i++) {
			const struct vrec *v = &lib_v[i];
			int qs = -1;
			if (explained && has_viol(all_v, n_all, v))
				for (q = 0; q < nq && qs < 0; q++) if (!has_viol(var_v[q], n_var[q], v)) qs = q;
			if (pass == 0 && vf_verbose) vf_log("   attribution of %s (phase %d): library matches the model with all recorded deviations=%d, violation in that model=%d, gone without: %s\n", v->key, v->phase, explained,
				explained && has_viol(all_v, n_all, v), qs >= 0 ? out_name[qs] : "-");
			if (pass == 1) { if (qs < 0) vf_fail(v->key, "%s", v->detail); continue; }
			if (qs < 0 || filed[out_key[qs]]) continue;
			filed[out_key[qs]] = 1;
			vf_fail(quirk_key[out_key[qs]], "%s [gone from the reference model without: %s; %d violation(s) found in this history]: %.420s", v->key, out_name[qs], n_lib, v->detail);
		}
	}
}


/* 625 line histories.  twin: leave out the single deviations and record the outcome in *tw;
 * otherwise tw (if not NULL) is the record of the twin that was run before. */
static int run_hist(struct vf_rng *r, int twin, struct twin *tw)
{
	int active[4] = { 0, 0, 0, 0 }, nact = 0, c, i, phase;
	const struct station *st = NULL;
	unsigned val[3] = { 0, 0, 0 };
	int known[3] = { 0, 0, 0 };
	struct prog pg; struct tx_wss wss; struct clock_ ck;
	int cooldown[4] = { 0, 0, 0, 0 };
	int probe = 0, open_pg = 0;
	int o = 0;
	const struct station *st_prev = NULL;

	{
		unsigned d = vf_below(r, 20);
		domain = d < 10 ? D_KNOWN : d < 13 ? D_UNKNOWN : d < 16 ? D_PARTIAL : D_DISAGREE;
	}
	if (twin && domain != D_DISAGREE) return -1;    /* judged directly, no twin needed */
	new_decoder();
	if (!vbi) return 0;
	vf_bytes(r, vps_background, 13);
	vps_background[2] &= 0xEF;      /* byte 5 bit 3: only meaningful with CNI 0xDC3, which is not used */
	rand_prog(r, &pg); rand_wss(r, &wss);
	ck.mjd = vf_range(r, 40587, 70000); ck.sec = vf_range(r, 0, 86399); ck.lto = vf_range(r, -24, 26);
	nphase = vf_range(r, 1, 4);
	memset(ph, 0, sizeof ph);
	desc[0] = 0;

	for (phase = 0; phase < nphase; phase++) {
		int steady;
		/* --- choose the station of this phase --- */
		if (phase == 0 || vf_chance(r, 3, 4)) {
			const struct station *ns;
			do ns = &stations[vf_below(r, vf_chance(r, 2, 3) ? (unsigned)n_multi : (unsigned)n_stations)];
			while (st && ns->id == st->id);
			/* zapping back to the station before the last one */
			if (st_prev && st_prev->id != st->id && vf_chance(r, 1, 4)) ns = st_prev;
			st_prev = st;
			st = ns;
			nact = 0;
			for (c = 0; c < 3; c++) {
				active[c] = 0; known[c] = 0;
				unsigned u = unknown_cni(r, c);         /* drawn always: same stream in every domain */
				int pick = (int)vf_below(r, 60);
				if (domain == D_KNOWN) { if (st->ok[c] && pick < 48) { active[c] = 1; val[c] = st->cni[c]; known[c] = 1; } }
				else if (domain == D_UNKNOWN) { if (pick < 30) { active[c] = 1; val[c] = u; } }
				else if (st->ok[c] && (domain == D_DISAGREE || pick < 40)) { active[c] = 1; val[c] = st->cni[c]; known[c] = 1; }
				else if (domain == D_PARTIAL) { if (pick % 4) { active[c] = 1; val[c] = 0; } }
				else if (pick < 40) { active[c] = 1; val[c] = (pick % 4) ? u : 0; }
				nact += active[c];
			}
			if (domain == D_PARTIAL || domain == D_DISAGREE) {
				/* make sure of one carrier naming the station and one carrier of the other kind */
				int k = 0, u = 0, kc = -1;
				for (c = 0; c < 3; c++) { k += active[c] && known[c]; u += active[c] && !known[c] && (val[c] != 0 || domain == D_PARTIAL); }
				if (!k) for (c = 0; c < 3; c++) if (st->ok[c]) { if (!active[c]) nact++; active[c] = 1; val[c] = st->cni[c]; known[c] = 1; k = 1; break; }
				for (c = 0; c < 3; c++) if (active[c] && known[c]) kc = c;
				if (!u) for (c = 2; c >= 0; c--) if (c != kc) { if (!active[c]) nact++; active[c] = 1; known[c] = 0; val[c] = domain == D_PARTIAL ? 0 : unknown_cni(r, c); break; }
			}
			if (!nact) { for (c = 0; c < 3; c++) if (domain == D_UNKNOWN || st->ok[c]) { active[c] = 1; val[c] = domain == D_UNKNOWN ? unknown_cni(r, c) : st->cni[c]; known[c] = domain != D_UNKNOWN; nact = 1; break; } }
			ph[phase].changed_station = phase > 0;
		}
		active[CR_WSS] = vf_chance(r, 1, 2);
		ph[phase].start = n_rx;
		ph[phase].now_known = (domain == D_KNOWN || domain == D_PARTIAL);
		ph[phase].nact = nact;
		ph[phase].probe_before = probe;
		o += snprintf(desc + o, sizeof desc - (size_t)o, "[phase %d %s '%s' vps=%s%03x 8301=%s%04x 8302=%s%04x wss=%d] ", phase, dom_name[domain], domain == D_UNKNOWN ? "?" : st->name,
			active[0] ? "" : "-", val[0], active[1] ? "" : "-", val[1], active[2] ? "" : "-", val[2], active[3]);
		if (o > (int)sizeof desc - 200) o = (int)sizeof desc - 200;

		/* --- settle: clean receptions, every active carrier at least four times --- */
		{
			int need[4], left = 0;
			for (c = 0; c < 4; c++) { need[c] = active[c] ? 4 + (c == CR_WSS ? 2 : 0) : 0; left += need[c]; cooldown[c] = 2; }
			while (left > 0 && n_rx < MAXRX - 40) {
				struct rx *x;
				do c = (int)vf_below(r, 4); while (!need[c]);
				x = add_rx(c); if (!x) break;
				need[c]--; left--;
				x->phase = phase;
				if (c <= CR_8302) { x->cni = x->clean_cni = val[c]; x->station = known[c] ? st->id : 0; }
				else { x->wss = wss; tx_wss(x->word, &wss); }
				fill_common(x, &pg, &ck);
				transmit(r, n_rx - 1);
			}
		}
		ph[phase].settled = n_rx;
		if (probe && ph[phase].changed_station) ph[phase].old_probe_cached_after_settle = cached(probe);
		/* new probe page for this station */
		probe = tx_probe();
		ph[phase].probe = probe;
		if (!cached(probe)) { vf_fail("harness:C13:probe-not-cached", "probe page %x not cached right after transmission", probe); del_decoder(); return 0; }
		/* The page that was in progress when the station changed: if the change dropped the old station's pages (the old
		 * probe page is gone), a page of the old station whose header came before the change must not be stored under the
		 * new one when the next header of its magazine arrives. */
		if (open_pg && !twin) {
			int oc = cached(open_pg);
			vf_count("pages_in_progress_observed", 1);
			/* dropped between the two observations, that is after the page in progress was begun */
			if (phase > 0 && ph[phase].changed_station && ph[phase].probe_before && ph[phase - 1].probe_cached_at_end && !ph[phase].old_probe_cached_after_settle) {
				vf_count("pages_in_progress_at_a_station_change_that_dropped_the_cache", 1);
				if (oc) {
					vf_fail("model:C13:R5:old-page-in-progress-stored", "page %x of the previous station was in progress (header and a row received, not terminated) when the station changed in phase %d; the change dropped the cached pages (probe page %x is gone) but this page was stored afterwards, when the next header of its magazine arrived; %s",
						open_pg, phase, ph[phase].probe_before, desc);
					del_decoder(); return 0;
				}
			}
		}
		open_pg = 0;

		/* --- steady, with single deviations, programme and format changes --- */
		steady = vf_range(r, 8, 60);
		for (i = 0; i < steady && n_rx < MAXRX - 40; i++) {
			struct rx *x;
			do c = (int)vf_below(r, 4); while (!active[c]);
			x = add_rx(c); if (!x) break;
			x->phase = phase;
			if (cooldown[c] > 0) cooldown[c]--;
			if (c <= CR_8302) {
				x->cni = x->clean_cni = val[c]; x->station = known[c] ? st->id : 0;
				if (!cooldown[c] && vf_chance(r, 1, 7)) {
					/* the single deviating word: another station, noise, one bit, zero */
					unsigned d;
					switch (vf_below(r, 4)) {
					case 0: { const struct station *os; int t = 0; do os = &stations[vf_below(r, (unsigned)n_stations)]; while ((!os->ok[c] || os->cni[c] == val[c]) && ++t < 50); d = os->cni[c]; break; }
					case 1: d = (c == CR_VPS ? vf_u32(r) & 0xFFF : vf_u32(r) & 0xFFFF); break;
					case 2: d = val[c] ^ (1u << vf_below(r, c == CR_VPS ? 12 : 16)); break;
					default: d = 0; break;
					}
					if ((d & 0xFFF) == 0xDC3) d ^= 4;
					if (d != val[c]) {
						cooldown[c] = 3;
						if (!twin) { x->cni = d; x->deviant = 1; x->station = ref_lookup(c, d) ? ref_lookup(c, d)->id : 0; }
					}
				}
				/* genuine programme change now and then (not a station change) */
				if (vf_chance(r, 1, 15)) rand_prog(r, &pg);
			} else {
				x->wss = wss;
				if (!cooldown[c] && vf_chance(r, 1, 8)) {
					struct tx_wss d = wss;
					if (vf_chance(r, 1, 2)) d.bad_parity = 1; else { d.format = (wss.format + 1 + (int)vf_below(r, 7)) & 7; d.film ^= (int)vf_below(r, 2); }
					cooldown[c] = 4;
					if (!twin) { x->wss = d; x->deviant = 1; }
				} else if (vf_chance(r, 1, 12)) {
					/* genuine format change, sometimes with wrong parity throughout */
					rand_wss(r, &wss); wss.bad_parity = vf_chance(r, 1, 5);
					x->wss = wss; cooldown[c] = 5;
				}
				tx_wss(x->word, &x->wss);
			}
			fill_common(x, &pg, &ck);
			transmit(r, n_rx - 1);
		}
		ph[phase].end = n_rx;
		ph[phase].probe_cached_at_end = cached(probe);
		open_pg = (phase + 1 < nphase && vf_chance(r, 1, 2)) ? tx_open_page() : 0;
	}
	idle_frames(3);

	if (twin) {
		/* the twin is only there to tell what the single deviations changed */
		for (phase = 0; phase < nphase; phase++)
			tw->quiet[phase] = count_network_events(ph[phase].settled, ph[phase].end, NULL) == 0 && ph[phase].probe_cached_at_end;
		del_decoder();
		return 0;
	}
	/* judge; violations are collected first so that those which are the named, recorded deviations of the
	 * library and nothing else can be reported under the deviation's own key */
	collecting = 1; n_vlist = 0;
	rules_R1_R2_R3();
	judge_phases(tw);
	collecting = 0;
	if (n_vlist) attribute(tw);
	else vf_sample("%s", desc);
	del_decoder();
	return n_ev > 0;
}

/* XDS histories */
static void rand_str(struct vf_rng *r, char *s, int lo, int hi)
{
	int n = vf_range(r, lo, hi), i;
	for (i = 0; i < n; i++) s[i] = "ABCDEFGHIJKLMNOPQRSTUVWXYZ0123456789 -"[vf_below(r, i == 0 || i == n - 1 ? 36 : 38)];
	s[n] = 0;
}

static int run_xds(struct vf_rng *r)
{
	char name[36], call[36];
	int have_call, phase, nphase, i, o = 0, probe = 0, cooldown[2] = { 0, 0 };
	struct { int start, settled, end, changed, probe, probe_before, old_probe_cached_after_settle, probe_cached_at_end; } ph[8];

	new_decoder();
	if (!vbi) return 0;
	domain = D_XDS;
	nphase = vf_range(r, 1, 4);
	memset(ph, 0, sizeof ph);
	desc[0] = 0; name[0] = call[0] = 0;
	have_call = vf_chance(r, 1, 2);
	for (phase = 0; phase < nphase; phase++) {
		int need[2], left, steady;
		if (phase == 0 || vf_chance(r, 3, 4)) {
			char old[36];
			strcpy(old, name);
			do rand_str(r, name, 2, 24); while (!strcmp(old, name));
			strcpy(old, call);
			if (have_call) do rand_str(r, call, 3, 6); while (!strcmp(old, call));
			ph[phase].changed = phase > 0;
		}
		ph[phase].start = n_rx; ph[phase].probe_before = probe;
		o += snprintf(desc + o, sizeof desc - (size_t)o, "[phase %d name='%s' call='%s'] ", phase, name, have_call ? call : "-");
		need[0] = 4; need[1] = have_call ? 3 : 0; left = need[0] + need[1];
		/* a changed station sends its call letters first, so that the name is judged with them */
		while (left > 0 && n_rx < MAXRX - 40) {
			struct rx *x;
			int c;
			do c = (int)vf_below(r, 2); while (!need[c]);
			if (have_call && need[1] == 3) c = 1;
			x = add_rx(c ? CR_XCALL : CR_XNAME); if (!x) break;
			need[c]--; left--;
			x->phase = phase;
			strcpy(x->str, c ? call : name);
			transmit(NULL, n_rx - 1);
		}
		/* settle: the name once more after the last call packet */
		for (i = 0; i < 2 && n_rx < MAXRX - 40; i++) { struct rx *x = add_rx(CR_XNAME); if (!x) break; x->phase = phase; strcpy(x->str, name); transmit(NULL, n_rx - 1); }
		ph[phase].settled = n_rx;
		if (probe && ph[phase].changed) ph[phase].old_probe_cached_after_settle = cached(probe);
		probe = tx_probe(); ph[phase].probe = probe;
		if (!cached(probe)) { vf_fail("harness:C13:probe-not-cached", "probe page %x not cached right after transmission", probe); del_decoder(); return 0; }
		steady = vf_range(r, 4, 30);
		cooldown[0] = cooldown[1] = 2;
		for (i = 0; i < steady && n_rx < MAXRX - 40; i++) {
			int c = have_call && vf_chance(r, 1, 3);
			struct rx *x = add_rx(c ? CR_XCALL : CR_XNAME);
			if (!x) break;
			x->phase = phase;
			strcpy(x->str, c ? call : name);
			if (cooldown[c] > 0) cooldown[c]--;
			if (!cooldown[c] && vf_chance(r, 1, 6)) {
				if (vf_chance(r, 1, 2)) { int k = (int)vf_below(r, (unsigned)strlen(x->str)); x->str[k] = x->str[k] == 'Q' ? 'R' : 'Q'; }
				else do rand_str(r, x->str, 2, c ? 6 : 24); while (!strcmp(x->str, c ? call : name));
				x->deviant = 1; cooldown[c] = 3;
			}
			transmit(NULL, n_rx - 1);
		}
		ph[phase].end = n_rx;
		ph[phase].probe_cached_at_end = cached(probe);
	}
	idle_frames(3);
	vf_sample("%s", desc);
	rules_R1_R2_R3();
	for (phase = 0; phase < nphase; phase++) {
		int first = -1;
		int n_after = count_network_events(ph[phase].settled, ph[phase].end, &first);
		int ndev = count_deviants(ph[phase].settled, ph[phase].end), ndev_call = 0;
		char key[120];
		/* call letters and name are debounced (or not) by different code: different keys */
		for (i = ph[phase].settled; i < ph[phase].end; i++) ndev_call += rxs[i].deviant && rxs[i].carrier == CR_XCALL;
		if (n_after > 0) {
			snprintf(key, sizeof key, ndev ? "model:C13:R4:xds:network-event-after-single-deviation:%s" : "model:C13:xds:network-event-without-change", ndev_call ? "call-letters" : "name");
			vf_fail(key, "%d NETWORK event(s) in the steady part of phase %d (receptions %d..%d, %d single deviations of which %d in the call letters, no station change), first raised by %s; carrier history: %s; %s",
				n_after, phase, ph[phase].settled, ph[phase].end - 1, ndev, ndev_call, rx_str(first), carrier_tail(first), desc);
		}
		if (!ph[phase].probe_cached_at_end) {
			snprintf(key, sizeof key, ndev ? "model:C13:R4:xds:cache-cleared-after-single-deviation:%s" : "model:C13:xds:cache-cleared-without-change", ndev_call ? "call-letters" : "name");
			vf_fail(key, "probe page %x cached after the station had settled is gone at the end of phase %d (%d single deviations of which %d in the call letters, no station change); %s", ph[phase].probe, phase, ndev, ndev_call, desc);
		}
		vf_count("steady_windows", 1);
		vf_count("single_deviations", ndev);
		if (ndev) vf_sig("R4 dom=xds ndev=%d call=%d", ndev > 3 ? 3 : ndev, have_call);
		if (phase > 0 && ph[phase].changed) {
			int n_change = count_network_events(ph[phase].start, ph[phase].settled, NULL);
			vf_count("station_changes_xds", 1);
			if (n_change != 1)
				vf_fail("model:C13:R5:xds:network-events-on-change", "%d NETWORK events while the XDS station changed (phase %d, receptions %d..%d), exactly one expected; %s",
					n_change, phase, ph[phase].start, ph[phase].settled - 1, desc);
			if (ph[phase].old_probe_cached_after_settle)
				vf_fail("model:C13:R5:xds:old-pages-kept", "probe page %x of the previous station is still cached after the XDS station changed (phase %d); %s", ph[phase].probe_before, phase, desc);
			vf_sig("R5 xds call=%d", have_call);
		}
	}
	del_decoder();
	return n_ev > 0;
}

/* exhaustive short histories: symbol = carrier (4) x value (4) */
static int run_exh(long idx, int maxlen)
{
	int len, i, sym[8], o = 0, probe, pure_station = -1, mixed = 0, haszero = 0, ndev = 0;
	long n = 1, base = 0;
	const struct station *s1 = &stations[0], *s2 = NULL;
	struct prog pg = { (5u << 15) | (6u << 11) | (20u << 6) | 15u, 1, 0x40, 0, 0, 0, 1 };
	struct clock_ ck = { 55000, 45296, 2 };
	static const struct tx_wss w[4] = { { 0, 0, 0, 0, 0, 0, 0, 0, 0, 0 }, { 3, 1, 0, 0, 0, 1, 0, 0, 0, 0 }, { 0, 0, 0, 0, 0, 0, 0, 0, 0, 1 }, { 7, 0, 0, 0, 0, 2, 0, 0, 0, 0 } };
	unsigned uval[3] = { 0x0F11, 0xFE11, 0xFD11 };

	/* two stations usable on all three carriers */
	for (i = 0; i < n_multi; i++) if (stations[i].ok[0] && stations[i].ok[1] && stations[i].ok[2]) { if (pure_station < 0) { s1 = &stations[i]; pure_station = i; } else { s2 = &stations[i]; break; } }
	if (!s2) { vf_fail("harness:C13:no-stations", "no two stations with all three CNIs"); return 0; }
	for (i = 0; i < 3; i++) while (in_col(i, uval[i]) || (i == CR_8302 && in_col(CR_VPS, uval[i] & 0xFFF))) uval[i]++;

	for (len = 1; len <= maxlen; len++) { n *= 16; if (idx < base + n) break; base += n; }
	if (len > maxlen) return 0;
	idx -= base;
	for (i = 0; i < len; i++) { sym[i] = (int)(idx & 15); idx >>= 4; }

	new_decoder();
	if (!vbi) return 0;
	domain = D_EXH;
	memset(vps_background, 0, 13);
	probe = tx_probe();
	for (i = 0; i < len; i++) {
		int c = sym[i] >> 2, v = sym[i] & 3;
		struct rx *x = add_rx(c);
		if (c <= CR_8302) {
			x->cni = v == 0 ? s1->cni[c] : v == 1 ? s2->cni[c] : v == 2 ? uval[c] : 0;
			x->station = v == 0 ? s1->id : v == 1 ? s2->id : 0;
			if (v == 2) mixed = 1;          /* a CNI that is not in the table next to CNIs that are: not judged below */
			if (v == 3) haszero = 1;        /* zero: no CNI */
		} else { x->wss = w[v]; tx_wss(x->word, &x->wss); }
		fill_common(x, &pg, &ck);
		o += snprintf(desc + o, sizeof desc - (size_t)o, "%s:%d ", cr_name[c], v);
	}
	for (i = 0; i < len; i++) transmit(NULL, i);
	idle_frames(2);
	if (idx == 0 || (base + idx) % 4099 == 0) vf_sample("exhaustive history %s", desc);
	rules_R1_R2_R3();

	/* pure classes (see design note): every CNI names station 1 or 2, or is zero (= the carrier sends no CNI) */
	if (!mixed) {
		const char *sfx = haszero ? ":zero-cni-carrier" : "";
		char key[120];
		/* mark single deviations: a reception whose neighbours on its carrier agree with each other but not with it */
		int stn[8], cnt = 0, k, last_id = 0, runs = 0, n1 = 0;
		for (i = 0; i < len; i++) {
			int p, q = -1;
			if (rxs[i].carrier > CR_8302) continue;
			p = prev_on_carrier(i);
			for (k = i + 1; k < len; k++) if (rxs[k].carrier == rxs[i].carrier) { q = k; break; }
			if (p >= 0 && q >= 0 && same_value(&rxs[p], &rxs[q]) && !same_value(&rxs[p], &rxs[i])) { rxs[i].deviant = 1; ndev++; continue; }
			if (rxs[i].cni == 0) continue;
			stn[cnt++] = rxs[i].station;
		}
		for (k = 0; k < cnt; k++) { if (stn[k] != last_id) { runs++; last_id = stn[k]; } if (runs == 1) n1++; }
		if (runs == 1) {
			/* one station throughout, apart from single deviations */
			int nn = count_network_events(0, len, NULL);
			if (nn > 1) {
				snprintf(key, sizeof key, "%s%s", ndev ? "model:C13:R4:network-event-after-single-deviation" : "model:C13:network-event-without-change", sfx);
				vf_fail(key, "%d NETWORK events in history %s(one known station, %d single deviations)", nn, desc, ndev);
			}
			if (!cached(probe)) {
				snprintf(key, sizeof key, "%s%s", ndev ? "model:C13:R4:cache-cleared-after-single-deviation" : "model:C13:cache-cleared-without-change", sfx);
				vf_fail(key, "probe page gone after history %s(one known station, %d single deviations)", desc, ndev);
			}
			if (ndev) vf_sig("exh R4 len=%d ndev=%d zero=%d", len, ndev, haszero);
		} else if (runs == 2 && ndev == 0) {
			/* S then S': was S identified, and is S' received twice in a row on some carrier? */
			int split = 0, identified = 0, twice = 0, e;
			for (i = 0, k = 0; i < len; i++) { if (rxs[i].carrier > CR_8302 || rxs[i].cni == 0) continue; if (k == n1) { split = i; break; } k++; }
			for (e = 0; e < n_ev; e++) if (evs[e].type == VBI_EVENT_NETWORK && evs[e].rx < split && evs[e].net.nuid) identified = 1;
			for (i = split; i < len; i++) { int p = prev_on_carrier(i); if (rxs[i].carrier <= CR_8302 && rxs[i].cni != 0 && p >= split && same_value(&rxs[p], &rxs[i])) twice = 1; }
			if (identified && twice) {
				int nn = count_network_events(split, len, NULL);
				vf_count("station_changes_known_to_known", 1);
				snprintf(key, sizeof key, "model:C13:R5:network-events-on-change%s", sfx);
				if (nn != 1) vf_fail(key, "%d NETWORK events after the change in history %s, exactly one expected", nn, desc);
				snprintf(key, sizeof key, "model:C13:R5:old-pages-kept%s", sfx);
				if (cached(probe)) vf_fail(key, "probe page still cached after the station change in history %s", desc);
				vf_sig("exh R5 len=%d zero=%d", len, haszero);
			}
		}
	}
	del_decoder();
	return n_ev > 0;
}

/* ---------------- station changes with a time stamp discontinuity ("zap") ----------------
 *
 * What vbi_decode() documents: time stamps which do not advance by 1/30 .. 1/25 s are taken for dropped frames,
 * "eventually a channel switch may be assumed which resets even more decoder state"; vbi_channel_switched()
 * orders the same reset for the next frame; "you may also receive blank events (e. g. unknown network, unknown
 * aspect ratio) revoking a previously sent event, until new information becomes available".  What the statement
 * demands when the identified station changes: exactly one NETWORK event, old pages dropped.  Together, for a
 * change to another known station that comes with such a discontinuity:
 *   - exactly one NETWORK event which names a station (R1 makes sure it is the one transmitted),
 *   - at most one blank NETWORK event, and only before that one (revoking the old station while the new one has
 *     not been received twice yet); a blank event after it would revoke the station which is being received,
 *   - the probe page of the old station is gone,
 * observed when the new station has been on air for more than 40 regular frames after the last discontinuity
 * and every carrier has repeated its identifier since, i. e. whenever the library chooses to give up waiting.
 * Control phases: a change to a station not seen before without any discontinuity (one NETWORK event, blank
 * ones count) and a discontinuity without a change (not judged, see the head of this file).  After the
 * observation every phase has a steady part with regular frames: no NETWORK event, new probe page kept.
 */
enum { ZK_START, ZK_ZAP, ZK_PLAIN, ZK_GAP_ONLY };
struct zphase {
	int kind, sys525, zapback, disjoint, sparse, burst, announced, nact;
	int start, settled, end;                /* receptions */
	long f_start, f_gap, f_obs, f_end;      /* frames: first of the phase, first discontinuity, observation, end */
	int probe, probe_before, old_probe_cached, probe_cached_at_end;
	char what[120];
};
static struct zphase zph[8];
static int n_zph;

static void judge_zap(void)
{
	int k, e;
	for (k = 0; k < n_zph; k++) {
		const struct zphase *z = &zph[k];
		const char *x5 = z->sys525 ? "xds:" : "";
		char key[120];
		int named = 0, blank_before = 0, blank_after = 0, steady = 0;
		long f_named = 0, f_named2 = 0;
		viol_phase = k;
		for (e = 0; e < n_ev; e++) {
			if (evs[e].type != VBI_EVENT_NETWORK || evs[e].frame < z->f_start || evs[e].frame > z->f_end) continue;
			if (evs[e].frame > z->f_obs) { steady++; continue; }
			if (!is_blank(&evs[e].net)) { if (!named) f_named = evs[e].frame; else f_named2 = evs[e].frame; named++; }
			else if (named) blank_after++; else blank_before++;
		}
		if (steady) {
			snprintf(key, sizeof key, "model:C13:%snetwork-event-without-change", x5);
			viol(key, "%d NETWORK event(s) in the steady part of phase %d (frames %ld..%ld, regular time stamps, no station change, no deviating word); %s", steady, k, z->f_obs + 1, z->f_end, desc);
		}
		if (!z->probe_cached_at_end) {
			snprintf(key, sizeof key, "model:C13:%scache-cleared-without-change", x5);
			viol(key, "probe page %x cached after the station had settled is gone at the end of phase %d (frames %ld..%ld, regular time stamps, no station change, no deviating word); %s", z->probe, k, z->f_obs + 1, z->f_end, desc);
		}
		COUNT("steady_windows", 1);
		if (z->kind == ZK_ZAP) {
			COUNT("station_changes_with_time_gap", 1);
			if (z->zapback) COUNT("station_changes_with_time_gap_back_to_the_station_before", 1);
			if (z->disjoint) COUNT("station_changes_with_time_gap_back_on_a_carrier_silent_meanwhile", 1);
			if (z->announced) COUNT("station_changes_announced_with_vbi_channel_switched", 1);
			if (named == 1 && !blank_before) COUNT("station_changes_with_time_gap_identified_before_revocation", 1);
			if (named == 1 && blank_before == 1) COUNT("station_changes_with_time_gap_identified_after_revocation", 1);
			if (named == 2 && blank_after == 1 && blank_before <= 1 && q_stale_countdown_between(f_named, f_named2)) {
				COUNT("station_changes_with_time_gap_new_station_revoked_by_countdown_started_before_it_was_identified", 1);
				viol(Q_COUNTDOWN_KEY, "model:C13:R5:%stime-gap:network-events-on-change: the new station is announced at frame %ld, revoked by a blank NETWORK event and announced again at frame %ld while it keeps arriving with regular time stamps; the blank event comes 40 regular frames after a time stamp discontinuity that preceded the first announcement, when no station was identified (phase %d: %s; frames %ld..%ld); %s",
					x5, f_named, f_named2, k, z->what, z->f_start, z->f_obs, desc);
				blank_after = 0; named = 1;
			}
			if (named != 1 || blank_before > 1) {
				snprintf(key, sizeof key, "model:C13:R5:%stime-gap:network-events-on-change", x5);
				viol(key, "%d NETWORK events naming a station (exactly one expected), %d blank one(s) before the first of them (at most one expected) and %d after it, while the station changed to another known station together with a time stamp discontinuity (phase %d: %s; frames %ld..%ld, discontinuity at frame %ld, first announcement at frame %ld); %s",
					named, blank_before, blank_after, k, z->what, z->f_start, z->f_obs, z->f_gap, f_named, desc);
			}
			if (blank_after) {
				snprintf(key, sizeof key, "model:C13:R5:%stime-gap:new-station-revoked", x5);
				viol(key, "%d blank NETWORK event(s) after the new station had been announced at frame %ld: the station changed once, together with a time stamp discontinuity at frame %ld, and kept arriving with regular time stamps (phase %d: %s; frames %ld..%ld, %d NETWORK events naming a station); %s",
					blank_after, f_named, z->f_gap, k, z->what, z->f_start, z->f_obs, named, desc);
			}
			if (z->old_probe_cached) {
				snprintf(key, sizeof key, "model:C13:R5:%stime-gap:old-pages-kept", x5);
				viol(key, "probe page %x of the previous station is still cached %ld frames after the station changed together with a time stamp discontinuity (phase %d: %s); %s", z->probe_before, z->f_obs - z->f_gap, k, z->what, desc);
			}
			SIG("R5 %s gap %s%s%s%s carriers=%d outcome=%s", dom_name[domain], z->announced ? "announced" : z->burst ? "burst" : "single", z->sparse ? " sparse" : "", z->zapback ? " back" : "", z->disjoint ? " silent" : "",
				z->nact, named != 1 ? "?" : blank_before ? "revoked-first" : "direct");
		} else if (z->kind == ZK_PLAIN) {
			COUNT(z->sys525 ? "station_changes_xds" : "station_changes_known_to_known", 1);
			if (named + blank_before + blank_after != 1) {
				snprintf(key, sizeof key, "model:C13:R5:%snetwork-events-on-change", x5);
				viol(key, "%d NETWORK events (%d blank) while the station changed to another known station (phase %d: %s; frames %ld..%ld, regular time stamps), exactly one expected; %s",
					named + blank_before + blank_after, blank_before + blank_after, k, z->what, z->f_start, z->f_obs, desc);
			}
			if (z->old_probe_cached) {
				snprintf(key, sizeof key, "model:C13:R5:%sold-pages-kept", x5);
				viol(key, "probe page %x of the previous station is still cached after the change to another known station (phase %d: %s); %s", z->probe_before, k, z->what, desc);
			}
			SIG("R5 %s plain carriers=%d", dom_name[domain], z->nact);
		} else if (z->kind == ZK_GAP_ONLY) {
			/* not judged: the statement does not speak about dropped frames without a station change */
			COUNT("time_gaps_without_station_change", 1);
			if (blank_before || blank_after) COUNT("time_gaps_without_station_change_station_revoked", 1);
			if (named) COUNT("time_gaps_without_station_change_station_announced_again", 1);
			SIG("gap-only %s %s%s revoked=%d again=%d", dom_name[domain], z->announced ? "announced" : z->burst ? "burst" : "single", z->sparse ? " sparse" : "", blank_before + blank_after > 0, named > 0);
		}
	}
	viol_phase = -1;
}

struct zstation { const struct station *st; int active[3]; char name[36]; };

static void order_gap(struct vf_rng *r)
{
	static const double fixed[] = { 0.0, 0.02, 0.024, 0.051, 0.06, 0.08 };   /* duplicated frame, too early, one frame missing ... */
	switch (vf_below(r, 4)) {
	case 0: gap_delta = fixed[vf_below(r, 6)]; break;
	case 1: gap_delta = 0.08 + 0.04 * vf_range(r, 0, 50); break;           /* 1 .. 51 frames missing */
	case 2: gap_delta = 0.2 + 3.0 * vf_unit(r); break;
	default: gap_delta = 5.0 + 600.0 * vf_unit(r); break;
	}
	gap_pending = 1;
}

static int run_zap(struct vf_rng *r)
{
	struct zstation used[8], cur, prev;
	int n_used = 0, have_prev = 0, k, c, i, o = 0, probe = 0;
	int sys525 = vf_chance(r, 1, 4);
	struct prog pg; struct tx_wss wss; struct clock_ ck;
	double period = sys525 ? 1 / 29.97 : 0.04;

	domain = sys525 ? D_ZAPX : D_ZAP;
	new_decoder();
	if (!vbi) return 0;
	vf_bytes(r, vps_background, 13);
	vps_background[2] &= 0xEF;
	rand_prog(r, &pg); rand_wss(r, &wss);
	ck.mjd = vf_range(r, 40587, 70000); ck.sec = vf_range(r, 0, 86399); ck.lto = vf_range(r, -24, 26);
	n_zph = vf_range(r, 2, 4);
	memset(zph, 0, sizeof zph);
	memset(&cur, 0, sizeof cur); memset(&prev, 0, sizeof prev);
	desc[0] = 0;

	for (k = 0; k < n_zph; k++) {
		struct zphase *z = &zph[k];
		int act[4] = { 0, 0, 0, 0 }, need[4], left, nact = 0, change, steady, kd = (int)vf_below(r, 100);
		z->kind = k == 0 ? ZK_START : kd < 60 ? ZK_ZAP : kd < 75 ? ZK_PLAIN : ZK_GAP_ONLY;
		z->sys525 = sys525;
		change = z->kind != ZK_GAP_ONLY;
		if (change) {
			struct zstation ns;
			int back = z->kind == ZK_ZAP && have_prev && vf_chance(r, 1, 3);
			memset(&ns, 0, sizeof ns);
			if (back) { ns = prev; z->zapback = 1; }
			else for (;;) {
				int fresh = 1, one = vf_chance(r, 1, 3), usable = 0, pick;
				if (sys525) rand_str(r, ns.name, 2, 24);
				else {
					ns.st = &stations[vf_below(r, vf_chance(r, 2, 3) ? (unsigned)n_multi : (unsigned)n_stations)];
					for (c = 0; c < 3; c++) { ns.active[c] = 0; usable += ns.st->ok[c]; }
					if (!usable) continue;
					pick = (int)vf_below(r, (unsigned)usable);
					for (c = 0; c < 3; c++) if (ns.st->ok[c]) { ns.active[c] = one ? pick == 0 : (pick == 0 || vf_chance(r, 3, 4)); pick--; }
				}
				for (i = 0; i < n_used; i++) if (sys525 ? !strcmp(used[i].name, ns.name) : used[i].st->id == ns.st->id) fresh = 0;
				if (fresh) break;
			}
			if (k > 0) {
				prev = cur; have_prev = 1;
				if (z->zapback && !sys525) { z->disjoint = 1; for (c = 0; c < 3; c++) if (ns.active[c] && cur.active[c]) z->disjoint = 0; }
			}
			cur = ns;
			if (!z->zapback && n_used < 8) used[n_used++] = ns;
		}
		if (sys525) { nact = 1; }
		else {
			for (c = 0; c < 3; c++) { act[c] = cur.active[c]; nact += act[c]; }
			act[CR_WSS] = vf_chance(r, 1, 2);
			if (change) rand_wss(r, &wss);
			wss.bad_parity = 0;
		}
		if (change) rand_prog(r, &pg);
		z->nact = nact;
		z->sparse = vf_chance(r, 1, 3);
		z->start = n_rx; z->f_start = frame_no + 1; z->probe_before = probe;
		if (sys525) snprintf(z->what, sizeof z->what, "XDS name '%s'", cur.name);
		else snprintf(z->what, sizeof z->what, "'%s' vps=%s%03x 8301=%s%04x 8302=%s%04x wss=%d", cur.st->name, act[0] ? "" : "-", cur.st->cni[0], act[1] ? "" : "-", cur.st->cni[1], act[2] ? "" : "-", cur.st->cni[2], act[3]);

		/* --- the discontinuity: on the first frame of the phase and, in a burst, on some of the frames up to and
		 * including the one with the first identification line of the phase (no identifier can have repeated
		 * before the last discontinuity) --- */
		if (z->kind == ZK_ZAP || z->kind == ZK_GAP_ONLY) {
			int pre = (int)vf_below(r, 3), first = 1;
			z->burst = vf_chance(r, 1, 4);
			z->announced = vf_chance(r, 1, 5);
			z->f_gap = frame_no + 1;
			if (z->announced) {
				/* the application says so; with or without a discontinuity of the time stamps */
				vf_phase("vbi_channel_switched");
				vbi_channel_switched(vbi, 0);
				note_gap(frame_no + 1);
				vf_count("vbi_channel_switched_calls", 1);
				first = vf_chance(r, 1, 2);
			}
			for (i = 0; i < pre; i++) {
				if (first || (z->burst && vf_chance(r, 1, 2))) order_gap(r);
				first = 0;
				tick(period); vf_phase("vbi_decode"); vbi_decode(vbi, NULL, 0, now);
			}
			if (first || (z->burst && vf_chance(r, 1, 2))) order_gap(r);
		}
		o += snprintf(desc + o, sizeof desc - (size_t)o, "[phase %d %s%s%s%s%s%s: %s] ", k,
			z->kind == ZK_START ? "start" : z->kind == ZK_ZAP ? "change with time gap" : z->kind == ZK_PLAIN ? "change, regular time stamps" : "time gap, same station",
			z->announced ? ", vbi_channel_switched()" : "", z->burst ? ", burst" : "", z->sparse ? ", sparse" : "", z->zapback ? ", back to the station before" : "", z->disjoint ? " on carriers silent meanwhile" : "", z->what);
		if (o > (int)sizeof desc - 260) o = (int)sizeof desc - 260;

		/* --- the station settles: every carrier at least four clean receptions; then, after a discontinuity, on
		 * until 43 regular frames have passed since the last one, and every carrier three times more --- */
		for (i = 0; i < 2; i++) {
			if (i == 1) {
				if (z->kind != ZK_ZAP && z->kind != ZK_GAP_ONLY) break;
				if (!n_gap_frames) break;
			}
			for (c = 0; c < 4; c++) need[c] = 0;
			if (sys525) need[0] = i ? 3 : 4;
			else for (c = 0; c < 4; c++) need[c] = act[c] ? (i ? 3 : 4) + (c == CR_WSS ? 2 : 0) : 0;
			left = need[0] + need[1] + need[2] + need[3];
			while (n_rx < MAXRX - 40) {
				struct rx *x;
				int late = i == 1 && frame_no + (gap_pending ? 1 : 0) - gap_frames[n_gap_frames - 1] < 43;
				if (!left && !late) break;
				if (left) { do c = (int)vf_below(r, 4); while (!need[c]); }
				else if (sys525) c = 0;
				else do c = (int)vf_below(r, 4); while (!act[c]);
				x = add_rx(sys525 ? CR_XNAME : c); if (!x) break;
				if (need[c] && !late) { need[c]--; left--; }
				x->phase = k;
				if (sys525) strcpy(x->str, cur.name);
				else if (c <= CR_8302) { x->cni = x->clean_cni = cur.st->cni[c]; x->station = cur.st->id; }
				else { x->wss = wss; tx_wss(x->word, &wss); }
				if (!sys525) fill_common(x, &pg, &ck);
				transmit(sys525 ? NULL : r, n_rx - 1);
				if (z->sparse) { int n = vf_range(r, 2, 20); while (n-- > 0) { tick(period); vf_phase("vbi_decode"); vbi_decode(vbi, NULL, 0, now); } }
			}
		}
		z->settled = n_rx; z->f_obs = frame_no;
		if (probe && change && k > 0) z->old_probe_cached = cached(probe);
		probe = tx_probe();
		z->probe = probe;
		if (!cached(probe)) { vf_fail("harness:C13:probe-not-cached", "probe page %x not cached right after transmission", probe); del_decoder(); return 0; }

		/* --- steady: regular frames, programme changes --- */
		steady = vf_range(r, 4, 24);
		for (i = 0; i < steady && n_rx < MAXRX - 40; i++) {
			struct rx *x;
			if (sys525) c = 0; else do c = (int)vf_below(r, 4); while (!act[c]);
			x = add_rx(sys525 ? CR_XNAME : c); if (!x) break;
			x->phase = k;
			if (sys525) strcpy(x->str, cur.name);
			else if (c <= CR_8302) { x->cni = x->clean_cni = cur.st->cni[c]; x->station = cur.st->id; if (vf_chance(r, 1, 15)) rand_prog(r, &pg); }
			else { x->wss = wss; tx_wss(x->word, &wss); }
			if (!sys525) fill_common(x, &pg, &ck);
			transmit(sys525 ? NULL : r, n_rx - 1);
		}
		z->end = n_rx; z->f_end = frame_no;
		z->probe_cached_at_end = cached(probe);
	}
	idle_frames(3);
	vf_sample("%s", desc);
	if (n_rx >= MAXRX - 40 || n_gap_frames >= MAXGAP) {
		/* a phase may have been cut short before its observation point: cannot happen with the sizes above */
		vf_fail("harness:C13:zap-history-too-long", "%d receptions, %d discontinuities; %s", n_rx, n_gap_frames, desc);
		del_decoder();
		return 0;
	}
	rules_R1_R2_R3();
	judge_zap();
	del_decoder();
	return n_ev > 0;
}

static int run_case(struct vf_rng *r, long idx)
{
	if (!stations) build_stations();
	if (0 == strcmp(vf_mode, "xds")) return run_xds(r);
	if (0 == strcmp(vf_mode, "exh")) return run_exh(idx, (int)vf_param[0]);
	if (0 == strcmp(vf_mode, "zap")) return run_zap(r);
	{
		struct vf_rng r2 = *r;
		struct twin tw;
		int have_twin;
		memset(&tw, 0, sizeof tw);
		have_twin = run_hist(&r2, 1, &tw) >= 0;
		if (have_twin) vf_count("twin_histories", 1);
		return run_hist(r, 0, have_twin ? &tw : NULL);
	}
}

/* ---------------- self test ---------------- */

static void selftest(void)
{
	uint8_t p[42], b[13], w[2];
	unsigned cni = 0;
	vbi_program_id pid;
	time_t t; int east;

	/* EN 300 706 Table: Hamming 8/4 of 0..15 */
	static const uint8_t ham[16] = { 0x15, 0x02, 0x49, 0x5E, 0x64, 0x73, 0x38, 0x2F, 0xD0, 0xC7, 0x8C, 0x9B, 0xA1, 0xB6, 0xFD, 0xEA };
	int i;
	for (i = 0; i < 16; i++) if (tx_ham84((unsigned)i) != ham[i]) vf_fail("selftest:C13", "Hamming 8/4 of %d", i);
	if (tx_oddpar('A') != 0xC1 || tx_oddpar('C') != 0x43) vf_fail("selftest:C13", "odd parity");

	/* cross-check the transmitters against the library's decoders (selftest only) */
	{
		struct tx_vps v = { 0xDC2, (17u << 15) | (9u << 11) | (20u << 6) | 15u, 2, 0xA5 };
		memset(b, 0xFF, 13); b[2] = 0;
		tx_vps(b, &v);
		vbi_decode_vps_cni(&cni, b);
		if (cni != 0xDC2) vf_fail("selftest:C13", "VPS CNI %x", cni);
		if (!vbi_decode_vps_pdc(&pid, b) || pid.pil != v.pil || (int)pid.pcs_audio != 2 || pid.pty != 0xA5) vf_fail("selftest:C13", "VPS PDC pil %x", pid.pil);
		/* hand vector: day 17 month 9 20:15, country D (1101), network 0xC2: byte 11 = 11 10001 1, byte 12 = 001 10100, byte 13 = 001111 11, byte 14 = 01 000010 */
		if (b[8] != 0xE3 || b[9] != 0x34 || b[10] != 0x3F || b[11] != 0x42) vf_fail("selftest:C13", "VPS hand vector %02x %02x %02x %02x", b[8], b[9], b[10], b[11]);
	}
	{
		struct tx_8301 v = { 0x4902, -3, 51234, 23, 59, 58, 1 };
		tx_8301(p, &v);
		vbi_decode_teletext_8301_cni(&cni, p);
		if (cni != 0x4902) vf_fail("selftest:C13", "8/30-1 CNI %x", cni);
		if (!vbi_decode_teletext_8301_local_time(&t, &east, p) || east != -5400 || (long long)t != (51234LL - 40587) * 86400 + 86398) vf_fail("selftest:C13", "8/30-1 time");
	}
	{
		struct tx_8302 v = { 0x1DC2, 0x8A50F, 2, 1, 0, 1, 3, 0x5A };
		tx_8302(p, &v);
		if (!vbi_decode_teletext_8302_cni(&cni, p) || cni != 0x1DC2) vf_fail("selftest:C13", "8/30-2 CNI %x", cni);
		if (!vbi_decode_teletext_8302_pdc(&pid, p) || pid.pil != 0x8A50F || pid.channel != VBI_PID_CHANNEL_LCI_2 || !pid.luf || pid.prf || !pid.mi || (int)pid.pcs_audio != 3 || pid.pty != 0x5A)
			vf_fail("selftest:C13", "8/30-2 PDC");
	}
	{
		struct tx_wss v = { 3, 1, 0, 0, 1, 1, 0, 0, 0, 0 };
		vbi_aspect_ratio a = { 59, 273, 1.0, 1, VBI_SUBT_ACTIVE };
		tx_wss(w, &v);
		/* 16:9 centre "1101", film: b0..b4 = 1 1 0 1 1 -> 0x1B; b8 = 1, b9 = 1 -> 0x03 */
		if (w[0] != 0x1B || w[1] != 0x03 || !wss_parity_ok(w)) vf_fail("selftest:C13", "WSS word %02x %02x", w[0], w[1]);
		if (check_aspect(&v, &a)) vf_fail("selftest:C13", "aspect table: %s", check_aspect(&v, &a));
		a.first_line = 23; if (!check_aspect(&v, &a)) vf_fail("selftest:C13", "aspect table accepts wrong lines");
		v.bad_parity = 1; tx_wss(w, &v); if (wss_parity_ok(w)) vf_fail("selftest:C13", "WSS parity");
	}
	build_stations();
	if (n_multi < 20 || n_stations < 100) vf_fail("selftest:C13", "station catalogue too small: %d/%d", n_multi, n_stations);
	/* the reference model used for attribution, on hand histories (expected logs worked out on paper from the
	 * description of the strict model and of the three recorded deviations) */
	{
		const struct station *A = NULL, *B = NULL;
		unsigned U = 0x0F11;
		int i, n, k;
		static const struct { int c, v; } h1[] = { {1,0},{1,0},{0,2},{0,2},{1,0},{1,0},{0,2},{0,2},{1,0},{1,0} };   /* 8/30-1 A A, VPS U U, ... */
		static const struct { int c, v; } h2[] = { {0,0},{0,0},{1,1},{1,1},{0,0},{0,0} };                           /* VPS A A, 8/30-1 B B, VPS A A */
		static const struct { int c, v; } h3[] = { {0,0},{0,0},{0,3},{0,0},{0,0} };                                 /* VPS A A D A A */
		for (i = 0; i < n_multi; i++) if (stations[i].ok[0] && stations[i].ok[1] && stations[i].ok[2]) { if (!A) A = &stations[i]; else { B = &stations[i]; break; } }
		while (in_col(CR_VPS, U)) U++;
		if (!A || !B) { vf_fail("selftest:C13", "no two stations with all three CNIs"); return; }
#define LOAD(h) do { n_rx = (int)(sizeof h / sizeof h[0]); memset(rxs, 0, sizeof rxs[0] * (size_t)n_rx); \
		for (k = 0; k < n_rx; k++) { rxs[k].carrier = h[k].c; rxs[k].cni = rxs[k].clean_cni = h[k].v == 0 ? A->cni[h[k].c] : h[k].v == 1 ? B->cni[h[k].c] : h[k].v == 2 ? U : A->cni[h[k].c] ^ 1; } } while (0)
#define EXPECT(what, cond) do { if (!(cond)) vf_fail("selftest:C13", "reference model: %s", what); } while (0)
		/* h1, a CNI that is not in the table next to one that is */
		LOAD(h1);
		n = model_run(0, 0, evs_ref);           /* strict: A identified once, the unknown CNI only adds a NETWORK_ID, no cache clear */
		EXPECT("strict h1", n == 3 && evs_ref[0].type == VBI_EVENT_NETWORK && evs_ref[0].rx == 1 && evs_ref[0].net.nuid == (unsigned)A->id && evs_ref[1].type == VBI_EVENT_NETWORK_ID
			&& evs_ref[2].type == VBI_EVENT_NETWORK_ID && evs_ref[2].rx == 3 && evs_ref[2].net.nuid == (unsigned)A->id && evs_ref[2].net.cni_vps == (int)U && m_nreset == 0);
		n = model_run(Q_UNKNOWN, 0, evs_ref);   /* the unknown CNI revokes A (blank NETWORK, cache cleared), A comes back once */
		EXPECT("Q_UNKNOWN h1", m_nreset == 1 && m_reset[0] == 3 && evs_ref[2].type == VBI_EVENT_NETWORK && evs_ref[2].net.nuid == 0 && evs_ref[2].net.cni_vps == 0
			&& evs_ref[3].type == VBI_EVENT_NETWORK && evs_ref[3].net.cni_vps == (int)U && evs_ref[3].net.cni_8301 == 0
			&& n == 2 + 3 + 2 && evs_ref[5].rx == 5 && evs_ref[5].net.nuid == (unsigned)A->id);
		n = model_run(Q_UNKNOWN | Q_STALE, 0, evs_ref);        /* the same, but A's confirmed CNI is not forgotten: A is not identified again */
		EXPECT("Q_UNKNOWN|Q_STALE h1", m_nreset == 1 && n == 2 + 3 && evs_ref[3].net.cni_8301 == (int)A->cni[1]);
		n = model_run(Q_ALL, 0, evs_ref);       /* with the shared counter and all CNIs forgotten: revoked and identified again and again */
		EXPECT("Q_ALL h1", m_nreset == 2 && m_reset[0] == 3 && m_reset[1] == 7 && n == 2 + 3 + 2 + 3 + 2 && evs_ref[5].rx == 5 && evs_ref[5].type == VBI_EVENT_NETWORK && evs_ref[5].net.nuid == (unsigned)A->id);
		/* h2, zapping back to a station whose carrier was silent meanwhile */
		LOAD(h2);
		n = model_run(0, 0, evs_ref);
		EXPECT("strict h2", m_nreset == 2 && m_reset[0] == 3 && m_reset[1] == 5 && n == 6 && evs_ref[4].net.nuid == (unsigned)A->id && evs_ref[4].type == VBI_EVENT_NETWORK && evs_ref[2].net.cni_vps == 0);
		n = model_run(Q_STALE, 0, evs_ref);
		EXPECT("Q_STALE h2", m_nreset == 1 && n == 4 && evs_ref[2].net.cni_vps == (int)A->cni[0]);
		/* h3, a single deviating word: announced again (NETWORK_ID), no NETWORK event, no cache clear, in every variant */
		LOAD(h3);
		for (k = 0; k < 8; k++) {
			n = model_run(k, 0, evs_ref);
			EXPECT("h3", n == 3 && m_nreset == 0 && evs_ref[2].type == VBI_EVENT_NETWORK_ID && evs_ref[2].rx == 4);
		}
		/* and the rules on h1 with all deviations: the third identification of A repeats the second with no new input */
		LOAD(h1);
		domain = D_EXH; nphase = 0;
		n_ev = model_run(Q_ALL, 0, evs_ref); evs = evs_ref;
		eval_only = 1; collecting = 1; n_vlist = 0;
		rules_R1_R2_R3();
		eval_only = 0; collecting = 0; evs = evs_lib;
		EXPECT("rules on Q_ALL h1", n_vlist == 2 && !strcmp(vlist[0].key, "model:C13:R3:network-repeated") && !strcmp(vlist[1].key, "model:C13:R3:network-id-repeated"));
		n_ev = model_run(0, 0, evs_ref); evs = evs_ref;
		eval_only = 1; collecting = 1; n_vlist = 0;
		rules_R1_R2_R3();
		eval_only = 0; collecting = 0; evs = evs_lib;
		EXPECT("rules on strict h1", n_vlist == 0);
		n_rx = n_ev = n_vlist = 0;
		/* the rules for a station change with a time stamp discontinuity, on hand made logs */
		{
			static const struct { int n; struct { long frame; int named; } e[3]; int old_cached, kind, nviol; const char *key0; } t[] = {
				{ 1, { { 13, 1 } }, 0, ZK_ZAP, 0, "" },                                  /* announced inside the countdown */
				{ 2, { { 50, 0 }, { 53, 1 } }, 0, ZK_ZAP, 0, "" },                        /* old station revoked first */
				{ 3, { { 13, 1 }, { 50, 0 }, { 52, 1 } }, 0, ZK_ZAP, 2, "model:C13:R5:time-gap:network-events-on-change" },
				{ 2, { { 13, 1 }, { 50, 0 } }, 0, ZK_ZAP, 1, "model:C13:R5:time-gap:new-station-revoked" },
				{ 0, { { 0, 0 } }, 0, ZK_ZAP, 1, "model:C13:R5:time-gap:network-events-on-change" },
				{ 1, { { 50, 0 } }, 0, ZK_ZAP, 1, "model:C13:R5:time-gap:network-events-on-change" },
				{ 3, { { 40, 0 }, { 50, 0 }, { 53, 1 } }, 0, ZK_ZAP, 1, "model:C13:R5:time-gap:network-events-on-change" },
				{ 1, { { 13, 1 } }, 1, ZK_ZAP, 1, "model:C13:R5:time-gap:old-pages-kept" },
				{ 2, { { 50, 0 }, { 53, 1 } }, 0, ZK_PLAIN, 1, "model:C13:R5:network-events-on-change" },
				{ 1, { { 13, 1 } }, 0, ZK_PLAIN, 0, "" },
				{ 3, { { 13, 1 }, { 50, 0 }, { 52, 1 } }, 0, ZK_GAP_ONLY, 0, "" },           /* not judged */
				{ 1, { { 80, 1 } }, 0, ZK_START, 1, "model:C13:network-event-without-change" },
			};
			unsigned q;
			for (q = 0; q < sizeof t / sizeof t[0]; q++) {
				memset(zph, 0, sizeof zph); memset(evs_ref, 0, sizeof evs_ref[0] * 4);
				n_zph = 1; zph[0].kind = t[q].kind; zph[0].f_start = zph[0].f_gap = 10; zph[0].f_obs = 70; zph[0].f_end = 90;
				zph[0].probe_cached_at_end = 1; zph[0].old_probe_cached = t[q].old_cached;
				for (k = 0; k < t[q].n; k++) { evs_ref[k].type = VBI_EVENT_NETWORK; evs_ref[k].frame = t[q].e[k].frame; evs_ref[k].net.nuid = t[q].e[k].named ? 7 : 0; }
				n_ev = t[q].n; evs = evs_ref; domain = D_ZAP; desc[0] = 0;
				eval_only = 1; collecting = 1; n_vlist = 0;
				judge_zap();
				eval_only = 0; collecting = 0; evs = evs_lib;
				if (n_vlist != t[q].nviol || (n_vlist && strcmp(vlist[0].key, t[q].key0)))
					vf_fail("selftest:C13", "time gap rules, hand log %u: %d violation(s), first '%s'", q, n_vlist, n_vlist ? vlist[0].key : "");
			}
			n_zph = n_ev = n_vlist = 0;
			/* the recorded deviation: B0 blank at frame 12, discontinuity at 14, N1 at 16, X blank at 14 + 40 = 54, N2 at 56 */
			memset(evs_ref, 0, sizeof evs_ref[0] * 5);
			for (k = 0; k < 5; k++) evs_ref[k].type = VBI_EVENT_NETWORK;
			evs_ref[0].frame = 3; evs_ref[0].net.nuid = 5; evs_ref[1].frame = 12; evs_ref[2].frame = 16; evs_ref[2].net.nuid = 7;
			evs_ref[3].frame = 54; evs_ref[4].frame = 56; evs_ref[4].net.nuid = 7;
			evs = evs_ref; n_ev = 5; n_ts_gap_frames = 1; ts_gap_frames[0] = 14;
			EXPECT("stale countdown pattern", q_stale_countdown_blank(3) && q_stale_countdown_between(16, 56) && q_stale_countdown_within(16, 56) && !q_stale_countdown_blank(1));
			evs_ref[3].frame = 55;
			EXPECT("stale countdown pattern, other frame", !q_stale_countdown_blank(3) && !q_stale_countdown_between(16, 56));
			evs_ref[3].frame = 54; ts_gap_frames[0] = 8;    /* the discontinuity came while station 5 was identified: the seeded break, not this deviation */
			EXPECT("stale countdown pattern, discontinuity before the revocation", !q_stale_countdown_blank(3));
			ts_gap_frames[0] = 14; ts_gap_frames[1] = 15; n_ts_gap_frames = 2;  /* a second irregular frame does not count down */
			EXPECT("stale countdown pattern, two discontinuities", !q_stale_countdown_blank(3));
			evs_ref[3].frame = 55;
			EXPECT("stale countdown pattern, two discontinuities, one frame later", q_stale_countdown_blank(3));
			evs = evs_lib; n_ev = 0; n_ts_gap_frames = 0;
		}
#undef LOAD
#undef EXPECT
	}
	{
		const struct vbi_cni_entry *e = ref_lookup(CR_8301, 0x4902);
		if (!e || strcmp(e->name, "ZDF")) vf_fail("selftest:C13", "table lookup of ZDF");
	}
}

int main(int argc, char **argv) { return vf_main(argc, argv, run_case, selftest); }
