/* C01 - EIA-608 caption / XDS / ITV byte-pair generator, VPS and WSS lines.
 * Pairs are queued per field (0 = line 21, 1 = line 284) with parity applied. */
#ifndef C01_CC_H
#define C01_CC_H
#include "c01_gen.h"

#define CQ_MAX 4096
static uint8_t cq[2][CQ_MAX][2];
static int cq_n[2], cq_head[2];
static unsigned cc_mut_rate;       /* per pair, 1/65536 */

static void cq_push(struct vf_rng *r, int f, unsigned a, unsigned b)
{
	if (cq_n[f] >= CQ_MAX) return;
	cq[f][cq_n[f]][0] = (uint8_t)g_par_odd(a);
	cq[f][cq_n[f]][1] = (uint8_t)g_par_odd(b);
	if (cc_mut_rate && (vf_u32(r) & 0xFFFF) < cc_mut_rate) {
		switch (vf_below(r, 4)) {
		case 0: cq[f][cq_n[f]][vf_below(r, 2)] ^= 0x80; break;
		case 1: cq[f][cq_n[f]][vf_below(r, 2)] ^= (uint8_t)(1u << vf_below(r, 7)); break;
		case 2: cq[f][cq_n[f]][vf_below(r, 2)] = (uint8_t)vf_u32(r); break;
		default: cq[f][cq_n[f]][0] = (uint8_t)vf_u32(r); cq[f][cq_n[f]][1] = (uint8_t)vf_u32(r); break;
		}
	}
	cq_n[f]++;
}

static void cq_cmd(struct vf_rng *r, int f, unsigned a, unsigned b)
{
	cq_push(r, f, a, b);
	if (vf_chance(r, 3, 4)) cq_push(r, f, a, b);        /* control codes are sent twice */
}

static void cq_text(struct vf_rng *r, int f, const char *s)
{
	while (*s) {
		unsigned a = (unsigned char)*s++, b = *s ? (unsigned char)*s++ : 0;
		cq_push(r, f, a, b);
	}
}

static void gen_caption_burst(struct vf_rng *r, int f)
{
	int ch2 = (int)vf_below(r, 2), k, n;
	unsigned c1 = 0x14u | (unsigned)(ch2 << 3);
	switch (vf_below(r, 10)) {
	case 0: /* pop-on caption */
		cq_cmd(r, f, c1, 0x20);                             /* RCL */
		cq_cmd(r, f, c1, 0x2E);                             /* ENM */
		for (k = vf_range(r, 1, 3); k > 0; k--) {
			cq_cmd(r, f, 0x10 + vf_below(r, 8) + (unsigned)(ch2 << 3), 0x40 + vf_below(r, 0x40));   /* PAC */
			for (n = vf_range(r, 1, 16); n > 0; n--) cq_push(r, f, (unsigned)vf_range(r, 0x20, 0x7F), vf_chance(r, 1, 8) ? 0 : (unsigned)vf_range(r, 0x20, 0x7F));
			if (vf_chance(r, 1, 3)) cq_cmd(r, f, 0x11 + (unsigned)(ch2 << 3), 0x20 + vf_below(r, 0x20));  /* mid-row / special */
		}
		cq_cmd(r, f, c1, 0x2C);                             /* EDM */
		cq_cmd(r, f, c1, 0x2F);                             /* EOC */
		break;
	case 1: /* roll-up */
		cq_cmd(r, f, c1, 0x25 + vf_below(r, 3));
		cq_cmd(r, f, 0x10 + vf_below(r, 8) + (unsigned)(ch2 << 3), 0x40 + vf_below(r, 0x40));
		for (k = vf_range(r, 1, 6); k > 0; k--) {
			for (n = vf_range(r, 1, 20); n > 0; n--) cq_push(r, f, (unsigned)vf_range(r, 0x20, 0x7F), (unsigned)vf_range(r, 0x20, 0x7F));
			cq_cmd(r, f, c1, 0x2D);                         /* CR */
		}
		break;
	case 2: /* paint-on + misc */
		cq_cmd(r, f, c1, 0x29);
		for (k = vf_range(r, 1, 8); k > 0; k--) {
			switch (vf_below(r, 6)) {
			case 0: cq_cmd(r, f, c1, 0x21); break;                                /* backspace */
			case 1: cq_cmd(r, f, c1, 0x24); break;                                /* DER */
			case 2: cq_cmd(r, f, 0x17 + (unsigned)(ch2 << 3), 0x21 + vf_below(r, 3)); break; /* tab */
			case 3: cq_cmd(r, f, 0x17 + (unsigned)(ch2 << 3), 0x2D + vf_below(r, 3)); break; /* optional attrs */
			case 4: cq_cmd(r, f, 0x12 + vf_below(r, 2) + (unsigned)(ch2 << 3), 0x20 + vf_below(r, 0x20)); break; /* extended chars */
			default: cq_cmd(r, f, c1, 0x28); break;                               /* flash on */
			}
			cq_push(r, f, (unsigned)vf_range(r, 0x20, 0x7F), (unsigned)vf_range(r, 0x20, 0x7F));
		}
		break;
	case 3: /* text mode */
		cq_cmd(r, f, c1, vf_chance(r, 1, 2) ? 0x2A : 0x2B);
		for (k = vf_range(r, 1, 20); k > 0; k--) {
			for (n = vf_range(r, 1, 20); n > 0; n--) cq_push(r, f, (unsigned)vf_range(r, 0x20, 0x7F), (unsigned)vf_range(r, 0x20, 0x7F));
			if (vf_chance(r, 2, 3)) cq_cmd(r, f, c1, 0x2D);
		}
		break;
	case 4: /* any control code */
		for (k = vf_range(r, 1, 10); k > 0; k--) cq_cmd(r, f, 0x10 + vf_below(r, 16), 0x20 + vf_below(r, 0x60));
		break;
	case 5: /* nulls */
		for (k = vf_range(r, 1, 10); k > 0; k--) cq_push(r, f, 0, 0);
		break;
	case 6: /* all commands of the miscellaneous group in order */
		for (k = 0; k < 16; k++) { cq_cmd(r, f, c1, 0x20 + (unsigned)k); cq_push(r, f, 'A' + (unsigned)k, 'a' + (unsigned)k); }
		break;
	default:
		for (n = vf_range(r, 1, 30); n > 0; n--) cq_push(r, f, vf_below(r, 128), vf_below(r, 128));
	}
}

/* ITV (ATVEF transport A) trigger on T2 of field 1 */
static void gen_itv(struct vf_rng *r)
{
	static const char *const urls[] = { "http://www.example.com/tv", "http://a.b/c?d=e", "lid://x/y", "http://*.wild/card", "ftp://no", "",
		"http://aaaaaaaaaaaaaaaaaaaaaaaaaaaaaaaaaaaaaaaaaaaaaaaaaaaaaaaaaaaaaaaaaaaaaaaaaaaaaaaaaaaaaaaaaaaaaaaaaaaaaaaaaaaaaaaaaaaaaaaaaaaaaaaaaaaaaaaaaaaaaaaaaa/bbbbbbbbbbbbbbbbbbbbbbbbbbbbbbbbbbbbbbbbbbbbbbbbbbbbbbbbbbbbbbbbbbbbbbbbbbbbbbbbbbbbbbbbbbbbbbbbbbbbbbbbbbbbbbbbbbbbbbbbbbbbbbbbbbbbbbbbbbbbbbbbbbbbbbbbbbbbbbb" };
	static const char *const attrs[] = { "n:Name", "name:Some Programme", "e:20301231T235959", "expires:20301231", "e:x", "s:go()", "script:\"]\"x",
		"t:p", "type:network", "type:bogus", "tve:1.0", "tve-level:1", "v:w", "v:t", "view:", "auto:true", "auto:1", "time:20300101T000000",
		"time:19700101", "time:99999999T999999", "network", "station", "sponsor", "operator", "program", "x", "n:%41", "n:%00", "n:%4" };
	char s[1400];
	int n = 0, k;
	if (vf_chance(r, 9, 10)) n += snprintf(s + n, sizeof s - (size_t)n, "<%s>", urls[vf_below(r, sizeof urls / sizeof urls[0])]);
	else n += snprintf(s + n, sizeof s - (size_t)n, "<unterminated");
	for (k = vf_range(r, 0, 4); k > 0; k--)
		n += snprintf(s + n, sizeof s - (size_t)n, "[%s]", attrs[vf_below(r, sizeof attrs / sizeof attrs[0])]);
	if (vf_chance(r, 1, 16)) { memset(s + n, 'a' + (int)vf_below(r, 26), 300); s[n] = '['; s[n + 1] = 'n'; s[n + 2] = ':'; n += 300; s[n++] = ']'; }
	if (vf_chance(r, 4, 5)) {
		unsigned cs = g_trigger_checksum(s, n);
		if (vf_chance(r, 1, 8)) cs ^= 1u << vf_below(r, 16);
		n += snprintf(s + n, sizeof s - (size_t)n, "[%04X]", cs);
	}
	s[n] = 0;
	cq_cmd(r, 0, 0x1C, 0x2A);                 /* Text Restart, channel 2 -> T2 */
	cq_text(r, 0, s);
	if (vf_chance(r, 7, 8)) cq_cmd(r, 0, 0x1C, 0x2D);   /* CR terminates the trigger */
}

/* XDS packet on field 2, optionally interrupted by caption and resumed */
static void gen_xds(struct vf_rng *r)
{
	static const uint8_t types[] = { 0x01, 0x02, 0x03, 0x04, 0x05, 0x06, 0x07, 0x08, 0x09, 0x0A, 0x0B, 0x0C, 0x0D, 0x10, 0x11, 0x17, 0x18, 0x40, 0x00, 0x7F };
	int cls = vf_chance(r, 9, 10) ? (int)vf_below(r, 4) : (int)vf_below(r, 7);
	int type = vf_chance(r, 5, 6) ? types[vf_below(r, sizeof types)] : (int)vf_below(r, 128);
	int len, i, pos = 0;
	unsigned sum, c1 = (unsigned)(cls * 2 + 1);
	uint8_t d[44];
	switch (vf_below(r, 6)) {
	case 0: len = vf_range(r, 29, 36); break;
	case 1: len = vf_range(r, 0, 3); break;
	case 2: len = vf_range(r, 33, 42); break;
	default: len = vf_range(r, 1, 32); break;
	}
	for (i = 0; i < len; i++) d[i] = (uint8_t)(vf_chance(r, 1, 3) ? (0x40 | vf_below(r, 64)) : (unsigned)vf_range(r, 0x20, 0x7F));
	cq_push(r, 1, c1, (unsigned)type);
	sum = c1 + (unsigned)type;
	while (pos < len) {
		unsigned a = d[pos++], b = (pos < len) ? d[pos++] : 0;
		if (vf_chance(r, 1, 10)) {           /* interruption by a caption code, then continue */
			cq_cmd(r, 1, 0x14 + 8 * vf_below(r, 2), 0x20 + vf_below(r, 16));
			if (vf_chance(r, 1, 3)) gen_caption_burst(r, 1);
			cq_push(r, 1, c1 + 1, (unsigned)type);
		}
		cq_push(r, 1, a, b);
		sum += a + b;
	}
	sum += 0x0F;
	{
		unsigned ck = (128 - (sum & 0x7F)) & 0x7F;
		if (vf_chance(r, 1, 8)) ck = (ck + 1 + vf_below(r, 126)) & 0x7F;
		if (!vf_chance(r, 1, 12)) cq_push(r, 1, 0x0F, ck);
	}
}

/* ---------------- VPS / WSS ---------------- */

static void gen_vps(struct vf_rng *r, uint8_t *d, int idx)
{
	/* EN 300 231: 13 bytes (bytes 3..15 of the line); CNI spread over bytes 11,13,14 (index 8,10,11) */
	static const unsigned cnis[] = { 0x0DC1, 0x0DC2, 0x0D94, 0x0481, 0x04C1, 0x0000, 0x0FFF, 0x0D8F };
	unsigned cni = cnis[(unsigned)idx % 8];
	{ int i; for (i = 0; i < 13; i++) d[i] = (uint8_t)(idx * 17 + i * 29); }
	(void)r;
	d[10] = (uint8_t)((d[10] & 0xFC) | ((cni >> 10) & 3));
	d[11] = (uint8_t)(((cni >> 2) & 0xC0) | (cni & 0x3F));      /* b[11]: country 2 bits + network 6 bits */
	d[8]  = (uint8_t)((d[8] & 0x3F) | (cni & 0xC0));
	d[2]  = (uint8_t)((d[2] & 0xF0) | ((cni >> 12) & 0x0F));
	/* PIL etc. left random but stable for the index so that the "received twice" rule can pass */
	d[9] = (uint8_t)(idx * 37); d[12] = (uint8_t)(idx * 11); d[3] = (uint8_t)idx;
	d[0] = d[1] = d[4] = d[5] = d[6] = d[7] = 0xFF;
}

#endif
