/* C15 - shared helpers: independent Hamming 8/4 coder (EN 300 706 section 8.2),
 * nothing here is taken from /repo/src/hamm.c. */
#ifndef C15_COMMON_H
#define C15_COMMON_H

#include "vf.h"
#include <stdint.h>
#include <string.h>
#include <stdlib.h>

/* Hamming 8/4, bit 0 transmitted first: P1 D1 P2 D2 P3 D3 P4 D4.
 * P1 = 1^D1^D3^D4, P2 = 1^D1^D2^D4, P3 = 1^D1^D2^D3, P4 makes the byte odd. */
static inline uint8_t c15_ham84(unsigned v)
{
	unsigned d1 = v & 1, d2 = (v >> 1) & 1, d3 = (v >> 2) & 1, d4 = (v >> 3) & 1;
	unsigned p1 = 1 ^ d1 ^ d3 ^ d4;
	unsigned p2 = 1 ^ d1 ^ d2 ^ d4;
	unsigned p3 = 1 ^ d1 ^ d2 ^ d3;
	unsigned p4 = 1 ^ p1 ^ d1 ^ p2 ^ d2 ^ p3 ^ d3 ^ d4;
	return (uint8_t)(p1 | d1 << 1 | p2 << 2 | d2 << 3 | p3 << 4 | d3 << 5 | p4 << 6 | d4 << 7);
}

static inline int c15_popcount8(unsigned x)
{
	int n = 0;
	for (x &= 0xff; x; x &= x - 1) n++;
	return n;
}

/* Decoder by minimum distance: distance 0 or 1 to a code word -> its value,
 * otherwise (distance 2 to several code words) -> -1. */
static inline int c15_unham84(uint8_t b)
{
	unsigned v;
	for (v = 0; v < 16; v++)
		if (c15_popcount8((unsigned)(c15_ham84(v) ^ b)) <= 1)
			return (int)v;
	return -1;
}

/* fault helpers */
static inline uint8_t c15_flip1(struct vf_rng *r, uint8_t b) { return (uint8_t)(b ^ (1u << vf_below(r, 8))); }
static inline uint8_t c15_flip2(struct vf_rng *r, uint8_t b)
{
	unsigned i = vf_below(r, 8), j = vf_below(r, 7);
	if (j >= i) j++;
	return (uint8_t)(b ^ (1u << i) ^ (1u << j));
}

/* an ordinary Teletext packet: magazine mag (0..7, 0 = magazine 8), row y (0..31), odd-parity text */
static inline void c15_plain_packet(struct vf_rng *r, uint8_t out[42], int mag, int y)
{
	int i;
	out[0] = c15_ham84((unsigned)(mag | ((y & 1) << 3)));
	out[1] = c15_ham84((unsigned)(y >> 1));
	for (i = 2; i < 42; i++) {
		unsigned c = 0x20 + vf_below(r, 0x5f);
		out[i] = (uint8_t)((c15_popcount8(c) & 1) ? c : (c | 0x80));
	}
}

int  c15_idl_case(struct vf_rng *r, long idx);
int  c15_idl_long_case(struct vf_rng *r, long idx);
int  c15_pfc_long_case(struct vf_rng *r, long idx);
void c15_idl_selftest(void);
int  c15_pfc_case(struct vf_rng *r, long idx);
void c15_pfc_selftest(void);

#endif
