/* C16 oracle (a): the four output paths of every export module agree byte for
 * byte; vbi_export_mem never writes outside [buffer, buffer+size) and returns
 * the size needed; plus oracle (b) for the text module. */
#ifndef C16_EXP_H
#define C16_EXP_H

static const char *const text_menu_charsets[11] = {
	"ASCII", "ISO-8859-1", "ISO-8859-2", "ISO-8859-4", "ISO-8859-5", "ISO-8859-7", "ISO-8859-8", "ISO-8859-9", "KOI8-R", "KOI8-U", "UTF-8"
};

struct optvec {
	const char *mod;
	int reveal;
	const char *network;   /* NULL: leave default */
	const char *creator;   /* NULL: leave default */
	int format; const char *charset; const char *gfx; int control;   /* text (gfx also html) */
	int color, header;                                                /* html */
	int aspect, transparency, titled;                                 /* ppm, png, xpm */
	int via_string;
	char cls[128];
};

static unsigned parse_gfx_chr(const char *s)
{
	char *end;
	long v;
	if (strlen(s) == 1) return (unsigned char)s[0];
	v = strtol(s, &end, 0);
	if (end == s) return (unsigned char)s[0];
	return (unsigned)v;
}

static int is_gfx_mod(const char *m) { return !strcmp(m, "ppm") || !strcmp(m, "png") || !strcmp(m, "xpm"); }

static void gen_optvec(struct vf_rng *r, struct optvec *o, const char *mod)
{
	static const char *nets[] = { NULL, "", "ZDF", "a\"b<&>c", "Net with spaces 123" };
	static const char *creators[] = { NULL, NULL, "c16 \"harness\" 1.0", "" };
	static const char *simple_nets[] = { NULL, "ZDF", "ARD1" };
	static const char *gfxs[] = { "#", " ", "*", "0x2588", "64", "0x40", "x", "0xE9" };
	static const char *charsets[] = { "", "", "UTF-8", "ISO-8859-1", "ASCII", "UCS-2", "KOI8-R", "ISO-8859-15", "C16-NO-SUCH-CHARSET" };
	memset(o, 0, sizeof *o);
	o->mod = mod;
	o->via_string = vf_chance(r, 1, 3);
	o->reveal = (int)vf_below(r, 2);
	o->network = o->via_string ? simple_nets[vf_below(r, 3)] : nets[vf_below(r, 5)];
	o->creator = o->via_string ? NULL : creators[vf_below(r, 4)];
	o->format = (int)vf_below(r, 11);
	o->charset = charsets[vf_below(r, vf_chance(r, 1, 12) ? 9 : 8)];
	o->gfx = gfxs[vf_below(r, 8)];
	o->control = vf_chance(r, 2, 3) ? 0 : vf_range(r, 1, 2);
	o->color = (int)vf_below(r, 2); o->header = (int)vf_below(r, 2);
	o->aspect = (int)vf_below(r, 2); o->transparency = (int)vf_below(r, 2); o->titled = (int)vf_below(r, 2);
	if (!strcmp(mod, "text"))
		snprintf(o->cls, sizeof o->cls, "cs=%s ctl=%d gfx=%s rev=%d", o->charset[0] ? o->charset : text_menu_charsets[o->format], o->control,
			 o->gfx[0] == '0' ? "code" : "chr", o->reveal);
	else if (!strcmp(mod, "html"))
		snprintf(o->cls, sizeof o->cls, "color=%d header=%d rev=%d net=%d", o->color, o->header, o->reveal, o->network && o->network[0]);
	else
		snprintf(o->cls, sizeof o->cls, "aspect=%d transp=%d titled=%d rev=%d net=%d", o->aspect, o->transparency, o->titled, o->reveal, o->network && o->network[0]);
}

static vbi_export *make_export(struct optvec *o)
{
	vbi_export *e;
	char *err = NULL;
	int ok = 1;
	vf_phase("vbi_export_new");
	if (o->via_string) {
		char s[400];
		int n = snprintf(s, sizeof s, "%s; reveal=%d", o->mod, o->reveal);
		if (o->network) n += snprintf(s + n, sizeof s - (size_t)n, ", network=%s", o->network);
		if (!strcmp(o->mod, "text")) {
			n += snprintf(s + n, sizeof s - (size_t)n, ", format=%d, control=%d, gfx_chr='%s'", o->format, o->control, o->gfx);
			if (o->charset[0]) n += snprintf(s + n, sizeof s - (size_t)n, ", charset=%s", o->charset);
		} else if (!strcmp(o->mod, "html"))
			n += snprintf(s + n, sizeof s - (size_t)n, ", gfx_chr=\"%s\"; color=%d header = %d", o->gfx, o->color, o->header);
		else if (!strcmp(o->mod, "ppm"))
			n += snprintf(s + n, sizeof s - (size_t)n, ",aspect=%d", o->aspect);
		else
			n += snprintf(s + n, sizeof s - (size_t)n, ",aspect=%d,transparency=%d,titled=%d", o->aspect, o->transparency, o->titled);
		e = vbi_export_new(s, &err);
		if (!e) { vf_fail("harness:export-new", "vbi_export_new(\"%s\") failed: %s", s, err ? err : "?"); free(err); return NULL; }
		return e;
	}
	e = vbi_export_new(o->mod, &err);
	if (!e) { vf_fail("harness:export-new", "vbi_export_new(\"%s\") failed: %s", o->mod, err ? err : "?"); free(err); return NULL; }
	vf_phase("vbi_export_option_set");
	ok &= vbi_export_option_set(e, "reveal", o->reveal);
	if (o->network) ok &= vbi_export_option_set(e, "network", o->network);
	if (o->creator) ok &= vbi_export_option_set(e, "creator", o->creator);
	if (!strcmp(o->mod, "text")) {
		ok &= vbi_export_option_menu_set(e, "format", o->format);
		ok &= vbi_export_option_menu_set(e, "control", o->control);
		ok &= vbi_export_option_set(e, "gfx_chr", o->gfx);
		ok &= vbi_export_option_set(e, "charset", o->charset);
	} else if (!strcmp(o->mod, "html")) {
		ok &= vbi_export_option_set(e, "gfx_chr", o->gfx);
		ok &= vbi_export_option_set(e, "color", o->color);
		ok &= vbi_export_option_set(e, "header", o->header);
	} else {
		ok &= vbi_export_option_set(e, "aspect", o->aspect);
		if (strcmp(o->mod, "ppm")) {
			ok &= vbi_export_option_set(e, "transparency", o->transparency);
			ok &= vbi_export_option_set(e, "titled", o->titled);
		}
	}
	if (!ok) { vf_fail("harness:option-set", "setting a documented option of module %s failed: %s", o->mod, vbi_export_errstr(e)); vbi_export_delete(e); return NULL; }
	return e;
}

static uint8_t *read_file(const char *name, size_t *n)
{
	FILE *fp = fopen(name, "rb");
	uint8_t *b;
	long sz;
	if (!fp) { *n = 0; return NULL; }
	fseek(fp, 0, SEEK_END); sz = ftell(fp); fseek(fp, 0, SEEK_SET);
	b = malloc((size_t)sz + 1);
	*n = fread(b, 1, (size_t)sz, fp);
	fclose(fp);
	return b;
}

static size_t first_diff(const uint8_t *a, size_t na, const uint8_t *b, size_t nb)
{
	size_t i, n = na < nb ? na : nb;
	for (i = 0; i < n; i++) if (a[i] != b[i]) return i;
	return n;
}

static char ref_err[300];
static void cmp_target(const char *mod, const struct optvec *o, const char *tname, int ref_ok, const uint8_t *ref, size_t ref_n,
		       int ok, const uint8_t *d, size_t n)
{
	char key[80];
	if (!!ok != !!ref_ok) {
		snprintf(key, sizeof key, "model:C16:targets-differ:%s", mod);
		vf_fail(key, "options {%s}: vbi_export_alloc %s%s%s but %s %s", o->cls, ref_ok ? "succeeded" : "failed (", ref_ok ? "" : ref_err, ref_ok ? "" : ")", tname, ok ? "succeeded" : "failed");
		return;
	}
	if (!ok) return;
	if (n != ref_n || memcmp(ref, d, n)) {
		size_t at = first_diff(ref, ref_n, d, n);
		snprintf(key, sizeof key, "model:C16:targets-differ:%s", mod);
		vf_fail(key, "options {%s}: %s wrote %zu bytes, vbi_export_alloc %zu; first difference at offset %zu (alloc %s.. vs %s..)", o->cls, tname, n, ref_n, at,
			vf_hex(ref + at, ref_n - at > 16 ? 16 : ref_n - at), vf_hex(d + at, n - at > 16 ? 16 : n - at));
	}
}

static const char *size_rel(size_t s, size_t needed)
{
	if (s == 0) return "0";
	if (s + 1 == needed) return "n-1";
	if (s == needed) return "n";
	if (s == needed + 1) return "n+1";
	return s < needed ? "lt" : "gt";
}

static void oracle_export_module(struct vf_rng *r, const char *mod, long nsizes, long all_below)
{
	struct optvec o;
	vbi_export *e;
	void *ref = NULL;
	size_t ref_n = 0;
	int ref_ok;
	char phase[64], key[80], fname[64];

	gen_optvec(r, &o, mod);
	e = make_export(&o);
	if (!e) return;
	if (!strcmp(mod, "html")) vf_count(o.header ? "html_exports_with_header" : "html_exports_without_header", 1);
	if (PG_boxed && (!strcmp(mod, "png") || !strcmp(mod, "xpm"))) vf_count(o.transparency ? "boxed_page_image_exports_transparent" : "boxed_page_image_exports_opaque", 1);

	snprintf(phase, sizeof phase, "vbi_export_alloc:%s", mod);
	vf_phase(phase);
	ref_ok = NULL != vbi_export_alloc(e, &ref, &ref_n, &PG);
	vf_count("exports_alloc", 1);
	if (ref_ok) {   /* documented: can be called repeatedly without changing the export state */
		void *again = NULL; size_t again_n = 0;
		int ok2 = NULL != vbi_export_alloc(e, &again, &again_n, &PG);
		cmp_target(mod, &o, "a second vbi_export_alloc", ref_ok, ref, ref_n, ok2, again, again_n);
		free(again);
	} else {
		snprintf(ref_err, sizeof ref_err, "%s", vbi_export_errstr(e));
		vf_count("exports_failing", 1);
	}

	/* stdio to a memory stream */
	{
		char *mb = NULL; size_t mn = 0;
		FILE *fp = open_memstream(&mb, &mn);
		int ok;
		snprintf(phase, sizeof phase, "vbi_export_stdio:%s", mod);
		vf_phase(phase);
		ok = vbi_export_stdio(e, fp, &PG);
		fclose(fp);
		cmp_target(mod, &o, "vbi_export_stdio(memstream)", ref_ok, ref, ref_n, ok, (uint8_t *)mb, mn);
		free(mb);
		vf_count("exports_stdio", 1);
	}
	/* stdio to a real file */
	{
		FILE *fp;
		uint8_t *d; size_t n; int ok;
		snprintf(fname, sizeof fname, "c16-%ld-stdio.tmp", (long)getpid());
		fp = fopen(fname, "wb");
		if (fp) {
			ok = vbi_export_stdio(e, fp, &PG);
			if (fclose(fp)) ok = 0;
			d = read_file(fname, &n);
			cmp_target(mod, &o, "vbi_export_stdio(file)", ref_ok, ref, ref_n, ok, d, n);
			free(d);
			unlink(fname);
			vf_count("exports_stdio", 1);
		}
	}
	/* file */
	{
		uint8_t *d; size_t n; int ok;
		snprintf(fname, sizeof fname, "c16-%ld-file.tmp", (long)getpid());
		snprintf(phase, sizeof phase, "vbi_export_file:%s", mod);
		vf_phase(phase);
		ok = vbi_export_file(e, fname, &PG);
		d = read_file(fname, &n);
		cmp_target(mod, &o, "vbi_export_file", ref_ok, ref, ref_n, ok, d, n);
		free(d);
		unlink(fname);
		vf_count("exports_file", 1);
	}
	vf_sig("exp mod=%s opt={%s} ok=%d cc=%d", mod, o.cls, ref_ok, PG_is_cc);

	/* caller buffer of every size */
	snprintf(phase, sizeof phase, "vbi_export_mem:%s", mod);
	vf_phase(phase);
	if (!ref_ok) {
		uint8_t *b = exact_alloc(64);
		ssize_t rr = vbi_export_mem(e, b, 64, &PG);
		if (rr >= 0) {
			snprintf(key, sizeof key, "model:C16:targets-differ:%s", mod);
			vf_fail(key, "options {%s}: vbi_export_alloc failed but vbi_export_mem returned %zd", o.cls, rr);
		}
		exact_free(b);
	} else {
		size_t needed = ref_n, cap = needed + 1, k, total;
		int all = (long)needed <= all_below;
#if !C16_ASAN
		uint8_t *G = vf_guard_alloc(cap, 1);
#endif
		total = all ? cap + 1 : (size_t)nsizes;
		for (k = 0; k < total; k++) {
			size_t size;
			uint8_t *buf;
			ssize_t rr;
			if (all) size = k;
			else switch (k) {
				case 0: size = needed; break;
				case 1: size = needed ? needed - 1 : 0; break;
				case 2: size = needed + 1; break;
				case 3: size = 0; break;
				case 4: size = 1; break;
				case 5: size = needed / 2; break;
				default: size = vf_chance(r, 1, 4) ? (needed > 40 ? needed - vf_below(r, 40) : 0)
					: vf_chance(r, 1, 3) ? vf_below(r, needed < 300 ? (unsigned)needed + 1 : 300) : vf_below(r, (unsigned)needed + 1);
			}
#if C16_ASAN
			buf = exact_alloc(size);
#else
			buf = G + cap - size;
			memset(G, 0xC3, cap - size);
#endif
			memset(buf, 0x3C, size);
			rr = vbi_export_mem(e, buf, size, &PG);
			vf_count("exports_mem", 1);
			if (rr != (ssize_t)needed) {
				snprintf(key, sizeof key, "model:C16:mem-return:%s", mod);
				vf_fail(key, "options {%s}: vbi_export_mem with a %zu byte buffer returned %zd, size needed is %zu", o.cls, size, rr, needed);
			} else if (size >= needed && memcmp(buf, ref, needed)) {
				snprintf(key, sizeof key, "model:C16:mem-content:%s", mod);
				vf_fail(key, "options {%s}: vbi_export_mem with a %zu byte buffer (needed %zu) differs from vbi_export_alloc at offset %zu", o.cls, size, needed,
					first_diff(buf, needed, ref, needed));
			}
#if C16_ASAN
			exact_free(buf);
#else
			{
				size_t j;
				for (j = 0; j < cap - size; j++)
					if (G[j] != 0xC3) {
						snprintf(key, sizeof key, "model:C16:mem-underrun:%s", mod);
						vf_fail(key, "options {%s}: vbi_export_mem with a %zu byte buffer wrote %zu bytes before the buffer", o.cls, size, cap - size - j);
						break;
					}
			}
#endif
			vf_sig("mem mod=%s rel=%s", mod, size_rel(size, needed));
			if (vf_failed() > 6) break;
		}
#if !C16_ASAN
		vf_guard_free(G);
		{       /* NULL buffer: the library treats it as size 0 */
			ssize_t rr = vbi_export_mem(e, NULL, vf_below(r, 2) ? 0 : 100, &PG);
			if (rr != (ssize_t)needed) {
				snprintf(key, sizeof key, "model:C16:mem-return:%s", mod);
				vf_fail(key, "options {%s}: vbi_export_mem(NULL buffer) returned %zd, size needed is %zu", o.cls, rr, needed);
			}
			vf_sig("mem mod=%s rel=null", mod);
		}
#endif
	}

	/* oracle (b) for the text module */
	if (ref_ok && !strcmp(mod, "text")) {
		struct cs_info *cs = cs_get(o.charset[0] ? o.charset : text_menu_charsets[o.format]);
		unsigned g = parse_gfx_chr(o.gfx);
		if (cs_valid(cs) && !(cs->wide && o.control > 0)) {
			char what[160];
			snprintf(what, sizeof what, "text export {%s}", o.cls);
			text_oracle("text", cs, ref, ref_n, 1, g, o.control, 0, 0, PG.columns, PG.rows, 1, what);
			vf_count("text_exports_decoded", 1);
			vf_count("text_cells_compared", PG.columns * PG.rows);
		}
	}
	free(ref);
	vf_phase("vbi_export_delete");
	vbi_export_delete(e);
}

#endif
