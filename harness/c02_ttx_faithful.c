/* C02 - a transmitted Teletext page is cached and fetched exactly as sent.
 * C03 - transmission errors are corrected or contained (--mode faults, see c03_faults.h).
 *
 * An independent transmitter (c02_ttx.h) generates a network: pages 100-899,
 * subpages none or 01-79, a consistent header, national option bits, rows with
 * all Level 1 spacing attributes, FLOF links, erase / no-erase retransmissions.
 * A multiplex scheduler emits the packets in serial mode (C11=1, page after
 * page) or in parallel mode (magazine streams interleaved packet by packet).
 * A transmitter-side model knows for every (page, subpage) which rows the cache
 * must hold and where each transmission terminates (next header with another
 * page number in the same magazine).  At every termination point the real
 * decoder is asked: event log, wildcard fetch, fetch at Level 1.0 and 1.5,
 * vbi_is_cached, vbi_cache_hi_subno, FLOF links; every cell is compared with
 * the Level 1 display model written from EN 300 706 section 12.2.
 */
#include "vf.h"
#include <stdlib.h>
#include <string.h>
#include <stdio.h>
#include "libzvbi.h"
#include "c02_ttx.h"

#define MAXTX   160
#define MAXPK   6000
#define MAXMP   200
#define MAXX26  4

struct tx {
	int pgno, subno, mag;
	unsigned ctl;                 /* C4..C11 */
	int national;
	uint8_t hdr[32];              /* columns 8..39 */
	uint32_t rows_sent;           /* bit r: row r (1..24) transmitted */
	uint8_t row[25][40];
	int order[24], n_order;
	int has_flof, flof_at;        /* flof_at: after how many rows X/27 is sent */
	struct tx_link link[6];
	/* C03 extras */
	int n_x26; unsigned x26[MAXX26][13]; uint8_t x26_pos[25][40];
	int has_x28;
	uint32_t prev_rows;           /* rows the cache held for this key before this transmission (0 if erased) */
	/* scheduler */
	int hdr_pos, term_pos;
	int events;
};

struct mpage {
	int used, pgno, subno, national;
	uint32_t have;
	uint8_t row[25][40];
	uint8_t hdr[32];
	int has_flof;
	struct tx_link link[6];
};

static struct tx txs[MAXTX];
static int n_tx;
static struct ttx_pkt pks[MAXPK];
static int n_pk;
static struct mpage mps[MAXMP];
static int n_mp;

static int net_serial, net_region;
static uint8_t hdr_tmpl[24];
static int hdr_pn_off;

/* ------------------------------------------------------------------ */
/* content generator                                                    */

static const char *const words[] = { "NEWS", "Sport", "weather", "INDEX", "tv", "Radio", "Markets", "travel", "A-Z",
	"Subtitles", "Film", "Lottery", "x", "Zz", "~{|}", "[\\]^_`", "#$@", "more>", "p.", "&", "...", "!?" };

static int bcd_ok(int v) { return (v & 15) <= 9 && ((v >> 4) & 15) <= 9; }

static unsigned rnd_printable(struct vf_rng *r)
{
	switch (vf_below(r, 6)) {
	case 0: return ns_pos[vf_below(r, 13)];
	case 1: return (unsigned)vf_range(r, 0x20, 0x7F);
	case 2: return 0x7F;
	default: return (unsigned)vf_range(r, 0x41, 0x7A);
	}
}

static unsigned rnd_attr(struct vf_rng *r)
{
	/* every spacing attribute except 0/0 and 1/0 (black foreground: table 26
	 * makes these level dependent, see the design note) */
	static const uint8_t a[] = { 1, 2, 3, 4, 5, 6, 7, 8, 9, 0x0C, 0x0D, 0x0E, 0x0F, 0x11, 0x12, 0x13, 0x14, 0x15, 0x16, 0x17,
		0x18, 0x19, 0x1A, 0x1B, 0x1C, 0x1D, 0x1E, 0x1F, 0x1E, 0x1F, 0x1D, 0x0D, 0x0C };
	return a[vf_below(r, sizeof a)];
}

static unsigned attr_seen;   /* classes of attributes generated in this network (signature) */
#define AS_MOSAIC 1
#define AS_SIZE 2
#define AS_BOX 4
#define AS_CONCEAL_FLASH 8
#define AS_ESC_BG 16

static void note_attr(const uint8_t *row, int n)
{
	int i;
	for (i = 0; i < n; i++) {
		unsigned c = row[i];
		if ((c >= 0x11 && c <= 0x17) || c == 0x1E || c == 0x1F || c == 0x19 || c == 0x1A) attr_seen |= AS_MOSAIC;
		else if (c >= 0x0C && c <= 0x0F) attr_seen |= AS_SIZE;
		else if (c == 0x0A || c == 0x0B) attr_seen |= AS_BOX;
		else if (c == 0x18 || c == 0x08 || c == 0x09) attr_seen |= AS_CONCEAL_FLASH;
		else if (c == 0x1B || c == 0x1C || c == 0x1D) attr_seen |= AS_ESC_BG;
	}
}

/* Make a row well defined by the standard: no double height/size in rows 0, 23, 24,
 * no lone box codes, at least one real double height cell if the attribute occurs. */
static void sanitize_row(uint8_t *row, int first, int rowno)
{
	struct l1_cell cells[40];
	uint8_t buf[40];
	int c, ndh;
	for (c = first; c < 40; c++) {
		if ((row[c] == 0x0D || row[c] == 0x0F) && (rowno < 1 || rowno > 22)) row[c] = 0x0E;
		if (row[c] == 0x0D && c > 38) row[c] = 0x20;
		if (row[c] == 0x0F && c > 37) row[c] = 0x20;
		if (row[c] == 0x00 || row[c] == 0x10) row[c] = 0x07;
	}
	for (c = first; c < 40; c++)
		if (row[c] == 0x0A || row[c] == 0x0B) {
			int run = 1;
			while (c + run < 40 && row[c + run] == row[c]) run++;
			if (run == 1) {
				if (c + 1 < 40) { row[c + 1] = row[c]; run = 2; }
				else row[c] = 0x20;
			}
			c += run - 1;
		}
	memset(buf, 0x20, 40);
	memcpy(buf + first, row + first, (size_t)(40 - first));
	if (l1_row(buf, first, NS_ENGLISH, 0, cells, &ndh) && ndh == 0)
		for (c = first; c < 40; c++)
			if (row[c] == 0x0D || row[c] == 0x0F) row[c] = 0x20;
}

static void gen_row(struct vf_rng *r, uint8_t *row, int rowno, int boxy)
{
	int c = 0, style = (int)vf_below(r, 8);
	memset(row, 0x20, 40);
	switch (style) {
	case 0: /* soup */
		for (c = 0; c < 40; c++)
			row[c] = (uint8_t)(vf_chance(r, 1, 4) ? rnd_attr(r) : rnd_printable(r));
		break;
	case 1: case 2: /* words with colour codes */
		while (c < 40) {
			const char *w = words[vf_below(r, sizeof words / sizeof words[0])];
			if (vf_chance(r, 1, 2) && c < 40) row[c++] = (uint8_t)vf_range(r, 1, 7);
			while (*w && c < 40) row[c++] = (uint8_t)*w++;
			if (c < 40) row[c++] = 0x20;
		}
		break;
	case 3: /* mosaics with hold / release / separated and mode switches */
		row[c++] = (uint8_t)vf_range(r, 0x11, 0x17);
		while (c < 40) {
			switch (vf_below(r, 12)) {
			case 0: row[c++] = 0x1E; break;
			case 1: row[c++] = 0x1F; break;
			case 2: row[c++] = (uint8_t)vf_range(r, 0x11, 0x17); break;
			case 3: row[c++] = (uint8_t)vf_range(r, 1, 7); break;
			case 4: row[c++] = (uint8_t)(0x19 + vf_below(r, 2)); break;
			case 5: row[c++] = (uint8_t)(vf_chance(r, 1, 2) ? 0x1D : 0x1C); break;
			case 6: row[c++] = (uint8_t)(0x0C + vf_below(r, 4)); break;
			case 7: row[c++] = (uint8_t)vf_range(r, 0x40, 0x5F); break;
			default: row[c++] = (uint8_t)(vf_chance(r, 1, 2) ? vf_range(r, 0x20, 0x3F) : vf_range(r, 0x60, 0x7F)); break;
			}
		}
		break;
	case 4: /* sizes */
		while (c < 40) {
			if (vf_chance(r, 1, 5)) row[c++] = (uint8_t)(0x0C + vf_below(r, 4));
			else if (vf_chance(r, 1, 10)) row[c++] = (uint8_t)vf_range(r, 1, 7);
			else row[c++] = (uint8_t)rnd_printable(r);
		}
		break;
	case 5: /* attributes at the edges */
		for (c = 0; c < 40; c++) row[c] = (uint8_t)rnd_printable(r);
		row[0] = (uint8_t)rnd_attr(r); row[1] = (uint8_t)rnd_attr(r);
		row[38] = (uint8_t)rnd_attr(r); row[39] = (uint8_t)rnd_attr(r);
		if (vf_chance(r, 1, 2)) row[vf_range(r, 2, 37)] = (uint8_t)rnd_attr(r);
		break;
	case 6: /* conceal / flash / esc / background */
		while (c < 40) {
			static const uint8_t a[] = { 0x18, 0x08, 0x09, 0x1B, 0x1C, 0x1D, 1, 2, 3, 4, 5, 6, 7, 0x13, 0x16 };
			if (vf_chance(r, 1, 5)) row[c++] = a[vf_below(r, sizeof a)];
			else row[c++] = (uint8_t)rnd_printable(r);
		}
		break;
	default: /* plain text */
		for (c = 0; c < 40; c++) row[c] = (uint8_t)(vf_chance(r, 1, 6) ? 0x20 : rnd_printable(r));
		break;
	}
	if (boxy || vf_chance(r, 1, 10)) {
		int a = vf_range(r, 0, 30), b = a + vf_range(r, 3, 8);
		row[a] = row[a + 1] = 0x0B;
		if (vf_chance(r, 3, 4) && b + 1 < 40) row[b] = row[b + 1] = 0x0A;
		if (vf_chance(r, 1, 6)) row[38] = row[39] = 0x0B;
	}
	sanitize_row(row, 0, rowno);
	note_attr(row, 40);
}

static void gen_prompt_row(struct vf_rng *r, uint8_t *row)
{
	static const uint8_t col[4] = { 1, 2, 3, 6 };   /* red green yellow cyan */
	int i, c = 0;
	memset(row, 0x20, 40);
	for (i = 0; i < 4; i++) {
		const char *w = words[vf_below(r, 10)];
		row[c++] = col[i];
		while (*w && c < 10 * (i + 1) - 1) row[c++] = (uint8_t)*w++;
		c = 10 * (i + 1);
	}
}

static void make_header_text(struct tx *t, int clock)
{
	int d;
	memcpy(t->hdr, hdr_tmpl, 24);
	if (hdr_pn_off >= 0) {
		t->hdr[hdr_pn_off + 0] = (uint8_t)('0' + ((t->pgno >> 8) & 15));
		t->hdr[hdr_pn_off + 1] = (uint8_t)('0' + ((t->pgno >> 4) & 15));
		t->hdr[hdr_pn_off + 2] = (uint8_t)('0' + (t->pgno & 15));
	}
	d = clock % 86400;
	t->hdr[24] = (uint8_t)('0' + d / 36000); t->hdr[25] = (uint8_t)('0' + d / 3600 % 10); t->hdr[26] = ':';
	t->hdr[27] = (uint8_t)('0' + d / 600 % 6); t->hdr[28] = (uint8_t)('0' + d / 60 % 10); t->hdr[29] = ':';
	t->hdr[30] = (uint8_t)('0' + d / 10 % 6); t->hdr[31] = (uint8_t)('0' + d % 10);
}

static void gen_header_template(struct vf_rng *r, int plain)
{
	static const char *const names[] = { "ZVBItext", "CEEFAX", "Teletext", "VIDEOTEXT", "TxT" };
	const char *n = names[vf_below(r, 5)];
	int c = 0, i;
	memset(hdr_tmpl, 0x20, sizeof hdr_tmpl);
	if (!plain && vf_chance(r, 1, 2)) hdr_tmpl[c++] = (uint8_t)vf_range(r, 1, 7);
	hdr_pn_off = -1;
	if (vf_chance(r, 1, 2)) { hdr_pn_off = c; c += 4; }
	while (*n && c < 16) hdr_tmpl[c++] = (uint8_t)*n++;
	c++;
	if (hdr_pn_off < 0) { hdr_pn_off = c; c += 4; }
	if (!plain && vf_chance(r, 1, 2)) {
		static const uint8_t a[] = { 0x08, 0x09, 0x18, 0x1D, 0x1C, 0x13, 0x0E, 0x0C, 0x1E, 0x1F };
		hdr_tmpl[c++] = a[vf_below(r, sizeof a)];
	}
	for (i = 0; c < 23 && i < 6; i++) hdr_tmpl[c++] = (uint8_t)"MonTue"[i];
	if (!plain && vf_chance(r, 1, 3)) hdr_tmpl[23] = (uint8_t)vf_range(r, 1, 7);
	{ uint8_t tmp[40]; memset(tmp, 0x20, 8); memcpy(tmp + 8, hdr_tmpl, 24); memset(tmp + 32, 0x20, 8);
	  sanitize_row(tmp, 8, 0); memcpy(hdr_tmpl, tmp + 8, 24); }
	note_attr(hdr_tmpl, 24);
	/* The statement's premise is a header that is the same on every page except page number and clock; where
	 * the number stands is the broadcaster's choice: at the left, behind the name (above), anywhere else, flush
	 * against the clock (columns 29-31), or not shown at all. */
	switch (plain ? 7 : vf_below(r, 8)) {
	case 0: hdr_pn_off = 21; break;
	case 1: hdr_pn_off = -1; break;
	case 2: hdr_pn_off = vf_range(r, 0, 21); break;
	default: break;
	}
}

/* ------------------------------------------------------------------ */
/* transmitter-side model of what the cache must hold                   */

static struct mpage *mp_find(int pgno, int subno)
{
	int i;
	for (i = 0; i < n_mp; i++)
		if (mps[i].used && mps[i].pgno == pgno && mps[i].subno == subno) return &mps[i];
	return NULL;
}

static struct mpage *mp_apply(const struct tx *t)
{
	struct mpage *m = mp_find(t->pgno, t->subno);
	int r;
	if (!m) {
		if (n_mp >= MAXMP) return NULL;
		m = &mps[n_mp++];
		memset(m, 0, sizeof *m);
		m->used = 1; m->pgno = t->pgno; m->subno = t->subno;
	} else if (t->ctl & CB(4)) {
		m->have = 0; m->has_flof = 0;
	}
	m->national = t->national;
	memcpy(m->hdr, t->hdr, 32);
	for (r = 1; r <= 24; r++)
		if (t->rows_sent & (1u << r)) {
			memcpy(m->row[r], t->row[r], 40);
			m->have |= 1u << r;
		}
	if (t->has_flof) {
		m->has_flof = 1;
		memcpy(m->link, t->link, sizeof m->link);
	}
	return m;
}

static int mp_hi_subno(int pgno)
{
	int i, hi = 0;
	for (i = 0; i < n_mp; i++)
		if (mps[i].used && mps[i].pgno == pgno && mps[i].subno > hi) hi = mps[i].subno;
	return hi;
}

static void mp_display(const struct mpage *m, int region, int quirks, struct l1_cell out[25][40])
{
	const uint8_t *rows[25];
	int r, ns = ns_for(region, m->national);
	for (r = 0; r < 25; r++)
		rows[r] = (r >= 1 && (m->have & (1u << r))) ? m->row[r] : NULL;
	l1_page(rows, m->hdr, ns < 0 ? NS_NONE : ns, quirks, out);
}

/* ------------------------------------------------------------------ */
/* packetiser / scheduler                                               */

static struct ttx_pkt *pk_new(int mag, int y, int kind, int tx, int row)
{
	struct ttx_pkt *p;
	if (n_pk >= MAXPK) return NULL;
	p = &pks[n_pk++];
	memset(p, 0, sizeof *p);
	p->mag = mag; p->y = y; p->kind = kind; p->tx = tx; p->row = row;
	return p;
}

/* unit = one transmission (or one filler header) as a packet list in a scratch array */
static struct ttx_pkt unit_buf[MAXTX + 64][40];
static int unit_len[MAXTX + 64], unit_mag[MAXTX + 64];
static int n_units;

static void unit_add(int u, const struct ttx_pkt *p) { if (unit_len[u] < 40) unit_buf[u][unit_len[u]++] = *p; }

static int make_filler_unit(int mag)
{
	struct ttx_pkt p;
	uint8_t text[32];
	int u = n_units++;
	unit_len[u] = 0; unit_mag[u] = mag;
	memset(&p, 0, sizeof p);
	memcpy(text, hdr_tmpl, 24); memset(text + 24, 0x20, 8);
	if (hdr_pn_off >= 0) { text[hdr_pn_off] = (uint8_t)('0' + (mag & 7 ? mag : 8)); text[hdr_pn_off + 1] = 'F'; text[hdr_pn_off + 2] = 'F'; }
	tx_header(p.d, mag, 0xFF, 0x3F7F, net_serial ? CB(11) : 0, 0, text);
	p.mag = mag; p.y = 0; p.kind = PK_FILLER; p.tx = -1;
	unit_add(u, &p);
	return u;
}

static int make_tx_unit(int ti)
{
	struct tx *t = &txs[ti];
	struct ttx_pkt p;
	int u = n_units++, i, d;
	unit_len[u] = 0; unit_mag[u] = t->mag;
	memset(&p, 0, sizeof p);
	p.mag = t->mag; p.tx = ti;
	p.y = 0; p.kind = PK_HEADER; p.row = 0;
	tx_header(p.d, t->mag, t->pgno & 0xFF, t->subno, t->ctl, t->national, t->hdr);
	unit_add(u, &p);
	if (t->has_x28) {
		static const uint16_t clut[16] = { 0x000, 0x00F, 0x0F0, 0x0FF, 0xF00, 0xF0F, 0xFF0, 0xFFF, 0x123, 0x456, 0x789, 0xABC, 0xDEF, 0x321, 0x654, 0x987 };
		p.y = 28; p.kind = PK_X28; p.row = 0;
		tx_x28_0(p.d, t->mag, 28, (unsigned)(net_region + t->national), 0, clut, 4, 1, 0, 0);
		unit_add(u, &p);
	}
	for (i = 0; i <= t->n_order; i++) {
		if (t->has_flof && t->flof_at == i) {
			p.y = 27; p.kind = PK_X27; p.row = 0;
			tx_x27_0(p.d, t->mag, t->link, 0xF, 0x1234);
			unit_add(u, &p);
		}
		if (i < t->n_order) {
			int r = t->order[i];
			p.y = r; p.kind = PK_ROW; p.row = r;
			tx_row(p.d, t->mag, r, t->row[r]);
			unit_add(u, &p);
		}
	}
	for (d = 0; d < t->n_x26; d++) {
		p.y = 26; p.kind = PK_X26; p.row = d;
		tx_x26(p.d, t->mag, d, t->x26[d]);
		unit_add(u, &p);
	}
	return u;
}

/* queue[m] = list of units of magazine m in transmission order */
static int queue[8][MAXTX + 64], qlen[8], qpos[8], upos[8];

static void schedule(struct vf_rng *r, int stick_num)
{
	int m, last = -1, i;
	int open_tx[8];
	n_pk = 0;
	for (m = 0; m < 8; m++) { qpos[m] = 0; upos[m] = 0; open_tx[m] = -1; }
	for (;;) {
		int cand[8], nc = 0, u;
		for (m = 0; m < 8; m++) if (qpos[m] < qlen[m]) cand[nc++] = m;
		if (!nc) break;
		if (net_serial) {
			/* whole units, any magazine next */
			if (last >= 0 && qpos[last] < qlen[last] && upos[last] > 0) m = last;
			else m = cand[vf_below(r, (unsigned)nc)];
		} else {
			if (last >= 0 && qpos[last] < qlen[last] && vf_chance(r, (unsigned)stick_num, 8)) m = last;
			else m = cand[vf_below(r, (unsigned)nc)];
		}
		u = queue[m][qpos[m]];
		if (n_pk < MAXPK) {
			struct ttx_pkt *p = &pks[n_pk];
			*p = unit_buf[u][upos[m]];
			if (p->kind == PK_HEADER || p->kind == PK_FILLER) {
				if (open_tx[m] >= 0) txs[open_tx[m]].term_pos = n_pk;
				open_tx[m] = -1;
				if (p->kind == PK_HEADER) { open_tx[m] = p->tx; txs[p->tx].hdr_pos = n_pk; txs[p->tx].term_pos = -1; }
			}
			n_pk++;
		}
		if (++upos[m] >= unit_len[u]) { upos[m] = 0; qpos[m]++; }
		last = m;
	}
	for (i = 0; i < 8; i++) (void)open_tx[i];
}

/* ------------------------------------------------------------------ */
/* receiver side                                                        */

struct evrec { int type, pgno, subno, pos, flags, pn; };
#define MAXEV 4096
static struct evrec evlog[MAXEV];
static int n_ev, ev_overflow, cur_pos;

static void on_event(vbi_event *ev, void *ud)
{
	(void)ud;
	if (n_ev >= MAXEV) { ev_overflow = 1; return; }
	evlog[n_ev].type = ev->type;
	evlog[n_ev].pos = cur_pos;
	evlog[n_ev].pgno = evlog[n_ev].subno = evlog[n_ev].flags = evlog[n_ev].pn = 0;
	if (ev->type == VBI_EVENT_TTX_PAGE) {
		evlog[n_ev].pgno = ev->ev.ttx_page.pgno;
		evlog[n_ev].subno = ev->ev.ttx_page.subno;
		/* clock_update is only assigned by the library when roll_header is set */
		evlog[n_ev].flags = (int)(ev->ev.ttx_page.roll_header | ev->ev.ttx_page.header_update << 1
					  | (ev->ev.ttx_page.roll_header ? ev->ev.ttx_page.clock_update << 2 : 0));
		evlog[n_ev].pn = ev->ev.ttx_page.pn_offset;
	} else if (ev->type == VBI_EVENT_NETWORK || ev->type == VBI_EVENT_NETWORK_ID) {
		evlog[n_ev].pgno = (int)ev->ev.network.nuid;
		evlog[n_ev].subno = ev->ev.network.cni_8301;
		evlog[n_ev].flags = ev->ev.network.cni_8302;
	}
	n_ev++;
}

static void feed_lines(vbi_decoder *vbi, const struct ttx_pkt *const *pp, int n, double *t)
{
	vbi_sliced sl[32];
	int i;
	for (i = 0; i < n && i < 32; i++) {
		memset(&sl[i], 0, sizeof sl[i]);
		sl[i].id = VBI_SLICED_TELETEXT_B;
		sl[i].line = (uint32_t)(i < 16 ? 7 + i : 320 + i - 16);
		memcpy(sl[i].data, pp[i]->d, 42);
	}
	vf_phase("vbi_decode");
	vbi_decode(vbi, sl, n, *t);
	*t += 0.04;
}

static const char *cellstr(const struct l1_cell *c)
{
	static char b[4][96];
	static int k;
	char *s = b[k = (k + 1) & 3];
	snprintf(s, 96, "U+%04X fg%d bg%d fl%d co%d box%d size%d%s", c->uc, c->fg, c->bg, c->flash, c->conceal, c->box, c->size,
		 (c->flags & L1_FILLER) ? " (below double height)" : "");
	return s;
}

static const char *vcstr(const vbi_char *c, int box)
{
	static char b[4][96];
	static int k;
	char *s = b[k = (k + 1) & 3];
	snprintf(s, 96, "U+%04X fg%d bg%d fl%d co%d box%d size%d", c->unicode, c->foreground, c->background, c->flash, c->conceal, box, c->size);
	return s;
}

/* 0 = equal, else name of the first differing field */
static const char *cell_diff(const struct l1_cell *m, const vbi_char *v, int ref_opacity)
{
	int box = (int)v->opacity != ref_opacity;
	if (m->flags & L1_UNSPEC) return NULL;
	if (m->flags & L1_FILLER) {
		if (!uc_is_blank(v->unicode)) return "char";
		if (v->size != SZ_NORMAL) return "size";
		if (v->background != m->bg) return "bg";
		if (box != m->box) return "box";
		return NULL;
	}
	if (v->size != m->size) return "size";
	if (!(m->flags & L1_SKIPCHAR)) {
		if (uc_is_blank(m->uc) ? !uc_is_blank(v->unicode) : !uc_same_glyph(m->uc, v->unicode)) return "char";
	}
	if (v->foreground != m->fg) return "fg";
	if (v->background != m->bg) return "bg";
	if (v->flash != m->flash) return "flash";
	if (v->conceal != m->conceal) return "conceal";
	if (box != m->box) return "box";
	return NULL;
}

/* compares one displayed row; returns first differing column or -1 */
static int row_diff(const struct l1_cell *m, const vbi_page *pg, int r, const char **field)
{
	const vbi_char *v = pg->text + r * pg->columns;
	int ref = (int)v[0].opacity, c;
	for (c = (r == 0 ? 8 : 0); c < 40; c++) {
		const char *f = cell_diff(&m[c], &v[c], ref);
		if (f) { *field = f; return c; }
	}
	return -1;
}

static int page_diff(struct l1_cell disp[25][40], const vbi_page *pg, int *col, const char **field)
{
	int r;
	for (r = 0; r < 25; r++) {
		int c = row_diff(disp[r], pg, r, field);
		if (c >= 0) { *col = c; return r; }
	}
	return -1;
}

static struct l1_cell disp_a[25][40], disp_b[25][40];
static long n_cells;
static int soft_fails;   /* named-quirk reports of this case: they do not end the case */
#define HARD_FAILED() (vf_failed() - soft_fails > 0)

/* Fetch (pgno, subno) and compare with the model page m.  prev = model page before the
 * transmission t was applied (NULL: none), used only to name the failure. */
static void check_fetch(vbi_decoder *vbi, const struct mpage *m, const struct mpage *prev, const struct tx *t,
			vbi_wst_level level, const char *when)
{
	static vbi_page pg;
	int r, c = 0;
	const char *field = "";
	const char *lv = level == VBI_WST_LEVEL_1 ? "1.0" : "1.5";

	memset(&pg, 0, sizeof pg);
	vf_phase("vbi_fetch_vt_page");
	if (!vbi_fetch_vt_page(vbi, &pg, m->pgno, m->subno, level, 25, FALSE)) {
		vf_fail("model:C02:not-cached", "%s: page %03x/%02x (serial=%d) cannot be fetched at level %s after its terminating header",
			when, m->pgno, m->subno, net_serial, lv);
		return;
	}
	if (pg.pgno != m->pgno || pg.subno != m->subno)
		vf_fail("model:C02:wrong-number", "%s: fetched %03x/%02x, got page numbered %03x/%04x", when, m->pgno, m->subno, pg.pgno, pg.subno);
	mp_display(m, net_region, 0, disp_a);
	n_cells += 24 * 40 + 32;
	r = page_diff(disp_a, &pg, &c, &field);
	if (r >= 0) {
		int c2; const char *f2;
		const vbi_char *v = pg.text + r * pg.columns;
		char raw[100];
		int qgrant = 0;
		/* named quirk: does the divergence disappear exactly when the held mosaic
		 * character is reset at the start of a row only? */
		mp_display(m, net_region, L1_Q_HELD_NO_RESET, disp_b);
		if (page_diff(disp_b, &pg, &c2, &f2) < 0) {
			if (!soft_fails && (soft_fails = 1))
			vf_fail("model:C02:Q-held-mosaic-reset-only-at-row-start",
				"%s: page %03x/%02x level %s row %d col %d: EN 300 706 12.2 resets the held mosaic on an alpha/mosaic or size change: expected %s, displayed %s; row codes %s",
				when, m->pgno, m->subno, lv, r, c, cellstr(&disp_a[r][c]), vcstr(&v[c], (int)v[c].opacity != (int)v[0].opacity),
				vf_hex(r ? m->row[r] : m->hdr, r ? 40 : 32));
			vf_count("quirk_held_mosaic_pages", 1);
			vbi_unref_page(&pg);
			return;
		}
		/* not explained by the quirk alone: report what remains when the quirk is granted */
		if (!(disp_b[r][c].flags & L1_UNSPEC) && cell_diff(&disp_b[r][c], &v[c], (int)v[0].opacity) == NULL) {
			r = page_diff(disp_b, &pg, &c, &field);
			v = pg.text + r * pg.columns;
			memcpy(disp_a, disp_b, sizeof disp_a);
			qgrant = L1_Q_HELD_NO_RESET;
		}
		snprintf(raw, sizeof raw, "%s", (r == 0) ? vf_hex(m->hdr, 32) : (m->have & (1u << r)) ? vf_hex(m->row[r], 40) : "(row not held)");
		if (r == 0) {
			vf_fail("model:C02:header-mismatch", "%s: page %03x/%02x level %s header col %d field %s: expected %s, displayed %s; header codes %s",
				when, m->pgno, m->subno, lv, c, field, cellstr(&disp_a[0][c]), vcstr(&v[c], (int)v[c].opacity != (int)v[0].opacity), raw);
		} else {
			/* name the cause: does the decoder show another version of this row? */
			const char *key = NULL;
			struct mpage alt;
			int rr = r, sent = t ? !!(t->rows_sent & (1u << r)) : 0;
			if (prev && (prev->have & (1u << rr))) {
				alt = *m; memcpy(alt.row[rr], prev->row[rr], 40); alt.have |= 1u << rr;
				mp_display(&alt, net_region, qgrant, disp_b);
				if (row_diff(disp_b[r], &pg, r, &f2) < 0)
					key = sent ? "model:C02:stale-row" : "model:C02:row-not-erased";
			}
			if (!key) {
				alt = *m; alt.have &= ~(1u << rr);
				mp_display(&alt, net_region, qgrant, disp_b);
				if (row_diff(disp_b[r], &pg, r, &f2) < 0)
					key = sent ? "model:C02:row-lost" : "model:C02:row-not-retained";
			}
			if (key)
				vf_fail(key, "%s: page %03x/%02x level %s row %d (sent in this transmission: %d, erase: %d, serial: %d): expected codes %s; first difference col %d: expected %s, displayed %s",
					when, m->pgno, m->subno, lv, r, sent, t ? !!(t->ctl & CB(4)) : -1, net_serial, raw, c,
					cellstr(&disp_a[r][c]), vcstr(&v[c], (int)v[c].opacity != (int)v[0].opacity));
			else {
				char k[64];
				int code = (m->have & (1u << r)) ? m->row[r][c] : 0x20;
				int ns = ns_for(net_region, m->national);
				if (!strcmp(field, "char") && code >= 0x20 && ns_is_option_pos((unsigned)code) && ns > 0
				    && disp_a[r][c].uc == l1_g0(ns, (unsigned)code))
					snprintf(k, sizeof k, "model:C02:charset:%s", ns_name[ns]);
				else
					snprintf(k, sizeof k, "model:C02:cell-mismatch:%s", field);
				vf_fail(k, "%s: page %03x/%02x level %s national %d region %d row %d col %d: expected %s, displayed %s; row codes %s",
					when, m->pgno, m->subno, lv, m->national, net_region, r, c, cellstr(&disp_a[r][c]),
					vcstr(&v[c], (int)v[c].opacity != (int)v[0].opacity), raw);
			}
		}
	}
	vbi_unref_page(&pg);
}

static void check_flof(vbi_decoder *vbi, const struct mpage *m, const char *when)
{
	static vbi_page pg;
	static const int colour[4] = { 1, 2, 3, 6 };
	struct l1_cell row24[40];
	int k, c;
	memset(&pg, 0xEE, sizeof pg);
	vf_phase("vbi_fetch_vt_page");
	if (!vbi_fetch_vt_page(vbi, &pg, m->pgno, m->subno, VBI_WST_LEVEL_1p5, 25, TRUE)) return;
	if (m->have & (1u << 24)) l1_row(m->row[24], 0, NS_ENGLISH, 0, row24, NULL);
	for (k = 0; k < 4; k++) {
		if (m->have & (1u << 24)) {
			/* the prompt of link k is the text in its colour; without one the link is not presented */
			int present = 0;
			for (c = 0; c < 40; c++)
				if (row24[c].fg == colour[k] && !uc_is_blank(row24[c].uc)) present = 1;
			if (!present) continue;
		}
		if ((m->link[k].pgno & 0xFF) == 0xFF) continue;
		if (pg.nav_link[k].pgno != m->link[k].pgno || pg.nav_link[k].subno != m->link[k].subno)
			vf_fail("model:C02:flof-link", "%s: page %03x/%02x FLOF link %d: transmitted %03x/%04x, fetched page reports %03x/%04x (row 24 held: %d)",
				when, m->pgno, m->subno, k, m->link[k].pgno, m->link[k].subno, pg.nav_link[k].pgno, pg.nav_link[k].subno,
				!!(m->have & (1u << 24)));
	}
	if ((m->link[5].pgno & 0xFF) != 0xFF && (pg.nav_link[5].pgno != m->link[5].pgno || pg.nav_link[5].subno != m->link[5].subno))
		vf_fail("model:C02:flof-link", "%s: page %03x/%02x FLOF index link: transmitted %03x/%04x, fetched page reports %03x/%04x",
			when, m->pgno, m->subno, m->link[5].pgno, m->link[5].subno, pg.nav_link[5].pgno, pg.nav_link[5].subno);
	vf_count("flof_pages_checked", 1);
	vbi_unref_page(&pg);
}

/* A page received without X/27/0 (or erased since): with navigation requested row 24 still shows what was
 * transmitted ("the transmitted characters at their rows and columns"; the generated networks have no TOP tables),
 * nothing is generated from links that were never sent. */
static void check_no_flof(vbi_decoder *vbi, const struct mpage *m, const char *when)
{
	static vbi_page pn, pf;
	int c;
	memset(&pn, 0xEE, sizeof pn); memset(&pf, 0xEE, sizeof pf);
	vf_phase("vbi_fetch_vt_page");
	if (!vbi_fetch_vt_page(vbi, &pf, m->pgno, m->subno, VBI_WST_LEVEL_1p5, 25, FALSE)) return;
	if (!vbi_fetch_vt_page(vbi, &pn, m->pgno, m->subno, VBI_WST_LEVEL_1p5, 25, TRUE)) { vbi_unref_page(&pf); return; }
	for (c = 0; c < 40; c++) {
		const vbi_char *a = &pn.text[24 * pn.columns + c], *b = &pf.text[24 * pf.columns + c];
		if (a->unicode != b->unicode || a->foreground != b->foreground || a->background != b->background || a->size != b->size) {
			char t[41]; int k;
			for (k = 0; k < 40; k++) { unsigned u = pn.text[24 * pn.columns + k].unicode; t[k] = (u >= 0x20 && u < 0x7F) ? (char)u : '?'; }
			t[40] = 0;
			vf_fail("model:C02:row24-generated-without-flof", "%s: page %03x/%02x was received without X/27/0 (row 24 %s); fetched with navigation row 24 reads \"%s\", column %d U+%04X fg %d, without navigation U+%04X fg %d; nav_link[0] = %03x/%04x",
				when, m->pgno, m->subno, (m->have & (1u << 24)) ? "transmitted" : "not transmitted", t, c, a->unicode, a->foreground, b->unicode, b->foreground,
				(unsigned)pn.nav_link[0].pgno & 0xFFF, (unsigned)pn.nav_link[0].subno & 0xFFFF);
			break;
		}
	}
	vf_count("pages_without_flof_checked", 1);
	vbi_unref_page(&pn); vbi_unref_page(&pf);
}

static void at_termination(vbi_decoder *vbi, int ti)
{
	struct tx *t = &txs[ti];
	struct mpage prev, *pp = mp_find(t->pgno, t->subno), *m;
	static vbi_page pg;
	int had_prev = 0, hi, wc_ok, wc_pgno = 0, wc_subno = 0;

	if (pp) { prev = *pp; had_prev = 1; }
	m = mp_apply(t);
	if (!m) return;
	vf_count("transmissions_terminated", 1);
	/* The wildcard fetch comes first, before any other lookup by this monitor: a lookup moves the page
	   found to the front of the cache's hash chain and would hide a store that did not. */
	memset(&pg, 0, sizeof pg);
	vf_phase("vbi_fetch_vt_page");
	wc_ok = vbi_fetch_vt_page(vbi, &pg, t->pgno, VBI_ANY_SUBNO, VBI_WST_LEVEL_1, 25, FALSE);
	if (wc_ok) { wc_pgno = pg.pgno; wc_subno = pg.subno; vbi_unref_page(&pg); }
	vf_phase("vbi_is_cached");
	if (!vbi_is_cached(vbi, t->pgno, t->subno) && t->events == 0) {
		/* one cause, one key: the transmission left no trace at all */
		vf_fail("model:C02:page-lost", "page %03x/%02x (serial=%d erase=%d first-reception=%d, header at packet %d, terminating header of its magazine at packet %d): no page event, not cached after its terminating header",
			t->pgno, t->subno, net_serial, !!(t->ctl & CB(4)), !had_prev, t->hdr_pos, t->term_pos);
		return;
	}
	if (t->events != 1)
		vf_fail("model:C02:event-count", "page %03x/%02x (serial=%d erase=%d, header at packet %d, terminated at packet %d): %d VBI_EVENT_TTX_PAGE events for this transmission, expected exactly 1",
			t->pgno, t->subno, net_serial, !!(t->ctl & CB(4)), t->hdr_pos, t->term_pos, t->events);

	/* the wildcard fetch must have returned the subpage just received */
	if (wc_ok) {
		if (wc_pgno != t->pgno || wc_subno != t->subno)
			vf_fail("model:C02:wildcard-subpage", "wildcard fetch of %03x right after reception of subpage %02x returned %03x/%02x",
				t->pgno, t->subno, wc_pgno, wc_subno);
	} else
		vf_fail("model:C02:not-cached", "wildcard fetch of page %03x fails right after subpage %02x terminated (serial=%d)", t->pgno, t->subno, net_serial);
	vf_count("wildcard_fetches", 1);

	check_fetch(vbi, m, had_prev ? &prev : NULL, t, VBI_WST_LEVEL_1, "at termination");
	if (!HARD_FAILED())
		check_fetch(vbi, m, had_prev ? &prev : NULL, t, VBI_WST_LEVEL_1p5, "at termination");
	if (m->has_flof) check_flof(vbi, m, "at termination");
	else check_no_flof(vbi, m, "at termination");

	vf_phase("vbi_is_cached");
	if (!vbi_is_cached(vbi, t->pgno, t->subno))
		vf_fail("model:C02:is-cached", "vbi_is_cached(%03x, %02x) is false after the page terminated", t->pgno, t->subno);
	vf_phase("vbi_cache_hi_subno");
	hi = vbi_cache_hi_subno(vbi, t->pgno);
	if (hi != mp_hi_subno(t->pgno))
		vf_fail("model:C02:hi-subno", "vbi_cache_hi_subno(%03x) = %02x, highest subpage received so far is %02x", t->pgno, hi, mp_hi_subno(t->pgno));
	vf_count("pages_checked", 1);
	if (had_prev) vf_count((t->ctl & CB(4)) ? "erase_updates" : "noerase_updates", 1);
}

/* ------------------------------------------------------------------ */
/* C02 network generator                                                */

static const int regions[] = { 16, 16, 16, 16, 0, 8, 24, 32, 48, 64 };

static int pick_national(struct vf_rng *r, int region)
{
	int n, tries;
	for (tries = 0; tries < 64; tries++) {
		n = (int)vf_below(r, 8);
		if (ns_for(region, n) >= 0) return n;
	}
	for (n = 0; n < 8; n++) if (ns_for(region, n) >= 0) return n;
	return 0;
}

struct pagedef { int pgno, nsub, sub[4], national, flof, boxy; unsigned ctl; };

static int gen_network(struct vf_rng *r, int *kinds_out)
{
	struct pagedef pd[40];
	int npages, nm, mags[8], i, j, m, clock, kinds = 0;
	int last_pg[8];

	net_serial = vf_chance(r, 1, 2);
	net_region = regions[vf_below(r, sizeof regions / sizeof regions[0])];
	attr_seen = 0;
	gen_header_template(r, 0);
	n_tx = 0; n_mp = 0; n_units = 0;
	memset(qlen, 0, sizeof qlen);

	nm = vf_chance(r, 1, 4) ? 8 : vf_range(r, 1, 5);
	for (i = 0; i < 8; i++) mags[i] = i + 1;
	for (i = 7; i > 0; i--) { j = (int)vf_below(r, (unsigned)i + 1); m = mags[i]; mags[i] = mags[j]; mags[j] = m; }
	npages = vf_chance(r, 1, 3) ? vf_range(r, 3, 8) : vf_range(r, 3, vf_tier ? 40 : 24);
	for (i = 0; i < npages; i++) {
		struct pagedef *p = &pd[i];
		int ok;
		do {
			int page = vf_chance(r, 1, 8) ? (int[]){ 0x00, 0x99, 0x11, 0x01, 0x90 }[vf_below(r, 5)]
				: (int)(vf_below(r, 10) << 4 | vf_below(r, 10));
			p->pgno = mags[vf_below(r, (unsigned)nm)] << 8 | page;
			ok = 1;
			for (j = 0; j < i; j++) if (pd[j].pgno == p->pgno) ok = 0;
		} while (!ok);
		p->nsub = vf_chance(r, 3, 5) ? 0 : vf_range(r, 1, 4);
		for (j = 0; j < p->nsub; j++) {
			int s, dup;
			do {
				s = vf_chance(r, 1, 4) ? (int[]){ 0x01, 0x79, 0x10, 0x09 }[vf_below(r, 4)] : (int)(vf_below(r, 8) << 4 | vf_below(r, 10));
				dup = (s == 0);
				for (m = 0; m < j; m++) if (p->sub[m] == s) dup = 1;
			} while (dup);
			p->sub[j] = s;
		}
		p->national = pick_national(r, net_region);
		p->flof = vf_chance(r, 1, 3);
		p->boxy = vf_chance(r, 1, 6);
		p->ctl = 0;
		if (p->boxy) p->ctl |= vf_chance(r, 1, 2) ? CB(5) : CB(6);
		if (vf_chance(r, 1, 10)) p->ctl |= CB(8);
		if (vf_chance(r, 1, 20)) p->ctl |= CB(7);
	}

	{
		int ntx = vf_range(r, npages, npages * 3);
		if (ntx > MAXTX - 8) ntx = MAXTX - 8;
		clock = vf_range(r, 0, 86399);
		for (m = 0; m < 8; m++) last_pg[m] = -1;
		for (i = 0; i < ntx; i++) {
			struct pagedef *p = &pd[i < npages ? i : (int)vf_below(r, (unsigned)npages)];
			struct tx *t = &txs[n_tx];
			struct mpage *mp;
			int mg = (p->pgno >> 8) & 7, rr, u;
			memset(t, 0, sizeof *t);
			t->pgno = p->pgno; t->mag = p->pgno >> 8;
			t->subno = p->nsub ? p->sub[vf_below(r, (unsigned)p->nsub)] : 0;
			t->national = vf_chance(r, 1, 12) ? pick_national(r, net_region) : p->national;
			t->ctl = p->ctl | (net_serial ? CB(11) : 0);
			mp = mp_find(t->pgno, t->subno);
			if (mp ? vf_chance(r, 1, 2) : vf_chance(r, 4, 5)) t->ctl |= CB(4);
			clock += vf_range(r, 0, 3);
			make_header_text(t, clock);
			/* rows */
			{
				int style = (int)vf_below(r, mp ? 4 : 3);
				for (rr = 1; rr <= 24; rr++) {
					int send = style == 0 ? 1 : style == 1 ? vf_chance(r, 3, 4) : style == 2 ? vf_chance(r, 1, 3) : vf_chance(r, 1, 10);
					if (p->flof && rr == 24) send = send && vf_chance(r, 1, 2);
					if (!send) continue;
					t->rows_sent |= 1u << rr;
					if (p->flof && rr == 24) gen_prompt_row(r, t->row[rr]);
					else gen_row(r, t->row[rr], rr, p->boxy);
				}
			}
			t->n_order = 0;
			for (rr = 1; rr <= 24; rr++) if (t->rows_sent & (1u << rr)) t->order[t->n_order++] = rr;
			switch (vf_below(r, 5)) {
			case 0: case 1: /* shuffled */
				for (rr = t->n_order - 1; rr > 0; rr--) { j = (int)vf_below(r, (unsigned)rr + 1); u = t->order[rr]; t->order[rr] = t->order[j]; t->order[j] = u; }
				kinds |= 1; break;
			case 2: /* descending */
				for (rr = 0; rr < t->n_order / 2; rr++) { u = t->order[rr]; t->order[rr] = t->order[t->n_order - 1 - rr]; t->order[t->n_order - 1 - rr] = u; }
				break;
			default: break;
			}
			if (p->flof && (!mp || vf_chance(r, 2, 3) || (t->ctl & CB(4)))) {
				t->has_flof = 1;
				t->flof_at = vf_range(r, 0, t->n_order);
				for (j = 0; j < 6; j++) {
					if (vf_chance(r, 1, 8)) { t->link[j].pgno = (t->mag & 7 ? t->mag : 8) << 8 | 0xFF; t->link[j].subno = 0x3F7F; continue; }
					t->link[j].pgno = (int)(vf_range(r, 1, 8) << 8 | vf_below(r, 10) << 4 | vf_below(r, 10));
					t->link[j].subno = vf_chance(r, 1, 2) ? 0x3F7F : (int)(vf_below(r, 8) << 4 | vf_below(r, 10));
				}
			}
			if (mp) kinds |= (t->ctl & CB(4)) ? 2 : 4;
			/* the model must know the future cache content to generate retransmissions */
			mp_apply(t);
			/* same page number twice in a row in one magazine: separate by a time filling header */
			if (last_pg[mg] == t->pgno || vf_chance(r, 1, 12)) {
				u = make_filler_unit(t->mag);
				queue[mg][qlen[mg]++] = u;
			}
			u = make_tx_unit(n_tx);
			queue[mg][qlen[mg]++] = u;
			last_pg[mg] = t->pgno;
			n_tx++;
		}
	}
	/* terminate the last page of every magazine */
	for (m = 0; m < 8; m++)
		if (qlen[m]) { int u = make_filler_unit(m ? m : 8); queue[m][qlen[m]++] = u; }
	n_mp = 0;   /* the model is rebuilt while receiving */
	schedule(r, vf_range(r, 0, 7));
	*kinds_out = kinds;
	return nm;
}

static int run_network(struct vf_rng *r)
{
	vbi_decoder *vbi;
	const struct ttx_pkt *frame[32];
	int nf = 0, i, kinds, nm, maxopen = 0, open_tx[8], frame_max, pages_before;
	double t = 1000.0;
	long ev_total = 0;

	soft_fails = 0;
	nm = gen_network(r, &kinds);
	vf_sample("network: %s mode, region %d, %d magazines, %d transmissions, %d packets, header '%.*s' page number at col %d",
		  net_serial ? "serial" : "parallel", net_region, nm, n_tx, n_pk, 24, (const char *)hdr_tmpl, hdr_pn_off < 0 ? -1 : 8 + hdr_pn_off);

	vf_phase("vbi_decoder_new");
	vbi = vbi_decoder_new();
	if (!vbi) { vf_fail("harness:alloc", "vbi_decoder_new failed"); return 0; }
	vbi_event_handler_register(vbi, VBI_EVENT_TTX_PAGE, on_event, NULL);
	if (net_region != 16) vbi_teletext_set_default_region(vbi, net_region);
	n_ev = 0; ev_overflow = 0;
	for (i = 0; i < 8; i++) open_tx[i] = -1;
	frame_max = vf_chance(r, 1, 3) ? 1 : vf_range(r, 2, 16);
	pages_before = 0;

	for (i = 0; i < n_pk && !HARD_FAILED(); i++) {
		const struct ttx_pkt *p = &pks[i];
		int is_hdr = p->kind == PK_HEADER || p->kind == PK_FILLER;
		frame[nf++] = p;
		if (is_hdr && vf_verbose) {
			if (p->kind == PK_HEADER)
				vf_log("  pkt %4d: header mag %d page %03x/%02x erase=%d rows=%06x flof=%d (terminates at %d)\n", i, p->mag, txs[p->tx].pgno,
				       txs[p->tx].subno, !!(txs[p->tx].ctl & CB(4)), txs[p->tx].rows_sent >> 1, txs[p->tx].has_flof, txs[p->tx].term_pos);
			else vf_log("  pkt %4d: filler header mag %d\n", i, p->mag);
		}
		if (!is_hdr && nf < frame_max && i + 1 < n_pk) continue;
		cur_pos = i;
		{
			int e0 = n_ev, e;
			feed_lines(vbi, frame, nf, &t);
			nf = 0;
			for (e = e0; e < n_ev; e++) {
				int k, found = -1;
				ev_total++;
				for (k = 0; k < n_tx; k++)
					if (txs[k].pgno == evlog[e].pgno && txs[k].subno == evlog[e].subno
					    && txs[k].hdr_pos >= 0 && txs[k].hdr_pos < i && i <= txs[k].term_pos)
						found = k;
				if (found >= 0) txs[found].events++;
				else
					vf_fail("model:C02:event-unexpected", "VBI_EVENT_TTX_PAGE for %03x/%04x at packet %d (%s header of magazine %d), but no transmission of that page is open or terminating there",
						evlog[e].pgno, evlog[e].subno, i, pk_kind_name[p->kind], p->mag);
			}
		}
		if (is_hdr) {
			int m = p->mag & 7, nopen = 0, k;
			if (open_tx[m] >= 0) {
				for (k = 0; k < 8; k++) if (open_tx[k] >= 0) nopen++;
				if (nopen > maxopen) maxopen = nopen;
				at_termination(vbi, open_tx[m]);
				pages_before++;
			}
			open_tx[m] = p->kind == PK_HEADER ? p->tx : -1;
		}
	}
	/* final sweep: every page must still be what was last transmitted */
	if (!HARD_FAILED()) {
		for (i = 0; i < n_mp && !HARD_FAILED(); i++) {
			check_fetch(vbi, &mps[i], NULL, NULL, VBI_WST_LEVEL_1, "final sweep");
			vf_phase("vbi_is_cached");
			if (!vbi_is_cached(vbi, mps[i].pgno, mps[i].subno))
				vf_fail("model:C02:is-cached", "final sweep: vbi_is_cached(%03x, %02x) is false", mps[i].pgno, mps[i].subno);
			vf_count("final_sweep_pages", 1);
		}
	}
	if (ev_overflow) vf_fail("harness:event-log", "event log overflow");
	vf_phase("vbi_decoder_delete");
	vbi_decoder_delete(vbi);
	vf_count("page_events", ev_total);
	vf_count("packets_fed", n_pk);
	vf_count("cells_compared", n_cells); n_cells = 0;
	vf_count(net_serial ? "networks_serial" : "networks_parallel", 1);
	vf_count(hdr_pn_off < 0 ? "networks_header_without_page_number" : hdr_pn_off == 21 ? "networks_page_number_flush_against_clock" : "networks_page_number_inside_header", 1);
	vf_sig("mode=%s open=%d attrs=0x%02x updates=%d order=%d", net_serial ? "serial" : "parallel", maxopen > 3 ? 4 : maxopen,
	       attr_seen, kinds >> 1, kinds & 1);
	return (attr_seen || (kinds >> 1)) ? 1 : 0;
}

/* ------------------------------------------------------------------ */
/* character set sweep: all 96 codes through every designated Latin sub-set */

static int run_charset(void)
{
	int region, nat, i;
	for (region = 0; region <= 64; region += 8)
		for (nat = 0; nat < 8; nat++) {
			int ns = ns_for(region, nat), bad = 0;
			vbi_decoder *vbi;
			const struct ttx_pkt *frame[8];
			struct ttx_pkt pk[6];
			uint8_t text[40], hdr[32];
			static vbi_page pg;
			char detail[600];
			size_t o = 0;
			double t = 1000.0;
			if (ns < 0) continue;
			vbi = vbi_decoder_new();
			if (!vbi) { vf_fail("harness:alloc", "vbi_decoder_new failed"); return 0; }
			vbi_event_handler_register(vbi, VBI_EVENT_TTX_PAGE, on_event, NULL);
			if (region != 16) vbi_teletext_set_default_region(vbi, region);
			memset(hdr, 0x20, 32); memcpy(hdr, "123 charset", 11);
			memset(pk, 0, sizeof pk);
			tx_header(pk[0].d, 1, 0x23, 0, CB(4), nat, hdr);
			for (i = 0; i < 3; i++) {
				int c;
				memset(text, 0x20, 40);
				for (c = 0; c < 32; c++) text[c] = (uint8_t)(0x20 + i * 32 + c);
				tx_row(pk[1 + i].d, 1, 1 + i, text);
			}
			memcpy(hdr, "124", 3);
			tx_header(pk[4].d, 1, 0x24, 0, CB(4), nat, hdr);
			for (i = 0; i < 5; i++) frame[i] = &pk[i];
			n_ev = 0;
			feed_lines(vbi, frame, 5, &t);
			memset(&pg, 0, sizeof pg);
			if (!vbi_fetch_vt_page(vbi, &pg, 0x123, 0, VBI_WST_LEVEL_1, 25, FALSE)) {
				vf_fail("model:C02:not-cached", "charset sweep: page 123 not fetched (region %d national %d)", region, nat);
				vbi_decoder_delete(vbi);
				continue;
			}
			detail[0] = 0;
			for (i = 0; i < 96; i++) {
				unsigned code = 0x20u + (unsigned)i, exp = l1_g0(ns, code);
				unsigned got = pg.text[(1 + i / 32) * pg.columns + i % 32].unicode;
				if (uc_is_blank(exp) ? !uc_is_blank(got) : !uc_same_glyph(exp, got)) {
					bad++;
					if (o + 40 < sizeof detail)
						o += (size_t)snprintf(detail + o, sizeof detail - o, " %d/%X: U+%04X, table 36 has U+%04X;", code >> 4, code & 15, got, exp);
				}
			}
			vf_count("charset_codes_checked", 96);
			vf_sig("charset region=%d ns=%s", region, ns_name[ns]);
			if (bad > 40)
				vf_fail("model:C02:charset-sweep:page-content", "region %d national %d: %d of 96 cells differ, the test page itself was not stored as sent:%.200s", region, nat, bad, detail);
			else if (bad) {
				char key[64];
				snprintf(key, sizeof key, "model:C02:charset:%s", ns_name[ns]);
				vf_fail(key, "region %d, national option %d (%s):%s", region, nat, ns_name[ns], detail);
			}
			vbi_unref_page(&pg);
			vbi_decoder_delete(vbi);
		}
	return 1;
}

#include "c03_faults.h"

static int run_case(struct vf_rng *r, long idx)
{
	if (!strcmp(vf_mode, "faults")) return run_faults(r, idx);
	if (idx == 0) return run_charset();
	return run_network(r);
}

/* ------------------------------------------------------------------ */

static void selftest(void)
{
	unsigned v, i;
	uint8_t b[3];
	static const uint8_t ham8_ref[16] = { 0x15, 0x02, 0x49, 0x5E, 0x64, 0x73, 0x38, 0x2F, 0xD0, 0xC7, 0x8C, 0x9B, 0xA1, 0xB6, 0xFD, 0xEA };
	struct l1_cell row[40], low[40];
	uint8_t codes[40];
	int dh, nd;

	/* EN 300 706 table of Hamming 8/4 code words */
	for (v = 0; v < 16; v++) {
		if (tx_ham8(v) != ham8_ref[v]) vf_fail("selftest:C02:ham8", "ham8(%u) = %02x, standard says %02x", v, tx_ham8(v), ham8_ref[v]);
		if (vbi_unham8(tx_ham8(v)) != (int)v) vf_fail("selftest:C02:ham8", "library decodes ham8(%u) as %d", v, vbi_unham8(tx_ham8(v)));
	}
	for (v = 0; v < 128; v++)
		if (vbi_unpar8(tx_par(v)) != (int)v || tx_pop(tx_par(v)) % 2 != 1) vf_fail("selftest:C02:parity", "parity of %02x", v);
	for (v = 0; v < (1u << 18); v += (v < 4096 ? 1 : 37)) {
		tx_ham24(b, v);
		if (vbi_unham24p(b) != (int)v) { vf_fail("selftest:C02:ham24", "library decodes ham24(%05x) = %02x%02x%02x as %05x", v, b[0], b[1], b[2], vbi_unham24p(b)); break; }
		for (i = 0; i < 24; i += 5) {
			b[i >> 3] ^= (uint8_t)(1u << (i & 7));
			if (vbi_unham24p(b) != (int)v) { vf_fail("selftest:C02:ham24", "single error at bit %u of ham24(%05x) not corrected", i, v); v = 1u << 18; break; }
			b[i >> 3] ^= (uint8_t)(1u << (i & 7));
		}
	}
	/* display model hand vectors (EN 300 706 12.2) */
	memset(codes, 0x20, 40);
	codes[0] = 0x11; codes[1] = 0x7F; codes[2] = 0x1E; codes[3] = 0x02; codes[4] = 0x17; codes[5] = 0x12; codes[6] = 'A';
	l1_row(codes, 0, NS_ENGLISH, 0, row, &nd);
	/* col0 mosaic red (set-after): space, white. col1 mosaic 7F red. col2 hold (set-at): held 7F.
	 * col3 alpha green: still mosaic mode at this cell -> held 7F, red; afterwards alpha -> held reset.
	 * col4 mosaic white: alpha mode at this cell -> space. col5 mosaic red, hold on, mosaic mode: held was reset -> blank */
	if (row[0].uc != 0x20 || row[0].fg != 7 || row[1].uc != 0xEE7F || row[1].fg != 1 || row[2].uc != 0xEE7F || row[3].uc != 0xEE7F
	    || row[3].fg != 1 || !uc_is_blank(row[4].uc) || row[4].fg != 2 || !uc_is_blank(row[5].uc) || row[5].fg != 7 || row[6].uc != 'A' || row[6].fg != 2)
		vf_fail("selftest:C02:model", "held mosaic hand vector fails");
	l1_row(codes, 0, NS_ENGLISH, L1_Q_HELD_NO_RESET, row, &nd);
	if (row[5].uc != 0xEE7F) vf_fail("selftest:C02:model", "quirk variant of the held mosaic vector fails");
	memset(codes, 0x20, 40);
	{ static const uint8_t v[18] = { 0x0D, 'A', 0x0C, 'B', 0x0F, 'C', 'D', 0x0C, 0x0B, 0x0B, 'E', 0x0A, 0x0A, 0x18, 'F', 0x04, 0x1D, 0x23 };
	  memcpy(codes, v, 18); }
	dh = l1_row(codes, 0, NS_GERMAN, 0, row, &nd);
	l1_lower_row(row, low);
	if (!dh || nd != 2 || row[0].size != SZ_NORMAL || row[1].size != SZ_DH || row[2].size != SZ_NORMAL || row[3].size != SZ_NORMAL
	    || row[4].size != SZ_NORMAL || row[5].size != SZ_DS || row[6].size != SZ_OVER_TOP || row[6].uc != 'C' || row[7].size != SZ_NORMAL
	    || row[8].box || !row[9].box || !row[10].box || !row[11].box || row[12].box
	    || !row[13].conceal || !row[14].conceal || !row[15].conceal || row[16].conceal || row[16].bg != 4 || row[15].bg != 0
	    || row[17].uc != '#' || low[1].size != SZ_DH2 || low[1].uc != 'A' || !(low[3].flags & L1_FILLER)
	    || low[5].size != SZ_DS2 || low[6].size != SZ_OVER_BOTTOM)
		vf_fail("selftest:C02:model", "size/box/conceal hand vector fails");
	if (l1_g0(NS_GERMAN, 0x5B) != 0xC4 || l1_g0(NS_ENGLISH, 0x23) != 0xA3 || l1_g0(NS_FRENCH, 0x40) != 0xE0 || l1_g0(NS_SWEDISH, 0x5D) != 0xC5
	    || l1_g0(NS_ENGLISH, 0x7F) != 0x25A0 || l1_g0(NS_ITALIAN, 0x41) != 'A')
		vf_fail("selftest:C02:model", "national option hand vector fails");
	if (l1_mosaic_uc(0x20, 0) != 0xEE20 || l1_mosaic_uc(0x7F, 1) != 0xEE5F || l1_mosaic_uc(0x3F, 1) != 0xEE1F || l1_mosaic_uc(0x60, 0) != 0xEE60)
		vf_fail("selftest:C02:model", "mosaic code point mapping fails");
}

int main(int argc, char **argv) { return vf_main(argc, argv, run_case, selftest); }
