/*
 *  C19 proxy rig: prints the wire layout of the proxy protocol
 *  (sizeof / offsetof of every message and field of src/proxy-msg.h, the
 *  message type numbers and the protocol constants) as one JSON object.
 *
 *  The Python fault generator (rig/proxy_rig.py) packs and parses messages
 *  from this table only, so a layout change in the tree under test cannot
 *  desynchronise the generator and masquerade as a daemon fault.
 */

#include "config.h"

#include <stdio.h>
#include <stddef.h>
#include <stdint.h>
#include <string.h>

#include "vbi.h"
#include "inout.h"
#include "proxy-msg.h"
#include "proxy-client.h"

static int first_in_obj;

static void
sep (void)
{
	if (!first_in_obj)
		printf (",");
	first_in_obj = 0;
}

#define STRUCT(T) do { sep (); printf ("\n  \"%s\": %zu", #T, sizeof (T)); } while (0)

/* field: offset inside the message *body* (union), size, signedness:
   offset, size and signedness (all-ones compares below zero) computed inline */
#define FI(M, F) do {								\
	VBIPROXY_MSG_BODY b_;							\
	sep ();									\
	memset (&b_, 0xff, sizeof (b_));					\
	printf ("\n  \"%s.%s\": [%zu, %zu, %d]", #M, #F,			\
		offsetof (VBIPROXY_MSG_BODY, M.F), sizeof (b_.M.F),		\
		(int) (((double) b_.M.F) < 0));					\
} while (0)
#define FA(M, F) do {								\
	VBIPROXY_MSG_BODY b_;							\
	sep ();									\
	printf ("\n  \"%s.%s\": [%zu, %zu, 0]", #M, #F,			\
		offsetof (VBIPROXY_MSG_BODY, M.F), sizeof (b_.M.F));		\
} while (0)

#define CONST_INT(N) do { sep (); printf ("\n  \"%s\": %ld", #N, (long) (N)); } while (0)
#define CONST_STR(N) do { sep (); printf ("\n  \"%s\": \"%s\"", #N, N); } while (0)

int
main (void)
{
	printf ("{\n \"sizeof\": {");
	first_in_obj = 1;
	STRUCT (VBIPROXY_MSG_HEADER);
	STRUCT (VBIPROXY_MSG_BODY);
	STRUCT (VBIPROXY_MSG);
	STRUCT (VBIPROXY_MAGICS);
	STRUCT (VBIPROXY_CONNECT_REQ);
	STRUCT (VBIPROXY_CONNECT_CNF);
	STRUCT (VBIPROXY_CONNECT_REJ);
	STRUCT (VBIPROXY_SLICED_IND);
	STRUCT (VBIPROXY_SERVICE_REQ);
	STRUCT (VBIPROXY_SERVICE_CNF);
	STRUCT (VBIPROXY_SERVICE_REJ);
	STRUCT (VBIPROXY_CHN_TOKEN_REQ);
	STRUCT (VBIPROXY_CHN_TOKEN_CNF);
	STRUCT (VBIPROXY_CHN_TOKEN_IND);
	STRUCT (VBIPROXY_CHN_NOTIFY_REQ);
	STRUCT (VBIPROXY_CHN_NOTIFY_CNF);
	STRUCT (VBIPROXY_CHN_SUSPEND_REQ);
	STRUCT (VBIPROXY_CHN_SUSPEND_CNF);
	STRUCT (VBIPROXY_CHN_SUSPEND_REJ);
	STRUCT (VBIPROXY_CHN_IOCTL_REQ);
	STRUCT (VBIPROXY_CHN_IOCTL_CNF);
	STRUCT (VBIPROXY_CHN_IOCTL_REJ);
	STRUCT (VBIPROXY_CHN_RECLAIM_REQ);
	STRUCT (VBIPROXY_CHN_RECLAIM_CNF);
	STRUCT (VBIPROXY_CHN_CHANGE_IND);
	STRUCT (VBIPROXY_DAEMON_PID_REQ);
	STRUCT (VBIPROXY_DAEMON_PID_CNF);
	STRUCT (vbi_sliced);
	STRUCT (vbi_raw_decoder);
	STRUCT (vbi_channel_profile);
	printf ("\n },\n \"field\": {");
	first_in_obj = 1;

	FA (connect_req, magics.protocol_magic);
	FI (connect_req, magics.protocol_compat_version);
	FI (connect_req, magics.protocol_version);
	FI (connect_req, magics.endian_magic);
	FA (connect_req, client_name);
	FI (connect_req, pid);
	FI (connect_req, client_flags);
	FI (connect_req, scanning);
	FI (connect_req, buffer_count);
	FI (connect_req, services);
	FI (connect_req, strict);
	FA (connect_req, reserved);

	FA (connect_cnf, magics.protocol_magic);
	FI (connect_cnf, magics.protocol_compat_version);
	FI (connect_cnf, magics.protocol_version);
	FI (connect_cnf, magics.endian_magic);
	FA (connect_cnf, dev_vbi_name);
	FI (connect_cnf, pid);
	FI (connect_cnf, vbi_api_revision);
	FI (connect_cnf, daemon_flags);
	FI (connect_cnf, services);
	FA (connect_cnf, dec);
	FI (connect_cnf, dec.scanning);
	FA (connect_cnf, dec.start);
	FA (connect_cnf, dec.count);

	FA (connect_rej, magics.protocol_magic);
	FA (connect_rej, errorstr);

	FA (sliced_ind, timestamp);
	FI (sliced_ind, sliced_lines);
	FI (sliced_ind, raw_lines);
	FA (sliced_ind, u.sliced);
	FA (sliced_ind, u.raw);

	FI (service_req, reset);
	FI (service_req, commit);
	FI (service_req, strict);
	FI (service_req, services);

	FI (service_cnf, services);
	FA (service_cnf, dec);
	FA (service_rej, errorstr);

	FI (chn_token_req, chn_prio);
	FA (chn_token_req, chn_profile);
	FI (chn_token_req, chn_profile.is_valid);
	FI (chn_token_req, chn_profile.sub_prio);
	FI (chn_token_req, chn_profile.allow_suspend);
	FI (chn_token_req, chn_profile.min_duration);
	FI (chn_token_req, chn_profile.exp_duration);

	FI (chn_token_cnf, token_ind);
	FI (chn_token_cnf, permitted);
	FI (chn_token_cnf, non_excl);

	FI (chn_notify_req, notify_flags);
	FI (chn_notify_req, scanning);
	FI (chn_notify_req, cause);
	FA (chn_notify_req, reserved);

	FI (chn_notify_cnf, scanning);

	FI (chn_suspend_req, enable);
	FI (chn_suspend_req, cause);

	FI (chn_ioctl_req, request);
	FI (chn_ioctl_req, reserved_0);
	FI (chn_ioctl_req, reserved_1);
	FI (chn_ioctl_req, arg_size);
	{
		sep ();
		printf ("\n  \"chn_ioctl_req.arg_data\": [%zu, 0, 0]",
			offsetof (VBIPROXY_MSG_BODY, chn_ioctl_req.arg_data));
	}

	FI (chn_ioctl_cnf, result);
	FI (chn_ioctl_cnf, errcode);
	FI (chn_ioctl_cnf, arg_size);

	FI (chn_change_ind, notify_flags);
	FI (chn_change_ind, scanning);

	FA (daemon_pid_req, magics.protocol_magic);
	FI (daemon_pid_req, magics.protocol_compat_version);
	FI (daemon_pid_req, magics.protocol_version);
	FI (daemon_pid_req, magics.endian_magic);

	FA (daemon_pid_cnf, magics.protocol_magic);
	FI (daemon_pid_cnf, pid);

	printf ("\n },\n \"sliced\": {");
	first_in_obj = 1;
	sep (); printf ("\n  \"id\": [%zu, %zu]", offsetof (vbi_sliced, id), sizeof (((vbi_sliced *) 0)->id));
	sep (); printf ("\n  \"line\": [%zu, %zu]", offsetof (vbi_sliced, line), sizeof (((vbi_sliced *) 0)->line));
	sep (); printf ("\n  \"data\": [%zu, %zu]", offsetof (vbi_sliced, data), sizeof (((vbi_sliced *) 0)->data));

	printf ("\n },\n \"type\": {");
	first_in_obj = 1;
	CONST_INT (MSG_TYPE_CONNECT_REQ);
	CONST_INT (MSG_TYPE_CONNECT_CNF);
	CONST_INT (MSG_TYPE_CONNECT_REJ);
	CONST_INT (MSG_TYPE_CLOSE_REQ);
	CONST_INT (MSG_TYPE_SLICED_IND);
	CONST_INT (MSG_TYPE_SERVICE_REQ);
	CONST_INT (MSG_TYPE_SERVICE_CNF);
	CONST_INT (MSG_TYPE_SERVICE_REJ);
	CONST_INT (MSG_TYPE_CHN_TOKEN_REQ);
	CONST_INT (MSG_TYPE_CHN_TOKEN_CNF);
	CONST_INT (MSG_TYPE_CHN_TOKEN_IND);
	CONST_INT (MSG_TYPE_CHN_NOTIFY_REQ);
	CONST_INT (MSG_TYPE_CHN_NOTIFY_CNF);
	CONST_INT (MSG_TYPE_CHN_RECLAIM_REQ);
	CONST_INT (MSG_TYPE_CHN_RECLAIM_CNF);
	CONST_INT (MSG_TYPE_CHN_SUSPEND_REQ);
	CONST_INT (MSG_TYPE_CHN_SUSPEND_CNF);
	CONST_INT (MSG_TYPE_CHN_SUSPEND_REJ);
	CONST_INT (MSG_TYPE_CHN_IOCTL_REQ);
	CONST_INT (MSG_TYPE_CHN_IOCTL_CNF);
	CONST_INT (MSG_TYPE_CHN_IOCTL_REJ);
	CONST_INT (MSG_TYPE_CHN_CHANGE_IND);
	CONST_INT (MSG_TYPE_DAEMON_PID_REQ);
	CONST_INT (MSG_TYPE_DAEMON_PID_CNF);
	CONST_INT (MSG_TYPE_COUNT);

	printf ("\n },\n \"const\": {");
	first_in_obj = 1;
	CONST_STR (VBIPROXY_MAGIC_STR);
	CONST_INT (VBIPROXY_MAGIC_LEN);
	CONST_INT (VBIPROXY_ENDIAN_MAGIC);
	CONST_INT (VBIPROXY_ENDIAN_MISMATCH);
	CONST_INT (VBIPROXY_VERSION);
	CONST_INT (VBIPROXY_COMPAT_VERSION);
	CONST_INT (VBIPROXY_CLIENT_NAME_MAX_LENGTH);
	CONST_INT (VBIPROXY_RAW_LINE_SIZE);
	CONST_INT (VBI_PROXY_CLIENT_NO_TIMEOUTS);
	CONST_INT (VBI_PROXY_CLIENT_NO_STATUS_IND);
	CONST_INT (VBI_PROXY_CHN_RELEASE);
	CONST_INT (VBI_PROXY_CHN_TOKEN);
	CONST_INT (VBI_PROXY_CHN_FLUSH);
	CONST_INT (VBI_PROXY_CHN_NORM);
	CONST_INT (VBI_PROXY_CHN_FAIL);
	CONST_INT (VBI_CHN_PRIO_BACKGROUND);
	CONST_INT (VBI_CHN_PRIO_INTERACTIVE);
	CONST_INT (VBI_CHN_PRIO_RECORD);
	CONST_INT (VBI_SLICED_TELETEXT_B);
	CONST_INT (VBI_SLICED_VPS);
	CONST_INT (VBI_SLICED_CAPTION_625);
	CONST_INT (VBI_SLICED_WSS_625);
	CONST_INT (VBI_SLICED_CAPTION_525);
	CONST_INT (VBI_SLICED_VBI_625);
	CONST_INT (VBI_SLICED_VBI_525);
	sep (); printf ("\n  \"VBIPROXY_SLICED_IND_SIZE_0_0\": %zu", (size_t) VBIPROXY_SLICED_IND_SIZE (0, 0));
	sep (); printf ("\n  \"VBIPROXY_CHN_IOCTL_REQ_SIZE_0\": %ld", (long) VBIPROXY_CHN_IOCTL_REQ_SIZE (0));
	sep (); printf ("\n  \"VBIPROXY_MSG_BODY_OFFSET\": %zu", offsetof (VBIPROXY_MSG, body));
	printf ("\n }\n}\n");
	return 0;
}
