/* C16 - export and rendering are faithful, bounded and independent of the
 * output target.
 *
 * One case = one page built by the real decoder (c16_corpus.h: Teletext at
 * Level 1..3.5 with size/conceal/flash/mosaic/box attributes, X/26 enhancement,
 * X/28 colour maps and character sets, DRCS, FLOF row 24; or a caption page),
 * then:
 *  (a) every export module x one generated option vector: vbi_export_alloc
 *      (twice), vbi_export_stdio to a memory stream and to a real file,
 *      vbi_export_file, and vbi_export_mem for many buffer sizes 0..needed+1
 *      (the buffer is exactly `size` bytes, its end flush against a guard page
 *      in the plain flavour / an ASan red zone in the asan flavour) must agree
 *      byte for byte and mem must return the size needed        (c16_exp.h)
 *  (b) text exporter and vbi_print_page_region(table) output converted back
 *      with iconv equals the page's characters row by row       (c16_text.h)
 *  (c) region rendering: nothing outside the region rectangle changes, for
 *      every region / stride / format; unsupported formats draw nothing;
 *      regions not cutting a double-width/size character equal the full-page
 *      rendering                                                (c16_render.h)
 *  (d) one export context per module serves p6 further exports of this and of
 *      a second page, to all targets in any order, with option changes, some
 *      of the targets failing (stream failing after k bytes, /dev/full,
 *      read-only stream, missing directory): failures are reported, every
 *      other export equals the output of a fresh context, nothing leaks
 *                                                               (c16_reuse.h)
 *
 * params: p0 mem sizes for text/html, p1 mem sizes for ppm/png/xpm,
 *         p2 regions per page, p3 print-region calls per page,
 *         p4 "all sizes" threshold (bytes), p5 every Nth page: all regions,
 *         p6 exports per reused context
 * mode letters switch parts off: E (a), P print-region, R (c), U (d)
 */
#include "vf.h"
#include <string.h>
#include <stdlib.h>
#include <stdio.h>
#include <errno.h>
#include <iconv.h>
#include <unistd.h>
#include <sys/types.h>
#include "libzvbi.h"

#include "c16_util.h"
#include "c16_corpus.h"
#include "c16_station.h"
#include "c16_text.h"
#include "c16_exp.h"
#include "c16_render.h"
#include "c16_reuse.h"

static const char *const modules[5] = { "text", "html", "ppm", "png", "xpm" };

/* ---------------- vbi_print_page_region (table mode) ---------------- */

static void oracle_print(struct vf_rng *r, long ncalls)
{
	static const char *const formats[] = { "UTF-8", "ISO-8859-1", "ASCII", "UCS-2", "UTF-8", "ISO-8859-1", "KOI8-R", "ISO-8859-7", "ISO-8859-2" };
	long k;
	int C = PG.columns, R = PG.rows;
	for (k = 0; k < ncalls; k++) {
		const char *fmt = formats[vf_below(r, sizeof formats / sizeof formats[0])];
		struct cs_info *cs = cs_get(fmt);
		int col, row, w, h, n0, t;
		size_t big;
		uint8_t *b, *refout;
		char what[200];
		if (!cs_valid(cs)) continue;
		if (k == 0 || vf_chance(r, 1, 4)) { col = 0; row = 0; w = C; h = R; }
		else { col = (int)vf_below(r, (unsigned)C); w = vf_range(r, 1, C - col); row = (int)vf_below(r, (unsigned)R); h = vf_range(r, 1, R - row); }
		big = (size_t)w * (size_t)h * 4 + (size_t)h + 8;
		b = exact_alloc(big);
		vf_phase("vbi_print_page_region");
		if (col == 0 && row == 0 && w == C && h == R && vf_chance(r, 1, 2))
			n0 = vbi_print_page(&PG, (char *)b, (int)big, fmt, TRUE, TRUE);
		else
			n0 = vbi_print_page_region(&PG, (char *)b, (int)big, fmt, TRUE, TRUE, col, row, w, h);
		vf_count("print_region_calls", 1);
		snprintf(what, sizeof what, "vbi_print_page_region(table) col=%d row=%d w=%d h=%d", col, row, w, h);
		if (n0 <= 0 || (size_t)n0 > big) {
			if ((size_t)n0 > big && n0 > 0)
				vf_fail("model:C16:print-region:exceeds-size", "%s charset=%s: returned %d for a %zu byte buffer", what, fmt, n0, big);
			else
				vf_fail("model:C16:print-region:failed", "%s charset=%s: returned %d although the %zu byte buffer is large enough for any encoding", what, fmt, n0, big);
			exact_free(b);
			continue;
		}
		refout = malloc((size_t)n0);
		memcpy(refout, b, (size_t)n0);
		exact_free(b);
		text_oracle("print-region", cs, refout, (size_t)n0, 0, 0x20, 0, col, row, w, h, 0, what);
		vf_count("text_cells_compared", w * h);
		vf_sig("prt cs=%s reg=%s", fmt, (w == C && h == R) ? "full" : (w == 1 || h == 1) ? "line" : "part");

		/* bounded output: buffers of exactly `size` bytes */
		for (t = 0; t < 8; t++) {
			int size, n;
			uint8_t *e;
			switch (t) {
			case 0: size = n0; break;
			case 1: size = n0 - 1; break;
			case 2: size = n0 + 1; break;
			case 3: size = 0; break;
			case 4: size = n0 - 2; break;
			case 5: size = n0 - 3; break;
			default: size = (int)vf_below(r, (unsigned)n0 + 1);
			}
			if (size < 0) continue;
			e = exact_alloc((size_t)size);
			memset(e, 0x3C, (size_t)size);
			n = vbi_print_page_region(&PG, (char *)e, size, fmt, TRUE, TRUE, col, row, w, h);
			vf_count("print_region_calls", 1);
			if (n > size)
				vf_fail("model:C16:print-region:exceeds-size", "%s charset=%s: returned %d for a %d byte buffer", what, fmt, n, size);
			else if (size >= n0 && (n != n0 || memcmp(e, refout, (size_t)n0)))
				vf_fail("model:C16:print-region:size-dependent", "%s charset=%s: a %d byte buffer gives %d bytes, a large buffer %d bytes%s", what, fmt, size, n, n0,
					n == n0 ? " with different content" : "");
			else if (size < n0 && n > 0) {
				/* claims success although the text needs n0 bytes: the content cannot be right */
				size_t at = first_diff(e, (size_t)n, refout, (size_t)n0);
				vf_fail("model:C16:print-region:short-buffer-success",
					"%s charset=%s: the text needs %d bytes, yet with a %d byte buffer the function reports success with %d bytes; first difference at byte %zu: got %s expected %s",
					what, fmt, n0, size, n, at, vf_hex(e + at, (size_t)n - at > 6 ? 6 : (size_t)n - at), vf_hex(refout + at, (size_t)n0 - at > 6 ? 6 : (size_t)n0 - at));
			}
			if (exact_underrun(e))
				vf_fail("model:C16:print-region:underrun", "%s charset=%s size=%d: bytes before the buffer were written", what, fmt, size);
			exact_free(e);
			vf_sig("prt-size cs=%s rel=%s", fmt, size_rel((size_t)size, (size_t)n0));
		}
		free(refout);
		if (vf_failed() > 8) break;
	}
}

/* ---------------- evidence about the new page kinds ---------------- */

static void count_ttx_kinds(void)
{
	int navrow = PG.rows == 25 && META.nav, i, labels = 0;
	if (META.ctrl & (1u << (7 - 4))) vf_count("pages_with_row0_suppressed", 1);
	if (META.ctrl & 6) vf_count(PG_boxed ? "pages_newsflash_subtitle_with_boxed_area" : "pages_newsflash_subtitle_nothing_boxed", 1);
	if (!META.station) {
		if (navrow && META.flof) vf_count(META.row24 ? "pages_with_flof_row_from_x24" : "pages_with_flof_row_generated", 1);
		vf_sig("ttx lv=%d c567=%x flof=%d x24=%d", META.lv, META.ctrl & 14, META.flof, META.row24);
		return;
	}
	vf_count("pages_teletext_station", 1);
	if (ST.feat & SF_INDEX) {
		vf_count("pages_top_index", 1);
		vf_sig("station index rows=%d titles=%s", PG.rows, ST.top_titles > 40 ? "many" : "few");
		return;
	}
	if (META.hex) vf_count("pages_hex_number_through_mip", 1);
	if (st_nmip) vf_count("pages_with_magazine_inventory", 1);
	if (navrow && META.flof) vf_count(META.row24 ? "pages_with_flof_row_from_x24" : "pages_with_flof_row_generated", 1);
	else if (navrow && (ST.feat & SF_TOP)) {
		for (i = 0; i < 3; i++) if (PG.nav_link[i].pgno) labels++;
		vf_count(labels ? "pages_with_top_row" : "pages_with_top_row_without_labels", 1);
		vf_count("top_row_labels", labels);
	}
	if (ST.obj_invoked) vf_count("pages_invoking_objects", 1);
	if (ST.obj_checked) vf_count("pages_also_formatted_with_empty_objects", 1);
	if (ST.obj_changed) {
		vf_count("pages_changed_by_object", 1);
		if (ST.types & 2) vf_count("pages_changed_by_object_active_invoked", 1);
		if (ST.types & 4) vf_count("pages_changed_by_object_adaptive_invoked", 1);
		if (ST.types & 8) vf_count("pages_changed_by_object_passive_invoked", 1);
		vf_count(ST.via_mot ? "pages_changed_by_object_linked_by_mot" : "pages_changed_by_object_linked_by_x27", 1);
		if (ST.default_obj) vf_count("pages_changed_by_default_object", 1);
		if (ST.gpop) vf_count("pages_changed_by_object_gpop", 1);
		if (ST.pop) vf_count("pages_changed_by_object_pop", 1);
		if (ST.nested) vf_count("pages_changed_by_object_invoking_objects", 1);
		if (ST.l35_links && META.lv == 3) vf_count("pages_changed_by_object_level35_links", 1);
		if (ST.opage_declared) vf_count("pages_changed_by_object_page_declared_in_mip", 1);
		if (ST.opage_x26) vf_count("pages_changed_by_object_page_with_x26", 1);
		vf_count("object_cells", ST.cells);
		if (ST.cells_sized) vf_count("pages_with_object_cells_double_width_height_size", 1);
		if (ST.cells_drcs) vf_count("pages_with_object_cells_drcs", 1);
		if (ST.cells_right) vf_count("pages_with_object_cells_in_columns_36_39", 1);
		if (ST.cells_bottom) vf_count("pages_with_object_cells_in_rows_23_24", 1);
		if (ST.cells_row0) vf_count("pages_with_object_cells_in_row_0", 1);
	}
	vf_sig("station feat=%x lv=%d obj=%d top=%d flof=%d%d rows=%s", ST.feat & 0x3F, META.lv, ST.obj_changed ? 2 : ST.obj_invoked ? 1 : 0,
	       labels, META.flof, META.row24, PG.rows == 25 ? "25" : PG.rows == 1 ? "1" : "n");
}

/* ---------------- case ---------------- */

static int run_case(struct vf_rng *r, long idx)
{
	int ok, m;
	long p0 = vf_param[0] ? vf_param[0] : 40, p1 = vf_param[1] ? vf_param[1] : 12, p2 = vf_param[2] ? vf_param[2] : 60,
	     p3 = vf_param[3] ? vf_param[3] : 6, p4 = vf_param[4], p5 = vf_param[5], p6 = vf_param[6] ? vf_param[6] : 8;

	cor_new_decoder();
	ok = cor_gen_page(r);
	vf_sample("%s", PG_desc);
	if (!ok) {
		vf_fail("harness:fetch", "%s", PG_desc);
		cor_end();
		return 0;
	}
	cor_features();
	vf_count(PG_is_cc ? "pages_caption" : "pages_teletext", 1);
	if (FEAT.dw) vf_count("pages_with_double_width", 1);
	if (FEAT.dh) vf_count("pages_with_double_height", 1);
	if (FEAT.ds) vf_count("pages_with_double_size", 1);
	if (FEAT.conceal) vf_count("pages_with_conceal", 1);
	if (FEAT.flash) vf_count("pages_with_flash", 1);
	if (FEAT.gfx) vf_count("pages_with_mosaic", 1);
	if (FEAT.drcs) vf_count("pages_with_drcs", 1);
	if (FEAT.transp) vf_count("pages_with_transparent_cells", 1);
	if (FEAT.semi) vf_count("pages_with_semi_transparent_cells", 1);
	if (FEAT.link) vf_count("pages_with_links", 1);
	if (FEAT.nonascii) vf_count("pages_with_non_ascii_text", 1);
	if (!PG_is_cc && PG.rows == 25 && (PG.nav_link[0].pgno || PG.nav_link[1].pgno)) vf_count("pages_with_navigation_row", 1);
	if (!PG_is_cc) count_ttx_kinds();
	vf_sample("%s -> %dx%d dw=%d dh=%d ds=%d conceal=%d flash=%d gfx=%d drcs=%d transp=%d semi=%d link=%d nonascii=%d", PG_desc, PG.columns, PG.rows,
		  FEAT.dw, FEAT.dh, FEAT.ds, FEAT.conceal, FEAT.flash, FEAT.gfx, FEAT.drcs, FEAT.transp, FEAT.semi, FEAT.link, FEAT.nonascii);

	if (!strchr(vf_mode, 'E'))
		for (m = 0; m < 5; m++) {
			oracle_export_module(r, modules[m], m < 2 ? p0 : p1, p4);
			if (vf_failed() > 12) break;
		}
	if (!strchr(vf_mode, 'P')) oracle_print(r, p3);
	if (!strchr(vf_mode, 'R')) oracle_render(r, p2, p5 > 0 && (idx % p5) == 0 && PG.rows * PG.columns > 500);

	if (!strchr(vf_mode, 'U')) oracle_reuse(r, p6);

	vf_phase("vbi_decoder_delete");
	cor_end();
	vf_sig("page %s rows=%s dw=%d dh=%d ds=%d drcs=%d transp=%d", PG_is_cc ? "cc" : "vt", PG.rows == 25 ? "25" : PG.rows == 1 ? "1" : PG.rows == 15 ? "15" : "n",
	       !!FEAT.dw, !!FEAT.dh, !!FEAT.ds, !!FEAT.drcs, !!(FEAT.transp | FEAT.semi));
	return 1;
}

/* ---------------- self-test ---------------- */

static void selftest(void)
{
	unsigned v;
	int i, found[5] = { 0, 0, 0, 0, 0 };
	vbi_export_info *xi;
	/* Hamming encoders against the library's decoders */
	for (v = 0; v < (1u << 18); v += 1 + (v > 4096 ? 37 : 0)) {
		uint8_t d[3];
		cor_ham24(d, v);
		if (vbi_unham24p(d) != (int)v) { vf_fail("selftest:C16", "ham24(%05x) decodes to %05x", v, vbi_unham24p(d)); break; }
	}
	for (i = 0; i < 16; i++)
		if (vbi_unham8(cor_ham8(i)) != i) vf_fail("selftest:C16", "ham8(%d) wrong", i);
	for (i = 0; i < 128; i++)
		if (vbi_unpar8(cor_par((unsigned)i)) != i) vf_fail("selftest:C16", "parity(%d) wrong", i);
	/* the five modules exist, text format menu matches our charset table */
	for (i = 0; (xi = vbi_export_info_enum(i)); i++) {
		int m;
		for (m = 0; m < 5; m++) if (!strcmp(xi->keyword, modules[m])) found[m] = 1;
	}
	for (i = 0; i < 5; i++) if (!found[i]) vf_fail("selftest:C16", "export module %s is not enumerated", modules[i]);
	{
		vbi_export *e = vbi_export_new("text", NULL);
		vbi_option_info *oi = e ? vbi_export_option_info_keyword(e, "format") : NULL;
		if (!oi || oi->type != VBI_OPTION_MENU || oi->max.num != 10) vf_fail("selftest:C16", "text.format is not an 11 entry menu");
		else for (i = 0; i <= 10; i++)
			if (!strstr(oi->menu.str[i], text_menu_charsets[i])) vf_fail("selftest:C16", "text.format menu entry %d is '%s', table says %s", i, oi->menu.str[i], text_menu_charsets[i]);
		vbi_export_delete(e);
	}
	/* the failing stream: accepts exactly `limit` bytes, then reports an error */
	{
		struct ru_sink sk;
		FILE *fp = ru_sink_open(&sk, 5, ENOSPC);
		size_t w;
		if (!fp) vf_fail("selftest:C16", "fopencookie failed");
		else {
			setvbuf(fp, NULL, _IONBF, 0);
			w = fwrite("abc", 1, 3, fp);
			if (w != 3 || sk.refused || sk.accepted != 3) vf_fail("selftest:C16", "failing stream refused bytes below its limit");
			errno = 0;
			w = fwrite("defgh", 1, 5, fp);
			if (w >= 5 || !sk.refused || sk.accepted != 5 || memcmp(sk.data, "abcde", 5) || !ferror(fp) || errno != ENOSPC)
				vf_fail("selftest:C16", "failing stream: fwrite returned %zu, accepted %zu, refused %d, ferror %d, errno %d", w, sk.accepted, sk.refused, ferror(fp), errno);
			if (fprintf(fp, "x") >= 0 && !ferror(fp)) vf_fail("selftest:C16", "failing stream accepts data beyond its limit");
			fclose(fp);
			if (sk.accepted != 5) vf_fail("selftest:C16", "failing stream accepted %zu bytes, limit 5", sk.accepted);
		}
		free(sk.data);
	}
	/* convert-back oracle on hand vectors */
	{
		struct cs_info *u8 = cs_get("UTF-8"), *l1 = cs_get("ISO-8859-1"), *u2 = cs_get("UCS-2");
		static const uint8_t s[] = { 'A', 0xC3, 0xA9, '\n', 0xE2, 0x96, 0xA0 };
		uint16_t o[8];
		struct xcell x[3] = { { 'A', 0xFFFF, 0 }, { 0x20, 0xFFFF, 1 }, { 0xE9, 0x20, 0 } };
		uint16_t g1[2] = { 'A', 0xE9 }, g2[3] = { 'A', 0x20, 0x20 }, g3[2] = { 'A', 'B' };
		if (cs_decode(u8, s, sizeof s, o, 8) != 4 || o[0] != 'A' || o[1] != 0xE9 || o[2] != 0x0A || o[3] != 0x25A0) vf_fail("selftest:C16", "UTF-8 decode wrong");
		if (cs_decode(u8, s, 2, o, 8) != -1) vf_fail("selftest:C16", "truncated UTF-8 accepted");
		if (!cs_repr(l1, 0xE9) || cs_repr(l1, 0x25A0) || !cs_repr(u8, 0xEE20) || !cs_repr(u2, 0x0140)) vf_fail("selftest:C16", "representability probe wrong");
		if (u8->wide || l1->wide || !u2->wide) vf_fail("selftest:C16", "wide detection wrong");
		if (!cs_first40(u2, 0x0140) || cs_first40(u2, 0x0141) || cs_first40(u8, 0x0140)) vf_fail("selftest:C16", "first-byte-0x40 probe wrong");
		if (!row_match(x, 3, g1, 2) || !row_match(x, 3, g2, 3) || row_match(x, 3, g3, 2) || row_match(x, 3, g1, 1)) vf_fail("selftest:C16", "row matcher wrong");
		if (parse_gfx_chr("#") != '#' || parse_gfx_chr("0x2588") != 0x2588 || parse_gfx_chr("64") != 64 || parse_gfx_chr("7") != '7') vf_fail("selftest:C16", "gfx_chr parser wrong");
	}
}

int main(int argc, char **argv) { return vf_main(argc, argv, run_case, selftest); }
