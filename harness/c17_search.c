/* C17 - vbi_search_*: the search finds exactly the pages containing the pattern,
 * in page order, and ends.
 *
 * Workload: a compact Teletext packetiser of our own (Hamming 8/4, odd parity,
 * serial mode, every page terminated by a time-filling header) populates the
 * cache through the real decoder (vbi_decode): BCD pages with and without
 * subpages, clock-style subcodes (>= 0x100), hex-numbered pages (displayable
 * only when a MIP page declares them normal pages), holes, a single page, only
 * subpages, nothing at all.  Text comes from a small per-case alphabet (with
 * every regex metacharacter in the pool) plus size attributes (double
 * width/height/size) and mosaics.
 *
 * Oracle (independent of search.c/ure.c/cache.c): the set of cached, displayable
 * (pgno, subno) is established with vbi_fetch_vt_page(); the haystack of each
 * page is rebuilt from that vbi_page as documented in search.c (rows 1-23,
 * double width/size characters count once, row separator) and matched with
 * glibc regcomp()/regexec() (REG_EXTENDED|REG_NEWLINE, REG_ICASE for casefold;
 * literal patterns are escaped by us).  Expected sequence of a pass: the
 * matching pages in ascending (descending) order of (pgno,subno) from the start
 * position, wrapping once, then not-found.  Every returned page must highlight
 * a real occurrence, successive occurrences inside a page must not overlap and
 * must advance.  Termination: every vbi_search_next() runs under the CPU
 * watchdog (phase "vbi_search_next"); sessions with a progress callback also
 * count the pages visited per call (a walk that visits more than three times
 * the cached pages is cancelled and reported).
 */
#include "vf.h"
#include <string.h>
#include <stdlib.h>
#include <regex.h>
#include <locale.h>
#include <wctype.h>
#include "libzvbi.h"
#include "ure.h"            /* internal: only to attribute a miss to the matcher (see matcher_misses_page) */

/* 1: the generator keeps rows free of 8+ digit numbers (see gen_text) */
#ifndef C17_AVOID_KEYWORD_DIGIT_OVERFLOW
#define C17_AVOID_KEYWORD_DIGIT_OVERFLOW 1
#endif

/* ------------------------------------------------------------------ */
/* Teletext packetiser                                                 */

static const uint8_t ham84[16] = {
	0x15, 0x02, 0x49, 0x5E, 0x64, 0x73, 0x38, 0x2F,
	0xD0, 0xC7, 0x8C, 0x9B, 0xA1, 0xB6, 0xFD, 0xEA
};

static uint8_t odd_par(uint8_t c)
{
	int n = 0, i;
	c &= 0x7f;
	for (i = 0; i < 7; i++) n += (c >> i) & 1;
	return (n & 1) ? c : (uint8_t)(c | 0x80);
}

static vbi_decoder *vbi;
static double t_now;
static vbi_sliced frame[12];
static int n_frame;
static long n_packets;

static void flush_frame(void)
{
	if (!n_frame) return;
	vf_phase("vbi_decode");
	vbi_decode(vbi, frame, n_frame, t_now);
	t_now += 0.04;
	n_frame = 0;
}

static void send_raw(int mag8, int row, const uint8_t data[40])
{
	vbi_sliced *s = &frame[n_frame];
	int addr = (mag8 & 7) | (row << 3);
	memset(s, 0, sizeof *s);
	s->id = VBI_SLICED_TELETEXT_B;
	s->line = 7 + (unsigned)n_frame;
	s->data[0] = ham84[addr & 15];
	s->data[1] = ham84[addr >> 4];
	memcpy(s->data + 2, data, 40);
	n_packets++;
	if (++n_frame == (int)(sizeof frame / sizeof frame[0]))
		flush_frame();
}

struct txpage {
	int pgno, subno, national;
	unsigned rowmask;           /* rows 1..24 transmitted */
	uint8_t rows[25][40];       /* 7-bit codes */
	uint8_t clock[8];           /* header columns 32..39 */
};

static void send_header(int pgno, int subno, int national, const uint8_t clock8[8])
{
	uint8_t d[40];
	int i, c7_10 = 0, c11_14;
	static const char fill[] = "  C17 TEST     Mon 29 Sep";
	d[0] = ham84[pgno & 15];
	d[1] = ham84[(pgno >> 4) & 15];
	d[2] = ham84[subno & 15];
	d[3] = ham84[(subno >> 4) & 7];                 /* C4 = 0 */
	d[4] = ham84[(subno >> 8) & 15];
	d[5] = ham84[(subno >> 12) & 3];                /* C5 = C6 = 0 */
	d[6] = ham84[c7_10];
	c11_14 = 1 | ((national >> 2) & 1) << 1 | ((national >> 1) & 1) << 2 | (national & 1) << 3;
	d[7] = ham84[c11_14];                           /* C11: serial mode */
	for (i = 8; i < 32; i++)
		d[i] = odd_par((uint8_t)fill[(i - 8) % (int)(sizeof fill - 1)]);
	/* page number at a fixed place, as the rolling-header logic expects */
	d[8]  = odd_par((uint8_t)('0' + ((pgno >> 8) & 15)));
	d[9]  = odd_par((uint8_t)('0' + ((pgno >> 4) & 15)));
	d[10] = odd_par((uint8_t)('0' + (pgno & 15)));
	for (i = 0; i < 8; i++)
		d[32 + i] = odd_par(clock8[i]);
	send_raw(pgno >> 8, 0, d);
}

static const uint8_t blank_clock[8] = { '1', '2', ':', '0', '0', ':', '0', '0' };

static void send_filler(int mag8)
{
	send_header(((mag8 & 7) ? (mag8 & 7) : 8) * 0x100 + 0xFF, 0x3F7F, 0, blank_clock);
}

static void send_page(const struct txpage *p)
{
	int row, i;
	uint8_t d[40];
	send_header(p->pgno, p->subno, p->national, p->clock);
	for (row = 1; row <= 24; row++) {
		if (!(p->rowmask & (1u << row))) continue;
		for (i = 0; i < 40; i++) d[i] = odd_par(p->rows[row][i]);
		send_raw(p->pgno >> 8, row, d);
	}
	send_filler(p->pgno >> 8);      /* terminates the page (serial mode) */
}

/* MIP of one magazine declaring every page a normal page (code 0x01), which is
 * what makes the decoder treat hex-numbered pages as displayable pages. */
static void send_mip(int mag8)
{
	uint8_t d[40];
	int row, i;
	send_header(mag8 * 0x100 + 0xFD, 0, 0, blank_clock);
	for (row = 1; row <= 14; row++) {
		for (i = 0; i < 40; i += 2) { d[i] = ham84[1]; d[i + 1] = ham84[0]; }
		send_raw(mag8, row, d);
	}
	send_filler(mag8);
}

static void ev_handler(vbi_event *ev, void *ud) { (void)ev; (void)ud; }

/* ------------------------------------------------------------------ */
/* Oracle: haystack, character encoding, matcher                       */

#define HS_MAX (24 * 41 + 4)
#define MAXDB 96

static int utf8_mode;               /* job mode "utf8": LC_CTYPE C.utf8, else "C" */
static int bytemap[65536];          /* C mode: UCS-2 -> private byte */
static int bytemap_next;
static int alphabet_overflow;

static void enc_reset(void)
{
	memset(bytemap, 0, sizeof bytemap);
	bytemap_next = 0x80;
	alphabet_overflow = 0;
}

/* encode one UCS-2 character for the reference matcher; returns bytes written */
static int enc(unsigned c, int casefold, char *out)
{
	if (utf8_mode) {
		if (c < 0x80) { out[0] = (char)c; return 1; }
		if (c < 0x800) { out[0] = (char)(0xC0 | (c >> 6)); out[1] = (char)(0x80 | (c & 0x3F)); return 2; }
		out[0] = (char)(0xE0 | (c >> 12)); out[1] = (char)(0x80 | ((c >> 6) & 0x3F)); out[2] = (char)(0x80 | (c & 0x3F));
		return 3;
	}
	if (c >= 0x20 && c < 0x7F) { out[0] = (char)c; return 1; }
	if (c == 0x0A) { out[0] = '\n'; return 1; }
	if (casefold) c = (unsigned)towlower((wint_t)c) & 0xFFFF;
	if (!bytemap[c]) {
		if (bytemap_next > 0xFF) { alphabet_overflow = 1; out[0] = (char)0xFF; return 1; }
		bytemap[c] = bytemap_next++;
	}
	out[0] = (char)bytemap[c];
	return 1;
}

struct dbpage {
	int pgno, subno;
	unsigned key;
	/* [0] = D: documented haystack (lower halves of double height/size characters
	 *          appear on the lower row too);
	 * [1] = Q: lower halves skipped (what search.c does) */
	int n[2];
	uint16_t us[2][HS_MAX];
	short cellpos[25][41];      /* cell -> index into us[1] or -1 */
	uint16_t uni[25][41];
	uint8_t size[25][41];
	int has_lower;
	int match[2];
	int sent_subno_above_ff, subno0_beside;
};

static struct dbpage db[MAXDB];
static int n_db;

static void build_haystacks(const vbi_page *pg, struct dbpage *d)
{
	int r, c, k;
	int cols = pg->columns;
	d->n[0] = d->n[1] = 0;
	d->has_lower = 0;
	memset(d->cellpos, 0xFF, sizeof d->cellpos);
	for (r = 0; r < 25; r++)
		for (c = 0; c < 41; c++) {
			const vbi_char *ac = &pg->text[r * cols + (c < cols ? c : cols - 1)];
			d->uni[r][c] = (uint16_t)ac->unicode;
			d->size[r][c] = (uint8_t)ac->size;
		}
	for (r = 1; r <= 23; r++) {
		for (c = 0; c < 40; c++) {
			const vbi_char *ac = &pg->text[r * cols + c];
			int p = d->n[1];
			switch (ac->size) {
			case VBI_NORMAL_SIZE:
				d->cellpos[r][c] = (short)p;
				break;
			case VBI_DOUBLE_HEIGHT:
				d->cellpos[r][c] = (short)p;
				if (r < 24) d->cellpos[r + 1][c] = (short)p;
				break;
			case VBI_DOUBLE_WIDTH:
				d->cellpos[r][c] = (short)p;
				if (c < 39) d->cellpos[r][c + 1] = (short)p;
				break;
			case VBI_DOUBLE_SIZE:
				d->cellpos[r][c] = (short)p;
				if (c < 39) d->cellpos[r][c + 1] = (short)p;
				if (r < 24) {
					d->cellpos[r + 1][c] = (short)p;
					if (c < 39) d->cellpos[r + 1][c + 1] = (short)p;
				}
				break;
			case VBI_DOUBLE_HEIGHT2:
			case VBI_DOUBLE_SIZE2:
				/* documented: "double height and size characters will match
				 * twice, on the upper and lower row" */
				d->has_lower = 1;
				d->us[0][d->n[0]++] = (uint16_t)ac->unicode;
				if (ac->size == VBI_DOUBLE_SIZE2) c++;
				continue;
			default:        /* OVER_TOP, OVER_BOTTOM without an anchor: not text */
				continue;
			}
			for (k = 0; k < 2; k++)
				d->us[k][d->n[k]++] = (uint16_t)ac->unicode;
			if (ac->size == VBI_DOUBLE_WIDTH || ac->size == VBI_DOUBLE_SIZE)
				c++;    /* "double width and size characters count as one" */
		}
		for (k = 0; k < 2; k++)
			d->us[k][d->n[k]++] = 0x0A;
	}
}

/* the compiled reference pattern */
static regex_t ref_re;
static int ref_ok;
static int ref_casefold;

static int ref_compile(const char *ere, int casefold)
{
	int fl = REG_EXTENDED | REG_NEWLINE | (casefold ? REG_ICASE : 0);
	if (ref_ok) { regfree(&ref_re); ref_ok = 0; }
	ref_casefold = casefold;
	if (regcomp(&ref_re, ere, fl) != 0) return 0;
	ref_ok = 1;
	return 1;
}

/* encode us[0..n) ; boff[i] = byte offset of character i (boff[n] = total) */
static int enc_string(const uint16_t *us, int n, char *out, int *boff)
{
	int i, o = 0;
	for (i = 0; i < n; i++) {
		if (boff) boff[i] = o;
		o += enc(us[i], ref_casefold, out + o);
	}
	if (boff) boff[n] = o;
	out[o] = 0;
	return o;
}

/* first match in us[from..n): returns 1 and character offsets */
static int ref_search(const uint16_t *us, int n, int from, int *ms, int *me)
{
	static char buf[HS_MAX * 3 + 4];
	static int boff[HS_MAX + 1];
	regmatch_t m[1];
	int i, so, eo;
	if (from >= n) return 0;
	enc_string(us + from, n - from, buf, boff);
	if (regexec(&ref_re, buf, 1, m, (from > 0 && us[from - 1] != 0x0A) ? REG_NOTBOL : 0) != 0) return 0;
	so = eo = -1;
	for (i = 0; i <= n - from; i++) {
		if (boff[i] == m[0].rm_so && so < 0) so = i;
		if (boff[i] == m[0].rm_eo) eo = i;
	}
	if (so < 0 || eo < 0) return 0;
	*ms = from + so; *me = from + eo;
	return 1;
}

/* does us[a..b) match the pattern as a whole? */
static int ref_fullmatch(const uint16_t *us, int a, int b)
{
	int ms, me;
	if (a >= b) return 0;
	if (!ref_search(us + a, b - a, 0, &ms, &me)) return 0;
	return ms == 0 && me == b - a;
}

/* does us[a..b) of the haystack us[0..n) match the pattern as a whole, where it stands?  (an anchored expression
 * matches only at the beginning / end of a row) */
static int ref_fullmatch_ctx(const uint16_t *us, int n, int a, int b)
{
	static char buf[HS_MAX * 3 + 4];
	static int boff[HS_MAX + 1];
	regmatch_t m[1];
	int fl = 0;
	if (a >= b || b > n) return 0;
	if (a > 0 && us[a - 1] != 0x0A) fl |= REG_NOTBOL;
	if (b < n && us[b] != 0x0A) fl |= REG_NOTEOL;
	enc_string(us + a, b - a, buf, boff);
	if (regexec(&ref_re, buf, 1, m, fl) != 0) return 0;
	return m[0].rm_so == 0 && m[0].rm_eo == boff[b - a];
}

/* ------------------------------------------------------------------ */
/* pattern generation                                                  */

#define PAT_MAX 96
struct pattern {
	uint16_t ure[PAT_MAX + 1];  /* what the library gets */
	int n_ure;
	uint16_t ere_us[PAT_MAX * 2 + 8]; /* reference ERE, as UCS-2 (encoded later) */
	int n_ere;
	int regexp, casefold;
	int overlap;                /* regexp whose symbols are not pairwise disjoint */
	int has_dot, has_neg;
	int n_escaped_hex, n_escaped_plain;   /* literals written as \xHHHH / as a needlessly escaped character */
	int anchor;                 /* bit 0: begins with ^, bit 1: ends with $ */
	int n_props;                /* \\pN property classes */
	char text[PAT_MAX * 7 + 8]; /* printable form for details */
};

static int is_ere_special(unsigned c)
{
	return c < 0x80 && c && strchr("\\.[]()*+?{}|^$", (int)c) != NULL;
}

static void pat_printable(struct pattern *p)
{
	int i, o = 0;
	for (i = 0; i < p->n_ure; i++) {
		unsigned c = p->ure[i];
		if (c >= 0x21 && c < 0x7F && c != '"' && c != '\\') p->text[o++] = (char)c;
		else o += sprintf(p->text + o, "\\u%04x", c);
	}
	p->text[o] = 0;
}

static void pat_literal(struct pattern *p, const uint16_t *s, int n, int casefold)
{
	int i;
	memset(p, 0, sizeof *p);
	p->casefold = casefold;
	for (i = 0; i < n && i < PAT_MAX / 2; i++) {
		p->ure[p->n_ure++] = s[i];
		if (is_ere_special(s[i])) p->ere_us[p->n_ere++] = '\\';
		p->ere_us[p->n_ere++] = s[i];
	}
	p->ure[p->n_ure] = 0;
	pat_printable(p);
}

/* regex symbols seen so far, for the overlap classification */
struct symset { int dot, neg, cls, prop; uint16_t ch[8]; int n; };  /* prop: \\pN property class 1 digit, 2 lowercase, 3 uppercase */  /* cls: bracket expression (never the same ure symbol as a plain character) */
static struct symset syms[32];
static int n_syms;

static unsigned foldc(unsigned c, int casefold) { return casefold ? ((unsigned)towlower((wint_t)c) & 0xFFFF) : c; }

static int prop_of(unsigned c) { return iswdigit((wint_t)c) ? 1 : iswlower((wint_t)c) ? 2 : iswupper((wint_t)c) ? 3 : 0; }

static int sym_contains(const struct symset *s, unsigned c)
{
	int i, in = 0;
	if (s->dot) return c != 0x0A;
	if (s->prop) return prop_of(c) == s->prop;
	for (i = 0; i < s->n; i++) if (s->ch[i] == c) in = 1;
	return s->neg ? (!in && c != 0x0A) : in;
}

static int in_list(const struct symset *s, unsigned c)
{
	int i;
	for (i = 0; i < s->n; i++) if (s->ch[i] == c) return 1;
	return 0;
}

static int sym_equal(const struct symset *a, const struct symset *b)
{
	int i;
	if (a->dot != b->dot || a->neg != b->neg || a->cls != b->cls || a->prop != b->prop) return 0;
	for (i = 0; i < a->n; i++) if (!in_list(b, a->ch[i])) return 0;
	for (i = 0; i < b->n; i++) if (!in_list(a, b->ch[i])) return 0;
	return 1;
}

static int syms_overlap(void)
{
	int i, j, k;
	for (i = 0; i < n_syms; i++)
		for (j = i + 1; j < n_syms; j++) {
			const struct symset *a = &syms[i], *b = &syms[j];
			if (sym_equal(a, b)) continue;
			if ((a->dot || a->neg) && (b->dot || b->neg)) return 1;
			if ((a->prop && (b->dot || b->neg)) || (b->prop && (a->dot || a->neg))) return 1;
			for (k = 0; k < a->n; k++) if (!a->neg && sym_contains(b, a->ch[k])) return 1;
			for (k = 0; k < b->n; k++) if (!b->neg && sym_contains(a, b->ch[k])) return 1;
		}
	return 0;
}

static void put(struct pattern *p, unsigned c)
{
	if (p->n_ure < PAT_MAX) p->ure[p->n_ure++] = (uint16_t)c;
	if (p->n_ere < PAT_MAX * 2) p->ere_us[p->n_ere++] = (uint16_t)c;
}

static struct vf_rng *lit_rng;      /* set while a regular expression is generated */

/* does the ure expression so far end in a bare property class \pN1,N2 (whose number list a following digit or
 * comma would continue)? */
static int ure_tail_is_prop(const struct pattern *p)
{
	int i = p->n_ure;
	while (i > 0 && ((p->ure[i - 1] >= '0' && p->ure[i - 1] <= '9') || p->ure[i - 1] == ',')) i--;
	return i >= 2 && i < p->n_ure && (p->ure[i - 1] == 'p' || p->ure[i - 1] == 'P') && p->ure[i - 2] == '\\';
}

static void put_lit(struct pattern *p, unsigned c)
{
	struct symset *s = &syms[n_syms < 31 ? n_syms++ : 31];
	int must_escape = p->regexp && lit_rng && ((c >= '0' && c <= '9') || c == ',') && ure_tail_is_prop(p);
	memset(s, 0, sizeof *s);
	s->ch[0] = (uint16_t)foldc(c, p->casefold); s->n = 1;
	if (p->regexp && lit_rng && (must_escape || vf_chance(lit_rng, 1, 5))) {
		/* The same literal written as an escape (ure.c _ure_compile_symbol): \xHHHH, \uHHHH with one to four hex
		 * digits (four are written, so that a following hex digit of the pattern is not swallowed), or a
		 * backslash in front of a character that needs none.  The reference expression gets the plain literal. */
		static const char hexd[2][17] = { "0123456789abcdef", "0123456789ABCDEF" };
		int k, up = (int)vf_below(lit_rng, 2);
		if (p->n_ure < PAT_MAX - 6) {
			if (must_escape || vf_chance(lit_rng, 2, 3) || c >= 0x80 || strchr("pPabfnrtvxXuU", (int)c) || is_ere_special(c)) {
				p->ure[p->n_ure++] = '\\';
				p->ure[p->n_ure++] = (uint16_t)"xXuU"[vf_below(lit_rng, 4)];
				for (k = 12; k >= 0; k -= 4) p->ure[p->n_ure++] = (uint16_t)hexd[up][(c >> k) & 15];
				p->n_escaped_hex++;
			} else {
				p->ure[p->n_ure++] = '\\';
				p->ure[p->n_ure++] = (uint16_t)c;
				p->n_escaped_plain++;
			}
			if (is_ere_special(c) && p->n_ere < PAT_MAX * 2) p->ere_us[p->n_ere++] = '\\';
			if (p->n_ere < PAT_MAX * 2) p->ere_us[p->n_ere++] = (uint16_t)c;
			return;
		}
	}
	if (is_ere_special(c)) put(p, '\\');
	put(p, c);
}

static int is_alnum_ascii(unsigned c)
{
	return (c >= '0' && c <= '9') || (c >= 'a' && c <= 'z') || (c >= 'A' && c <= 'Z');
}

/* an alphanumeric character different from c, preferably from the alphabet */
static unsigned other_alnum(struct vf_rng *r, const uint16_t *alpha, int n_alpha, unsigned c)
{
	int t;
	for (t = 0; t < 8; t++) {
		unsigned x = alpha[vf_below(r, (unsigned)n_alpha)];
		if (is_alnum_ascii(x) && x != c) return x;
	}
	return c == 'x' ? 'y' : 'x';
}

static void put_class(struct vf_rng *r, struct pattern *p, unsigned c, const uint16_t *alpha, int n_alpha)
{
	struct symset *s = &syms[n_syms < 31 ? n_syms++ : 31];
	unsigned x = other_alnum(r, alpha, n_alpha, c);
	memset(s, 0, sizeof *s);
	s->cls = 1;
	if (!is_alnum_ascii(c) || vf_chance(r, 1, 3)) {
		/* negated class of one or two alphanumerics not containing c */
		unsigned y = other_alnum(r, alpha, n_alpha, c);
		s->neg = 1; p->has_neg = 1;
		put(p, '['); put(p, '^'); put(p, x); s->ch[s->n++] = (uint16_t)foldc(x, p->casefold);
		if (y != x && vf_chance(r, 1, 2)) { put(p, y); s->ch[s->n++] = (uint16_t)foldc(y, p->casefold); }
		put(p, ']');
		if (p->casefold && (foldc(c, 1) == foldc(x, 1) || foldc(c, 1) == foldc(y, 1))) { /* may exclude c: fine */ }
		return;
	}
	put(p, '[');
	if (vf_chance(r, 1, 3)) {
		/* a short range around c inside its category */
		unsigned lo = c, hi = c, base = (c >= '0' && c <= '9') ? '0' : (c >= 'a' && c <= 'z') ? 'a' : 'A';
		unsigned top = base == '0' ? '9' : base + 25, k;
		if (lo > base) lo -= vf_below(r, 2);
		if (hi < top) hi += 1 + vf_below(r, 2);
		if (hi > top) hi = top;
		if (hi == lo) { if (hi < top) hi++; else lo--; }
		put(p, lo); put(p, '-'); put(p, hi);
		for (k = lo; k <= hi && s->n < 8; k++) s->ch[s->n++] = (uint16_t)foldc(k, p->casefold);
	} else {
		put(p, c); s->ch[s->n++] = (uint16_t)foldc(c, p->casefold);
		put(p, x); s->ch[s->n++] = (uint16_t)foldc(x, p->casefold);
	}
	put(p, ']');
}

/* one piece generalising sample character c; returns 1 if the piece is nullable */
static int put_piece(struct vf_rng *r, struct pattern *p, unsigned c, const uint16_t *alpha, int n_alpha, int allow_nullable)
{
	unsigned form = vf_below(r, 100), q;
	int group = 0;
	if (!p->casefold && prop_of(c) && ((form >= 36 && form < 45) || (p->n_props && vf_chance(r, 1, 2)))) {
		/* character property class \pN (a documented extension): 4 digit, 6 lowercase, 10 uppercase; the same
		 * wctype predicates as the POSIX classes of the reference matcher in the same locale */
		static const char *const ure_p[4] = { "", "\\p4", "\\p6", "\\p10" }, *const ere_p[4] = { "", "[[:digit:]]", "[[:lower:]]", "[[:upper:]]" };
		struct symset *s = &syms[n_syms < 31 ? n_syms++ : 31];
		const char *q2;
		int k = prop_of(c);
		memset(s, 0, sizeof *s); s->cls = 1; s->prop = k;
		int br = vf_chance(r, 1, 2);     /* "[...\\p1,3,4]": a class may consist of a property class */
		if (br && p->n_ure < PAT_MAX) p->ure[p->n_ure++] = '[';
		for (q2 = ure_p[k]; *q2; q2++) if (p->n_ure < PAT_MAX) p->ure[p->n_ure++] = (uint16_t)(unsigned char)*q2;
		if (br && p->n_ure < PAT_MAX) p->ure[p->n_ure++] = ']';
		for (q2 = ere_p[k]; *q2; q2++) if (p->n_ere < PAT_MAX * 2) p->ere_us[p->n_ere++] = (uint16_t)(unsigned char)*q2;
		p->n_props++;
	} else if (form < 45) put_lit(p, c);
	else if (form < 58) {
		struct symset *s = &syms[n_syms < 31 ? n_syms++ : 31];
		memset(s, 0, sizeof *s); s->dot = 1; p->has_dot = 1;
		put(p, '.');
	} else if (form < 78) put_class(r, p, c, alpha, n_alpha);
	else {
		/* group with alternation: (c|x) or (cy|x) or (x|c) */
		unsigned x = alpha[vf_below(r, (unsigned)n_alpha)], y = alpha[vf_below(r, (unsigned)n_alpha)];
		group = 1;
		put(p, '(');
		if (vf_chance(r, 1, 2)) { put_lit(p, c); if (vf_chance(r, 1, 3)) put_lit(p, y); put(p, '|'); put_lit(p, x); }
		else { put_lit(p, x); put(p, '|'); put_lit(p, c); }
		put(p, ')');
	}
	(void)group;
	q = vf_below(r, 100);
	if (q < 10) { put(p, '+'); return 0; }
	if (allow_nullable && q < 18) { put(p, '?'); return 1; }
	if (allow_nullable && q < 26) { put(p, '*'); return 1; }
	return 0;
}

static void pat_regex(struct vf_rng *r, struct pattern *p, const uint16_t *sample, int n, int casefold,
		      const uint16_t *alpha, int n_alpha, int anchor)
{
	int i, alts, a;
	memset(p, 0, sizeof *p);
	p->regexp = 1; p->casefold = casefold; p->anchor = anchor;
	n_syms = 0;
	lit_rng = r;
	alts = vf_chance(r, 1, 6) ? 2 : 1;
	for (a = 0; a < alts; a++) {
		int nonnull = 0;
		if (a) put(p, '|');
		/* anchors bind to the alternative they stand in: "^ab|c" is (^ab)|(c) in both dialects */
		if (a == 0 && (anchor & 1)) put(p, '^');
		for (i = 0; i < n && p->n_ure < PAT_MAX - 24; i++) {
			unsigned c = a ? alpha[vf_below(r, (unsigned)n_alpha)] : sample[i];
			int last = (i == n - 1);
			int nullable = put_piece(r, p, c, alpha, n_alpha, !(last && !nonnull));
			if (!nullable) nonnull = 1;
		}
		if (a == 0 && (anchor & 2)) put(p, '$');
	}
	p->ure[p->n_ure] = 0;
	lit_rng = NULL;
	p->overlap = syms_overlap();
	pat_printable(p);
}

static int pat_compile_ref(const struct pattern *p)
{
	static char ere[PAT_MAX * 8 + 16];
	int i, o = 0;
	ref_casefold = p->casefold;
	for (i = 0; i < p->n_ere; i++)
		o += enc(p->ere_us[i], p->casefold, ere + o);
	ere[o] = 0;
	return ref_compile(ere, p->casefold);
}

/* ------------------------------------------------------------------ */
/* population                                                           */

#define MAXTX 64
static struct txpage tx[MAXTX];
static int n_tx;

static const uint8_t pool[] = {
	'a', 'b', 'c', 'a', 'b', 'A', 'B', 'C', 'x', 'Z', '0', '1', '9',
	'.', '*', '+', '?', '(', ')', '-', '/', ':', ';', '=', '!', '"', '%', '&', '\'', ',', '<', '>', '@',
	0x23, 0x24, 0x5B, 0x5C, 0x5D, 0x5E, 0x5F, 0x60, 0x7B, 0x7C, 0x7D, 0x7E, 0x7F
};

static uint8_t alpha_raw[10];
static int n_alpha_raw;

static void gen_alphabet(struct vf_rng *r)
{
	int i;
	n_alpha_raw = vf_range(r, 3, 8);
	for (i = 0; i < n_alpha_raw; i++)
		alpha_raw[i] = (i < 2) ? pool[vf_below(r, 13)] : pool[vf_below(r, sizeof pool)];
}

static void gen_text(struct vf_rng *r, struct txpage *p, int rich)
{
	int nrows = vf_range(r, 0, 4), k, i;
	memset(p->rows, 0x20, sizeof p->rows);
	p->rowmask = 0;
	for (k = 0; k < nrows; k++) {
		int row = vf_chance(r, 1, 12) ? 24 : vf_chance(r, 1, 6) ? (vf_chance(r, 1, 2) ? 1 : 23) : vf_range(r, 1, 23);
		int words = vf_range(r, 1, 3), w;
		uint8_t *d = p->rows[row];
		p->rowmask |= 1u << row;
		for (w = 0; w < words; w++) {
			int len = vf_chance(r, 1, 8) ? vf_range(r, 9, 40) : vf_range(r, 1, 8);
			int col = vf_chance(r, 1, 5) ? (vf_chance(r, 1, 2) ? 0 : 40 - (len > 40 ? 40 : len)) : vf_range(r, 0, 39);
			for (i = 0; i < len && col + i < 40; i++)
				d[col + i] = vf_chance(r, 1, 7) ? 0x20 : alpha_raw[vf_below(r, (unsigned)n_alpha_raw)];
		}
		if (rich && vf_chance(r, 1, 3)) {
			/* size attribute somewhere, perhaps normal size later */
			static const uint8_t sz[] = { 0x0D, 0x0E, 0x0F, 0x0D, 0x0F };
			int col = vf_range(r, 0, 36);
			d[col] = sz[vf_below(r, sizeof sz)];
			if (vf_chance(r, 1, 3)) d[vf_range(r, col + 1, 39)] = 0x0C;
		}
		if (rich && vf_chance(r, 1, 8)) {
			int col = vf_range(r, 0, 30), len = vf_range(r, 1, 6);
			d[col] = (uint8_t)(0x10 + vf_range(r, 1, 7));        /* mosaic colour */
			for (i = 1; i <= len; i++) d[col + i] = (uint8_t)(vf_chance(r, 1, 2) ? vf_range(r, 0x21, 0x3F) : vf_range(r, 0x60, 0x7F));
			d[col + len + 1] = (uint8_t)vf_range(r, 1, 7);       /* back to alpha */
		}
		if (rich && vf_chance(r, 1, 6))
			d[vf_range(r, 0, 39)] = (uint8_t)vf_range(r, 1, 7);  /* colour attribute (a space) */
	}
	/* keyword() in teletext.c (page number links) overflows an int on runs of 8+
	 * digits - a defect outside this property (C01).  Double width text hides
	 * every other cell, which joins digits that are apart in the packet, so the
	 * number of digits per row is limited, not the length of a run. */
#if C17_AVOID_KEYWORD_DIGIT_OVERFLOW
	for (k = 1; k <= 24; k++) {
		int digits = 0;
		for (i = 0; i < 40; i++)
			if (p->rows[k][i] >= '0' && p->rows[k][i] <= '9' && ++digits > 6)
				p->rows[k][i] = 0x20;
	}
#endif
	for (i = 0; i < 8; i++)
		p->clock[i] = vf_chance(r, 1, 2) ? blank_clock[i] : alpha_raw[vf_below(r, (unsigned)n_alpha_raw)];
}

static int bcd2(struct vf_rng *r, int lo, int hi)
{
	int v = vf_range(r, lo, hi);
	return ((v / 10) << 4) | (v % 10);
}

static int rand_bcd_pgno(struct vf_rng *r, int mag_lo, int mag_hi)
{
	return vf_range(r, mag_lo, mag_hi) * 0x100 + bcd2(r, 0, 99);
}

static int rand_hex_pgno(struct vf_rng *r, int mag)
{
	int p;
	do p = (int)vf_below(r, 0xFD); while (((p & 15) <= 9) && (p >> 4) <= 9);
	return mag * 0x100 + p;
}

enum { SH_EMPTY, SH_SINGLE, SH_SUBPAGES, SH_SPARSE, SH_DENSE, SH_HEX, SH_CLOCK, SH_MIXED, N_SHAPES };
static const char *shape_name[] = { "empty", "single", "only-subpages", "sparse", "dense", "hex", "clock-subcodes", "mixed" };

static int mip_mask;            /* magazines (bit m, m=1..8) announced by a MIP */
static int n_hex, n_clock, n_sub0_beside;

static struct txpage *add_tx(struct vf_rng *r, int pgno, int subno, int rich)
{
	struct txpage *p;
	if (n_tx >= MAXTX) return NULL;
	p = &tx[n_tx++];
	memset(p, 0, sizeof *p);
	p->pgno = pgno; p->subno = subno;
	p->national = vf_chance(r, 1, 2) ? 0 : vf_chance(r, 1, 2) ? 7 : vf_range(r, 1, 6);
	gen_text(r, p, rich);
	return p;
}

static void add_subpages(struct vf_rng *r, int pgno, int rich)
{
	int n = vf_range(r, 1, 5), first = vf_range(r, 1, 4), step = vf_chance(r, 1, 4) ? 2 : 1, i;
	if (vf_chance(r, 1, 8)) { add_tx(r, pgno, 0, rich); n_sub0_beside++; }   /* stale single-page version */
	for (i = 0; i < n; i++) {
		int s = first + i * step;
		add_tx(r, pgno, ((s / 10) << 4) | (s % 10), rich);
	}
}

static int clock_subno(struct vf_rng *r)
{
	return (bcd2(r, 0, 23) << 8) | (vf_chance(r, 1, 3) ? 0 : bcd2(r, 0, 59));
}

static void gen_population(struct vf_rng *r, int shape, int rich)
{
	int i, n, lo, hi, mag;
	n_tx = 0; mip_mask = 0; n_hex = n_clock = n_sub0_beside = 0;
	switch (shape) {
	case SH_EMPTY:
		break;
	case SH_SINGLE:
		add_tx(r, vf_chance(r, 1, 4) ? (vf_chance(r, 1, 2) ? 0x100 : 0x899) : rand_bcd_pgno(r, 1, 8), 0, rich);
		break;
	case SH_SUBPAGES:
		add_subpages(r, rand_bcd_pgno(r, 1, 8), rich);
		break;
	case SH_SPARSE:
		n = vf_range(r, 2, 6);
		for (i = 0; i < n; i++) {
			int pgno = rand_bcd_pgno(r, 1, 8);
			if (vf_chance(r, 1, 4)) add_subpages(r, pgno, rich); else add_tx(r, pgno, 0, rich);
		}
		break;
	case SH_DENSE:
		lo = vf_range(r, 1, 8); hi = lo;
		n = vf_range(r, 6, 20);
		for (i = 0; i < n; i++) {
			int pgno = lo * 0x100 + bcd2(r, 0, 30);
			if (vf_chance(r, 1, 5)) add_subpages(r, pgno, rich); else add_tx(r, pgno, 0, rich);
		}
		(void)hi;
		break;
	case SH_HEX:
		mag = vf_range(r, 1, 8);
		if (vf_chance(r, 3, 4)) mip_mask |= 1 << mag;
		n = vf_range(r, 1, 6);
		for (i = 0; i < n; i++) {
			int sub = vf_chance(r, 1, 2) ? (int)vf_below(r, 16) : ((int)vf_below(r, 0x4000) & 0x3F7F);
			add_tx(r, rand_hex_pgno(r, mag), sub, rich); n_hex++;
		}
		n = vf_range(r, 0, 4);
		for (i = 0; i < n; i++) add_tx(r, rand_bcd_pgno(r, mag, mag), 0, rich);
		break;
	case SH_CLOCK:
		n = vf_range(r, 1, 4);
		for (i = 0; i < n; i++) { add_tx(r, rand_bcd_pgno(r, 1, 8), clock_subno(r), rich); n_clock++; }
		n = vf_range(r, 0, 4);
		for (i = 0; i < n; i++) add_tx(r, rand_bcd_pgno(r, 1, 8), 0, rich);
		break;
	default:
		n = vf_range(r, 3, 12);
		mag = vf_range(r, 1, 8);
		if (vf_chance(r, 1, 2)) mip_mask |= 1 << mag;
		for (i = 0; i < n; i++) {
			switch (vf_below(r, 6)) {
			case 0: add_subpages(r, rand_bcd_pgno(r, 1, 8), rich); break;
			case 1: add_tx(r, rand_bcd_pgno(r, 1, 8), clock_subno(r), rich); n_clock++; break;
			case 2: add_tx(r, rand_hex_pgno(r, mag), (int)vf_below(r, 0x4000) & 0x3F7F, rich); n_hex++; break;
			default: add_tx(r, rand_bcd_pgno(r, 1, 8), 0, rich); break;
			}
		}
		break;
	}
	/* transmission order is not page order */
	for (i = n_tx - 1; i > 0; i--) {
		int j = (int)vf_below(r, (unsigned)i + 1);
		struct txpage t = tx[i]; tx[i] = tx[j]; tx[j] = t;
	}
}

static void transmit_population(void)
{
	int i, m;
	for (m = 1; m <= 8; m++) if (mip_mask & (1 << m)) send_mip(m);
	for (i = 0; i < n_tx; i++) send_page(&tx[i]);
	flush_frame();
}

/* Which (pgno, subno) are cached and displayable now, and their text. */
static int fetch_level;

static int db_find(int pgno, int subno)
{
	int i;
	for (i = 0; i < n_db; i++) if (db[i].pgno == pgno && db[i].subno == subno) return i;
	return -1;
}

static int cmp_db(const void *a, const void *b)
{
	const struct dbpage *x = a, *y = b;
	return x->key < y->key ? -1 : x->key > y->key;
}

static void build_db(void)
{
	static vbi_page pg;
	int i, k, j;
	n_db = 0;
	for (i = 0; i < n_tx; i++) {
		int cand[2];
		cand[0] = tx[i].subno & 0x3F7F; cand[1] = 0;
		for (k = 0; k < 2; k++) {
			vf_phase("vbi_fetch_vt_page");
			memset(&pg, 0, sizeof pg);
			if (!vbi_fetch_vt_page(vbi, &pg, tx[i].pgno, cand[k], (vbi_wst_level)fetch_level, 25, 1)) continue;
			if (pg.pgno != tx[i].pgno || pg.subno != cand[k]) {
				vf_fail("model:C17:fetch-returned-other-page", "vbi_fetch_vt_page(%x, %x) returned page %x.%x", tx[i].pgno, cand[k], pg.pgno, pg.subno);
				continue;
			}
			if (db_find(pg.pgno, pg.subno) >= 0 || n_db >= MAXDB) continue;
			db[n_db].pgno = pg.pgno; db[n_db].subno = pg.subno;
			db[n_db].key = ((unsigned)pg.pgno << 16) | (unsigned)pg.subno;
			build_haystacks(&pg, &db[n_db]);
			n_db++;
		}
	}
	qsort(db, (size_t)n_db, sizeof db[0], cmp_db);
	for (i = 0; i < n_db; i++) {
		db[i].sent_subno_above_ff = db[i].subno > 0xFF;
		db[i].subno0_beside = 0;
		if (db[i].subno == 0)
			for (j = 0; j < n_db; j++)
				if (j != i && db[j].pgno == db[i].pgno) db[i].subno0_beside = 1;
	}
}

/* ------------------------------------------------------------------ */
/* expected sequence                                                    */

/* position the documented start (pgno, subno) denotes */
static unsigned start_key(int pgno, int subno, int dir)
{
	if (dir > 0) return ((unsigned)pgno << 16) | (unsigned)(subno == VBI_ANY_SUBNO ? 0 : subno);
	return ((unsigned)pgno << 16) | (unsigned)subno;     /* VBI_ANY_SUBNO = 0x3F7F sorts after every subpage */
}

/* Matching pages in the order a pass from `key` must return them.
 * forward: first page is the first with key >= start; backward: the start page
 * is the last one to visit, i.e. the first is the last with key < start. */
#define EXP_MATCH(j, hk) ((hk) == 2 ? (db[j].match[0] || db[j].match[1]) : db[j].match[hk])
static int expected_order(int hk, unsigned key, int dir, int skip, int *out)
{
	int i, n = 0, first;
	if (n_db == 0) return 0;
	if (dir > 0) {
		for (first = 0; first < n_db && db[first].key < key; first++) ;
		for (i = 0; i < n_db; i++) {
			int j = (first + i) % n_db;
			if (EXP_MATCH(j, hk) && j != skip) out[n++] = j;
		}
	} else {
		for (first = n_db - 1; first >= 0 && db[first].key >= key; first--) ;
		if (first < 0) first = n_db - 1;
		for (i = 0; i < n_db; i++) {
			int j = ((first - i) % n_db + n_db) % n_db;
			if (EXP_MATCH(j, hk) && j != skip) out[n++] = j;
		}
	}
	return n;
}

static void compute_matches(void)
{
	int i, k, ms, me;
	for (i = 0; i < n_db; i++)
		for (k = 0; k < 2; k++)
			db[i].match[k] = ref_search(db[i].us[k], db[i].n[k], 0, &ms, &me);
}

/* ------------------------------------------------------------------ */
/* the search session                                                   */

static long progress_calls, progress_limit;
static long calls_left;         /* per session budget of vbi_search_next() calls */
static int truncated;
static int cancel_at;           /* cancel when progress_calls reaches this (0 = never) */
static int runaway;

static int progress_cb(vbi_page *pg)
{
	(void)pg;
	progress_calls++;
	if (progress_calls > progress_limit) { runaway = 1; return 0; }
	if (cancel_at && progress_calls == cancel_at) return 0;
	return 1;
}

#define HL_FG (32 + VBI_BLACK)
#define HL_BG (32 + VBI_YELLOW)

/* highlighted range of a returned page in terms of the Q haystack of db page d;
 * returns 0 and reports on inconsistencies */
static int check_highlight(const vbi_page *pg, const struct dbpage *d, const struct pattern *p, int *pa, int *pb)
{
	int r, c, a = 1 << 30, b = -1, nh = 0, cols = pg->columns;
	for (r = 1; r <= 24; r++)
		for (c = 0; c < 40; c++) {
			const vbi_char *ac = &pg->text[r * cols + c];
			if (r <= 23 && (ac->unicode != d->uni[r][c] || ac->size != d->size[r][c])) {
				vf_fail("model:C17:returned-page-differs", "page %x.%x row %d col %d: search returned U+%04x size %d, vbi_fetch_vt_page U+%04x size %d",
					d->pgno, d->subno, r, c, ac->unicode, ac->size, d->uni[r][c], d->size[r][c]);
				return 0;
			}
			if (ac->foreground == HL_FG && ac->background == HL_BG) {
				int pos = d->cellpos[r][c];
				nh++;
				if (pos < 0) {
					vf_fail("model:C17:highlight-outside-text", "page %x.%x pattern \"%s\": highlighted cell row %d col %d is not part of the searched text",
						d->pgno, d->subno, p->text, r, c);
					return 0;
				}
				if (pos < a) a = pos;
				if (pos + 1 > b) b = pos + 1;
			}
		}
	if (!nh) {
		vf_fail("model:C17:no-highlight", "page %x.%x pattern \"%s\": success without any highlighted cell", d->pgno, d->subno, p->text);
		return 0;
	}
	for (r = 1; r <= 24; r++)
		for (c = 0; c < 40; c++) {
			const vbi_char *ac = &pg->text[r * cols + c];
			int pos = d->cellpos[r][c];
			if (pos >= a && pos < b && !(ac->foreground == HL_FG && ac->background == HL_BG)) {
				vf_fail("model:C17:highlight-incomplete", "page %x.%x pattern \"%s\": cell row %d col %d lies inside the highlighted range %d..%d but is not highlighted",
					d->pgno, d->subno, p->text, r, c, a, b);
				return 0;
			}
		}
	if (!ref_fullmatch_ctx(d->us[1], d->n[1], a, b)) {
		vf_fail("model:C17:highlight-not-an-occurrence", "page %x.%x pattern \"%s\" casefold=%d regexp=%d: highlighted text (haystack %d..%d) %s is not a match",
			d->pgno, d->subno, p->text, p->casefold, p->regexp, a, b, vf_hex(d->us[1] + a, (size_t)(b - a) * 2 > 80 ? 80 : (size_t)(b - a) * 2));
		return 0;
	}
	*pa = a; *pb = b;
	return 1;
}

/* Is the page reached and found when we search for the very text the reference
 * matcher found in it, as a literal, starting at that page?  (The page, its
 * text and the start of the walk are intact.) */
static int page_found_by_literal(const struct dbpage *d)
{
	uint16_t lit[PAT_MAX / 2 + 1];
	vbi_search *s;
	vbi_page *pg = NULL;
	int ms, me, i, st, ok;
	if (!ref_search(d->us[1], d->n[1], 0, &ms, &me) || me - ms > PAT_MAX / 2 - 1) return 0;
	for (i = ms; i < me; i++) { if (d->us[1][i] == 0x0A) return 0; lit[i - ms] = d->us[1][i]; }
	lit[me - ms] = 0;
	vf_phase("vbi_search_new");
	s = vbi_search_new(vbi, d->pgno, d->subno, lit, 0, 0, NULL);
	if (!s) return 0;
	vf_phase("vbi_search_next");
	st = vbi_search_next(s, &pg, +1);
	ok = st == VBI_SEARCH_SUCCESS && pg && pg->pgno == d->pgno && pg->subno == d->subno;
	vbi_search_delete(s);
	vf_phase("case");
	return ok;
}

/* Does the library's regular expression matcher, called directly on the text
 * search.c extracts from this page (lower halves left out), find nothing
 * although the reference matcher does?  Then the page is missed by the matcher,
 * whatever the page walk does.  Used only to attribute a miss to the known
 * finding "regex-overlapping-symbols", never to decide what is correct. */
static int matcher_misses_page(const struct pattern *p, const struct dbpage *d)
{
	static ucs2_t hay[HS_MAX];
	ucs2_t re[PAT_MAX + 1];
	ure_buffer_t ub;
	ure_dfa_t ud;
	unsigned long ms = 0, me = 0;
	int i, found;
	if (!p->regexp || !d->match[1]) return 0;
	for (i = 0; i < p->n_ure; i++) re[i] = p->ure[i];
	for (i = 0; i < d->n[1]; i++) hay[i] = d->us[1][i];
	vf_phase("ure_compile");
	if (!(ub = ure_buffer_create())) return 0;
	ud = ure_compile(re, (unsigned long)p->n_ure, p->casefold, ub);
	if (!ud) { ure_buffer_free(ub); vf_phase("case"); return 0; }
	vf_phase("ure_exec");
	found = ure_exec(ud, 0, hay, (unsigned long)d->n[1], &ms, &me);
	ure_dfa_free(ud);
	ure_buffer_free(ub);
	vf_phase("case");
	return !found;
}

/* Why may the library legitimately-but-wrongly (known findings) not return a
 * page the documented contract expects?  0 = no known reason. */
enum { MISS_UNEXPLAINED, MISS_LOWER_HALF, MISS_OVERLAP };
static int explain_miss(const struct pattern *p, const struct dbpage *d)
{
	/* the match exists only on the lower row of double height/size characters */
	if (d->match[0] && !d->match[1]) return MISS_LOWER_HALF;
	/* the expression's symbols overlap, the matcher alone misses this text, and
	 * the page is found by a literal search for the text that matches */
	if (p->regexp && p->overlap && matcher_misses_page(p, d) && page_found_by_literal(d)) return MISS_OVERLAP;
	return MISS_UNEXPLAINED;
}

static const char *klass(const struct dbpage *d)
{
	if (d && d->sent_subno_above_ff) return ":subcode-above-ff";
	if (d && d->subno0_beside) return ":subno0-beside-subpages";
	return "";
}

static char seqbuf[2][600];
static const char *seq_str(int slot, const int *s, int n)
{
	int i, o = 0;
	char *b = seqbuf[slot];
	b[0] = 0;
	for (i = 0; i < n && o < 560; i++)
		o += sprintf(b + o, "%s%x.%x", i ? " " : "", db[s[i]].pgno, db[s[i]].subno);
	if (i < n) strcpy(b + o, " ...");
	return b;
}

static char dbbuf[700];
static const char *db_str(void)
{
	int i, o = 0;
	dbbuf[0] = 0;
	for (i = 0; i < n_db && o < 660; i++)
		o += sprintf(dbbuf + o, "%s%x.%x%s", i ? " " : "", db[i].pgno, db[i].subno, db[i].match[0] ? "*" : "");
	return dbbuf;
}

struct walk {
	int expU[MAXDB], nU;    /* pass order over pages matching with or without the lower half rows */
	int i, j;               /* where the walk stopped: expU[i] expected at o[j] */
	int n_lower, n_overlap, first_lower, first_overlap;
};

/* Walk the observed (collapsed) sequence and the expectation in step.  A page
 * matching with and without the lower half rows must be at its place, unless
 * the one other recorded finding (matcher misses this text) explains its
 * absence - such a page is never returned at all, so passing over it is exact.
 * A page matching only with the lower halves and absent, or only without them
 * and present, is the named quirk; the other way round it is what the
 * documentation says.  complete = 0: the pass was not run to its end, a prefix
 * is enough.  Returns 1 when everything observed is accounted for. */
static int walk_pass(const struct pattern *p, unsigned key, int dir, int skip, const int *o, int no, int complete, struct walk *w)
{
	int i, j;
	w->nU = expected_order(2, key, dir, skip, w->expU);
	w->n_lower = w->n_overlap = 0; w->first_lower = w->first_overlap = -1;
	for (i = j = 0; i < w->nU; i++) {
		const struct dbpage *d = &db[w->expU[i]];
		int here = j < no && o[j] == w->expU[i];
		if (j >= no && !complete) break;
		if (d->match[0] && d->match[1]) {
			if (here) { j++; continue; }
			if (explain_miss(p, d) != MISS_OVERLAP) break;
			if (!w->n_overlap++) w->first_overlap = w->expU[i];
		} else if (d->match[0]) {
			if (here) { j++; continue; }                /* found on the lower row: as documented */
			if (!w->n_lower++) w->first_lower = w->expU[i];
		} else {
			if (!here) continue;                        /* as documented */
			j++;
			if (!w->n_lower++) w->first_lower = w->expU[i];
		}
	}
	w->i = i; w->j = j;
	return (i == w->nU || !complete) && j == no;
}

static void report_pass(const struct pattern *p, const char *what, int pgno, int subno, int dir,
			const int *obs, int n_obs, int ended_not_found, unsigned key, int skip, int head_opt)
{
	static struct walk w;
	int expD[MAXDB], nD, i, j, k, nU, accounted;
	const int *o = obs, *expU = w.expU; int no = n_obs;
	int n_lower, n_overlap, first_lower, first_overlap;
	nD = expected_order(0, key, dir, skip, expD);       /* the documented expectation */
	vf_count("passes_compared", 1);
	vf_count(ended_not_found ? "passes_compared_complete" : "passes_compared_prefix_only", 1);
	vf_count("matching_pages_expected", nD);
	for (i = 0; i < nD; i++)
		if (dir > 0 ? db[expD[i]].key < key : db[expD[i]].key >= key) { vf_count("passes_expected_to_wrap", 1); break; }
	if (nD == 0) vf_count("passes_expected_empty", 1);

	/* the current page may come first after a direction change */
	if (head_opt >= 0 && no > 0 && o[0] == head_opt) { o++; no--; }

	accounted = walk_pass(p, key, dir, skip, o, no, ended_not_found, &w);
	i = w.i; j = w.j; nU = w.nU;
	n_lower = w.n_lower; n_overlap = w.n_overlap; first_lower = w.first_lower; first_overlap = w.first_overlap;
	if (accounted) {
		/* everything observed is accounted for */
		if (n_overlap) {
			vf_fail("model:C17:missed-page:regex-overlapping-symbols",
				"%s from %x.%x dir %+d pattern \"%s\" casefold=%d regexp=%d: %x.%x contains a match but was passed over (%d such page(s)%s); expected [%s] got [%s]; cache [%s]; [overlap-attribution: symbols of the expression overlap, ure_exec called directly on the page text finds no match, a literal search for the matching text finds the page; all other pages in order]",
				what, pgno, subno, dir, p->text, p->casefold, p->regexp, db[first_overlap].pgno, db[first_overlap].subno, n_overlap,
				n_lower ? ", further pages differ by the lower half row quirk" : "", seq_str(0, expD, nD), seq_str(1, obs, n_obs), db_str());
			vf_count("known_overlap_miss_explained", 1);
		} else if (n_lower) {
			vf_fail("model:C17:Q-lower-half-row-not-searched",
				"%s from %x.%x dir %+d pattern \"%s\" casefold=%d regexp=%d: documented (\"double height and size characters will match twice, on the upper and lower row\") expects [%s], got [%s]: %x.%x %s (%d such page(s)); the difference disappears exactly when the lower halves are left out of the haystack",
				what, pgno, subno, dir, p->text, p->casefold, p->regexp, seq_str(0, expD, nD), seq_str(1, obs, n_obs), db[first_lower].pgno, db[first_lower].subno,
				db[first_lower].match[0] ? "matches on a lower half row only and is not returned" : "matches only when the lower halves are removed from their row and is returned", n_lower);
			vf_count("quirk_lower_half_explained", 1);
		}
		return;
	}

	/* a divergence no recorded finding explains */
	if (j < no) {
		/* o[j] is wrong: spurious, repeated/out of order, or expU[i] was skipped */
		int later = -1, earlier = -1;
		for (k = i + 1; k < nU; k++) if (expU[k] == o[j]) { later = k; break; }
		for (k = 0; k < j; k++) if (o[k] == o[j]) { earlier = k; break; }
		if (!db[o[j]].match[0] && !db[o[j]].match[1]) {
			char key_[96];
			snprintf(key_, sizeof key_, "model:C17:spurious-page%s", (p->regexp && p->overlap) ? ":regex-overlapping-symbols" : "");
			vf_fail(key_, "%s from %x.%x dir %+d pattern \"%s\" casefold=%d regexp=%d: returned %x.%x which contains no match; expected [%s] got [%s]; cache [%s]",
				what, pgno, subno, dir, p->text, p->casefold, p->regexp, db[o[j]].pgno, db[o[j]].subno, seq_str(0, expD, nD), seq_str(1, obs, n_obs), db_str());
		} else if (later >= 0 && i < nU) {
			char key_[96];
			snprintf(key_, sizeof key_, "model:C17:missed-page%s", klass(&db[expU[i]]));
			vf_fail(key_, "%s from %x.%x dir %+d pattern \"%s\" casefold=%d regexp=%d: %x.%x contains a match but was passed over (the page returned instead is due %d place(s) later); expected [%s] got [%s]; cache [%s]",
				what, pgno, subno, dir, p->text, p->casefold, p->regexp, db[expU[i]].pgno, db[expU[i]].subno, later - i, seq_str(0, expD, nD), seq_str(1, obs, n_obs), db_str());
		} else if (earlier >= 0) {
			vf_fail("model:C17:page-returned-twice", "%s from %x.%x dir %+d pattern \"%s\": %x.%x returned again in the same pass; expected [%s] got [%s]",
				what, pgno, subno, dir, p->text, db[o[j]].pgno, db[o[j]].subno, seq_str(0, expD, nD), seq_str(1, obs, n_obs));
		} else {
			vf_fail("model:C17:wrong-order", "%s from %x.%x dir %+d pattern \"%s\": expected [%s] got [%s]; cache [%s]",
				what, pgno, subno, dir, p->text, seq_str(0, expD, nD), seq_str(1, obs, n_obs), db_str());
		}
	} else {
		/* observations exhausted, pass ended with not-found, expU[i] unexplained */
		char key_[96];
		snprintf(key_, sizeof key_, "model:C17:missed-page%s", klass(&db[expU[i]]));
		vf_fail(key_, "%s from %x.%x dir %+d pattern \"%s\" casefold=%d regexp=%d: not-found reported although %x.%x contains a match and was not returned; expected [%s] got [%s]; cache [%s]",
			what, pgno, subno, dir, p->text, p->casefold, p->regexp, db[expU[i]].pgno, db[expU[i]].subno, seq_str(0, expD, nD), seq_str(1, obs, n_obs), db_str());
	}
}

struct session {
	int pgno, subno, dir;
	int use_progress;
	int plan;               /* 0 plain, 1 direction change, 2 second pass, 3 replace, 4 cancel */
	int change_after;       /* number of successes before the direction change */
	int cancel_at;
};
static const char *plan_name[] = { "plain", "dirchange", "second-pass", "replace", "cancel" };

static struct vf_rng *case_rng;
static int replacements_left;

/* one call under the watchdog */
static int next_call(vbi_search *s, vbi_page **pg, int dir, int use_progress)
{
	int st;
	progress_calls = 0;
	vf_phase("vbi_search_next");
	st = vbi_search_next(s, pg, dir);
	vf_phase("case");
	vf_count("next_calls", 1);
	(void)use_progress;
	return st;
}

/* runs one pass (until not-found); returns number of collapsed pages observed,
 * -1 when the session must be abandoned */
static int run_pass(vbi_search *s, const struct pattern *p, const struct session *ss, int dir,
		    int *obs, int n_obs, int *last_idx, int *last_a, int *last_b, int *ended,
		    int stop_after_successes, int replace_mode)
{
	int calls = 0, successes = 0;
	long cap = (long)n_db * 930 + 16;
	*ended = 0;
	for (;;) {
		vbi_page *pg = NULL;
		int st, idx, a = 0, b = 0;
		if (++calls > cap) {
			vf_fail("model:C17:pass-does-not-end", "pattern \"%s\" from %x.%x dir %+d: %d calls without not-found (cache has %d displayable pages)",
				p->text, ss->pgno, ss->subno, dir, calls - 1, n_db);
			return -1;
		}
		if (--calls_left < 0) {
			/* patterns like " " or "." match hundreds of times per page: stop
			 * stepping, the part of the pass seen so far is still checked */
			truncated = 1;
			vf_count("sessions_truncated", 1);
			return n_obs;
		}
		cancel_at = (ss->plan == 4 && calls == 1 + (ss->cancel_at >> 4)) ? 1 + (ss->cancel_at & 15) : 0;
		st = next_call(s, &pg, dir, ss->use_progress);
		if (runaway) {
			vf_fail("model:C17:walk-does-not-end", "pattern \"%s\" regexp=%d from %x.%x dir %+d, call %d: progress callback invoked %ld times in one vbi_search_next() with %d pages transmitted (%d displayable); cancelled by the monitor; cache [%s]",
				p->text, p->regexp, ss->pgno, ss->subno, dir, calls, progress_calls, n_tx, n_db, db_str());
			return -1;
		}
		switch (st) {
		case VBI_SEARCH_SUCCESS:
			vf_count("successes", 1);
			if (!pg) { vf_fail("model:C17:success-without-page", "VBI_SEARCH_SUCCESS with *pg == NULL"); return -1; }
			idx = db_find(pg->pgno, pg->subno);
			if (idx < 0) {
				vf_fail("model:C17:unknown-page-returned", "pattern \"%s\": returned page %x.%x is not a cached displayable page; cache [%s]", p->text, pg->pgno, pg->subno, db_str());
				return -1;
			}
			if (!check_highlight(pg, &db[idx], p, &a, &b)) return -1;
			vf_log("  call %d dir %+d: %x.%x occurrence %d..%d\n", calls, dir, pg->pgno, pg->subno, a, b);
			vf_count("highlights_checked", 1);
			if (idx == *last_idx && !replace_mode) {
				vf_count("occurrences_stepped_within_page", 1);
				/* next occurrence inside the same page: must advance, must not overlap */
				if (dir > 0 ? a < *last_b : b > *last_a) {
					vf_fail("model:C17:occurrence-not-advancing", "page %x.%x pattern \"%s\" dir %+d: occurrence %d..%d after %d..%d",
						db[idx].pgno, db[idx].subno, p->text, dir, a, b, *last_a, *last_b);
					return -1;
				}
			}
			if (n_obs == 0 || obs[n_obs - 1] != idx) {
				if (n_obs < MAXDB * 2) obs[n_obs++] = idx;
			}
			*last_idx = idx; *last_a = a; *last_b = b;
			successes++;
			if (stop_after_successes && successes >= stop_after_successes) return n_obs;
			if (replace_mode && replacements_left > 0 && vf_chance(case_rng, 1, 2)) {
				replacements_left--;
				/* a page is received again with new text between two calls */
				struct txpage *t = &tx[vf_below(case_rng, (unsigned)n_tx)];
				if (n_tx < MAXTX && vf_chance(case_rng, 1, 3)) {
					/* or a page not seen before arrives */
					t = add_tx(case_rng, vf_chance(case_rng, 1, 2) ? rand_bcd_pgno(case_rng, 1, 8) : t->pgno,
						   bcd2(case_rng, 0, 9), 1);
					progress_limit += 3;
					vf_count("pages_added_between_calls", 1);
				} else
					gen_text(case_rng, t, 1);
				send_page(t);
				flush_frame();
				vf_count("pages_replaced", 1);
				build_db(); compute_matches();
				*last_idx = -1;
			}
			break;
		case VBI_SEARCH_NOT_FOUND:
			vf_count("not_found", 1);
			*ended = 1;
			return n_obs;
		case VBI_SEARCH_CACHE_EMPTY:
			vf_count("cache_empty", 1);
			if (n_db > 0) {
				vf_fail("model:C17:cache-empty-but-pages", "VBI_SEARCH_CACHE_EMPTY although %d displayable pages are cached", n_db);
				return -1;
			}
			*ended = 1;
			return n_obs;
		case VBI_SEARCH_CANCELED:
			if (!cancel_at) { vf_fail("model:C17:unexpected-status", "VBI_SEARCH_CANCELED although the progress callback never asked for it"); return -1; }
			vf_count("cancels", 1);
			break;
		default:
			vf_fail("model:C17:unexpected-status", "vbi_search_next returned %d (pattern \"%s\" from %x.%x dir %+d)", st, p->text, ss->pgno, ss->subno, dir);
			return -1;
		}
	}
}

static int start_relation(int pgno)
{
	int i, lo = 0x10000, hi = -1, cached = 0;
	for (i = 0; i < n_tx; i++) {
		if (tx[i].pgno < lo) lo = tx[i].pgno;
		if (tx[i].pgno > hi) hi = tx[i].pgno;
		if (tx[i].pgno == pgno) cached = 1;
	}
	if (n_tx == 0) return 4;
	if (cached) return 1;
	if (pgno < lo) return 0;
	if (pgno > hi) return 3;
	return 2;
}
static const char *rel_name[] = { "below", "cached", "hole", "above", "empty" };

static int pick_start_pgno(struct vf_rng *r)
{
	int p;
	if (n_tx && vf_chance(r, 2, 5)) return tx[vf_below(r, (unsigned)n_tx)].pgno;
	switch (vf_below(r, 6)) {
	case 0: return 0x100;
	case 1: return vf_chance(r, 1, 2) ? 0x899 : 0x8FE;
	case 2: if (n_tx) { p = tx[vf_below(r, (unsigned)n_tx)].pgno + 1; if ((p & 0xFF) != 0xFF && p <= 0x8FE) return p; } /* fall through */
	case 3: if (n_tx) { p = tx[vf_below(r, (unsigned)n_tx)].pgno - 1; if ((p & 0xFF) != 0xFF && p >= 0x100) return p; } /* fall through */
	default:
		do p = vf_range(r, 0x100, 0x8FE); while ((p & 0xFF) == 0xFF);
		return p;
	}
}

static int pick_start_subno(struct vf_rng *r, int pgno)
{
	int i, cand[MAXTX], n = 0;
	for (i = 0; i < n_tx; i++) if (tx[i].pgno == pgno) cand[n++] = tx[i].subno;
	switch (vf_below(r, 8)) {
	case 0: case 1: case 2: case 3: return VBI_ANY_SUBNO;
	case 4: return 0;
	case 5: if (n) return cand[vf_below(r, (unsigned)n)]; return vf_range(r, 1, 9);
	case 6: if (n) { int s = cand[vf_below(r, (unsigned)n)] + (vf_chance(r, 1, 2) ? 1 : -1); if (s > 0 && s < 0x3F7F && (s & 0x80) == 0) return s; } return 1;
	default: return vf_chance(r, 1, 2) ? vf_range(r, 1, 0x79) : (vf_range(r, 0, 0x3F) << 8) | vf_range(r, 0, 0x7E);
	}
}

/* align: 0 anywhere, 1 the first characters of a row, 2 the last characters of a row */
static int sample_from_db(struct vf_rng *r, uint16_t *out, int maxlen, int align)
{
	int t, n = 0;
	for (t = 0; t < 12 && n_db; t++) {
		const struct dbpage *d = &db[vf_below(r, (unsigned)n_db)];
		int k = vf_chance(r, 1, 4) ? 0 : 1, len = d->n[k], p, i, want;
		if (len < 2) continue;
		p = (int)vf_below(r, (unsigned)len);
		if (align) {
			/* the row p lies in: prefer rows with text at that end */
			int a, b, tries;
			for (tries = 0; tries < 8; tries++) {
				p = (int)vf_below(r, (unsigned)len);
				for (a = p; a > 0 && d->us[k][a - 1] != 0x0A; a--) ;
				for (b = a; b < len && d->us[k][b] != 0x0A; b++) ;
				if (b - a < 1) continue;
				if (align == 1 ? d->us[k][a] != 0x20 : d->us[k][b - 1] != 0x20) break;
			}
			if (tries == 8 && vf_chance(r, 1, 2)) continue;
			if (b - a < 1) continue;
			want = vf_range(r, 1, maxlen);
			if (want > b - a) want = b - a;
			p = align == 1 ? a : b - want;
			for (n = 0; n < want; n++) out[n] = d->us[k][p + n];
			if (n) return n;
			continue;
		}
		for (i = 0; i < 60 && (d->us[k][p] == 0x20 || d->us[k][p] == 0x0A); i++) p = (int)vf_below(r, (unsigned)len);
		if (d->us[k][p] == 0x0A) continue;
		if (vf_chance(r, 1, 3) && p > 0 && d->us[k][p - 1] != 0x0A) p--;     /* include a leading space */
		if (vf_chance(r, 1, 8) && p > 1 && d->us[k][p - 1] == 0x20 && d->us[k][p - 2] == 0x20) p -= 1;
		want = vf_range(r, 1, maxlen);
		for (n = 0; n < want && p + n < len && d->us[k][p + n] != 0x0A; n++) out[n] = d->us[k][p + n];
		if (n) return n;
	}
	return 0;
}

static void alphabet_unicode(uint16_t *alpha, int *n_alpha)
{
	/* characters of the case alphabet as they appear on pages, plus the metacharacters */
	static const char meta[] = ".*+?()[]{}|^$\\-";
	int i, n = 0;
	for (i = 0; i < n_db && n < 24; i++) {
		int k;
		for (k = 0; k < db[i].n[1] && n < 24; k += 7)
			if (db[i].us[1][k] != 0x0A && db[i].us[1][k] != 0x20) alpha[n++] = db[i].us[1][k];
	}
	for (i = 0; i < n_alpha_raw && n < 36; i++)
		if (alpha_raw[i] > 0x20 && alpha_raw[i] < 0x7F) alpha[n++] = alpha_raw[i];
	for (i = 0; meta[i] && n < 52; i++) alpha[n++] = (uint16_t)meta[i];
	alpha[n++] = 'a'; alpha[n++] = 'B';
	*n_alpha = n;
}

static void gen_pattern(struct vf_rng *r, struct pattern *p)
{
	uint16_t sample[8], alpha[64];
	int n, n_alpha, i, casefold = vf_chance(r, 2, 5), regexp = vf_chance(r, 2, 5), anchor = 0;
	alphabet_unicode(alpha, &n_alpha);
	/* one regular expression in five is anchored at the beginning or the end of a row ("the standard set of
	 * operators"; same meaning in POSIX ERE with REG_NEWLINE); the sample then comes from that end of a row */
	if (regexp && vf_chance(r, 1, 5)) anchor = vf_chance(r, 1, 2) ? 1 : 2;
	n = vf_chance(r, 4, 5) ? sample_from_db(r, sample, regexp ? 4 : 6, anchor) : 0;
	if (!n) {
		n = vf_range(r, 1, 4);
		for (i = 0; i < n; i++) sample[i] = alpha[vf_below(r, (unsigned)n_alpha)];
	}
	if (vf_chance(r, 1, 5)) sample[vf_below(r, (unsigned)n)] = alpha[vf_below(r, (unsigned)n_alpha)];  /* mutate */
	for (i = 0; i < n && sample[i] == 0x20; i++) ;
	if (i == n && vf_chance(r, 3, 4))       /* only spaces (blank pages): hundreds of occurrences per page */
		sample[vf_below(r, (unsigned)n)] = alpha[vf_below(r, (unsigned)n_alpha)];
	if (casefold && vf_chance(r, 1, 2))
		for (i = 0; i < n; i++) {
			if (sample[i] >= 'a' && sample[i] <= 'z') sample[i] = (uint16_t)(sample[i] - 32);
			else if (sample[i] >= 'A' && sample[i] <= 'Z') sample[i] = (uint16_t)(sample[i] + 32);
		}
	if (regexp) pat_regex(r, p, sample, n, casefold, alpha, n_alpha, anchor);
	else pat_literal(p, sample, n, casefold);
}

static int run_session(struct vf_rng *r, int shape, long idx)
{
	struct pattern pat;
	struct session ss;
	vbi_search *s;
	int obs[MAXDB * 2 + 4], n_obs, ended, last_idx = -1, la = 0, lb = 0, nmatch = 0, i, wrap = 0, rel;
	int exp[MAXDB], n_exp;
	unsigned key;
	(void)idx;

	gen_pattern(r, &pat);
	if (!pat_compile_ref(&pat)) {
		vf_fail("selfcheck:C17:reference-regcomp", "regcomp rejected the reference form of pattern \"%s\" (regexp=%d)", pat.text, pat.regexp);
		return 0;
	}
	compute_matches();
	if (alphabet_overflow) { vf_count("alphabet_overflow_skipped", 1); return 0; }

	memset(&ss, 0, sizeof ss);
	ss.pgno = pick_start_pgno(r);
	ss.subno = pick_start_subno(r, ss.pgno);
	ss.dir = vf_chance(r, 1, 2) ? +1 : -1;
	ss.use_progress = !vf_chance(r, 1, 3);
	/* hex-numbered pages cached: one session in five starts at the first page of the next decade above one of them
	 * (1AB -> 1B0, 19C -> 1A0, 2FE -> 300), mostly backwards with subpage 0 or any: everything between the decimal
	 * predecessor of the start page and the start page itself is hex-numbered and comes first in a backward pass */
	if (vf_chance(r, 1, 5)) {
		int k, cand[MAXDB], nc = 0;
		for (k = 0; k < n_db; k++) if (!vbi_is_bcd(db[k].pgno)) cand[nc++] = k;
		if (nc) {
			int hp = db[cand[vf_below(r, (unsigned)nc)]].pgno, st = (hp & 0xFF0) + 0x10;
			if ((st & 0xFF) == 0xFF || (st & 0xFF) == 0) st = (hp & 0xF00) + 0x100;   /* xF0 + 10 -> next magazine */
			if (st >= 0x100 && st <= 0x8FE && (st & 0xFF) != 0xFF) {
				ss.pgno = st;
				ss.subno = vf_chance(r, 1, 2) ? 0 : vf_chance(r, 1, 2) ? VBI_ANY_SUBNO : pick_start_subno(r, st);
				ss.dir = vf_chance(r, 3, 4) ? -1 : +1;
				vf_count("sessions_starting_at_decade_above_hex_page", 1);
			}
		}
	}
	switch (vf_below(r, 10)) {
	case 0: case 1: ss.plan = 1; ss.change_after = vf_range(r, 1, 3); break;
	case 2: ss.plan = 2; break;
	case 3: ss.plan = n_tx ? 3 : 0; break;
	case 4: ss.plan = 4; ss.use_progress = 1; ss.cancel_at = (int)vf_below(r, 64); break;
	default: ss.plan = 0; break;
	}
	for (i = 0; i < n_db; i++) nmatch += db[i].match[0];
	key = start_key(ss.pgno, ss.subno, ss.dir);
	n_exp = expected_order(0, key, ss.dir, -1, exp);
	for (i = 0; i < n_exp; i++) if (ss.dir > 0 ? db[exp[i]].key < key : db[exp[i]].key >= key) wrap = 1;
	rel = start_relation(ss.pgno);

	vf_sample("shape=%s tx=%d displayable=%d [%s] pattern=\"%s\" regexp=%d casefold=%d overlap=%d start=%x.%x dir=%+d progress=%d plan=%s level=%d",
		  shape_name[shape], n_tx, n_db, db_str(), pat.text, pat.regexp, pat.casefold, pat.overlap, ss.pgno, ss.subno, ss.dir, ss.use_progress, plan_name[ss.plan], fetch_level);
	if (vf_verbose) {
		int k;
		for (i = 0; i < n_db; i++) {
			vf_log("  page %x.%x match=%d/%d: ", db[i].pgno, db[i].subno, db[i].match[0], db[i].match[1]);
			for (k = 0; k < db[i].n[1]; k++) {
				unsigned c = db[i].us[1][k];
				if (c == 0x0A) vf_log("|"); else if (c >= 0x20 && c < 0x7F) vf_log("%c", (int)c); else vf_log("<%x>", c);
			}
			vf_log("\n");
		}
	}

	progress_limit = 3L * (n_tx + 2) + 10;
	runaway = 0; cancel_at = 0;
	calls_left = vf_param[0] > 0 ? vf_param[0] : 500; truncated = 0; replacements_left = 6;
	vf_phase("vbi_search_new");
	s = vbi_search_new(vbi, ss.pgno, ss.subno, pat.ure, pat.casefold, pat.regexp, ss.use_progress ? progress_cb : NULL);
	vf_phase("case");
	if (!s) {
		vf_fail("model:C17:pattern-rejected", "vbi_search_new rejected pattern \"%s\" (regexp=%d casefold=%d)", pat.text, pat.regexp, pat.casefold);
		return 0;
	}
	vf_count("searches", 1);
	vf_count(pat.regexp ? "patterns_regexp" : "patterns_literal", 1);
	if (pat.casefold) vf_count("patterns_casefold", 1);
	if (pat.n_escaped_hex) vf_count("patterns_with_hex_escaped_literal", 1);
	if (pat.n_escaped_plain) vf_count("patterns_with_needlessly_escaped_literal", 1);
	if (pat.casefold && (pat.n_escaped_hex || pat.n_escaped_plain)) vf_count("patterns_casefold_with_escaped_literal", 1);
	if (pat.regexp && pat.overlap) vf_count("patterns_regexp_overlapping_symbols", 1);
	if (pat.n_props) vf_count("patterns_with_property_class", 1);
	if (pat.n_props > 1) vf_count("patterns_with_several_property_classes", 1);
	if (pat.anchor & 1) vf_count("patterns_anchored_at_row_start", 1);
	if (pat.anchor & 2) vf_count("patterns_anchored_at_row_end", 1);
	if (pat.anchor && nmatch) vf_count("anchored_patterns_with_matching_pages", 1);

	if (ss.plan == 3) {
		/* pages replaced between calls: termination, real occurrences, pass ends */
		n_obs = run_pass(s, &pat, &ss, ss.dir, obs, 0, &last_idx, &la, &lb, &ended, 0, 1);
		build_db();
	} else if (ss.plan == 1) {
		n_obs = run_pass(s, &pat, &ss, ss.dir, obs, 0, &last_idx, &la, &lb, &ended, ss.change_after, 0);
		if (n_obs >= 0 && (ended || truncated)) {
			report_pass(&pat, "pass", ss.pgno, ss.subno, ss.dir, obs, n_obs, ended, key, -1, -1);
		} else if (n_obs >= 0) {
			/* the part seen so far must be a prefix of the expectation */
			static struct walk w0;
			if (!walk_pass(&pat, key, ss.dir, -1, obs, n_obs, 0, &w0)) {
				/* finish the pass and let the full-pass diagnosis name the fault */
				n_obs = run_pass(s, &pat, &ss, ss.dir, obs, n_obs, &last_idx, &la, &lb, &ended, 0, 0);
				if (n_obs >= 0)
					report_pass(&pat, "pass", ss.pgno, ss.subno, ss.dir, obs, n_obs, ended, key, -1, -1);
			} else {
				/* turn round at the current page: a fresh pass in the new direction from
				 * there; the current page itself may come first (occurrences on the near
				 * side of the last one) but not again at the end */
				int cur = last_idx, ndir = -ss.dir;
				unsigned k2 = db[cur].key;
				vf_count("direction_changes", 1);
				n_obs = run_pass(s, &pat, &ss, ndir, obs, 0, &last_idx, &la, &lb, &ended, 0, 0);
				if (n_obs >= 0)
					report_pass(&pat, "pass after direction change", db[cur].pgno, db[cur].subno, ndir, obs, n_obs, ended,
						    ndir > 0 ? k2 + 1 : k2, cur, cur);
			}
		}
	} else {
		n_obs = run_pass(s, &pat, &ss, ss.dir, obs, 0, &last_idx, &la, &lb, &ended, 0, 0);
		if (n_obs >= 0)
			report_pass(&pat, "pass", ss.pgno, ss.subno, ss.dir, obs, n_obs, ended, key, -1, -1);
		if (n_obs >= 0 && ended && ss.plan == 2 && !vf_failed()) {
			/* "Another vbi_search_next() will restart from the original starting point" */
			int d2 = vf_chance(r, 3, 4) ? ss.dir : -ss.dir;
			last_idx = -1;
			n_obs = run_pass(s, &pat, &ss, d2, obs, 0, &last_idx, &la, &lb, &ended, 0, 0);
			if (n_obs >= 0)
				report_pass(&pat, "second pass", ss.pgno, ss.subno, d2, obs, n_obs, ended, start_key(ss.pgno, ss.subno, d2), -1, -1);
			vf_count("second_passes", 1);
		}
	}
	vf_phase("vbi_search_delete");
	vbi_search_delete(s);
	vf_phase("case");

	vf_sig("shape=%s start=%s dir=%c wrap=%d matches=%s plan=%s", shape_name[shape], rel_name[rel], ss.dir > 0 ? 'f' : 'r', wrap,
	       nmatch == 0 ? "0" : nmatch == 1 ? "1" : nmatch <= 3 ? "2-3" : "4+", plan_name[ss.plan]);
	return 1;
}

/* ------------------------------------------------------------------ */
/* termination sessions: expressions that can match the empty string   */

/* "For any ... regular-expression pattern ... each once per pass ... then reports not-found. The call always
 * terminates": expressions with anchors and nullable pieces (^ $ ^$ x* (ab)? .* and alternations of them) are
 * legal ure syntax, but what they match differs between regex dialects, so no reference matcher judges them.
 * Decided here without one: every call returns (CPU watchdog), the walk inside one call ends (progress
 * callback count), a pass ends with not-found within the number of calls a page can account for (one match per
 * haystack position), every returned page is a cached displayable page, and the collapsed sequence of returned
 * pages visits pages in the pass order from the start page without returning to a page it has left. */
static void gen_term_pattern(struct vf_rng *r, struct pattern *p)
{
	uint16_t alpha[64];
	int n_alpha, i, n;
	unsigned a, b;
	static const char *forms[] = {
		"^", "$", "^$", "A*", "(AB)?", ".*", " *", "^ *", " *$", "(^|A)", "($|A)", "^$|AB", "A*B*", "A?",
		"^A*", "A*$", "^.*$", "(A|)", "A|^", "$|B", "^(A|B)*", ".*A", "A.*", "^A", "A$", "(^A|B$)", "^|$",
	};
	const char *f = forms[vf_below(r, (unsigned)(sizeof forms / sizeof forms[0]))];
	alphabet_unicode(alpha, &n_alpha);
	a = alpha[vf_below(r, (unsigned)n_alpha)];
	b = alpha[vf_below(r, (unsigned)n_alpha)];
	memset(p, 0, sizeof *p);
	p->regexp = 1;
	p->casefold = vf_chance(r, 1, 3);
	n = 0;
	for (i = 0; f[i]; i++) {
		unsigned c = (unsigned char)f[i];
		if (c == 'A' || c == 'B') {
			c = (c == 'A') ? a : b;
			if (is_ere_special(c) || c == ':' || c == '-' || c == ']') p->ure[n++] = '\\';
		}
		p->ure[n++] = (uint16_t)c;
	}
	p->ure[n] = 0;
	p->n_ure = n;
	pat_printable(p);
}

static int run_term_session(struct vf_rng *r, int shape)
{
	struct pattern pat;
	vbi_search *s;
	int order[MAXDB], pos_of[MAXDB], n_order, i, dir, pgno, subno, use_progress, passes, pass;
	unsigned key;
	long cap;

	gen_term_pattern(r, &pat);
	pgno = pick_start_pgno(r);
	subno = pick_start_subno(r, pgno);
	dir = vf_chance(r, 1, 2) ? +1 : -1;
	use_progress = vf_chance(r, 1, 2);
	vf_sample("termination session: shape=%s displayable=%d [%s] pattern=\"%s\" casefold=%d start=%x.%x dir=%+d progress=%d",
		  shape_name[shape], n_db, db_str(), pat.text, pat.casefold, pgno, subno, dir, use_progress);
	progress_limit = 3L * (n_tx + 2) + 10;
	runaway = 0; cancel_at = 0;
	vf_phase("vbi_search_new");
	s = vbi_search_new(vbi, pgno, subno, pat.ure, pat.casefold, 1, use_progress ? progress_cb : NULL);
	vf_phase("case");
	if (!s) { vf_count("term_patterns_rejected", 1); return 0; }
	vf_count("term_sessions", 1);
	/* one match per haystack position (23 rows of 40 characters and a separator) and the final not-found */
	cap = (long)n_db * (23 * 41 + 2) + 16;
	passes = vf_chance(r, 1, 3) ? 2 : 1;
	for (pass = 0; pass < passes && !vf_failed(); pass++) {
		long calls = 0;
		int last = -1, last_pos = -1, ended = 0, returned = 0;
		if (pass == 1 && vf_chance(r, 1, 2)) dir = -dir;
		key = start_key(pgno, subno, dir);
		for (i = 0; i < n_db; i++) db[i].match[0] = 1;
		n_order = expected_order(0, key, dir, -1, order);
		for (i = 0; i < n_order; i++) pos_of[order[i]] = i;
		while (!ended) {
			vbi_page *pg = NULL;
			int st, idx;
			if (++calls > cap) {
				vf_fail("model:C17:pass-does-not-end", "pattern \"%s\" (can match the empty string) from %x.%x dir %+d: %ld calls without not-found, the last %s page %x.%x (cache has %d displayable pages [%s])",
					pat.text, pgno, subno, dir, calls - 1, returned ? "returned" : "-", last >= 0 ? db[last].pgno : 0, last >= 0 ? db[last].subno : 0, n_db, db_str());
				break;
			}
			st = next_call(s, &pg, dir, use_progress);
			vf_count("term_next_calls", 1);
			if (runaway) {
				vf_fail("model:C17:walk-does-not-end", "pattern \"%s\" regexp=1 from %x.%x dir %+d, call %ld: progress callback invoked %ld times in one vbi_search_next() with %d pages transmitted (%d displayable); cancelled by the monitor; cache [%s]",
					pat.text, pgno, subno, dir, calls, progress_calls, n_tx, n_db, db_str());
				break;
			}
			switch (st) {
			case VBI_SEARCH_SUCCESS:
				returned = 1;
				if (!pg) { vf_fail("model:C17:success-without-page", "VBI_SEARCH_SUCCESS with *pg == NULL"); ended = 1; break; }
				idx = db_find(pg->pgno, pg->subno);
				if (idx < 0) {
					vf_fail("model:C17:unknown-page-returned", "pattern \"%s\": returned page %x.%x is not a cached displayable page; cache [%s]", pat.text, pg->pgno, pg->subno, db_str());
					ended = 1; break;
				}
				if (idx != last) {
					if (pos_of[idx] <= last_pos) {
						vf_fail(pos_of[idx] == last_pos ? "model:C17:page-returned-twice" : "model:C17:wrong-order",
							"pattern \"%s\" from %x.%x dir %+d: page %x.%x returned after page %x.%x, which comes later in the pass; cache [%s]",
							pat.text, pgno, subno, dir, db[idx].pgno, db[idx].subno, last >= 0 ? db[last].pgno : 0, last >= 0 ? db[last].subno : 0, db_str());
						ended = 1; break;
					}
					last = idx; last_pos = pos_of[idx];
					vf_count("term_pages_returned", 1);
				}
				break;
			case VBI_SEARCH_NOT_FOUND:
				vf_count("term_passes_ended", 1);
				ended = 1;
				break;
			case VBI_SEARCH_CACHE_EMPTY:
				if (n_db > 0) vf_fail("model:C17:cache-empty-but-pages", "VBI_SEARCH_CACHE_EMPTY although %d displayable pages are cached", n_db);
				ended = 1;
				break;
			default:
				vf_fail("model:C17:unexpected-status", "vbi_search_next returned %d (pattern \"%s\" from %x.%x dir %+d)", st, pat.text, pgno, subno, dir);
				ended = 1;
				break;
			}
		}
		if (calls > 100) vf_count("term_passes_over_100_calls", 1);
	}
	vf_phase("vbi_search_delete");
	vbi_search_delete(s);
	vf_phase("case");
	vf_sig("term shape=%s dir=%c pages=%s", shape_name[shape], dir > 0 ? 'f' : 'r', n_db == 0 ? "0" : n_db == 1 ? "1" : n_db <= 3 ? "2-3" : "4+");
	return 1;
}

static int run_case(struct vf_rng *r, long idx)
{
	int shape, rich, sessions, i, nontrivial = 0;
	case_rng = r;
	utf8_mode = vf_mode && !strcmp(vf_mode, "utf8");
	enc_reset();

	shape = vf_chance(r, 1, 40) ? SH_EMPTY : (int)vf_range(r, 1, N_SHAPES - 1);
	rich = vf_chance(r, 1, 2);
	gen_alphabet(r);
	gen_population(r, shape, rich);

	vf_phase("vbi_decoder_new");
	vbi = vbi_decoder_new();
	if (!vbi) { vf_fail("harness:alloc", "vbi_decoder_new failed"); return 0; }
	vbi_event_handler_register(vbi, VBI_EVENT_TTX_PAGE, ev_handler, NULL);
	switch (vf_below(r, 20)) {
	case 0: case 1: case 2: case 3: case 4: fetch_level = VBI_WST_LEVEL_1; break;
	case 5: case 6: case 7: case 8: case 9: case 10: case 11: fetch_level = VBI_WST_LEVEL_1p5; break;
	default: fetch_level = VBI_WST_LEVEL_2p5; break;     /* the decoder's default */
	}
	vbi_teletext_set_level(vbi, fetch_level);
	if (vf_chance(r, 1, 2)) vbi_teletext_set_default_region(vbi, 0);
	t_now = 1000.0; n_frame = 0;
	transmit_population();
	build_db();
	vf_count("pages_transmitted", n_tx);
	vf_count("pages_displayable", n_db);
	vf_count("hex_pages_transmitted", n_hex);
	vf_count("clock_subcode_pages_transmitted", n_clock);
	for (i = 0; i < n_db; i++) {
		if (!vbi_is_bcd(db[i].pgno)) vf_count("hex_pages_displayable", 1);
		if (db[i].subno > 0xFF) vf_count("subcodes_above_ff_cached", 1);
		if (db[i].has_lower) vf_count("pages_with_double_height", 1);
	}
	if (shape == SH_EMPTY) vf_count("empty_cache_cases", 1);

	sessions = vf_range(r, 1, 3);
	for (i = 0; i < sessions && !vf_failed(); i++)
		nontrivial |= run_session(r, shape, idx);
	/* expressions that can match the empty string: termination only, on small caches (a pass may need a
	 * call per character position) */
	if (!vf_failed() && n_db <= 4 && vf_chance(r, 1, 2))
		nontrivial |= run_term_session(r, shape);

	vf_phase("vbi_decoder_delete");
	vbi_decoder_delete(vbi);
	vbi = NULL;
	vf_phase("case");
	if (ref_ok) { regfree(&ref_re); ref_ok = 0; }
	return nontrivial;
}

/* ------------------------------------------------------------------ */

static void selftest(void)
{
	static vbi_page pg;
	static struct dbpage d;
	struct pattern p;
	uint16_t lit[4];
	int i, ms, me, out[MAXDB], n;

	utf8_mode = vf_mode && !strcmp(vf_mode, "utf8");
	if (utf8_mode && !setlocale(LC_CTYPE, "C.utf8") && !setlocale(LC_CTYPE, "C.UTF-8")) {
		vf_fail("selftest:C17", "locale C.utf8 not available");
		return;
	}
	enc_reset();
	/* packetiser tables against the library's own decoders */
	for (i = 0; i < 16; i++)
		if (vbi_unham8(ham84[i]) != i) vf_fail("selftest:C17", "ham84[%d] does not decode", i);
	for (i = 0; i < 128; i++)
		if (vbi_unpar8(odd_par((uint8_t)i)) != i) vf_fail("selftest:C17", "odd_par(%d) does not decode", i);

	/* haystack builder: row 1 = "ab", double-width "C", double-height "d" */
	memset(&pg, 0, sizeof pg);
	pg.columns = 41; pg.rows = 25;
	for (i = 0; i < 25 * 41; i++) { pg.text[i].unicode = 0x20; pg.text[i].size = VBI_NORMAL_SIZE; }
	pg.text[41 + 0].unicode = 'a'; pg.text[41 + 1].unicode = 'b';
	pg.text[41 + 2].unicode = 'C'; pg.text[41 + 2].size = VBI_DOUBLE_WIDTH;
	pg.text[41 + 3].unicode = 'C'; pg.text[41 + 3].size = VBI_OVER_TOP;
	pg.text[41 + 4].unicode = 'd'; pg.text[41 + 4].size = VBI_DOUBLE_HEIGHT;
	pg.text[82 + 4].unicode = 'd'; pg.text[82 + 4].size = VBI_DOUBLE_HEIGHT2;
	build_haystacks(&pg, &d);
	if (d.n[1] != 23 * 41 - 1 - 1 || d.n[0] != d.n[1] + 1)
		vf_fail("selftest:C17", "haystack lengths %d/%d", d.n[0], d.n[1]);
	if (d.us[1][0] != 'a' || d.us[1][2] != 'C' || d.us[1][3] != 'd' || d.us[1][39] != 0x0A)
		vf_fail("selftest:C17", "haystack folding wrong");
	if (d.cellpos[1][3] != 2 || d.cellpos[2][4] != 3 || d.cellpos[2][5] != 44)
		vf_fail("selftest:C17", "cell map wrong: %d %d %d", d.cellpos[1][3], d.cellpos[2][4], d.cellpos[2][5]);

	/* literal escaping: "a.b" must not match "axb" */
	lit[0] = 'b'; lit[1] = '.'; lit[2] = 'd';
	pat_literal(&p, lit, 3, 0);
	if (!pat_compile_ref(&p)) vf_fail("selftest:C17", "literal does not compile");
	if (ref_search(d.us[1], d.n[1], 0, &ms, &me)) vf_fail("selftest:C17", "literal 'b.d' matched 'bCd'");
	lit[1] = 'C';
	pat_literal(&p, lit, 3, 0);
	pat_compile_ref(&p);
	if (!ref_search(d.us[1], d.n[1], 0, &ms, &me) || ms != 1 || me != 4) vf_fail("selftest:C17", "literal 'bCd' not found at 1..4");
	lit[1] = 'c';
	pat_literal(&p, lit, 3, 1);
	pat_compile_ref(&p);
	if (!ref_search(d.us[1], d.n[1], 0, &ms, &me)) vf_fail("selftest:C17", "casefold 'bcd' not found");
	if (!ref_fullmatch(d.us[1], 1, 4) || ref_fullmatch(d.us[1], 0, 4)) vf_fail("selftest:C17", "fullmatch wrong");
	/* '.' must not cross the row separator */
	{
		static const char re[] = "d.";
		memset(&p, 0, sizeof p); p.regexp = 1;
		for (i = 0; re[i]; i++) put(&p, (unsigned)re[i]);
		pat_compile_ref(&p);
		if (!ref_search(d.us[1], d.n[1], 0, &ms, &me) || ms != 3) vf_fail("selftest:C17", "'d.' not found at 3");
		p.n_ere = p.n_ure = 0;
		put(&p, ' '); put(&p, '.'); put(&p, ' ');
		pat_compile_ref(&p);
		if (ref_fullmatch((const uint16_t *)(const void *)(uint16_t[]){ ' ', 0x0A, ' ' }, 0, 3)) vf_fail("selftest:C17", "'.' matched the row separator");
	}
	/* non-ASCII round trip */
	lit[0] = 0xEE21; lit[1] = 0x00A3;
	pat_literal(&p, lit, 2, 0);
	pat_compile_ref(&p);
	{
		uint16_t h[5] = { 'x', 0xEE21, 0x00A3, 'y', 0x0A };
		if (!ref_search(h, 5, 0, &ms, &me) || ms != 1 || me != 3) vf_fail("selftest:C17", "non-ASCII literal not found at 1..3");
	}

	/* expected order */
	n_db = 4;
	db[0].key = 0x1000000; db[1].key = 0x1500001; db[2].key = 0x1500002; db[3].key = 0x3000000;
	for (i = 0; i < 4; i++) db[i].match[0] = 1;
	n = expected_order(0, start_key(0x150, VBI_ANY_SUBNO, +1), +1, -1, out);
	if (n != 4 || out[0] != 1 || out[3] != 0) vf_fail("selftest:C17", "forward order wrong");
	n = expected_order(0, start_key(0x150, 2, -1), -1, -1, out);
	if (n != 4 || out[0] != 1 || out[1] != 0 || out[2] != 3 || out[3] != 2) vf_fail("selftest:C17", "backward order wrong");
	n = expected_order(0, start_key(0x150, VBI_ANY_SUBNO, -1), -1, -1, out);
	if (n != 4 || out[0] != 2 || out[3] != 3) vf_fail("selftest:C17", "backward order (any subno) wrong");
	n = expected_order(0, start_key(0x100, 0, -1), -1, -1, out);
	if (n != 4 || out[0] != 3 || out[3] != 0) vf_fail("selftest:C17", "backward order from 100.0 wrong");
	n_db = 0;
	if (ref_ok) { regfree(&ref_re); ref_ok = 0; }
}

int main(int argc, char **argv) { return vf_main(argc, argv, run_case, selftest); }
