/* C01 - the service decoder survives every input.
 *
 * One case = one generated history: a script of vbi_decode() frames (Teletext
 * packets from an independent packetiser covering every page function, caption/
 * XDS/ITV byte pairs, VPS, WSS, junk lines, irregular timestamps; mutated at a
 * seeded rate) interleaved with the read-side API (fetch at all levels,
 * classify, title, links, exports to memory, print, draw, search, channel
 * switch, handler (un)registration, region/level/brightness), some of it from
 * inside event handlers.  Oracle: sanitizers / asserts / watchdog (driver), a
 * few cheap contract checks (strings terminated, sizes respected), LeakSanitizer
 * after vbi_decoder_delete (mode "fuzz", asan flavour), heap conservation and
 * carousel growth (mode "heap", plain flavour with malloc interposition).
 *
 * --p6 N  execute only the first N ops of the script (witness minimisation)
 * --p7 K  skip op K-1
 */
#include "c01_exec.h"
#include "c01_ttx.h"
#include "c01_cc.h"
#include <math.h>

int c01_station_pgno(struct vf_rng *r) { return st_any_pgno(r); }

/* ---------------- frame composition ---------------- */

static double cur_t, frame_dt;
static int t_irregular;                 /* 0 never, else 1/t_irregular frames */
static int ttx_on, cc_on, xds_on, itv_on, vps_on, wss_on, junk_on, ttx_per_frame;
static uint8_t wss_cur[3];
static int wss_left, vps_idx, vps_left;

static void add_line(unsigned id, int line, const uint8_t *d, int n)
{
	vbi_sliced *s;
	if (n_pool >= MAXLINES) return;
	s = &pool[n_pool++];
	memset(s, 0, sizeof *s);
	s->id = id; s->line = (uint32_t)line;
	memcpy(s->data, d, (size_t)n);
}

static void tq_refill(struct vf_rng *r)
{
	int a_end;
	tq_n = tq_head = 0;
	gen_page(r, st_next(r));
	a_end = tq_n;
	if (vf_chance(r, 1, 2)) gen_page(r, st_next(r));
	if (!st.serial && tq_n > a_end && vf_chance(r, 2, 3)) {
		/* parallel transmission: riffle the two pages (order inside each page kept) */
		static struct g_pkt m[TQ_MAX];
		int i = 0, j = a_end, k = 0;
		while (i < a_end || j < tq_n) {
			if (j >= tq_n || (i < a_end && vf_chance(r, 1, 2))) m[k++] = tq[i++];
			else m[k++] = tq[j++];
		}
		memcpy(tq, m, (size_t)k * sizeof m[0]);
	}
}

static void cq_refill(struct vf_rng *r, int f)
{
	cq_n[f] = cq_head[f] = 0;
	if (f == 1 && xds_on && vf_chance(r, 1, 2)) gen_xds(r);
	else if (f == 0 && itv_on && vf_chance(r, 1, 3)) gen_itv(r);
	else gen_caption_burst(r, f);
	if (cq_n[f] == 0) cq_push(r, f, 0, 0);
}

static void next_time(struct vf_rng *r)
{
	if (t_irregular && vf_chance(r, 1, (unsigned)t_irregular)) {
		switch (vf_below(r, 9)) {
		case 0: cur_t += vf_range(r, 1, 100); break;
		case 1: break;                                  /* repeat */
		case 2: cur_t -= vf_unit(r) * 10; break;        /* backwards */
		case 3: cur_t = 0; break;
		case 4: cur_t = 1e18; break;
		case 5: cur_t += 0.001; break;
		case 6: cur_t = -5; break;
		case 7: cur_t = 1000 + vf_unit(r) * 1000; break;
		default: cur_t += 0.06; break;
		}
	} else
		cur_t += frame_dt;
}

static void gen_frame(struct vf_rng *r)
{
	struct op *o;
	int i, nttx = 0;
	if (n_ops >= MAXOPS) return;
	o = &ops[n_ops++];
	memset(o, 0, sizeof *o);
	o->kind = OP_FRAME; o->first = n_pool;
	if (ttx_on) {
		nttx = vf_chance(r, 1, 8) ? (int)vf_below(r, 4) : vf_range(r, ttx_per_frame / 2, ttx_per_frame);
		for (i = 0; i < nttx; i++) {
			static const unsigned ids[] = { VBI_SLICED_TELETEXT_B, VBI_SLICED_TELETEXT_B, VBI_SLICED_TELETEXT_B_L10_625, VBI_SLICED_TELETEXT_B_L25_625 };
			if (tq_head >= tq_n) tq_refill(r);
			if (tq_head >= tq_n) break;
			add_line(ids[vf_below(r, 4)], i < 16 ? 7 + i : 320 + (i - 16), tq[tq_head++].b, 42);
			cnt[C_TTX_LINES]++;
		}
	}
	if (cc_on) {
		int f;
		for (f = 0; f < 2; f++) {
			if (vf_chance(r, 1, 10)) continue;
			if (cq_head[f] >= cq_n[f]) cq_refill(r, f);
			if (f == 0) add_line(vf_chance(r, 1, 8) ? VBI_SLICED_CAPTION_625_F1 : vf_chance(r, 1, 4) ? VBI_SLICED_CAPTION_525 : VBI_SLICED_CAPTION_525_F1,
					     vf_chance(r, 1, 12) ? 22 : 21, cq[0][cq_head[0]], 2);
			else add_line(vf_chance(r, 1, 12) ? VBI_SLICED_CAPTION_625_F2 : VBI_SLICED_CAPTION_525_F2, vf_chance(r, 1, 20) ? 335 : 284, cq[1][cq_head[1]], 2);
			cq_head[f]++;
			cnt[C_CC_LINES]++;
		}
	}
	if (vps_on && vf_chance(r, 1, 3)) {
		uint8_t d[13];
		if (vps_left <= 0) { vps_idx = (int)vf_below(r, 6); vps_left = vf_range(r, 1, 6); }
		vps_left--;
		gen_vps(r, d, vps_idx);
		if (vf_chance(r, 1, 8)) vf_bytes(r, d, 13);
		add_line(vf_chance(r, 1, 10) ? VBI_SLICED_VPS_F2 | VBI_SLICED_VPS : VBI_SLICED_VPS, 16, d, 13);
		cnt[C_VPS_LINES]++;
	}
	if (wss_on && vf_chance(r, 1, 3)) {
		if (wss_left <= 0) { vf_bytes(r, wss_cur, 3); wss_left = vf_range(r, 1, 5); }
		wss_left--;
		if (vf_chance(r, 3, 4)) add_line(VBI_SLICED_WSS_625, 23, wss_cur, 2);
		else add_line(VBI_SLICED_WSS_CPR1204, 20, wss_cur, 3);
		cnt[C_WSS_LINES]++;
	}
	if (junk_on && vf_chance(r, 1, 4)) {
		static const unsigned ids[] = { 0, VBI_SLICED_TELETEXT_A, VBI_SLICED_TELETEXT_C_625, VBI_SLICED_NABTS, VBI_SLICED_2xCAPTION_525, VBI_SLICED_TELETEXT_B_525,
			VBI_SLICED_VBI_625, 0xFFFFFFFFu, VBI_SLICED_TELETEXT_B | VBI_SLICED_VPS, VBI_SLICED_CAPTION_525 | VBI_SLICED_CAPTION_625, VBI_SLICED_WSS_625 | VBI_SLICED_WSS_CPR1204,
			VBI_SLICED_TELETEXT_B, VBI_SLICED_CAPTION_525_F2, VBI_SLICED_VPS, VBI_SLICED_WSS_625, VBI_SLICED_CAPTION_525_F1 };
		static const int lines[] = { 0, 1, 21, 22, 284, 335, 16, 23, 7, 1000, -1, 0x7FFFFFFF };
		uint8_t d[56];
		int k;
		for (k = vf_range(r, 1, 3); k > 0; k--) {
			vf_bytes(r, d, sizeof d);
			add_line(vf_chance(r, 1, 6) ? vf_u32(r) : ids[vf_below(r, sizeof ids / sizeof ids[0])], lines[vf_below(r, sizeof lines / sizeof lines[0])], d, 56);
			cnt[C_JUNK_LINES]++;
		}
	}
	o->n = n_pool - o->first;
	if (o->n > 1 && vf_chance(r, 1, 10)) {          /* line order inside a frame is not guaranteed */
		int a = o->first + (int)vf_below(r, (unsigned)o->n), b = o->first + (int)vf_below(r, (unsigned)o->n);
		vbi_sliced t = pool[a]; pool[a] = pool[b]; pool[b] = t;
	}
	next_time(r);
	o->t = cur_t;
}

static void gen_read_op(struct vf_rng *r)
{
	struct op *o;
	unsigned k;
	if (n_ops >= MAXOPS) return;
	o = &ops[n_ops];
	memset(o, 0, sizeof *o);
	k = vf_below(r, 100);
	if (k < 40) {
		static const int rows[] = { 25, 25, 25, 24, 1, 1, 2, 13 };
		if (!(rd & RD_FETCH)) return;
		o->kind = OP_FETCH_VT; o->a = (int)vf_below(r, 4); o->b = vf_chance(r, 1, 10) ? vf_range(r, 1, 25) : rows[vf_below(r, 8)];
		o->c = vf_chance(r, 2, 3); o->d = vf_chance(r, 1, 8);
	} else if (k < 50) { if (!(rd & RD_FETCH)) return; o->kind = OP_FETCH_CC; o->a = vf_chance(r, 1, 10) ? vf_range(r, -1, 10) : vf_range(r, 1, 8); }
	else if (k < 56) { if (!(rd & RD_MISC)) return; o->kind = OP_CLASSIFY; o->a = vf_chance(r, 1, 4) ? vf_range(r, 1, 8) : 0; }
	else if (k < 60) { if (!(rd & RD_MISC)) return; o->kind = OP_TITLE; }
	else if (k < 68) {
		if (!(rd & RD_SEARCH)) return;
		o->kind = OP_SEARCH; o->a = vf_chance(r, 1, 2) ? 0 : vf_range(r, 0x100, 0x8FF);
		o->b = vf_chance(r, 2, 3) ? VBI_ANY_SUBNO : (int)vf_below(r, 0x4000); o->c = (int)vf_below(r, 4); o->d = (int)vf_below(r, 16);
	}
	else if (k < 70) { if (!(rd & RD_CHSW)) return; o->kind = OP_CHSW; }
	else if (k < 75) { if (!(rd & RD_MISC)) return; o->kind = OP_REGISTER; o->a = (int)vf_below(r, 4); o->b = (int)vf_below(r, 12); }
	else if (k < 78) { if (!(rd & RD_MISC)) return; o->kind = OP_UNREGISTER; o->a = (int)vf_below(r, 4); }
	else if (k < 81) { if (!(rd & RD_MISC)) return; o->kind = OP_REGION; o->a = vf_chance(r, 1, 6) ? vf_range(r, -10, 200) : (int)vf_below(r, 88); }
	else if (k < 84) { if (!(rd & RD_MISC)) return; o->kind = OP_LEVEL; o->a = vf_range(r, -1, 4); }
	else if (k < 86) { if (!(rd & RD_MISC)) return; o->kind = OP_BRIGHT; o->a = vf_chance(r, 1, 4) ? (int)vf_u32(r) : (int)vf_below(r, 256); o->b = vf_chance(r, 1, 4) ? (int)vf_u32(r) : vf_range(r, -128, 127); }
	else if (k < 91) { if (!(rd & RD_MISC)) return; o->kind = OP_IS_CACHED; }
	else if (k < 94) { if (!(rd & RD_MISC)) return; o->kind = OP_HI_SUBNO; }
	else { if (!(rd & RD_HELD)) return; o->kind = OP_HELD; }
	n_ops++;
}

static void gen_flush(struct vf_rng *r)
{
	/* time-filling headers commit the page in progress of every magazine */
	struct spage f;
	int i;
	if (!ttx_on) return;
	tq_n = tq_head = 0;
	for (i = 0; i < st.nmags; i++) {
		memset(&f, 0, sizeof f);
		f.pgno = st.mags[i] * 0x100 + 0xFF; f.role = R_FILL;
		gen_header(r, &f, 0x3F7F, 0);
	}
	while (tq_head < tq_n && n_ops < MAXOPS) gen_frame(r);
	if (n_ops < MAXOPS) gen_frame(r);
}

static void gen_script(struct vf_rng *r, int nops, int read_pct)
{
	n_ops = 0; n_pool = 0;
	tq_n = tq_head = 0; cq_n[0] = cq_n[1] = cq_head[0] = cq_head[1] = 0;
	wss_left = vps_left = 0;
	while (n_ops < nops && n_pool < MAXLINES - 64) {
		if ((int)vf_below(r, 100) < read_pct) gen_read_op(r);
		else gen_frame(r);
	}
}

/* ---------------- profiles ---------------- */

static const unsigned mut_rates[] = { 0, 0, 0, 65, 650, 3300, 16000, 65536 };   /* per packet: 0, .1%, 1%, 5%, 25%, 100% */

static char desc[600];

static void setup_profile(struct vf_rng *r, int profile)
{
	int mi = (int)vf_below(r, 8);
	feat = 0; rd = RD_FETCH | RD_NAV | RD_SEARCH | RD_EXPORT | RD_DRAW | RD_CHSW | RD_NESTED | RD_MISC | RD_HELD | RD_LINKS;
	ttx_on = cc_on = xds_on = itv_on = vps_on = wss_on = junk_on = 0;
	mut_rate = mut_rates[mi]; cc_mut_rate = mut_rate / 4;
	ttx_per_frame = vf_chance(r, 1, 2) ? 16 : vf_range(r, 2, 32);
	frame_dt = vf_chance(r, 1, 2) ? 0.04 : 1 / 29.97;
	t_irregular = vf_chance(r, 1, 2) ? 0 : vf_chance(r, 1, 2) ? 200 : 20;
	nest_rate = vf_chance(r, 1, 3) ? 0 : vf_chance(r, 1, 2) ? 4 : 20;
	switch (profile) {
	case 0: /* Teletext, all features */
		ttx_on = 1; feat = vf_u32(r) & 0x1FFF; if (vf_chance(r, 1, 4)) feat |= F_HOSTILE_STRUCT;
		if (vf_chance(r, 1, 2)) feat |= F_MOT | F_POP | F_DRCS | F_X26;
		if (vf_chance(r, 1, 2)) feat |= F_TOP;
		if (vf_chance(r, 1, 4)) { vps_on = 1; wss_on = 1; }
		break;
	case 1: /* caption */
		cc_on = 1; xds_on = vf_chance(r, 2, 3); itv_on = vf_chance(r, 1, 2); frame_dt = 1 / 29.97;
		if (vf_chance(r, 1, 4)) wss_on = 1;
		break;
	case 2: /* everything at once */
		ttx_on = cc_on = xds_on = itv_on = vps_on = wss_on = 1; junk_on = vf_chance(r, 1, 2);
		feat = vf_u32(r) & 0x3FFF;
		break;
	case 3: /* object/DRCS/TOP focus, no mutation: deep formatting paths */
		ttx_on = 1; feat = F_SUB | F_FLOF | F_X26 | F_X28 | F_M29 | F_MOT | F_POP | F_DRCS | F_TOP | (vf_chance(r, 1, 2) ? F_MIP : 0) | (vf_chance(r, 1, 2) ? F_TRIG : 0);
		mut_rate = vf_chance(r, 3, 4) ? 0 : 65; t_irregular = vf_chance(r, 3, 4) ? 0 : 200;
		break;
	case 4: /* triggers */
		ttx_on = cc_on = itv_on = 1; feat = F_TRIG | F_830 | (vf_u32(r) & 0xF);
		mut_rate = vf_chance(r, 1, 2) ? 0 : mut_rate; cc_mut_rate = mut_rate / 8; t_irregular = vf_chance(r, 1, 2) ? 0 : 200;
		break;
	default: /* noise on all services */
		ttx_on = cc_on = vps_on = wss_on = junk_on = 1; xds_on = 1; feat = vf_u32(r) & 0x3FFF; mut_rate = 65536; cc_mut_rate = 30000;
		break;
	}
}

/* ---------------- one decoder life ---------------- */

static void run_script(int from, int to)
{
	int i;
	for (i = from; i < to; i++) {
		if (vf_param[6] > 0 && i >= vf_param[6]) break;
		if (case_aborted) break;
		if (vf_param[7] > 0 && i == vf_param[7] - 1) continue;
		if (vf_verbose) vf_log("  op %d kind %d a=%d b=%d c=%d d=%d n=%d t=%f\n", i, ops[i].kind, ops[i].a, ops[i].b, ops[i].c, ops[i].d, ops[i].n, ops[i].t);
		exec_op(&ops[i]);
	}
}

/* second handler registered at the start of a decoder life: drawn once per case so that every life
   of the heap job does exactly the same */
static int reg_second, reg_mask;
static void draw_handlers(struct vf_rng *r) { reg_second = vf_chance(r, 1, 2); reg_mask = (int)vf_below(r, 12); }

static int decoder_new(int late_handlers)
{
	vf_phase("vbi_decoder_new");
	g_vbi = vbi_decoder_new();
	if (!g_vbi) { vf_fail("harness:alloc", "vbi_decoder_new failed"); return 0; }
	if (!late_handlers) {
		do_register(0, 0);
		if (reg_second) do_register(2, reg_mask);
	}
	return 1;
}

static void decoder_end(void)
{
	int h;
	census();
	drop_exports();
	for (h = 0; h < 3; h++) release_held(h);
	vf_phase("vbi_decoder_delete");
	vbi_decoder_delete(g_vbi);
	g_vbi = NULL;
}

/* ---------------- mode fuzz ---------------- */

static int case_fuzz(struct vf_rng *r)
{
	int profile, nops, read_pct, late;
	static const int prof[] = { 0, 0, 0, 1, 1, 2, 2, 3, 3, 3, 4, 5 };
	profile = prof[vf_below(r, sizeof prof / sizeof prof[0])];
	setup_profile(r, profile);
	odd_sub_rate = 12; short_countdown = 0;
	station_build(r);
	nops = vf_tier ? vf_range(r, 200, 5000) : vf_range(r, 200, 1200);
	if (vf_chance(r, 1, 3)) nops = vf_range(r, 100, 300);
	read_pct = vf_chance(r, 1, 4) ? 5 : vf_range(r, 10, 40);
	cur_t = vf_chance(r, 1, 10) ? 0.0 : 1000.0;
	n_mutated = 0;
	gen_script(r, nops, read_pct);
	gen_flush(r);
	if (vf_chance(r, 1, 2) && n_ops < MAXOPS - 8) { int k; for (k = 0; k < 6; k++) gen_read_op(r); }
	late = vf_chance(r, 1, 8);
	snprintf(desc, sizeof desc, "profile=%d feat=0x%04x mut=%u/65536 ttx=%d cc=%d xds=%d itv=%d vps=%d wss=%d junk=%d serial=%d pages=%d ops=%d lines=%d tirr=%d nest=%d late=%d",
		 profile, feat, mut_rate, ttx_on, cc_on, xds_on, itv_on, vps_on, wss_on, junk_on, st.serial, st.n, n_ops, n_pool, t_irregular, nest_rate, late);
	vf_sample("%s", desc);
	cnt[C_MUTATED] += n_mutated;

	exec_reset_state();
	vf_rng_seed(&xr, vf_seed ^ 0xC01, (uint64_t)vf_case);
	draw_handlers(r);
	if (!decoder_new(late)) return 0;
	run_script(0, n_ops);
	decoder_end();
	cnt[C_DECODER_CYCLES]++;
	vf_phase("leak-check-after-vbi_decoder_delete");
	vf_leak_check();
	{
		unsigned ev = ev_seen & 0xFFF, fn = fn_seen, api = api_ok;
		int trivial = (cnt[C_CACHED_PAGES] == 0 && ev == 0);
		flush_counts();
		if (trivial) return 0;
		vf_sig("fn=%03x", fn);
		vf_sig("ev=%03x", ev);
		vf_sig("api=%04x", api);
		vf_sig("p%d m%d fn%d ev%d", profile, mut_rate == 0 ? 0 : mut_rate < 1000 ? 1 : mut_rate < 65536 ? 2 : 3, __builtin_popcount(fn), __builtin_popcount(ev));
	}
	return 1;
}

/* ---------------- mode heap ---------------- */

static const struct { const char *name; unsigned feat; unsigned rd; int ttx, cc, xds, itv, vw; } fam[] = {
	{ "lop",     F_SUB | F_FLOF | F_X26 | F_X28 | F_M29, RD_FETCH | RD_NAV | RD_LINKS | RD_MISC, 1, 0, 0, 0, 0 },
	{ "drcs",    F_X26 | F_MOT | F_DRCS | F_MIP | F_X28, RD_FETCH | RD_NAV | RD_DRAW, 1, 0, 0, 0, 0 },
	{ "pop",     F_X26 | F_MOT | F_POP | F_X28 | F_SUB, RD_FETCH | RD_NAV, 1, 0, 0, 0, 0 },
	{ "top",     F_TOP | F_SUB, RD_FETCH | RD_NAV | RD_MISC | RD_LINKS, 1, 0, 0, 0, 0 },
	{ "trigger", F_TRIG | F_830, RD_FETCH | RD_NESTED, 1, 1, 0, 1, 0 },
	{ "caption", 0, RD_FETCH | RD_DRAW | RD_EXPORT | RD_NESTED, 0, 1, 1, 1, 1 },
	{ "search",  F_SUB | F_FLOF | F_DATA, RD_FETCH | RD_SEARCH, 1, 0, 0, 0, 0 },
	{ "export",  F_SUB | F_FLOF | F_X26 | F_X28, RD_FETCH | RD_NAV | RD_EXPORT | RD_DRAW | RD_LINKS, 1, 0, 0, 0, 0 },
	{ "mixed",   0x1FFF, RD_FETCH | RD_NAV | RD_SEARCH | RD_EXPORT | RD_DRAW | RD_NESTED | RD_MISC | RD_LINKS | RD_HELD, 1, 1, 1, 1, 1 },
	{ "chsw",    F_SUB | F_MOT | F_POP | F_DRCS | F_TOP | F_830 | F_X26, RD_FETCH | RD_NAV | RD_CHSW | RD_MISC | RD_NESTED, 1, 1, 1, 0, 1 },
	/* named quirk Q-oddsub: pages that have subpages are also sent with clock-style / out-of-range subcodes
	   (single-version keying in the cache); every other carousel family sends regular subcodes only */
	{ "oddsub",  F_SUB | F_FLOF | F_X26, RD_FETCH | RD_NAV | RD_LINKS | RD_MISC, 1, 0, 0, 0, 0 },
};
#define FAM_ODDSUB 10
#define NFAM ((int)(sizeof fam / sizeof fam[0]))

static void setup_family(struct vf_rng *r, int f, int hostile)
{
	feat = fam[f].feat; rd = fam[f].rd;
	ttx_on = fam[f].ttx; cc_on = fam[f].cc; xds_on = fam[f].xds; itv_on = fam[f].itv; vps_on = wss_on = fam[f].vw; junk_on = 0;
	mut_rate = hostile ? mut_rates[3 + vf_below(r, 4)] : 0; cc_mut_rate = mut_rate / 4;
	ttx_per_frame = 16; frame_dt = 0.04; t_irregular = (hostile && vf_chance(r, 1, 2)) ? 100 : 0;
	nest_rate = (rd & RD_NESTED) ? 6 : 0;
	if (f == 9) t_irregular = 60;
}

/* glibc loads a gconv module on the first iconv_open() of a character set and unloads it again
 * some iconv_close() calls later (gconv_dl.c, TRIES_BEFORE_UNLOAD), so the number of live blocks
 * would wander from one decoder life to the next for reasons that have nothing to do with the
 * library.  One descriptor per character set the harness ever asks for stays open for the life of
 * the process; the modules and the derivation cache are then allocated before the first baseline. */
#include <iconv.h>
#include <time.h>
static void pin_iconv(void)
{
	/* what the harness asks for (exercise_page, get_export; lower case as exp-html spells it) and what
	   exp-html picks from the page's character set */
	static const char *const cs[] = { "UTF-8", "ISO-8859-1", "iso-8859-1", "ASCII", "UCS-2", "UTF-16", "EUC-JP", "ANSI_X3.4-1968", "US-ASCII", "UCS-4", "WCHAR_T",
		"ISO-8859-2", "iso-8859-2", "ISO-8859-4", "ISO-8859-5", "ISO-8859-7", "ISO-8859-8", "ISO-8859-9", "KOI8-R", "KOI8-U",
		"iso-8859-4", "iso-8859-5", "iso-8859-6", "ISO-8859-6", "iso-8859-7", "iso-8859-8", "iso-8859-9", "koi8-r", "koi8-u", "utf-8", "iso-10646", "ISO-10646",
		/* names that do not exist: the failed lookup is cached by glibc, too */
		"nope", "", "#", " ", "32", "0x2A", "no-such-charset", "999999999999", "0x", "\xE4" };
	static int done;
	unsigned i;
	if (done) return;
	done = 1;
	tzset();                                   /* mktime() in the trigger parser reads the time zone file once */
	for (i = 0; i < sizeof cs / sizeof cs[0]; i++) {
		(void)iconv_open(cs[i], "UCS-2");
		(void)iconv_open("UCS-2", cs[i]);
	}
}

static int case_heap(struct vf_rng *r, long idx)
{
	int f = (int)(idx % NFAM), carousel = (int)((idx / NFAM) & 1), hostile, K = 10, round, c;
	long before, after, lvl[10], blk[10];
	char key[96];
	if (!vf_heap_available()) { vf_fail("harness:C01:no-heap-accounting", "mode heap needs the plain flavour with \"heap\": True"); return 0; }
	pin_iconv();
	hostile = !carousel && vf_chance(r, 1, 2);
	setup_family(r, f, hostile);
	if (carousel) { rd &= ~(unsigned)RD_CHSW; t_irregular = 0; }
	odd_sub_rate = (f == FAM_ODDSUB) ? 3 : carousel ? 0 : 12;
	short_countdown = carousel;
	station_build(r);
	cur_t = 1000.0;
	n_mutated = 0;
	if (carousel) {
		/* one round: every station page at least twice, with reads in between */
		int guard = 0, i, all;
		n_ops = 0; n_pool = 0; tq_n = tq_head = 0; cq_n[0] = cq_n[1] = cq_head[0] = cq_head[1] = 0; wss_left = vps_left = 0;
		do {
			if ((int)vf_below(r, 100) < 20) gen_read_op(r); else gen_frame(r);
			for (all = 1, i = 0; i < st.n; i++) if (st.p[i].sent < 2 && st.p[i].role != R_FILL) all = 0;
			if (!ttx_on) all = (n_ops >= 300);
		} while ((!all || tq_head < tq_n) && ++guard < 1500 && n_ops < MAXOPS - 40 && n_pool < MAXLINES / 8);
		gen_flush(r);
		for (i = 0; i < 12; i++) gen_read_op(r);
	} else {
		gen_script(r, vf_tier ? vf_range(r, 200, 1500) : vf_range(r, 100, 500), 25);
		gen_flush(r);
	}
	draw_handlers(r);
	snprintf(desc, sizeof desc, "family=%s %s hostile=%d feat=0x%04x mut=%u pages=%d ops=%d lines=%d", fam[f].name, carousel ? "carousel" : "cycles", hostile, feat, mut_rate, st.n, n_ops, n_pool);
	vf_sample("%s", desc);
	cnt[C_MUTATED] += n_mutated;

	if (!carousel) {
		/* Three identical decoder lives (same script, same read-side choices).  The first is the
		   warm-up: one-time allocations of libc, iconv (gconv modules are loaded on the first use
		   of *each* character set), gettext and libpng happen there, which is only true if the
		   measured lives do exactly what the warm-up did. */
		for (c = 0; c < 3; c++) {
			exec_reset_state();
			vf_rng_seed(&xr, vf_seed ^ 0xC01, (uint64_t)vf_case);
			before = vf_heap_live_blocks();
			if (!decoder_new(0)) return 0;
			run_script(0, n_ops);
			decoder_end();
			after = vf_heap_live_blocks();
			cnt[C_DECODER_CYCLES]++;
			if (c > 0 && after != before) {
				snprintf(key, sizeof key, "heap:C01:not-released:%s", fam[f].name);
				vf_fail(key, "decoder life %d: %ld blocks live before vbi_decoder_new, %ld after vbi_decoder_delete (%+ld); %s", c + 1, before, after, after - before, desc);
				break;
			}
		}
	} else {
		int nframes = 0, i;
		long e_blk = 0, e_lvl = 0, l_blk = 0, l_lvl = 0;
		double period;
		char hist[400];
		size_t hn = 0;
		for (i = 0; i < n_ops; i++) if (ops[i].kind == OP_FRAME) nframes++;
		period = (nframes + 1) * frame_dt;
		/* warm-up life: one round, so that one-time allocations do not count as "not released" */
		exec_reset_state();
		vf_rng_seed(&xr, vf_seed ^ 0xC01, (uint64_t)vf_case);
		if (!decoder_new(0)) return 0;
		run_script(0, n_ops);
		decoder_end();
		cnt[C_DECODER_CYCLES]++;
		exec_reset_state();
		before = vf_heap_live_blocks();
		if (!decoder_new(0)) return 0;
		for (round = 0; round < K; round++) {
			vf_rng_seed(&xr, vf_seed ^ 0xC01, (uint64_t)vf_case);
			/* same transmission again, time keeps running */
			for (i = 0; i < n_ops; i++) if (ops[i].kind == OP_FRAME && round > 0) ops[i].t += period;
			drop_exports();
			run_script(0, n_ops);
			drop_exports();
			lvl[round] = vf_heap_live_bytes(); blk[round] = vf_heap_live_blocks();
			cnt[C_CAROUSEL_ROUNDS]++;
		}
		/* Growth = what is taken per retransmission and never given back.  Round 1 is the cold
		   start.  State that depends on the running time (deferred triggers waiting for their
		   fire time, the caption roll, a buffer that is enlarged once) may differ from round to
		   round, or step up once, but a leak per retransmission lifts every later window above
		   the one before it: with A = rounds 2-4, B = rounds 5-7, C = rounds 8-10 the verdict is
		   min(B) > max(A) and min(C) > max(B), for live blocks, or for live bytes with a margin
		   for the allocator's rounding of block sizes. */
		{
			long mn[3][2], mx[3][2];
			int w;
			for (w = 0; w < 3; w++) {
				mn[w][0] = mx[w][0] = blk[1 + 3 * w]; mn[w][1] = mx[w][1] = lvl[1 + 3 * w];
				for (round = 1 + 3 * w; round < 4 + 3 * w; round++) {
					if (blk[round] < mn[w][0]) mn[w][0] = blk[round];
					if (blk[round] > mx[w][0]) mx[w][0] = blk[round];
					if (lvl[round] < mn[w][1]) mn[w][1] = lvl[round];
					if (lvl[round] > mx[w][1]) mx[w][1] = lvl[round];
				}
			}
			e_blk = (mn[1][0] > mx[0][0] && mn[2][0] > mx[1][0]);
			e_lvl = (mn[1][1] > mx[0][1] + 256 && mn[2][1] > mx[1][1] + 256);
			l_blk = mx[0][0]; l_lvl = mx[0][1];
		}
		if (e_blk || e_lvl) {
			for (round = 0; round < K && hn < sizeof hist - 40; round++)
				hn += (size_t)snprintf(hist + hn, sizeof hist - hn, " %ld/%ld", lvl[round], blk[round]);
			snprintf(key, sizeof key, "heap:C01:growth:%s", fam[f].name);
			vf_fail(key, "identical carousel sent %d times to one decoder: live bytes/blocks after each round =%s; rounds 5-7 lie above the maximum of rounds 2-4 (%ld bytes / %ld blocks) and rounds 8-10 above rounds 5-7: something is taken per retransmission and not given back; %s",
				K, hist, l_lvl, l_blk, desc);
		}
		decoder_end();
		after = vf_heap_live_blocks();
		cnt[C_DECODER_CYCLES]++;
		if (after != before) {
			snprintf(key, sizeof key, "heap:C01:not-released:%s", fam[f].name);
			vf_fail(key, "after carousel: %ld blocks live before vbi_decoder_new, %ld after vbi_decoder_delete (%+ld); %s", before, after, after - before, desc);
		}
	}
	{
		unsigned ev = ev_seen & 0xFFF, fn = fn_seen;
		int trivial = (cnt[C_CACHED_PAGES] == 0 && ev == 0);
		flush_counts();
		if (trivial) return 0;
		vf_sig("heap %s %s h%d fn=%03x ev=%03x", fam[f].name, carousel ? "carousel" : "cycles", hostile, fn, ev);
	}
	return 1;
}

static int run_case(struct vf_rng *r, long idx)
{
	memset(cnt, 0, sizeof cnt);
	if (vf_verbose) setvbuf(stdout, NULL, _IONBF, 0);     /* keep the op log of a replay that crashes or hangs */
	if (0 == strcmp(vf_mode, "heap")) return case_heap(r, idx);
	return case_fuzz(r);
}

/* ---------------- self-test of the transmitters ---------------- */

static int st_events, st_pgno, st_subno;
static void st_handler(vbi_event *ev, void *ud)
{
	(void)ud;
	if (ev->type == VBI_EVENT_TTX_PAGE) { st_events++; st_pgno = ev->ev.ttx_page.pgno; st_subno = ev->ev.ttx_page.subno; }
}

static void selftest(void)
{
	static const uint8_t ham_tab[16] = { 0x15, 0x02, 0x49, 0x5E, 0x64, 0x73, 0x38, 0x2F, 0xD0, 0xC7, 0x8C, 0x9B, 0xA1, 0xB6, 0xFD, 0xEA };
	unsigned d, bit;
	uint8_t t[3];
	for (d = 0; d < 16; d++) {
		if (g_ham84(d) != ham_tab[d]) vf_fail("selftest:C01", "ham8/4 of %u = %02x, EN 300 706 table says %02x", d, g_ham84(d), ham_tab[d]);
		if (vbi_unham8(g_ham84(d)) != (int)d) vf_fail("selftest:C01", "library does not decode ham8/4 %u", d);
	}
	for (d = 0; d < 128; d++)
		if (vbi_unpar8(g_par_odd(d)) != (int)d || vbi_unpar8(g_par_odd(d) ^ 0x80) >= 0) vf_fail("selftest:C01", "odd parity %u", d);
	for (d = 0; d < (1u << 18); d += (d < 4096 ? 1 : 37)) {
		g_ham2418(t, d);
		if (vbi_unham24p(t) != (int)d) { vf_fail("selftest:C01", "ham24/18 of %05x decodes to %x", d, vbi_unham24p(t)); break; }
		bit = d % 24;
		t[bit >> 3] ^= (uint8_t)(1u << (bit & 7));
		if (vbi_unham24p(t) != (int)d) { vf_fail("selftest:C01", "ham24/18 of %05x with bit %u flipped decodes to %x", d, bit, vbi_unham24p(t)); break; }
	}
	{
		const char *s = "<http://a>";
		/* 3C68 7474 703A 2F2F 613E -> one's complement sum */
		unsigned long sum = 0x3C68 + 0x7474 + 0x703A + 0x2F2F + 0x613E;
		while (sum >> 16) sum = (sum & 0xFFFF) + (sum >> 16);
		if (g_trigger_checksum(s, 10) != ((~sum) & 0xFFFF)) vf_fail("selftest:C01", "trigger checksum");
	}
	{
		/* a page built by the packetiser must arrive: header 1/23 sub 0002 + row 1, closed by the next header */
		vbi_decoder *v = vbi_decoder_new();
		struct g_pkt p;
		vbi_sliced sl;
		vbi_page *pg = &tmp_pg;
		uint8_t row[40];
		int i;
		double tt = 1000;
		char txt[33];
		memset(txt, ' ', 32); txt[32] = 0; memcpy(txt + 1, "123", 3);
		if (!v) { vf_fail("selftest:C01", "no decoder"); return; }
		vbi_event_handler_register(v, VBI_EVENT_TTX_PAGE, st_handler, NULL);
		memset(row, ' ', 40); memcpy(row, "HELLO", 5);
		for (i = 0; i < 4; i++) {
			memset(&sl, 0, sizeof sl); sl.id = VBI_SLICED_TELETEXT_B; sl.line = 7;
			if (i == 0) g_header(&p, 1, 0x23, 0x0002, 0, txt);
			else if (i == 1) g_text_row(&p, 1, 1, row);
			else if (i == 2) { unsigned tr[13]; int k; for (k = 0; k < 13; k++) tr[k] = G_TRIP(63, 0x1F, 0x7F); tr[0] = G_TRIP(41, 0x04, 0); tr[1] = G_TRIP(2, 0x09, 'X'); g_trip_row(&p, 1, 26, 0, tr); }
			else g_header(&p, 1, 0x24, 0, 0, txt);
			memcpy(sl.data, p.b, 42);
			vbi_decode(v, &sl, 1, tt); tt += 0.04;
		}
		if (st_events != 1 || st_pgno != 0x123 || st_subno != 2)
			vf_fail("selftest:C01", "packetiser page 123/2 not received: events=%d pgno=%x subno=%x", st_events, st_pgno, st_subno);
		else if (!vbi_fetch_vt_page(v, pg, 0x123, 2, VBI_WST_LEVEL_2p5, 25, 0) || pg->text[41].unicode != 'H' || pg->text[41 + 2].unicode != 'X')
			vf_fail("selftest:C01", "packetiser page content not as sent (row 1 'HELLO', X/26 G0 char 'X' at column 2): %x %x", pg->text[41].unicode, pg->text[43].unicode);
		vbi_decoder_delete(v);
	}
}

int main(int argc, char **argv) { return vf_main(argc, argv, run_case, selftest); }
