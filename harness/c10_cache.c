/* C10 - the Teletext cache is a coherent, bounded, reference-safe page store.
 *
 * The harness drives the cache through its internal API (cache-priv.h), exactly
 * as packet.c / teletext.c / vbi.c do, with histories of
 *   put / get (masks) / is-cached / highest-subpage / ref / unref / foreach /
 *   page-type update / channel switch / network add + drop
 * and watches every step with three monitors:
 *
 *  (i)   reference map: an MRU-stamped list of stored versions per network,
 *        written from the documented contract (subpage key rules of
 *        _vbi_cache_put_page's comments, "most recently stored or looked-up"
 *        for wildcard lookups, put(k) replaces what get(k) returns).  Exact
 *        without memory pressure.  Under a lowered memory_limit eviction is
 *        nondeterministic policy: a page may disappear only if it is
 *        unreferenced and the operation could not be satisfied within the limit.
 *  (ii)  structural audit after every operation: the harness itself walks
 *        hash chains, priority, referenced and networks lists through the
 *        dlist.h nodes and checks list membership, ring consistency, every
 *        counter and memory_used.
 *  (iii) teardown: all references released + vbi_cache_delete => heap back to
 *        the baseline (plain flavour, malloc interposition) / LeakSanitizer
 *        silent (asan flavour).
 *
 * Modes: "exh"  - exhaustive enumeration of all operation sequences of length
 *                 p0 over 10-operation alphabets; one case = one prefix of
 *                 length p1 (all its completions are replayed from an empty
 *                 cache), so the enumeration parallelises;
 *        "rand" - random histories (50..2000 operations), raw cache or a real
 *                 vbi_decoder (vbi_chsw_reset / vbi_is_cached / vbi_cache_hi_subno).
 */
#include "vf.h"
#include <string.h>
#include <stdlib.h>
#include <setjmp.h>
#include <signal.h>
#include <sys/time.h>

#include "site_def.h"
#ifdef HAVE_CONFIG_H
#  include "config.h"
#endif
#include "version.h"
#include "event.h"
#include "cache-priv.h"
#include "vbi.h"

/* ------------------------------------------------------------------------ */
/* page descriptors                                                           */

enum { SZ_LOP, SZ_ENH, SZ_EXT, SZ_UNK, SZ_POP, SZ_GPOP, SZ_DRCS, SZ_GDRCS, SZ_AIT, SZ_MOT, SZ_DATA, SZ_DISCARD, N_SZ };

static const struct { const char *name; int function; unsigned x26, x28; } szdef[N_SZ] = {
	{ "LOP",     PAGE_FUNCTION_LOP,     0,      0    },
	{ "ENH",     PAGE_FUNCTION_LOP,     0x0005, 0    },
	{ "EXT",     PAGE_FUNCTION_LOP,     0x0001, 0x01 },
	{ "UNK",     PAGE_FUNCTION_UNKNOWN, 0,      0x10 },
	{ "POP",     PAGE_FUNCTION_POP,     0,      0    },
	{ "GPOP",    PAGE_FUNCTION_GPOP,    0,      0    },
	{ "DRCS",    PAGE_FUNCTION_DRCS,    0,      0    },
	{ "GDRCS",   PAGE_FUNCTION_GDRCS,   0,      0    },
	{ "AIT",     PAGE_FUNCTION_AIT,     0,      0    },
	{ "MOT",     PAGE_FUNCTION_MOT,     0,      0    },
	{ "DATA",    PAGE_FUNCTION_DATA,    0x0003, 0    },
	{ "DISCARD", PAGE_FUNCTION_DISCARD, 0,      0    },
};

#define HDR ((unsigned)(sizeof(cache_page) - sizeof(((cache_page *)0)->data)))

/* storage size by the documented layout: header + the union member the page
 * function uses (cache-priv.h); unknown functions take the whole structure */
static unsigned model_size(int cls)
{
	switch (cls) {
	case SZ_LOP:   return HDR + (unsigned)sizeof(((cache_page *)0)->data.lop);
	case SZ_ENH:   return HDR + (unsigned)sizeof(((cache_page *)0)->data.enh_lop);
	case SZ_EXT:
	case SZ_UNK:   return HDR + (unsigned)sizeof(((cache_page *)0)->data.ext_lop);
	case SZ_POP:
	case SZ_GPOP:  return HDR + (unsigned)sizeof(((cache_page *)0)->data.pop);
	case SZ_DRCS:
	case SZ_GDRCS: return HDR + (unsigned)sizeof(((cache_page *)0)->data.drcs);
	case SZ_AIT:   return HDR + (unsigned)sizeof(((cache_page *)0)->data.ait);
	default:       return (unsigned)sizeof(cache_page);
	}
}

static uint64_t mix64(uint64_t *x)
{
	uint64_t z = (*x += 0x9E3779B97F4A7C15ull);
	z = (z ^ (z >> 30)) * 0xBF58476D1CE4E5B9ull;
	z = (z ^ (z >> 27)) * 0x94D049BB133111EBull;
	return z ^ (z >> 31);
}

static uint64_t content_salt;

/* the page the harness hands to the cache for version `vid` */
static void make_page(cache_page *t, int pgno, int subno, int cls, unsigned vid)
{
	uint64_t x = content_salt + (uint64_t)vid * 0x100000001B3ull;
	uint64_t *w = (uint64_t *)(void *)&t->data;
	size_t i, n = sizeof t->data / 8;

	memset(t, 0, HDR);
	t->function = szdef[cls].function;
	t->pgno = pgno;
	t->subno = subno;
	t->national = (int)(vid & 7);
	t->flags = (unsigned)mix64(&x);
	t->lop_packets = (unsigned)mix64(&x) & 0x3FFFFFF;
	t->x26_designations = szdef[cls].x26;
	t->x27_designations = (unsigned)mix64(&x) & 0xFFFF;
	t->x28_designations = szdef[cls].x28;
	for (i = 0; i < n; i++)
		w[i] = mix64(&x);
}

/* ------------------------------------------------------------------------ */
/* reference model                                                            */

#define MAXE    6000          /* versions per history */
#define MAXNET  48            /* model networks alive at one time */
#define MAXHELD 64
#define NSLOT   3             /* network handles the harness may hold */

enum { ST_FREE, ST_STORED, ST_ZOMBIE, ST_GONE };

struct ment {
	int state;
	int net;                  /* model network */
	int pgno, subno;          /* subno as stored (normalised) */
	int cls;
	int put_subno;            /* subno handed to put */
	unsigned vid;
	unsigned size;
	unsigned long stamp;      /* most-recently-used order */
	int refs;                 /* references the harness holds */
	cache_page *cp;
	int born_op;              /* operation that stored it */
	int live_pos;
};

struct mnet {
	int used;
	cache_network *cn;        /* valid while handles > 0 */
	int handles;              /* network references held by the harness */
	int n_live;               /* live entries (stored, or zombie still referenced) */
	int n_stored;
	uint8_t  ptype[0x800];
	uint16_t stale_max[0x800]; /* named quirk Q-hi-subno-stale: what a statistic that only ever grows
				      while the page has subpages (zombies included) would say */
};

static struct ment ent[MAXE];
static int n_ent;
static int live[MAXE], n_live;
static struct mnet mnets[MAXNET];
static int slot_net[NSLOT];                 /* model network per handle slot, -1 = empty */
static int held[MAXHELD], n_held;           /* entry index per held reference (multiset, in acquisition order) */
static unsigned long mclock;
static unsigned long mem_limit;
static int op_no;
static int pressure_seen;

static vbi_cache *ca;
static vbi_decoder *dec;                    /* decoder mode */

/* strict reference or named deviations (DESIGN.md section 2 item 5) */
static int quirk_clock23;                   /* clock subcodes 23:01..23:59 treated as invalid */

static int is_bcd(unsigned v)
{
	for (; v; v >>= 4)
		if ((v & 15) > 9) return 0;
	return 1;
}

/* Subpage key rules, from the comments in _vbi_cache_put_page (EN 300 706 A.1, E.2):
 *  - hex page numbers: the S1 element (low nibble) is the subpage number, any subcode is stored as is;
 *  - BCD page, subno 0: one version;
 *  - clock page (page type says so, or subno >= 0x0100): one version, subno kept if it is
 *    a valid time 00:00..23:59, else 0;
 *  - subno that is not BCD 01..79: rolling page without subpages, one version, subno 0;
 *  - else: a page with subpages, all versions, key is the low byte. */
static void key_rule(int pgno, int subno, int ptype, int *stored, int *mask)
{
	if (!is_bcd((unsigned)pgno)) { *stored = subno; *mask = 0x000F; return; }
	if (subno == 0) { *stored = 0; *mask = 0; return; }
	if (ptype == VBI_NONSTD_SUBPAGES || subno >= 0x100) {
		int ok = is_bcd((unsigned)subno) && (subno >> 8) <= 0x23 && (subno & 0xFF) <= 0x59;
		if (quirk_clock23 && subno > 0x2300) ok = 0;
		*stored = ok ? subno : 0; *mask = 0; return;
	}
	if (!is_bcd((unsigned)subno) || subno > 0x79) { *stored = 0; *mask = 0; return; }
	*stored = subno; *mask = 0xFF;
}

static int pgno_storable(int pgno) { return pgno >= 0x100 && pgno <= 0x8FF && (pgno & 0xFF) != 0xFF; }

static struct ment *model_lookup(int net, int pgno, int subno, int mask)
{
	struct ment *best = NULL;
	int i;
	for (i = 0; i < n_live; i++) {
		struct ment *e = &ent[live[i]];
		if (e->state != ST_STORED || e->net != net || e->pgno != pgno) continue;
		if ((e->subno & mask) != (subno & mask)) continue;
		if (!best || e->stamp > best->stamp) best = e;
	}
	return best;
}

static unsigned long model_memory(void)
{
	unsigned long m = 0;
	int i;
	for (i = 0; i < n_live; i++) {
		struct ment *e = &ent[live[i]];
		if (e->state == ST_STORED && e->refs == 0) m += e->size;
	}
	return m;
}

static void live_add(int idx) { ent[idx].live_pos = n_live; live[n_live++] = idx; mnets[ent[idx].net].n_live++; }

static void net_release_if_idle(int n)
{
	if (mnets[n].handles == 0 && mnets[n].n_live == 0)
		mnets[n].used = 0;
}

static void live_del(int idx)
{
	int p = ent[idx].live_pos, last = live[--n_live];
	live[p] = last; ent[last].live_pos = p;
	ent[idx].live_pos = -1;
	mnets[ent[idx].net].n_live--;
	net_release_if_idle(ent[idx].net);
}

static void ent_gone(struct ment *e)
{
	if (e->state == ST_STORED) mnets[e->net].n_stored--;
	e->state = ST_GONE;
	live_del((int)(e - ent));
}

static int net_alloc(void)
{
	int i;
	for (i = 0; i < MAXNET; i++)
		if (!mnets[i].used) {
			struct mnet *n = &mnets[i];
			n->used = 1; n->cn = NULL; n->handles = 0; n->n_live = 0; n->n_stored = 0;
			memset(n->ptype, VBI_UNKNOWN_PAGE, sizeof n->ptype);
			memset(n->stale_max, 0, sizeof n->stale_max);
			return i;
		}
	return -1;
}

/* ------------------------------------------------------------------------ */
/* failure bookkeeping: one report per key per case, history attached       */

static char hist[1500];
static size_t hist_len;
static int seq_failed;        /* the running history diverged: stop it */
static char case_keys[24][64];
static int n_case_keys;

static void hist_reset(void) { hist_len = 0; hist[0] = 0; }
static void hist_add(const char *fmt, ...) __attribute__((format(printf, 1, 2)));
static void hist_add(const char *fmt, ...)
{
	va_list ap;
	int n;
	if (hist_len > sizeof hist - 80) {
		/* keep the tail: drop the first half */
		size_t half = hist_len / 2;
		memmove(hist + 3, hist + half, hist_len - half + 1);
		memcpy(hist, "...", 3);
		hist_len = hist_len - half + 3;
	}
	va_start(ap, fmt);
	n = vsnprintf(hist + hist_len, sizeof hist - hist_len, fmt, ap);
	va_end(ap);
	if (n > 0) hist_len += (size_t)n;
	if (hist_len >= sizeof hist) hist_len = sizeof hist - 1;
}

static char cfg_desc[160];

#define FAIL(fatal, key, ...) do { report(fatal, key, __VA_ARGS__); } while (0)
static void report(int fatal, const char *key, const char *fmt, ...) __attribute__((format(printf, 3, 4)));
static void report(int fatal, const char *key, const char *fmt, ...)
{
	char buf[900];
	va_list ap;
	int i;
	if (fatal) seq_failed = 1;
	for (i = 0; i < n_case_keys; i++)
		if (!strcmp(case_keys[i], key)) return;
	if (n_case_keys < 24) { snprintf(case_keys[n_case_keys], sizeof case_keys[0], "%s", key); n_case_keys++; }
	va_start(ap, fmt);
	vsnprintf(buf, sizeof buf, fmt, ap);
	va_end(ap);
	vf_fail(key, "%s | op %d | %s | history: %s", buf, op_no, cfg_desc, hist);
}

/* ------------------------------------------------------------------------ */
/* counters (flushed at the end of a case: vf_count allocates)               */

enum { C_PUT, C_PUT_REPLACE, C_PUT_REPLACE_HELD, C_GET_HIT, C_GET_MISS, C_GET_WILD, C_ISCACHED, C_HI, C_REF, C_UNREF,
       C_UNREF_ZOMBIE, C_FOREACH, C_FOREACH_VISITS, C_TYPE, C_CHSW, C_NETADD, C_NETDROP, C_EVICT, C_PRESSURE_OPS,
       C_AUDITS, C_AUDIT_PAGES, C_HELD_ACROSS_DROP, C_INTACT_CHECKS, C_SEQS, C_TEARDOWN_HEAP, C_TEARDOWN_LSAN,
       C_DEC_HIST, C_RAW_HIST, C_NET_RECYCLED, C_QUIRK_HI_STALE, C_QUIRK_CLOCK23, C_FOREACH_STUCK,
       C_FOREACH_UNSTOPPED, C_EVICT_REUSE, C_HI_SHRUNK, C_EVICT_NEED_CHECKS, N_C };
static const char *const cname[N_C] = { "puts", "puts_replacing", "puts_replacing_held_page", "get_hits", "get_misses",
	"get_wildcard", "is_cached_queries", "hi_subno_queries", "page_refs", "page_unrefs", "unrefs_of_zombie_pages",
	"foreach_calls", "foreach_visits", "page_type_updates", "channel_switches", "network_adds", "network_drops",
	"evictions_observed", "ops_under_memory_pressure", "structural_audits", "pages_walked_in_audits",
	"pages_held_across_network_drop", "content_checks", "histories", "teardown_heap_checks", "teardown_leak_checks",
	"decoder_mode_histories", "raw_cache_histories", "network_structs_recycled", "quirk_hi_subno_stale",
	"quirk_clock_23xx", "foreach_stuck", "foreach_not_stopped", "evictions_by_reuse", "hi_subno_after_removal", "eviction_necessity_checks" };
static long cnt[N_C];

static void flush_counts(void)
{
	int i;
	for (i = 0; i < N_C; i++)
		if (cnt[i]) { vf_count(cname[i], cnt[i]); cnt[i] = 0; }
}

/* coverage signatures: abstract states, collected as codes, emitted after the heap check */
static uint8_t sig_seen[1 << 17];
static unsigned sig_new[256];
static int n_sig_new;

/* operation classes for signatures */
static int op_class(int kind);

static void note_state(int pages, int refd, int zpages, int nets, int znets, int pressure, int opk)
{
	unsigned code;
	if (pages > 6) pages = pages > 20 ? 8 : 7;
	if (refd > 4) refd = 5;
	if (zpages > 3) zpages = 3;
	if (nets > 3) nets = 3;
	if (znets > 2) znets = 2;
	code = (unsigned)pages | (unsigned)refd << 4 | (unsigned)zpages << 7 | (unsigned)nets << 9 | (unsigned)znets << 11
	     | (unsigned)pressure << 13 | (unsigned)op_class(opk) << 14;
	if (sig_seen[code]) return;
	sig_seen[code] = 1;
	if (n_sig_new < 256) sig_new[n_sig_new++] = (unsigned)pages | (unsigned)refd << 4 | (unsigned)zpages << 8 | (unsigned)nets << 12
		| (unsigned)znets << 16 | (unsigned)pressure << 20 | (unsigned)op_class(opk) << 24;
}

static void flush_sigs(void)
{
	int i;
	for (i = 0; i < n_sig_new; i++) {
		unsigned c = sig_new[i];
		static const char *const ocn[8] = { "put", "lookup", "ref", "unref", "foreach", "type", "netswitch", "start" };
		vf_sig("pages=%u ref=%u zombie=%u nets=%u znets=%u pressure=%u after=%s", c & 15, (c >> 4) & 15, (c >> 8) & 15,
		       (c >> 12) & 15, (c >> 16) & 15, (c >> 20) & 1, ocn[(c >> 24) & 7]);
	}
	n_sig_new = 0;
}

/* ------------------------------------------------------------------------ */
/* content check                                                              */

static cache_page expect_pg;

static int check_intact(const struct ment *e, const cache_page *cp, const char *when)
{
	const char *bad = NULL;
	cnt[C_INTACT_CHECKS]++;
	make_page(&expect_pg, e->pgno, e->put_subno, e->cls, e->vid);
	if (cp->function != expect_pg.function) bad = "function";
	else if (cp->pgno != e->pgno) bad = "pgno";
	else if (cp->subno != e->subno) bad = "subno";
	else if (cp->national != expect_pg.national) bad = "national";
	else if (cp->flags != expect_pg.flags) bad = "flags";
	else if (cp->lop_packets != expect_pg.lop_packets) bad = "lop_packets";
	else if (cp->x26_designations != expect_pg.x26_designations) bad = "x26_designations";
	else if (cp->x27_designations != expect_pg.x27_designations) bad = "x27_designations";
	else if (cp->x28_designations != expect_pg.x28_designations) bad = "x28_designations";
	else if (memcmp(&cp->data, &expect_pg.data, e->size - HDR)) bad = "data";
	if (bad) {
		if (!strcmp(bad, "subno"))
			FAIL(1, "model:C10:stored-subno", "%s: page %x put with subno %x is stored with subno %x, reference says %x (version %u, %s)",
			     when, e->pgno, e->put_subno, cp->subno, e->subno, e->vid, szdef[e->cls].name);
		else
			FAIL(1, "model:C10:content-changed", "%s: page %x.%x version %u (%s, %u bytes, %d refs held, %s): field %s differs from what was stored",
			     when, e->pgno, e->subno, e->vid, szdef[e->cls].name, e->size, e->refs,
			     e->state == ST_ZOMBIE ? "replaced/dropped" : "current", bad);
		return 0;
	}
	return 1;
}

/* ------------------------------------------------------------------------ */
/* structural audit                                                           */

#define MAXP   4096
#define PH     8192
#define MAXLN  64

struct seen { cache_page *cp; int net; unsigned f; };   /* f: 1 on hash chain, 2 on priority, 4 on referenced, 8 zombie, 16 matched by model */
static struct seen sp[MAXP];
static int n_sp;
static struct { unsigned gen; int idx; } ph[PH];
static unsigned ph_gen;
static cache_network *lnet[MAXLN];
static int n_lnet;

static unsigned ptr_hash(const void *p) { uintptr_t v = (uintptr_t)p; return (unsigned)((v >> 4) * 2654435761u) >> 19; }

static int sp_find(const cache_page *cp)
{
	unsigned h = ptr_hash(cp) & (PH - 1);
	while (ph[h].gen == ph_gen) {
		if (sp[ph[h].idx].cp == cp) return ph[h].idx;
		h = (h + 1) & (PH - 1);
	}
	return -1;
}

static int sp_add(cache_page *cp, unsigned f)
{
	unsigned h = ptr_hash(cp) & (PH - 1);
	if (n_sp >= MAXP) return -1;
	while (ph[h].gen == ph_gen) h = (h + 1) & (PH - 1);
	ph[h].gen = ph_gen; ph[h].idx = n_sp;
	sp[n_sp].cp = cp; sp[n_sp].net = -1; sp[n_sp].f = f;
	return n_sp++;
}

static int lnet_find(const cache_network *cn)
{
	int i;
	for (i = 0; i < n_lnet; i++) if (lnet[i] == cn) return i;
	return -1;
}

/* ring check: every node's successor points back; bounded length */
static int ring_ok(const struct node *l, const char *what, int bound)
{
	const struct node *n = l;
	int k = 0;
	do {
		const struct node *s = n->_succ;
		if (!s || s->_pred != n) {
			FAIL(1, "model:C10:audit:list-corrupt", "%s list: node %d: successor does not point back (dlist ring broken)", what, k);
			return 0;
		}
		n = s;
		if (++k > bound + 2) {
			FAIL(1, "model:C10:audit:list-corrupt", "%s list: more than %d nodes (cycle not through the list head, or node linked twice)", what, bound);
			return 0;
		}
	} while (n != l);
	return 1;
}

/* set by OP_PUT for the audit that follows the put: bytes the new page needed (it is referenced, so not in memory_used yet) */
static unsigned long audit_put_need;
static int reuse_evicted;             /* evictions the put found by itself (memory of the evicted page reused) */
static unsigned long reuse_max;

static int audit(int evict_ok, int opk)
{
	unsigned long gone_max = 0;       /* largest page that disappeared in this operation */
	int gone_evicted = 0;             /* pages of held networks that disappeared (= evicted for memory) */
	cache_network *cn;
	cache_page *cp;
	const struct node *n;
	unsigned long mem = 0;
	unsigned h;
	int i, k, nz_nets = 0, z_nets = 0, n_hash, n_zombie = 0, n_refd = 0, bound;
	static uint16_t per[0x800];

	cnt[C_AUDITS]++;
	ph_gen++; n_sp = 0; n_lnet = 0;
	bound = (int)ca->n_cached_pages + n_live + 16;

	/* networks */
	if (!ring_ok(&ca->networks, "networks", MAXLN)) return 0;
	for (n = ca->networks._succ; n != &ca->networks; n = n->_succ) {
		cn = PARENT((struct node *)n, cache_network, node);
		if (n_lnet >= MAXLN) { FAIL(1, "harness:C10:too-many-networks", "more than %d networks", MAXLN); return 0; }
		lnet[n_lnet++] = cn;
		if (cn->cache != ca) { FAIL(1, "model:C10:audit:network-cache", "network %d on the list does not point to its cache", n_lnet - 1); return 0; }
		if (cn->zombie) {
			z_nets++;
			if (cn->ref_count == 0 && cn->n_referenced_pages == 0) {
				FAIL(1, "model:C10:audit:zombie-network-unreferenced", "zombie network has no network reference and no referenced page but was not deleted");
				return 0;
			}
		} else nz_nets++;
	}
	if (ca->n_cached_networks != (unsigned)nz_nets) {
		FAIL(1, "model:C10:audit:n_cached_networks", "n_cached_networks=%u, %d non-zombie networks on the list (+%d zombies)", ca->n_cached_networks, nz_nets, z_nets);
		return 0;
	}
	for (i = 0; i < NSLOT; i++) {
		struct mnet *m;
		if (slot_net[i] < 0) continue;
		m = &mnets[slot_net[i]];
		if (lnet_find(m->cn) < 0) { FAIL(1, "model:C10:audit:network-missing", "network held through handle %d is not on the networks list", i); return 0; }
	}
	for (k = 0; k < n_lnet; k++) {
		unsigned want = 0;
		for (i = 0; i < NSLOT; i++)
			if (slot_net[i] >= 0 && mnets[slot_net[i]].cn == lnet[k]) want += (unsigned)mnets[slot_net[i]].handles;
		if (lnet[k]->ref_count != want) {
			FAIL(1, "model:C10:audit:network-ref_count", "network %d: ref_count=%u, the caller holds %u references", k, lnet[k]->ref_count, want);
			return 0;
		}
	}

	/* hash chains */
	for (h = 0; h < HASH_SIZE; h++) {
		const struct node *l = &ca->hash[h];
		if (l->_succ == l && l->_pred == l) continue;
		if (!ring_ok(l, "hash", bound)) return 0;
		for (n = l->_succ; n != l; n = n->_succ) {
			cp = PARENT((struct node *)n, cache_page, hash_node);
			if ((unsigned)cp->pgno % HASH_SIZE != h) {
				FAIL(1, "model:C10:audit:hash-chain", "page %x.%x is on hash chain %u, belongs on %u", cp->pgno, cp->subno, h, (unsigned)cp->pgno % HASH_SIZE);
				return 0;
			}
			if (cp->priority == CACHE_PRI_ZOMBIE) {
				FAIL(1, "model:C10:audit:zombie-on-hash-chain", "page %x.%x is marked zombie but still on its hash chain (reachable by lookups)", cp->pgno, cp->subno);
				return 0;
			}
			if (sp_find(cp) >= 0) { FAIL(1, "model:C10:audit:list-corrupt", "page %x.%x appears twice on the hash chains", cp->pgno, cp->subno); return 0; }
			i = sp_add(cp, 1);
			if (i < 0) { FAIL(1, "harness:C10:too-many-pages", "more than %d pages", MAXP); return 0; }
			sp[i].net = lnet_find(cp->network);
			if (sp[i].net < 0) {
				FAIL(1, "model:C10:audit:page-network", "page %x.%x on a hash chain belongs to a network that is not on the networks list", cp->pgno, cp->subno);
				return 0;
			}
		}
	}
	n_hash = n_sp;

	/* priority list: unreferenced pages, these are what memory_used counts */
	if (!ring_ok(&ca->priority, "priority", bound)) return 0;
	for (n = ca->priority._succ; n != &ca->priority; n = n->_succ) {
		cp = PARENT((struct node *)n, cache_page, pri_node);
		i = sp_find(cp);
		if (i < 0) { FAIL(1, "model:C10:audit:priority-not-hashed", "a page on the priority list is on no hash chain"); return 0; }
		if (sp[i].f & 6) { FAIL(1, "model:C10:audit:list-corrupt", "page %x.%x is twice on the priority list", cp->pgno, cp->subno); return 0; }
		sp[i].f |= 2;
		if (cp->ref_count != 0) {
			FAIL(1, "model:C10:audit:referenced-on-priority", "page %x.%x has ref_count=%u but is on the priority (replaceable) list", cp->pgno, cp->subno, cp->ref_count);
			return 0;
		}
		if (cp->priority != CACHE_PRI_NORMAL && cp->priority != CACHE_PRI_SPECIAL) {
			FAIL(1, "model:C10:audit:priority-value", "page %x.%x on the priority list has priority %d", cp->pgno, cp->subno, (int)cp->priority);
			return 0;
		}
		mem += cache_page_size(cp);
	}

	/* referenced list */
	if (!ring_ok(&ca->referenced, "referenced", bound)) return 0;
	for (n = ca->referenced._succ; n != &ca->referenced; n = n->_succ) {
		cp = PARENT((struct node *)n, cache_page, pri_node);
		n_refd++;
		if (cp->ref_count == 0) {
			FAIL(1, "model:C10:audit:unreferenced-on-referenced", "page %x.%x has ref_count=0 but is on the referenced list", cp->pgno, cp->subno);
			return 0;
		}
		i = sp_find(cp);
		if (cp->priority == CACHE_PRI_ZOMBIE) {
			if (i >= 0) { FAIL(1, "model:C10:audit:zombie-on-hash-chain", "zombie page %x.%x is on a hash chain", cp->pgno, cp->subno); return 0; }
			i = sp_add(cp, 4 | 8);
			if (i < 0) { FAIL(1, "harness:C10:too-many-pages", "more than %d pages", MAXP); return 0; }
			sp[i].net = lnet_find(cp->network);
			if (sp[i].net < 0) { FAIL(1, "model:C10:audit:page-network", "zombie page %x.%x belongs to a network that is not on the networks list", cp->pgno, cp->subno); return 0; }
			n_zombie++;
		} else {
			if (i < 0) { FAIL(1, "model:C10:audit:referenced-not-hashed", "referenced page %x.%x is not a zombie but on no hash chain", cp->pgno, cp->subno); return 0; }
			if (sp[i].f & 6) { FAIL(1, "model:C10:audit:list-corrupt", "page %x.%x is on the priority and the referenced list, or twice on the latter", cp->pgno, cp->subno); return 0; }
			sp[i].f |= 4;
		}
	}
	for (i = 0; i < n_hash; i++)
		if (!(sp[i].f & 6)) {
			FAIL(1, "model:C10:audit:page-on-no-list", "page %x.%x (ref_count %u) is on a hash chain but neither on the priority nor the referenced list",
			     sp[i].cp->pgno, sp[i].cp->subno, sp[i].cp->ref_count);
			return 0;
		}
	cnt[C_AUDIT_PAGES] += n_sp;

	/* counters */
	if (ca->n_cached_pages != (unsigned)n_sp) {
		FAIL(1, "model:C10:audit:n_cached_pages", "cache n_cached_pages=%u, %d pages on hash chains + %d zombies exist", ca->n_cached_pages, n_hash, n_zombie);
		return 0;
	}
	if (ca->memory_used != mem) {
		FAIL(1, "model:C10:audit:memory_used", "memory_used=%lu, unreferenced pages sum to %lu (limit %lu)", ca->memory_used, mem, ca->memory_limit);
		return 0;
	}
	if (ca->memory_used > ca->memory_limit) {
		FAIL(1, "model:C10:audit:memory-limit", "memory_used=%lu exceeds memory_limit=%lu after the operation", ca->memory_used, ca->memory_limit);
		return 0;
	}
	for (k = 0; k < n_lnet; k++) {
		unsigned np = 0, nr = 0;
		cn = lnet[k];
		memset(per, 0, sizeof per);
		for (i = 0; i < n_sp; i++)
			if (sp[i].net == k) {
				np++;
				if (sp[i].f & 4) nr++;
				if (sp[i].cp->pgno >= 0x100 && sp[i].cp->pgno <= 0x8FF) per[sp[i].cp->pgno - 0x100]++;
			}
		if (cn->n_cached_pages != np) {
			FAIL(1, "model:C10:audit:network-n_cached_pages", "network %d: n_cached_pages=%u, %u of its pages exist", k, cn->n_cached_pages, np);
			return 0;
		}
		if (cn->n_referenced_pages != nr) {
			FAIL(1, "model:C10:audit:n_referenced_pages", "network %d: n_referenced_pages=%u, %u of its pages are on the referenced list", k, cn->n_referenced_pages, nr);
			return 0;
		}
		for (i = 0; i < 0x800; i++)
			if (cn->_pages[i].n_subpages != per[i]) {
				FAIL(1, "model:C10:audit:n_subpages", "network %d page %x: n_subpages=%u, %u subpages exist", k, i + 0x100, cn->_pages[i].n_subpages, per[i]);
				return 0;
			}
	}

	/* reference map versus what is really there */
	for (i = 0; i < n_live; ) {
		struct ment *e = &ent[live[i]];
		int j = sp_find(e->cp);
		int loose = mnets[e->net].handles == 0;
		if (e->state == ST_STORED) {
			if (j < 0 || (sp[j].f & 8)) {
				if (e->refs == 0 && (loose || (evict_ok && e->born_op != op_no))) {
					if (!loose) { cnt[C_EVICT]++; gone_evicted++; }
					if (e->size > gone_max) gone_max = e->size;
					ent_gone(e);              /* swaps another entry into position i */
					continue;
				}
				FAIL(1, "model:C10:page-lost", "page %x.%x version %u (%s, %d refs held) was stored and neither replaced nor evictable, but is %s",
				     e->pgno, e->subno, e->vid, szdef[e->cls].name, e->refs, j < 0 ? "no longer in the cache" : "marked zombie");
				return 0;
			}
		} else { /* ST_ZOMBIE: replaced while held */
			if (j < 0) { FAIL(1, "model:C10:held-page-freed", "page %x.%x version %u is still referenced by the caller (%d refs) but no longer exists in the cache", e->pgno, e->subno, e->vid, e->refs); return 0; }
			if (!(sp[j].f & 8)) {
				FAIL(1, "model:C10:replaced-page-reachable", "page %x.%x version %u was replaced by a newer version but is still on its hash chain", e->pgno, e->subno, e->vid);
				return 0;
			}
		}
		sp[j].f |= 16;
		if (e->cp->ref_count != (unsigned)e->refs) {
			FAIL(1, "model:C10:audit:page-ref_count", "page %x.%x version %u: ref_count=%u, the caller holds %d", e->pgno, e->subno, e->vid, e->cp->ref_count, e->refs);
			return 0;
		}
		if (!loose && e->cp->network != mnets[e->net].cn) {
			FAIL(1, "model:C10:audit:page-network", "page %x.%x version %u does not point to the network it was stored in", e->pgno, e->subno, e->vid);
			return 0;
		}
		if (loose) {
			for (k = 0; k < NSLOT; k++)
				if (slot_net[k] >= 0 && mnets[slot_net[k]].cn == e->cp->network) {
					FAIL(1, "model:C10:old-network-page-reachable", "page %x.%x version %u of a dropped network now belongs to the network of handle %d", e->pgno, e->subno, e->vid, k);
					return 0;
				}
		}
		if (e->refs > 0 || vf_param[3] || (op_no & 15) == 0)
			if (!check_intact(e, e->cp, "audit")) return 0;
		i++;
	}
	for (i = 0; i < n_sp; i++)
		if (!(sp[i].f & 16)) {
			FAIL(1, "model:C10:phantom-page", "the cache holds page %x.%x (%s, ref_count %u) which the reference map does not contain (never stored, replaced, or of a dropped network)",
			     sp[i].cp->pgno, sp[i].cp->subno, (sp[i].f & 8) ? "zombie" : "on hash chain", sp[i].cp->ref_count);
			return 0;
		}
	/* Eviction only as far as the limit requires: pages are deleted one by one until the operation fits, so before
	 * the last deletion it did not fit - with the largest page that went put back (a bound for the last one), the
	 * limit must be exceeded.  (Pages of dropped networks may go for other reasons; they only enter the bound.) */
	if (gone_evicted + reuse_evicted > 0) {
		if (reuse_max > gone_max) gone_max = reuse_max;
		cnt[C_EVICT_NEED_CHECKS]++;
		if (ca->memory_used + audit_put_need + gone_max <= ca->memory_limit) {
			FAIL(1, "model:C10:evicted-without-need", "%d page(s) were evicted (largest %lu bytes) although memory_used=%lu + %lu needed by the operation + %lu <= memory_limit=%lu: the last eviction was not required",
			     gone_evicted + reuse_evicted, gone_max, ca->memory_used, audit_put_need, gone_max, ca->memory_limit);
			return 0;
		}
	}
	reuse_evicted = 0; reuse_max = 0;
	note_state(n_hash, n_refd, n_zombie, n_lnet, z_nets, pressure_seen, opk);
	return 1;
}

/* ------------------------------------------------------------------------ */
/* operations                                                                 */

enum { OP_PUT, OP_GET, OP_ISCACHED, OP_HI, OP_REF, OP_UNREF, OP_FOREACH, OP_TYPE, OP_CHSW, OP_NETADD, OP_NETDROP, OP_NOP };

static int op_class(int kind)
{
	switch (kind) {
	case OP_PUT: return 0;
	case OP_GET: case OP_ISCACHED: case OP_HI: return 1;
	case OP_REF: return 2;
	case OP_UNREF: return 3;
	case OP_FOREACH: return 4;
	case OP_TYPE: return 5;
	case OP_CHSW: case OP_NETADD: case OP_NETDROP: return 6;
	default: return 7;
	}
}

struct op {
	int kind;
	int slot;
	int pgno, subno;
	int a;      /* PUT: size class; GET: mask; UNREF/REF: which (0 oldest, 1 newest, 2.. index); FOREACH: dir; TYPE: page type */
	int keep;   /* PUT/GET: keep the reference; FOREACH: stop after this many visits */
};

static void init_stats(cache_network *cn)
{
	/* what vbi_teletext_channel_switched() does to a network it is given */
	unsigned i;
	for (i = 0; i < N_ELEMENTS(cn->_pages); i++) {
		struct ttx_page_stat *ps = &cn->_pages[i];
		memset(ps, 0, sizeof *ps);
		ps->page_type = VBI_UNKNOWN_PAGE;
		ps->charset_code = 0xFF;
		ps->subcode = 0xFFFF;
	}
}

static int attach_network(int slot, cache_network *cn, int fresh_stats)
{
	int m, i;
	if (!cn) { FAIL(1, "model:C10:add-network-failed", "_vbi_cache_add_network returned NULL"); return 0; }
	for (i = 0; i < NSLOT; i++)
		if (slot_net[i] >= 0 && mnets[slot_net[i]].cn == cn) {
			FAIL(1, "model:C10:network-reused-while-held", "_vbi_cache_add_network(NULL) returned the network still held through handle %d", i);
			return 0;
		}
	for (i = 0; i < n_live; i++)
		if (ent[live[i]].refs > 0 && ent[live[i]].cp->network == cn) {
			FAIL(1, "model:C10:network-reused-while-held", "_vbi_cache_add_network(NULL) recycled a network that still has a page referenced by the caller");
			return 0;
		}
	if (cn->n_cached_pages != 0 || cn->n_referenced_pages != 0 || cn->ref_count != 1 || cn->zombie) {
		FAIL(1, "model:C10:new-network-not-empty", "new network: n_cached_pages=%u n_referenced_pages=%u ref_count=%u zombie=%d (want 0,0,1,0)",
		     cn->n_cached_pages, cn->n_referenced_pages, cn->ref_count, (int)cn->zombie);
		return 0;
	}
	m = net_alloc();
	if (m < 0) { FAIL(1, "harness:C10:model-networks", "model network pool exhausted"); return 0; }
	mnets[m].cn = cn;
	mnets[m].handles = 1;
	slot_net[slot] = m;
	if (fresh_stats) init_stats(cn);
	return 1;
}

static void detach_network(int slot)
{
	int m = slot_net[slot], i;
	slot_net[slot] = -1;
	mnets[m].handles = 0;
	for (i = 0; i < n_live; i++)
		if (ent[live[i]].net == m && ent[live[i]].refs > 0) cnt[C_HELD_ACROSS_DROP]++;
	mnets[m].cn = NULL;
	net_release_if_idle(m);
}

static sigjmp_buf stuck_env;
static volatile sig_atomic_t stuck_armed;
static void on_prof(int sig) { (void)sig; if (stuck_armed) { stuck_armed = 0; siglongjmp(stuck_env, 1); } }

static void arm_stuck(int ms)
{
	struct itimerval it;
	memset(&it, 0, sizeof it);
	it.it_value.tv_sec = ms / 1000;
	it.it_value.tv_usec = (ms % 1000) * 1000;
	setitimer(ITIMER_PROF, &it, NULL);
}

struct fe_ctx { int net; int visits, maxv; int bad; int stopped; };

static int fe_cb(cache_page *cp, vbi_bool wrapped, void *ud)
{
	struct fe_ctx *c = ud;
	int i;
	(void)wrapped;
	c->visits++;
	for (i = 0; i < n_live; i++) {
		struct ment *e = &ent[live[i]];
		if (e->cp == cp && e->state == ST_STORED && e->net == c->net) {
			e->stamp = ++mclock;            /* it was looked up */
			if (cp->ref_count != (unsigned)e->refs + 1) {
				FAIL(1, "model:C10:foreach-ref", "foreach hands out page %x.%x with ref_count=%u while the caller holds %d other references", cp->pgno, cp->subno, cp->ref_count, e->refs);
				c->bad = 1;
			} else if (!check_intact(e, cp, "foreach")) c->bad = 1;
			break;
		}
	}
	if (i == n_live) {
		FAIL(1, "model:C10:foreach-phantom", "foreach visits page %x.%x which is not stored in this network according to the reference map", cp->pgno, cp->subno);
		c->bad = 1;
	}
	if (c->bad || c->visits >= c->maxv) { c->stopped = 1; return 1; }
	return 0;
}

static void hold(struct ment *e)      /* callers make sure there is room: a reference not recorded here would never be released */
{
	held[n_held++] = (int)(e - ent);
}

static int do_unref_entry(struct ment *e, int *evict_ok)
{
	cache_page *cp = e->cp;
	cnt[C_UNREF]++;
	if (e->refs == 1) {
		if (e->state == ST_ZOMBIE) cnt[C_UNREF_ZOMBIE]++;
		else if (model_memory() + e->size > mem_limit) { *evict_ok = 1; pressure_seen = 1; cnt[C_PRESSURE_OPS]++; }
	}
	vf_phase("cache_page_unref");
	cache_page_unref(cp);
	e->refs--;
	if (e->refs == 0 && e->state == ST_ZOMBIE) ent_gone(e);
	return 1;
}

/* 'highest subpage' against the reference map */
static int check_hi(int m, int pgno)
{
	struct mnet *mn = &mnets[m];
	int strict = 0, actual, i, idx = pgno - 0x100;
	for (i = 0; i < n_live; i++) {
		struct ment *e = &ent[live[i]];
		if (e->state == ST_STORED && e->net == m && e->pgno == pgno && e->subno > strict) strict = e->subno;
	}
	vf_phase("vbi_cache_hi_subno");
	if (dec) actual = vbi_cache_hi_subno(dec, pgno);
	else actual = cache_network_const_page_stat(mn->cn, pgno)->subno_max;   /* this is all vbi_cache_hi_subno() does */
	cnt[C_HI]++;
	if (strict < (int)mn->stale_max[idx]) cnt[C_HI_SHRUNK]++;   /* the highest subpage was replaced / evicted / dropped earlier */
	if (actual == strict) return 1;
	if (actual == (int)mn->stale_max[idx]) {
		FAIL(0, "model:C10:Q-hi-subno-stale", "highest subpage of %x reported %x, highest stored is %x: the statistic does not decrease when the highest subpage is replaced or evicted",
		     pgno, actual, strict);
		cnt[C_QUIRK_HI_STALE]++;
		return 1;
	}
	FAIL(1, "model:C10:hi-subno", "highest subpage of %x reported %x, highest stored is %x (a never decreasing statistic would say %x)", pgno, actual, strict, mn->stale_max[idx]);
	return 0;
}

static const char *op_text(const struct op *o)
{
	static char b[96];
	switch (o->kind) {
	case OP_PUT: snprintf(b, sizeof b, "put[%d](%x.%x %s%s)", o->slot, o->pgno, o->subno, szdef[o->a].name, o->keep ? " hold" : ""); break;
	case OP_GET: snprintf(b, sizeof b, "get[%d](%x.%x/%x%s)", o->slot, o->pgno, o->subno, o->a, o->keep ? " hold" : ""); break;
	case OP_ISCACHED: snprintf(b, sizeof b, "cached?[%d](%x.%x)", o->slot, o->pgno, o->subno); break;
	case OP_HI: snprintf(b, sizeof b, "hi[%d](%x)", o->slot, o->pgno); break;
	case OP_REF: snprintf(b, sizeof b, "ref(#%d)", o->a); break;
	case OP_UNREF: snprintf(b, sizeof b, "unref(#%d)", o->a); break;
	case OP_FOREACH: snprintf(b, sizeof b, "foreach[%d](%x.%x dir%+d max%d)", o->slot, o->pgno, o->subno, o->a, o->keep); break;
	case OP_TYPE: snprintf(b, sizeof b, "type[%d](%x=%x)", o->slot, o->pgno, o->a); break;
	case OP_CHSW: snprintf(b, sizeof b, "chsw[%d]", o->slot); break;
	case OP_NETADD: snprintf(b, sizeof b, "netadd[%d]", o->slot); break;
	case OP_NETDROP: snprintf(b, sizeof b, "netdrop[%d]", o->slot); break;
	default: snprintf(b, sizeof b, "nop"); break;
	}
	return b;
}

static int pick_held(int which)
{
	if (n_held == 0) return -1;
	if (which <= 0) return 0;
	if (which == 1 || which > n_held) return n_held - 1;
	return which - 2 < n_held ? which - 2 : n_held - 1;
}

/* returns 1 done, -1 skipped, 0 divergence */
static int do_foreach(int m_, const struct op *o_)
{
	/* everything needed after the siglongjmp is volatile or global */
	static struct fe_ctx c;
	static const struct op *o;
	static int m;
	struct mnet *mn;
	volatile int r = 0;
	int any_zombie = 0, i;

	m = m_; o = o_;
	mn = &mnets[m];
	for (i = 0; i < n_live; i++)
		if (ent[live[i]].net == m && ent[live[i]].state == ST_ZOMBIE) any_zombie = 1;
	if (o->pgno < 0x100 || o->pgno > 0x8FF) return -1;
	c.net = m; c.visits = 0; c.maxv = o->keep > 0 ? o->keep : 1; c.bad = 0; c.stopped = 0;
	cnt[C_FOREACH]++;
	vf_phase("_vbi_cache_foreach_page");
	if (sigsetjmp(stuck_env, 1) == 0) {
		stuck_armed = 1;
		arm_stuck(400);
		r = _vbi_cache_foreach_page(ca, mnets[m].cn, o->pgno, o->subno, o->a, fe_cb, &c);
		stuck_armed = 0;
		arm_stuck(0);
	} else {
		arm_stuck(0);
		cnt[C_FOREACH_STUCK]++;
		FAIL(1, "model:C10:foreach-stuck", "_vbi_cache_foreach_page(%x.%x dir %+d) made no progress for 0.4 s CPU after %d visits; the network holds %d stored pages",
		     o->pgno, o->subno, o->a, c.visits, mnets[m].n_stored);
		return 0;
	}
	cnt[C_FOREACH_VISITS] += c.visits;
	if (c.bad) return 0;
	if (mnets[m].n_stored == 0) {
		/* nothing to hand out; 0 = the network has no pages at all, -1 = went around (only replaced pages still held exist) */
		if (r != (any_zombie ? -1 : 0) || c.visits) {
			FAIL(1, "model:C10:foreach-empty", "foreach on a network without stored pages (%s) returned %d after %d visits",
			     any_zombie ? "only replaced pages still held" : "none at all", (int)r, c.visits);
			return 0;
		}
	} else if (c.stopped) {
		if (r != 1) {
			FAIL(1, "model:C10:foreach-result", "foreach returned %d, the callback stopped it with 1 after %d visits", (int)r, c.visits);
			return 0;
		}
	} else {
		/* the callback never asked to stop: the walk ends by itself after it wrapped around (result -1) */
		cnt[C_FOREACH_UNSTOPPED]++;
		if (r != -1) {
			FAIL(1, "model:C10:foreach-result", "foreach returned %d although the callback returned 0 on all %d visits (the walk ending by itself returns -1)", (int)r, c.visits);
			return 0;
		}
		if (c.visits == 0) {
			FAIL(1, "model:C10:foreach-nothing-visited", "foreach went around a network with %d stored pages without handing out any", mnets[m].n_stored);
			return 0;
		}
	}
	return 1;
}

static int held_across_put;

/* returns 0 when the history must stop (divergence), 1 otherwise */
static int apply(const struct op *o)
{
	struct mnet *mn = NULL;
	cache_network *cn = NULL;
	int evict_ok = 0;
	int m = -1;

	op_no++;
	hist_add("%s%s", op_no > 1 ? "; " : "", op_text(o));
	if (vf_verbose) vf_log("    op %d: %s   [before: memory_used=%lu/%lu pages=%u networks=%u held=%d]\n", op_no, op_text(o),
			       ca->memory_used, ca->memory_limit, ca->n_cached_pages, ca->n_cached_networks, n_held);

	if (o->kind == OP_PUT || o->kind == OP_GET || o->kind == OP_ISCACHED || o->kind == OP_HI || o->kind == OP_FOREACH
	    || o->kind == OP_TYPE || o->kind == OP_CHSW || o->kind == OP_NETDROP) {
		m = slot_net[o->slot];
		if (m < 0) { hist_add("(skipped: no network)"); return 1; }
		mn = &mnets[m];
		cn = mn->cn;
	}

	switch (o->kind) {
	case OP_PUT: {
		static cache_page tmpl;
		cache_page *got;
		struct ment *e, *victim = NULL;
		int stored, mask;
		unsigned vid = (unsigned)n_ent + 1;

		if (n_ent >= MAXE) return 1;
		make_page(&tmpl, o->pgno, o->subno, o->a, vid);
		vf_phase("_vbi_cache_put_page");
		if (!pgno_storable(o->pgno)) {
			got = _vbi_cache_put_page(ca, cn, &tmpl);
			if (got) { FAIL(1, "model:C10:invalid-page-stored", "put of page %x (filler / terminator page number) returned a page", o->pgno); return 0; }
			break;
		}
		key_rule(o->pgno, o->subno, mn->ptype[o->pgno - 0x100], &stored, &mask);
		/* the page's own previous copy (same page and stored subpage number) is replaced when there is one,
		   else the most recently used version that matches the key: a single version page stored beside
		   other versions, or subpage 3 beside a clock page 23:03, must not replace the wrong one and leave
		   a second copy of itself behind */
		victim = model_lookup(m, o->pgno, stored, 0xFFFF);
		if (!victim) victim = model_lookup(m, o->pgno, stored & mask, mask);
		{
			unsigned long mm = model_memory();
			unsigned long need = model_size(o->a);
			if (victim && victim->refs == 0) mm -= victim->size;
			if (mm + need > mem_limit) { evict_ok = 1; pressure_seen = 1; cnt[C_PRESSURE_OPS]++; }
		}
		if (n_held > 0) held_across_put = 1;
		got = _vbi_cache_put_page(ca, cn, &tmpl);
		cnt[C_PUT]++;
		if (!got) {
			FAIL(1, "model:C10:put-failed", "put of page %x.%x (%s, %u bytes) returned NULL although the memory limit %lu admits it",
			     o->pgno, o->subno, szdef[o->a].name, model_size(o->a), mem_limit);
			return 0;
		}
		if (victim) {
			cnt[C_PUT_REPLACE]++;
			if (victim->refs > 0) { victim->state = ST_ZOMBIE; mn->n_stored--; cnt[C_PUT_REPLACE_HELD]++; }
			else ent_gone(victim);
		}
		/* The cache may reuse the memory of a page it evicts for the new one (one candidate
		 * of equal size).  Whatever the reference map still has at that address is gone;
		 * whether it was allowed to go is decided as for any other eviction. */
		{
			int i;
			for (i = 0; i < n_live; i++) {
				struct ment *x = &ent[live[i]];
				if (x->cp != got) continue;
				if (x->refs > 0) {
					FAIL(1, "model:C10:held-page-freed", "put of %x.%x returned the memory of page %x.%x version %u which the caller still references (%d refs)",
					     o->pgno, o->subno, x->pgno, x->subno, x->vid, x->refs);
					return 0;
				}
				if (!(mnets[x->net].handles == 0 || evict_ok)) {
					FAIL(1, "model:C10:page-lost", "page %x.%x version %u (%s) was stored and neither replaced nor evictable, but the put of %x.%x took its memory",
					     x->pgno, x->subno, x->vid, szdef[x->cls].name, o->pgno, o->subno);
					return 0;
				}
				if (mnets[x->net].handles != 0) { cnt[C_EVICT]++; reuse_evicted++; }
				if (x->size > reuse_max) reuse_max = x->size;
				cnt[C_EVICT_REUSE]++;
				ent_gone(x);
				break;           /* at most one entry per address */
			}
		}
		e = &ent[n_ent++];
		memset(e, 0, sizeof *e);
		e->state = ST_STORED; e->net = m; e->pgno = o->pgno; e->subno = stored; e->put_subno = o->subno; e->cls = o->a;
		e->vid = vid; e->size = model_size(o->a); e->stamp = ++mclock; e->refs = 1; e->cp = got; e->born_op = op_no;
		live_add((int)(e - ent));
		mn->n_stored++;
		if (got->subno != stored && !quirk_clock23) {
			/* does the one named deviation explain it?  (checked before the generic content check) */
			int s2, m2;
			quirk_clock23 = 1;
			key_rule(o->pgno, o->subno, mn->ptype[o->pgno - 0x100], &s2, &m2);
			quirk_clock23 = 0;
			if (got->subno == s2 && m2 == mask) {
				FAIL(0, "model:C10:Q-clock-23xx-invalid", "put of clock page %x with subcode %04x (a valid time, 23:%02x) is stored with subno %x: times after 23:00 are treated as invalid",
				     o->pgno, o->subno, o->subno & 0xFF, got->subno);
				cnt[C_QUIRK_CLOCK23]++;
				e->subno = stored = s2;      /* follow the implementation from here on */
			}
		}
		if (!check_intact(e, got, "put")) return 0;
		if (got->ref_count != 1) { FAIL(1, "model:C10:audit:page-ref_count", "put returned page %x.%x with ref_count=%u", got->pgno, got->subno, got->ref_count); return 0; }
		audit_put_need = e->size;
		{
			int ok = audit(evict_ok, o->kind);      /* the reference map now knows what this put evicted */
			audit_put_need = 0;
			if (!ok) return 0;
		}
		{
			/* named quirk Q-hi-subno-stale: a statistic that starts afresh with the first subpage of a page
			 * (replaced pages still held count) and otherwise only grows */
			int i, n = 0;
			uint16_t *sm = &mn->stale_max[o->pgno - 0x100];
			for (i = 0; i < n_live; i++)
				if (ent[live[i]].net == m && ent[live[i]].pgno == o->pgno) n++;
			if (n <= 1 || stored > (int)*sm) *sm = (uint16_t)stored;
		}
		if (o->keep && n_held < MAXHELD) hold(e);
		else {
			/* the way store_lop() uses it: put, then release at once */
			evict_ok = 0;
			e->born_op = -1;              /* from now on it may be evicted like any other page */
			do_unref_entry(e, &evict_ok);
			if (!audit(evict_ok, o->kind)) return 0;
		}
		return check_hi(m, o->pgno);
	}
	case OP_GET:
	case OP_ISCACHED: {
		int mask = o->kind == OP_GET ? o->a : -1;
		int emask = mask;
		struct ment *e = NULL;
		cache_page *got;
		if (o->subno == VBI_ANY_SUBNO) emask = 0;
		if (pgno_storable(o->pgno))
			e = model_lookup(m, o->pgno, o->subno, emask);
		if (o->kind == OP_ISCACHED && dec) {
			int r;
			vf_phase("vbi_is_cached");
			r = vbi_is_cached(dec, o->pgno, o->subno);
			cnt[C_ISCACHED]++;
			if (!!r != !!e) {
				FAIL(1, "model:C10:is-cached", "vbi_is_cached(%x.%x) = %d, the reference map %s", o->pgno, o->subno, r, e ? "contains it" : "does not contain it");
				return 0;
			}
			if (e) e->stamp = ++mclock;
			break;
		}
		vf_phase("_vbi_cache_get_page");
		got = _vbi_cache_get_page(ca, cn, o->pgno, o->subno, mask);
		if (o->kind == OP_ISCACHED) cnt[C_ISCACHED]++;
		if (emask == 0) cnt[C_GET_WILD]++;
		if (!got && e) {
			cnt[C_GET_MISS]++;
			FAIL(1, "model:C10:lookup-miss", "get(%x.%x mask %x) missed; the reference map holds version %u (subno %x, %s), stored and never evicted",
			     o->pgno, o->subno, mask, e->vid, e->subno, szdef[e->cls].name);
			return 0;
		}
		if (got && !e) {
			FAIL(1, "model:C10:lookup-phantom", "get(%x.%x mask %x) returned page %x.%x; the reference map has no such page in this network",
			     o->pgno, o->subno, mask, got->pgno, got->subno);
			return 0;
		}
		if (!got) { cnt[C_GET_MISS]++; break; }
		cnt[C_GET_HIT]++;
		if (got != e->cp) {
			int i;
			struct ment *w = NULL;
			for (i = 0; i < n_live; i++) if (ent[live[i]].cp == got) w = &ent[live[i]];
			FAIL(1, "model:C10:lookup-wrong-version", "get(%x.%x mask %x) returned %x.%x (version %d, %s); the most recently stored or looked-up match is version %u (subno %x)",
			     o->pgno, o->subno, mask, got->pgno, got->subno, w ? (int)w->vid : -1,
			     !w ? "unknown to the reference map" : w->state == ST_ZOMBIE ? "replaced earlier" : w->net != m ? "of another network" : "an older match",
			     e->vid, e->subno);
			return 0;
		}
		e->stamp = ++mclock;
		e->refs++;
		if (!check_intact(e, got, "get")) return 0;
		if (got->ref_count != (unsigned)e->refs) {
			FAIL(1, "model:C10:audit:page-ref_count", "get returned page %x.%x with ref_count=%u, the caller now holds %d", got->pgno, got->subno, got->ref_count, e->refs);
			return 0;
		}
		if (o->kind == OP_GET && o->keep && n_held < MAXHELD) hold(e);
		else do_unref_entry(e, &evict_ok);
		break;
	}
	case OP_HI:
		if (o->pgno < 0x100 || o->pgno > 0x8FF) break;
		if (!check_hi(m, o->pgno)) return 0;
		break;
	case OP_REF: {
		int h = pick_held(o->a);
		struct ment *e;
		if (h < 0 || n_held >= MAXHELD) { hist_add("(skipped)"); return 1; }
		e = &ent[held[h]];
		vf_phase("cache_page_ref");
		if (cache_page_ref(e->cp) != e->cp) { FAIL(1, "model:C10:ref-result", "cache_page_ref did not return its argument"); return 0; }
		e->refs++;
		cnt[C_REF]++;
		held[n_held++] = held[h];
		break;
	}
	case OP_UNREF: {
		int h = pick_held(o->a);
		struct ment *e;
		if (h < 0) { hist_add("(skipped)"); return 1; }
		e = &ent[held[h]];
		memmove(&held[h], &held[h + 1], sizeof held[0] * (size_t)(n_held - h - 1));
		n_held--;
		do_unref_entry(e, &evict_ok);
		break;
	}
	case OP_FOREACH: {
		int r = do_foreach(m, o);
		if (r <= 0) return r < 0 ? 1 : 0;
		break;
	}
	case OP_TYPE:
		if (o->pgno < 0x100 || o->pgno > 0x8FF) break;
		cache_network_page_stat(cn, o->pgno)->page_type = (uint8_t)o->a;
		mn->ptype[o->pgno - 0x100] = (uint8_t)o->a;
		cnt[C_TYPE]++;
		break;
	case OP_CHSW: {
		cache_network *old = cn, *nw;
		cnt[C_CHSW]++;
		if (dec) {
			vf_phase("vbi_chsw_reset");
			detach_network(o->slot);
			vbi_chsw_reset(dec, 0);
			nw = dec->cn;
			if (!attach_network(o->slot, nw, 0)) return 0;
		} else {
			/* vbi_chsw_reset(): unref the old network, add an anonymous one, reset its page statistics */
			vf_phase("cache_network_unref");
			detach_network(o->slot);
			cache_network_unref(old);
			vf_phase("_vbi_cache_add_network");
			nw = _vbi_cache_add_network(ca, NULL, VBI_VIDEOSTD_SET_625_50);
			if (!attach_network(o->slot, nw, 1)) return 0;
		}
		if (nw == old) cnt[C_NET_RECYCLED]++;
		break;
	}
	case OP_NETADD: {
		cache_network *nw, *old = NULL;
		int had = slot_net[o->slot] >= 0;
		if (dec) { hist_add("(skipped)"); return 1; }
		cnt[C_NETADD]++;
		if (had) old = mnets[slot_net[o->slot]].cn;
		vf_phase("_vbi_cache_add_network");
		nw = _vbi_cache_add_network(ca, NULL, VBI_VIDEOSTD_SET_625_50);
		if (had) {
			/* overlapping switch: the new network is obtained before the old one is released */
			int keepm = slot_net[o->slot];
			slot_net[o->slot] = -1;
			/* temporarily park the old one so attach_network sees it as held */
			{
				int spare = -1, i;
				for (i = 0; i < NSLOT; i++) if (i != o->slot && slot_net[i] < 0) spare = i;
				if (spare < 0) {
					/* no free handle: release the new one again */
					slot_net[o->slot] = keepm;
					if (nw) { vf_phase("cache_network_unref"); cache_network_unref(nw); }
					break;
				}
				slot_net[spare] = keepm;
				if (!attach_network(o->slot, nw, 1)) return 0;
				if (!audit(0, o->kind)) return 0;
				vf_phase("cache_network_unref");
				detach_network(spare);
				cache_network_unref(old);
			}
		} else if (!attach_network(o->slot, nw, 1)) return 0;
		break;
	}
	case OP_NETDROP:
		if (dec) { hist_add("(skipped)"); return 1; }
		cnt[C_NETDROP]++;
		vf_phase("cache_network_unref");
		detach_network(o->slot);
		cache_network_unref(cn);
		break;
	default:
		break;
	}
	vf_phase("audit");
	return audit(evict_ok, o->kind);
}

/* ------------------------------------------------------------------------ */
/* history = set-up, operations, teardown                                     */

static long heap_base;
static int lsan_tick;

/* caches abandoned after a divergence stay reachable, so that the leak monitors
 * of later histories are not confused by them */
static void *abandoned[1 << 16];
static int n_abandoned;
static void abandon(void)
{
	if (n_abandoned < (int)(sizeof abandoned / sizeof abandoned[0])) abandoned[n_abandoned++] = dec ? (void *)dec : (void *)ca;
	ca = NULL; dec = NULL;
	heap_base = -1;
}

static int begin_history(unsigned long limit, int use_decoder)
{
	int i;
	reuse_evicted = 0; reuse_max = 0; audit_put_need = 0;
	n_ent = 0; n_live = 0; n_held = 0; mclock = 0; op_no = 0; seq_failed = 0; pressure_seen = 0; held_across_put = 0;
	for (i = 0; i < MAXNET; i++) mnets[i].used = 0;
	for (i = 0; i < NSLOT; i++) slot_net[i] = -1;
	hist_reset();
	mem_limit = limit;
	dec = NULL;
	cnt[C_SEQS]++;
	heap_base = vf_heap_available() ? vf_heap_live_blocks() : -1;
	if (use_decoder) {
		vf_phase("vbi_decoder_new");
		dec = vbi_decoder_new();
		if (!dec) { vf_fail("harness:alloc", "vbi_decoder_new failed"); return 0; }
		ca = dec->ca;
		cnt[C_DEC_HIST]++;
	} else {
		vf_phase("vbi_cache_new");
		ca = vbi_cache_new();
		if (!ca) { vf_fail("harness:alloc", "vbi_cache_new failed"); return 0; }
		cnt[C_RAW_HIST]++;
	}
	/* The limit is fixed while the cache is empty.  (libzvbi 0.2 offers no call
	 * to lower it - vbi_cache_set_memory_limit() is 0.3 only - so the field is
	 * set here; eviction could not be exercised at all otherwise.) */
	ca->memory_limit = limit;
	if (use_decoder) {
		if (!attach_network(0, dec->cn, 0)) return 0;
	} else {
		vf_phase("_vbi_cache_add_network");
		if (!attach_network(0, _vbi_cache_add_network(ca, NULL, VBI_VIDEOSTD_SET_625_50), 1)) return 0;
	}
	return audit(0, OP_NOP);
}

static void end_history(int order)
{
	int i;
	if (seq_failed) {
		/* state unknown: do not touch the cache any more; the objects are abandoned
		 * (reported already).  Forget them for the leak monitors too. */
		abandon();
		return;
	}
	/* release everything, pages first or networks first */
	if (order & 1) {
		for (i = 0; i < NSLOT && !dec; i++)
			if (slot_net[i] >= 0) {
				cache_network *cn = mnets[slot_net[i]].cn;
				hist_add("; netdrop[%d]", i);
				op_no++;
				detach_network(i);
				vf_phase("cache_network_unref");
				cache_network_unref(cn);
				if (!audit(0, OP_NETDROP)) { abandon(); return; }
			}
	}
	while (n_held > 0) {
		int evict_ok = 0;
		int h = (order & 2) ? n_held - 1 : 0;
		struct ment *e = &ent[held[h]];
		memmove(&held[h], &held[h + 1], sizeof held[0] * (size_t)(n_held - h - 1));
		n_held--;
		op_no++;
		hist_add("; unref(end)");
		do_unref_entry(e, &evict_ok);
		if (!audit(evict_ok, OP_UNREF)) { abandon(); return; }
	}
	if (dec) {
		vf_phase("vbi_decoder_delete");
		vbi_decoder_delete(dec);
		dec = NULL; ca = NULL;
	} else {
		for (i = 0; i < NSLOT; i++)
			if (slot_net[i] >= 0) {
				cache_network *cn = mnets[slot_net[i]].cn;
				op_no++;
				hist_add("; netdrop[%d]", i);
				detach_network(i);
				vf_phase("cache_network_unref");
				cache_network_unref(cn);
				if (!audit(0, OP_NETDROP)) { abandon(); return; }
			}
		/* nothing is referenced any more: all that is left must be unreferenced pages of cached networks */
		if (ca->referenced._succ != &ca->referenced) {
			FAIL(1, "model:C10:teardown:still-referenced", "all references released but the referenced list is not empty");
			abandon(); return;
		}
		vf_phase("vbi_cache_delete");
		vbi_cache_delete(ca);
		ca = NULL;
	}
	if (heap_base >= 0) {
		long now = vf_heap_live_blocks();
		cnt[C_TEARDOWN_HEAP]++;
		if (now != heap_base)
			FAIL(0, "model:C10:teardown:heap-not-at-baseline", "%ld heap blocks live before the cache was created, %ld after all references were released and the cache deleted",
			     heap_base, now);
	}
}

/* ------------------------------------------------------------------------ */
/* exhaustive enumeration                                                     */

#define ALPHA 10
#define ANY VBI_ANY_SUBNO

static const struct op alphabets[][ALPHA] = {
	/* A: subpages of one BCD page, replacement while held, key rule changes, channel switch */
	{ { OP_PUT, 0, 0x123, 0x01, SZ_LOP, 1 }, { OP_PUT, 0, 0x123, 0x02, SZ_ENH, 0 }, { OP_PUT, 0, 0x123, 0x00, SZ_POP, 1 },
	  { OP_PUT, 0, 0x123, 0x1234, SZ_DRCS, 0 }, { OP_GET, 0, 0x123, ANY, -1, 1 }, { OP_GET, 0, 0x123, 0x01, -1, 1 },
	  { OP_UNREF, 0, 0, 0, 0, 0 }, { OP_UNREF, 0, 0, 0, 1, 0 }, { OP_CHSW, 0, 0, 0, 0, 0 }, { OP_TYPE, 0, 0x123, 0, VBI_NONSTD_SUBPAGES, 0 } },
	/* B: hex page keyed by S1, masks, foreach, overlapping network switch, statistics queries */
	{ { OP_PUT, 0, 0x1AB, 0x3F71, SZ_DRCS, 1 }, { OP_PUT, 0, 0x1AB, 0x0002, SZ_LOP, 0 }, { OP_PUT, 0, 0x100, 0x00, SZ_EXT, 0 },
	  { OP_GET, 0, 0x1AB, 0x01, 0x000F, 1 }, { OP_GET, 0, 0x1AB, 0x3F71, 0x3F7F, 1 }, { OP_UNREF, 0, 0, 0, 0, 0 },
	  { OP_FOREACH, 0, 0x100, ANY, +1, 3 }, { OP_FOREACH, 0, 0x1AB, ANY, -1, 2 }, { OP_NETADD, 0, 0, 0, 0, 0 }, { OP_HI, 0, 0x1AB, 0, 0, 0 } },
	/* C: four size classes against a small memory limit, held pages, overlapping switch, resize on replace */
	{ { OP_PUT, 0, 0x100, 0x00, SZ_LOP, 0 }, { OP_PUT, 0, 0x123, 0x00, SZ_EXT, 0 }, { OP_PUT, 0, 0x124, 0x00, SZ_DRCS, 1 },
	  { OP_PUT, 0, 0x125, 0x01, SZ_AIT, 0 }, { OP_GET, 0, 0x100, ANY, -1, 1 }, { OP_GET, 0, 0x123, ANY, -1, 1 },
	  { OP_UNREF, 0, 0, 0, 0, 0 }, { OP_UNREF, 0, 0, 0, 1, 0 }, { OP_NETADD, 0, 0, 0, 0, 0 }, { OP_PUT, 0, 0x123, 0x00, SZ_LOP, 0 } },
	/* D: two network handles, pages with equal numbers in both, drops, is-cached, ref duplication */
	{ { OP_PUT, 0, 0x2FE, 0x0005, SZ_GPOP, 1 }, { OP_PUT, 1, 0x2FE, 0x0005, SZ_AIT, 0 }, { OP_NETADD, 1, 0, 0, 0, 0 },
	  { OP_NETDROP, 0, 0, 0, 0, 0 }, { OP_GET, 1, 0x2FE, 0x05, 0x000F, 1 }, { OP_ISCACHED, 0, 0x2FE, 0x0005, 0, 0 },
	  { OP_REF, 0, 0, 0, 0, 0 }, { OP_UNREF, 0, 0, 0, 1, 0 }, { OP_CHSW, 1, 0, 0, 0, 0 }, { OP_FOREACH, 1, 0x8FE, ANY, +1, 2 } },
};
#define N_ALPHABETS ((int)(sizeof alphabets / sizeof alphabets[0]))

/* configurations enumerated: (alphabet, memory limit) */
static const struct { int alpha; unsigned long limit; } exh_conf[] = {
	{ 0, 1ul << 30 }, { 1, 1ul << 30 }, { 3, 1ul << 30 },
	{ 2, 4504 }, { 2, 4504 + 1564 }, { 2, 2 * 4504 }, { 0, 4504 + 1804 },
};
#define N_EXH_CONF ((int)(sizeof exh_conf / sizeof exh_conf[0]))

static long ipow(int b, int e) { long r = 1; while (e-- > 0) r *= b; return r; }

static int run_exhaustive(long idx)
{
	int depth = (int)vf_param[0], plen = (int)vf_param[1];
	long per_conf, suffixes, s;
	int conf, i, nontrivial = 0;
	int digits[16];

	if (depth < 1 || depth > 12 || plen < 0 || plen > depth) { vf_fail("harness:C10:params", "bad depth/prefix %d/%d", depth, plen); return 0; }
	per_conf = ipow(ALPHA, plen);
	if (idx >= per_conf * N_EXH_CONF) return 0;
	conf = (int)(idx / per_conf);
	{
		long p = idx % per_conf;
		for (i = plen - 1; i >= 0; i--) { digits[i] = (int)(p % ALPHA); p /= ALPHA; }
	}
	suffixes = ipow(ALPHA, depth - plen);
	snprintf(cfg_desc, sizeof cfg_desc, "exhaustive alphabet %c limit %lu depth %d", 'A' + exh_conf[conf].alpha, exh_conf[conf].limit, depth);
	vf_sample("all %ld histories of length %d over alphabet %c (memory_limit %lu) that start with operations %ld", suffixes, depth,
		  'A' + exh_conf[conf].alpha, exh_conf[conf].limit, idx % per_conf);
	for (s = 0; s < suffixes; s++) {
		long q = s;
		for (i = depth - 1; i >= plen; i--) { digits[i] = (int)(q % ALPHA); q /= ALPHA; }
		if (begin_history(exh_conf[conf].limit, 0)) {
			for (i = 0; i < depth && !seq_failed; i++)
				if (!apply(&alphabets[exh_conf[conf].alpha][digits[i]])) break;
		}
		end_history((int)(s & 3));
		if (held_across_put) nontrivial = 1;
	}
	return nontrivial;
}

/* ------------------------------------------------------------------------ */
/* random histories                                                           */

static const int r_pgno[] = { 0x100, 0x100, 0x111, 0x123, 0x123, 0x171 /* same hash chain as 100 */, 0x199, 0x1A0, 0x1AB, 0x1AB,
	0x1E2 /* same chain */, 0x2FE, 0x300, 0x899, 0x8FE, 0x1FF /* never stored */ };
static const int r_subno[] = { 0, 0, 0, 1, 1, 2, 3, 0x10, 0x59, 0x79, 0x7A, 0x0A, 0x0100, 0x1234, 0x2300, 0x2359, 0x2400, 0x3F71, 0x3F7F, 0x0012 };
static const int r_mask[] = { -1, -1, 0, 0x000F, 0x00FF, 0x3F7F };
static const unsigned long r_limit[] = { 4504, 4504 + 1196, 4504 + 1564, 3 * 1564, 2 * 4504, 4504 + 2436 + 1804, 12000, 20000, 40000 };

#define PICK(r, a) ((a)[vf_below((r), (unsigned)(sizeof(a) / sizeof((a)[0])))])

static int run_random(struct vf_rng *r)
{
	int use_dec = vf_chance(r, 1, 4);
	int pressure = vf_chance(r, 1, 2);
	unsigned long limit = pressure ? PICK(r, r_limit) : 1ul << 30;
	int len, i, npg;
	int pg[6];
	int nslots = use_dec ? 1 : vf_range(r, 1, NSLOT);

	switch (vf_below(r, 8)) {
	case 0: len = vf_range(r, 300, 2000); break;
	case 1: case 2: len = vf_range(r, 100, 400); break;
	default: len = vf_range(r, 50, 150); break;
	}
	if (pressure && vf_chance(r, 1, 3)) limit += vf_below(r, 3000);
	/* a small set of page numbers per history so that keys collide often */
	npg = vf_range(r, 1, 6);
	for (i = 0; i < npg; i++) pg[i] = PICK(r, r_pgno);

	snprintf(cfg_desc, sizeof cfg_desc, "random %s limit %lu len %d handles %d", use_dec ? "decoder" : "raw", limit, len, nslots);
	vf_sample("random history: %d operations, %s, memory_limit %lu, %d page numbers, %d network handles", len,
		  use_dec ? "through a vbi_decoder (vbi_chsw_reset, vbi_is_cached, vbi_cache_hi_subno)" : "raw cache", limit, npg, nslots);
	if (begin_history(limit, use_dec)) {
		for (i = 0; i < len && !seq_failed; i++) {
			struct op o;
			unsigned k = vf_below(r, 100);
			memset(&o, 0, sizeof o);
			o.slot = (int)vf_below(r, (unsigned)nslots);
			o.pgno = pg[vf_below(r, (unsigned)npg)];
			o.subno = PICK(r, r_subno);
			if (k < 30) {
				o.kind = OP_PUT; o.a = (int)vf_below(r, N_SZ); o.keep = vf_chance(r, 1, 3);
				if (vf_chance(r, 1, 2)) o.a = (int)vf_below(r, 3);     /* mostly level one pages */
			} else if (k < 48) {
				o.kind = OP_GET; o.a = PICK(r, r_mask); o.keep = vf_chance(r, 2, 3);
				if (vf_chance(r, 1, 3)) o.subno = ANY;
			} else if (k < 53) {
				o.kind = OP_ISCACHED;
				if (vf_chance(r, 1, 4)) o.subno = ANY;
			} else if (k < 58) o.kind = OP_HI;
			else if (k < 62) { o.kind = OP_REF; o.a = (int)vf_below(r, 6); }
			else if (k < 82) { o.kind = OP_UNREF; o.a = (int)vf_below(r, 8); }
			else if (k < 87) {
				o.kind = OP_FOREACH; o.a = vf_chance(r, 1, 2) ? +1 : -1; o.keep = vf_range(r, 1, 12);
				if (vf_chance(r, 1, 2)) o.subno = ANY;
			} else if (k < 91) {
				o.kind = OP_TYPE;
				o.a = vf_chance(r, 1, 2) ? VBI_NONSTD_SUBPAGES : vf_chance(r, 1, 2) ? VBI_NORMAL_PAGE : VBI_SUBTITLE_PAGE;
			} else if (k < 95) o.kind = OP_CHSW;
			else if (k < 98) o.kind = OP_NETADD;
			else o.kind = OP_NETDROP;
			if (!apply(&o)) break;
		}
	}
	end_history((int)vf_below(r, 4));
	return held_across_put;
}

/* ------------------------------------------------------------------------ */

static int first_case = 1;

static int run_case(struct vf_rng *r, long idx)
{
	int nt;

	if (first_case) {
		struct sigaction sa;
		int i;
		first_case = 0;
		memset(&sa, 0, sizeof sa);
		sa.sa_handler = on_prof;
		sigaction(SIGPROF, &sa, NULL);
		/* make the runtime allocate its buffers and counter names now, not inside a heap-checked window */
		for (i = 0; i < N_C; i++) vf_count(cname[i], 0);
		/* the first vbi_decoder_new() of a process runs vbi_init() (bindtextdomain allocates once) */
		vbi_decoder_delete(vbi_decoder_new());
		vf_sig("job=%s", vf_mode);
		vf_log("  (replay, mode %s)\n", vf_mode);
	}
	content_salt = vf_seed * 0x9E3779B97F4A7C15ull + (uint64_t)idx;
	n_case_keys = 0;
	n_sig_new = 0;
	if (!strcmp(vf_mode, "exh")) nt = run_exhaustive(idx);
	else nt = run_random(r);
	if (!vf_heap_available() && ++lsan_tick >= (int)(vf_param[2] > 0 ? vf_param[2] : 64)) {
		lsan_tick = 0;
		cnt[C_TEARDOWN_LSAN]++;
		vf_phase("leak-check");
		vf_leak_check();
	}
	flush_sigs();
	flush_counts();
	return nt;
}

static void selftest(void)
{
	int s, m;
	/* key rules on hand vectors (EN 300 706 A.1 / cache.c comments) */
	quirk_clock23 = 0;
	key_rule(0x1AB, 0x3F71, VBI_UNKNOWN_PAGE, &s, &m); if (s != 0x3F71 || m != 0x0F) vf_fail("selftest:C10", "hex page key");
	key_rule(0x123, 0, VBI_NORMAL_PAGE, &s, &m);       if (s != 0 || m != 0) vf_fail("selftest:C10", "subno 0 key");
	key_rule(0x123, 0x79, VBI_NORMAL_PAGE, &s, &m);    if (s != 0x79 || m != 0xFF) vf_fail("selftest:C10", "subpage 79 key");
	key_rule(0x123, 0x7A, VBI_NORMAL_PAGE, &s, &m);    if (s != 0 || m != 0) vf_fail("selftest:C10", "subpage 7A key");
	key_rule(0x123, 0x80, VBI_NORMAL_PAGE, &s, &m);    if (s != 0 || m != 0) vf_fail("selftest:C10", "subpage 80 key");
	key_rule(0x123, 0x1234, VBI_NORMAL_PAGE, &s, &m);  if (s != 0x1234 || m != 0) vf_fail("selftest:C10", "clock 12:34 key");
	key_rule(0x123, 0x2359, VBI_NORMAL_PAGE, &s, &m);  if (s != 0x2359 || m != 0) vf_fail("selftest:C10", "clock 23:59 key");
	key_rule(0x123, 0x2400, VBI_NORMAL_PAGE, &s, &m);  if (s != 0 || m != 0) vf_fail("selftest:C10", "clock 24:00 key");
	key_rule(0x123, 0x1260, VBI_NORMAL_PAGE, &s, &m);  if (s != 0 || m != 0) vf_fail("selftest:C10", "clock 12:60 key");
	key_rule(0x123, 0x05, VBI_NONSTD_SUBPAGES, &s, &m); if (s != 0x05 || m != 0) vf_fail("selftest:C10", "clock page 00:05 key");
	key_rule(0x123, 0x79, VBI_NONSTD_SUBPAGES, &s, &m); if (s != 0 || m != 0) vf_fail("selftest:C10", "clock page 00:79 key");
	quirk_clock23 = 1;
	key_rule(0x123, 0x2359, VBI_NORMAL_PAGE, &s, &m);  if (s != 0 || m != 0) vf_fail("selftest:C10", "quirk clock 23:59");
	key_rule(0x123, 0x2300, VBI_NORMAL_PAGE, &s, &m);  if (s != 0x2300 || m != 0) vf_fail("selftest:C10", "quirk clock 23:00");
	quirk_clock23 = 0;
	if (!(model_size(SZ_AIT) < model_size(SZ_LOP) && model_size(SZ_LOP) < model_size(SZ_POP) && model_size(SZ_POP) < model_size(SZ_ENH)
	      && model_size(SZ_ENH) < model_size(SZ_EXT) && model_size(SZ_EXT) < model_size(SZ_DRCS) && model_size(SZ_DRCS) <= sizeof(cache_page)))
		vf_fail("selftest:C10", "size classes out of order");
	if (model_size(SZ_DRCS) != 4504 || model_size(SZ_LOP) != 1564)
		vf_fail("selftest:C10", "page sizes changed (%u/%u): the memory limits of the pressure configurations must be re-derived", model_size(SZ_DRCS), model_size(SZ_LOP));
	{
		/* the content generator distinguishes versions and is reproducible */
		static cache_page a, b;
		make_page(&a, 0x100, 0, SZ_LOP, 1); make_page(&b, 0x100, 0, SZ_LOP, 1);
		if (memcmp(&a, &b, sizeof a)) vf_fail("selftest:C10", "make_page not reproducible");
		make_page(&b, 0x100, 0, SZ_LOP, 2);
		if (!memcmp(&a.data, &b.data, 64)) vf_fail("selftest:C10", "make_page versions equal");
	}
}

int main(int argc, char **argv) { return vf_main(argc, argv, run_case, selftest); }
