/* C05 - raw decoding never touches memory outside the raw image or the output array.
 *
 * Valid sampling parameters, hostile image content.  The image is exactly
 * (count[0]+count[1]) * bytes_per_line bytes and ends (pass 0) or starts
 * (pass 1) flush against a PROT_NONE page; out[] is exactly max_lines records
 * against a guard page; single-line buffers are exactly samples_per_line*bpp
 * bytes, bit slicer output buffers exactly the payload size.  Built a second
 * time with AddressSanitizer the same corpus runs on exactly sized heap blocks.
 *
 * Content: noise, saturated levels, impulses, square waves at the clock-run-in
 * rate, and the valid waveform of every admitted service (rendered once by the
 * library's generator into a wide 8-bit line, then converted to the pixel
 * format by this file) shifted to every horizontal position from fully inside
 * to fully outside, on the last line of the image / of each field.  The slicer
 * state (cri_samples, skip) is read only to AIM the dense part of the sweep at
 * the latest position where a clock run-in can still be recognised.
 */
#include "vf.h"
#include <assert.h>
#include <stdarg.h>
#include "c04_common.h"

#if defined(__SANITIZE_ADDRESS__)
#  define EXACT_ALLOC(n, end) malloc((n) ? (n) : 1)
#  define EXACT_FREE(p) free(p)
#  define FLAVOUR "asan"
#else
#  define EXACT_ALLOC(n, end) vf_guard_alloc((n), (end))
#  define EXACT_FREE(p) vf_guard_free(p)
#  define FLAVOUR "guard"
#endif

/* Output buffers are pre-filled before every monitored call; what the call may not write must keep
 * the fill.  The fill value alternates between two complementary patterns from call to call (the
 * counter restarts with every case), so that a stray write of one fixed value - the fill value
 * itself included - cannot go unnoticed: consecutive decodes of the same image use different fills. */
static unsigned prefill_calls;
static uint8_t PREFILL = 0x5A;
static void next_prefill(void) { PREFILL = (prefill_calls++ & 1) ? 0xA5 : 0x5A; }
#define MAXWIDE 8192

struct cfg5 {
	int scanning;
	const struct svc *set[16];
	int nset;
	unsigned req;
	vbi_sampling_par sp;
	int spl, bpp;
	int strict;
	int short_line, long_line;
};

static const char *cfg_desc(const struct cfg5 *c)
{
	static char b[600];
	int o = 0, i;
	o += snprintf(b + o, sizeof b - (size_t)o, "scanning=%d services=", c->scanning);
	for (i = 0; i < c->nset; i++) o += snprintf(b + o, sizeof b - (size_t)o, "%s%s", i ? "+" : "", c->set[i]->name);
	snprintf(b + o, sizeof b - (size_t)o, " fmt=%s rate=%d spl=%d offset=%d lines=%d+%d@%d,%d interlaced=%d synchronous=%d strict=%d",
		 c04_fmt_name(c->sp.sampling_format), c->sp.sampling_rate, c->spl, c->sp.offset, c->sp.count[0], c->sp.count[1],
		 c->sp.start[0], c->sp.start[1], c->sp.interlaced, c->sp.synchronous, c->strict);
	return b;
}

/* payload bytes a record of this id may carry (from the standards, as in c04_common.h) */
static int payload_bytes_of(unsigned id)
{
	int i, best = 0;
	/* services the shared table does not list: 2x Caption carries 4 bytes, WSS CPR-1204 20 bits */
	if (id & VBI_SLICED_2xCAPTION_525) best = 4;
	if ((id & VBI_SLICED_WSS_CPR1204) && best < 3) best = 3;
	for (i = 0; i < C04_NSVC; i++)
		if (id & c04_svc[i].family) {
			int n = (c04_svc[i].payload_bits + 7) / 8;
			if (n > best) best = n;
		}
	return best;
}

/* ---- 8-bit luminance line -> pixel format (independent of the library's generator) ---- */

static void put_line(const struct cfg5 *c, struct vf_rng *r, uint8_t *dst, const uint8_t *y8, int noise_bg)
{
	int bpp, ybyte, gshift, be, x;
	unsigned gmask;
	c04_fmt_layout(c->sp.sampling_format, &bpp, &ybyte, &gmask, &gshift, &be);
	if (noise_bg) vf_bytes(r, dst, (size_t)c->spl * (size_t)bpp);
	else memset(dst, 0, (size_t)c->spl * (size_t)bpp);
	if (!gmask) {
		for (x = 0; x < c->spl; x++) dst[x * bpp + ybyte] = y8[x];
	} else {
		int low = __builtin_ctz(gmask), nbits = __builtin_popcount(gmask);
		for (x = 0; x < c->spl; x++) {
			unsigned w = be ? (unsigned)(dst[x * 2] << 8 | dst[x * 2 + 1]) : (unsigned)(dst[x * 2 + 1] << 8 | dst[x * 2]);
			w = (w & ~gmask) | (((unsigned)y8[x] >> (8 - nbits)) << low);
			if (be) { dst[x * 2] = (uint8_t)(w >> 8); dst[x * 2 + 1] = (uint8_t)w; }
			else { dst[x * 2] = (uint8_t)w; dst[x * 2 + 1] = (uint8_t)(w >> 8); }
		}
	}
}

/* ---- configuration: valid sampling parameters ---- */

static void gen_cfg(struct vf_rng *r, struct cfg5 *c)
{
	vbi_sampling_par *sp = &c->sp;
	int i, lines, d;
	double rate;
	memset(c, 0, sizeof *c);
	c->scanning = vf_chance(r, 3, 5) ? 625 : 525;
	for (i = 0; i < C04_NSVC; i++)
		if (c04_svc[i].scanning == c->scanning && vf_chance(r, 1, 3)) c->set[c->nset++] = &c04_svc[i];
	if (!c->nset) {
		do i = (int)vf_below(r, C04_NSVC); while (c04_svc[i].scanning != c->scanning);
		c->set[c->nset++] = &c04_svc[i];
	}
	for (i = 0; i < c->nset; i++) c->req |= c->set[i]->id;
	/* services outside the shared table: WSS CPR-1204 (never admitted: its table entry is disabled) and 2x Caption */
	if (vf_chance(r, 1, 4)) c->req |= VBI_SLICED_WSS_CPR1204;
	if (c->scanning == 525 && vf_chance(r, 1, 3)) c->req |= VBI_SLICED_2xCAPTION_525;
	c->strict = vf_range(r, -1, 2);

	switch (vf_below(r, 4)) {
	case 0: { static const double sr[] = { 13500000, 14750000, 27000000, 28636363, 35468950, 17734475, 12272727, 6750000, 3000000, 40000000, 10000000, 5000000 };
		rate = sr[vf_below(r, sizeof sr / sizeof sr[0])]; break; }
	case 1: rate = floor(2.0e6 * exp(vf_unit(r) * log(20.0))); break;
	default: rate = floor(13.5e6 * exp(vf_unit(r) * log(40.0 / 13.5))); break;
	}
	sp->scanning = c->scanning;
	sp->sampling_format = c04_fmts[vf_chance(r, 1, 5) ? 0 : vf_below(r, C04_NFMT)];
	c->bpp = VBI_PIXFMT_BPP(sp->sampling_format);
	sp->sampling_rate = (int)rate;

	/* samples per line: anything; often right at the length the widest requested signal needs
	 * (the admission boundary), where the search window for the clock run-in is smallest */
	{
		double longest = 0;
		for (i = 0; i < c->nset; i++) {
			double a, b;
			c04_span(c->set[i], &a, &b);
			if (b - a > longest) longest = b - a;
		}
		int maxspl = 2700;
		switch (vf_below(r, 7)) {
		case 0: c->spl = (int)ceil(longest * rate) + vf_range(r, -3, 12); break;
		case 1: c->spl = (int)ceil((longest + 1e-6) * rate) + vf_range(r, -3, 12); break;
		case 2: c->spl = (int)(52e-6 * rate); break;
		case 3: c->spl = (int)(64e-6 * rate); break;
		case 4: {
			/* at the length the admission test of the library demands for one of the requested services (run-in, framing
			 * code and payload bits at their nominal rates, plus 1 us when strict): just below, at, just above */
			const struct svc *s = c->set[vf_below(r, (unsigned)c->nset)];
			const _vbi_service_par *p = c04_lib_par(s->id);
			double need = p ? (double)p->cri_bits / p->cri_rate + (double)(p->frc_bits + p->payload) / p->bit_rate : longest;
			if (vf_chance(r, 1, 2)) need += 1e-6;
			c->spl = (int)floor(need * rate) + vf_range(r, -3, 4);
			c->short_line = 1;
			break;
		}
		case 5:
			/* lines longer than any scan line: the validation puts no limit on bytes_per_line, the bit slicer takes up to
			 * 32767 samples */
			if (vf_chance(r, 1, 2)) { c->spl = vf_range(r, 16, (int)(66e-6 * rate)); break; }
			switch (vf_below(r, 16)) {
			case 0: c->spl = vf_range(r, 8193, 32767); break;
			case 1: case 2: c->spl = vf_range(r, 4097, 8192); break;
			case 3: c->spl = 4096; break;
			case 4: c->spl = (int[]){ 32767, 32766, 16384, 8192 }[vf_below(r, 4)]; break;
			default: c->spl = vf_range(r, 2701, 4096); break;
			}
			maxspl = 32767;
			c->long_line = 1;
			break;
		default: c->spl = vf_range(r, 16, (int)(66e-6 * rate)); break;
		}
		if (c->spl < 1) c->spl = 1;
		if (c->spl > maxspl) c->spl = maxspl;
	}
	sp->bytes_per_line = c->spl * c->bpp;
	sp->offset = (int)(vf_unit(r) * 12e-6 * rate);

	/* few lines so that every shift can be decoded: the last line of each field is the target */
	lines = vf_range(r, 1, 3);
	d = (c->scanning == 625) ? 313 : 263;
	sp->interlaced = vf_chance(r, 1, 3);
	sp->synchronous = !vf_chance(r, 1, 6);
	{
		/* pick the start so that the LAST line of field 1 is a line used by a requested service */
		const struct svc *s = c->set[vf_below(r, (unsigned)c->nset)];
		int f = s->first[0] ? 0 : 1;
		int tgt = vf_range(r, s->first[f], s->last[f]);
		int t0 = f ? tgt - d : tgt;       /* corresponding field-1 line */
		if (t0 - lines + 1 < 1) lines = t0;
		sp->start[0] = t0 - lines + 1;
		sp->count[0] = lines;
		sp->start[1] = sp->start[0] + d;
		sp->count[1] = lines;
		if (!sp->interlaced) {
			switch (vf_below(r, 4)) {
			case 0: /* one field only: the one that carries the target line */
				if (f) { sp->start[0] = 0; sp->count[0] = 0; }
				else { sp->start[1] = 0; sp->count[1] = 0; }
				break;
			case 1: /* unequal counts */
				if (sp->count[1] > 1) sp->count[1]--;
				else if (sp->start[0] > 1) { sp->start[0]--; sp->count[0]++; }
				break;
			default: break;
			}
		}
		if (vf_chance(r, 1, 10)) { sp->start[0] = 0; sp->start[1] = 0; }   /* line numbers unknown */
	}
}

/* ---- counters for the CRI position buckets ---- */

static const char *bucket_name(int b)
{
	static const char *n[] = { "early", "mid", "last5pct", "truncated", "noise" };
	return n[b];
}

static void matched(const char *api, const char *func, int bpp, int bucket)
{
	char nm[96];
	vf_sig("%s %s bpp=%d cri=%s", api, func, bpp, bucket_name(bucket));
	snprintf(nm, sizeof nm, "cri_match_%s", bucket_name(bucket));
	vf_count(nm, 1);
	snprintf(nm, sizeof nm, "cri_match_%s_%s", func, bucket_name(bucket));
	vf_count(nm, 1);
}

/* ---- the monitored calls ---- */

static vbi_sliced *out_alloc;     /* exactly max_lines records, end against the guard */
static int out_max;

static void check_out(const struct cfg5 *c, const char *api, const vbi_sliced *out, int n, int max_lines, const char *what)
{
	int i;
	size_t k;
	if (n < 0 || n > max_lines) {
		vf_fail("model:C05:count-exceeds-max-lines", "%s returned %d records, max_lines %d (%s) | %s", api, n, max_lines, what, cfg_desc(c));
		return;
	}
	for (i = n; i < max_lines; i++) {
		const uint8_t *p = (const uint8_t *)&out[i];
		for (k = 0; k < sizeof out[0]; k++)
			if (p[k] != PREFILL) {
				vf_fail("model:C05:record-beyond-count-written", "%s: record %d modified at byte %zu but only %d records reported (%s) | %s", api, i, k, n, what, cfg_desc(c));
				return;
			}
	}
	for (i = 0; i < n; i++) {
		int nb = payload_bytes_of(out[i].id);
		if (!nb) {
			vf_fail("model:C05:unknown-id", "%s: record %d has id 0x%x (%s) | %s", api, i, out[i].id, what, cfg_desc(c));
			return;
		}
		for (k = (size_t)nb; k < sizeof out[i].data; k++)
			if (out[i].data[k] != PREFILL) {
				vf_fail("model:C05:wrote-beyond-payload", "%s: record %d id 0x%x: data[%zu] modified, the service carries %d bytes (%s) | %s", api, i, out[i].id, k, nb, what, cfg_desc(c));
				return;
			}
	}
}

static char phase_buf[128];
static void set_phase(const char *api, const char *func, const struct cfg5 *c)
{
	snprintf(phase_buf, sizeof phase_buf, "%s:%s", api, func);
	(void)c;
	vf_phase(phase_buf);
}

struct rx {
	vbi3_raw_decoder *rd3;
	vbi_raw_decoder rdo;
	int have_old;
	unsigned admitted;
	const char *func;       /* slicer class of the format */
};

static const char *job_func(const struct cfg5 *c, const vbi3_bit_slicer *bs)
{
	if (bs->oversampling_rate == (unsigned)c->sp.sampling_rate) return "lowpass";
	return c04_func_class(c->sp.sampling_format);
}

static int decode_all(const struct cfg5 *c, struct rx *x, const uint8_t *img, int max_lines, const char *what, unsigned *ids_seen)
{
	int n, i, scan = c->sp.count[0] + c->sp.count[1], total = 0;
	vbi_sliced *out = out_alloc + (out_max - max_lines);   /* end stays against the guard page */
	vf_log("  decode %s max_lines=%d\n", what, max_lines);
	next_prefill();
	memset(out, PREFILL, sizeof *out * (size_t)max_lines);
	set_phase("vbi3_raw_decoder_decode", x->func, c);
	n = (int)vbi3_raw_decoder_decode(x->rd3, out, (unsigned)max_lines, img);
	check_out(c, "vbi3_raw_decoder_decode", out, n, max_lines, what);
	for (i = 0; i < n && i < max_lines; i++) *ids_seen |= out[i].id;
	total += n > 0 ? n : 0;
	vf_count("decode_calls_vbi3", 1);
	if (x->have_old && max_lines == scan) {
		next_prefill();
		memset(out, PREFILL, sizeof *out * (size_t)max_lines);
		set_phase("vbi_raw_decode", x->func, c);
		n = vbi_raw_decode(&x->rdo, (uint8_t *)img, out);
		check_out(c, "vbi_raw_decode", out, n, max_lines, what);
		total += n > 0 ? n : 0;
		vf_count("decode_calls_old", 1);
	}
	return total;
}

/* exactly sized output buffers, one per size, kept for the duration of a case */
static struct { size_t n; uint8_t *p; } obuf[8];
static int nobuf;
static uint8_t *out_buffer(size_t n)
{
	int i;
	for (i = 0; i < nobuf; i++) if (obuf[i].n == n) return obuf[i].p;
	if (nobuf == 8) { EXACT_FREE(obuf[0].p); obuf[0] = obuf[--nobuf]; }
	obuf[nobuf].n = n;
	obuf[nobuf].p = EXACT_ALLOC(n, 1);
	return obuf[nobuf++].p;
}
static void out_buffers_free(void)
{
	while (nobuf > 0) EXACT_FREE(obuf[--nobuf].p);
}

static struct vf_rng *g_r;
static void slice_points(const struct cfg5 *c, const struct svc *s, const _vbi_service_par *p, unsigned sample_offset, const uint8_t *line, const char *what);

/* single line through both bit slicer interfaces; returns bit 0: new matched, bit 1: old matched */
static int slice_line(const struct cfg5 *c, const struct svc *s, const uint8_t *line, unsigned sample_offset, const char *what, const char **func_out)
{
	const _vbi_service_par *p = c04_lib_par(s->id);
	int nb = (s->payload_bits + 7) / 8, res = 0, ok;
	uint8_t *buf = out_buffer((size_t)nb);
	vbi3_bit_slicer *bs;
	if (!p) return 0;
	vf_log("  slice_line %s %s offset=%u\n", s->name, what, sample_offset);
	bs = vbi3_bit_slicer_new();
	vf_phase("vbi3_bit_slicer_set_params");
	ok = vbi3_bit_slicer_set_params(bs, c->sp.sampling_format, (unsigned)c->sp.sampling_rate, sample_offset, (unsigned)c->spl,
		p->cri_frc >> p->frc_bits, p->cri_frc_mask >> p->frc_bits, p->cri_bits, p->cri_rate, ~0u,
		p->cri_frc & ((1u << p->frc_bits) - 1), p->frc_bits, p->payload, p->bit_rate, (vbi3_modulation)p->modulation);
	if (ok) {
		const char *f = job_func(c, bs);
		if (func_out) *func_out = f;
		next_prefill();
		memset(buf, PREFILL, (size_t)nb);
		set_phase("vbi3_bit_slicer_slice", f, c);
		if (vbi3_bit_slicer_slice(bs, buf, (unsigned)nb, line)) res |= 1;
		else {
			int k;
			for (k = 0; k < nb; k++) if (buf[k] != PREFILL) {
				vf_fail("model:C05:buffer-modified-on-failure", "vbi3_bit_slicer_slice returned FALSE but wrote buffer[%d] (%s, %s) | %s", k, s->name, what, cfg_desc(c));
				break;
			}
		}
		vf_count("slice_calls_new", 1);
		/* a buffer one byte too small must be refused, not overrun */
		if (nb > 1 && !vf_param[1]) {
			uint8_t *small = out_buffer((size_t)nb - 1);
			vf_phase("vbi3_bit_slicer_slice:short-buffer");
			if (vbi3_bit_slicer_slice(bs, small, (unsigned)nb - 1, line))
				vf_fail("model:C05:short-buffer-accepted", "vbi3_bit_slicer_slice accepted a %d byte buffer for %d payload bits | %s", nb - 1, s->payload_bits, cfg_desc(c));
		}
	}
	vbi3_bit_slicer_delete(bs);
	/* the same line through vbi3_bit_slicer_slice_with_points() */
	if (ok && g_r && !vf_param[2] && vf_chance(g_r, 1, 6)) slice_points(c, s, p, sample_offset, line, what);
	/* old interface: only when the line can hold the signal at all (its init has no way to refuse) */
	if (sample_offset == 0) {
		double need = (double)c->sp.sampling_rate * (p->payload + p->frc_bits) / p->bit_rate + (double)c->sp.sampling_rate * p->cri_bits / p->cri_rate;
		if ((double)c->spl >= need && p->cri_rate <= (unsigned)c->sp.sampling_rate) {
			vbi_bit_slicer os;
			memset(&os, 0, sizeof os);
			vf_phase("vbi_bit_slicer_init");
			vbi_bit_slicer_init(&os, c->spl, c->sp.sampling_rate, (int)p->cri_rate, (int)p->bit_rate, p->cri_frc, p->cri_frc_mask >> p->frc_bits,
					    (int)p->cri_bits, (int)p->frc_bits, (int)p->payload, (vbi_modulation)p->modulation, c->sp.sampling_format);
			memset(buf, PREFILL, (size_t)nb);
			set_phase("vbi_bit_slice", c04_func_class(c->sp.sampling_format), c);
			if (vbi_bit_slice(&os, (uint8_t *)line, buf)) res |= 2;
			vf_count("slice_calls_old", 1);
		}
	}
	return res;
}

/* ---- one case ---- */

static uint8_t wide[C04_NSVC][MAXWIDE];
static int wide_len[C04_NSVC], wide_cri_end[C04_NSVC], wide_ok[C04_NSVC];
static uint8_t blank_level;

/* render service s at the configured rate into an 8-bit line that covers the whole signal */
static void render_wide(const struct cfg5 *c, int k, struct vf_rng *r)
{
	const struct svc *s = c->set[k];
	vbi_sampling_par sp8;
	vbi_sliced sl;
	double t1, t2, rate = c->sp.sampling_rate;
	int f = s->first[0] ? 0 : 1, off, len;
	c04_span(s, &t1, &t2);
	off = (int)floor(t1 * rate);
	len = (int)ceil(t2 * rate) - off + 2;
	wide_ok[k] = 0;
	if (len > MAXWIDE || len < 4) return;
	memset(&sp8, 0, sizeof sp8);
	sp8.scanning = s->scanning;
	sp8.sampling_format = VBI_PIXFMT_YUV420;
	sp8.sampling_rate = c->sp.sampling_rate;
	sp8.bytes_per_line = len;
	sp8.offset = off;
	sp8.start[f] = s->first[f];
	sp8.count[f] = 1;
	sp8.synchronous = 1;
	memset(&sl, 0, sizeof sl);
	sl.id = s->id;
	sl.line = (uint32_t)s->first[f];
	vf_bytes(r, sl.data, sizeof sl.data);
	vf_phase("_vbi_raw_vbi_image");
	if (!_vbi_raw_vbi_image(wide[k], MAXWIDE, &sp8, 0, 0, 0, &sl, 1)) return;
	wide_len[k] = len;
	blank_level = wide[k][len - 1];
	/* where the clock run-in (and framing code) ends inside the wide line: used to aim and to bucket only */
	{
		const _vbi_service_par *p = c04_lib_par(s->id);
		double cri = p ? (double)p->cri_bits / p->cri_rate : 0;
		if (s->kind == K_CC) cri = 7.0 / s->bit_rate + 3.0 / s->bit_rate;   /* run-in plus start bits */
		wide_cri_end[k] = (int)(cri * rate);
	}
	wide_ok[k] = 1;
}

static void shifted(const struct cfg5 *c, int k, int shift, uint8_t *y8)
{
	int x;
	for (x = 0; x < c->spl; x++) {
		int w = x - shift;
		y8[x] = (w >= 0 && w < wide_len[k]) ? wide[k][w] : blank_level;
	}
}

#include "c05_ext.h"

/* Sampling parameters at and beyond the edge of validity.  "Valid" is what the library admits
 * (vbi3_raw_decoder_new / _add_services, vbi_raw_decoder_add_services return services): whatever it admits, it
 * must decode inside the (count[0]+count[1]) x bytes_per_line image those very parameters describe.  A valid
 * configuration is perturbed in one field (field heights that differ by one with interlaced storage, a field
 * without lines, bytes_per_line too small for the samples or not a multiple of the pixel size, start lines
 * outside the picture, absurd offsets and rates); a rejection is as good as a safe decode. */
/* The shortest line the new bit slicer accepts.  vbi3_bit_slicer_set_params() refuses a samples_per_line in which
 * CRI, FRC and payload (plus the 16 sample window of the low-pass slicer) do not fit behind sample_offset; whatever
 * it accepts must be safe.  The smallest accepted samples_per_line (found by bisection: acceptance is monotone) and
 * the next few are the configurations in which the CRI search window is one sample, two samples ... wide.  The line
 * buffer is exactly samples_per_line * bpp bytes against a guard page; contents: flat (no CRI is ever found, the
 * search runs to its end), noise, and the head of a real signal. */
static void slicer_edge(const struct cfg5 *c0, struct vf_rng *r)
{
	static const int rates[] = { 13500000, 14750000, 27000000, 35468950, 6750000, 17734475 };
	struct cfg5 c = *c0;
	const struct svc *s = &c04_svc[vf_below(r, sizeof c04_svc / sizeof c04_svc[0])];
	const _vbi_service_par *p = c04_lib_par(s->id);
	unsigned sample_offset = vf_chance(r, 1, 2) ? 0 : (unsigned)vf_range(r, 1, 60);
	unsigned lo = 1, hi = 8192, spl;
	int nb = (s->payload_bits + 7) / 8, k, fill;
	vbi3_bit_slicer *bs;
	uint8_t *buf;
	if (!p) return;
	c.sp.sampling_rate = rates[vf_below(r, sizeof rates / sizeof rates[0])];
	bs = vbi3_bit_slicer_new();
	if (!bs) return;
#define EDGE_SET(n) vbi3_bit_slicer_set_params(bs, c.sp.sampling_format, (unsigned)c.sp.sampling_rate, sample_offset, (n), \
		p->cri_frc >> p->frc_bits, p->cri_frc_mask >> p->frc_bits, p->cri_bits, p->cri_rate, ~0u, \
		p->cri_frc & ((1u << p->frc_bits) - 1), p->frc_bits, p->payload, p->bit_rate, (vbi3_modulation)p->modulation)
	vf_phase("vbi3_bit_slicer_set_params");
	if (!EDGE_SET(hi)) { vf_count("slicer_edge_never_accepted", 1); vbi3_bit_slicer_delete(bs); return; }
	while (lo < hi) { unsigned mid = (lo + hi) / 2; if (EDGE_SET(mid)) hi = mid; else lo = mid + 1; }
	buf = out_buffer((size_t)nb);
	for (k = 0; k < 3; k++) {
		spl = hi + (unsigned)k;
		if (!EDGE_SET(spl)) { vf_fail("harness:C05:slicer-edge-not-monotone", "samples_per_line %u refused, %u accepted | %s", spl, hi, s->name); break; }
		c.spl = (int)spl;
		for (fill = 0; fill < 3; fill++) {
			size_t nbytes = (size_t)spl * (size_t)c.bpp;
			uint8_t *line = EXACT_ALLOC(nbytes, 1);
			const char *f = job_func(&c, bs);
			if (fill == 0) memset(line, vf_chance(r, 1, 2) ? 0x10 : (int)vf_below(r, 256), nbytes);
			else if (fill == 1) vf_bytes(r, line, nbytes);
			else {
				/* a square wave at the CRI rate: the CRI matches as early as possible, FRC and payload follow at the very end */
				size_t q; double per = (double)c.sp.sampling_rate / (double)p->cri_rate;
				for (q = 0; q < nbytes; q++) line[q] = (((size_t)((double)(q / (size_t)c.bpp) / per)) & 1) ? 0xE0 : 0x10;
			}
			next_prefill();
			memset(buf, PREFILL, (size_t)nb);
			set_phase("vbi3_bit_slicer_slice", "shortest-accepted-line", &c);
			(void)f;
			vbi3_bit_slicer_slice(bs, buf, (unsigned)nb, line);
			vf_count("slicer_edge_slices", 1);
			EXACT_FREE(line);
		}
	}
	/* The caller may also end the CRI search window himself (parameter cri_end): a window of zero, one, two ...
	 * samples behind sample_offset, or ending anywhere in the line.  Refusing is fine, accepting must be safe. */
	for (k = 0; k < 6; k++) {
		unsigned spl2 = hi + (unsigned)vf_range(r, 0, 600);
		unsigned ce = k < 3 ? sample_offset + (unsigned)k : k == 3 ? (unsigned)vf_range(r, 0, (int)spl2) : k == 4 ? spl2 - (unsigned)vf_range(r, 0, 3) : sample_offset + (unsigned)vf_range(r, 0, 40);
		size_t nbytes = (size_t)spl2 * (size_t)c.bpp;
		uint8_t *line;
		vf_phase("vbi3_bit_slicer_set_params");
		if (!vbi3_bit_slicer_set_params(bs, c.sp.sampling_format, (unsigned)c.sp.sampling_rate, sample_offset, spl2,
				p->cri_frc >> p->frc_bits, p->cri_frc_mask >> p->frc_bits, p->cri_bits, p->cri_rate, ce,
				p->cri_frc & ((1u << p->frc_bits) - 1), p->frc_bits, p->payload, p->bit_rate, (vbi3_modulation)p->modulation)) {
			vf_count("slicer_edge_cri_end_refused", 1);
			continue;
		}
		c.spl = (int)spl2;
		for (fill = 0; fill < 2; fill++) {
			line = EXACT_ALLOC(nbytes, 1);
			if (fill == 0) memset(line, 0x10, nbytes); else vf_bytes(r, line, nbytes);
			next_prefill();
			memset(buf, PREFILL, (size_t)nb);
			set_phase("vbi3_bit_slicer_slice", "caller-set-cri-end", &c);
			vbi3_bit_slicer_slice(bs, buf, (unsigned)nb, line);
			EXACT_FREE(line);
		}
		vf_count("slicer_edge_cri_end_accepted", 1);
		if (!strcmp(job_func(&c, bs), "lowpass")) vf_count("slicer_edge_cri_end_accepted_lowpass", 1);
	}
	vf_count("slicer_edge_configs", 1);
	if (job_func(&c, bs) && !strcmp(job_func(&c, bs), "lowpass")) vf_count("slicer_edge_configs_lowpass", 1);
	vbi3_bit_slicer_delete(bs);
#undef EDGE_SET
}

/* Reconfiguration histories: an existing decoder (with its jobs, learnt line pattern and slicers of the previous
 * image geometry) is given other sampling parameters, in the documented ways - vbi3_raw_decoder_set_sampling_par()
 * + add_services; 0.2 API: vbi_raw_decoder_reset(), edit the public fields, add_services, or vbi_raw_decoder_resize()
 * for start / count.  One field changes per step (narrower or wider lines, lines moved between the fields, fewer or
 * more lines, field order known / unknown, interlaced storage).  After each step an image of exactly the NEW size
 * stands against the guard page (start or end) and is decoded with hostile content. */
static void reconfigure(const struct cfg5 *c0, struct rx *x, struct vf_rng *r)
{
	struct cfg5 c = *c0;
	int step, nsteps = vf_range(r, 2, 4);
	for (step = 0; step < nsteps && !vf_failed(); step++) {
		vbi_sampling_par *sp = &c.sp;
		int what = (int)vf_below(r, 9), scan, n, i, use_resize = 0, end_aligned = (int)vf_below(r, 2), pass;
		size_t img_size;
		uint8_t *img;
		vbi_sliced *out;
		char desc[80];
		switch (what) {
		case 0: sp->bytes_per_line += c.bpp * vf_range(r, 1, 300); break;                               /* padded / wider */
		case 1: case 2: if (sp->bytes_per_line > c.bpp * 200) sp->bytes_per_line -= c.bpp * vf_range(r, 1, sp->bytes_per_line / c.bpp / 3); break; /* narrower */
		case 3: if (sp->count[0] > 1) { sp->count[0]--; sp->count[1]++; } else if (sp->count[1] > 1) { sp->count[1]--; sp->count[0]++; } use_resize = (int)vf_below(r, 2); break;
		case 4: if (sp->count[0] > 2) sp->count[0] -= vf_range(r, 1, sp->count[0] / 2); else sp->count[0] += 2; use_resize = (int)vf_below(r, 2); break;
		case 5: if (sp->count[1] > 2) sp->count[1] -= vf_range(r, 1, sp->count[1] / 2); else sp->count[1] += 2; use_resize = (int)vf_below(r, 2); break;
		case 6: sp->synchronous = !sp->synchronous; break;
		case 7: if (sp->count[0] == sp->count[1]) sp->interlaced = !sp->interlaced; else sp->synchronous = !sp->synchronous; break;
		default: sp->count[0] += vf_range(r, 1, 3); sp->count[1] += vf_range(r, 0, 3); use_resize = (int)vf_below(r, 2); break;
		}
		if (sp->interlaced && sp->count[0] != sp->count[1]) sp->interlaced = 0;
		if (sp->bytes_per_line / c.bpp > 32767) sp->bytes_per_line = 32767 * c.bpp;   /* the bit slicer's documented maximum (session 6: long lines) */
		c.spl = sp->bytes_per_line / c.bpp;
		scan = sp->count[0] + sp->count[1];
		if (scan < 1 || scan > 200 || c.spl < 1) return;
		snprintf(desc, sizeof desc, "reconfigured (step %d, change %d%s)", step, what, use_resize ? ", resize" : "");
		vf_phase("vbi3_raw_decoder_set_sampling_par");
		vbi3_raw_decoder_set_sampling_par(x->rd3, sp, c.strict);
		vf_phase("vbi3_raw_decoder_add_services");
		vbi3_raw_decoder_add_services(x->rd3, c.req, c.strict);
		{
			vbi_raw_decoder *o = &x->rdo;
			if (use_resize) {
				vf_phase("vbi_raw_decoder_resize");
				vbi_raw_decoder_resize(o, sp->start, (unsigned int *)sp->count);
			} else {
				vf_phase("vbi_raw_decoder_reset");
				vbi_raw_decoder_reset(o);
				o->scanning = sp->scanning; o->sampling_format = sp->sampling_format; o->sampling_rate = sp->sampling_rate;
				o->bytes_per_line = sp->bytes_per_line; o->offset = sp->offset;
				o->start[0] = sp->start[0]; o->start[1] = sp->start[1]; o->count[0] = sp->count[0]; o->count[1] = sp->count[1];
				o->interlaced = sp->interlaced; o->synchronous = sp->synchronous;
			}
			/* vbi_raw_decoder_resize() alone puts the new geometry into effect; adding services afterwards
			   copies the public fields into the decoder once more and would hide a resize that did not */
			if (!use_resize || vf_chance(r, 1, 2)) {
				vf_phase("vbi_raw_decoder_add_services");
				vbi_raw_decoder_add_services(o, c.req, c.strict);
			} else
				vf_count("reconfigured_by_resize_alone", 1);
		}
		img_size = (size_t)scan * (size_t)sp->bytes_per_line;
		img = EXACT_ALLOC(img_size, end_aligned);
		out = EXACT_ALLOC(sizeof(vbi_sliced) * (size_t)scan, 1);
		for (pass = 0; pass < 3; pass++) {
			if (pass == 0) vf_bytes(r, img, img_size);
			else if (pass == 1) memset(img, 0x10, img_size);
			else {
				const struct svc *s = c.set[vf_below(r, (unsigned)c.nset)];
				double per = (double)sp->sampling_rate / s->clock;
				size_t q;
				for (q = 0; q < img_size; q++) img[q] = (fmod((double)((q % (size_t)sp->bytes_per_line) / (size_t)c.bpp), per * 2) < per) ? 200 : 60;
			}
			next_prefill();
			memset(out, PREFILL, sizeof *out * (size_t)scan);
			set_phase("vbi3_raw_decoder_decode", "reconfigured", &c);
			n = (int)vbi3_raw_decoder_decode(x->rd3, out, (unsigned)scan, img);
			check_out(&c, "vbi3_raw_decoder_decode", out, n, scan, desc);
			next_prefill();
			memset(out, PREFILL, sizeof *out * (size_t)scan);
			set_phase("vbi_raw_decode", "reconfigured", &c);
			n = vbi_raw_decode(&x->rdo, img, out);
			check_out(&c, "vbi_raw_decode", out, n, scan, desc);
			vf_count("decodes_after_reconfiguration", 2);
		}
		(void)i;
		EXACT_FREE(out);
		EXACT_FREE(img);
		vf_count("reconfigurations", 1);
		{ char cn[48]; snprintf(cn, sizeof cn, "reconfiguration_kind_%d", what); vf_count(cn, 1); }
	}
}

static void borderline(const struct cfg5 *c0, struct vf_rng *r)
{
	struct cfg5 c = *c0;
	vbi_sampling_par *sp = &c.sp;
	vbi3_raw_decoder *rd3;
	vbi_raw_decoder rdo;
	unsigned adm3 = 0, admo = 0;
	int scan, row, what = (int)vf_below(r, 14), n;
	size_t img_size;
	uint8_t *img, *y8, *line;
	vbi_sliced *out;
	char desc[64];
	switch (what) {
	case 0: sp->interlaced = 1; sp->count[1] = sp->count[0] + 1; break;
	case 1: sp->interlaced = 1; if (sp->count[0] > 1) sp->count[1] = sp->count[0] - 1; else sp->count[1] = sp->count[0] + 1; break;
	case 2: sp->count[vf_below(r, 2)] = 0; break;
	case 3: sp->bytes_per_line -= (int)vf_range(r, 1, c.bpp > 1 ? c.bpp : 2); break;
	case 4: sp->bytes_per_line = sp->bytes_per_line / 2; break;
	case 5: sp->start[vf_below(r, 2)] = (int[]){ 0, -1, 1, 400, 1000, 65535 }[vf_below(r, 6)]; break;
	case 6: sp->offset = (int[]){ 0, -1, 1, 5000, 1 << 20 }[vf_below(r, 5)]; break;
	case 7: sp->sampling_rate = (int[]){ 0, 1, 1000000, 3000000, 200000000 }[vf_below(r, 5)]; break;
	case 8: sp->interlaced = !sp->interlaced; break;
	case 9: sp->count[0] += (int)vf_range(r, 1, 3); break;
	case 10: sp->interlaced = 1; sp->count[1] = sp->count[0] + (int)vf_range(r, 2, 5); break;
	case 12:
		/* session 6: the flags are vbi_bool, any non-zero value means TRUE: interlaced storage of two equally high fields */
		sp->interlaced = (int[]){ 2, 3, -1, 255, 256, 0x40000000 }[vf_below(r, 6)];
		if (sp->count[0] < 1) sp->count[0] = 1;
		sp->count[1] = sp->count[0];
		if (sp->start[0]) sp->start[1] = sp->start[0] + (c.scanning == 625 ? 313 : 263);
		vf_count("borderline_bool_flag_not_0_1", 1);
		break;
	case 13:
		sp->synchronous = (int[]){ 2, -1, 255, 256 }[vf_below(r, 4)];
		vf_count("borderline_bool_flag_not_0_1", 1);
		break;
	default: sp->count[1] = 0; sp->count[0] = 1; break;
	}
	snprintf(desc, sizeof desc, "borderline parameters, perturbation %d", what);
	if (sp->count[0] < 0 || sp->count[1] < 0 || sp->bytes_per_line < 1) return;
	scan = sp->count[0] + sp->count[1];
	if (scan < 1 || scan > 2000 || sp->bytes_per_line > (1 << 16)) return;
	img_size = (size_t)scan * (size_t)sp->bytes_per_line;
	vf_count("borderline_configs", 1);

	vf_phase("vbi3_raw_decoder_new");
	rd3 = vbi3_raw_decoder_new(sp);
	if (rd3) { vf_phase("vbi3_raw_decoder_add_services"); adm3 = vbi3_raw_decoder_add_services(rd3, c.req, c.strict); }
	vbi_raw_decoder_init(&rdo);
	rdo.scanning = sp->scanning; rdo.sampling_format = sp->sampling_format; rdo.sampling_rate = sp->sampling_rate;
	rdo.bytes_per_line = sp->bytes_per_line; rdo.offset = sp->offset;
	rdo.start[0] = sp->start[0]; rdo.start[1] = sp->start[1]; rdo.count[0] = sp->count[0]; rdo.count[1] = sp->count[1];
	rdo.interlaced = sp->interlaced; rdo.synchronous = sp->synchronous;
	vf_phase("vbi_raw_decoder_add_services");
	admo = vbi_raw_decoder_add_services(&rdo, c.req, c.strict);
	if (!adm3 && !admo) { vf_count("borderline_rejected", 1); goto done; }
	vf_count("borderline_admitted", 1);
	if (what == 12) vf_count("borderline_interlaced_not_0_1_admitted", 1);

	/* an image of exactly the size the parameters describe, every row a valid signal as far as the row is long */
	img = EXACT_ALLOC(img_size, 1);
	y8 = malloc((size_t)c0->spl + 16);
	line = malloc((size_t)c0->spl * (size_t)c0->bpp + 16);
	out = EXACT_ALLOC(sizeof(vbi_sliced) * (size_t)scan, 1);
	if (img && y8 && line && out) {
		for (row = 0; row < scan; row++) {
			int k = (int)vf_below(r, (unsigned)c0->nset);
			size_t nb = (size_t)c0->spl * (size_t)c0->bpp;
			if (wide_ok[k]) shifted(c0, k, vf_range(r, 0, c0->spl > wide_len[k] ? c0->spl - wide_len[k] : 0), y8);
			else memset(y8, blank_level, (size_t)c0->spl);
			put_line(c0, r, line, y8, 0);
			if (nb > (size_t)sp->bytes_per_line) nb = (size_t)sp->bytes_per_line;
			memset(img + (size_t)row * (size_t)sp->bytes_per_line, 0, (size_t)sp->bytes_per_line);
			memcpy(img + (size_t)row * (size_t)sp->bytes_per_line, line, nb);
		}
		if (adm3) {
			next_prefill(); memset(out, PREFILL, sizeof *out * (size_t)scan);
			set_phase("vbi3_raw_decoder_decode", "borderline", &c);
			n = (int)vbi3_raw_decoder_decode(rd3, out, (unsigned)scan, img);
			if (n < 0 || n > scan) vf_fail("model:C05:count-exceeds-max-lines", "vbi3_raw_decoder_decode returned %d records, max_lines %d (%s) | %s", n, scan, desc, cfg_desc(&c));
			vf_count("borderline_decodes", 1);
		}
		if (admo) {
			next_prefill(); memset(out, PREFILL, sizeof *out * (size_t)scan);
			set_phase("vbi_raw_decode", "borderline", &c);
			n = vbi_raw_decode(&rdo, img, out);
			if (n < 0 || n > scan) vf_fail("model:C05:count-exceeds-max-lines", "vbi_raw_decode returned %d records, image has %d rows (%s) | %s", n, scan, desc, cfg_desc(&c));
			vf_count("borderline_decodes", 1);
		}
	}
	if (img) EXACT_FREE(img);
	if (out) EXACT_FREE(out);
	free(y8); free(line);
done:
	vf_phase("vbi3_raw_decoder_delete");
	if (rd3) vbi3_raw_decoder_delete(rd3);
	vbi_raw_decoder_destroy(&rdo);
}

static int run_case(struct vf_rng *r, long idx)
{
	struct cfg5 c;
	struct rx x;
	uint8_t *img, *y8, *linebuf;
	size_t img_size;
	int scan, pass, k, i, nontrivial = 0, matches = 0;
	int last_row[2], nlast = 0;
	long budget_decodes = vf_param[0] > 0 ? vf_param[0] : 1200;
	(void)idx;

	prefill_calls = 0;
	g_r = r;
	gen_cfg(r, &c);
	/* lines longer than any scan line: the same work per case (the dense parts of the sweep stay) */
	if (c.spl > 2700) { budget_decodes = budget_decodes * 1350 / c.spl; if (budget_decodes < 40) budget_decodes = 40; }
	scan = c.sp.count[0] + c.sp.count[1];
	img_size = (size_t)scan * (size_t)c.sp.bytes_per_line;
	vf_sample("%s (%s)", cfg_desc(&c), FLAVOUR);

	memset(&x, 0, sizeof x);
	vf_phase("vbi3_raw_decoder_new");
	x.rd3 = vbi3_raw_decoder_new(&c.sp);
	if (!x.rd3) {
		/* generated parameters are valid by construction */
		vf_fail("harness:C05:parameters-rejected", "vbi3_raw_decoder_new rejected %s", cfg_desc(&c));
		return 0;
	}
	vf_phase("vbi3_raw_decoder_add_services");
	x.admitted = vbi3_raw_decoder_add_services(x.rd3, c.req, c.strict);
	x.func = c04_func_class(c.sp.sampling_format);
	{
		vbi_raw_decoder *o = &x.rdo;
		vbi_raw_decoder_init(o);
		o->scanning = c.sp.scanning; o->sampling_format = c.sp.sampling_format; o->sampling_rate = c.sp.sampling_rate;
		o->bytes_per_line = c.sp.bytes_per_line; o->offset = c.sp.offset;
		o->start[0] = c.sp.start[0]; o->start[1] = c.sp.start[1]; o->count[0] = c.sp.count[0]; o->count[1] = c.sp.count[1];
		o->interlaced = c.sp.interlaced; o->synchronous = c.sp.synchronous;
		vf_phase("vbi_raw_decoder_add_services");
		vbi_raw_decoder_add_services(o, c.req, c.strict);
		x.have_old = 1;
	}
	vf_count("configs", 1);
	if (!x.admitted) vf_count("configs_nothing_admitted", 1);
	if (c.long_line) { vf_count("configs_long_line", 1); if (x.admitted) vf_count("configs_long_line_admitted", 1); if (c.spl > 8192) vf_count("configs_long_line_gt8192", 1); }
	if (c.short_line) { vf_count("configs_service_boundary_line", 1); if (x.admitted) vf_count("configs_service_boundary_line_admitted", 1); }
	if (c.req & VBI_SLICED_WSS_CPR1204) vf_count("configs_cpr1204_requested", 1);
	if (c.req & VBI_SLICED_2xCAPTION_525) { vf_count("configs_caption2x_requested", 1); if (x.admitted & VBI_SLICED_2xCAPTION_525) vf_count("configs_caption2x_admitted", 1); }

	/* rows that are the last line of the image / of each field */
	if (c.sp.interlaced) { last_row[nlast++] = scan - 1; last_row[nlast++] = scan - 2; }
	else {
		last_row[nlast++] = scan - 1;
		if (c.sp.count[0] && c.sp.count[1]) last_row[nlast++] = c.sp.count[0] - 1;
	}

	y8 = malloc((size_t)c.spl + 16);
	out_max = scan;
	out_alloc = EXACT_ALLOC(sizeof(vbi_sliced) * (size_t)out_max, 1);

	for (k = 0; k < c.nset; k++) render_wide(&c, k, r);

#if defined(__SANITIZE_ADDRESS__)
#  define NPASS 1   /* red zones on both sides at once */
#else
#  define NPASS 2
#endif
	for (pass = 0; pass < NPASS; pass++) {
		/* pass 0: image END against the guard page; pass 1: image START against it */
		int end_aligned = (pass == 0);
		unsigned ids = 0;
		long decodes = 0;
		img = EXACT_ALLOC(img_size, end_aligned);
		linebuf = EXACT_ALLOC((size_t)c.sp.bytes_per_line, end_aligned);
		g_y8exact = EXACT_ALLOC((size_t)c.spl, end_aligned);
		g_y8 = y8;

		/* 1. plain hostile content on every line */
		for (i = 0; i < 6; i++) {
			int row;
			char what[64];
			snprintf(what, sizeof what, "content=%s pass=%d", i == 0 ? "noise" : i == 1 ? "zero" : i == 2 ? "saturated" : i == 3 ? "impulses" : i == 4 ? "square-cri" : "square-half", pass);
			for (row = 0; row < scan; row++) {
				int xx;
				switch (i) {
				case 0: vf_bytes(r, y8, (size_t)c.spl); break;
				case 1: memset(y8, 0, (size_t)c.spl); break;
				case 2: memset(y8, 255, (size_t)c.spl); break;
				case 3: memset(y8, 60, (size_t)c.spl); for (xx = 0; xx < c.spl / 24 + 1; xx++) y8[vf_below(r, (unsigned)c.spl)] = (uint8_t)vf_range(r, 120, 255); break;
				default: {
					/* square wave at the clock run-in rate of a requested service (or half of it) */
					const struct svc *s = c.set[vf_below(r, (unsigned)c.nset)];
					double per = (double)c.sp.sampling_rate / (s->clock / (i == 4 ? 1 : 2));
					double ph = vf_unit(r) * per * 2;
					for (xx = 0; xx < c.spl; xx++) y8[xx] = (fmod(xx + ph, per * 2) < per) ? 200 : 60;
					break;
				}
				}
				put_line(&c, r, img + (size_t)row * (size_t)c.sp.bytes_per_line, y8, i != 1 && i != 2);
			}
			if (decode_all(&c, &x, img, scan, what, &ids)) { matched("raw_decoder", x.func, c.bpp, 4); matches++; }
			decodes++;
			/* fewer output records than lines */
			if (scan > 1) decode_all(&c, &x, img, vf_range(r, 1, scan - 1), what, &ids);
			/* no output record at all: out points at the guard page itself */
			if (vf_chance(r, 1, 3)) decode_all(&c, &x, img, 0, what, &ids);
			/* the same last line through the single-line interfaces */
			memcpy(linebuf, img + (size_t)(scan - 1) * (size_t)c.sp.bytes_per_line, (size_t)c.sp.bytes_per_line);
			for (k = 0; k < c.nset; k++) {
				const char *f = x.func;
				int m = slice_line(&c, c.set[k], linebuf, 0, what, &f);
				if (m & 1) { matched("bit_slicer_new", f, c.bpp, 4); matches++; }
				if (m & 2) { matched("bit_slicer_old", c04_func_class(c.sp.sampling_format), c.bpp, 4); matches++; }
			}
		}

		/* 2. every requested service's valid waveform at every horizontal position on the last line(s) */
		for (k = 0; k < c.nset; k++) {
			const struct svc *s = c.set[k];
			int lo, hi, stride, sh, aim = -1, cri_limit = -1;
			unsigned j;
			if (!wide_ok[k]) continue;
			/* aim: latest sample at which this service's slicer still looks for the run-in */
			for (j = 0; j < x.rd3->n_jobs; j++)
				if (x.rd3->jobs[j].id & s->id) cri_limit = (int)x.rd3->jobs[j].slicer.cri_samples;
			if (cri_limit < 0) {
				/* not admitted by the raw decoder: the bit slicer may still take it */
				cri_limit = c.spl - (wide_len[k] - wide_cri_end[k]);
			}
			aim = cri_limit - wide_cri_end[k];
			lo = -wide_len[k];
			hi = c.spl;
			stride = (int)(((long)(hi - lo) * (long)c.nset * 2) / budget_decodes) + 1;
			for (sh = lo; sh <= hi; sh++) {
				int dense = (sh >= aim - 48 && sh <= aim + 48) || (sh >= c.spl - wide_len[k] - 4 && sh <= c.spl - wide_len[k] + 20) || sh <= lo + 2 || sh >= hi - 2;
				int row_i, n, bucket, cri_at;
				char what[96];
				if (!dense && ((sh - lo) % stride)) continue;
				shifted(&c, k, sh, y8);
				cri_at = sh + wide_cri_end[k];
				if (sh + wide_len[k] - 2 > c.spl) bucket = 3;                    /* signal truncated by the end of the line */
				else if (cri_at >= cri_limit - cri_limit / 20) bucket = 2;
				else if (cri_at >= cri_limit / 3) bucket = 1;
				else bucket = 0;
				snprintf(what, sizeof what, "content=%s shift=%d cri_end_at=%d search_limit=%d pass=%d", s->name, sh, cri_at, cri_limit, pass);
				/* other lines: black */
				for (row_i = 0; row_i < scan; row_i++) {
					int is_last = 0, q;
					for (q = 0; q < nlast; q++) if (last_row[q] == row_i) is_last = 1;
					if (is_last) put_line(&c, r, img + (size_t)row_i * (size_t)c.sp.bytes_per_line, y8, 1);
					else memset(img + (size_t)row_i * (size_t)c.sp.bytes_per_line, 0, (size_t)c.sp.bytes_per_line);
				}
				n = decode_all(&c, &x, img, scan, what, &ids);
				decodes++;
				if (n) {
					unsigned jj;
					const char *f = x.func;
					for (jj = 0; jj < x.rd3->n_jobs; jj++)
						if (x.rd3->jobs[jj].id & ids) f = job_func(&c, &x.rd3->jobs[jj].slicer);
					matched("raw_decoder", f, c.bpp, bucket);
					matches++;
				}
				/* single-line interfaces on a line buffer of exactly samples_per_line * bpp bytes */
				if (dense || ((sh - lo) % (stride * 4)) == 0) {
					const char *f = x.func;
					int m;
					put_line(&c, r, linebuf, y8, 1);
					m = slice_line(&c, s, linebuf, dense && vf_chance(r, 1, 4) ? (unsigned)vf_range(r, 1, 40) : 0, what, &f);
					if (m & 1) { matched("bit_slicer_new", f, c.bpp, bucket); matches++; }
					if (m & 2) { matched("bit_slicer_old", c04_func_class(c.sp.sampling_format), c.bpp, bucket); matches++; }
				}
			}
		}
		vf_count("decodes", decodes);
		EXACT_FREE(g_y8exact);
		g_y8exact = NULL;
		EXACT_FREE(linebuf);
		EXACT_FREE(img);
	}
	if (matches) nontrivial = 1;
	vf_count("cri_matches", matches);
	if (vf_chance(r, 1, 2)) { int q; for (q = 0; q < 3; q++) borderline(&c, r); }
	{ int q; for (q = 0; q < 2; q++) slicer_edge(&c, r); }
	if (x.have_old) reconfigure(&c, &x, r);
	/* session 6: custom bit slicer parameters, images with many rows (c05_ext.h) */
	if (!vf_param[3]) { int q, nq = vf_param[4] > 0 ? (int)vf_param[4] : 8; for (q = 0; q < nq && !vf_failed(); q++) custom_params(r); }
	if (!vf_param[5] && !vf_failed() && vf_chance(r, 1, x.admitted ? 2 : 10)) many_rows(&c, r);

	vf_phase("vbi3_raw_decoder_delete");
	vbi3_raw_decoder_delete(x.rd3);
	vbi_raw_decoder_destroy(&x.rdo);
	EXACT_FREE(out_alloc);
	out_buffers_free();
	pts_release();
	g_y8 = NULL;
	free(y8);
	return nontrivial;
}

static void selftest(void)
{
	/* pixel conversion against hand vectors: value 0xA5 as green of RGB16_LE/BE, ARGB15_LE, and Y of UYVY */
	struct cfg5 c;
	struct vf_rng r;
	uint8_t y = 0xA5, d[4];
	vf_rng_seed(&r, 1, 1);
	memset(&c, 0, sizeof c);
	c.spl = 1;
	c.sp.sampling_format = VBI_PIXFMT_RGB16_LE; put_line(&c, &r, d, &y, 0);
	if (d[0] != 0x20 || d[1] != 0x05) vf_fail("selftest:C05", "RGB16_LE conversion: %02x %02x", d[0], d[1]);    /* (0xA5>>2)=0x29 <<5 = 0x0520 */
	c.sp.sampling_format = VBI_PIXFMT_RGB16_BE; put_line(&c, &r, d, &y, 0);
	if (d[0] != 0x05 || d[1] != 0x20) vf_fail("selftest:C05", "RGB16_BE conversion: %02x %02x", d[0], d[1]);
	c.sp.sampling_format = VBI_PIXFMT_ARGB15_LE; put_line(&c, &r, d, &y, 0);
	if (d[0] != 0x00 || d[1] != 0x05) vf_fail("selftest:C05", "ARGB15_LE conversion: %02x %02x", d[0], d[1]);   /* (0xA5>>3)=0x14 <<6 = 0x0500 */
	c.sp.sampling_format = VBI_PIXFMT_RGBA15_LE; put_line(&c, &r, d, &y, 0);
	if (d[0] != 0x80 || d[1] != 0x02) vf_fail("selftest:C05", "RGBA15_LE conversion: %02x %02x", d[0], d[1]);   /* 0x14<<5 = 0x0280 */
	c.sp.sampling_format = VBI_PIXFMT_UYVY; put_line(&c, &r, d, &y, 0);
	if (d[0] != 0 || d[1] != 0xA5) vf_fail("selftest:C05", "UYVY conversion");
	c.sp.sampling_format = VBI_PIXFMT_RGBA32_BE; put_line(&c, &r, d, &y, 0);
	if (d[2] != 0xA5 || d[0] || d[1] || d[3]) vf_fail("selftest:C05", "RGBA32_BE conversion");
	if (payload_bytes_of(VBI_SLICED_WSS_625) != 2 || payload_bytes_of(VBI_SLICED_TELETEXT_B) != 42 || payload_bytes_of(VBI_SLICED_CAPTION_525) != 2 || payload_bytes_of(VBI_SLICED_VPS) != 13)
		vf_fail("selftest:C05", "payload size table");
#if !defined(__SANITIZE_ADDRESS__)
	{
		/* the guard allocator really ends the block at a page boundary */
		uint8_t *p = vf_guard_alloc(100, 1);
		if (((uintptr_t)(p + 100) & 4095) != 0) vf_fail("selftest:C05", "guard block not end-aligned");
		vf_guard_free(p);
		p = vf_guard_alloc(100, 0);
		if (((uintptr_t)p & 4095) != 0) vf_fail("selftest:C05", "guard block not start-aligned");
		vf_guard_free(p);
	}
#endif
}

int main(int argc, char **argv) { return vf_main(argc, argv, run_case, selftest); }
