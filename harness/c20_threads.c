/* C20 - documented cross-thread use of the service decoder and of the raw
 * decoder is race-free: no data race, no deadlock, no torn result.
 *
 * One case = one seeded multi-threaded run (flavour tsan).
 *
 * mode "a" (service decoder):
 *   A  feeds vbi_decode(), one frame per call: at most ONE caption line (field
 *      1 or 2, generated EIA-608 traffic for CC1-4/T1-4 plus XDS incl. network
 *      changes and ITV triggers), a Teletext page stream (magazines 1 and 2,
 *      parallel and serial mode, rolling headers with a running clock, header
 *      text of the same / another network / another magazine, headers damaged
 *      by parity errors or without their page number: all outcomes of the
 *      library's header comparison) and VPS lines; time stamps with gaps
 *      (dropped frames, repeated and backward time stamps) which start the
 *      channel-switch countdown, so that pages are stored while it runs.
 *      A's event handler fetches all eight pages on EVERY event type
 *      (documented: "Although safe to do ..." / "Permits calling
 *      vbi_fetch_cc_page from handler"), and A fetches them again after every
 *      vbi_decode() return: these are the SNAPSHOTS of the sequential execution.
 *   B,C loop vbi_fetch_cc_page() over pages 1..8 (paced, never spinning).
 *   D  calls vbi_channel_switched() at seeded moments of A's progress, in
 *      some runs densely, and preferably while a countdown is running.
 * mode "b" (raw decoder):
 *   A  loops vbi_raw_decode() on pre-computed raw images carrying Teletext B,
 *      VPS, Caption 625 and WSS 625.
 *   B,C toggle one service at a time (B: Teletext, VPS; C: Caption, WSS) with
 *      vbi_raw_decoder_add_services / _remove_services, and call _check_services.
 *
 * Oracles
 *   1. ThreadSanitizer: reports are collected and keyed by checks/c20.py.
 *   2. Snapshot monitor (a): a page fetched by B/C in the tick window [c,r] must
 *      equal (all fields except the fetch-consumed 'dirty' hints) the page of one
 *      of A's snapshots j_lo..j_hi, j_lo = last snapshot started at or before c,
 *      j_hi = first snapshot finished at or after r; additionally the blank page
 *      a channel switch produces is admitted when the window spans more than
 *      one snapshot (the reset runs at the start of vbi_decode() and may be
 *      overwritten by the caption line of the same call before A can look).
 *      Version monitor (b): the sliced output of a decode in window [c,r] must
 *      equal the sequential reference output for ONE service set Sb|Sc with Sb a
 *      state of B's services possible in the window and Sc one of C's.
 *      Return values of add/remove must show the caller's own services exactly
 *      and the other toggler's services in a state possible in the op's window.
 *   3. Deadlock = bounded progress (DESIGN.md 1.3): every API call returns and
 *      thread A finishes its operation count.  The main thread watches the
 *      per-thread progress counters (one increment per API call): a thread
 *      that stays inside one API call for p2 seconds (wall clock; generous:
 *      a call takes micro- to milliseconds), or no progress of any thread for
 *      that long, => "stall:C20" with the phases, the kernel state and the CPU
 *      time each thread used meanwhile (blocked vs spinning), exit 98.
 *      checks/c20.py re-runs the case in isolation with gdb stacks; only a
 *      reproduced stall is a violation, the other kind is INCONCLUSIVE.
 *
 * Harness state is per thread (logs merged after join) or relaxed atomics.
 * Relaxed atomic RMWs create no happens-before edge in ThreadSanitizer, so the
 * tick counter does not hide library races; on x86-64 a locked RMW is a full
 * barrier in hardware and library calls are opaque to the compiler, so tick
 * order is a sound real-time order for the window arguments.
 *
 * Parameters: --p0 frames/decodes of thread A; --p1 1 = H2 yield hook off;
 *             --p2 stall seconds (default 40); --p3 1 = dump gdb stacks on stall;
 *             --p4 bit 0 = without thread C, bit 1 = without thread D;
 *             --p5 1 = the handler fetches on CAPTION events only (as before the
 *             fix abf2da1, when the library sent NETWORK / TRIGGER events with the caption
 *             mutex held); --p6 n = Teletext/time-stamp profile 1..4 instead of the seeded one.
 */
#include "vf.h"
#include <pthread.h>
#include <sched.h>
#include <unistd.h>
#include <sys/syscall.h>
#include <string.h>
#include <stdlib.h>
#include <time.h>
#include <stddef.h>
#include "libzvbi.h"

/* hook H2 (proposed/hook-H2-yield.patch); absent before the hook is committed */
extern unsigned int zvbi_verif_yield_seed __attribute__((weak));
extern unsigned long zvbi_verif_yield_count[8] __attribute__((weak));

#define NOTSAN __attribute__((no_sanitize_thread))

/* the oracle self-test runs the analysers on hand-made logs: then reports are
 * only counted */
static int g_quiet, g_quiet_fails;
#define REPORT(key, ...) do { if (g_quiet) g_quiet_fails++; else vf_fail(key, __VA_ARGS__); } while (0)
#define SIG(...) do { if (!g_quiet) vf_sig(__VA_ARGS__); } while (0)
#define COUNT(name, n) do { if (!g_quiet) vf_count(name, n); } while (0)

/* ------------------------------------------------------------------ ticks */

static unsigned long g_tick;
static inline unsigned long tick(void) { return __atomic_add_fetch(&g_tick, 1, __ATOMIC_RELAXED); }

static int g_a_done;                  /* relaxed flag */
static long g_a_frame;                /* relaxed: frames A has completed */
static int g_go;                      /* relaxed start flag */

static inline int a_done(void) { return __atomic_load_n(&g_a_done, __ATOMIC_RELAXED); }
static inline long a_frame(void) { return __atomic_load_n(&g_a_frame, __ATOMIC_RELAXED); }

#define NTHREADS 5                    /* A, B, C, D and M = the main thread (set-up and tear-down calls) */
#define TM 4
static long g_progress[NTHREADS];     /* relaxed, one writer each: one increment per API call */
static const char *g_phase[NTHREADS]; /* relaxed pointer to string literal: the API call the thread is in, "pace" or "done" */
static int g_tid[NTHREADS];           /* relaxed: kernel thread id (for /proc/self/task/<tid>/stat) */
static long g_a_gap_frame = -1;       /* relaxed: frame of A's last time stamp gap (thread D aims at the countdown) */
/* ambush: a request aimed into the first instructions of the vbi_decode() call of a frame with a time stamp gap
 * (where the decoder starts the 40 frame countdown "unless one is running"): D arms, A announces the frame and
 * waits a moment for D to spin, then both go.  All relaxed, harness-side pacing only. */
static int g_amb_armed;
static long g_amb_gapf = -1, g_amb_ready = -1, g_amb_go = -1;
extern int c20_chswcd(vbi_decoder *vbi);      /* harness/c20_peek.c */
static inline void progress(int t, const char *ph)
{
	__atomic_store_n(&g_phase[t], ph, __ATOMIC_RELAXED);
	__atomic_add_fetch(&g_progress[t], 1, __ATOMIC_RELAXED);
}
static inline void set_tid(int t) { __atomic_store_n(&g_tid[t], (int)syscall(SYS_gettid), __ATOMIC_RELAXED); }
static void wait_go(void)
{
	while (!__atomic_load_n(&g_go, __ATOMIC_RELAXED))
		sched_yield();
}

static void pace(struct vf_rng *r)
{
	switch (vf_below(r, 8)) {
	case 0: case 1: case 2: sched_yield(); break;
	case 3: break;
	default: usleep(vf_below(r, 200)); break;
	}
}

/* ------------------------------------------------------------ page digest */

#define ROWS 15
#define COLS 34
struct pgsum { uint64_t h; uint32_t row[ROWS]; uint32_t head, tail, misc; char txt[ROWS * COLS]; /* printable copy for witnesses */ };

NOTSAN static uint64_t mix(uint64_t h, const void *p, size_t n)
{
	const uint8_t *b = p;
	while (n >= 8) {
		uint64_t w;
		memcpy(&w, b, 8);
		h = (h ^ w) * 0x100000001B3ull;
		h ^= h >> 29;
		b += 8; n -= 8;
	}
	while (n--) h = (h ^ *b++) * 0x100000001B3ull;
	return h;
}

/* digest of everything a fetch returns except the 'dirty' hints, which every
 * fetch (by anybody) consumes and resets, and except the unused text[] cells
 * behind the rows x columns of the page */
NOTSAN static void page_sum(const vbi_page *pg, struct pgsum *s)
{
	uint64_t h = 1469598103934665603ull;
	int r;
	for (r = 0; r < ROWS; r++) {
		uint64_t rh = mix(0x9E3779B97F4A7C15ull + (uint64_t)r, &pg->text[r * COLS], sizeof(vbi_char) * COLS);
		s->row[r] = (uint32_t)(rh ^ (rh >> 32));
		h = (h ^ rh) * 0x100000001B3ull;
	}
	{
		uint64_t a = mix(1, pg, offsetof(vbi_page, text));
		uint64_t b = mix(2, &pg->text[ROWS * COLS], sizeof pg->text - sizeof(vbi_char) * ROWS * COLS);
		uint64_t c = mix(3, &pg->screen_color, sizeof *pg - offsetof(vbi_page, screen_color));
		s->head = (uint32_t)(a ^ (a >> 32)); s->tail = (uint32_t)(b ^ (b >> 32)); s->misc = (uint32_t)(c ^ (c >> 32));
		/* the tail (text[] cells behind rows x columns) is not page content: the
		 * roll-up code scribbles one cell past row 14 and a reset does not
		 * clear it; it is recorded for witnesses but not compared */
		h = (h ^ a) * 0x100000001B3ull;
		h = (h ^ c) * 0x100000001B3ull;
	}
	s->h = h;
	{
		int i;
		for (i = 0; i < ROWS * COLS; i++) {
			unsigned u = pg->text[i].unicode;
			s->txt[i] = (char)(u < 0x20 || u > 0x7e ? '?' : (u == 0x20 && pg->text[i].opacity == VBI_TRANSPARENT_SPACE) ? '_' : u);
		}
	}
}

/* =====================================================================
 * Scenario (a)
 * ===================================================================== */

struct snap { unsigned long t0, t1; long frame; int in_handler; };
/* event kinds seen by the handler */
enum { EVK_CAPTION, EVK_TTX_PAGE, EVK_TRIGGER, EVK_NETWORK, EVK_NETWORK_ID, EVK_ASPECT, EVK_PROG_INFO, EVK_OTHER, NEVK };
static const char *const evk_name[NEVK] = { "caption", "ttx_page", "trigger", "network", "network_id", "aspect", "prog_info", "other" };
static const char *const evk_gap[NEVK] = { "gap:caption-event", "gap:ttx_page-event", "gap:trigger-event", "gap:network-event", "gap:network_id-event",
	"gap:aspect-event", "gap:prog_info-event", "gap:other-event" };
static const char *const evk_phase[NEVK] = {
	"vbi_fetch_cc_page(CAPTION-handler)", "vbi_fetch_cc_page(TTX_PAGE-handler)", "vbi_fetch_cc_page(TRIGGER-handler)",
	"vbi_fetch_cc_page(NETWORK-handler)", "vbi_fetch_cc_page(NETWORK_ID-handler)", "vbi_fetch_cc_page(ASPECT-handler)",
	"vbi_fetch_cc_page(PROG_INFO-handler)", "vbi_fetch_cc_page(handler)" };
struct pgchg { long snap; struct pgsum s; };
struct span { unsigned long c, r; };            /* call / return tick */

struct fetch_rec { unsigned long c, r; int pgno; int ret; struct pgsum s; };

static struct {
	vbi_decoder *vbi;
	long frames;
	/* thread A */
	struct vf_rng rng_a;
	struct snap *snaps; long n_snaps, cap_snaps;
	struct pgchg *chg[8]; long n_chg[8], cap_chg[8];
	struct span *dec; long n_dec;              /* vbi_decode call windows */
	struct { uint8_t f, b[2]; } *capt;          /* caption line fed in frame f (field 1/2, 0 none) */
	struct span *hand; long n_hand, cap_hand;   /* handler windows */
	uint8_t *hand_kind;                         /* event kind of each handler window */
	vbi_page pg_a;                              /* A's fetch buffer */
	long a_frame_now;
	long ev_count[NEVK], handler_fetch_fail;
	long ttx_ev_same, ttx_ev_first, ttx_ev_broken, ttx_ev_noroll;
	int caption_only_handler;
	struct pgsum blank[8];
	/* fetchers */
	struct vf_rng rng_f[2];
	struct fetch_rec *fr[2]; long n_fr[2], cap_fr;
	vbi_page pg_f[2];
	/* switcher */
	struct vf_rng rng_d;
	struct span *sw; long n_sw, cap_sw;
	uint8_t *sw_amb;                            /* request was an ambush on a gap frame */
	/* channel-switch countdown as thread A finds it after each vbi_decode() call */
	int8_t *cd; unsigned long *cd_tick; uint8_t *is_gap;
} A;

static void a_snapshot(int in_handler)
{
	struct snap *sn;
	int p;
	if (A.n_snaps >= A.cap_snaps) return;
	sn = &A.snaps[A.n_snaps];
	sn->frame = A.a_frame_now;
	sn->in_handler = in_handler;
	sn->t0 = tick();
	for (p = 0; p < 8; p++) {
		struct pgsum s;
		if (!vbi_fetch_cc_page(A.vbi, &A.pg_a, p + 1, TRUE)) { A.handler_fetch_fail++; continue; }
		page_sum(&A.pg_a, &s);
		if (A.n_chg[p] == 0 || A.chg[p][A.n_chg[p] - 1].s.h != s.h) {
			if (A.n_chg[p] < A.cap_chg[p]) {
				A.chg[p][A.n_chg[p]].snap = A.n_snaps;
				A.chg[p][A.n_chg[p]].s = s;
				A.n_chg[p]++;
			}
		}
	}
	sn->t1 = tick();
	A.n_snaps++;
}

/* what thread A knows about the Teletext headers it sent (thread A only) */
static struct {
	/* per-run profile */
	int gap_den;            /* a time stamp gap every gap_den frames on average */
	int ttx_den;            /* Teletext lines in one of ttx_den frames */
	int dmg_den;            /* one of dmg_den headers is damaged */
	int mag2_own;           /* magazine 2 carries its own header text */
	long clock0;            /* seconds of day at frame 0 */
	/* state */
	int net;                /* header variant = network */
	int open[3];            /* open page per magazine 1,2: -1 none, else the page byte */
	long open_frame[3];     /* frame its header was sent in */
	int open_flags[3];      /* HDR_* of its header */
	uint8_t sent[0x300];    /* HDR_* of the last header sent for pgno */
	long last_gap;          /* frame of the last time stamp gap */
	/* counters */
	long headers, hdr_parity, hdr_nopgno, hdr_clock_parity, hdr_hamming, hdr_mag2, hdr_serial, hdr_flagged, hdr_hex, hdr_filler,
	     net_changes, gaps, gap_kind[4], ended_in_window, ended_in_window_damaged, ended_in_window_othermag, body_packets;
} T;
#define HDR_ELIGIBLE 1      /* the library will treat it as a rolling header */
#define HDR_DAMAGED  2      /* parity error in the compared text, or page number not in the text */
#define HDR_SENT     4

/* runs in thread A (handlers are called by the decoding thread) */
static void a_handler(vbi_event *ev, void *ud)
{
	int k;
	unsigned long c;
	(void)ud;
	switch (ev->type) {
	case VBI_EVENT_CAPTION: k = EVK_CAPTION; break;
	case VBI_EVENT_TTX_PAGE: k = EVK_TTX_PAGE; break;
	case VBI_EVENT_TRIGGER: k = EVK_TRIGGER; break;
	case VBI_EVENT_NETWORK: k = EVK_NETWORK; break;
	case VBI_EVENT_NETWORK_ID: k = EVK_NETWORK_ID; break;
	case VBI_EVENT_ASPECT: k = EVK_ASPECT; break;
	case VBI_EVENT_PROG_INFO: k = EVK_PROG_INFO; break;
	default: k = EVK_OTHER; break;
	}
	A.ev_count[k]++;
	if (k == EVK_TTX_PAGE) {
		/* which way the header comparison went, as far as the event shows it */
		int pgno = ev->ev.ttx_page.pgno;
		int fl = pgno >= 0x100 && pgno < 0x300 ? T.sent[pgno] : 0;
		if (ev->ev.ttx_page.roll_header && ev->ev.ttx_page.header_update) A.ttx_ev_first++;
		else if (ev->ev.ttx_page.roll_header) A.ttx_ev_same++;
		else if (fl & HDR_ELIGIBLE) A.ttx_ev_broken++;       /* inconclusive comparison, no countdown running */
		else A.ttx_ev_noroll++;
	}
	if (A.caption_only_handler && k != EVK_CAPTION) return;
	c = tick();
	progress(0, evk_phase[k]);
	a_snapshot(1 + k);
	progress(0, "vbi_decode");
	if (A.n_hand < A.cap_hand) { A.hand[A.n_hand].c = c; A.hand[A.n_hand].r = tick(); A.hand_kind[A.n_hand] = (uint8_t)k; A.n_hand++; }
}

/* ---- EIA-608 traffic generator (independent of the library) ---- */

static uint8_t odd(int c)
{
	int n = 0, i;
	c &= 0x7f;
	for (i = 0; i < 7; i++) n += (c >> i) & 1;
	return (uint8_t)((n & 1) ? c : (c | 0x80));
}

struct fifo { uint8_t b[512][2]; int rd, wr; };
static struct fifo ff[2];              /* field 1, field 2 (thread A only) */

static int ff_len(struct fifo *f) { return f->wr - f->rd; }
static void ff_put(struct fifo *f, int a, int b)
{
	if (f->wr >= 512) return;
	f->b[f->wr][0] = odd(a); f->b[f->wr][1] = odd(b); f->wr++;
}
static void ff_ctl(int field, int a, int b, struct vf_rng *r)
{
	ff_put(&ff[field], a, b);
	if (field == 0 && !vf_chance(r, 1, 12)) ff_put(&ff[field], a, b);   /* field 1: control codes twice */
}
static unsigned g_word;                /* makes consecutive texts differ */
static void ff_text(int field, struct vf_rng *r, int nwords)
{
	static const char *const w[] = { "the", "quick", "brown", "fox", "jumps", "over", "lazy", "dog", "ZVBI", "caption", "a", "I", "42", "news", "weather" };
	char buf[160];
	int o = 0, i;
	for (i = 0; i < nwords && o < 120; i++)
		o += snprintf(buf + o, sizeof buf - (size_t)o, "%s%u ", w[vf_below(r, 15)], g_word++ % 1000);
	if (o & 1) buf[o++] = ' ';
	for (i = 0; i + 1 < o; i += 2) ff_put(&ff[field], buf[i], buf[i + 1]);
}
static void ff_pac(int field, int ch, struct vf_rng *r)
{
	static const uint8_t rowcode[15][2] = { {1,0x40},{1,0x60},{2,0x40},{2,0x60},{5,0x40},{5,0x60},{6,0x40},{6,0x60},{7,0x40},{7,0x60},{0,0x40},{3,0x40},{3,0x60},{4,0x40},{4,0x60} };
	int row = vf_chance(r, 1, 2) ? 14 - (int)vf_below(r, 4) : (int)vf_below(r, 15);
	int attr = (int)vf_below(r, 32);
	ff_ctl(field, 0x10 | rowcode[row][0] | (ch << 3), rowcode[row][1] | attr, r);
}
static void ff_misc(int field, int ch, int code, struct vf_rng *r) { ff_ctl(field, 0x14 | (ch << 3), 0x20 | code, r); }

static void xds_packet(int cls, int type, const uint8_t *d, int len)
{
	unsigned sum = (unsigned)(cls + type);
	int i;
	ff_put(&ff[1], cls, type);
	for (i = 0; i < len; i += 2) {
		int a = d[i], b = i + 1 < len ? d[i + 1] : 0;
		ff_put(&ff[1], a, b);
		sum += (unsigned)(a + b);
	}
	sum += 0x0F;
	ff_put(&ff[1], 0x0F, (int)((128 - (sum & 0x7f)) & 0x7f));
}

static int g_net;                      /* current XDS network name index */
static void gen_action(struct vf_rng *r)
{
	int field = (int)vf_below(r, 2), ch = (int)vf_below(r, 2);
	switch (vf_below(r, 16)) {
	case 0: case 1: case 2:                       /* roll-up */
		ff_misc(field, ch, 5 + (int)vf_below(r, 3), r);
		if (vf_chance(r, 1, 2)) ff_pac(field, ch, r);
		ff_misc(field, ch, 13, r);
		ff_text(field, r, vf_range(r, 1, 5));
		if (vf_chance(r, 1, 2)) { ff_misc(field, ch, 13, r); ff_text(field, r, vf_range(r, 1, 4)); }
		break;
	case 3: case 4: case 5:                       /* pop-on */
		ff_misc(field, ch, 0, r);
		if (vf_chance(r, 1, 3)) ff_misc(field, ch, 14, r);
		ff_pac(field, ch, r);
		ff_text(field, r, vf_range(r, 1, 4));
		if (vf_chance(r, 1, 2)) { ff_pac(field, ch, r); ff_text(field, r, vf_range(r, 1, 3)); }
		if (vf_chance(r, 1, 3)) ff_misc(field, ch, 12, r);
		ff_misc(field, ch, 15, r);
		break;
	case 6: case 7:                               /* paint-on */
		ff_misc(field, ch, 9, r);
		ff_pac(field, ch, r);
		ff_text(field, r, vf_range(r, 1, 4));
		if (vf_chance(r, 1, 3)) ff_misc(field, ch, 4, r);
		break;
	case 8: case 9:                               /* text mode */
		ff_misc(field, ch, vf_chance(r, 1, 3) ? 10 : 11, r);
		ff_text(field, r, vf_range(r, 2, 8));
		ff_misc(field, ch, 13, r);
		break;
	case 10:                                      /* erase / misc */
		ff_misc(field, ch, vf_chance(r, 1, 2) ? 12 : 14, r);
		break;
	case 11:                                      /* attributes, tabs, specials, backspace */
		ff_ctl(field, 0x11 | (ch << 3), 0x20 | (int)vf_below(r, 16), r);
		ff_text(field, r, 1);
		ff_ctl(field, 0x11 | (ch << 3), 0x30 | (int)vf_below(r, 16), r);
		ff_ctl(field, 0x17 | (ch << 3), 0x21 + (int)vf_below(r, 3), r);
		ff_misc(field, ch, 1, r);
		ff_ctl(field, 0x10 | (ch << 3), 0x20 | (int)vf_below(r, 16), r);
		ff_text(field, r, 1);
		break;
	case 12: {                                    /* XDS: program name, aspect */
		uint8_t d[32];
		int n = snprintf((char *)d, sizeof d, "PROGRAM %u", vf_below(r, 4));
		xds_packet(0x01, 0x03, d, n);
		if (vf_chance(r, 1, 2)) xds_packet(0x01, 0x03, d, n);
		d[0] = (uint8_t)(0x40 | vf_below(r, 8)); d[1] = (uint8_t)(0x40 | vf_below(r, 8)); d[2] = (uint8_t)(0x40 | vf_below(r, 2));
		xds_packet(0x01, 0x09, d, vf_chance(r, 1, 2) ? 3 : 2);
		break;
	}
	case 13: {                                    /* XDS: network name twice; a change resets the decoder */
		uint8_t d[32];
		int n;
		if (vf_chance(r, 1, 3)) g_net = (int)vf_below(r, 3);
		n = snprintf((char *)d, sizeof d, "NET%d", g_net);
		xds_packet(0x05, 0x01, d, n);
		xds_packet(0x05, 0x01, d, n);
		break;
	}
	case 14:                                      /* noise: parity errors, stray bytes */
		{
			/* never '<' as the SECOND character of a field 1 pair: on T2 it ends an ITV
			 * trigger string, for which the library frees the caption mutex between
			 * the two characters of the pair without sending an event - a state
			 * thread A cannot snapshot (see design note, limits) */
			int a1 = 0x20 + (int)vf_below(r, 0x5f), b1 = 0x20 + (int)vf_below(r, 0x5f);
			int a2 = (int)vf_below(r, 0x80), b2 = (int)vf_below(r, 0x80);
			if (field == 0 && b1 == '<') b1 = '=';
			if (field == 0 && b2 == '<') b2 = '=';
			ff_put(&ff[field], a1, b1);
			if (ff[field].wr > ff[field].rd) ff[field].b[ff[field].wr - 1][vf_below(r, 2)] ^= 0x80;
			ff_put(&ff[field], a2, b2);
		}
		break;
	case 15:
		if (vf_chance(r, 1, 2)) {                 /* ITV trigger on T2 (field 1, channel 2 text): TRIGGER event */
			char buf[80];
			int i, n = snprintf(buf, sizeof buf, "<http://verif.example/%u>[n:t%u]", vf_below(r, 5), g_word++ % 100);
			ff_misc(0, 1, 10, r);             /* text restart, channel 2 */
			for (i = 0; i < n; i += 2) ff_put(&ff[0], buf[i], i + 1 < n ? buf[i + 1] : 0);
			ff_misc(0, 1, 13, r);             /* carriage return ends the trigger string */
			break;
		}
		/* fall through */
	default:                                      /* silence */
		ff_put(&ff[field], 0, 0);
		if (vf_chance(r, 1, 2)) ff_put(&ff[field], 0, 0);
		break;
	}
}

/* ---- Teletext / VPS lines.  The Teletext stream keeps the decoder's other
 * paths busy and drives every branch of the header comparison in store_lop()
 * (src/packet.c), which reads and clears the channel-switch countdown under
 * chswcd_mutex: same header (countdown cleared), header of another network in
 * the same magazine (reset), header of another magazine / damaged header
 * (inconclusive: page dropped while the countdown runs). ---- */

static void ttx_addr(vbi_sliced *s, int mag, int packet, struct vf_rng *r)
{
	memset(s, 0, sizeof *s);
	s->id = VBI_SLICED_TELETEXT_B;
	s->line = 7 + (unsigned)vf_below(r, 10);
	s->data[0] = vbi_ham8((unsigned)((mag & 7) | ((packet & 1) << 3)));
	s->data[1] = vbi_ham8((unsigned)(packet >> 1));
}

static void ttx_body(vbi_sliced *s, int mag, struct vf_rng *r)
{
	int i;
	ttx_addr(s, mag, 1 + (int)vf_below(r, 24), r);
	for (i = 2; i < 42; i++) s->data[i] = vbi_par8(0x20 + vf_below(r, 0x5f));
	T.body_packets++;
}

/* a page header: ends the page open in its magazine (parallel mode) or the
 * page sent last (serial mode) */
static void ttx_header(vbi_sliced *s, int mag, struct vf_rng *r, long frame)
{
	static const char *const day[7] = { "Mon", "Tue", "Wed", "Thu", "Fri", "Sat", "Sun" };
	char txt[48];
	const char *name;
	int page, c4 = 0, c6 = 0, c7 = 0, c11 = 0, i, fl = 0, pgno;
	long sod = T.clock0 + frame / 30, dayno = sod / 86400;

	/* page number: mostly the few BCD pages with rolling headers */
	switch (vf_below(r, 24)) {
	case 0: page = 0x0A + (int)vf_below(r, 6); T.hdr_hex++; break;      /* hex page: no rolling header */
	case 1: page = 0xFF; T.hdr_filler++; break;                         /* time filling header */
	default: page = (int)vf_below(r, mag == 1 ? 4 : 2); break;
	}
	if (vf_chance(r, 1, 10)) { c11 = 1; T.hdr_serial++; }
	if (vf_chance(r, 1, 12)) c4 = 1;
	if (vf_chance(r, 1, 24)) { if (vf_chance(r, 1, 2)) c6 = 1; else c7 = 1; T.hdr_flagged++; }
	pgno = mag * 256 + page;

	ttx_addr(s, mag, 0, r);
	s->data[2] = vbi_ham8((unsigned)(page & 15));
	s->data[3] = vbi_ham8((unsigned)(page >> 4));
	s->data[4] = vbi_ham8(0);
	s->data[5] = vbi_ham8(c4 ? 8u : 0u);
	s->data[6] = vbi_ham8(0);
	s->data[7] = vbi_ham8(c6 ? 8u : 0u);
	s->data[8] = vbi_ham8(c7 ? 1u : 0u);
	s->data[9] = vbi_ham8(c11 ? 1u : 0u);

	/* 24 characters the library compares (name, page number, date), 8 characters clock */
	name = mag == 2 && T.mag2_own ? (T.net ? "OTHER-M2" : "VERIF-M2") : (T.net ? "OTHERTV " : "VERIFTXT");
	snprintf(txt, sizeof txt, "%-8.8s %d%02X %s %02ld Jan %02ld:%02ld:%02ld", name, mag, (unsigned)page,
		 day[dayno % 7], 1 + dayno % 28, (sod / 3600) % 24, (sod / 60) % 60, sod % 60);
	for (i = 0; i < 32; i++) s->data[10 + i] = vbi_par8((unsigned)(txt[i] ? txt[i] : ' '));

	if (page <= 0x99 && (page & 15) <= 9 && !c6 && !c7 && (pgno <= 0x199 || c11)) fl |= HDR_ELIGIBLE;
	if (mag == 2) T.hdr_mag2++;
	if (vf_chance(r, 1, (unsigned)T.dmg_den)) {
		switch (vf_below(r, 8)) {
		case 0: case 1: case 2:                        /* parity error in the compared text */
			s->data[10 + vf_below(r, 24)] ^= 0x80; fl |= HDR_DAMAGED; T.hdr_parity++; break;
		case 3: case 4:                                /* the page number is not in the header text */
			s->data[10 + 9] = vbi_par8('8'); s->data[10 + 10] = vbi_par8('8'); s->data[10 + 11] = vbi_par8('8');
			fl |= HDR_DAMAGED; T.hdr_nopgno++; break;
		case 5: case 6:                                /* parity error in the clock */
			s->data[10 + 24 + vf_below(r, 8)] ^= 0x80; T.hdr_clock_parity++; break;
		default:                                       /* Hamming error in the page address */
			s->data[2 + vf_below(r, 2)] ^= 0x11; fl = 0; page = -1; T.hdr_hamming++; break;
		}
	}
	T.headers++;
	/* harness-side book-keeping (parallel mode view): the page open in this magazine ends now */
	if (T.open[mag] >= 0 && page >= 0 && T.open[mag] != page && (T.open_flags[mag] & HDR_ELIGIBLE)
	    && T.last_gap >= 0 && T.open_frame[mag] > T.last_gap && frame <= T.last_gap + 40) {
		T.ended_in_window++;
		if (T.open_flags[mag] & HDR_DAMAGED) T.ended_in_window_damaged++;
		if (mag == 2 && T.mag2_own) T.ended_in_window_othermag++;
	}
	if (page >= 0) {
		T.open[mag] = page == 0xFF ? -1 : page;
		T.open_frame[mag] = frame;
		T.open_flags[mag] = fl;
		if (page != 0xFF) T.sent[pgno] = (uint8_t)(fl | HDR_SENT);
	} else {
		T.open[1] = T.open[2] = -1;              /* Hamming error in a header: the library drops all open pages */
	}
}

static int ttx_lines(vbi_sliced *sl, int max, struct vf_rng *r, long frame)
{
	int n = 0, k = 1 + (int)vf_below(r, 3);
	while (k-- > 0 && n < max) {
		int mag = vf_chance(r, 1, 4) ? 2 : 1;
		if (T.open[mag] < 0 || vf_chance(r, 2, 5)) {
			if (vf_chance(r, 1, 60)) { T.net ^= 1; T.net_changes++; }   /* the header text of another network */
			ttx_header(&sl[n++], mag, r, frame);
		} else
			ttx_body(&sl[n++], mag, r);
	}
	return n;
}

static int g_cni;
static void vps_line(vbi_sliced *s)
{
	static const unsigned cnis[3] = { 0x0DC1, 0x0DC2, 0x0AC1 };
	memset(s, 0, sizeof *s);
	s->id = VBI_SLICED_VPS;
	s->line = 16;
	vbi_encode_vps_cni(s->data, cnis[g_cni % 3]);
}

/* the per-run profile of the Teletext stream and of the time stamps */
static void ttx_profile(struct vf_rng *r)
{
	static const struct { int gap, ttx, dmg; } prof[4] = {
		{ 400, 5, 6 },     /* as a good reception: rare gaps, few pages */
		{ 90, 2, 4 },      /* dropped frames every three seconds, busy Teletext */
		{ 35, 2, 3 },      /* the countdown runs most of the time */
		{ 150, 3, 12 },
	};
	int k = vf_param[6] >= 1 && vf_param[6] <= 4 ? (int)vf_param[6] - 1 : (int)vf_below(r, 4);
	memset(&T, 0, sizeof T);
	T.gap_den = prof[k].gap; T.ttx_den = prof[k].ttx; T.dmg_den = prof[k].dmg;
	T.mag2_own = (int)vf_below(r, 2);
	T.clock0 = vf_chance(r, 1, 3) ? 86400 - (long)vf_range(r, 5, 60) : (long)vf_below(r, 86400);   /* one run in three crosses midnight */
	T.open[1] = T.open[2] = -1;
	T.last_gap = -1;
}

static void *a_decoder_thread(void *arg)
{
	struct vf_rng *r = &A.rng_a;
	double t = 1000.0, tmax = 0;
	long f;
	(void)arg;
	set_tid(0);
	wait_go();
	for (f = 0; f < A.frames; f++) {
		vbi_sliced sl[8];
		int n = 0, field;
		A.a_frame_now = f;
		if (ff_len(&ff[0]) == 0 && ff_len(&ff[1]) == 0) {
			ff[0].rd = ff[0].wr = ff[1].rd = ff[1].wr = 0;
			gen_action(r);
			if (vf_chance(r, 1, 2)) gen_action(r);
		}
		/* at most one caption line per call, and it is the LAST line of the call:
		 * a Teletext header of another network (or a VPS line) behind it could
		 * reset the caption pages inside the same vbi_decode() call, after the
		 * caption mutex was free for a moment, and thread A would never see
		 * the state in between (it can look only in handlers and after the call) */
		if (vf_chance(r, 1, (unsigned)T.ttx_den))
			n += ttx_lines(sl, 3, r, f);
		if (vf_chance(r, 1, 10)) {
			if (vf_chance(r, 1, 30)) g_cni++;
			vps_line(&sl[n++]);
		}
		field = ff_len(&ff[0]) ? (ff_len(&ff[1]) && vf_chance(r, 1, 2) ? 1 : 0) : (ff_len(&ff[1]) ? 1 : -1);
		if (field >= 0) {
			vbi_sliced *s = &sl[n++];
			memset(s, 0, sizeof *s);
			s->id = field ? VBI_SLICED_CAPTION_525_F2 : VBI_SLICED_CAPTION_525_F1;
			s->line = field ? 284 : 21;
			s->data[0] = ff[field].b[ff[field].rd][0];
			s->data[1] = ff[field].b[ff[field].rd][1];
			A.capt[f].f = (uint8_t)(field + 1); A.capt[f].b[0] = s->data[0]; A.capt[f].b[1] = s->data[1];
			ff[field].rd++;
		}
		/* time: 1/30 s per frame; now and then a gap (dropped frames), a
		 * repeated or a backward time stamp: each starts the 40 frame
		 * channel-switch countdown and discards the pages in reception */
		if (f > 0 && vf_chance(r, 1, (unsigned)T.gap_den)) {
			int kind = (int)vf_below(r, 4);
			static const double step[4] = { 0.5, 2 / 29.97 + 0.012, 0.0, -0.1 };
			t += step[kind];
			T.gap_kind[kind]++;
		} else
			t += 1 / 29.97;
		/* the documented rule: "timestamp shall advance by 1/30 to 1/25 seconds
		 * ... Failure to do so will be interpreted as frame dropping" */
		if (f > 0 && (t - tmax < 0.025 || t - tmax > 0.050)) {
			T.gaps++;
			T.last_gap = f;
			T.open[1] = T.open[2] = -1;
			__atomic_store_n(&g_a_gap_frame, f, __ATOMIC_RELAXED);
			A.is_gap[f] = 1;
			if (__atomic_load_n(&g_amb_armed, __ATOMIC_RELAXED)) {
				int spin;
				__atomic_store_n(&g_amb_gapf, f, __ATOMIC_RELAXED);
				for (spin = 0; spin < 4000 && __atomic_load_n(&g_amb_ready, __ATOMIC_RELAXED) != f; spin++)
					sched_yield();
				__atomic_store_n(&g_amb_go, f, __ATOMIC_RELAXED);
			}
		}
		if (t > tmax) tmax = t;

		progress(0, "vbi_decode");
		A.dec[A.n_dec].c = tick();
		vbi_decode(A.vbi, sl, n, t);
		A.dec[A.n_dec].r = tick();
		{
			int cd = c20_chswcd(A.vbi);
			A.cd[A.n_dec] = (int8_t)(cd < 0 ? -1 : cd > 100 ? 100 : cd);
			A.cd_tick[A.n_dec] = tick();
		}
		A.n_dec++;
		progress(0, "vbi_fetch_cc_page(A)");
		a_snapshot(0);
		__atomic_store_n(&g_a_frame, f + 1, __ATOMIC_RELAXED);
		if (vf_chance(r, 1, 6)) sched_yield();
	}
	__atomic_store_n(&g_a_done, 1, __ATOMIC_RELAXED);
	progress(0, "done");
	return NULL;
}

static void *a_fetch_thread(void *arg)
{
	int me = (int)(long)arg;               /* 0 = B, 1 = C */
	struct vf_rng *r = &A.rng_f[me];
	vbi_page *pg = &A.pg_f[me];
	set_tid(1 + me);
	wait_go();
	while (!a_done() && A.n_fr[me] < A.cap_fr) {
		struct fetch_rec *fr;
		int pgno;
		if (A.n_fr[me] > 3 * a_frame() + 8) { usleep(50); continue; }   /* do not run ahead of A */
		fr = &A.fr[me][A.n_fr[me]];
		pgno = vf_chance(r, 1, 50) ? (vf_chance(r, 1, 2) ? 0 : 9) : 1 + (int)vf_below(r, 8);
		progress(1 + me, "vbi_fetch_cc_page");
		fr->pgno = pgno;
		fr->c = tick();
		fr->ret = vbi_fetch_cc_page(A.vbi, pg, pgno, vf_chance(r, 1, 2));
		fr->r = tick();
		if (fr->ret) page_sum(pg, &fr->s);
		A.n_fr[me]++;
		progress(1 + me, "pace");
		pace(r);
	}
	progress(1 + me, "done");
	return NULL;
}

static void *a_switch_thread(void *arg)
{
	struct vf_rng *r = &A.rng_d;
	int dense = vf_chance(r, 1, 3);         /* one run in three: a request every few frames */
	long next = vf_range(r, 10, 120), seen_gap = -1;
	(void)arg;
	set_tid(3);
	wait_go();
	while (!a_done() && A.n_sw < A.cap_sw) {
		long gap = __atomic_load_n(&g_a_gap_frame, __ATOMIC_RELAXED);
		if (gap != seen_gap) {
			/* A reported a time stamp gap: the countdown runs for the next 40
			 * frames; every other time aim a request into it */
			seen_gap = gap;
			if (vf_chance(r, 1, 2)) { long n2 = gap + vf_range(r, 0, 38); if (n2 < next) next = n2; }
		}
		if (a_frame() < next) { usleep(100 + vf_below(r, 200)); continue; }
		if (vf_chance(r, 1, 3)) {
			/* ambush the next frame with a time stamp gap (give up after 80 frames without one) */
			long seen = __atomic_load_n(&g_amb_gapf, __ATOMIC_RELAXED), f = -1, give_up = a_frame() + 80;
			volatile unsigned int k, nk = (unsigned int)vf_below(r, vf_chance(r, 1, 2) ? 300 : 3000);
			__atomic_store_n(&g_amb_armed, 1, __ATOMIC_RELAXED);
			while (!a_done() && a_frame() < give_up) {
				f = __atomic_load_n(&g_amb_gapf, __ATOMIC_RELAXED);
				if (f != seen) break;
				usleep(40);
			}
			if (f != seen && f >= 0) {
				int spin;
				__atomic_store_n(&g_amb_ready, f, __ATOMIC_RELAXED);
				for (spin = 0; spin < 2000000 && __atomic_load_n(&g_amb_go, __ATOMIC_RELAXED) != f; spin++) ;
				for (k = 0; k < nk; k++) ;
				A.sw_amb[A.n_sw] = 1;
			}
			__atomic_store_n(&g_amb_armed, 0, __ATOMIC_RELAXED);
		} else
			usleep(vf_below(r, 300));       /* land anywhere inside a frame */
		progress(3, "vbi_channel_switched");
		A.sw[A.n_sw].c = tick();
		vbi_channel_switched(A.vbi, 0);
		A.sw[A.n_sw].r = tick();
		A.n_sw++;
		progress(3, "pace");
		next = a_frame() + (vf_chance(r, 1, 5) ? vf_range(r, 1, 4) : dense ? vf_range(r, 3, 40) : vf_range(r, 20, 250));
	}
	progress(3, "done");
	return NULL;
}

/* ---- stall watchdog (main thread) ---- */

static void dump_gdb(void)
{
	char cmd[256];
	snprintf(cmd, sizeof cmd, "gdb -batch -p %d -ex 'thread apply all bt 12' > c20-stall-%ld.gdb 2>&1", (int)getpid(), vf_case);
	if (system(cmd) != 0) { /* best effort */ }
}

/* kernel state letter and CPU seconds (user + system) of one thread */
static char task_state(int tid, double *cpu)
{
	char path[64], buf[512], *q, st = '?';
	FILE *fp;
	unsigned long ut = 0, stt = 0;
	*cpu = 0;
	if (tid <= 0) return st;
	snprintf(path, sizeof path, "/proc/self/task/%d/stat", tid);
	fp = fopen(path, "r");
	if (!fp) return st;
	if (fgets(buf, sizeof buf, fp) && (q = strrchr(buf, ')')) && q[1] == ' ') {
		st = q[2];
		/* fields after the state: ppid pgrp session tty tpgid flags minflt cminflt majflt cmajflt utime stime */
		sscanf(q + 3, "%*d %*d %*d %*d %*d %*u %*u %*u %*u %*u %lu %lu", &ut, &stt);
		*cpu = (double)(ut + stt) / (double)sysconf(_SC_CLK_TCK);
	}
	fclose(fp);
	return st;
}

/* Bounded progress.  The watchdog is a thread of its own that runs from the
 * first to the last library call of the case (set-up and tear-down by the main
 * thread included): it writes "stall:C20" and exits 98 when a thread stays
 * inside one API call for stall_s seconds, or nobody makes progress for three
 * times as long.  A thread the kernel shows as runnable (state R) that got
 * no CPU is starved by the machine, not blocked: it gets three times the budget. */
static pthread_t g_wd_thread;
static int g_wd_running, g_wd_stop;
static const char *g_wd_scenario;
static pthread_mutex_t g_rep_mx = PTHREAD_MUTEX_INITIALIZER;   /* orders the (rare) reports of main's set-up and of the watchdog */
#define SETUP_FAIL(...) do { pthread_mutex_lock(&g_rep_mx); vf_fail(__VA_ARGS__); pthread_mutex_unlock(&g_rep_mx); } while (0)

static void *watchdog_thread(void *arg)
{
	long last[NTHREADS] = {0}, stall_s = vf_param[2] > 0 ? vf_param[2] : 40;
	struct timespec t_last[NTHREADS], t_any, now;
	double cpu_half[NTHREADS] = {0};
	int half_taken[NTHREADS] = {0};
	const int n = NTHREADS;
	int i;
	(void)arg;
	clock_gettime(CLOCK_MONOTONIC, &t_any);
	for (i = 0; i < NTHREADS; i++) t_last[i] = t_any;
	while (!__atomic_load_n(&g_wd_stop, __ATOMIC_RELAXED)) {
		int stuck = -1;
		clock_gettime(CLOCK_MONOTONIC, &now);
		for (i = 0; i < n; i++) {
			long p = __atomic_load_n(&g_progress[i], __ATOMIC_RELAXED);
			const char *ph = __atomic_load_n(&g_phase[i], __ATOMIC_RELAXED);
			int in_call = ph && strcmp(ph, "done") && strcmp(ph, "pace");
			long idle;
			if (p != last[i]) { last[i] = p; t_last[i] = now; t_any = now; half_taken[i] = 0; }
			idle = (long)(now.tv_sec - t_last[i].tv_sec);
			if (in_call && idle >= stall_s / 2 && !half_taken[i]) { task_state(__atomic_load_n(&g_tid[i], __ATOMIC_RELAXED), &cpu_half[i]); half_taken[i] = 1; }
			if (in_call && idle >= stall_s) {
				double cpu;
				char st = task_state(__atomic_load_n(&g_tid[i], __ATOMIC_RELAXED), &cpu);
				if (st == 'R' && cpu - cpu_half[i] < 0.05 && idle < 3 * stall_s) continue;   /* starved, not blocked */
				if (stuck < 0) stuck = i;
			}
		}
		if (stuck < 0 && now.tv_sec - t_any.tv_sec >= 3 * stall_s) stuck = n;   /* nobody moves, nobody is inside a call */
		if (stuck >= 0) {
			char ph[600];
			int o = 0, spinning = 0;
			for (i = 0; i < n; i++) {
				const char *p = __atomic_load_n(&g_phase[i], __ATOMIC_RELAXED);
				double cpu;
				char st = task_state(__atomic_load_n(&g_tid[i], __ATOMIC_RELAXED), &cpu);
				long idle = (long)(now.tv_sec - t_last[i].tv_sec);
				int in_call = p && strcmp(p, "done") && strcmp(p, "pace");
				double used = half_taken[i] ? cpu - cpu_half[i] : 0;
				/* the threads that did not return; the others are reported as "busy" / "pace" / "done" */
				o += snprintf(ph + o, sizeof ph - (size_t)o, "%s%c=%s", i ? "," : "", "ABCDM"[i],
					      !p ? "?" : in_call && idle < stall_s / 2 ? "busy" : p);
				if (in_call && idle >= stall_s / 2) {
					if (used > 0.4 * (double)(stall_s - stall_s / 2)) spinning = 1;
					o += snprintf(ph + o, sizeof ph - (size_t)o, "[%c,%lds,cpu%.2f]", st, idle, used);
				}
			}
			if (vf_param[3]) dump_gdb();
			pthread_mutex_lock(&g_rep_mx);
			vf_fail("stall:C20", "scenario %s: %s; kind %s ; phases %s ; progress A=%ld B=%ld C=%ld D=%ld M=%ld",
				g_wd_scenario, stuck < n ? "an API call did not return" : "no thread made progress",
				spinning ? "spinning" : "blocked", ph, last[0], last[1], last[2], last[3], last[4]);
			_exit(98);
		}
		usleep(5000);
	}
	return NULL;
}

static void watchdog_start(const char *scenario)
{
	g_wd_scenario = scenario;
	g_wd_stop = 0;
	memset(g_progress, 0, sizeof g_progress);
	memset((void *)g_phase, 0, sizeof g_phase);
	memset(g_tid, 0, sizeof g_tid);
	set_tid(TM);
	progress(TM, "pace");
	if (pthread_create(&g_wd_thread, NULL, watchdog_thread, NULL) != 0) { fprintf(stderr, "c20: cannot start the watchdog\n"); exit(2); }
	g_wd_running = 1;
}

static void watchdog_stop(void)
{
	if (!g_wd_running) return;
	__atomic_store_n(&g_wd_stop, 1, __ATOMIC_RELAXED);
	pthread_join(g_wd_thread, NULL);
	g_wd_running = 0;
}

/* ---- post-run analysis (main thread, after join) ---- */

static const struct pgsum *state_at(int p, long snap)
{
	/* last change with .snap <= snap */
	long lo = 0, hi = A.n_chg[p] - 1, best = 0;
	while (lo <= hi) {
		long m = (lo + hi) / 2;
		if (A.chg[p][m].snap <= snap) { best = m; lo = m + 1; } else hi = m - 1;
	}
	return &A.chg[p][best].s;
}

static const char *row_diff(const struct pgsum *a, const struct pgsum *b)
{
	static char buf[4][64];
	static int k;
	char *o = buf[k = (k + 1) & 3];
	int r;
	for (r = 0; r < ROWS; r++) o[r] = a->row[r] == b->row[r] ? '=' : 'x';
	o[ROWS] = '/';
	o[ROWS + 1] = a->head == b->head ? '=' : 'H';      /* fields before text[] */
	o[ROWS + 2] = a->tail == b->tail ? '=' : 'T';      /* text[] behind the 15 rows */
	o[ROWS + 3] = a->misc == b->misc ? '=' : 'M';      /* screen colour/opacity, colour map ... */
	o[ROWS + 4] = 0;
	return o;
}

/* the rows of s that differ from ref, as text, into buf */
static const char *rows_text(const struct pgsum *s, const struct pgsum *ref)
{
	static char buf[4][400];
	static int k;
	char *b = buf[k = (k + 1) & 3];
	int r, o = 0;
	b[0] = 0;
	for (r = 0; r < ROWS && o < 300; r++)
		if (s->row[r] != ref->row[r])
			o += snprintf(b + o, 400 - (size_t)o, "[%d]'%.*s' ", r, COLS, s->txt + r * COLS);
	return b;
}

static long which_span(unsigned long t, const struct span *v, long n)
{
	/* index of the span [c,r] tick t is inside, -1 if none; spans are ordered */
	long lo = 0, hi = n - 1;
	while (lo <= hi) {
		long m = (lo + hi) / 2;
		if (v[m].r < t) lo = m + 1; else if (v[m].c > t) hi = m - 1; else return m;
	}
	return -1;
}
static int where_is(unsigned long t, const struct span *v, long n) { return which_span(t, v, n) >= 0; }

/* A channel switch request is not lost.  vbi_channel_switched() sets the countdown to 1 ("reset with the next
 * frame"); the decoding thread's accesses are: the time-stamp-gap branch (starts 40 unless a countdown runs), the
 * decrement at the top of vbi_decode() (reset at 0), store_lop() (clears it on a matching header) and
 * vbi_chsw_reset() (clears it).  Whatever the interleaving of the request with ONE vbi_decode() call, in every
 * sequential order of these atomic steps the countdown is 0 after the first vbi_decode() call that STARTED after the
 * request returned, provided that frame has no time stamp gap of its own and no other request came in between:
 * the request was executed in the overlapped call or in this one, or cancelled by a matching header.  A countdown
 * still running there is a request that was overwritten (check-then-act on the countdown in two critical sections:
 * no data race, ThreadSanitizer is silent). */
static void analyse_switch_requests(void)
{
	long i, k = 0, judged = 0, in_gap_dec = 0, amb = 0, skipped = 0;
	for (i = 0; i < A.n_sw; i++) {
		long j;
		if (A.sw_amb && A.sw_amb[i]) amb++;
		while (k < A.n_dec && A.dec[k].c <= A.sw[i].r) k++;
		/* did it land inside the decode call of a gap frame? */
		for (j = k - 1; j >= 0 && j >= k - 2; j--)
			if (A.is_gap[j] && A.dec[j].c < A.sw[i].r && A.dec[j].r > A.sw[i].c) { in_gap_dec++; break; }
		if (k >= A.n_dec) break;
		if (A.is_gap[k]) { skipped++; continue; }
		if (i + 1 < A.n_sw && A.sw[i + 1].c <= A.cd_tick[k]) { skipped++; continue; }
		judged++;
		if (A.cd[k] != 0) {
			long g = k - 1;
			while (g >= 0 && g > k - 3 && !A.is_gap[g]) g--;
			REPORT("model:C20:switch-request-lost",
			       "vbi_channel_switched() request #%ld (tick window [%lu,%lu]%s) returned before vbi_decode() of frame %ld began (tick %lu); after that call the channel switch countdown is %d instead of 0: "
			       "the request was neither executed nor cancelled by a matching header, a countdown started by %s runs instead (no other request until tick %lu, frame %ld has no time stamp gap)",
			       i, A.sw[i].c, A.sw[i].r, A.sw_amb && A.sw_amb[i] ? ", aimed at the start of a frame with a time stamp gap" : "", k, A.dec[k].c, A.cd[k],
			       g >= 0 && A.is_gap[g] ? "the time stamp gap of the frame the request landed in" : "an earlier time stamp gap", A.cd_tick[k], k);
		}
	}
	COUNT("a_switch_requests_judged_not_lost", judged);
	COUNT("a_switch_requests_not_judged_gap_or_second_request", skipped);
	COUNT("a_switch_requests_inside_decode_of_gap_frame", in_gap_dec);
	COUNT("a_switch_requests_aimed_at_gap_frame", amb);
}

static int analyse_a(void)
{
	long overlap_fetch = 0, fetch_total = 0, fetch_in_handler_gap = 0, multi_cand = 0, got_new = 0, got_old = 0, blank_rule = 0;
	long sw_in_dec = 0, i;
	int me, nontrivial = 0;

	for (me = 0; me < 2; me++) {
		for (i = 0; i < A.n_fr[me]; i++) {
			struct fetch_rec *fr = &A.fr[me][i];
			long lo, hi, jlo, jhi, j, hand_idx;
			int p = fr->pgno - 1, ok = 0, ncand = 0, match = 0, in_dec, in_hand;
			const struct pgsum *first = NULL, *last = NULL;
			if (fr->pgno < 1 || fr->pgno > 8) {
				if (fr->ret)
					REPORT("model:C20:fetch-bad-pgno", "vbi_fetch_cc_page(pgno=%d) returned %d", fr->pgno, fr->ret);
				continue;
			}
			fetch_total++;
			if (!fr->ret) { REPORT("model:C20:fetch-failed", "vbi_fetch_cc_page(pgno=%d) returned FALSE", fr->pgno); continue; }
			/* jlo: last snapshot with t0 <= c (snapshot 0 precedes all threads) */
			lo = 0; hi = A.n_snaps - 1; jlo = 0;
			while (lo <= hi) { long m = (lo + hi) / 2; if (A.snaps[m].t0 <= fr->c) { jlo = m; lo = m + 1; } else hi = m - 1; }
			/* jhi: first snapshot with t1 >= r */
			lo = 0; hi = A.n_snaps - 1; jhi = A.n_snaps - 1;
			while (lo <= hi) { long m = (lo + hi) / 2; if (A.snaps[m].t1 >= fr->r) { jhi = m; hi = m - 1; } else lo = m + 1; }
			if (jhi < jlo) jhi = jlo;
			for (j = jlo; j <= jhi; j++) {
				const struct pgsum *s = state_at(p, j);
				if (s == last) continue;
				if (!first) first = s;
				last = s;
				ncand++;
				if (!ok && s->h == fr->s.h) { ok = 1; match = ncand; }
			}
			if (ok && ncand > 1) { if (match == 1) got_old++; else got_new++; }
			if (!ok && jhi > jlo && fr->s.h == A.blank[p].h) { ok = 1; blank_rule++; }
			if (ncand > 1) multi_cand++;
			in_dec = where_is(fr->c, A.dec, A.n_dec) || where_is(fr->r, A.dec, A.n_dec) || jhi > jlo;
			hand_idx = which_span(fr->r, A.hand, A.n_hand);
			in_hand = hand_idx >= 0;
			if (in_dec) overlap_fetch++;
			if (in_hand) fetch_in_handler_gap++;
			if (in_dec || in_hand)
				SIG("a:fetch thr=%c pg=%d site=%s cand=%d got=%s", "BC"[me], fr->pgno,
				       in_hand ? (A.hand_kind ? evk_gap[A.hand_kind[hand_idx]] : "event-gap") : "decode", ncand > 3 ? 3 : ncand,
				       !ok ? "none" : match == 0 ? "blank" : ncand <= 1 ? "only" : match == 1 ? "old" : "new");
			if (!ok) {
				const struct pgsum *s0 = state_at(p, jlo), *s1 = state_at(p, jhi);
				{
					/* witness: differing rows and the caption bytes A fed around that time */
					char cb[400]; int o = 0; long f;
					for (f = A.snaps[jlo].frame - 6; f <= A.snaps[jhi].frame && o < 380; f++)
						if (A.capt && f >= 0 && f < A.n_dec && A.capt[f].f)
							o += snprintf(cb + o, sizeof cb - (size_t)o, "%ld:F%d:%02x%02x ", f, A.capt[f].f, A.capt[f].b[0] & 0x7f, A.capt[f].b[1] & 0x7f);
					cb[o] = 0;
					REPORT("model:C20:torn-page",
						"thread %c fetch #%ld of page %d in tick window [%lu,%lu] matches none of A's %d distinct snapshots %ld..%ld (frames %ld..%ld) nor the blank page; "
						"rows(15)/head,tail,misc vs snapshot %ld: %s, vs snapshot %ld: %s, vs blank: %s; "
						"differing rows: fetched %s| snapshot %ld %s| snapshot %ld %s| caption bytes fed by frame (7 bit): %s",
						"BC"[me], i, fr->pgno, fr->c, fr->r, ncand, jlo, jhi, A.snaps[jlo].frame, A.snaps[jhi].frame,
						jlo, row_diff(&fr->s, s0), jhi, row_diff(&fr->s, s1), row_diff(&fr->s, &A.blank[p]),
						rows_text(&fr->s, s0), jlo, rows_text(s0, &fr->s), jhi, rows_text(s1, &fr->s), cb);
				}
			}
		}
	}
	/* lock hand-over orders: for every gap in which A does not hold the caption
	 * mutex for sure (between decode calls; inside a handler), the sequence
	 * of other threads' operations that returned inside it */
	{
		long k, fi[2] = {0, 0}, si = 0;
		for (k = 0; k < A.n_dec; k++) {
			/* operations returning inside decode call k (they were handed the mutex by A at an unlock point) */
			char seq[8];
			int o = 0;
			unsigned long c = A.dec[k].c, r = A.dec[k].r;
			for (;;) {
				/* next returning op among B, C, D with return tick < r */
				int who = -1;
				unsigned long best = r;
				for (me = 0; me < 2; me++) {
					while (fi[me] < A.n_fr[me] && A.fr[me][fi[me]].r < c) fi[me]++;
					if (fi[me] < A.n_fr[me] && A.fr[me][fi[me]].r < best) { best = A.fr[me][fi[me]].r; who = me; }
				}
				while (si < A.n_sw && A.sw[si].r < c) si++;
				if (si < A.n_sw && A.sw[si].r < best) { best = A.sw[si].r; who = 2; }
				if (who < 0) break;
				if (o < 6) seq[o++] = "BCD"[who];
				if (who == 2) { si++; sw_in_dec++; } else fi[who]++;
			}
			seq[o] = 0;
			if (o) { SIG("a:handover in-decode A>%s>A", seq); nontrivial = 1; }
		}
	}
	if (A.cd) analyse_switch_requests();
	COUNT("a_frames_decoded", A.n_dec);
	COUNT("a_snapshots", A.n_snaps);
	{
		int k;
		for (k = 0; k < NEVK; k++) {
			char nm[48];
			snprintf(nm, sizeof nm, "a_%s_events", evk_name[k]);
			COUNT(nm, A.ev_count[k]);
		}
	}
	COUNT("a_handler_calls_fetching", A.n_hand);
	/* Teletext: what was sent (harness side) and how the library's header comparison went (event side) */
	COUNT("a_ttx_headers_sent", T.headers);
	COUNT("a_ttx_body_packets_sent", T.body_packets);
	COUNT("a_ttx_headers_parity_error_in_text", T.hdr_parity);
	COUNT("a_ttx_headers_without_page_number", T.hdr_nopgno);
	COUNT("a_ttx_headers_parity_error_in_clock", T.hdr_clock_parity);
	COUNT("a_ttx_headers_hamming_error", T.hdr_hamming);
	COUNT("a_ttx_headers_magazine_2", T.hdr_mag2);
	COUNT("a_ttx_headers_serial_mode", T.hdr_serial);
	COUNT("a_ttx_headers_subtitle_or_suppressed", T.hdr_flagged);
	COUNT("a_ttx_headers_hex_page", T.hdr_hex);
	COUNT("a_ttx_headers_time_filling", T.hdr_filler);
	COUNT("a_ttx_header_text_network_changes", T.net_changes);
	COUNT("a_ttx_events_header_same", A.ttx_ev_same);
	COUNT("a_ttx_events_first_header_after_switch", A.ttx_ev_first);
	COUNT("a_ttx_events_header_inconclusive", A.ttx_ev_broken);
	COUNT("a_ttx_events_no_rolling_header", A.ttx_ev_noroll);
	COUNT("a_time_stamp_gaps", T.gaps);
	COUNT("a_time_stamp_gaps_half_second", T.gap_kind[0]);
	COUNT("a_time_stamp_gaps_one_dropped_frame", T.gap_kind[1]);
	COUNT("a_time_stamp_repeated", T.gap_kind[2]);
	COUNT("a_time_stamp_backward", T.gap_kind[3]);
	COUNT("a_ttx_rolling_pages_ended_within_40_frames_of_gap", T.ended_in_window);
	COUNT("a_ttx_rolling_pages_ended_within_40_frames_of_gap_damaged_header", T.ended_in_window_damaged);
	COUNT("a_ttx_rolling_pages_ended_within_40_frames_of_gap_other_magazine_header", T.ended_in_window_othermag);
	COUNT("a_fetches", fetch_total);
	COUNT("a_fetches_overlapping_decode", overlap_fetch);
	COUNT("a_fetches_returning_inside_event_handler_gap", fetch_in_handler_gap);
	COUNT("a_fetches_with_several_candidate_snapshots", multi_cand);
	COUNT("a_fetches_matching_earlier_of_several_snapshots", got_old);
	COUNT("a_fetches_matching_later_snapshot", got_new);
	COUNT("a_fetches_matching_blank_rule", blank_rule);
	COUNT("a_channel_switch_requests", A.n_sw);
	COUNT("a_channel_switch_requests_during_decode", sw_in_dec);
	{
		long ch = 0; int p;
		for (p = 0; p < 8; p++) ch += A.n_chg[p];
		COUNT("a_page_state_changes", ch);
	}
	if (A.handler_fetch_fail)
		REPORT("model:C20:fetch-failed", "thread A: vbi_fetch_cc_page returned FALSE %ld times", A.handler_fetch_fail);
	if (overlap_fetch) nontrivial = 1;
	return nontrivial;
}

static void *xcalloc(size_t n, size_t s)
{
	void *p = calloc(n ? n : 1, s);
	if (!p) { fprintf(stderr, "c20: out of memory\n"); exit(2); }
	return p;
}

static int run_a(struct vf_rng *r)
{
	pthread_t th[4];
	long frames = vf_param[0] > 0 ? vf_param[0] : 2000;
	int p, nt;

	memset(&A, 0, sizeof A);
	memset(ff, 0, sizeof ff);
	g_word = g_net = g_cni = 0;
	A.frames = frames;
	A.caption_only_handler = vf_param[5] == 1;
	vf_rng_seed(&A.rng_a, vf_u64(r), 1);
	vf_rng_seed(&A.rng_f[0], vf_u64(r), 2);
	vf_rng_seed(&A.rng_f[1], vf_u64(r), 3);
	vf_rng_seed(&A.rng_d, vf_u64(r), 4);
	ttx_profile(&A.rng_a);
	A.cap_snaps = frames * 8 + 64;
	A.snaps = xcalloc((size_t)A.cap_snaps, sizeof *A.snaps);
	for (p = 0; p < 8; p++) { A.cap_chg[p] = A.cap_snaps; A.chg[p] = xcalloc((size_t)A.cap_chg[p], sizeof **A.chg); }
	A.dec = xcalloc((size_t)frames, sizeof *A.dec);
	A.capt = xcalloc((size_t)frames, sizeof *A.capt);
	A.cap_hand = frames * 7 + 64;
	A.hand = xcalloc((size_t)A.cap_hand, sizeof *A.hand);
	A.hand_kind = xcalloc((size_t)A.cap_hand, 1);
	A.cap_fr = frames * 3 + 64;
	A.fr[0] = xcalloc((size_t)A.cap_fr, sizeof **A.fr);
	A.fr[1] = xcalloc((size_t)A.cap_fr, sizeof **A.fr);
	A.cap_sw = frames + 16;
	A.sw = xcalloc((size_t)A.cap_sw, sizeof *A.sw);
	A.sw_amb = xcalloc((size_t)A.cap_sw, 1);
	A.cd = xcalloc((size_t)frames, sizeof *A.cd);
	A.cd_tick = xcalloc((size_t)frames, sizeof *A.cd_tick);
	A.is_gap = xcalloc((size_t)frames, 1);
	g_amb_armed = 0; g_amb_gapf = g_amb_ready = g_amb_go = -1;

	vf_phase("scenario-a");
	progress(TM, "vbi_decoder_new");
	A.vbi = vbi_decoder_new();
	if (!A.vbi) { SETUP_FAIL("harness:alloc", "vbi_decoder_new failed"); return 0; }
	progress(TM, "vbi_event_handler_register");
	vbi_event_handler_register(A.vbi, VBI_EVENT_CAPTION | VBI_EVENT_TTX_PAGE | VBI_EVENT_NETWORK | VBI_EVENT_NETWORK_ID
				   | VBI_EVENT_ASPECT | VBI_EVENT_PROG_INFO | VBI_EVENT_TRIGGER, a_handler, NULL);
	/* snapshot 0: the state after a channel switch = the blank pages */
	A.a_frame_now = -1;
	progress(TM, "vbi_fetch_cc_page(set-up)");
	a_snapshot(0);
	progress(TM, "pace");
	for (p = 0; p < 8; p++) A.blank[p] = A.chg[p][0].s;

	g_a_done = 0; g_a_frame = 0; g_go = 0; g_a_gap_frame = -1;
	/* --p4 bit 0: no thread C; bit 1: no thread D */
	nt = 0;
	pthread_create(&th[nt++], NULL, a_decoder_thread, NULL);
	pthread_create(&th[nt++], NULL, a_fetch_thread, (void *)0L);
	if (vf_param[4] & 1) progress(2, "done"); else pthread_create(&th[nt++], NULL, a_fetch_thread, (void *)1L);
	if (vf_param[4] & 2) progress(3, "done"); else pthread_create(&th[nt++], NULL, a_switch_thread, NULL);
	__atomic_store_n(&g_go, 1, __ATOMIC_RELAXED);
	for (p = 0; p < nt; p++) pthread_join(th[p], NULL);
	progress(TM, "vbi_decoder_delete");
	vbi_decoder_delete(A.vbi);
	progress(TM, "pace");
	watchdog_stop();

	p = analyse_a();
	vf_sample("scenario a: %ld frames (%ld time stamp gaps), %ld snapshots, fetches B=%ld C=%ld, %ld channel switch requests, events: %ld caption %ld ttx_page %ld network %ld trigger %ld aspect/prog_info; "
		  "%ld Teletext headers (%ld damaged), profile gap 1/%d ttx 1/%d damage 1/%d",
		  A.n_dec, T.gaps, A.n_snaps, A.n_fr[0], A.n_fr[1], A.n_sw, A.ev_count[EVK_CAPTION], A.ev_count[EVK_TTX_PAGE],
		  A.ev_count[EVK_NETWORK] + A.ev_count[EVK_NETWORK_ID], A.ev_count[EVK_TRIGGER], A.ev_count[EVK_ASPECT] + A.ev_count[EVK_PROG_INFO],
		  T.headers, T.hdr_parity + T.hdr_nopgno, T.gap_den, T.ttx_den, T.dmg_den);
	free(A.snaps); free(A.dec); free(A.capt); free(A.hand); free(A.hand_kind); free(A.fr[0]); free(A.fr[1]); free(A.sw); free(A.sw_amb); free(A.cd); free(A.cd_tick); free(A.is_gap);
	{ int q; for (q = 0; q < 8; q++) free(A.chg[q]); }
	return p;
}

/* =====================================================================
 * Scenario (b)
 * ===================================================================== */

#define NSERV 4
static const unsigned int SERV[NSERV] = { VBI_SLICED_TELETEXT_B, VBI_SLICED_VPS, VBI_SLICED_CAPTION_625, VBI_SLICED_WSS_625 };
#define OWN_B 0x3u                      /* bit set over SERV[]: B owns 0,1; C owns 2,3 */
#define OWN_C 0xCu
#define NIMG 3
#define BLINES 19

static unsigned int set_of(unsigned bits)
{
	unsigned int s = 0; int i;
	for (i = 0; i < NSERV; i++) if (bits & (1u << i)) s |= SERV[i];
	return s;
}
static unsigned bits_of(unsigned int set)
{
	unsigned b = 0; int i;
	for (i = 0; i < NSERV; i++) if (set & SERV[i]) b |= 1u << i;
	return b;
}

struct tog_rec { unsigned long c, r; int kind; /* 0 add 1 remove 2 check */ unsigned arg_bits; int strict; unsigned int ret; unsigned own_after; };
struct dec_rec { unsigned long c, r; int img; int n; uint64_t h; unsigned idbits; };

static struct {
	vbi_raw_decoder rd;
	uint8_t *img[NIMG];
	size_t img_size;
	uint64_t ref_h[NIMG][16];
	int ref_n[NIMG][16];
	unsigned int check_ref[16][3];      /* check_services(set, strict) */
	long decodes;
	struct vf_rng rng[3];
	struct dec_rec *dr; long n_dr;
	struct tog_rec *tr[2]; long n_tr[2], cap_tr;
	vbi_sliced out[BLINES + 4];
	int quirk;                          /* threaded monitor admits stale (removed but still decoded) services */
} B;

NOTSAN static uint64_t out_hash(const vbi_sliced *s, int n, unsigned *idbits)
{
	uint64_t h = 0xCBF29CE484222325ull ^ (uint64_t)n;
	int i;
	*idbits = 0;
	for (i = 0; i < n; i++) {
		h = mix(h, &s[i], sizeof s[i]);
		*idbits |= bits_of(s[i].id);
	}
	return h;
}

static void b_sampling(vbi_raw_decoder *rd)
{
	rd->scanning = 625;
	rd->sampling_format = VBI_PIXFMT_YUV420;
	rd->sampling_rate = 13500000;
	rd->bytes_per_line = 720;
	rd->offset = (int)(9.7e-6 * 13.5e6);
	rd->start[0] = 14; rd->count[0] = 10;   /* lines 14..23 */
	rd->start[1] = 327; rd->count[1] = 9;    /* lines 327..335 */
	rd->interlaced = FALSE;
	rd->synchronous = TRUE;
}

static int b_make_images(struct vf_rng *r)
{
	vbi_raw_decoder sp;
	int m, i;
	memset(&sp, 0, sizeof sp);
	b_sampling(&sp);
	B.img_size = (size_t)sp.bytes_per_line * BLINES;
	for (m = 0; m < NIMG; m++) {
		vbi_sliced sl[BLINES];
		int n = 0, line;
		memset(sl, 0, sizeof sl);
		for (line = 14; line <= 23; line++) {
			vbi_sliced *s = &sl[n];
			if (line == 16) { s->id = VBI_SLICED_VPS; vf_bytes(r, s->data, 13); }
			else if (line == 22) { s->id = VBI_SLICED_CAPTION_625_F1; s->data[0] = odd(0x41 + m); s->data[1] = odd(0x61 + (int)vf_below(r, 20)); }
			else if (line == 23) { s->id = VBI_SLICED_WSS_625; s->data[0] = (uint8_t)vf_below(r, 256); s->data[1] = (uint8_t)vf_below(r, 64); }
			else if (line == 21 && m == 1) continue;                 /* a blank line in one image */
			else { s->id = VBI_SLICED_TELETEXT_B; vf_bytes(r, s->data, 42); }
			s->line = (uint32_t)line;
			n++;
		}
		for (line = 327; line <= 335; line++) {
			vbi_sliced *s = &sl[n];
			if (line == 335) { s->id = VBI_SLICED_CAPTION_625_F2; s->data[0] = odd(0x51 + m); s->data[1] = odd(0x30 + (int)vf_below(r, 10)); }
			else if (line == 330 && m == 2) continue;
			else { s->id = VBI_SLICED_TELETEXT_B; vf_bytes(r, s->data, 42); }
			s->line = (uint32_t)line;
			n++;
		}
		B.img[m] = xcalloc(B.img_size, 1);
		if (!vbi_raw_vbi_image(B.img[m], B.img_size, &sp, 0, 0, FALSE, sl, (unsigned)n)) return 0;
		(void)i;
	}
	return 1;
}

/* sequential reference: fresh decoder per service set */
static int b_make_refs(void)
{
	unsigned bits;
	int m, st;
	for (bits = 0; bits < 16; bits++) {
		vbi_raw_decoder rd;
		vbi_sliced out[BLINES + 4];
		vbi_raw_decoder_init(&rd);
		b_sampling(&rd);
		if (bits) {
			unsigned int got = vbi_raw_decoder_add_services(&rd, set_of(bits), 0);
			if (got != set_of(bits)) {
				vf_log("add_services(0x%x) -> 0x%x\n", set_of(bits), got);
				vbi_raw_decoder_destroy(&rd);
				return 0;
			}
		}
		for (m = 0; m < NIMG; m++) {
			unsigned ib;
			int n;
			memset(out, 0, sizeof out);
			n = vbi_raw_decode(&rd, B.img[m], out);
			B.ref_n[m][bits] = n;
			B.ref_h[m][bits] = out_hash(out, n, &ib);
			if (ib & ~bits) { vf_log("set bits %x image %d: foreign ids %x\n", bits, m, ib); vbi_raw_decoder_destroy(&rd); return 0; }
			vf_log("ref set bits %x image %d: %d lines ids %x\n", bits, m, n, ib);
		}
		for (st = 0; st < 3; st++)
			B.check_ref[bits][st] = vbi_raw_decoder_check_services(&rd, set_of(bits), st);
		vbi_raw_decoder_destroy(&rd);
	}
	return 1;
}

/* Named quirk Q-removed-service-still-decoded: vbi3_raw_decoder_remove_services()
 * walks the job table with an index but never advances its job pointer, so only
 * the FIRST job can be removed; any other service is cleared from the returned
 * service set but keeps being decoded until the next add_services() rebuilds
 * the job table (from the service set, in service-table order, new service
 * last).  The model below reproduces exactly that; it is consulted only after
 * the strict reference (decoded set == configured set) has failed. */
static const int table_rank[NSERV] = { 0, 1, 3, 2 };   /* SERV[] index -> order in _vbi_service_table: TTX, VPS, WSS, CC */
struct jobs_model { int n; int job[NSERV]; unsigned mask; };

static void jm_rebuild(struct jobs_model *jm)
{
	int rank, s;
	jm->n = 0;
	for (rank = 0; rank < NSERV; rank++)
		for (s = 0; s < NSERV; s++)
			if (table_rank[s] == rank && (jm->mask & (1u << s))) jm->job[jm->n++] = s;
}
static void jm_add(struct jobs_model *jm, int s)
{
	int had = (jm->mask >> s) & 1;
	jm_rebuild(jm);                       /* add_services() re-installs the sampling parameters first */
	if (!had) { jm->job[jm->n++] = s; jm->mask |= 1u << s; }
}
static void jm_remove(struct jobs_model *jm, int s)
{
	jm->mask &= ~(1u << s);
	if (jm->n > 0 && jm->job[0] == s) { memmove(&jm->job[0], &jm->job[1], sizeof jm->job[0] * (size_t)(jm->n - 1)); jm->n--; }
}
static unsigned jm_decoded(const struct jobs_model *jm)
{
	unsigned d = 0; int i;
	for (i = 0; i < jm->n; i++) d |= 1u << jm->job[i];
	return d;
}

/* Sequential phase: toggle randomly in ONE thread and compare every decode with
 * the strict reference (the raw decoder learns line patterns, so this also
 * proves that the reference does not depend on history).
 * Returns 0 = strict reference holds; 1 = it fails but exactly as the named
 * quirk predicts; 2 = unexplained.  witness describes the first divergence. */
static int b_sequential_check(struct vf_rng *r, int steps, char *witness, size_t wlen)
{
	vbi_raw_decoder rd;
	struct jobs_model jm;
	int i, strict_bad = 0, quirk_bad = 0, o = 0;
	char hist[300];
	vbi_raw_decoder_init(&rd);
	b_sampling(&rd);
	vbi_raw_decoder_add_services(&rd, set_of(15), 0);
	jm.mask = 15; jm_rebuild(&jm);
	witness[0] = 0; hist[0] = 0;
	for (i = 0; i < steps && !quirk_bad; i++) {
		vbi_sliced out[BLINES + 4];
		unsigned ib;
		uint64_t h;
		int m = (int)vf_below(r, NIMG), n, s = (int)vf_below(r, NSERV);
		if (vf_chance(r, 1, 2)) {
			unsigned int ret;
			if (jm.mask & (1u << s)) { ret = vbi_raw_decoder_remove_services(&rd, SERV[s]); jm_remove(&jm, s); if (!strict_bad && o < 280) o += snprintf(hist + o, sizeof hist - (size_t)o, "-%x ", SERV[s]); }
			else { ret = vbi_raw_decoder_add_services(&rd, SERV[s], 0); jm_add(&jm, s); if (!strict_bad && o < 280) o += snprintf(hist + o, sizeof hist - (size_t)o, "+%x ", SERV[s]); }
			if (ret != set_of(jm.mask)) {
				snprintf(witness, wlen, "after %sthe call returned service set 0x%x, expected 0x%x", hist, ret, set_of(jm.mask));
				quirk_bad = 1;
				break;
			}
		}
		memset(out, 0, sizeof out);
		n = vbi_raw_decode(&rd, B.img[m], out);
		h = out_hash(out, n, &ib);
		if (n != B.ref_n[m][jm.mask] || h != B.ref_h[m][jm.mask]) {
			unsigned d = jm_decoded(&jm);
			if (!strict_bad)
				snprintf(witness, wlen, "services all on, then %s(+add -remove): service set is 0x%x but vbi_raw_decode returns %d lines with services 0x%x (reference: %d lines)",
					 hist, set_of(jm.mask), n, set_of(ib), B.ref_n[m][jm.mask]);
			strict_bad = 1;
			if (n != B.ref_n[m][d] || h != B.ref_h[m][d]) quirk_bad = 1;
		}
	}
	vbi_raw_decoder_destroy(&rd);
	return quirk_bad ? 2 : strict_bad ? 1 : 0;
}

static void *b_decode_thread(void *arg)
{
	struct vf_rng *r = &B.rng[0];
	long k;
	(void)arg;
	set_tid(0);
	wait_go();
	for (k = 0; k < B.decodes; k++) {
		struct dec_rec *d = &B.dr[k];
		d->img = (int)vf_below(r, NIMG);
		memset(B.out, 0, sizeof B.out);
		progress(0, "vbi_raw_decode");
		d->c = tick();
		d->n = vbi_raw_decode(&B.rd, B.img[d->img], B.out);
		d->r = tick();
		d->h = out_hash(B.out, d->n < 0 ? 0 : d->n > BLINES ? BLINES : d->n, &d->idbits);
		B.n_dr = k + 1;
		__atomic_store_n(&g_a_frame, k + 1, __ATOMIC_RELAXED);
		progress(0, "pace");
		/* a capture loop waits for the next frame; without a pause the
		 * decoder re-takes the mutex before a waiting toggler wakes up */
		if (vf_chance(r, 2, 3)) usleep(20 + vf_below(r, 300)); else sched_yield();
	}
	__atomic_store_n(&g_a_done, 1, __ATOMIC_RELAXED);
	progress(0, "done");
	return NULL;
}

static void *b_toggle_thread(void *arg)
{
	int me = (int)(long)arg;               /* 0 = B, 1 = C */
	struct vf_rng *r = &B.rng[1 + me];
	unsigned own = me ? OWN_C : OWN_B, state = own;   /* all services on at start */
	set_tid(1 + me);
	wait_go();
	while (!a_done() && B.n_tr[me] < B.cap_tr) {
		struct tog_rec *t;
		if (B.n_tr[me] > 2 * a_frame() + 8) { usleep(50); continue; }
		t = &B.tr[me][B.n_tr[me]];
		if (vf_chance(r, 1, 5)) {
			t->kind = 2;
			t->arg_bits = vf_below(r, 16);
			t->strict = (int)vf_below(r, 3);
			progress(1 + me, "vbi_raw_decoder_check_services");
			t->c = tick();
			t->ret = vbi_raw_decoder_check_services(&B.rd, set_of(t->arg_bits), t->strict);
			t->r = tick();
		} else {
			int s = (me ? 2 : 0) + (int)vf_below(r, 2);
			t->arg_bits = 1u << s;
			if (state & (1u << s)) {
				t->kind = 1;
				progress(1 + me, "vbi_raw_decoder_remove_services");
				t->c = tick();
				t->ret = vbi_raw_decoder_remove_services(&B.rd, SERV[s]);
				t->r = tick();
				state &= ~(1u << s);
			} else {
				t->kind = 0;
				t->strict = 0;   /* the sampled lines are a subset of the Teletext range: only loose matching admits it */
				progress(1 + me, "vbi_raw_decoder_add_services");
				t->c = tick();
				t->ret = vbi_raw_decoder_add_services(&B.rd, SERV[s], t->strict);
				t->r = tick();
				state |= 1u << s;
			}
		}
		t->own_after = state;
		B.n_tr[me]++;
		progress(1 + me, "pace");
		if (vf_chance(r, 1, 4)) pace(r); else usleep(100 + vf_below(r, 900));
	}
	progress(1 + me, "done");
	return NULL;
}

/* set of own-states (as a 16 bit mask over 4-bit values) thread `me` may have
 * had at some instant of the tick window [c,r] */
static unsigned possible_states(int me, unsigned long c, unsigned long r, long *cursor)
{
	unsigned own = me ? OWN_C : OWN_B, mask = 0, st = own;
	long i = *cursor, n = B.n_tr[me];
	/* advance the cursor to the last op that returned before c: its state is certain at c */
	while (i < n && B.tr[me][i].r < c) i++;
	*cursor = i;
	st = i > 0 ? B.tr[me][i - 1].own_after : own;
	mask |= 1u << st;
	/* every op that was called before r may have taken effect inside the window */
	for (; i < n && B.tr[me][i].c < r; i++)
		mask |= 1u << B.tr[me][i].own_after;
	return mask;
}

static int analyse_b(void)
{
	long k, cur[2] = {0, 0}, overlap = 0, multi = 0, toggles = 0, checks = 0, ret_multi = 0, by_quirk = 0;
	int me, nontrivial = 0;
	for (k = 0; k < B.n_dr; k++) {
		struct dec_rec *d = &B.dr[k];
		unsigned mb = possible_states(0, d->c, d->r, &cur[0]);
		unsigned mc = possible_states(1, d->c, d->r, &cur[1]);
		unsigned sb, sc;
		int ok = 0, ncand = 0, match_first = 0;
		for (sb = 0; sb < 16 && !ok; sb++) {
			if (!(mb & (1u << sb))) continue;
			for (sc = 0; sc < 16 && !ok; sc++) {
				if (!(mc & (1u << sc))) continue;
				ncand++;
				if (d->n == B.ref_n[d->img][sb | sc] && d->h == B.ref_h[d->img][sb | sc]) { ok = 1; match_first = ncand == 1; }
			}
		}
		if (!ok && B.quirk) {
			/* quirk mode: a removed service may still be decoded (which ones
			 * depends on the global order of all toggles): any superset of a
			 * possible configured set */
			unsigned x;
			for (sb = 0; sb < 16 && !ok; sb++) {
				if (!(mb & (1u << sb))) continue;
				for (sc = 0; sc < 16 && !ok; sc++) {
					if (!(mc & (1u << sc))) continue;
					for (x = 0; x < 16 && !ok; x++)
						if (d->n == B.ref_n[d->img][sb | sc | x] && d->h == B.ref_h[d->img][sb | sc | x]) { ok = 1; by_quirk++; }
				}
			}
		}
		if ((mb & (mb - 1)) || (mc & (mc - 1))) {
			overlap++;
			if (ncand > 1) multi++;
			SIG("b:decode img=%d B-states=%d C-states=%d got=%s ids=%x", d->img, __builtin_popcount(mb), __builtin_popcount(mc),
			       !ok ? "none" : match_first ? "first" : "later", d->idbits);
		}
		if (!ok)
			REPORT("model:C20:mixed-service-set",
				"decode #%ld of image %d in tick window [%lu,%lu] returned %d lines with services {bits %x}; no single service set among the %d possible in the window "
				"(B-states mask %04x, C-states mask %04x) gives this output sequentially",
				k, d->img, d->c, d->r, d->n, d->idbits, ncand, mb, mc);
	}
	/* toggle return values */
	for (me = 0; me < 2; me++) {
		long oc = 0, i;
		unsigned own = me ? OWN_C : OWN_B;
		for (i = 0; i < B.n_tr[me]; i++) {
			struct tog_rec *t = &B.tr[me][i];
			if (t->kind == 2) {
				checks++;
				if (t->ret != B.check_ref[t->arg_bits][t->strict])
					REPORT("model:C20:check-services-result", "thread %c: check_services(bits %x, strict %d) returned 0x%x, sequentially 0x%x",
						"BC"[me], t->arg_bits, t->strict, t->ret, B.check_ref[t->arg_bits][t->strict]);
				continue;
			}
			toggles++;
			{
				unsigned rb = bits_of(t->ret), other = possible_states(!me, t->c, t->r, &oc);
				if ((t->ret & ~set_of(15)) || (rb & own) != t->own_after || !(other & (1u << (rb & ~own))))
					REPORT("model:C20:service-set-return",
						"thread %c op #%ld %s(bits %x) in tick window [%lu,%lu] returned set 0x%x (bits %x): own services should be %x, the other thread's services in one of the states mask %04x",
						"BC"[me], i, t->kind ? "remove_services" : "add_services", t->arg_bits, t->c, t->r, t->ret, rb, t->own_after, other);
				if (other & (other - 1)) {
					ret_multi++;
					SIG("b:toggle thr=%c %s serv=%x other-states=%d", "BC"[me], t->kind ? "remove" : "add", t->arg_bits, __builtin_popcount(other));
				}
			}
		}
	}
	/* hand-over orders inside a decode call are impossible (one critical
	 * section); record the order of operations between consecutive decodes */
	{
		long ti[2] = {0, 0};
		for (k = 0; k + 1 < B.n_dr; k++) {
			char seq[8]; int o = 0;
			unsigned long lo = B.dr[k].c, hi = B.dr[k + 1].r;
			for (;;) {
				int who = -1; unsigned long best = hi;
				for (me = 0; me < 2; me++) {
					while (ti[me] < B.n_tr[me] && B.tr[me][ti[me]].r < lo) ti[me]++;
					if (ti[me] < B.n_tr[me] && B.tr[me][ti[me]].c > lo && B.tr[me][ti[me]].r < best) { best = B.tr[me][ti[me]].r; who = me; }
				}
				if (who < 0) break;
				if (o < 6) seq[o++] = "bc"[who] - (B.tr[who][ti[who]].kind == 2 ? 0 : 32);
				ti[who]++;
			}
			seq[o] = 0;
			if (o) SIG("b:handover A>%s>A", seq);
		}
	}
	COUNT("b_decodes", B.n_dr);
	COUNT("b_decodes_overlapping_a_toggle", overlap);
	COUNT("b_decodes_with_several_candidate_sets", multi);
	COUNT("b_toggles", toggles);
	COUNT("b_toggles_overlapping_other_toggler", ret_multi);
	COUNT("b_check_services_calls", checks);
	COUNT("b_decodes_matching_only_with_quirk", by_quirk);
	if (overlap) nontrivial = 1;
	return nontrivial;
}

static int b_prepare(struct vf_rng *r)
{
	memset(&B, 0, sizeof B);
	if (!b_make_images(r)) { SETUP_FAIL("harness:C20:sim", "vbi_raw_vbi_image failed"); return 0; }
	if (!b_make_refs()) { SETUP_FAIL("harness:C20:ref", "reference decode: a service was refused or a foreign service id appeared"); return 0; }
	/* every service must actually be visible in the reference */
	{
		int s, m;
		for (s = 0; s < NSERV; s++)
			for (m = 0; m < NIMG; m++)
				if (B.ref_n[m][1u << s] == 0 || B.ref_h[m][1u << s] == B.ref_h[m][0]) {
					SETUP_FAIL("harness:C20:ref", "service bit %d not decodable from image %d", s, m);
					return 0;
				}
	}
	return 1;
}

static void b_free(void)
{
	int m;
	for (m = 0; m < NIMG; m++) { free(B.img[m]); B.img[m] = NULL; }
}

static int run_b(struct vf_rng *r)
{
	pthread_t th[3];
	long decodes = vf_param[0] > 0 ? vf_param[0] : 1000;
	int nontrivial, nt = 0, i;

	vf_phase("scenario-b");
	progress(TM, "vbi_raw_decoder(set-up: reference decodes)");
	if (!b_prepare(r)) { b_free(); return 0; }
	{
		char witness[700];
		int rc;
		progress(TM, "vbi_raw_decoder(set-up: sequential toggling)");
		rc = b_sequential_check(r, 400, witness, sizeof witness);
		progress(TM, "pace");
		B.quirk = 0;
		if (rc == 2) {
			SETUP_FAIL("model:C20:sequential-decode-mismatch", "single-threaded toggling: %s", witness);
			b_free();
			return 0;
		}
		if (rc == 1) {
			/* strict reference refuted, divergence is exactly the named quirk */
			SETUP_FAIL("model:C20:Q-removed-service-still-decoded", "single-threaded: %s; the divergence is exactly 'only the first job can be removed'", witness);
			B.quirk = 1;
		}
	}
	B.decodes = decodes;
	vf_rng_seed(&B.rng[0], vf_u64(r), 1);
	vf_rng_seed(&B.rng[1], vf_u64(r), 2);
	vf_rng_seed(&B.rng[2], vf_u64(r), 3);
	B.dr = xcalloc((size_t)decodes, sizeof *B.dr);
	B.cap_tr = decodes * 2 + 64;
	B.tr[0] = xcalloc((size_t)B.cap_tr, sizeof **B.tr);
	B.tr[1] = xcalloc((size_t)B.cap_tr, sizeof **B.tr);
	progress(TM, "vbi_raw_decoder_add_services(set-up)");
	vbi_raw_decoder_init(&B.rd);
	b_sampling(&B.rd);
	if (vbi_raw_decoder_add_services(&B.rd, set_of(15), 0) != set_of(15)) { SETUP_FAIL("harness:C20:ref", "cannot add all services"); return 0; }
	progress(TM, "pace");

	g_a_done = 0; g_a_frame = 0; g_go = 0;
	pthread_create(&th[nt++], NULL, b_decode_thread, NULL);
	pthread_create(&th[nt++], NULL, b_toggle_thread, (void *)0L);
	if (vf_param[4] & 1) progress(2, "done"); else pthread_create(&th[nt++], NULL, b_toggle_thread, (void *)1L);
	__atomic_store_n(&g_go, 1, __ATOMIC_RELAXED);
	for (i = 0; i < nt; i++) pthread_join(th[i], NULL);
	progress(TM, "vbi_raw_decoder_destroy");
	vbi_raw_decoder_destroy(&B.rd);
	progress(TM, "pace");
	watchdog_stop();

	vf_count("b_sequential_steps", 400);
	nontrivial = analyse_b();
	vf_sample("scenario b: %ld decodes of %d images x %d lines, toggles/checks B=%ld C=%ld", B.n_dr, NIMG, BLINES, B.n_tr[0], B.n_tr[1]);
	free(B.dr); free(B.tr[0]); free(B.tr[1]);
	b_free();
	return nontrivial;
}

/* ===================================================================== */

static int run_case(struct vf_rng *r, long idx)
{
	int nontrivial, hook = 0, i;
	unsigned hseed = vf_u32(r) | 1;
	(void)idx;
	if (&zvbi_verif_yield_seed) {
		hook = 1;
		zvbi_verif_yield_seed = vf_param[1] ? 0 : hseed;
		for (i = 0; i < 8; i++) zvbi_verif_yield_count[i] = 0;
	}
	watchdog_start(vf_mode[0] == 'b' ? "b" : "a");
	if (vf_mode[0] == 'b') nontrivial = run_b(r);
	else nontrivial = run_a(r);
	watchdog_stop();                  /* (early returns of the set-up) */
	vf_count("hook_H2_present", hook);
	if (hook) {
		static const char *const site[8] = { "yield_caption_send_event_before_handlers", "yield_caption_send_event_after_handlers",
			"yield_vbi_decode_after_glitch_countdown", "yield_vbi_decode_before_chsw_reset", "yield_vbi_decode_after_countdown",
			"yield_vbi_decode_caption_after_unlock", "yield_site6", "yield_site7" };
		for (i = 0; i < 6; i++) vf_count(site[i], (long)zvbi_verif_yield_count[i]);
	}
	return nontrivial;
}

/* oracle self-test: the window logic on hand-made logs */
static void selftest(void)
{
	vbi_page pg;
	struct pgsum s1, s2;
	/* 1. digest ignores 'dirty', sees one character */
	memset(&pg, 0, sizeof pg);
	page_sum(&pg, &s1);
	pg.dirty.y0 = 3; pg.dirty.y1 = 7; pg.dirty.roll = -1;
	page_sum(&pg, &s2);
	if (s1.h != s2.h) vf_fail("selftest:C20", "digest depends on dirty fields");
	pg.text[5 * COLS + 7].unicode = 'x';
	page_sum(&pg, &s2);
	if (s1.h == s2.h || s1.row[5] == s2.row[5] || s1.row[4] != s2.row[4]) vf_fail("selftest:C20", "digest misses a character change");
	pg.text[5 * COLS + 7].unicode = 0; pg.screen_opacity = VBI_OPAQUE;
	page_sum(&pg, &s2);
	if (s1.h == s2.h) vf_fail("selftest:C20", "digest misses screen_opacity");

	/* 2. snapshot window: snapshots 0..3 at ticks [1,2] [10,12] [20,22] [30,32], page 1 states X Y Y Z */
	memset(&A, 0, sizeof A);
	{
		static struct snap sn[4] = { {1, 2, 0, 0}, {10, 12, 1, 0}, {20, 22, 2, 0}, {30, 32, 3, 0} };
		static struct pgchg ch[3];
		static struct fetch_rec fr[6];
		static struct span dec[3] = { {3, 9}, {13, 19}, {23, 29} };
		int p;
		A.snaps = sn; A.n_snaps = 4;
		ch[0].snap = 0; ch[0].s.h = 100; ch[1].snap = 1; ch[1].s.h = 200; ch[2].snap = 3; ch[2].s.h = 300;
		for (p = 0; p < 8; p++) { A.chg[p] = ch; A.n_chg[p] = 3; A.blank[p].h = 999; }
		A.dec = dec; A.n_dec = 3;
		A.fr[0] = fr;
		/* fetch in [4,8] (during decode 0): X (snapshot 0) or Y (snapshot 1) fine, Z torn */
		fr[0].c = 4; fr[0].r = 8; fr[0].pgno = 1; fr[0].ret = 1; fr[0].s.h = 100;
		fr[1] = fr[0]; fr[1].s.h = 200;
		fr[2] = fr[0]; fr[2].s.h = 999;           /* blank admitted: window spans two snapshots */
		A.n_fr[0] = 3;
		g_quiet = 1; g_quiet_fails = 0;
		analyse_a();
		if (g_quiet_fails) { vf_fail("selftest:C20", "window monitor rejects a legal fetch"); return; }
		fr[3] = fr[0]; fr[3].s.h = 300;           /* state of snapshot 3, not reachable in [4,8] */
		A.fr[0] = &fr[3]; A.n_fr[0] = 1;
		analyse_a();
		if (g_quiet_fails != 1) { vf_fail("selftest:C20", "window monitor accepts a page from outside the window"); return; }
		fr[4].c = 10; fr[4].r = 11; fr[4].pgno = 1; fr[4].ret = 1; fr[4].s.h = 999;   /* inside snapshot 1: only Y, not even blank */
		A.fr[0] = &fr[4]; A.n_fr[0] = 1;
		analyse_a();
		if (g_quiet_fails != 2) { vf_fail("selftest:C20", "window monitor accepts blank inside a single snapshot"); return; }
	}
	g_quiet = 0;
	memset(&A, 0, sizeof A);
	/* 3. version windows */
	memset(&B, 0, sizeof B);
	{
		static struct tog_rec tb[2];
		long cur = 0;
		unsigned m;
		tb[0].c = 10; tb[0].r = 20; tb[0].own_after = 1;     /* 3 -> 1 */
		tb[1].c = 30; tb[1].r = 40; tb[1].own_after = 3;     /* 1 -> 3 */
		B.tr[0] = tb; B.n_tr[0] = 2;
		m = possible_states(0, 1, 9, &cur);  if (m != (1u << 3)) vf_fail("selftest:C20", "version window 1: %x", m);
		cur = 0; m = possible_states(0, 5, 15, &cur); if (m != ((1u << 3) | (1u << 1))) vf_fail("selftest:C20", "version window 2: %x", m);
		cur = 0; m = possible_states(0, 21, 29, &cur); if (m != (1u << 1)) vf_fail("selftest:C20", "version window 3: %x", m);
		cur = 0; m = possible_states(0, 15, 35, &cur); if (m != ((1u << 3) | (1u << 1))) vf_fail("selftest:C20", "version window 4: %x", m);
		cur = 0; m = possible_states(0, 41, 50, &cur); if (m != (1u << 3)) vf_fail("selftest:C20", "version window 5: %x", m);
	}
	memset(&B, 0, sizeof B);
}

int main(int argc, char **argv) { return vf_main(argc, argv, run_case, selftest); }
