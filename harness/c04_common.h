/* Shared by harness/c04_raw_roundtrip.c and harness/c05_raw_bounds.c.
 *
 * Everything here is written from the service definitions named in the
 * property statements (ETS 300 706 / ITU-R BT.653 Teletext systems, ETS 300 231
 * VPS, ETS 300 294 WSS, EIA-608 Closed Caption) and from the *transmitter*
 * (src/io-sim.c places every signal relative to 0H); it does not consult
 * _vbi_service_table for anything the oracle decides.  The only use of the
 * library's table is to configure the single-line bit slicers the way a caller
 * of those functions would (cri/frc words are the library's own convention).
 */
#ifndef C04_COMMON_H
#define C04_COMMON_H

#include <stdint.h>
#include <string.h>
#include <stdlib.h>
#include <math.h>

#include "config.h"
#include "decoder.h"
#include "raw_decoder.h"
#include "sampling_par.h"
#include "sliced.h"
#include "io-sim.h"

enum { K_TTX, K_VPS, K_WSS, K_CC };

struct svc {
	const char *name;
	unsigned id;          /* id transmitted (what the generator is given) */
	unsigned family;      /* ids the decoder may legitimately report for this waveform */
	int scanning;         /* 625 / 525 */
	int first[2], last[2];/* ITU-R line range per field, 0 = none */
	int payload_bits;
	int kind;
	double bit_rate;      /* payload bit rate, Hz (nominal, from the standard) */
	double clock;         /* highest symbol clock: max(CRI rate, bit rate) */
	int needs_field;      /* identification depends on the field (=> synchronous) */
	int needs_line;       /* library documents: "requires known line numbers" */
};

#define FH625 15625.0

static const struct svc c04_svc[] = {
	{ "ttx_a",     VBI_SLICED_TELETEXT_A,     VBI_SLICED_TELETEXT_A,     625, {6, 318}, {22, 335}, 37 * 8, K_TTX, 397 * FH625, 397 * FH625, 0, 0 },
	{ "ttx_b_625", VBI_SLICED_TELETEXT_B,     VBI_SLICED_TELETEXT_B,     625, {6, 318}, {22, 335}, 42 * 8, K_TTX, 444 * FH625, 444 * FH625, 0, 0 },
	{ "ttx_c_625", VBI_SLICED_TELETEXT_C_625, VBI_SLICED_TELETEXT_C_625, 625, {6, 318}, {22, 335}, 33 * 8, K_TTX, 367 * FH625, 367 * FH625, 0, 0 },
	{ "ttx_d_625", VBI_SLICED_TELETEXT_D_625, VBI_SLICED_TELETEXT_D_625, 625, {6, 318}, {22, 335}, 34 * 8, K_TTX, 5642787.0,   5642787.0,   0, 0 },
	{ "vps",       VBI_SLICED_VPS,            VBI_SLICED_VPS | VBI_SLICED_VPS_F2, 625, {16, 0}, {16, 0}, 13 * 8, K_VPS, 2500000.0, 5000000.0, 1, 0 },
	{ "wss_625",   VBI_SLICED_WSS_625,        VBI_SLICED_WSS_625,        625, {23, 0},  {23, 0},   14,     K_WSS, 5000000.0 / 6, 5000000.0, 1, 1 },
	{ "cc_625_f1", VBI_SLICED_CAPTION_625_F1, VBI_SLICED_CAPTION_625,    625, {22, 0},  {22, 0},   16,     K_CC,  500000.0,  1000000.0, 1, 0 },
	{ "cc_625_f2", VBI_SLICED_CAPTION_625_F2, VBI_SLICED_CAPTION_625,    625, {0, 335}, {0, 335},  16,     K_CC,  500000.0,  1000000.0, 1, 0 },
	{ "ttx_b_525", VBI_SLICED_TELETEXT_B_525, VBI_SLICED_TELETEXT_B_525, 525, {10, 272}, {21, 284}, 34 * 8, K_TTX, 5727272.0, 5727272.0, 0, 0 },
	{ "ttx_c_525", VBI_SLICED_TELETEXT_C_525, VBI_SLICED_TELETEXT_C_525, 525, {10, 272}, {21, 284}, 33 * 8, K_TTX, 5727272.0, 5727272.0, 0, 0 },
	{ "ttx_d_525", VBI_SLICED_TELETEXT_D_525, VBI_SLICED_TELETEXT_D_525, 525, {10, 272}, {21, 284}, 34 * 8, K_TTX, 5727272.0, 5727272.0, 0, 0 },
	{ "cc_525_f1", VBI_SLICED_CAPTION_525_F1, VBI_SLICED_CAPTION_525,    525, {21, 0},  {21, 0},   16,     K_CC,  503496.0,  1006992.0, 1, 1 },
	{ "cc_525_f2", VBI_SLICED_CAPTION_525_F2, VBI_SLICED_CAPTION_525,    525, {0, 284}, {0, 284},  16,     K_CC,  503496.0,  1006992.0, 1, 1 },
};
#define C04_NSVC ((int)(sizeof c04_svc / sizeof c04_svc[0]))

/* Where the transmitter puts the signal, seconds after 0H (src/io-sim.c:
 * signal_teletext / signal_vps / signal_wss_625 / signal_closed_caption).
 * Cross-checked against rendered lines in selftest(). */
static void c04_span(const struct svc *s, double *t1, double *t2)
{
	switch (s->kind) {
	case K_TTX: {
		double bp = 1.0 / s->bit_rate;
		*t1 = 12e-6 - 13 * bp;
		*t2 = *t1 + (s->payload_bits + 24 + 1) * bp;
		break;
	}
	case K_VPS:
		*t1 = 12.5e-6 - .5 / 5e6;
		*t2 = *t1 + ((4 + 13 * 2) * 8) / 5e6;
		break;
	case K_WSS:
		*t1 = 11.0e-6 - .5 / 5e6;
		*t2 = *t1 + (29 + 24 + 14 * 6 + 1) / 5e6;
		break;
	default: {
		/* io-sim uses 25*625*32 resp. 30000*525*32/1001 (integer) */
		double br = (s->scanning == 625) ? 500000.0 : 503496.0;
		double D = 1.0 / br;
		*t1 = 10.5e-6 - .25 * D;
		/* three start bits + 16 data bits after t3 = t0 + 6.5 D - 120 ns, plus the fall time */
		*t2 = 10.5e-6 + 6.5 * D - 120e-9 + 19 * D + 240e-9;
		break;
	}
	}
}

static const struct svc *c04_find(unsigned id)
{
	int i;
	for (i = 0; i < C04_NSVC; i++)
		if (c04_svc[i].id == id) return &c04_svc[i];
	return NULL;
}

/* ---- pixel formats (VBI_PIXFMT_SET_ALL of libzvbi 0.2: 5 YUV + 18 RGB) ---- */

static const vbi_pixfmt c04_fmts[] = {
	VBI_PIXFMT_YUV420, VBI_PIXFMT_YUYV, VBI_PIXFMT_YVYU, VBI_PIXFMT_UYVY, VBI_PIXFMT_VYUY,
	VBI_PIXFMT_RGBA32_LE, VBI_PIXFMT_RGBA32_BE, VBI_PIXFMT_BGRA32_LE, VBI_PIXFMT_BGRA32_BE,
	VBI_PIXFMT_RGB24, VBI_PIXFMT_BGR24,
	VBI_PIXFMT_RGB16_LE, VBI_PIXFMT_RGB16_BE, VBI_PIXFMT_BGR16_LE, VBI_PIXFMT_BGR16_BE,
	VBI_PIXFMT_RGBA15_LE, VBI_PIXFMT_RGBA15_BE, VBI_PIXFMT_BGRA15_LE, VBI_PIXFMT_BGRA15_BE,
	VBI_PIXFMT_ARGB15_LE, VBI_PIXFMT_ARGB15_BE, VBI_PIXFMT_ABGR15_LE, VBI_PIXFMT_ABGR15_BE,
};
#define C04_NFMT ((int)(sizeof c04_fmts / sizeof c04_fmts[0]))

static const char *c04_fmt_name(vbi_pixfmt f)
{
	switch (f) {
	case VBI_PIXFMT_YUV420: return "YUV420";
	case VBI_PIXFMT_YUYV: return "YUYV";
	case VBI_PIXFMT_YVYU: return "YVYU";
	case VBI_PIXFMT_UYVY: return "UYVY";
	case VBI_PIXFMT_VYUY: return "VYUY";
	case VBI_PIXFMT_RGBA32_LE: return "RGBA32_LE";
	case VBI_PIXFMT_RGBA32_BE: return "RGBA32_BE";
	case VBI_PIXFMT_BGRA32_LE: return "BGRA32_LE";
	case VBI_PIXFMT_BGRA32_BE: return "BGRA32_BE";
	case VBI_PIXFMT_RGB24: return "RGB24";
	case VBI_PIXFMT_BGR24: return "BGR24";
	case VBI_PIXFMT_RGB16_LE: return "RGB16_LE";
	case VBI_PIXFMT_RGB16_BE: return "RGB16_BE";
	case VBI_PIXFMT_BGR16_LE: return "BGR16_LE";
	case VBI_PIXFMT_BGR16_BE: return "BGR16_BE";
	case VBI_PIXFMT_RGBA15_LE: return "RGBA15_LE";
	case VBI_PIXFMT_RGBA15_BE: return "RGBA15_BE";
	case VBI_PIXFMT_BGRA15_LE: return "BGRA15_LE";
	case VBI_PIXFMT_BGRA15_BE: return "BGRA15_BE";
	case VBI_PIXFMT_ARGB15_LE: return "ARGB15_LE";
	case VBI_PIXFMT_ARGB15_BE: return "ARGB15_BE";
	case VBI_PIXFMT_ABGR15_LE: return "ABGR15_LE";
	case VBI_PIXFMT_ABGR15_BE: return "ABGR15_BE";
	default: return "?";
	}
}

static int c04_is_yuv(vbi_pixfmt f) { return f >= VBI_PIXFMT_YUV420 && f <= VBI_PIXFMT_VYUY; }
static int c04_is_422(vbi_pixfmt f) { return f >= VBI_PIXFMT_YUYV && f <= VBI_PIXFMT_VYUY; }

/* Which bit slicer template the new decoder documents for the format
 * (src/bit_slicer.c vbi3_bit_slicer_set_params); the low-pass variant is
 * recognised from the configured slicer (oversampling 1). */
static const char *c04_func_class(vbi_pixfmt f)
{
	switch (VBI_PIXFMT_BPP(f)) {
	case 1: return "Y8";
	case 3: return "RGB24";
	case 4: return "RGBA24";
	default:
		if (c04_is_422(f)) return "YUYV";
		switch (f) {
		case VBI_PIXFMT_RGB16_BE: case VBI_PIXFMT_BGR16_BE:
		case VBI_PIXFMT_RGBA15_BE: case VBI_PIXFMT_BGRA15_BE:
		case VBI_PIXFMT_ARGB15_BE: case VBI_PIXFMT_ABGR15_BE:
			return "RGB16_BE";
		default:
			return "RGB16_LE";
		}
	}
}

/* Byte offset of the Y/G byte(s) inside a pixel and the 16-bit green mask
 * (0 = 8-bit sample), little/big endian for 16-bit formats.  Used by C05 to
 * convert an 8-bit luminance line into any pixel format independently of the
 * library's generator. */
static void c04_fmt_layout(vbi_pixfmt f, int *bpp, int *ybyte, unsigned *gmask, int *gshift, int *be)
{
	*bpp = VBI_PIXFMT_BPP(f);
	*ybyte = 0; *gmask = 0; *gshift = 0; *be = 0;
	switch (f) {
	case VBI_PIXFMT_YUV420: case VBI_PIXFMT_YUYV: case VBI_PIXFMT_YVYU: break;
	case VBI_PIXFMT_UYVY: case VBI_PIXFMT_VYUY: *ybyte = 1; break;
	case VBI_PIXFMT_RGBA32_LE: case VBI_PIXFMT_BGRA32_LE: *ybyte = 1; break; /* R G B A / B G R A in memory */
	case VBI_PIXFMT_RGBA32_BE: case VBI_PIXFMT_BGRA32_BE: *ybyte = 2; break; /* A B G R / A R G B */
	case VBI_PIXFMT_RGB24: case VBI_PIXFMT_BGR24: *ybyte = 1; break;
	case VBI_PIXFMT_RGB16_BE: case VBI_PIXFMT_BGR16_BE: *be = 1; /* fall through */
	case VBI_PIXFMT_RGB16_LE: case VBI_PIXFMT_BGR16_LE: *gmask = 0x07E0; *gshift = 5 - 2; break; /* g8>>2 <<5 */
	case VBI_PIXFMT_RGBA15_BE: case VBI_PIXFMT_BGRA15_BE: *be = 1; /* fall through */
	case VBI_PIXFMT_RGBA15_LE: case VBI_PIXFMT_BGRA15_LE: *gmask = 0x03E0; *gshift = 5 - 3; break; /* g8>>3 <<5 */
	case VBI_PIXFMT_ARGB15_BE: case VBI_PIXFMT_ABGR15_BE: *be = 1; /* fall through */
	case VBI_PIXFMT_ARGB15_LE: case VBI_PIXFMT_ABGR15_LE: *gmask = 0x07C0; *gshift = 6 - 3; break; /* g8>>3 <<6 */
	default: break;
	}
}

/* the library's own parameter record for a service id (only to configure the
 * single-line bit slicers the way the raw decoder itself does) */
static const _vbi_service_par *c04_lib_par(unsigned id)
{
	const _vbi_service_par *p;
	for (p = _vbi_service_table; p->id; ++p)
		if (p->id == id) return p;
	return NULL;
}

#endif
