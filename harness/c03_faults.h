/* C03 - transmission errors in Teletext are corrected or contained.
 * Included by c02_ttx_faithful.c (--mode faults); reuses its transmitter.
 *
 * case idx = transmission (idx / F_SLOTS) x packet (idx % F_SLOTS).  The
 * transmission is generated from (seed, transmission number) alone; the case
 * injects into that one packet
 *   A  every single-bit fault of every Hamming 8/4 byte and 24/18 triplet,
 *   B  every single-bit fault of every parity protected text byte,
 *   C  double faults inside one protected byte (address/control bytes: all 28
 *      pairs; header control bytes and data bytes: sampled),
 *   D  sampled bursts (<= 2 bit errors per byte), E the dropped packet,
 * each time into a fresh decoder, and compares the observable state
 * (cached keys, every cached page formatted at Level 1.0/1.5/2.5 with navigation,
 * classification of every page number, all events) with reference runs of the
 * same transmission: R0 fault-free, R1 without that packet, R_A without the
 * transmissions A abandoned by an uncorrectable header.
 */

#define F_SLOTS 128
#define F_MAXK 24
#define F_MAXEV 200

/* Packet kinds added by the session 6 extension (numbered behind the kinds of c02_ttx.h, which C02 shares):
 * TOP tables, MOT / POP object pages, M/29, X/28/1, X/28/4, X/27/4, 8/30 format 2. */
enum { PK_BTT = PK_KINDS, PK_AIT, PK_MPT, PK_MOT, PK_POP, PK_M29_0, PK_M29_4, PK_X28_1, PK_X28_4, PK_X27_4, PK_830_2, F_KINDS };
static const char *const f_new_kind_name[F_KINDS - PK_KINDS] = { "btt", "ait", "mpt", "mot", "pop", "m29-0", "m29-4", "x28-1", "x28-4", "x27-4", "830f2" };
static const char *f_kind_name(int kind)
{
	return kind < PK_KINDS ? pk_kind_name[kind] : kind < F_KINDS ? f_new_kind_name[kind - PK_KINDS] : "?";
}

struct snap_page {
	int pgno, subno;
	vbi_char text[3][25 * 41];
	int nav[3][6][2];
	uint64_t misc[3];
};

struct snap {
	int nk;
	struct snap_page pg[F_MAXK];
	int nev;
	struct evrec ev[F_MAXEV];
	uint8_t cls[0x800];
	uint16_t clsub[0x800];
	/* TOP: the index page 0x900 the library composes from the Additional Information Tables, and the title
	   vbi_page_title() finds for every transmitted or listed page number (hash; 0 = none) */
	int top_ok;
	uint64_t top_hash;
	uint64_t title_hash;
	int n_titles;
	int overflow;
};

/* page numbers vbi_page_title() is asked for: the transmitted pages and the pages an AIT lists */
static int f_title_pgno[32], f_n_title_pgno;

static const vbi_wst_level f_levels[3] = { VBI_WST_LEVEL_1, VBI_WST_LEVEL_1p5, VBI_WST_LEVEL_2p5 };
static const char *const f_level_name[3] = { "1.0", "1.5", "2.5" };

static uint64_t f_hash(uint64_t h, const void *p, size_t n)
{
	const uint8_t *q = p;
	while (n--) { h ^= *q++; h *= 1099511628211ull; }
	return h;
}

static void take_snapshot(vbi_decoder *vbi, struct snap *s)
{
	static vbi_page pg;
	int pgno, l, i;
	s->nk = 0; s->overflow = 0;
	for (pgno = 0x100; pgno <= 0x8FF; pgno++) {
		vbi_subno sub = 0;
		int hi, sn;
		s->cls[pgno - 0x100] = (uint8_t)vbi_classify_page(vbi, pgno, &sub, NULL);
		s->clsub[pgno - 0x100] = (uint16_t)sub;
		if ((pgno & 0xFF) == 0xFF) continue;
		if (!vbi_is_cached(vbi, pgno, VBI_ANY_SUBNO)) continue;
		hi = vbi_cache_hi_subno(vbi, pgno);
		for (sn = 0; sn <= hi && sn < 0x3F7F; sn++) {
			struct snap_page *sp;
			if (!vbi_is_cached(vbi, pgno, sn)) continue;
			if (s->nk >= F_MAXK) { s->overflow = 1; break; }
			sp = &s->pg[s->nk++];
			sp->pgno = pgno; sp->subno = sn;
			for (l = 0; l < 3; l++) {
				memset(&pg, 0, sizeof pg);
				if (!vbi_fetch_vt_page(vbi, &pg, pgno, sn, f_levels[l], 25, TRUE)) {
					memset(sp->text[l], 0, sizeof sp->text[l]);
					memset(sp->nav[l], 0, sizeof sp->nav[l]);
					sp->misc[l] = 0;
					continue;
				}
				memcpy(sp->text[l], pg.text, sizeof sp->text[l]);
				for (i = 0; i < 6; i++) { sp->nav[l][i][0] = pg.nav_link[i].pgno; sp->nav[l][i][1] = pg.nav_link[i].subno; }
				{
					uint64_t h = 1469598103934665603ull;
					int v[8] = { pg.pgno, pg.subno, pg.rows, pg.columns, (int)pg.screen_color, (int)pg.screen_opacity, (int)pg.double_height_lower, 0 };
					h = f_hash(h, v, sizeof v);
					h = f_hash(h, pg.color_map, sizeof pg.color_map);
					h = f_hash(h, pg.nav_index, sizeof pg.nav_index);
					h = f_hash(h, pg.page_opacity, sizeof pg.page_opacity);
					h = f_hash(h, pg.boxed_opacity, sizeof pg.boxed_opacity);
					/* DRCS colour look-up table (X/28/1, M/29/1): 2 + 8 + 32 entries */
					if (pg.drcs_clut) h = f_hash(h, pg.drcs_clut, 42);
					sp->misc[l] = h;
				}
				vbi_unref_page(&pg);
			}
		}
	}
	s->top_ok = 0; s->top_hash = 0; s->title_hash = 1469598103934665603ull; s->n_titles = 0;
	memset(&pg, 0, sizeof pg);
	if (vbi_fetch_vt_page(vbi, &pg, 0x900, 0, VBI_WST_LEVEL_2p5, 25, TRUE)) {
		s->top_ok = 1;
		s->top_hash = f_hash(1469598103934665603ull, pg.text, sizeof pg.text[0] * 25 * 41);
		vbi_unref_page(&pg);
	}
	for (i = 0; i < f_n_title_pgno; i++) {
		char buf[48];
		memset(buf, 0, sizeof buf);
		if (vbi_page_title(vbi, f_title_pgno[i], 0, buf)) {
			s->n_titles++;
			s->title_hash = f_hash(s->title_hash, &f_title_pgno[i], sizeof f_title_pgno[i]);
			s->title_hash = f_hash(s->title_hash, buf, 41);
		}
	}
	s->nev = n_ev < F_MAXEV ? n_ev : F_MAXEV;
	if (n_ev > F_MAXEV || ev_overflow) s->overflow = 1;
	memcpy(s->ev, evlog, sizeof s->ev[0] * (size_t)s->nev);
}

static long f_runs;

/* VBI_EVENT_PROG_ID (8/30 format 2 programme identification): every field the library decodes from the
 * thirteen Hamming 8/4 bytes goes into the event record; all other events as in C02. */
static void f_on_event(vbi_event *ev, void *ud)
{
	if (ev->type == VBI_EVENT_PROG_ID && ev->ev.prog_id) {
		const vbi_program_id *pid = ev->ev.prog_id;
		if (n_ev >= MAXEV) { ev_overflow = 1; return; }
		evlog[n_ev].type = ev->type;
		evlog[n_ev].pos = cur_pos;
		evlog[n_ev].pgno = (int)pid->cni;
		evlog[n_ev].subno = (int)pid->pil;
		evlog[n_ev].flags = (int)pid->channel | (int)pid->cni_type << 4 | (pid->luf ? 0x100 : 0) | (pid->mi ? 0x200 : 0)
			| (pid->prf ? 0x400 : 0) | (int)pid->pcs_audio << 12;
		evlog[n_ev].pn = (int)pid->pty;
		n_ev++;
		return;
	}
	on_event(ev, ud);
}

/* Feeds the packets (skip[i] != 0: line lost) into a fresh decoder. */
static void run_stream(const struct ttx_pkt *pk, int n, const uint8_t *skip, struct snap *out)
{
	vbi_decoder *vbi;
	const struct ttx_pkt *frame[8];
	int i, nf = 0;
	double t = 1000.0;
	vf_phase("vbi_decoder_new");
	vbi = vbi_decoder_new();
	if (!vbi) { vf_fail("harness:alloc", "vbi_decoder_new failed"); memset(out, 0, sizeof *out); return; }
	vbi_event_handler_register(vbi, VBI_EVENT_TTX_PAGE | VBI_EVENT_NETWORK | VBI_EVENT_NETWORK_ID | VBI_EVENT_PROG_ID, f_on_event, NULL);
	n_ev = 0; ev_overflow = 0;
	for (i = 0; i < n; i++) {
		cur_pos = i;
		if (!skip || !skip[i]) frame[nf++] = &pk[i];
		if ((i & 7) == 7 || i + 1 == n) { feed_lines(vbi, frame, nf, &t); nf = 0; }
	}
	vf_phase("snapshot");
	take_snapshot(vbi, out);
	vf_phase("vbi_decoder_delete");
	vbi_decoder_delete(vbi);
	f_runs++;
}

static char f_why[400];

static int ev_same(const struct evrec *a, const struct evrec *b, int strict)
{
	if (a->type != b->type || a->pgno != b->pgno || a->subno != b->subno) return 0;
	if (strict && (a->flags != b->flags || a->pn != b->pn)) return 0;
	return 1;
}

static int snap_find(const struct snap *s, int pgno, int subno)
{
	int i;
	for (i = 0; i < s->nk; i++) if (s->pg[i].pgno == pgno && s->pg[i].subno == subno) return i;
	return -1;
}

/* everything but the pages: keys, events, classification.  0 = equal */
static int snap_cmp_frame(const struct snap *a, const struct snap *b, int strict_ev)
{
	int i;
	if (a->nk != b->nk) { snprintf(f_why, sizeof f_why, "%d pages cached instead of %d", a->nk, b->nk); return 1; }
	for (i = 0; i < a->nk; i++)
		if (a->pg[i].pgno != b->pg[i].pgno || a->pg[i].subno != b->pg[i].subno) {
			snprintf(f_why, sizeof f_why, "cached page %03x/%04x instead of %03x/%04x", a->pg[i].pgno, a->pg[i].subno, b->pg[i].pgno, b->pg[i].subno);
			return 1;
		}
	if (a->nev != b->nev) { snprintf(f_why, sizeof f_why, "%d events instead of %d", a->nev, b->nev); return 1; }
	for (i = 0; i < a->nev; i++)
		if (!ev_same(&a->ev[i], &b->ev[i], strict_ev)) {
			snprintf(f_why, sizeof f_why, "event %d is type 0x%x %03x/%04x flags %x instead of type 0x%x %03x/%04x flags %x", i,
				 a->ev[i].type, a->ev[i].pgno, a->ev[i].subno, a->ev[i].flags, b->ev[i].type, b->ev[i].pgno, b->ev[i].subno, b->ev[i].flags);
			return 1;
		}
	for (i = 0; i < 0x800; i++)
		if (a->cls[i] != b->cls[i] || a->clsub[i] != b->clsub[i]) {
			snprintf(f_why, sizeof f_why, "vbi_classify_page(%03x) = type 0x%02x subno %04x instead of 0x%02x/%04x", 0x100 + i, a->cls[i], a->clsub[i], b->cls[i], b->clsub[i]);
			return 1;
		}
	if (a->top_ok != b->top_ok || a->top_hash != b->top_hash) {
		snprintf(f_why, sizeof f_why, "the TOP index page 900 %s (%s in the reference run)", a->top_ok ? (b->top_ok ? "has other contents" : "can be fetched") : "cannot be fetched",
			 b->top_ok ? "can be fetched" : "cannot");
		return 1;
	}
	if (a->n_titles != b->n_titles || a->title_hash != b->title_hash) {
		snprintf(f_why, sizeof f_why, "vbi_page_title() finds %d titles instead of %d, or other titles", a->n_titles, b->n_titles);
		return 1;
	}
	return 0;
}

static int page_cmp(const struct snap_page *a, const struct snap_page *b)
{
	int l, r, c;
	for (l = 0; l < 3; l++) {
		if (memcmp(a->text[l], b->text[l], sizeof a->text[l])) {
			for (r = 0; r < 25; r++)
				for (c = 0; c < 41; c++)
					if (memcmp(&a->text[l][r * 41 + c], &b->text[l][r * 41 + c], sizeof(vbi_char))) {
						const vbi_char *x = &a->text[l][r * 41 + c], *y = &b->text[l][r * 41 + c];
						snprintf(f_why, sizeof f_why, "page %03x/%02x level %s row %d col %d shows U+%04X fg%d bg%d size%d instead of U+%04X fg%d bg%d size%d",
							 a->pgno, a->subno, f_level_name[l], r, c, x->unicode, x->foreground, x->background, x->size, y->unicode, y->foreground, y->background, y->size);
						return 1;
					}
		}
		if (memcmp(a->nav[l], b->nav[l], sizeof a->nav[l])) { snprintf(f_why, sizeof f_why, "page %03x/%02x level %s navigation links differ", a->pgno, a->subno, f_level_name[l]); return 1; }
		if (a->misc[l] != b->misc[l]) { snprintf(f_why, sizeof f_why, "page %03x/%02x level %s colour map / screen attributes differ", a->pgno, a->subno, f_level_name[l]); return 1; }
	}
	return 0;
}

static int snap_cmp(const struct snap *a, const struct snap *b, int strict_ev)
{
	int i;
	if (snap_cmp_frame(a, b, strict_ev)) return 1;
	for (i = 0; i < a->nk; i++)
		if (page_cmp(&a->pg[i], &b->pg[i])) return 1;
	return 0;
}

/* ------------------------------------------------------------------ */
/* small network with X/26, X/27, X/28, 8/30                            */

static int f_n830;

/* Column address triplets (address 0..39) whose mode puts a character at the
 * addressed position, i.e. overrides the Level 1 character there: G1 block mosaic,
 * G3 at Level 1.5 and 2.5, G0, DRCS, G2, and G0 with diacritical mark.  All other
 * column modes (colours, flash, character set designation, display attributes,
 * font style, PDC, reserved) leave the Level 1 character in place. */
static uint8_t f_x26_attr[MAXTX][25][40];   /* positions addressed by a column triplet that places no character */
static uint8_t f_b2b[MAXTX];                 /* transmission follows one of the same page number without a header in between */

static int x26_mode_places_character(unsigned mode)
{
	return mode == 0x01 || mode == 0x02 || mode == 0x09 || mode == 0x0B || mode == 0x0D || mode == 0x0F || (mode >= 0x10 && mode <= 0x1F);
}

/* EN 300 706 12.2: is a character at column col displayed in mosaics mode?  Mosaic colour codes
 * 1/1..1/7 switch to mosaics, alpha colour codes 0/0..0/7 back, both "set-after"; every row
 * starts in alphanumeric mode. */
static int l1_mosaic_context(const uint8_t *row, int col)
{
	int c, mosaic = 0;
	for (c = 0; c < col; c++) {
		unsigned v = row[c] & 0x7F;
		if (v <= 0x07) mosaic = 0;
		else if (v >= 0x10 && v <= 0x17) mosaic = 1;
	}
	return mosaic;
}

static int f_x26_moved;

static long f_x26_rowcolour;
static void gen_x26(struct vf_rng *r, struct tx *t, int ndes, unsigned invocation)
{
	unsigned trips[MAXX26 * 13];
	int n = 0, max = ndes * 13, rows[6], nr = 0, i, rr;
	memset(t->x26_pos, 0, sizeof t->x26_pos);
	/* an object invocation (bit 31: present) comes first, at the origin of the page */
	if (invocation) trips[n++] = invocation & 0x3FFFF;
	for (rr = 1; rr <= 24 && nr < 6; rr++)
		if ((t->rows_sent & (1u << rr)) && vf_chance(r, 2, 3)) rows[nr++] = rr;
	for (i = 0; i < nr && n < max - 2; i++) {
		int col = vf_range(r, 0, 8), k, nc = vf_range(r, 1, 4);
		rr = rows[i];
		/* the row is addressed by "set active position" or, one time in three, by a "full row colour" triplet, which
		 * moves the active position to that row as well (EN 300 706 12.3.3) */
		if (vf_chance(r, 1, 3)) { trips[n++] = tx_triplet((unsigned)(rr == 24 ? 40 : 40 + rr), 0x01, (unsigned)(vf_below(r, 0x20) | vf_below(r, 4) << 5)); f_x26_rowcolour++; }
		else trips[n++] = tx_triplet((unsigned)(rr == 24 ? 40 : 40 + rr), 0x04, (unsigned)col);
		for (k = 0; k < nc && n < max - 1 && col < 40; k++) {
			unsigned mode, data;
			switch (vf_below(r, 10)) {
			case 0: mode = 0x0F; data = (unsigned)vf_range(r, 0x21, 0x7E); break;      /* G2 character */
			case 1: case 2: mode = (unsigned)vf_range(r, 0x11, 0x1F); data = (unsigned)vf_range(r, 0x41, 0x7A); break; /* diacritical */
			case 3: mode = 0x09; data = (unsigned)vf_range(r, 0x21, 0x7E); break;      /* G0 character (2.5) */
			case 4: mode = 0x01; data = (unsigned)(0x20 | vf_below(r, 0x20) | (vf_below(r, 2) << 6)); break; /* G1 mosaic (2.5) */
			case 5: mode = 0x00; data = vf_below(r, 8); break;                         /* foreground colour (2.5) */
			/* column triplets which change how the row is displayed but do not
			 * put a character at their position (EN 300 706 12.3.4, table 29) */
			case 6: case 7: mode = 0x0C; data = vf_below(r, 0x80); break;              /* display attributes (2.5) */
			case 8: mode = 0x0E; data = vf_below(r, 0x80); break;                      /* font style (3.5) */
			default: {
				static const uint8_t other[] = { 0x0A /* reserved */, 0x03 /* background colour */, 0x07 /* additional flash functions */ };
				mode = other[vf_below(r, 3)];
				data = mode == 0x03 ? vf_below(r, 8) : mode == 0x07 ? vf_below(r, 0x20) : vf_below(r, 0x80);
				/* --p2 1: modified G0 and G2 character set designation instead (places no character
				 * either); off by default, see proposed/C03-x26-charset-designation-parity.md */
				if (vf_param[2]) { mode = 0x08; data = 0; }
				break; }
			}
			/* The Level 1 character at a position overridden by X/26 is outside the parity clause;
			 * in a mosaic run it is also what "hold mosaics" repeats in the following attribute
			 * cells, which are not.  Characters are therefore only placed in alphanumeric context
			 * (see the design note; --p1 1 lifts the restriction). */
			if (x26_mode_places_character(mode) && l1_mosaic_context(t->row[rr], col) && !vf_param[1]) {
				mode = 0x0C; data &= 0x7F;
				f_x26_moved++;
			}
			trips[n++] = tx_triplet((unsigned)col, mode, data);
			if (!x26_mode_places_character(mode)) f_x26_attr[t - txs][rr][col] = 1;
			else {
				t->x26_pos[rr][col] = 1;
				/* the Level 1 fallback at an enhanced position is a character, not a spacing attribute */
				if (t->row[rr][col] < 0x20) t->row[rr][col] = (uint8_t)vf_range(r, 0x61, 0x7A);
			}
			col += vf_range(r, 1, 9);
		}
	}
	while (n < max) trips[n++] = tx_triplet(63, 0x1F, 0x7F);   /* termination marker */
	t->n_x26 = ndes;
	for (i = 0; i < ndes; i++) memcpy(t->x26[i], trips + i * 13, sizeof t->x26[i]);
}

static void gen_small_row(struct vf_rng *r, uint8_t *row, int rowno)
{
	if (vf_chance(r, 1, 3)) gen_row(r, row, rowno, 0);
	else {
		int c = 0;
		memset(row, 0x20, 40);
		while (c < 40) {
			const char *w = words[vf_below(r, sizeof words / sizeof words[0])];
			if (vf_chance(r, 1, 3)) row[c++] = (uint8_t)(vf_chance(r, 1, 4) ? vf_range(r, 0x11, 0x17) : vf_range(r, 1, 7));
			while (*w && c < 40) row[c++] = (uint8_t)*w++;
			if (c < 40) row[c++] = 0x20;
		}
		sanitize_row(row, 0, rowno);
	}
}

/* Magazine Inventory Page (EN 300 706 11.2): page mFD, packets 1-8 carry the page type codes of pages x0-x9 of two
 * tens each, packets 9-14 those of the pages xA-xF of three tens each; one code = two Hamming 8/4 bytes, low nibble
 * first.  Only the packet that holds `lo` is sent: code 0x01 (normal page) for the listed pages, 0x00 elsewhere. */
static int f_tn;                   /* transmission number of the case (selects the network family) */
static int f_hex_pgno;             /* the page with a hexadecimal number in this transmission, or 0 */
static int f_clock_pgno;           /* the page with a four digit subcode, or 0 */

static int mip_slot(int lo, int *entry)
{
	if ((lo & 15) <= 9) { *entry = ((lo >> 4) & 1) * 10 + (lo & 15); return 1 + (lo >> 5); }
	*entry = ((lo >> 4) % 3) * 6 + (lo & 15) - 10;
	return 9 + (lo >> 4) / 3;
}

static int f_pop_pgno;             /* the object page of this transmission, or 0 */

static int make_mip_unit(int ti, const int *pgnos, int npg, int hexpg)
{
	struct tx *t = &txs[ti];
	struct ttx_pkt p;
	int u = n_units++, i, e, y = mip_slot(hexpg & 0xFF, &e);
	unit_len[u] = 0; unit_mag[u] = t->mag;
	memset(&p, 0, sizeof p);
	p.mag = t->mag; p.tx = ti;
	p.y = 0; p.kind = PK_HEADER; p.row = 0;
	tx_header(p.d, t->mag, 0xFD, 0, t->ctl, 0, t->hdr);
	unit_add(u, &p);
	p.y = y; p.kind = PK_MIP; p.row = y;
	tx_mrag(p.d, t->mag, y);
	for (i = 0; i < 40; i++) p.d[2 + i] = tx_ham8(0);
	for (i = 0; i < npg; i++) {
		int e2;
		if ((pgnos[i] >> 8) != (hexpg >> 8)) continue;
		if (mip_slot(pgnos[i] & 0xFF, &e2) != y || e2 >= 20) continue;
		p.d[2 + e2 * 2] = tx_ham8(0x1); p.d[2 + e2 * 2 + 1] = tx_ham8(0x0);
	}
	/* the object page, when this packet covers it: code 0xE6 (POP), its function is known from here on */
	if (f_pop_pgno && (f_pop_pgno >> 8) == (hexpg >> 8)) {
		int e2;
		if (mip_slot(f_pop_pgno & 0xFF, &e2) == y && e2 < 20) { p.d[2 + e2 * 2] = tx_ham8(0x6); p.d[2 + e2 * 2 + 1] = tx_ham8(0xE); }
	}
	unit_add(u, &p);
	return u;
}

/* ------------------------------------------------------------------ */
/* Session 6: TOP tables, MOT / POP, M/29, X/28/1, X/28/4, X/27/4, 8/30 format 2 */

static uint8_t f_tx_kind[MAXTX];   /* 0: a normal page (or the MIP); else the packet kind of the rows of a table / object page */
static int f_fam_top, f_fam_mot;   /* what this transmission contains */
static int f_obj_pgno, f_obj_row, f_obj_col, f_pop_pgno, f_mot_variant;
static int f_btt_tx_first;
static int f_n830f2;

/* tables whose rows take effect in the decoder as they arrive (magazine / network state), not when the page is stored */
static int kind_immediate(int kind) { return kind == PK_BTT || kind == PK_MPT || kind == PK_MOT; }

static void f_nib_row(struct ttx_pkt *p, int mag, int y, int kind, int ti, const uint8_t nib[40])
{
	int i;
	memset(p, 0, sizeof *p);
	p->mag = mag; p->y = y; p->kind = kind; p->tx = ti; p->row = y;
	tx_mrag(p->d, mag, y);
	for (i = 0; i < 40; i++) p->d[2 + i] = tx_ham8(nib[i]);
}

/* designation (or, in object pages, the byte with the same place and coding) + 13 Hamming 24/18 triplets */
static void f_trip_row(struct ttx_pkt *p, int mag, int y, int kind, int ti, int des, const unsigned trip[13])
{
	int i;
	memset(p, 0, sizeof *p);
	p->mag = mag; p->y = y; p->kind = kind; p->tx = ti; p->row = y >= 26 ? des : y;
	tx_mrag(p->d, mag, y);
	p->d[2] = tx_ham8((unsigned)des);
	for (i = 0; i < 13; i++) tx_ham24(p->d + 3 + i * 3, trip[i]);
}

/* TOP page link (EN 300 706 11.2, as BTT rows 21-23, AIT and MPT-EX carry it): magazine, tens, units,
 * four subcode digits, one more nibble (BTT: the function of the linked table) */
static void f_toplink(uint8_t *nib, int pgno, int subno, int last)
{
	nib[0] = (uint8_t)((pgno >> 8) & 15); nib[1] = (uint8_t)((pgno >> 4) & 15); nib[2] = (uint8_t)(pgno & 15);
	nib[3] = (uint8_t)((subno >> 12) & 15); nib[4] = (uint8_t)((subno >> 8) & 15);
	nib[5] = (uint8_t)((subno >> 4) & 15); nib[6] = (uint8_t)(subno & 15);
	nib[7] = (uint8_t)(last & 15);
}

/* BTT / MPT rows 1-20: one nibble per decimal page number, forty pages a row */
static int btt_slot(int pgno, int *col)
{
	int lin = ((pgno >> 8) - 1) * 100 + ((pgno >> 4) & 15) * 10 + (pgno & 15);
	*col = lin % 40;
	return lin / 40 + 1;
}

static int is_bcd_page(int pgno) { return (pgno & 15) <= 9 && ((pgno >> 4) & 15) <= 9; }

static int f_new_table_tx(struct vf_rng *r, int pgno, int subno, int kind, int *clock)
{
	struct tx *m = &txs[n_tx];
	memset(m, 0, sizeof *m);
	memset(f_x26_attr[n_tx], 0, sizeof f_x26_attr[n_tx]);
	f_b2b[n_tx] = 0;
	f_tx_kind[n_tx] = (uint8_t)kind;
	m->pgno = pgno; m->mag = pgno >> 8; m->subno = subno;
	m->ctl = (net_serial ? CB(11) : 0) | (vf_chance(r, 1, 2) ? CB(4) : 0);
	*clock += vf_range(r, 1, 5);
	make_header_text(m, *clock);
	return n_tx++;
}

static int f_open_unit(int ti)
{
	struct tx *t = &txs[ti];
	struct ttx_pkt p;
	int u = n_units++;
	unit_len[u] = 0; unit_mag[u] = t->mag;
	memset(&p, 0, sizeof p);
	p.mag = t->mag; p.tx = ti; p.y = 0; p.kind = PK_HEADER; p.row = 0;
	tx_header(p.d, t->mag, t->pgno & 0xFF, t->subno, t->ctl, 0, t->hdr);
	unit_add(u, &p);
	return u;
}

/* same page number twice in a row in one magazine: a time filling header goes in between */
static void f_queue_unit(int u, int pgno, int *last_pg)
{
	int mg = (pgno >> 8) & 7;
	if (last_pg[mg] == pgno) { int f = make_filler_unit(mg ? mg : 8); queue[mg][qlen[mg]++] = f; }
	queue[mg][qlen[mg]++] = u;
	last_pg[mg] = pgno;
}

static void unit_insert(int u, int pos, const struct ttx_pkt *p)
{
	int i;
	if (unit_len[u] >= 40) return;
	if (pos > unit_len[u]) pos = unit_len[u];
	for (i = unit_len[u]; i > pos; i--) unit_buf[u][i] = unit_buf[u][i - 1];
	unit_buf[u][pos] = *p;
	unit_len[u]++;
}

/* The TOP tables of one network: fixed when the network is generated, every transmission of a table repeats them. */
static struct {
	int ait_pgno, ait_sub, mpt_pgno, ait_slot, mpt_slot;
	int npg; int pgno[8]; uint8_t code[8], nsub[8];      /* listed pages: the transmitted decimal pages and a few others */
	int nent; int ent_pgno[4]; uint8_t ent_text[4][12];    /* AIT entries */
	uint8_t fillcode[20][40], fillsub[20][40];
} f_top;

static void gen_top_tables(struct vf_rng *r, const int *pgnos, int npages)
{
	static const uint8_t lows[] = { 0xF1, 0xF2, 0xF3, 0xF4 };
	int i, j, k = (int)vf_below(r, 4), nb = 0;
	f_top.ait_pgno = 0x100 | lows[k];
	f_top.mpt_pgno = (vf_chance(r, 1, 2) || f_tn % 8 == 1) ? (0x100 | lows[(k + 1 + (int)vf_below(r, 3)) & 3]) : 0;
	f_top.ait_sub = vf_chance(r, 1, 2) ? 0 : vf_range(r, 1, 3);
	f_top.ait_slot = (int)vf_below(r, 5);
	do f_top.mpt_slot = (int)vf_below(r, 5); while (f_top.mpt_slot == f_top.ait_slot);
	f_top.npg = 0; f_top.nent = 0;
	for (i = 0; i < npages && f_top.npg < 6; i++) {
		static const uint8_t other[] = { 8, 8, 9, 10, 11, 2, 3, 8 };
		if (!is_bcd_page(pgnos[i])) continue;
		j = f_top.npg++;
		f_top.pgno[j] = pgnos[i];
		/* the first decimal page opens a block, the second a group: 4/5 block, 6/7 group, 8-11 normal page,
		   odd codes and 10 announce subpages (MPT) */
		f_top.code[j] = nb == 0 ? (uint8_t)(4 + vf_below(r, 2)) : nb == 1 ? (uint8_t)(6 + vf_below(r, 2)) : other[vf_below(r, sizeof other)];
		nb++;
		f_top.nsub[j] = (uint8_t)vf_below(r, 12);
	}
	/* one or two pages nobody transmits */
	for (i = vf_range(r, 1, 2); i > 0 && f_top.npg < 8; i--) {
		int pg = f_top.pgno[0] + (i == 1 ? 0x001 : 0x010), dup = 0;
		if (!is_bcd_page(pg) || !f_top.npg) continue;
		for (j = 0; j < f_top.npg; j++) if (f_top.pgno[j] == pg) dup = 1;
		if (dup) continue;
		j = f_top.npg++;
		f_top.pgno[j] = pg; f_top.code[j] = (uint8_t)(vf_chance(r, 1, 2) ? 6 : 8); f_top.nsub[j] = (uint8_t)vf_below(r, 10);
	}
	for (i = 0; i < 20; i++)
		for (j = 0; j < 40; j++) {
			f_top.fillcode[i][j] = (uint8_t)(vf_chance(r, 3, 4) ? 0 : vf_chance(r, 1, 2) ? 8 : vf_below(r, 16));
			f_top.fillsub[i][j] = (uint8_t)(vf_chance(r, 3, 4) ? 0 : vf_below(r, 16));
		}
	/* AIT: a title for every block and group page, and for one normal page */
	for (i = 0; i < f_top.npg && f_top.nent < 4; i++) {
		const char *w;
		int c;
		if (f_top.code[i] >= 8 && !(f_top.nent >= 2 && vf_chance(r, 1, 2))) continue;
		j = f_top.nent++;
		f_top.ent_pgno[j] = f_top.pgno[i];
		w = words[vf_below(r, 12)];
		memset(f_top.ent_text[j], 0x20, 12);
		for (c = 0; c < 12 && w[c]; c++) f_top.ent_text[j][c] = (uint8_t)w[c];
		if (c < 11 && vf_chance(r, 1, 2)) { f_top.ent_text[j][c + 1] = (uint8_t)('1' + j); }
	}
	f_n_title_pgno = 0;
	for (i = 0; i < npages && f_n_title_pgno < 32; i++) f_title_pgno[f_n_title_pgno++] = pgnos[i];
	for (i = 0; i < f_top.npg && f_n_title_pgno < 32; i++) {
		for (j = 0; j < f_n_title_pgno; j++) if (f_title_pgno[j] == f_top.pgno[i]) break;
		if (j == f_n_title_pgno) f_title_pgno[f_n_title_pgno++] = f_top.pgno[i];
	}
}

/* Basic TOP Table, page 1F0: the rows (of 1-20) which hold a listed page, and row 21 with the links to AIT and MPT */
static int make_btt_unit(struct vf_rng *r, int ti)
{
	struct ttx_pkt p;
	uint8_t nib[40];
	int u = f_open_unit(ti), row, i, col, at21 = -1, nrows = 0, rows[21];
	for (row = 1; row <= 20; row++) {
		int used = 0;
		for (i = 0; i < f_top.npg; i++) if (btt_slot(f_top.pgno[i], &col) == row) used = 1;
		if (used) rows[nrows++] = row;
	}
	at21 = (int)vf_below(r, (unsigned)nrows + 1);
	for (i = 0; i <= nrows; i++) {
		if (i == at21) {
			int k;
			for (k = 0; k < 40; k++) nib[k] = (k % 8) == 7 ? 0 : 0xF;      /* no link: page number FFF */
			f_toplink(nib + f_top.ait_slot * 8, f_top.ait_pgno, f_top.ait_sub, 2 /* AIT */);
			if (f_top.mpt_pgno) f_toplink(nib + f_top.mpt_slot * 8, f_top.mpt_pgno, 0, 1 /* MPT */);
			f_nib_row(&p, txs[ti].mag, 21, PK_BTT, ti, nib);
			unit_add(u, &p);
		}
		if (i < nrows) {
			int k;
			row = rows[i];
			memcpy(nib, f_top.fillcode[row - 1], 40);
			for (k = 0; k < f_top.npg; k++) if (btt_slot(f_top.pgno[k], &col) == row) nib[col] = f_top.code[k];
			f_nib_row(&p, txs[ti].mag, row, PK_BTT, ti, nib);
			unit_add(u, &p);
		}
	}
	return u;
}

/* Multi-Page Table: number of subpages of every decimal page, same row layout as the BTT */
static int make_mpt_unit(int ti)
{
	struct ttx_pkt p;
	uint8_t nib[40];
	int u = f_open_unit(ti), row, k, col;
	for (row = 1; row <= 20; row++) {
		int used = 0;
		for (k = 0; k < f_top.npg; k++) if (btt_slot(f_top.pgno[k], &col) == row) used = 1;
		if (!used) continue;
		memcpy(nib, f_top.fillsub[row - 1], 40);
		for (k = 0; k < f_top.npg; k++) if (btt_slot(f_top.pgno[k], &col) == row) nib[col] = f_top.nsub[k];
		f_nib_row(&p, txs[ti].mag, row, PK_MPT, ti, nib);
		unit_add(u, &p);
	}
	return u;
}

/* Additional Information Table: two entries a row, each a TOP page link (8 Hamming 8/4 bytes) and twelve
 * odd parity title characters */
static int make_ait_unit(struct vf_rng *r, int ti)
{
	struct ttx_pkt p;
	int u = f_open_unit(ti), row, e, i;
	for (row = 1; (row - 1) * 2 < f_top.nent; row++) {
		memset(&p, 0, sizeof p);
		p.mag = txs[ti].mag; p.y = row; p.kind = PK_AIT; p.tx = ti; p.row = row;
		tx_mrag(p.d, p.mag, row);
		for (e = 0; e < 2; e++) {
			uint8_t nib[8];
			int k = (row - 1) * 2 + e;
			if (k < f_top.nent) f_toplink(nib, f_top.ent_pgno[k], 0x3F7F, 0);
			else { memset(nib, 0xF, 8); nib[7] = 0; }
			for (i = 0; i < 8; i++) p.d[2 + e * 20 + i] = tx_ham8(nib[i]);
			for (i = 0; i < 12; i++) p.d[2 + e * 20 + 8 + i] = tx_par(k < f_top.nent ? f_top.ent_text[k][i] : 0x20);
		}
		unit_add(u, &p);
	}
	(void)r;
	return u;
}

/* Magazine Organization Table mFE: the row (of 1-8) with the object link of page `linked`, and row 19 with the
 * object page links (entry 0: GPOP, 1-3: POP).  default_type != 0: the POP link carries a default object. */
static uint64_t f_content_seed;     /* every transmission of a table of one network has the same contents */

static int make_mot_unit(struct vf_rng *order, int ti, int linked, int link_idx, int pop_pgno, int gpop, int default_type, unsigned default_addr)
{
	struct ttx_pkt p;
	struct vf_rng g, *r = &g;
	uint8_t nib[40];
	int u = f_open_unit(ti), e, y = mip_slot(linked & 0xFF, &e), i, first19 = vf_chance(order, 1, 2), k;
	vf_rng_seed(r, vf_seed, f_content_seed);
	for (k = 0; k < 2; k++) {
		if ((k == 0) == first19) {
			for (i = 0; i < 40; i++) nib[i] = (i % 10) < 3 ? 0xF : 0;     /* dead links: page number mFF */
			for (i = 0; i < 4; i++) {
				uint8_t *q = nib + i * 10;
				if (!((i == 0 && gpop) || i == link_idx)) continue;
				q[0] = (uint8_t)((pop_pgno >> 8) & 7); q[1] = (uint8_t)((pop_pgno >> 4) & 15); q[2] = (uint8_t)(pop_pgno & 15);
				q[3] = (uint8_t)vf_below(r, 4);                             /* number of subpages */
				q[4] = (uint8_t)(vf_chance(r, 1, 2) ? 1 : vf_below(r, 16)); /* fallback: side panels, black background substitution */
				if (i == link_idx && default_type) {
					q[5] = (uint8_t)default_type;
					q[6] = (uint8_t)(default_addr & 15); q[7] = (uint8_t)((default_addr >> 4) & 15);
				}
			}
			f_nib_row(&p, txs[ti].mag, 19, PK_MOT, ti, nib);
			unit_add(u, &p);
		} else {
			for (i = 0; i < 40; i++) nib[i] = (uint8_t)(vf_chance(r, 3, 4) ? 0 : (i & 1) ? vf_below(r, 8) : 0);
			if (e < 20) { nib[e * 2] = (uint8_t)(link_idx | (gpop ? 8 : 0)); nib[e * 2 + 1] = 0; }
			f_nib_row(&p, txs[ti].mag, y, PK_MOT, ti, nib);
			unit_add(u, &p);
		}
	}
	return u;
}

/* Object page: pointer table in packet 1 (byte 2 odd), the object in packet `dpkt`, optionally one more packet
 * with an object nothing invokes.  Object = definition triplet, set active position, G0 characters, termination. */
static int make_pop_unit(struct vf_rng *order, int ti, int type, int group, int half, int dpkt, int extra)
{
	struct ttx_pkt p[3];
	struct vf_rng g, *r = &g;
	unsigned t[13];
	int u = f_open_unit(ti), i, n = 0, idx, s1 = txs[ti].subno & 15, np = 0, o[3] = { 0, 1, 2 };
	static const char text[] = "Obj";
	vf_rng_seed(r, vf_seed, f_content_seed + 1);
	idx = (dpkt - 3) * 13 + (int)vf_below(r, 3);
	/* pointer table: triplet 0 unused, triplets 1-12 = two nine bit pointers each, 511: no object */
	t[0] = vf_below(r, 1u << 18);
	for (i = 1; i < 13; i++) t[i] = 0x3FFFF;
	i = group * 3 + type;                                   /* 1 ... 12 */
	t[i] = half ? (0x1FFu | (unsigned)idx << 9) : ((unsigned)idx | 0x1FFu << 9);
	f_trip_row(&p[np++], txs[ti].mag, 1, PK_POP, ti, 1 + 2 * (int)vf_below(r, 8), t);
	/* the object */
	for (i = 0; i < 13; i++) t[i] = tx_triplet(63, 0x1F, 0x7F);
	n = idx % 13;
	t[n++] = tx_triplet(40, (unsigned)(0x14 + type), (unsigned)(group << 5 | half << 4 | s1));
	if (n < 13) t[n++] = tx_triplet((unsigned)(40 + f_obj_row), 0x04, (unsigned)f_obj_col);
	if (n < 12 && vf_chance(r, 1, 2)) t[n++] = tx_triplet((unsigned)f_obj_col, 0x00, (unsigned)vf_range(r, 1, 6));   /* foreground colour */
	for (i = 0; i < 3 && n < 13; i++) t[n++] = tx_triplet((unsigned)(f_obj_col + i), 0x09, (unsigned)text[i]);
	f_trip_row(&p[np++], txs[ti].mag, dpkt, PK_POP, ti, dpkt <= 4 ? 2 * (int)vf_below(r, 8) : (int)vf_below(r, 16), t);
	if (extra) {
		int y = dpkt + vf_range(r, 1, 5);
		for (i = 0; i < 13; i++) t[i] = tx_triplet(63, 0x1F, 0x7F);
		t[0] = tx_triplet(40, 0x17, (unsigned)(3 << 5 | s1));
		t[1] = tx_triplet(41, 0x04, 2);
		t[2] = tx_triplet(2, 0x09, 'u');
		f_trip_row(&p[np++], txs[ti].mag, y, PK_POP, ti, y <= 4 ? 2 * (int)vf_below(r, 8) : (int)vf_below(r, 16), t);
	}
	if (vf_chance(order, 1, 2)) for (i = np - 1; i > 0; i--) { int j = (int)vf_below(order, (unsigned)i + 1), x = o[i]; o[i] = o[j]; o[j] = x; }
	for (i = 0; i < np; i++) unit_add(u, &p[o[i]]);
	return u;
}

/* X/28 and M/29, designation 0 and 4, format 1: same layout as tx_x28_0() */
static void f_x28_fmt1(struct vf_rng *r, struct ttx_pkt *p, int mag, int y, int des, int kind, int ti)
{
	uint16_t clut[16];
	int i;
	for (i = 0; i < 16; i++) clut[i] = (uint16_t)vf_below(r, 0x1000);
	memset(p, 0, sizeof *p);
	p->mag = mag; p->y = y; p->kind = kind; p->tx = ti; p->row = des;
	tx_x28_0(p->d, mag, y, (unsigned)(net_region + (int)vf_below(r, 7)), 0, clut, vf_below(r, 32), vf_below(r, 32), vf_below(r, 2), vf_below(r, 8));
	p->d[2] = tx_ham8((unsigned)des);
}

/* X/28/1: DRCS colour look-up tables, 8 + 32 entries of five bits from triplet 1 on */
static void f_x28_1(struct vf_rng *r, struct ttx_pkt *p, int mag, int ti)
{
	unsigned t[13];
	int i;
	for (i = 0; i < 13; i++) t[i] = vf_below(r, 1u << 18);
	f_trip_row(p, mag, 28, PK_X28_1, ti, 1, t);
}

/* X/27/4: six links of two triplets each as the decoder under test reads them (link function, units, magazine
 * relative to the page's, tens; then the subpage set); the last three bytes are not used */
static void f_x27_4(struct vf_rng *r, struct ttx_pkt *p, int mag, int ti, const int pgno[6])
{
	unsigned t[13];
	int i;
	for (i = 0; i < 6; i++) {
		unsigned m = (unsigned)(((pgno[i] >> 8) ^ mag) & 7);
		t[i * 2] = (unsigned)(i & 3) | vf_below(r, 4) << 2 | (unsigned)(pgno[i] & 15) << 7 | m << 12 | (unsigned)((pgno[i] >> 4) & 7) << 15;
		t[i * 2 + 1] = vf_below(r, 1u << 18);
	}
	t[12] = vf_below(r, 1u << 18);
	f_trip_row(p, mag, 27, PK_X27_4, ti, 4, t);
}

/* 8/30 format 2 (9.8.2): designation 2 or 3, initial page, thirteen Hamming 8/4 bytes (programme identification),
 * status display */
static void f_830_2(struct ttx_pkt *p, int des, int init_pgno, const uint8_t nib[13])
{
	int i;
	memset(p, 0, sizeof *p);
	p->mag = 8; p->y = 30; p->kind = PK_830_2; p->tx = -1; p->row = des;
	tx_mrag(p->d, 8, 30);
	p->d[2] = tx_ham8((unsigned)des);
	tx_link(p->d + 3, 0, init_pgno, 0x3F7F);
	for (i = 0; i < 13; i++) p->d[9 + i] = tx_ham8(nib[i]);
	for (i = 0; i < 20; i++) p->d[22 + i] = tx_par((unsigned)"ZVBI verification   "[i]);
}

/* what the MOT and the object page of this network say (fixed per network, every transmission repeats it) */
static struct { int link_idx, mot_pop_pgno, gpop, default_type; unsigned addr; int type, group, half, dpkt, extra, pop_sub, x27_4; } f_obj;
static struct { int at, what; } f_evq[12];
static int f_nevq;

static void evq_add(int at, int what)
{
	int k;
	if (f_nevq >= 12) return;
	for (k = f_nevq++; k > 0 && f_evq[k - 1].at > at; k--) f_evq[k] = f_evq[k - 1];
	f_evq[k].at = at; f_evq[k].what = what;
}

static void emit_table(struct vf_rng *r, int what, int *clock, int *last_pg)
{
	int ti, u;
	switch (what) {
	case PK_BTT: ti = f_new_table_tx(r, 0x1F0, 0, PK_BTT, clock); u = make_btt_unit(r, ti); break;
	case PK_AIT: ti = f_new_table_tx(r, f_top.ait_pgno, f_top.ait_sub, PK_AIT, clock); u = make_ait_unit(r, ti); break;
	case PK_MPT: ti = f_new_table_tx(r, f_top.mpt_pgno, 0, PK_MPT, clock); u = make_mpt_unit(ti); break;
	case PK_MOT:
		ti = f_new_table_tx(r, (f_obj_pgno & 0xF00) | 0xFE, 0, PK_MOT, clock);
		u = make_mot_unit(r, ti, f_obj_pgno, f_obj.link_idx, f_obj.mot_pop_pgno, f_obj.gpop, f_obj.default_type, f_obj.addr);
		break;
	case PK_POP:
		ti = f_new_table_tx(r, f_pop_pgno, f_obj.pop_sub, PK_POP, clock);
		u = make_pop_unit(r, ti, f_obj.type, f_obj.group, f_obj.half, f_obj.dpkt, f_obj.extra);
		break;
	default: return;
	}
	f_queue_unit(u, txs[ti].pgno, last_pg);
}

static void gen_small_network(struct vf_rng *r)
{
	struct { int pgno, nsub, sub[2], national, flof, nx26, x28, x28_4, x28_1; unsigned ctl; } pd[5];
	int hex_pi = -1, hex_sent = 0, mip_done = 0, hex_after_mip = 0;
	static const int rowpool[] = { 1, 2, 3, 4, 5, 10, 11, 22, 23, 24 };
	int npages, nm, mags[3], i, j, ntx, clock = 43200, last_pg[8], rot, np = 0, chain_sub = -1;
	int obj_pi = -1, n_m29 = 0, want_m29, evq_done = 0;
	uint8_t nib830[13];

	f_clock_pgno = 0;
	net_serial = vf_chance(r, 1, 2);
	net_region = 16;
	attr_seen = 0;
	gen_header_template(r, 1);
	n_tx = 0; n_mp = 0; n_units = 0; f_n830 = 0; f_n830f2 = 0;
	memset(qlen, 0, sizeof qlen);
	memset(f_tx_kind, 0, sizeof f_tx_kind);
	f_fam_top = f_tn % 4 == 1;
	f_fam_mot = f_tn % 4 == 3;
	f_content_seed = 900000u + (uint64_t)f_tn * 4;
	f_obj_pgno = f_pop_pgno = 0; f_n_title_pgno = 0; f_nevq = 0; f_btt_tx_first = -1;
	memset(&f_obj, 0, sizeof f_obj);
	nm = vf_range(r, 1, 3);
	for (i = 0; i < nm; i++) { int ok; do { mags[i] = vf_range(r, 1, 8); ok = 1; for (j = 0; j < i; j++) if (mags[j] == mags[i]) ok = 0; } while (!ok); }
	npages = vf_range(r, 2, 4);
	for (i = 0; i < npages; i++) {
		int ok;
		do {
			pd[i].pgno = mags[i % nm] << 8 | (int)(vf_below(r, 10) << 4 | vf_below(r, 10));
			ok = 1;
			for (j = 0; j < i; j++) if (pd[j].pgno == pd[i].pgno) ok = 0;
		} while (!ok);
		pd[i].nsub = vf_chance(r, 1, 2) ? 0 : vf_range(r, 1, 2);
		pd[i].sub[0] = (int)(vf_below(r, 4) << 4 | vf_range(r, 1, 9));
		pd[i].sub[1] = (int)(vf_range(r, 4, 7) << 4 | vf_below(r, 10));
		pd[i].national = (int)vf_below(r, 7);
		pd[i].flof = vf_chance(r, 1, 2);
		pd[i].nx26 = vf_chance(r, 1, 2) ? 0 : vf_range(r, 1, 2);
		pd[i].x28 = vf_chance(r, 1, 3);
		/* Level 3.5 colour map (with or without X/28/0 in front of it) and DRCS colour look-up table */
		pd[i].x28_4 = vf_chance(r, 1, 5);
		pd[i].x28_1 = vf_chance(r, 1, 8);
		/* the other control bits of the header ("any Teletext packet"): newsflash, subtitle (the page is stored
		 * under the subcode without these bits), suppress header, update, interrupted sequence, inhibit display */
		pd[i].ctl = 0;
		if (vf_chance(r, 1, 4)) pd[i].ctl |= vf_chance(r, 1, 2) ? CB(5) : CB(6);
		if (vf_chance(r, 1, 10)) pd[i].ctl |= CB(7);
		if (vf_chance(r, 1, 6)) pd[i].ctl |= CB(8);
		if (vf_chance(r, 1, 10)) pd[i].ctl |= CB(9);
		if (vf_chance(r, 1, 16)) pd[i].ctl |= CB(10);
	}
	if (f_tn % 3 == 0) { pd[0].x28_4 = 1; pd[0].x28 = vf_chance(r, 1, 2); }
	if (f_tn % 3 == 1) pd[0].x28_1 = 1;
	/* one page is a carousel: its two subpages are as a rule sent one right after the other
	 * (no other header of the magazine in between), and the carousel comes round again */
	rot = (int)vf_below(r, (unsigned)npages);
	pd[rot].nsub = 2;
	/* In two transmissions of three one other page carries a four digit subcode (clock time, S3 and S4 not zero):
	 * the subcode then is two Hamming protected byte pairs, both of which must be intact for the header to count. */
	if (f_tn % 3 != 0) {
		static const uint16_t clock[] = { 0x0115, 0x1234, 0x2359, 0x0900, 0x1007, 0x2100 };
		int k;
		do k = (int)vf_below(r, (unsigned)npages); while (k == rot);
		pd[k].nsub = 1;
		pd[k].sub[0] = clock[vf_below(r, sizeof clock / sizeof clock[0])];
		f_clock_pgno = pd[k].pgno;
	}
	/* Every third transmission has a page with a hexadecimal number (a page the decoder cannot classify by its
	 * number): it is received while its function is unknown, then a MIP declares it a normal page, then it comes
	 * again.  Rows reach the cache on the first reception without the decoder knowing that they are text. */
	f_hex_pgno = 0;
	if (f_tn % 3 == 2) {
		static const uint8_t lows[] = { 0x1A, 0x2B, 0xA0, 0xAB, 0xC5, 0x3F, 0x0C, 0xB9, 0xEE, 0x9D };
		do hex_pi = (int)vf_below(r, (unsigned)npages); while (hex_pi == rot);
		pd[hex_pi].pgno = (pd[hex_pi].pgno & 0xF00) | lows[vf_below(r, sizeof lows)];
		pd[hex_pi].nsub = 0;
		f_hex_pgno = pd[hex_pi].pgno;
	}
	ntx = (f_fam_top || f_fam_mot) ? vf_range(r, 4, 7) : vf_range(r, 5, 9);
	/* One transmission in four carries TOP: the Basic TOP Table 1F0, one Additional Information Table and mostly a
	 * Multi-Page Table.  Either the BTT comes first and the tables it links are recognised when they arrive, or
	 * they come first (function unknown, stored as received) and once more behind the BTT. */
	if (f_fam_top) {
		int all[5], k;
		for (k = 0; k < npages; k++) all[k] = pd[k].pgno;
		pd[0].flof = 0;            /* TOP navigation shows on pages without FLOF links */
		gen_top_tables(r, all, npages);
		if (vf_chance(r, 1, 2)) {
			evq_add(0, PK_BTT);
			evq_add(vf_range(r, 1, ntx - 1), PK_AIT);
			if (f_top.mpt_pgno) evq_add(vf_range(r, 1, ntx - 1), PK_MPT);
			if (vf_chance(r, 1, 3)) evq_add(vf_range(r, 2, ntx), PK_BTT);
		} else {
			int at = vf_range(r, 1, ntx - 2);
			evq_add(0, PK_AIT);
			if (f_top.mpt_pgno) evq_add(vf_range(r, 0, at), PK_MPT);
			evq_add(at, PK_BTT);
			evq_add(vf_range(r, at + 1, ntx), PK_AIT);
			if (f_top.mpt_pgno && vf_chance(r, 2, 3)) evq_add(vf_range(r, at + 1, ntx), PK_MPT);
		}
	}
	/* One transmission in four has a Magazine Organization Table and an object page.  The object is displayed on a
	 * normal page at Level 2.5: as the default object of the MOT link (page without X/26), by an invocation in
	 * X/26/0 through the MOT link, or by an invocation through the links of X/27/4 (the MOT link is dead then). */
	if (f_fam_mot) {
		static const int orow[] = { 7, 8, 9, 13, 14, 15, 16, 17, 18, 19, 20, 21 };    /* rows no text row and no lower half of a double height row uses */
		static const int subs[] = { 0, 1, 2, 0x12 };
		int tens_lo = 0, tens_n = 8, pmag, k, at;
		do obj_pi = (int)vf_below(r, 2); while (obj_pi == hex_pi);    /* one of the first two pages: they are always transmitted */
		f_obj_pgno = pd[obj_pi].pgno;
		/* not a newsflash, subtitle or inhibited page: everything outside a box is transparent there, the object too */
		pd[obj_pi].ctl &= ~(CB(5) | CB(6) | CB(10));
		f_mot_variant = (f_tn / 4) % 3;
		f_obj_row = orow[vf_below(r, sizeof orow / sizeof orow[0])];
		f_obj_col = vf_range(r, 0, 30);
		f_obj.type = vf_range(r, 1, 3); f_obj.group = (int)vf_below(r, 4); f_obj.half = (int)vf_below(r, 2);
		f_obj.dpkt = vf_range(r, 3, 7); f_obj.extra = vf_chance(r, 2, 3);
		f_obj.pop_sub = subs[vf_below(r, 4)];
		f_obj.addr = (unsigned)(f_obj.group << 5 | f_obj.half << 4 | (f_obj.pop_sub & 15));
		f_obj.link_idx = vf_range(r, 1, 3);
		f_obj.gpop = f_mot_variant != 0 && vf_chance(r, 1, 2);
		/* the object page: a hexadecimal number the X/27/4 link format of the decoder can express (tens 0-7); with a
		   MIP in the network, if possible one the MIP packet covers, so that its function is known from there on */
		pmag = mags[vf_below(r, (unsigned)nm)];
		if (hex_pi >= 0 && (pd[hex_pi].pgno & 15) > 9 && ((pd[hex_pi].pgno >> 4) & 15) < 6) {
			pmag = pd[hex_pi].pgno >> 8;
			tens_lo = ((pd[hex_pi].pgno >> 4) & 15) / 3 * 3; tens_n = 3;
		}
		do f_pop_pgno = pmag << 8 | (tens_lo + (int)vf_below(r, (unsigned)tens_n)) << 4 | vf_range(r, 10, 15); while (f_pop_pgno == f_hex_pgno);
		f_obj.mot_pop_pgno = f_mot_variant == 2 ? ((f_pop_pgno & 0xF00) | 0xFF) : f_pop_pgno;
		f_obj.default_type = f_mot_variant == 0 ? f_obj.type : 0;
		f_obj.x27_4 = f_mot_variant == 2;
		pd[obj_pi].nx26 = f_mot_variant == 0 ? 0 : vf_range(r, 1, 2);
		/* the object page comes once, or twice with the same contents (then a lost packet of one transmission
		   is made up for by the other unless the later one erases the page) */
		at = vf_range(r, 0, ntx - 1);
		evq_add(at, PK_POP);
		if ((f_tn / 4) % 2 == 1) evq_add(vf_range(r, at + 1, ntx), PK_POP);
		evq_add(vf_range(r, 0, ntx), PK_MOT);
		if (vf_chance(r, 1, 3)) evq_add(vf_range(r, 0, ntx), PK_MOT);
		(void)k;
	}
	/* Every network has one or two magazine related packets M/29/0 or M/29/4 (they belong to no page), and up to two
	 * 8/30 format 2 packets with the same programme identification. */
	want_m29 = vf_chance(r, 1, 3) ? 2 : 1;
	for (i = 0; i < 13; i++) nib830[i] = (uint8_t)vf_below(r, 16);
	for (i = 0; i < 8; i++) last_pg[i] = -1;
	for (i = 0; i < ntx; i++) {
		int chained = chain_sub >= 0, pi, si, mg, rr, u, nrows;
		struct tx *t;
		struct mpage *mp;
		while (!chained && evq_done < f_nevq && f_evq[evq_done].at <= i) emit_table(r, f_evq[evq_done++].what, &clock, last_pg);
		t = &txs[n_tx];
		if (chained) pi = rot;
		else if (np < npages) pi = np++;
		else if (np++ == npages && vf_chance(r, 3, 4)) pi = rot;
		else pi = (int)vf_below(r, (unsigned)npages);
		if (hex_pi >= 0 && !chained && mip_done && !hex_after_mip && i >= ntx - 2) pi = hex_pi;
		if (pi == hex_pi) { if (mip_done) hex_after_mip = 1; hex_sent++; }
		memset(t, 0, sizeof *t);
		memset(f_x26_attr[n_tx], 0, sizeof f_x26_attr[n_tx]);
		f_b2b[n_tx] = 0;
		t->pgno = pd[pi].pgno; t->mag = t->pgno >> 8; mg = t->mag & 7;
		si = chained ? chain_sub : pd[pi].nsub ? (int)vf_below(r, (unsigned)pd[pi].nsub) : 0;
		t->subno = pd[pi].nsub ? pd[pi].sub[si] : 0;
		chain_sub = (!chained && pi == rot && i + 1 < ntx && vf_chance(r, 3, 4)) ? 1 - si : -1;
		t->national = pd[pi].national;
		t->ctl = (net_serial ? CB(11) : 0) | pd[pi].ctl;
		if (pd[pi].ctl & (CB(5) | CB(6))) vf_count("transmissions_of_newsflash_or_subtitle_pages", 1);
		mp = mp_find(t->pgno, t->subno);
		if (mp ? vf_chance(r, 1, 3) : vf_chance(r, 1, 2)) t->ctl |= CB(4);
		if (pi == hex_pi && mp && vf_chance(r, 2, 3)) t->ctl &= ~CB(4);     /* mostly without erasure: the cached rows are taken over */
		t->prev_rows = (mp && !(t->ctl & CB(4))) ? mp->have : 0;
		clock += vf_range(r, 1, 5);
		make_header_text(t, clock);
		nrows = vf_range(r, 2, 7);
		for (j = 0; j < nrows; j++) {
			rr = rowpool[vf_below(r, sizeof rowpool / sizeof rowpool[0])];
			if (pd[pi].flof && rr == 24) continue;
			if (t->rows_sent & (1u << rr)) continue;
			t->rows_sent |= 1u << rr;
			gen_small_row(r, t->row[rr], rr);
		}
		t->n_order = 0;
		for (rr = 1; rr <= 24; rr++) if (t->rows_sent & (1u << rr)) t->order[t->n_order++] = rr;
		if (vf_chance(r, 1, 3))
			for (rr = t->n_order - 1; rr > 0; rr--) { j = (int)vf_below(r, (unsigned)rr + 1); u = t->order[rr]; t->order[rr] = t->order[j]; t->order[j] = u; }
		if (pd[pi].flof) {
			t->has_flof = 1; t->flof_at = vf_range(r, 0, t->n_order);
			for (j = 0; j < 6; j++) {
				t->link[j].pgno = (int)(vf_range(r, 1, 8) << 8 | vf_below(r, 10) << 4 | vf_below(r, 10));
				t->link[j].subno = vf_chance(r, 1, 2) ? 0x3F7F : (int)(vf_below(r, 8) << 4 | vf_below(r, 10));
			}
		}
		if (pd[pi].nx26) {
			unsigned inv = 0;
			/* invocation of the object at the origin of the page: address 48 + pointer packet (POP) or 56 + (GPOP),
			   mode 0x10 + object type, data = group, pointer half, S1 of the object page */
			if (pi == obj_pi && f_mot_variant != 0) inv = tx_triplet(f_obj.gpop ? 56 : 48, (unsigned)(0x10 + f_obj.type), f_obj.addr) | 1u << 31;
			gen_x26(r, t, pd[pi].nx26, inv);
		}
		t->has_x28 = pd[pi].x28;
		mp_apply(t);
		if (chained ? vf_chance(r, 1, 8) : (last_pg[mg] == t->pgno || vf_chance(r, 1, 10))) { u = make_filler_unit(t->mag); queue[mg][qlen[mg]++] = u; }
		else if (chained) f_b2b[n_tx] = 1;
		u = make_tx_unit(n_tx);
		{
			struct ttx_pkt p;
			if (pd[pi].x28_4) {
				f_x28_fmt1(r, &p, t->mag, 28, 4, PK_X28_4, n_tx);
				/* behind X/28/0 as a rule (then only the colour map is taken from it), sometimes in front of it */
				unit_insert(u, t->has_x28 && vf_chance(r, 3, 4) ? 2 : vf_range(r, 1, unit_len[u]), &p);
			}
			if (pd[pi].x28_1) { f_x28_1(r, &p, t->mag, n_tx); unit_insert(u, vf_range(r, 1, unit_len[u]), &p); }
			if (pi == obj_pi && f_obj.x27_4) {
				int lk[6];
				for (j = 0; j < 6; j++) lk[j] = (int)(vf_range(r, 1, 8) << 8 | vf_below(r, 8) << 4 | vf_below(r, 16));
				lk[f_obj.gpop ? 0 : 1] = f_pop_pgno;
				f_x27_4(r, &p, t->mag, n_tx, lk);
				unit_insert(u, vf_range(r, 1, unit_len[u]), &p);
			}
		}
		queue[mg][qlen[mg]++] = u;
		last_pg[mg] = t->pgno;
		n_tx++;
		if (hex_pi >= 0 && hex_sent > 0 && !mip_done && chain_sub < 0 && (vf_chance(r, 1, 2) || i >= ntx - 3)) {
			struct tx *m = &txs[n_tx];
			int all[5], k;
			memset(m, 0, sizeof *m);
			memset(f_x26_attr[n_tx], 0, sizeof f_x26_attr[n_tx]);
			f_b2b[n_tx] = 0;
			m->pgno = (pd[hex_pi].pgno & 0xF00) | 0xFD; m->mag = m->pgno >> 8; m->subno = 0;
			m->ctl = (net_serial ? CB(11) : 0) | (vf_chance(r, 1, 2) ? CB(4) : 0);
			clock += vf_range(r, 1, 5);
			make_header_text(m, clock);
			for (k = 0; k < npages; k++) all[k] = pd[k].pgno;
			u = make_mip_unit(n_tx, all, npages, pd[hex_pi].pgno);
			queue[m->mag & 7][qlen[m->mag & 7]++] = u;
			last_pg[m->mag & 7] = m->pgno;
			n_tx++;
			mip_done = 1;
			if (i >= ntx - 1) ntx = i + 2;        /* the page comes once more behind its MIP */
		}
		if (f_n830 < 2 && vf_chance(r, 1, 3)) {
			/* broadcast service data packet somewhere in between */
			struct ttx_pkt p;
			static const uint8_t rest[9] = { 0x04, 0x65, 0x87, 0x09, 0x13, 0x46, 0x21, 0x00, 0x00 };
			uint8_t status[20];
			memset(&p, 0, sizeof p);
			memcpy(status, "ZVBI verification   ", 20);
			tx_830_1(p.d, f_n830 & 1, 0x100 | (int)(vf_below(r, 10) << 4), 0x3F7F, 0x1234, rest, status);
			p.mag = 8; p.y = 30; p.kind = PK_830; p.tx = -1;
			u = n_units++; unit_len[u] = 0; unit_mag[u] = 8;
			unit_add(u, &p);
			queue[0][qlen[0]++] = u;
			f_n830++;
		}
		if (f_n830f2 < 2 && vf_chance(r, 1, 3)) {
			struct ttx_pkt p;
			f_830_2(&p, 2 + (f_n830f2 & 1), 0x100 | (int)(vf_below(r, 10) << 4), nib830);
			u = n_units++; unit_len[u] = 0; unit_mag[u] = 8;
			unit_add(u, &p);
			queue[0][qlen[0]++] = u;
			f_n830f2++;
		}
		if (n_m29 < want_m29 && chain_sub < 0 && (vf_chance(r, 1, 3) || i >= ntx - 2)) {
			struct ttx_pkt p;
			int m29mag = mags[vf_below(r, (unsigned)nm)], des = ((f_tn + n_m29) & 1) ? 4 : 0;
			f_x28_fmt1(r, &p, m29mag, 29, des, des ? PK_M29_4 : PK_M29_0, -1);
			u = n_units++; unit_len[u] = 0; unit_mag[u] = m29mag;
			unit_add(u, &p);
			queue[m29mag & 7][qlen[m29mag & 7]++] = u;
			n_m29++;
		}
	}
	while (evq_done < f_nevq) emit_table(r, f_evq[evq_done++].what, &clock, last_pg);
	for (i = 0; i < 8; i++) {
		int any = 0;
		for (j = 0; j < qlen[i]; j++) if (unit_buf[queue[i][j]][0].kind != PK_830 && unit_buf[queue[i][j]][0].kind != PK_830_2) any = 1;
		if (any) { int u = make_filler_unit(i ? i : 8); queue[i][qlen[i]++] = u; }
	}
	n_mp = 0;
	schedule(r, vf_range(r, 0, 6));
}

/* ------------------------------------------------------------------ */
/* byte roles                                                           */

enum { RO_ADDR, RO_HDRCTL, RO_HAM8, RO_HAM24, RO_TEXT, RO_HDRTEXT, RO_UNPROT, RO_COUNT };
static const char *const role_name[RO_COUNT] = { "address-control", "header-control", "ham8-data", "ham24-triplet", "row-text", "header-text", "unprotected" };

static int byte_role(const struct ttx_pkt *p, int j)
{
	if (j < 2) return RO_ADDR;
	switch (p->kind) {
	case PK_HEADER: return j < 10 ? RO_HDRCTL : RO_HDRTEXT;
	case PK_FILLER: return j < 10 ? RO_HDRCTL : RO_UNPROT;
	case PK_ROW: return RO_TEXT;
	case PK_X26: case PK_X28: return j == 2 ? RO_ADDR : RO_HAM24;
	case PK_X27: return j == 2 || j == 39 ? RO_ADDR : j < 39 ? RO_HAM8 : RO_UNPROT;
	case PK_830: return j == 2 ? RO_ADDR : j < 9 ? RO_HAM8 : RO_UNPROT;
	case PK_MIP: return RO_HAM8;
	/* BTT rows 1-20 (page type codes), 21-23 (links), MPT (subpage counts), MOT rows 1-14 and 19-24: forty Hamming 8/4 bytes */
	case PK_BTT: case PK_MPT: case PK_MOT: return RO_HAM8;
	/* AIT: two entries of 8 Hamming 8/4 bytes (page link) and 12 odd parity title characters.  The title is not a
	   text row of a page; the statement says nothing about it beyond the page number clause. */
	case PK_AIT: return ((j - 2) % 20) < 8 ? RO_HAM8 : RO_UNPROT;
	/* object page packets 1-25 (and X/26): one Hamming 8/4 byte which says what the packet holds (bit 0: pointer
	   table), then thirteen triplets */
	case PK_POP: return j == 2 ? RO_ADDR : RO_HAM24;
	case PK_M29_0: case PK_M29_4: case PK_X28_1: case PK_X28_4: return j == 2 ? RO_ADDR : RO_HAM24;
	/* X/27/4: designation, six links of two triplets, three bytes nobody reads */
	case PK_X27_4: return j == 2 ? RO_ADDR : j < 39 ? RO_HAM24 : RO_UNPROT;
	/* 8/30 format 2: designation, initial page (6), programme identification (13), status display */
	case PK_830_2: return j == 2 ? RO_ADDR : j < 22 ? RO_HAM8 : RO_UNPROT;
	default: return RO_UNPROT;
	}
}

/* ------------------------------------------------------------------ */

static struct snap S0, S1, SC, SA;
/* the state right after the header of transmission sp_tx (fault-free prefix): what the cache held for that page
   *before* this reception.  "keeps its earlier content" is judged against this, not only against the run without
   the packet, which executes the same code and loses the earlier row in the same way when the earlier copy of
   the page is not found (seeded C03-g: subtitle / newsflash pages) */
static struct snap SP;
static int sp_tx = -1;

static const struct snap_page *earlier_copy(int tx)
{
	int k;
	if (sp_tx != tx) {
		run_stream(pks, txs[tx].hdr_pos + 1, NULL, &SP);
		sp_tx = tx;
	}
	k = snap_find(&SP, txs[tx].pgno, txs[tx].subno);
	return k >= 0 ? &SP.pg[k] : NULL;
}
static struct ttx_pkt f_work[F_SLOTS];
static int f_have_s1;

static int key_transmitted(int pgno, int subno)
{
	int i;
	for (i = 0; i < n_tx; i++) if (txs[i].pgno == pgno && txs[i].subno == subno) return 1;
	return 0;
}

static const char *fault_desc(const struct ttx_pkt *p, int pi, const char *what)
{
	static char b[200];
	if (p->tx >= 0)
		snprintf(b, sizeof b, "packet %d (%s %d of page %03x/%02x, mag %d, %s mode): %s", pi, f_kind_name(p->kind), p->row,
			 txs[p->tx].pgno, txs[p->tx].subno, p->mag, net_serial ? "serial" : "parallel", what);
	else
		snprintf(b, sizeof b, "packet %d (%s, mag %d, %s mode): %s", pi, f_kind_name(p->kind), p->mag, net_serial ? "serial" : "parallel", what);
	return b;
}

/* Always: nothing stored or announced under a number that was not transmitted. */
static void check_keys(const struct snap *s, const struct ttx_pkt *p, int pi, const char *what)
{
	int i;
	for (i = 0; i < s->nk; i++)
		if (!key_transmitted(s->pg[i].pgno, s->pg[i].subno))
			vf_fail("model:C03:foreign-page-number", "%s: page %03x/%04x is cached but was never transmitted", fault_desc(p, pi, what), s->pg[i].pgno, s->pg[i].subno);
	for (i = 0; i < s->nev; i++)
		if (s->ev[i].type == VBI_EVENT_TTX_PAGE && !key_transmitted(s->ev[i].pgno, s->ev[i].subno))
			vf_fail("model:C03:foreign-page-number", "%s: page event for %03x/%04x which was never transmitted", fault_desc(p, pi, what), s->ev[i].pgno, s->ev[i].subno);
	if (s->overflow) vf_fail("harness:snapshot", "%s: snapshot overflow", fault_desc(p, pi, what));
}

static void need_s1(int pi)
{
	static uint8_t skip[F_SLOTS];
	if (f_have_s1) return;
	memset(skip, 0, sizeof skip);
	skip[pi] = 1;
	run_stream(pks, n_pk, skip, &S1);
	f_have_s1 = 1;
}

static void run_faulted(int pi, const uint8_t mask[42], struct snap *out)
{
	int j;
	memcpy(f_work, pks, sizeof pks[0] * (size_t)n_pk);
	for (j = 0; j < 42; j++) f_work[pi].d[j] ^= mask[j];
	run_stream(f_work, n_pk, NULL, out);
}

static int row_shows_nothing(const vbi_char *x)
{
	int c;
	for (c = 0; c < 40; c++) if (!uc_is_blank(x[c].unicode) || x[c].size != VBI_NORMAL_SIZE) return 0;
	return 1;
}

/* a formatted row (an unformatted snapshot is all zero) with a visible character */
static int row_shows_something(const vbi_char *x)
{
	int c;
	for (c = 0; c < 40; c++) if (x[c].unicode > 0x20 && x[c].unicode != 0xA0 && !uc_is_blank(x[c].unicode) && !x[c].conceal) return 1;
	return 0;
}

/* rule (b): text byte with a parity error */
static const char *check_parity_rule(const struct snap *cur, int pi, int hdr_text)
{
	const struct ttx_pkt *p = &pks[pi];
	const struct tx *t = &txs[p->tx];
	const struct snap *alt = hdr_text ? &S0 : &S1;
	int row = hdr_text ? 0 : p->row, k, l, r, c, cellwise = 0;
	int prev_good = !hdr_text && (t->prev_rows & (1u << row));
	const struct snap_page *bp = prev_good ? earlier_copy(p->tx) : NULL;

	if (prev_good) vf_count(bp ? "parity_rows_with_earlier_copy_reference" : "parity_rows_earlier_copy_not_cached", 1);
	if (snap_cmp_frame(cur, &S0, 0)) return "state";
	for (k = 0; k < cur->nk; k++) {
		const struct snap_page *a = &cur->pg[k], *b0 = &S0.pg[k], *b1;
		int k1 = snap_find(alt, a->pgno, a->subno);
		if (a->pgno != t->pgno || a->subno != t->subno) {
			if (page_cmp(a, b0)) return "other-page";
			continue;
		}
		b1 = k1 >= 0 ? &alt->pg[k1] : b0;
		for (l = 0; l < 3; l++) {
			if (memcmp(a->nav[l], b0->nav[l], sizeof a->nav[l]) && memcmp(a->nav[l], b1->nav[l], sizeof a->nav[l])) {
				snprintf(f_why, sizeof f_why, "page %03x/%02x level %s: navigation links differ from both the fault-free run and the run without the packet", a->pgno, a->subno, f_level_name[l]);
				return "other-row";
			}
			for (r = 0; r < 25; r++) {
				const vbi_char *x = &a->text[l][r * 41], *y0 = &b0->text[l][r * 41], *y1 = &b1->text[l][r * 41];
				if (!memcmp(x, y0, 41 * sizeof *x)) continue;
				/* "the row keeps its earlier content": a good row was received before and the page
				   showed something in it before this reception (prefix run), but now the row is
				   completely blank.  The run without the packet cannot tell: it executes the same
				   code and loses the earlier row the same way.  Only "completely blank" is judged
				   against the earlier copy, cell contents are not: the earlier row is displayed
				   with the attributes of the page as it is now (X/28, the row above). */
				if (bp && r == row && l == 0 && row_shows_nothing(x) && row_shows_something(&bp->text[0][r * 41])) {
					snprintf(f_why, sizeof f_why, "page %03x/%02x level %s: row %d is blank; before this reception the page showed text in that row (a good row was received before, erase flag clear), the fault-free run shows the new row",
						 a->pgno, a->subno, f_level_name[l], r);
					return "replaced-good-row";
				}
				if (!memcmp(x, y1, 41 * sizeof *x)) continue;
				if (r != row && r != row + 1) {
					snprintf(f_why, sizeof f_why, "page %03x/%02x level %s: row %d differs from both the fault-free run and the run without the packet", a->pgno, a->subno, f_level_name[l], r);
					return "other-row";
				}
				cellwise = 1;
				for (c = 0; c < 40; c++) {
					if (!hdr_text && t->x26_pos[row][c]) continue;
					/* the right half of a double-width/size character belongs to the
					   character cell at c-1: excepted when that position is X/26-addressed */
					if (!hdr_text && c > 0 && t->x26_pos[row][c - 1]
					    && (x[c].size == VBI_OVER_TOP || x[c].size == VBI_OVER_BOTTOM)) continue;
					if (x[c].unicode == y0[c].unicode && x[c].size == y0[c].size) continue;
					if (x[c].unicode == y1[c].unicode && x[c].size == y1[c].size) continue;
					if (uc_is_blank(x[c].unicode) && !prev_good) continue;
					snprintf(f_why, sizeof f_why, "page %03x/%02x level %s row %d col %d shows U+%04X size %d; fault-free U+%04X size %d, %s U+%04X size %d%s",
						 a->pgno, a->subno, f_level_name[l], r, c, x[c].unicode, x[c].size, y0[c].unicode, y0[c].size,
						 hdr_text ? "-" : (bp && r == row) ? "earlier content (page before this reception)" : "earlier content (run without the packet)", y1[c].unicode, y1[c].size, prev_good ? " (a good row was received before)" : "");
					return uc_is_blank(x[c].unicode) ? "replaced-good-row" : "different-character";
				}
			}
		}
	}
	(void)cellwise;
	return NULL;
}

static struct ttx_pkt f_alt[F_SLOTS];

/* removes the pages numbered pgno from a snapshot */
static void snap_drop_pgno(struct snap *s, int pgno)
{
	int i, k = 0;
	for (i = 0; i < s->nk; i++)
		if (s->pg[i].pgno != pgno) { if (k != i) s->pg[k] = s->pg[i]; k++; }
	s->nk = k;
}

static struct snap SX;

/* uncorrectable header: some subset of the pages in progress is abandoned, nothing else.
 * A BTT, MPT or MOT in progress is a special case: the decoder applies each of their rows to the network or
 * magazine state when it arrives and stores the page itself when it terminates.  Abandoning such a table
 * cannot take back the rows which came before the damaged header; it loses the rows behind it and does not
 * store the page.  For these there is a second form of "abandoned": the packets behind the damaged header
 * are removed, and whether the table page itself is in the cache is not compared. */
static int check_header_rule(const struct snap *cur, int pi)
{
	int cand[10], cmode[10], nc = 0, m, i, sub;
	static uint8_t skip[F_SLOTS];
	/* transmissions in progress at packet pi: open in any magazine, terminated by it, or opened by it */
	for (i = 0; i < n_tx; i++)
		if (txs[i].hdr_pos <= pi && pi <= txs[i].term_pos && nc < 10) { cmode[nc] = 0; cand[nc++] = i; }
	/* A header repeating the page number of the page in progress (next subpage of a carousel sent
	   right behind, no erase flag) continues that page for this decoder in every run, the fault-free
	   one included.  So the transmission in front of such a header is still in progress with it, and
	   a reference that abandons the second must be able to abandon the first as well: replacing the
	   second header by a time filling header would otherwise terminate and store the first, which
	   no run with the real header does. */
	for (m = 0; m < nc; m++)
		if (f_b2b[cand[m]] && nc < 10) {
			for (i = 0; i < nc; i++) if (cand[i] == cand[m] - 1) break;
			if (i == nc) { cmode[nc] = 0; cand[nc++] = cand[m] - 1; }
		}
	for (m = nc - 1; m >= 0; m--)
		if (kind_immediate(f_tx_kind[cand[m]]) && txs[cand[m]].hdr_pos < pi && nc < 10) { cmode[nc] = 1; cand[nc++] = cand[m]; }
	for (sub = 0; sub < (1 << nc); sub++) {
		int drop[10], nd = 0, twice = 0;
		for (m = 0; m < nc; m++)
			if (cmode[m] == 1 && (sub & (1 << m)))
				for (i = 0; i < nc; i++) if (i != m && cand[i] == cand[m] && (sub & (1 << i))) twice = 1;
		if (twice) continue;
		memcpy(f_alt, pks, sizeof pks[0] * (size_t)n_pk);
		memset(skip, 0, sizeof skip);
		for (m = 0; m < nc; m++) {
			if (!(sub & (1 << m))) continue;
			if (cmode[m] == 1) {
				for (i = pi + 1; i < n_pk; i++) if (pks[i].tx == cand[m]) skip[i] = 1;
				drop[nd++] = txs[cand[m]].pgno;
				continue;
			}
			for (i = 0; i < n_pk; i++) {
				if (pks[i].tx != cand[m]) continue;
				if (pks[i].kind == PK_HEADER) {
					/* keep the termination point of the previous page: time filling header instead */
					uint8_t text[32];
					memcpy(text, hdr_tmpl, 24); memset(text + 24, 0x20, 8);
					tx_header(f_alt[i].d, pks[i].mag, 0xFF, 0x3F7F, net_serial ? CB(11) : 0, 0, text);
				} else skip[i] = 1;
			}
		}
		/* an own header that was abandoned never opened its page */
		run_stream(f_alt, n_pk, skip, &SA);
		if (nd) {
			SX = *cur;
			for (i = 0; i < nd; i++) { snap_drop_pgno(&SX, drop[i]); snap_drop_pgno(&SA, drop[i]); }
			if (!snap_cmp(&SX, &SA, 0)) { vf_count("headers_uncorrectable_table_in_progress_cut_short", 1); return (int)tx_pop((unsigned)sub) + 1; }
		} else if (!snap_cmp(cur, &SA, 0)) return (int)tx_pop((unsigned)sub) + 1;
		vf_log("  abandoned set 0x%x: %s\n", sub, f_why);
		if (vf_verbose) { int q; for (q = 0; q < SA.nk; q++) vf_log("     ref key %03x/%02x\n", SA.pg[q].pgno, SA.pg[q].subno);
			for (q = 0; q < cur->nk; q++) vf_log("     cur key %03x/%02x\n", cur->pg[q].pgno, cur->pg[q].subno); }
	}
	return 0;
}

/* Reports of the one named cause below do not end the case (the other faults of the packet are still injected and judged). */
static int f_soft;
#define F_HARD_FAILED() (vf_failed() - f_soft > 0)

/* Transmission ti of the object page: does the decoder not know the function of the page when its packets arrive (no
 * MIP which declares it has terminated before), is the erase flag clear, and was the page stored before? */
static int pop_row_held_function_unknown(int ti)
{
	int i, e1, e2, held = 0;
	if (ti < 0 || f_tx_kind[ti] != PK_POP || (txs[ti].ctl & CB(4))) return 0;
	for (i = 0; i < n_tx; i++) {
		if (i != ti && f_tx_kind[i] == PK_POP && txs[i].term_pos >= 0 && txs[i].term_pos <= txs[ti].hdr_pos) held = 1;
		if (!f_tx_kind[i] && (txs[i].pgno & 0xFF) == 0xFD && (txs[i].pgno >> 8) == (f_pop_pgno >> 8) && f_hex_pgno
		    && mip_slot(f_pop_pgno & 0xFF, &e1) == mip_slot(f_hex_pgno & 0xFF, &e2) && e1 < 20
		    && txs[i].term_pos >= 0 && txs[i].term_pos <= txs[ti].hdr_pos) return 0;
	}
	return held;
}

/* Evidence that the system pages of the extension do something the snapshot can see (fault-free run S0). */
static void count_new_coverage(void)
{
	static uint8_t skip[F_SLOTS];
	int i, k, l;
	if (f_fam_top) {
		int changed = 0, nav = 0;
		vf_count("transmissions_with_top_tables", 1);
		/* the same transmission without the Basic TOP Table */
		memset(skip, 0, sizeof skip);
		for (i = 0; i < n_pk; i++) if (pks[i].tx >= 0 && f_tx_kind[pks[i].tx] == PK_BTT) skip[i] = 1;
		run_stream(pks, n_pk, skip, &SX);
		for (i = 0; i < n_tx; i++) {
			int x = txs[i].pgno - 0x100;
			if (f_tx_kind[i]) continue;
			if (S0.cls[x] != SX.cls[x] || S0.clsub[x] != SX.clsub[x]) changed = 1;
		}
		for (i = 0; i < 0x800; i++) if (S0.cls[i] != SX.cls[i]) { vf_count("page_numbers_classified_differently_because_of_btt", 1); }
		if (changed) vf_count("transmissions_where_btt_changed_classification_of_a_transmitted_page", 1);
		for (k = 0; k < S0.nk; k++) {
			int flof = 0, kx = snap_find(&SX, S0.pg[k].pgno, S0.pg[k].subno);
			for (i = 0; i < n_tx; i++) if (txs[i].pgno == S0.pg[k].pgno && txs[i].subno == S0.pg[k].subno && txs[i].has_flof) flof = 1;
			if (flof || kx < 0) continue;
			/* the navigation row and links TOP gives a page without FLOF */
			if (memcmp(S0.pg[k].nav[1], SX.pg[kx].nav[1], sizeof S0.pg[k].nav[1])
			    || memcmp(&S0.pg[k].text[1][24 * 41], &SX.pg[kx].text[1][24 * 41], 41 * sizeof(vbi_char))) nav++;
		}
		vf_count("pages_with_top_navigation_row", nav);
		if (nav) vf_count("transmissions_with_top_navigation_row", 1);
		if (S0.top_ok) vf_count("transmissions_with_top_index_page", 1);
		vf_count("page_titles_from_ait", S0.n_titles);
	}
	if (f_fam_mot) {
		int shown = 0;
		static const char *const vn[3] = { "transmissions_with_default_object_from_mot", "transmissions_with_x26_invocation_through_mot", "transmissions_with_x26_invocation_through_x27_4" };
		vf_count("transmissions_with_mot_and_object_page", 1);
		vf_count(vn[f_mot_variant], 1);
		for (k = 0; k < S0.nk; k++) {
			const vbi_char *a, *b;
			if (S0.pg[k].pgno != f_obj_pgno) continue;
			a = &S0.pg[k].text[2][f_obj_row * 41 + f_obj_col]; b = &S0.pg[k].text[1][f_obj_row * 41 + f_obj_col];
			if (a[0].unicode == 'O' && a[1].unicode == 'b' && a[2].unicode == 'j' && b[0].unicode != 'O') shown++;
			else vf_log("  page %03x/%04x: level 2.5 U+%04X U+%04X U+%04X, level 1.5 U+%04X\n", S0.pg[k].pgno, S0.pg[k].subno, a[0].unicode, a[1].unicode, a[2].unicode, b[0].unicode);
		}
		vf_count("pages_where_level_2p5_differs_from_1p5_because_of_an_object", shown);
		if (shown) vf_count("transmissions_with_object_displayed_at_level_2p5", 1);
		else vf_log("  object of page %03x (variant %d, object page %03x, row %d col %d) is not displayed\n", f_obj_pgno, f_mot_variant, f_pop_pgno, f_obj_row, f_obj_col);
	}
	(void)l;
}

static int run_faults(struct vf_rng *r, long idx)
{
	long tn = idx / F_SLOTS;
	int pi = (int)(idx % F_SLOTS), j, b, b2, role, nsamp;
	struct vf_rng g;
	const struct ttx_pkt *p;
	uint8_t mask[42];
	long nA = 0, nB = 0, nC = 0;

	vf_rng_seed(&g, vf_seed, 700000u + (uint64_t)tn);
	f_tn = (int)tn;
	gen_small_network(&g);
	if (n_pk > F_SLOTS) {
		if (pi == 0) vf_fail("harness:C03:transmission-too-long", "transmission %ld has %d packets, the case index has room for %d", tn, n_pk, F_SLOTS);
		n_pk = F_SLOTS;
	}
	if (pi >= n_pk) return 0;
	p = &pks[pi];
	f_have_s1 = 0;
	f_soft = 0;
	sp_tx = -1;
	run_stream(pks, n_pk, NULL, &S0);
	if (pi == 0) {
		vf_sample("transmission %ld: %s mode, %d page transmissions, %d packets, %d pages cached and %d events in the fault-free run",
			  tn, net_serial ? "serial" : "parallel", n_tx, n_pk, S0.nk, S0.nev);
		vf_count("transmissions", 1);
		if (f_hex_pgno) vf_count("transmissions_with_hex_page_and_mip", 1);
		if (f_clock_pgno) vf_count("transmissions_with_four_digit_subcode", 1);
		vf_count("transmission_packets", n_pk);
		count_new_coverage();
		/* the fault-free run itself must be reproducible and contain only transmitted pages */
		run_stream(pks, n_pk, NULL, &SC);
		if (snap_cmp(&SC, &S0, 1)) vf_fail("harness:C03:nondeterministic", "two fault-free runs differ: %s", f_why);
	}
	check_keys(&S0, p, pi, "fault-free run");
	if (vf_verbose) {
		int i;
		for (i = 0; i < n_pk; i++)
			vf_log("  pkt %3d: mag %d %-6s %2d  %s%03x/%02x%s\n", i, pks[i].mag, f_kind_name(pks[i].kind), pks[i].row,
			       pks[i].tx >= 0 ? "page " : "", pks[i].tx >= 0 ? txs[pks[i].tx].pgno : 0, pks[i].tx >= 0 ? txs[pks[i].tx].subno : 0,
			       (pks[i].kind == PK_HEADER && (txs[pks[i].tx].ctl & CB(4))) ? " erase" : "");
		for (i = 0; i < S0.nev; i++)
			vf_log("  fault-free event %d: type 0x%x %03x/%02x at packet %d\n", i, S0.ev[i].type, S0.ev[i].pgno, S0.ev[i].subno, S0.ev[i].pos);
	}

	/* A / B: every single-bit fault */
	for (j = 0; j < 42 && !F_HARD_FAILED(); j++) {
		role = byte_role(p, j);
		for (b = 0; b < 8 && !F_HARD_FAILED(); b++) {
			char what[64];
			memset(mask, 0, sizeof mask);
			mask[j] = (uint8_t)(1u << b);
			snprintf(what, sizeof what, "byte %d bit %d flipped", j, b);
			run_faulted(pi, mask, &SC);
			check_keys(&SC, p, pi, what);
			switch (role) {
			case RO_ADDR: case RO_HDRCTL: case RO_HAM8: case RO_HAM24:
				nA++;
				if (snap_cmp(&SC, &S0, 1)) {
					char key[96];
					snprintf(key, sizeof key, "model:C03:single-error-not-corrected:%s:%s", f_kind_name(p->kind), role_name[role]);
					vf_fail(key, "%s: state differs from the error-free transmission: %s", fault_desc(p, pi, what), f_why);
				} else vf_sig("kind=%s role=%s outcome=corrected", f_kind_name(p->kind), role_name[role]);
				break;
			case RO_TEXT: case RO_HDRTEXT: {
				const char *bad;
				const struct tx *t = &txs[p->tx];
				nB++;
				if (role == RO_TEXT && f_x26_attr[p->tx][p->row][j - 2]) vf_count("parity_faults_at_x26_attribute_position", 1);
				if (role == RO_TEXT) need_s1(pi);
				bad = check_parity_rule(&SC, pi, role == RO_HDRTEXT);
				if (bad) {
					char key[96];
					snprintf(key, sizeof key, "model:C03:parity:%s:%s", role == RO_TEXT ? "row" : "header", bad);
					/* own key for one cause: the byte sits at a position addressed by X/26, the decoder
					 * repairs its parity bit and the damaged code is now a spacing attribute */
					if (role == RO_TEXT && t->x26_pos[p->row][j - 2] && b < 7 && ((t->row[p->row][j - 2] ^ (1u << b)) & 0x7F) < 0x20)
						snprintf(key, sizeof key, "model:C03:parity:row:x26-position-becomes-attribute");
					vf_fail(key, "%s (code %02x): %s", fault_desc(p, pi, what), role == RO_TEXT ? t->row[p->row][j - 2] : t->hdr[j - 10], f_why);
				} else {
					const char *o = role == RO_HDRTEXT ? "header-char-blanked"
						: !snap_cmp(&SC, &S1, 0) ? ((t->prev_rows & (1u << p->row)) ? "row-kept-earlier-content" : "row-stayed-blank")
						: t->x26_pos[p->row][j - 2] ? "x26-position-accepted" : "row-partially-shown";
					vf_sig("kind=%s role=%s outcome=%s", f_kind_name(p->kind), role_name[role], o);
					vf_count(o, 1);
				}
				break; }
			default:
				vf_sig("kind=%s role=%s outcome=keys-contained", f_kind_name(p->kind), role_name[role]);
				break;
			}
		}
	}

	/* B2: single-bit faults in two or three different text bytes of one row (sampled): the row has parity errors,
	   however many, and is judged by the same rule as B (seeded C03-j: a gate that counts the damaged bytes modulo 2) */
	if (p->kind == PK_ROW) {
		long nB2 = 0;
		for (b = 0; b < (vf_tier ? 24 : 8) && !F_HARD_FAILED(); b++) {
			char what[96];
			const char *bad;
			int nb = vf_chance(r, 3, 4) ? 2 : 3, k, jj[3] = { 0, 0, 0 }, bb[3] = { 0, 0, 0 };
			memset(mask, 0, sizeof mask);
			for (k = 0; k < nb; k++) {
				do jj[k] = vf_range(r, 2, 41); while (mask[jj[k]]);
				bb[k] = (int)vf_below(r, 8);
				mask[jj[k]] = (uint8_t)(1u << bb[k]);
			}
			snprintf(what, sizeof what, "byte %d bit %d and byte %d bit %d%s flipped", jj[0], bb[0], jj[1], bb[1], nb == 3 ? " and a third byte" : "");
			run_faulted(pi, mask, &SC);
			check_keys(&SC, p, pi, what);
			need_s1(pi);
			nB2++;
			bad = check_parity_rule(&SC, pi, 0);
			if (bad) {
				char key[96];
				snprintf(key, sizeof key, "model:C03:parity:row:%s", bad);
				vf_fail(key, "%s: %s", fault_desc(p, pi, what), f_why);
			} else vf_sig("kind=row role=row-text outcome=%d-damaged-bytes-contained", nb);
		}
		vf_count("faults_parity_in_several_bytes_of_a_row", nB2);
	}

	/* C: two bit errors inside one protected byte */
	for (j = 0; j < 42 && !F_HARD_FAILED(); j++) {
		role = byte_role(p, j);
		if (role == RO_TEXT || role == RO_HDRTEXT || role == RO_UNPROT) continue;
		nsamp = role == RO_ADDR ? 28 : role == RO_HDRCTL ? (vf_tier ? 28 : 3) : (vf_tier ? 4 : 1);
		for (b = 0; b < 8 && !F_HARD_FAILED(); b++)
			for (b2 = b + 1; b2 < 8 && !F_HARD_FAILED(); b2++) {
				char what[64];
				if (nsamp < 28 && !vf_chance(r, (unsigned)nsamp, 28)) continue;
				memset(mask, 0, sizeof mask);
				mask[j] = (uint8_t)(1u << b | 1u << b2);
				snprintf(what, sizeof what, "byte %d bits %d and %d flipped", j, b, b2);
				run_faulted(pi, mask, &SC);
				check_keys(&SC, p, pi, what);
				nC++;
				if (role == RO_ADDR) {
					need_s1(pi);
					if (snap_cmp(&SC, &S1, 1)) {
						char key[128];
						const char *ctx = "";
						snprintf(key, sizeof key, "model:C03:uncorrectable-address-changed-state:%s", f_kind_name(p->kind));
						/* own key for one cause: the packet (pointer table or the definition of the object which is
						   displayed) belongs to an object page whose function the decoder does not know at that moment
						   (no MIP has declared it), the page is retransmitted without erase flag and the cache holds
						   this packet from an earlier reception: the damaged packet replaces the good one */
						if (p->kind == PK_POP && j == 2 && (p->row == 1 || p->row == f_obj.dpkt) && pop_row_held_function_unknown(p->tx)) {
							snprintf(key, sizeof key, "model:C03:uncorrectable-address-changed-state:pop:function-unknown-replaces-held-packet");
							ctx = " [object page function unknown to the decoder, no erase flag, packet held from an earlier reception]";
							vf_count("uncorrectable_first_byte_replaced_held_object_page_packet", 1);
							if (f_soft++) { f_soft--; continue; }      /* once a case */
						}
						vf_fail(key, "%s%s: state differs from the transmission without this packet: %s", fault_desc(p, pi, what), ctx, f_why);
					} else vf_sig("kind=%s role=%s outcome=dropped", f_kind_name(p->kind), role_name[role]);
				} else if (role == RO_HDRCTL) {
					int n = check_header_rule(&SC, pi);
					if (!n && vf_verbose) {
						int i;
						for (i = 0; i < SC.nev; i++)
							vf_log("  faulted run event %d: type 0x%x %03x/%02x at packet %d\n", i, SC.ev[i].type, SC.ev[i].pgno, SC.ev[i].subno, SC.ev[i].pos);
					}
					if (!n)
						vf_fail("model:C03:uncorrectable-header-not-contained", "%s: state is not the error-free state with some of the pages in progress abandoned; versus error-free: %s",
							fault_desc(p, pi, what), (snap_cmp(&SC, &S0, 0), f_why));
					else {
						int rotating = p->kind == PK_HEADER && f_b2b[p->tx];
						vf_sig("kind=%s role=%s outcome=abandoned-%d%s", f_kind_name(p->kind), role_name[role], n - 1, rotating ? " between-subpages" : "");
						vf_count("headers_uncorrectable", 1);
						if (rotating) {
							const struct tx *t0 = &txs[p->tx - 1];   /* the subpage in progress */
							vf_count("headers_uncorrectable_between_subpages", 1);
							if (t0->prev_rows && !(t0->ctl & CB(4))) vf_count("headers_uncorrectable_between_subpages_first_cached_no_erase", 1);
						}
					}
				} else
					vf_sig("kind=%s role=%s outcome=keys-contained-double", f_kind_name(p->kind), role_name[role]);
			}
	}
	/* D: bursts, at most two errors per byte; E: the packet is lost */
	for (b = 0; b < (vf_tier ? 8 : 3) && !F_HARD_FAILED(); b++) {
		int start = vf_range(r, 0, 38), len = vf_range(r, 2, 5);
		memset(mask, 0, sizeof mask);
		for (j = start; j < start + len && j < 42; j++) {
			mask[j] = (uint8_t)(1u << vf_below(r, 8));
			if (vf_chance(r, 1, 2)) mask[j] |= (uint8_t)(1u << vf_below(r, 8));
		}
		run_faulted(pi, mask, &SC);
		check_keys(&SC, p, pi, "burst");
		vf_count("faults_burst", 1);
		vf_sig("kind=%s role=burst outcome=keys-contained", f_kind_name(p->kind));
	}
	if (!F_HARD_FAILED()) {
		need_s1(pi);
		check_keys(&S1, p, pi, "packet lost");
		vf_count("faults_dropped_packet", 1);
		vf_sig("kind=%s role=dropped outcome=keys-contained", f_kind_name(p->kind));
	}
	vf_count("faults_single_hamming", nA);
	vf_count("faults_single_parity", nB);
	vf_count("faults_double", nC);
	vf_count("decoder_runs", f_runs); f_runs = 0;
	{ char n[32]; snprintf(n, sizeof n, "packets_%s", f_kind_name(p->kind)); vf_count(n, 1); }
	if (p->kind == PK_HEADER && f_b2b[p->tx]) vf_count("packets_header_following_same_page_header", 1);
	return 1;
}
