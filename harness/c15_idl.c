/* C15, IDL format A half.  Independent packetiser and reference parser written
 * from EN 300 708 section 6.5:
 *
 *   bytes 0-1  packet address, Hamming 8/4: data channel = magazine bits + Y0,
 *              second byte 1111 (packet 30 / 31)
 *   byte 2     FT   Hamming 8/4: bit0 = 0 format A, bit1 RI present, bit2 CI
 *              present, bit3 DL present
 *   byte 3     IAL  Hamming 8/4: bits0-2 number of address nibbles 0..6 (7
 *              reserved), bit3 "dependent" interpretation
 *   SPA        0..6 Hamming 8/4 nibbles (least significant first, as the API's
 *              integer address is defined)
 *   [RI]       bits0-3 repeat number (0 = first transmission), bit7 = this
 *              packet will be repeated again.  Not covered by the CRC.
 *   [CI]       explicit continuity index, +1 per new packet of the service
 *   [DL]       bits0-5: number of bytes occupied in the user data area
 *   user data  up to the last two bytes; dummy byte after eight equal bytes
 *              0x00 / 0xFF (6.5.7.1), counted in the CRC-protected byte group
 *              [CI][DL]user-data as it appears on the wire
 *   CRC        2 bytes, generator x^16+x^9+x^7+x^4+1, register cleared at the
 *              start, fed with the bytes from CI (or DL / user data) LSB first.
 *              The receiver feeds the two check bytes through the same
 *              register.  Explicit CI: the register then holds zero.  Implicit
 *              CI: the check word is chosen so that the register then reads
 *              the CI value in both bytes.
 */
#include "c15_common.h"
#include "libzvbi.h"

#define MAXLP 16
#define MAXW 4096
#define MAXDEL 200

struct conf {
	int channel, have_ri, have_ci, have_dl, alen, dependent;
	unsigned addr;
};

struct lpk {                    /* logical packet of the selected service */
	int ci, nrep;
	uint8_t user[40]; int nuser;
	int ndummy, endrun;     /* dummies inserted; run length of 00/FF at the end of the data area */
	int orig_ok;            /* original copy fed intact */
	int any_ok;             /* any copy fed intact */
	int ndeliv;
	int ambig;              /* readings of the dummy rule differ for this packet */
};

enum { F_OK = 0, F_BENIGN, F_CRC, F_HAMM, F_DROP /* long mode: this copy is not fed */ };

struct wire {
	uint8_t b[42];
	int lp;                 /* logical packet or -1 (foreign) */
	int rep, fate;
	int svc;                /* long mode: service 0 / 1, -1 foreign */
};

struct deliv { int w; unsigned n, flags; uint8_t d[64]; int toolong; };

static struct lpk lp[MAXLP];
static struct wire wv[MAXW];
static int n_lp, n_w;
static struct deliv dv[MAXDEL];
static int n_dv, cur_w;

/* ---- CRC as polynomial division, bit by bit (no table, not reflected) ---- */

static unsigned crc_feed(unsigned r, const uint8_t *p, int n)
{
	int i, k;
	for (i = 0; i < n; i++)
		for (k = 0; k < 8; k++) {          /* LSB is transmitted first = highest coefficient */
			unsigned m = (p[i] >> k) & 1;
			unsigned fb = ((r >> 15) & 1) ^ m;
			r = (r << 1) & 0xFFFF;
			if (fb) r ^= 0x0291;       /* x^9 + x^7 + x^4 + 1 */
		}
	return r;
}

/* remainder -> the two bytes in transmission order (x^15 goes first, into bit 0 of the first byte) */
static void crc_bytes(unsigned r, uint8_t out[2])
{
	int k;
	out[0] = out[1] = 0;
	for (k = 0; k < 8; k++) {
		out[0] |= (uint8_t)(((r >> (15 - k)) & 1) << k);
		out[1] |= (uint8_t)(((r >> (7 - k)) & 1) << k);
	}
}

/* The receiver feeds data and check bytes alike through the same register; its
 * content afterwards, in transmission byte order. */
static void crc_residue(const uint8_t *p, int n, uint8_t out[2])
{
	crc_bytes(crc_feed(0, p, n), out);
}

/* t * x^-16 mod G: the check word that leaves t in the receiver's register
 * when everything before it left zero */
static unsigned crc_unstep16(unsigned t)
{
	int i;
	for (i = 0; i < 16; i++)
		t = (t & 1) ? (((t ^ 0x0291) >> 1) | 0x8000) : (t >> 1);
	return t;
}

/* register value that reads (a, b) in transmission byte order */
static unsigned crc_from_bytes(unsigned a, unsigned b)
{
	unsigned r = 0; int k;
	for (k = 0; k < 8; k++) {
		r |= ((a >> k) & 1) << (15 - k);
		r |= ((b >> k) & 1) << (7 - k);
	}
	return r;
}

/* ---- packetiser ---- */

static int hdr_len(const struct conf *c) { return c->alen + c->have_ri + c->have_ci + c->have_dl; }
static int capacity(const struct conf *c) { return 36 - hdr_len(c); }

/* wire[]: user data area as transmitted (with dummies), nwire bytes (DL counts these);
 * the rest of the area up to the CRC is filled with fill[] */
static void build_packet(uint8_t out[42], const struct conf *c, int ri, int ci,
			 const uint8_t *wire, int nwire, struct vf_rng *r)
{
	int p = 0, i, start;
	uint8_t ck[2];
	out[p++] = c15_ham84((unsigned)c->channel);
	out[p++] = c15_ham84(15);
	out[p++] = c15_ham84((unsigned)(c->have_ri << 1 | c->have_ci << 2 | c->have_dl << 3));
	out[p++] = c15_ham84((unsigned)(c->alen | c->dependent << 3));
	for (i = 0; i < c->alen; i++)
		out[p++] = c15_ham84((c->addr >> (4 * i)) & 15);
	if (c->have_ri) out[p++] = (uint8_t)ri;
	start = p;
	if (c->have_ci) out[p++] = (uint8_t)ci;
	if (c->have_dl) out[p++] = (uint8_t)nwire;
	for (i = 0; i < nwire; i++) out[p++] = wire[i];
	while (p < 40) out[p++] = (uint8_t)(r ? vf_below(r, 256) : 0x5A);
	{
		unsigned rem = crc_feed(0, out + start, 40 - start);
		/* implicit CI: the receiver's register shall read CI, CI instead of 0, 0 */
		if (!c->have_ci) rem ^= crc_unstep16(crc_from_bytes((unsigned)ci, (unsigned)ci));
		crc_bytes(rem, ck);
	}
	out[40] = ck[0];
	out[41] = ck[1];
}

/* ---- reference parser (one packet, stateless) ---- */

struct parsed {
	int hamm_err;           /* uncorrectable Hamming error in a field we had to read */
	int channel, desig, ft, ial, alen, dependent, ri, ci, crc_ok;
	unsigned addr;
	uint8_t data[40]; int n;
};

/* quirk=1: the run counter of the dummy-byte rule is seeded with the CI value
 * even when CI is not the byte in front of the user data (implicit CI, or DL in between) */
static void ref_parse(const uint8_t b[42], struct parsed *q, int quirk)
{
	int i, p, start, v, n, hist, cnt;
	uint8_t res[2];
	memset(q, 0, sizeof *q);
	q->channel = c15_unham84(b[0]);
	q->desig = c15_unham84(b[1]);
	if (q->channel < 0 || q->desig < 0) { q->hamm_err = 1; return; }
	if (q->desig != 15) return;
	q->ft = c15_unham84(b[2]);
	q->ial = c15_unham84(b[3]);
	if (q->ft < 0 || q->ial < 0) { q->hamm_err = 1; return; }
	q->alen = q->ial & 7;
	q->dependent = (q->ial >> 3) & 1;
	if ((q->ft & 1) || q->alen == 7) return;
	p = 4;
	for (i = 0; i < q->alen; i++) {
		v = c15_unham84(b[p++]);
		if (v < 0) { q->hamm_err = 1; return; }
		q->addr |= (unsigned)v << (4 * i);
	}
	if (q->ft & 2) q->ri = b[p++];
	start = p;
	crc_residue(b + start, 42 - start, res);
	if (q->ft & 4) {
		q->ci = b[p++];
		q->crc_ok = (res[0] == 0 && res[1] == 0);
	} else {
		q->ci = res[0];
		q->crc_ok = (res[0] == res[1]);
	}
	if (q->ft & 8) {
		n = b[p++] & 0x3F;
		if (n > 40 - p) n = 40 - p;
	} else
		n = 40 - p;
	/* dummy byte removal over the byte group CI, DL, user data as on the wire */
	hist = -1; cnt = 0;
	if (((q->ft & 4) && !(q->ft & 8)) || quirk) {
		hist = q->ci;
		cnt = (hist == 0 || hist == 0xFF) ? 1 : 0;
	}
	/* receiver side of the rule: a byte that follows exactly eight equal 0x00/0xFF bytes
	   and differs from them is the dummy byte */
	for (i = 0; i < n; i++) {
		int t = b[p + i];
		if ((t == 0 || t == 0xFF) && t == hist) {
			cnt++;
		} else {
			int dummy = (cnt == 8);
			hist = t; cnt = (t == 0 || t == 0xFF) ? 1 : 0;
			if (dummy) continue;      /* the dummy is a byte on the wire like any other for what follows */
		}
		q->data[q->n++] = (uint8_t)t;
	}
}

/* ---- generator ---- */

struct ugen { int mode, left, val; };

static int next_user(struct vf_rng *r, struct ugen *g)
{
	if (g->left <= 0) {
		switch (vf_below(r, 8)) {
		case 0: case 1: case 2:       /* long run of 00 / FF */
			g->mode = 1; g->val = vf_chance(r, 1, 2) ? 0x00 : 0xFF;
			g->left = vf_chance(r, 1, 3) ? vf_range(r, 7, 9) : vf_range(r, 1, 30);
			break;
		case 3:                        /* run of another value: no stuffing */
			g->mode = 1; g->val = vf_chance(r, 1, 2) ? 0xAA : (int)vf_below(r, 256);
			g->left = vf_range(r, 6, 12);
			break;
		default:
			g->mode = 0; g->left = vf_range(r, 1, 9);
		}
	}
	g->left--;
	if (g->mode) return g->val;
	return vf_chance(r, 1, 6) ? (vf_chance(r, 1, 2) ? 0x00 : 0xFF) : (int)vf_below(r, 256);
}

static int is_run_byte(int t) { return t == 0 || t == 0xFF; }

/* Fill the user data area of one packet.  Returns number of wire bytes. */
static int gen_payload_pre(struct vf_rng *r, const struct conf *c, struct lpk *l, struct ugen *g,
			   uint8_t *wire, int want_ambig, const uint8_t *pre, int npre)
{
	int cap = capacity(c), nwire, w = 0, hist = -1, cnt = 0, first = 1;
	int ci_adjacent = c->have_ci && !c->have_dl;
	int ci_run = is_run_byte(l->ci);
	if (c->have_dl) {
		switch (vf_below(r, 6)) {
		case 0: nwire = cap; break;
		case 1: nwire = vf_range(r, 0, 2); break;
		default: nwire = vf_range(r, 0, cap);
		}
	} else
		nwire = cap;
	if (npre && nwire < npre + 1) nwire = npre + 1;
	if (ci_adjacent) { hist = l->ci; cnt = ci_run ? 1 : 0; }
	l->nuser = l->ndummy = 0; l->ambig = 0;
	if (want_ambig && ci_run && !ci_adjacent) {   /* 7 or 8 bytes equal to the (not adjacent) CI value first */
		g->mode = 1; g->val = l->ci; g->left = vf_range(r, 7, 9);
	}
	while (w < nwire) {
		int u = (l->nuser < npre) ? pre[l->nuser] : next_user(r, g);
		if (first && ci_run && !ci_adjacent && u == l->ci && !want_ambig) {
			/* keep out of the class where readings of 6.5.7.1 differ */
			u ^= 0x5A; g->left = 0;
		}
		if (first && ci_run && !ci_adjacent && u == l->ci) l->ambig = 1;
		first = 0;
		wire[w++] = (uint8_t)u;
		l->user[l->nuser++] = (uint8_t)u;
		if (is_run_byte(u) && u == hist) cnt++;
		else { hist = u; cnt = is_run_byte(u) ? 1 : 0; }
		if (cnt == 8 && w < nwire) {
			int d;
			switch (vf_below(r, 3)) {
			case 0: d = 0xAA; break;
			case 1: d = 0x55; break;
			default: d = vf_range(r, 1, 0xFE);
			}
			wire[w++] = (uint8_t)d;
			l->ndummy++;
			hist = d; cnt = 0;
		}
	}
	l->endrun = cnt;
	return nwire;
}

static int gen_payload(struct vf_rng *r, const struct conf *c, struct lpk *l, struct ugen *g,
		       uint8_t *wire, int want_ambig)
{
	return gen_payload_pre(r, c, l, g, wire, want_ambig, NULL, 0);
}

static void gen_conf(struct vf_rng *r, struct conf *c)
{
	int opts = (int)vf_below(r, 8);
	c->channel = (int)vf_below(r, 16);
	c->have_ri = opts & 1; c->have_ci = (opts >> 1) & 1; c->have_dl = (opts >> 2) & 1;
	c->alen = (int)vf_below(r, 7);
	c->dependent = (int)vf_below(r, 2);
	c->addr = c->alen ? (unsigned)(vf_u32(r) & ((1u << (4 * c->alen)) - 1)) : 0;
	if (c->alen && vf_chance(r, 1, 8)) c->addr = (1u << (4 * c->alen)) - 1;
}

static void push_wire(const uint8_t b[42], int lpi, int rep)
{
	if (n_w >= MAXW) return;
	memcpy(wv[n_w].b, b, 42);
	wv[n_w].lp = lpi; wv[n_w].rep = rep; wv[n_w].fate = F_OK; wv[n_w].svc = lpi >= 0 ? 0 : -1;
	n_w++;
}

static void gen_foreign(struct vf_rng *r, const struct conf *sel)
{
	uint8_t b[42], wire[40];
	struct conf c;
	struct lpk tmp;
	struct ugen g = { 0, 0, 0 };
	int n;
	memset(&tmp, 0, sizeof tmp);
	switch (vf_below(r, 6)) {
	case 0:                                  /* ordinary Teletext packet, any magazine, rows 0..29 */
		c15_plain_packet(r, b, (int)vf_below(r, 8), (int)vf_below(r, 30));
		break;
	case 1:                                  /* same service but format B / reserved address length */
		c = *sel;
		tmp.ci = (int)vf_below(r, 256);
		n = gen_payload(r, &c, &tmp, &g, wire, 0);
		build_packet(b, &c, 0, tmp.ci, wire, n, r);
		if (vf_chance(r, 1, 2)) b[2] = c15_ham84((unsigned)(1 | (int)vf_below(r, 8) << 1));
		else b[3] = c15_ham84(7u | (unsigned)vf_below(r, 2) << 3);
		break;
	case 2:                                  /* other channel, same address */
		c = *sel;
		c.channel = (sel->channel + 1 + (int)vf_below(r, 15)) & 15;
		tmp.ci = (int)vf_below(r, 256);
		n = gen_payload(r, &c, &tmp, &g, wire, 0);
		build_packet(b, &c, 0, tmp.ci, wire, n, r);
		break;
	default:                                 /* same channel, numerically different address */
		do {
			gen_conf(r, &c);
			c.channel = sel->channel;
			if (vf_chance(r, 1, 2) && sel->alen) {   /* differs in one nibble only */
				c.alen = sel->alen;
				c.addr = sel->addr ^ (1u << vf_below(r, (unsigned)(4 * sel->alen)));
			}
		} while (c.addr == sel->addr);
		tmp.ci = (int)vf_below(r, 256);
		n = gen_payload(r, &c, &tmp, &g, wire, 0);
		build_packet(b, &c, c.have_ri ? (int)(vf_below(r, 3) | (vf_below(r, 2) << 7)) : 0, tmp.ci, wire, n, r);
		break;
	}
	push_wire(b, -1, 0);
}

/* ---- faults ---- */

/* bytes of the CRC group (from CI on) get a burst of at most 16 bits: always detected with an explicit CI;
 * with an implicit CI the reference parser is asked, and we draw again if the burst is not detected */
static void corrupt_crc(struct vf_rng *r, struct wire *w, const struct conf *c)
{
	int start = 4 + c->alen + c->have_ri, tries;
	uint8_t save[42];
	struct parsed q;
	memcpy(save, w->b, 42);
	for (tries = 0; tries < 100; tries++) {
		int p = vf_range(r, start, 41);
		memcpy(w->b, save, 42);
		w->b[p] ^= (uint8_t)(1 + vf_below(r, 255));
		if (p < 41 && vf_chance(r, 1, 3)) w->b[p + 1] ^= (uint8_t)vf_below(r, 256);
		ref_parse(w->b, &q, 0);
		if (!q.crc_ok) return;
	}
	w->b[41] ^= 1; w->b[40] ^= 2;
}

static void apply_fault(struct vf_rng *r, int wi, int kind, const struct conf *c)
{
	struct wire *w = &wv[wi];
	int p = (int)vf_below(r, (unsigned)(4 + c->alen));
	switch (kind) {
	case F_BENIGN: w->b[p] = c15_flip1(r, w->b[p]); w->fate = F_BENIGN; break;
	case F_HAMM:   w->b[p] = c15_flip2(r, w->b[p]); w->fate = F_HAMM; break;
	case F_CRC:    corrupt_crc(r, w, c); w->fate = F_CRC; break;
	}
}

/* ---- consumer ---- */

static vbi_bool idl_cb(vbi_idl_demux *dx, const uint8_t *buffer, unsigned int n_bytes, unsigned int flags, void *ud)
{
	(void)dx; (void)ud;
	vf_log("callback during wire %d: %u bytes flags 0x%x\n", cur_w, n_bytes, flags);
	if (n_dv < MAXDEL) {
		struct deliv *d = &dv[n_dv++];
		d->w = cur_w; d->n = n_bytes; d->flags = flags;
		d->toolong = n_bytes > 36;
		memcpy(d->d, buffer, n_bytes > 40 ? 40 : n_bytes);
	}
	return TRUE;
}

static int expect_ret(const struct wire *w)
{
	if (w->fate == F_OK || w->fate == F_BENIGN) return 1;
	if (w->lp >= 0) return 0;
	return -1;
}

static void evaluate(const char *iface, const struct conf *c, int quirk_possible)
{
	int i, prev_lp = -1, prev_w = -1, k, j;
	for (k = 0; k < n_lp; k++) lp[k].ndeliv = 0;
	for (i = 0; i < n_dv; i++) {
		struct deliv *d = &dv[i];
		struct wire *w = &wv[d->w];
		struct lpk *l;
		int lost = 0, trouble = 0;
		if (w->lp < 0) {
			vf_fail("model:C15:idl:foreign-delivery", "%s: callback while feeding packet %d which is not of channel %d address 0x%x: %s -> %u bytes %s",
				iface, d->w, c->channel, c->addr, vf_hex(w->b, 42), d->n, vf_hex(d->d, d->n > 40 ? 40 : d->n));
			return;
		}
		if (w->fate == F_CRC || w->fate == F_HAMM) {
			vf_fail("model:C15:idl:corrupt-packet-delivered", "%s: packet %d (%s error) delivered: %s",
				iface, d->w, w->fate == F_CRC ? "CRC" : "Hamming", vf_hex(w->b, 42));
			return;
		}
		l = &lp[w->lp];
		if (d->toolong || (int)d->n != l->nuser || memcmp(d->d, l->user, (size_t)l->nuser)) {
			struct parsed q;
			ref_parse(w->b, &q, 1);
			if (quirk_possible && l->ambig && (int)d->n == q.n && 0 == memcmp(d->d, q.data, (size_t)q.n)) {
				vf_fail("model:C15:idl:Q-dummy-run-seeded-by-absent-ci",
					"%s: packet %d (CI %s=0x%02x%s) user data starts with a run of the CI value; sent %d bytes %s, delivered %u bytes %s; "
					"explained exactly by counting the CI value as first byte of the run although it is not the byte in front of the user data",
					iface, d->w, c->have_ci ? "explicit" : "implicit", l->ci, c->have_dl ? ", DL between" : "",
					l->nuser, vf_hex(l->user, (size_t)l->nuser), d->n, vf_hex(d->d, d->n > 40 ? 40 : d->n));
				vf_count("quirk_dummy_explained", 1);
			} else {
				vf_fail("model:C15:idl:content-mismatch", "%s: packet %d %s: sent %d bytes %s, delivered %u bytes %s (dummies=%d)",
					iface, d->w, vf_hex(w->b, 42), l->nuser, vf_hex(l->user, (size_t)l->nuser), d->n, vf_hex(d->d, d->n > 40 ? 40 : d->n), l->ndummy);
				return;
			}
		}
		if (l->ndeliv++) {
			vf_fail("model:C15:idl:duplicate-delivery", "%s: logical packet %d (CI 0x%02x) delivered again by its repeat %d (wire %d)",
				iface, w->lp, l->ci, w->rep, d->w);
			return;
		}
		for (j = prev_lp + 1; j < w->lp; j++) lost = 1;
		for (j = prev_w + 1; j < d->w; j++)
			if (wv[j].lp >= 0 && wv[j].fate == F_CRC) trouble = 1;
		if (d->flags & ~(unsigned)(VBI_IDL_DATA_LOST | VBI_IDL_DEPENDENT)) {
			vf_fail("model:C15:idl:flags-undefined-bits", "%s: delivery %d flags=0x%x contains bits other than DATA_LOST|DEPENDENT", iface, i, d->flags);
			return;
		}
		if (!!(d->flags & VBI_IDL_DEPENDENT) != c->dependent) {
			vf_fail("model:C15:idl:dependent-flag", "%s: delivery %d flags=0x%x but IAL bit 3 sent as %d", iface, i, d->flags, c->dependent);
			return;
		}
		if (lost && prev_lp >= 0 && !(d->flags & VBI_IDL_DATA_LOST)) {
			vf_fail("model:C15:idl:data-lost-not-flagged", "%s: delivery %d is logical packet %d (CI 0x%02x), previous delivery was packet %d: %d packet(s) missing but flags=0x%x",
				iface, i, w->lp, l->ci, prev_lp, w->lp - prev_lp - 1, d->flags);
			return;
		}
		if (!lost && !trouble && (d->flags & VBI_IDL_DATA_LOST)) {
			vf_fail("model:C15:idl:spurious-data-lost", "%s: delivery %d is logical packet %d (CI 0x%02x) right after packet %d, nothing lost or corrupted in between, flags=0x%x",
				iface, i, w->lp, l->ci, prev_lp, d->flags);
			return;
		}
		if (d->flags & VBI_IDL_DATA_LOST) vf_count("idl_data_lost_flagged", 1);
		prev_lp = w->lp; prev_w = d->w;
	}
	for (k = 0; k < n_lp; k++)
		if (lp[k].orig_ok && !lp[k].ndeliv) {
			vf_fail("model:C15:idl:not-delivered", "%s: logical packet %d (CI 0x%02x, %d bytes %s) was fed intact but not delivered",
				iface, k, lp[k].ci, lp[k].nuser, vf_hex(lp[k].user, (size_t)lp[k].nuser));
			return;
		}
}

static void poison_heap(void)
{
	/* freed chunks of the demux context's size carry 0xFF, so uninitialised fields do not read as zero by luck */
	void *p[4]; int i;
	for (i = 0; i < 4; i++) { p[i] = malloc(40 + 8 * (size_t)i); if (p[i]) memset(p[i], 0xFF, 40 + 8 * (size_t)i); }
	for (i = 0; i < 4; i++) free(p[i]);
}

int c15_idl_case(struct vf_rng *r, long idx)
{
	struct conf c;
	struct ugen g = { 0, 0, 0 };
	uint8_t wire[40], b[42], *pk;
	int ci, k, i, nf, kinds = 0, want_ambig, any_ambig = 0, maxend = 0, totdummy = 0, anyrep = 0, nforeign = 0, recovered = 0;
	vbi_idl_demux *dx;
	(void)idx;

	gen_conf(r, &c);
	want_ambig = vf_chance(r, 1, 8);
	n_lp = vf_range(r, 1, vf_chance(r, 1, 2) ? 4 : 12);
	ci = (int)vf_below(r, 256);
	if (vf_chance(r, 1, 3) || want_ambig) ci = (254 + (int)vf_below(r, 4) - (int)vf_below(r, (unsigned)n_lp)) & 255;   /* visit FF/00 and the wrap */
	n_w = 0;
	for (k = 0; k < n_lp; k++) {
		struct lpk *l = &lp[k];
		int n, rep;
		memset(l, 0, sizeof *l);
		l->ci = (ci + k) & 255;
		l->nrep = c.have_ri ? (vf_chance(r, 1, 2) ? 0 : vf_range(r, 1, 3)) : 0;
		n = gen_payload(r, &c, l, &g, wire, want_ambig);
		any_ambig |= l->ambig;
		if (l->endrun > maxend) maxend = l->endrun;
		totdummy += l->ndummy;
		anyrep |= l->nrep > 0;
		for (rep = 0; rep <= l->nrep; rep++) {
			while (nforeign < 200 && vf_chance(r, 1, 3)) { gen_foreign(r, &c); nforeign++; }
			build_packet(b, &c, rep | (rep < l->nrep ? 0x80 : 0), l->ci, wire, n, rep ? NULL : r);
			if (rep) {      /* a repeat is the same packet except for RI (and, with implicit CI, nothing else) */
				int last = n_w - 1;
				while (last >= 0 && wv[last].lp != k) last--;
				memcpy(b, wv[last].b, 42);
				b[4 + c.alen] = (uint8_t)(rep | (rep < l->nrep ? 0x80 : 0));
			}
			push_wire(b, k, rep);
		}
	}
	while (nforeign < 200 && vf_chance(r, 1, 3)) { gen_foreign(r, &c); nforeign++; }

	/* self-check: the reference parser reads every packet of the service as sent */
	for (i = 0; i < n_w; i++) {
		struct parsed q;
		struct lpk *l;
		if (wv[i].lp < 0) continue;
		l = &lp[wv[i].lp];
		ref_parse(wv[i].b, &q, 0);
		if (q.hamm_err || !q.crc_ok || q.channel != c.channel || q.addr != c.addr || q.ci != l->ci
		    || q.n != l->nuser || memcmp(q.data, l->user, (size_t)q.n) || (c.have_ri && (q.ri & 15) != wv[i].rep)) {
			vf_fail("selfcheck:C15:idl-parser-vs-packetiser", "packet %s parsed ci=%02x n=%d crc_ok=%d; packetiser ci=%02x n=%d",
				vf_hex(wv[i].b, 42), q.ci, q.n, q.crc_ok, l->ci, l->nuser);
			return 0;
		}
	}

	/* faults: patterns of up to 4 events on packets of the selected service */
	nf = vf_chance(r, 2, 5) ? 0 : vf_range(r, 1, 4);
	for (i = 0; i < nf; i++) {
		int wi, tries = 0, kind;
		do wi = (int)vf_below(r, (unsigned)n_w); while ((wv[wi].lp < 0 || wv[wi].fate != F_OK) && ++tries < 50);
		if (wv[wi].lp < 0 || wv[wi].fate != F_OK) break;
		kind = (int)vf_below(r, 4);
		if (kind == 0) {                /* drop */
			memmove(&wv[wi], &wv[wi + 1], sizeof wv[0] * (size_t)(n_w - wi - 1));
			n_w--;
			kinds |= 1;
			if (n_w == 0) break;
		} else {
			apply_fault(r, wi, kind, &c);
			kinds |= 1 << kind;
		}
	}
	for (i = 0; i < n_w; i++)
		if (wv[i].lp >= 0 && (wv[i].fate == F_OK || wv[i].fate == F_BENIGN)) {
			lp[wv[i].lp].any_ok = 1;
			if (wv[i].rep == 0) lp[wv[i].lp].orig_ok = 1;
		}

	vf_sample("idl ch=%d addr=%0*x/%d ft=%s%s%s dep=%d packets=%d wire=%d foreign=%d dummies=%d endrun=%d faults=0x%x ambig=%d ci0=%02x",
		  c.channel, c.alen ? c.alen : 1, c.addr, c.alen, c.have_ri ? "R" : "-", c.have_ci ? "C" : "-", c.have_dl ? "L" : "-",
		  c.dependent, n_lp, n_w, nforeign, totdummy, maxend, kinds, any_ambig, ci);

	if (vf_verbose)
		for (i = 0; i < n_w; i++)
			vf_log("wire %d: lp=%d rep=%d fate=%d %s\n", i, wv[i].lp, wv[i].rep, wv[i].fate, vf_hex(wv[i].b, 42));
	pk = malloc(42);
	if (!pk) { vf_fail("harness:alloc", "malloc"); return 0; }

	/* 1. packet interface */
	vf_phase("vbi_idl_demux_feed");
	poison_heap();
	dx = vbi_idl_a_demux_new((unsigned)c.channel, c.addr, idl_cb, NULL);
	if (!dx) { vf_fail("harness:alloc", "vbi_idl_a_demux_new failed"); free(pk); return 0; }
	n_dv = 0;
	for (i = 0; i < n_w; i++) {
		vbi_bool ok;
		int e = expect_ret(&wv[i]);
		memcpy(pk, wv[i].b, 42);
		cur_w = i;
		ok = vbi_idl_demux_feed(dx, pk);
		if (e == 1 && !ok)
			vf_fail("model:C15:idl:feed-false-on-good-packet", "feed returned FALSE for intact packet %d %s", i, vf_hex(pk, 42));
		else if (e == 0 && ok)
			vf_fail("model:C15:idl:feed-true-on-bad-packet", "feed returned TRUE for packet %d of the service with %s error %s",
				i, wv[i].fate == F_CRC ? "a CRC" : "an uncorrectable Hamming", vf_hex(pk, 42));
	}
	evaluate("feed", &c, 1);
	for (k = 0; k < n_lp; k++) if (lp[k].ndeliv && !lp[k].orig_ok) recovered++;
	vbi_idl_demux_delete(dx);

	/* 2. frame interface: several lines per frame, other services around; a frame ends after a packet
	 *    for which FALSE is expected (feed_frame stops there by contract) */
	vf_phase("vbi_idl_demux_feed_frame");
	poison_heap();
	dx = vbi_idl_a_demux_new((unsigned)c.channel, c.addr, idl_cb, NULL);
	if (!dx) { vf_fail("harness:alloc", "vbi_idl_a_demux_new failed"); free(pk); return 0; }
	n_dv = 0;
	for (i = 0; i < n_w; ) {
		vbi_sliced sl[8];
		int n = 0, last_e = 1, first = i;
		vbi_bool ok;
		memset(sl, 0, sizeof sl);
		sl[n].id = VBI_SLICED_VPS; sl[n].line = 16; memset(sl[n].data, 0x55, 13); n++;
		cur_w = -1;
		while (i < n_w && n < 6) {
			if (wv[i].lp >= 0 && cur_w >= 0 && wv[cur_w].lp >= 0) break;   /* one packet of the service per frame */
			if (wv[i].lp >= 0 || cur_w < 0) cur_w = i;
			sl[n].id = (i & 1) ? VBI_SLICED_TELETEXT_B : VBI_SLICED_TELETEXT_B_L25_625;
			sl[n].line = (uint32_t)(7 + n);
			memcpy(sl[n].data, wv[i].b, 42);
			n++;
			last_e = expect_ret(&wv[i]);
			i++;
			if (last_e != 1 || vf_chance(r, 1, 3)) break;
		}
		if (last_e == 1) { sl[n].id = VBI_SLICED_CAPTION_625; sl[n].line = 22; sl[n].data[0] = 0x80; sl[n].data[1] = 0x80; n++; }
		ok = vbi_idl_demux_feed_frame(dx, sl, (unsigned)n);
		if (last_e == 1 && !ok)
			vf_fail("model:C15:idl:feed-false-on-good-packet", "feed_frame returned FALSE for a frame of intact packets %d..%d", first, i - 1);
		else if (last_e == 0 && ok)
			vf_fail("model:C15:idl:feed-true-on-bad-packet", "feed_frame returned TRUE although packet %d of the service is damaged", i - 1);
	}
	evaluate("feed_frame", &c, 1);
	vbi_idl_demux_delete(dx);
	free(pk);

	vf_count("idl_packets_fed", n_w);
	vf_count("idl_logical_packets", n_lp);
	vf_count("idl_foreign_packets", nforeign);
	vf_count("idl_dummy_bytes", totdummy);
	vf_count("idl_recovered_by_repeat", recovered);
	if (kinds & 1) vf_count("idl_fault_drop", 1);
	if (kinds & 2) vf_count("idl_fault_hamming_correctable", 1);
	if (kinds & 4) vf_count("idl_fault_crc", 1);
	if (kinds & 8) vf_count("idl_fault_hamming_uncorrectable", 1);
	if (maxend == 8) vf_count("idl_run8_at_packet_end", 1);
	if (any_ambig) vf_count("idl_ambiguous_run_start", 1);
	vf_sig("idl ft=%d alen=%s endrun=%s rep=%d faults=0x%x ambig=%d", c.have_ri | c.have_ci << 1 | c.have_dl << 2,
	       c.alen == 0 ? "0" : c.alen == 6 ? "6" : "1-5",
	       maxend == 8 ? "8" : maxend == 7 ? "7" : maxend ? "1-6" : "0", anyrep, kinds, any_ambig);
	return 1;
}

/* =====================================================================
 * Long streams (--mode idl-long): 40-300 logical packets per service so that
 * the continuity index wraps, gaps of chosen lengths (1, 2, 15-17, 255-257,
 * 512 ...), several wire faults, vbi_idl_demux_reset() between packets,
 * callbacks returning FALSE, frames with several packets of the service, and
 * two demultiplexer contexts (two services) fed from the same multiplex.
 *
 * What the continuity index can show: CI is one byte (explicit, or implied by
 * the CRC), so a receiver sees the number of missing packets modulo 256 only.
 * A loss of 256*k packets is not observable: DATA_LOST is neither demanded nor
 * forbidden there.  Every other loss must be flagged on the next delivery.
 *
 * The first two user bytes of every logical packet name the service and the
 * packet, so that a callback inside a frame of several packets can be
 * attributed to its line.  (Payloads without such a tag, including empty ones,
 * are the business of --mode idl.)
 * ===================================================================== */

#define LMAXLP 320
#define LMAXDEL 800

struct lsvc {
	struct conf c;
	int id, n_lp;
	struct lpk lp[LMAXLP];
	long seq[LMAXLP];               /* position in the sender's sequence: CI = ci0 + seq */
	uint8_t cbf[LMAXLP];            /* the callback returns FALSE for this logical packet */
	int n_reset, reset_at[4];       /* vbi_idl_demux_reset() right before wire packet reset_at[] is fed */
	vbi_idl_demux *dx;
	struct deliv dv[LMAXDEL];
	uint8_t dv_false[LMAXDEL];
	int n_dv;
	int fr_first, fr_last, fr_cur;  /* frame mode: lines of the current call; fr_first < 0 in packet mode */
	int cbfalse_w;                  /* wire packet during which the callback returned FALSE in the current call */
};

static struct lsvc *ls[2];
static struct wire *lsw[2];
static int n_lsw[2];

static void tag_encode(uint8_t t[2], int svc, int k)
{
	t[0] = (uint8_t)(0x41 + (k >> 7) + 8 * svc);
	t[1] = (uint8_t)(0x80 | (k & 0x7F));
}

static int tag_decode(const uint8_t *t, int *svc)
{
	int v = t[0] - 0x41;
	if (v < 0 || v > 15 || (v & 7) > 2 || !(t[1] & 0x80)) return -1;
	*svc = v >> 3;
	return (v & 7) << 7 | (t[1] & 0x7F);
}

static vbi_bool idl_long_cb(vbi_idl_demux *dx, const uint8_t *buffer, unsigned int n_bytes, unsigned int flags, void *ud)
{
	struct lsvc *s = ud;
	int w = cur_w, ret = 1;
	(void)dx;
	if (s->fr_first >= 0) {         /* which line of the frame is this? */
		int tsvc = -1, k = (n_bytes >= 2) ? tag_decode(buffer, &tsvc) : -1, i, any = -1;
		w = -1;
		if (k >= 0)
			for (i = s->fr_cur; i <= s->fr_last; i++)
				if (wv[i].svc == tsvc && wv[i].lp == k && wv[i].fate != F_DROP) {
					if (any < 0) any = i;
					if (wv[i].fate == F_OK || wv[i].fate == F_BENIGN) { w = i; break; }
				}
		if (w < 0) w = any;
		if (w >= 0) s->fr_cur = w + 1;
	}
	vf_log("service %d callback during wire %d: %u bytes flags 0x%x\n", s->id, w, n_bytes, flags);
	if (w >= 0 && wv[w].svc == s->id && s->cbf[wv[w].lp]) { ret = 0; s->cbfalse_w = w; }
	if (s->n_dv < LMAXDEL) {
		struct deliv *d = &s->dv[s->n_dv];
		s->dv_false[s->n_dv++] = (uint8_t)!ret;
		d->w = w; d->n = n_bytes; d->flags = flags;
		d->toolong = n_bytes > 36;
		memcpy(d->d, buffer, n_bytes > 40 ? 40 : n_bytes);
	}
	return ret;
}

static int reset_between(const struct lsvc *s, int after_w, int upto_w)
{
	int i;
	for (i = 0; i < s->n_reset; i++)
		if (s->reset_at[i] > after_w && s->reset_at[i] <= upto_w) return 1;
	return 0;
}

struct lstat { long first_after_reset, gap_invisible, gap_flagged, lost_flagged, deliveries; };

static int evaluate_long(const char *iface, struct lsvc *s, struct lstat *st)
{
	const struct conf *c = &s->c;
	int i, prev_lp = -1, prev_w = -1, k, j;
	for (k = 0; k < s->n_lp; k++) s->lp[k].ndeliv = 0;
	for (i = 0; i < s->n_dv; i++) {
		struct deliv *d = &s->dv[i];
		struct wire *w;
		struct lpk *l;
		long lost;
		int trouble = 0, after_reset;
		if (d->w < 0) {
			vf_fail("model:C15:idl:frame-delivery-unattributable", "%s: service %d (channel %d address 0x%x) delivery %d (%u bytes %s) is the data of no packet in the lines of the frame that were not yet passed",
				iface, s->id, c->channel, c->addr, i, d->n, vf_hex(d->d, d->n > 40 ? 40 : d->n));
			return 0;
		}
		w = &wv[d->w];
		if (w->svc != s->id) {
			vf_fail("model:C15:idl:foreign-delivery", "%s: context for channel %d address 0x%x: callback for packet %d which belongs to %s: %s -> %u bytes %s",
				iface, c->channel, c->addr, d->w, w->svc < 0 ? "no service fed here" : "the other context's service", vf_hex(w->b, 42), d->n, vf_hex(d->d, d->n > 40 ? 40 : d->n));
			return 0;
		}
		if (w->fate == F_CRC || w->fate == F_HAMM) {
			vf_fail("model:C15:idl:corrupt-packet-delivered", "%s: long stream: packet %d (%s error) delivered: %s",
				iface, d->w, w->fate == F_CRC ? "CRC" : "Hamming", vf_hex(w->b, 42));
			return 0;
		}
		l = &s->lp[w->lp];
		if (d->toolong || (int)d->n != l->nuser || memcmp(d->d, l->user, (size_t)l->nuser)) {
			vf_fail("model:C15:idl:content-mismatch", "%s: long stream: packet %d %s: sent %d bytes %s, delivered %u bytes %s (dummies=%d)",
				iface, d->w, vf_hex(w->b, 42), l->nuser, vf_hex(l->user, (size_t)l->nuser), d->n, vf_hex(d->d, d->n > 40 ? 40 : d->n), l->ndummy);
			return 0;
		}
		if (l->ndeliv++) {
			vf_fail("model:C15:idl:duplicate-delivery", "%s: long stream: logical packet %d (CI 0x%02x) delivered again by its repeat %d (wire %d)",
				iface, w->lp, l->ci, w->rep, d->w);
			return 0;
		}
		if (w->lp <= prev_lp) {
			vf_fail("model:C15:idl:duplicate-delivery", "%s: long stream: logical packet %d delivered after logical packet %d", iface, w->lp, prev_lp);
			return 0;
		}
		lost = prev_lp < 0 ? s->seq[w->lp] : s->seq[w->lp] - s->seq[prev_lp] - 1;
		for (j = prev_w + 1; j < d->w; j++)
			if (wv[j].svc == s->id && wv[j].fate == F_CRC) trouble = 1;
		after_reset = reset_between(s, prev_w, d->w);
		if (d->flags & ~(unsigned)(VBI_IDL_DATA_LOST | VBI_IDL_DEPENDENT)) {
			vf_fail("model:C15:idl:flags-undefined-bits", "%s: long stream: delivery %d flags=0x%x contains bits other than DATA_LOST|DEPENDENT", iface, i, d->flags);
			return 0;
		}
		if (!!(d->flags & VBI_IDL_DEPENDENT) != c->dependent) {
			vf_fail("model:C15:idl:dependent-flag", "%s: long stream: delivery %d flags=0x%x but IAL bit 3 sent as %d", iface, i, d->flags, c->dependent);
			return 0;
		}
		if (after_reset) {
			/* the documentation of vbi_idl_demux_reset() does not say whether the first delivery
			   afterwards carries DATA_LOST: both accepted */
			st->first_after_reset++;
		} else if (prev_lp >= 0 && lost > 0 && lost % 256 == 0) {
			st->gap_invisible++;             /* the 8 bit continuity index cannot show it */
		} else {
			if (lost > 0 && prev_lp >= 0 && !(d->flags & VBI_IDL_DATA_LOST)) {
				vf_fail("model:C15:idl:data-lost-not-flagged", "%s: long stream: delivery %d is logical packet %d (CI 0x%02x), previous delivery was packet %d (CI 0x%02x): %ld packet(s) of the sequence missing but flags=0x%x",
					iface, i, w->lp, l->ci, prev_lp, s->lp[prev_lp].ci, lost, d->flags);
				return 0;
			}
			if (lost == 0 && !trouble && (d->flags & VBI_IDL_DATA_LOST)) {
				vf_fail("model:C15:idl:spurious-data-lost", "%s: long stream: delivery %d is logical packet %d (CI 0x%02x) right after packet %d, nothing lost or corrupted in between, no reset, flags=0x%x",
					iface, i, w->lp, l->ci, prev_lp, d->flags);
				return 0;
			}
			if (lost > 0 && prev_lp >= 0) st->gap_flagged++;
		}
		if (d->flags & VBI_IDL_DATA_LOST) st->lost_flagged++;
		st->deliveries++;
		prev_lp = w->lp; prev_w = d->w;
	}
	for (k = 0; k < s->n_lp; k++)
		if (s->lp[k].orig_ok && !s->lp[k].ndeliv) {
			vf_fail("model:C15:idl:not-delivered", "%s: long stream: logical packet %d of %d (CI 0x%02x, %d bytes %s) of service %d was fed intact but not delivered (%d resets, %d deliveries)",
				iface, k, s->n_lp, s->lp[k].ci, s->lp[k].nuser, vf_hex(s->lp[k].user, (size_t)s->lp[k].nuser), s->id, s->n_reset, s->n_dv);
			return 0;
		}
	return 1;
}

/* what feed() must return for this packet, seen from context s: 1 TRUE, 0 FALSE, -1 not specified */
static int expect_ret_long(const struct lsvc *s, const struct wire *w)
{
	if (w->fate == F_OK || w->fate == F_BENIGN) return 1;
	return w->svc == s->id ? 0 : -1;
}

static int is_service_packet(const uint8_t b[42], const struct conf *c)
{
	struct parsed q;
	ref_parse(b, &q, 0);
	return !q.hamm_err && q.desig == 15 && !(q.ft & 1) && q.alen != 7 && q.channel == c->channel && q.addr == c->addr;
}

static void poison_heap_long(void)
{
	void *p[4]; int i;
	for (i = 0; i < 4; i++) { p[i] = malloc(40 + 8 * (size_t)i); if (p[i]) memset(p[i], 0x5A, 40 + 8 * (size_t)i); }
	for (i = 0; i < 4; i++) free(p[i]);
}

static void do_resets(struct lsvc *s, int i)
{
	int k;
	for (k = 0; k < s->n_reset; k++)
		if (s->reset_at[k] == i) { vf_log("service %d: reset before wire %d\n", s->id, i); vbi_idl_demux_reset(s->dx); }
}

/* one vbi_idl_demux_feed_frame() call and, when the callback stopped it, further calls for the remaining lines */
static void feed_frame_long(struct lsvc *s, const vbi_sliced *sl, const int *map, int n)
{
	while (n > 0) {
		int j, first = -1, last = -1, e = 1;
		vbi_bool ok;
		for (j = 0; j < n; j++) if (map[j] >= 0) { if (first < 0) first = map[j]; last = map[j]; }
		s->fr_first = first < 0 ? 0 : first; s->fr_last = last; s->fr_cur = s->fr_first;
		s->cbfalse_w = -1;
		cur_w = -1;
		ok = vbi_idl_demux_feed_frame(s->dx, sl, (unsigned)n);
		if (s->cbfalse_w >= 0) {
			if (ok) {
				vf_fail("model:C15:idl:cb-false-not-propagated", "feed_frame returned TRUE although the callback returned FALSE for packet %d", s->cbfalse_w);
				break;
			}
			for (j = 0; j < n && map[j] != s->cbfalse_w; j++) ;
			j++;
			sl += j; map += j; n -= j;       /* the library stops at that line: feed the rest */
			continue;
		}
		if (last >= 0) e = expect_ret_long(s, &wv[last]);
		if (e == 1 && !ok)
			vf_fail("model:C15:idl:feed-false-on-good-packet", "long stream: feed_frame returned FALSE for a frame of intact packets %d..%d", first, last);
		else if (e == 0 && ok)
			vf_fail("model:C15:idl:feed-true-on-bad-packet", "long stream: feed_frame returned TRUE although packet %d of the service is damaged", last);
		break;
	}
}

int c15_idl_long_case(struct vf_rng *r, long idx)
{
	static const int gaps[] = { 1, 1, 2, 2, 3, 15, 16, 16, 17, 255, 256, 256, 257, 512 };
	int nsvc, si, i, k, nf, kinds = 0, nforeign = 0, wraps = 0, gapmask = 0, tot_reset = 0, tot_cbf = 0, multi = 0;
	long n_gap = 0, n_gap16 = 0, n_gap256 = 0, n_adj = 0;
	struct lstat st;
	uint8_t *pk;
	(void)idx;
	memset(&st, 0, sizeof st);
	for (si = 0; si < 2; si++) {
		if (!ls[si]) ls[si] = malloc(sizeof *ls[si]);
		if (!lsw[si]) lsw[si] = malloc(sizeof *lsw[si] * LMAXLP * 4);
		if (!ls[si] || !lsw[si]) { vf_fail("harness:alloc", "malloc"); return 0; }
	}
	nsvc = vf_chance(r, 1, 2) ? 2 : 1;

	/* services */
	gen_conf(r, &ls[0]->c);
	if (nsvc == 2) {
		struct conf *a = &ls[0]->c, *b = &ls[1]->c;
		int tries = 0;
		do {
			gen_conf(r, b);
			switch (vf_below(r, 5)) {
			case 0: b->channel = a->channel; break;                                 /* same channel, other address */
			case 1: b->channel = a->channel;                                        /* ... differing in one bit */
				if (a->alen) { b->alen = a->alen; b->addr = a->addr ^ (1u << vf_below(r, (unsigned)(4 * a->alen))); }
				break;
			case 2: b->channel = a->channel ^ 8; b->alen = a->alen; b->addr = a->addr; break;        /* packet 30 <-> 31, same address */
			case 3: b->channel = a->channel;                                        /* shorter address: low nibbles of the other */
				if (a->alen > 1) { b->alen = (int)vf_below(r, (unsigned)a->alen); b->addr = a->addr & ((1u << (4 * b->alen)) - 1); }
				break;
			default: b->alen = a->alen; b->addr = a->addr;                         /* other channel, same address */
			}
		} while (b->channel == a->channel && b->addr == a->addr && ++tries < 50);
		if (b->channel == a->channel && b->addr == a->addr) nsvc = 1;
	}

	/* logical packets, per service in transmission order */
	for (si = 0; si < nsvc; si++) {
		struct lsvc *s = ls[si];
		struct ugen g = { 0, 0, 0 };
		uint8_t wire[40], b[42], tag[2];
		int ci0 = (int)vf_below(r, 256), force_next = 0;
		long seq = 0;
		s->id = si;
		s->n_lp = si == 0 ? vf_range(r, 40, vf_chance(r, 1, 3) ? 300 : 120) : vf_range(r, 10, 120);
		n_lsw[si] = 0;
		for (k = 0; k < s->n_lp; k++) {
			struct lpk *l = &s->lp[k];
			int n, rep, gap = 0;
			memset(l, 0, sizeof *l);
			if (k > 0 && (force_next || vf_chance(r, 1, 24))) {
				gap = vf_chance(r, 2, 3) ? gaps[vf_below(r, sizeof gaps / sizeof gaps[0])] : vf_range(r, 1, 40);
				if (force_next) n_adj++;
				force_next = !force_next && vf_chance(r, 1, 3);      /* another loss right after one surviving packet */
				n_gap++;
				if (gap == 16) n_gap16++;
				if (gap % 256 == 0) n_gap256++;
				gapmask |= gap == 1 ? 1 : gap == 2 ? 2 : gap == 16 ? 4 : gap % 256 == 0 ? 8 : (gap == 15 || gap == 17) ? 16 : (gap == 255 || gap == 257) ? 32 : 64;
			}
			seq += gap;
			s->seq[k] = seq;
			l->ci = (int)((ci0 + seq) & 255);
			seq++;
			s->cbf[k] = (uint8_t)vf_chance(r, 1, 40);
			tot_cbf += s->cbf[k];
			l->nrep = s->c.have_ri ? (vf_chance(r, 1, 2) ? 0 : vf_range(r, 1, 3)) : 0;
			tag_encode(tag, si, k);
			n = gen_payload_pre(r, &s->c, l, &g, wire, 0, tag, 2);
			for (rep = 0; rep <= l->nrep; rep++) {
				struct wire *w = &lsw[si][n_lsw[si]++];
				if (rep == 0) build_packet(b, &s->c, l->nrep ? 0x80 : 0, l->ci, wire, n, r);
				else b[4 + s->c.alen] = (uint8_t)(rep | (rep < l->nrep ? 0x80 : 0));
				memcpy(w->b, b, 42);
				w->lp = k; w->rep = rep; w->fate = F_OK; w->svc = si;
			}
		}
		wraps += (int)((ci0 + seq) >> 8);
		/* self-check */
		for (i = 0; i < n_lsw[si]; i++) {
			struct parsed q;
			struct lpk *l = &s->lp[lsw[si][i].lp];
			ref_parse(lsw[si][i].b, &q, 0);
			if (q.hamm_err || !q.crc_ok || q.channel != s->c.channel || q.addr != s->c.addr || q.ci != l->ci
			    || q.n != l->nuser || memcmp(q.data, l->user, (size_t)q.n) || (s->c.have_ri && (q.ri & 15) != lsw[si][i].rep)) {
				vf_fail("selfcheck:C15:idl-parser-vs-packetiser", "long stream: packet %s parsed ci=%02x n=%d crc_ok=%d; packetiser ci=%02x n=%d",
					vf_hex(lsw[si][i].b, 42), q.ci, q.n, q.crc_ok, l->ci, l->nuser);
				return 0;
			}
		}
	}

	/* the multiplex: both services and foreign packets */
	{
		int pos[2] = { 0, 0 };
		n_w = 0;
		for (;;) {
			int left0 = n_lsw[0] - pos[0], left1 = nsvc == 2 ? n_lsw[1] - pos[1] : 0;
			if (left0 + left1 == 0) break;
			if (nforeign < 600 && vf_chance(r, 1, 4)) {
				int before = n_w;
				gen_foreign(r, &ls[vf_below(r, (unsigned)nsvc)]->c);
				if (n_w > before && (is_service_packet(wv[before].b, &ls[0]->c) || (nsvc == 2 && is_service_packet(wv[before].b, &ls[1]->c))))
					n_w = before;            /* what is foreign to one service is a packet of the other: not foreign */
				else
					nforeign++;
				continue;
			}
			si = (int)vf_below(r, (unsigned)(left0 + left1)) < left0 ? 0 : 1;
			if (n_w < MAXW) wv[n_w++] = lsw[si][pos[si]];
			pos[si]++;
		}
	}

	/* wire faults: drop of one copy, Hamming (correctable / not), CRC */
	nf = vf_chance(r, 1, 4) ? 0 : vf_range(r, 1, 10);
	for (i = 0; i < nf; i++) {
		int wi, tries = 0, kind;
		do wi = (int)vf_below(r, (unsigned)n_w); while ((wv[wi].lp < 0 || wv[wi].fate != F_OK) && ++tries < 50);
		if (wv[wi].lp < 0 || wv[wi].fate != F_OK) break;
		kind = (int)vf_below(r, 4);
		if (kind == 0) wv[wi].fate = F_DROP;
		else apply_fault(r, wi, kind, &ls[wv[wi].svc]->c);
		kinds |= 1 << kind;
		if (vf_chance(r, 1, 4) && wi + 1 < n_w) {       /* a second fault close by */
			int wj = wi + 1;
			while (wj < n_w && wj < wi + 4 && (wv[wj].lp < 0 || wv[wj].fate != F_OK)) wj++;
			if (wj < n_w && wv[wj].lp >= 0 && wv[wj].fate == F_OK) { wv[wj].fate = F_DROP; kinds |= 1; }
		}
	}
	for (si = 0; si < nsvc; si++) {
		struct lsvc *s = ls[si];
		for (i = 0; i < n_w; i++)
			if (wv[i].svc == si && (wv[i].fate == F_OK || wv[i].fate == F_BENIGN)) {
				s->lp[wv[i].lp].any_ok = 1;
				if (wv[i].rep == 0) s->lp[wv[i].lp].orig_ok = 1;
			}
		s->n_reset = vf_chance(r, 1, 2) ? 0 : vf_range(r, 1, 3);
		for (k = 0; k < s->n_reset; k++) s->reset_at[k] = vf_range(r, 1, n_w - 1);
		tot_reset += s->n_reset;
	}

	vf_sample("idl-long %d service(s): ch=%d addr=%x/%d ft=%s%s%s %d packets%s, wire=%d foreign=%d gaps=%ld wraps=%d faults=0x%x resets=%d cbfalse=%d",
		  nsvc, ls[0]->c.channel, ls[0]->c.addr, ls[0]->c.alen, ls[0]->c.have_ri ? "R" : "-", ls[0]->c.have_ci ? "C" : "-", ls[0]->c.have_dl ? "L" : "-",
		  ls[0]->n_lp, nsvc == 2 ? " + second service" : "", n_w, nforeign, n_gap, wraps, kinds, tot_reset, tot_cbf);
	if (vf_verbose) {
		for (si = 0; si < nsvc; si++)
			vf_log("service %d: ch=%d addr=%x/%d ri=%d ci=%d dl=%d dep=%d, %d logical packets\n", si, ls[si]->c.channel, ls[si]->c.addr, ls[si]->c.alen,
			       ls[si]->c.have_ri, ls[si]->c.have_ci, ls[si]->c.have_dl, ls[si]->c.dependent, ls[si]->n_lp);
		for (i = 0; i < n_w; i++)
			vf_log("wire %d: svc=%d lp=%d seq=%ld rep=%d fate=%d cbf=%d %s\n", i, wv[i].svc, wv[i].lp, wv[i].svc >= 0 ? ls[wv[i].svc]->seq[wv[i].lp] : -1L,
			       wv[i].rep, wv[i].fate, wv[i].svc >= 0 ? ls[wv[i].svc]->cbf[wv[i].lp] : 0, vf_hex(wv[i].b, 42));
	}

	pk = malloc(42);
	if (!pk) { vf_fail("harness:alloc", "malloc"); return 0; }

	/* 1. packet interface, every context sees every packet */
	vf_phase("vbi_idl_demux_feed");
	poison_heap_long();
	for (si = 0; si < nsvc; si++) {
		struct lsvc *s = ls[si];
		s->dx = vbi_idl_a_demux_new((unsigned)s->c.channel, s->c.addr, idl_long_cb, s);
		if (!s->dx) { vf_fail("harness:alloc", "vbi_idl_a_demux_new failed"); free(pk); return 0; }
		s->n_dv = 0; s->fr_first = -1;
	}
	for (i = 0; i < n_w; i++) {
		for (si = 0; si < nsvc; si++) do_resets(ls[si], i);
		if (wv[i].fate == F_DROP) continue;
		for (si = 0; si < nsvc; si++) {
			struct lsvc *s = ls[si];
			vbi_bool ok;
			int e = expect_ret_long(s, &wv[i]);
			memcpy(pk, wv[i].b, 42);
			cur_w = i; s->cbfalse_w = -1;
			ok = vbi_idl_demux_feed(s->dx, pk);
			if (s->cbfalse_w >= 0) {
				if (ok) vf_fail("model:C15:idl:cb-false-not-propagated", "feed returned TRUE although the callback returned FALSE for packet %d", i);
			} else if (e == 1 && !ok)
				vf_fail("model:C15:idl:feed-false-on-good-packet", "long stream: context %d: feed returned FALSE for intact packet %d %s", si, i, vf_hex(pk, 42));
			else if (e == 0 && ok)
				vf_fail("model:C15:idl:feed-true-on-bad-packet", "long stream: feed returned TRUE for packet %d of the service with %s error %s",
					i, wv[i].fate == F_CRC ? "a CRC" : "an uncorrectable Hamming", vf_hex(pk, 42));
		}
	}
	for (si = 0; si < nsvc; si++) {
		evaluate_long("feed", ls[si], &st);
		vbi_idl_demux_delete(ls[si]->dx);
	}

	/* 2. frame interface: several packets of the multiplex (and of one service) per call, lines of other
	 *    data services in between; a frame ends before a reset and after a damaged packet (feed_frame
	 *    stops at the first line for which feed returns FALSE) */
	vf_phase("vbi_idl_demux_feed_frame");
	poison_heap_long();
	for (si = 0; si < nsvc; si++) {
		struct lsvc *s = ls[si];
		s->dx = vbi_idl_a_demux_new((unsigned)s->c.channel, s->c.addr, idl_long_cb, s);
		if (!s->dx) { vf_fail("harness:alloc", "vbi_idl_a_demux_new failed"); free(pk); return 0; }
		s->n_dv = 0;
	}
	for (i = 0; i < n_w; ) {
		vbi_sliced sl[24];
		int map[24], n = 0, want = vf_range(r, 1, 9), nt = 0, nsv[2] = { 0, 0 };
		memset(sl, 0, sizeof sl);
		if (vf_chance(r, 1, 2)) { sl[n].id = VBI_SLICED_VPS; sl[n].line = 16; memset(sl[n].data, 0x55, 13); map[n++] = -1; }
		while (i < n_w && nt < want) {
			int stop = 0;
			for (si = 0; si < nsvc; si++) if (reset_between(ls[si], i - 1, i)) stop = 1;
			if (stop && nt > 0) break;              /* the reset happens between two calls */
			if (stop) for (si = 0; si < nsvc; si++) do_resets(ls[si], i);
			if (wv[i].fate == F_DROP) { i++; continue; }
			if (vf_chance(r, 1, 6)) { sl[n].id = VBI_SLICED_CAPTION_625; sl[n].line = 22; sl[n].data[0] = 0x80; sl[n].data[1] = 0x80; map[n++] = -1; }
			sl[n].id = (i & 1) ? VBI_SLICED_TELETEXT_B : VBI_SLICED_TELETEXT_B_L25_625;
			sl[n].line = (uint32_t)(7 + nt);
			memcpy(sl[n].data, wv[i].b, 42);
			map[n++] = i; nt++;
			if (wv[i].svc >= 0) nsv[wv[i].svc]++;
			i++;
			if (wv[i - 1].fate != F_OK && wv[i - 1].fate != F_BENIGN) break;
		}
		if (vf_chance(r, 1, 3)) { sl[n].id = VBI_SLICED_WSS_625; sl[n].line = 23; map[n++] = -1; }
		if (nsv[0] > 1 || nsv[1] > 1) multi++;
		for (si = 0; si < nsvc; si++) feed_frame_long(ls[si], sl, map, n);
	}
	for (si = 0; si < nsvc; si++) {
		evaluate_long("feed_frame", ls[si], &st);
		vbi_idl_demux_delete(ls[si]->dx);
	}
	free(pk);

	vf_count("idl_long_streams", nsvc);
	vf_count("idl_long_packets_fed", n_w);
	vf_count("idl_long_logical_packets", ls[0]->n_lp + (nsvc == 2 ? ls[1]->n_lp : 0));
	vf_count("idl_long_ci_wraps", wraps);
	vf_count("idl_long_gap_events", n_gap);
	vf_count("idl_long_gap_16", n_gap16);
	vf_count("idl_long_gap_multiple_of_256", n_gap256);
	vf_count("idl_long_loss_after_one_survivor", n_adj);
	vf_count("idl_long_gap_flagged", st.gap_flagged);
	vf_count("idl_long_gap_not_observable", st.gap_invisible);
	vf_count("idl_long_resets", tot_reset);
	vf_count("idl_long_first_delivery_after_reset", st.first_after_reset);
	vf_count("idl_long_callback_false", tot_cbf);
	vf_count("idl_long_deliveries", st.deliveries);
	vf_count("idl_long_data_lost_flagged", st.lost_flagged);
	vf_count("idl_long_frames_with_several_service_packets", multi);
	if (nsvc == 2) vf_count("idl_long_two_contexts", 1);
	if (kinds & 1) vf_count("idl_long_fault_drop", 1);
	if (kinds & 2) vf_count("idl_long_fault_hamming_correctable", 1);
	if (kinds & 4) vf_count("idl_long_fault_crc", 1);
	if (kinds & 8) vf_count("idl_long_fault_hamming_uncorrectable", 1);
	vf_sig("idl-long ri=%d ci=%d two=%d gap16=%d gap256=%d wraps=%s faults=%s reset=%d cbf=%d",
	       ls[0]->c.have_ri, ls[0]->c.have_ci, nsvc == 2, !!(gapmask & 4), !!(gapmask & 8),
	       wraps == 0 ? "0" : wraps == 1 ? "1" : "2+", kinds == 0 ? "none" : kinds == 1 ? "drop" : "damage", tot_reset > 0, tot_cbf ? 1 : 0);
	return 1;
}

void c15_idl_selftest(void)
{
	/* CRC: x^16 divided by G leaves x^9+x^7+x^4+1; a single 1 bit as the very first message bit of 1 byte */
	uint8_t one[1] = { 0x01 }, msg[5] = { 0x12, 0x00, 0xFF, 0x80, 0x01 }, buf[7], res[2], ck[2];
	struct conf c = { 3, 0, 1, 0, 2, 1, 0xA5 };
	struct parsed q;
	uint8_t wire[40], b[42];
	unsigned r = crc_feed(0, one, 1), r2;
	int i;
	/* 0x01: the 1 bit comes first, followed by 7 zero bits: remainder of x^(7+16) */
	r2 = 0x0291;
	for (i = 0; i < 7; i++) r2 = ((r2 << 1) & 0xFFFF) ^ ((r2 & 0x8000) ? 0x0291 : 0);
	if (r != r2) vf_fail("selftest:C15:crc", "bit-serial CRC of 0x01 is %04x, x^23 mod G is %04x", r, r2);
	crc_bytes(crc_feed(0, msg, 5), ck);
	memcpy(buf, msg, 5); buf[5] = ck[0]; buf[6] = ck[1];
	crc_residue(buf, 7, res);
	if (res[0] || res[1]) vf_fail("selftest:C15:crc", "message plus check word leaves %02x %02x", res[0], res[1]);
	if (crc_feed(0, buf, 7) != 0) vf_fail("selftest:C15:crc", "dividing message and check word as one polynomial leaves a remainder");
	buf[2] ^= 0x10;
	crc_residue(buf, 7, res);
	if (!res[0] && !res[1]) vf_fail("selftest:C15:crc", "single bit error not detected");

	/* packet: explicit CI 0x00 directly before 7 zero data bytes -> dummy after the 7th */
	memset(wire, 0x11, sizeof wire);
	memset(wire, 0, 7); wire[7] = 0xAA; wire[8] = 0x42;
	build_packet(b, &c, 0, 0x00, wire, capacity(&c), NULL);
	ref_parse(b, &q, 0);
	if (q.hamm_err || !q.crc_ok || q.channel != 3 || q.addr != 0xA5 || !q.dependent || q.ci != 0 || q.n != capacity(&c) - 1
	    || q.data[6] != 0 || q.data[7] != 0x42)
		vf_fail("selftest:C15:idl", "hand packet with explicit CI not parsed back (n=%d crc_ok=%d)", q.n, q.crc_ok);
	if (b[0] != 0x5E || b[1] != 0xEA || b[2] != 0x64 /* FT=4 */ || b[3] != 0x8C /* IAL=2|8 */ || b[4] != 0x73 || b[5] != 0x8C || b[6] != 0x00)
		vf_fail("selftest:C15:idl", "hand packet header bytes wrong: %s", vf_hex(b, 8));
	/* implicit CI: remainder reads CI twice; 7 zeros are not a full run then */
	c.have_ci = 0;
	build_packet(b, &c, 0, 0x00, wire, capacity(&c), NULL);
	ref_parse(b, &q, 0);
	if (!q.crc_ok || q.ci != 0 || q.n != capacity(&c) || q.data[7] != 0xAA)
		vf_fail("selftest:C15:idl", "implicit CI hand packet: crc_ok=%d ci=%02x n=%d", q.crc_ok, q.ci, q.n);
	ref_parse(b, &q, 1);
	if (q.n != capacity(&c) - 1) vf_fail("selftest:C15:idl", "quirk reading does not differ on the ambiguous hand packet");
	build_packet(b, &c, 0, 0xC3, wire, capacity(&c), NULL);
	ref_parse(b, &q, 0);
	if (!q.crc_ok || q.ci != 0xC3) vf_fail("selftest:C15:idl", "implicit CI 0xC3 read back as %02x (crc_ok=%d)", q.ci, q.crc_ok);
	b[20] ^= 0x04;
	ref_parse(b, &q, 0);
	if (q.crc_ok) vf_fail("selftest:C15:idl", "bit error with implicit CI not detected");
}
