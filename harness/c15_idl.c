/* C15, IDL format A half.  Independent packetiser and reference parser written
 * from EN 300 708 section 6.5:
 *
 *   bytes 0-1  packet address, Hamming 8/4: data channel = magazine bits + Y0,
 *              second byte 1111 (packet 30 / 31)
 *   byte 2     FT   Hamming 8/4: bit0 = 0 format A, bit1 RI present, bit2 CI
 *              present, bit3 DL present
 *   byte 3     IAL  Hamming 8/4: bits0-2 number of address nibbles 0..6 (7
 *              reserved), bit3 "dependent" interpretation
 *   SPA        0..6 Hamming 8/4 nibbles (least significant first, as the API's
 *              integer address is defined)
 *   [RI]       bits0-3 repeat number (0 = first transmission), bit7 = this
 *              packet will be repeated again.  Not covered by the CRC.
 *   [CI]       explicit continuity index, +1 per new packet of the service
 *   [DL]       bits0-5: number of bytes occupied in the user data area
 *   user data  up to the last two bytes; dummy byte after eight equal bytes
 *              0x00 / 0xFF (6.5.7.1), counted in the CRC-protected byte group
 *              [CI][DL]user-data as it appears on the wire
 *   CRC        2 bytes, generator x^16+x^9+x^7+x^4+1, register cleared at the
 *              start, fed with the bytes from CI (or DL / user data) LSB first.
 *              The receiver feeds the two check bytes through the same
 *              register.  Explicit CI: the register then holds zero.  Implicit
 *              CI: the check word is chosen so that the register then reads
 *              the CI value in both bytes.
 */
#include "c15_common.h"
#include "libzvbi.h"

#define MAXLP 16
#define MAXW 512
#define MAXDEL 200

struct conf {
	int channel, have_ri, have_ci, have_dl, alen, dependent;
	unsigned addr;
};

struct lpk {                    /* logical packet of the selected service */
	int ci, nrep;
	uint8_t user[40]; int nuser;
	int ndummy, endrun;     /* dummies inserted; run length of 00/FF at the end of the data area */
	int orig_ok;            /* original copy fed intact */
	int any_ok;             /* any copy fed intact */
	int ndeliv;
	int ambig;              /* readings of the dummy rule differ for this packet */
};

enum { F_OK = 0, F_BENIGN, F_CRC, F_HAMM };

struct wire {
	uint8_t b[42];
	int lp;                 /* logical packet or -1 (foreign) */
	int rep, fate;
};

struct deliv { int w; unsigned n, flags; uint8_t d[64]; int toolong; };

static struct lpk lp[MAXLP];
static struct wire wv[MAXW];
static int n_lp, n_w;
static struct deliv dv[MAXDEL];
static int n_dv, cur_w;

/* ---- CRC as polynomial division, bit by bit (no table, not reflected) ---- */

static unsigned crc_feed(unsigned r, const uint8_t *p, int n)
{
	int i, k;
	for (i = 0; i < n; i++)
		for (k = 0; k < 8; k++) {          /* LSB is transmitted first = highest coefficient */
			unsigned m = (p[i] >> k) & 1;
			unsigned fb = ((r >> 15) & 1) ^ m;
			r = (r << 1) & 0xFFFF;
			if (fb) r ^= 0x0291;       /* x^9 + x^7 + x^4 + 1 */
		}
	return r;
}

/* remainder -> the two bytes in transmission order (x^15 goes first, into bit 0 of the first byte) */
static void crc_bytes(unsigned r, uint8_t out[2])
{
	int k;
	out[0] = out[1] = 0;
	for (k = 0; k < 8; k++) {
		out[0] |= (uint8_t)(((r >> (15 - k)) & 1) << k);
		out[1] |= (uint8_t)(((r >> (7 - k)) & 1) << k);
	}
}

/* The receiver feeds data and check bytes alike through the same register; its
 * content afterwards, in transmission byte order. */
static void crc_residue(const uint8_t *p, int n, uint8_t out[2])
{
	crc_bytes(crc_feed(0, p, n), out);
}

/* t * x^-16 mod G: the check word that leaves t in the receiver's register
 * when everything before it left zero */
static unsigned crc_unstep16(unsigned t)
{
	int i;
	for (i = 0; i < 16; i++)
		t = (t & 1) ? (((t ^ 0x0291) >> 1) | 0x8000) : (t >> 1);
	return t;
}

/* register value that reads (a, b) in transmission byte order */
static unsigned crc_from_bytes(unsigned a, unsigned b)
{
	unsigned r = 0; int k;
	for (k = 0; k < 8; k++) {
		r |= ((a >> k) & 1) << (15 - k);
		r |= ((b >> k) & 1) << (7 - k);
	}
	return r;
}

/* ---- packetiser ---- */

static int hdr_len(const struct conf *c) { return c->alen + c->have_ri + c->have_ci + c->have_dl; }
static int capacity(const struct conf *c) { return 36 - hdr_len(c); }

/* wire[]: user data area as transmitted (with dummies), nwire bytes (DL counts these);
 * the rest of the area up to the CRC is filled with fill[] */
static void build_packet(uint8_t out[42], const struct conf *c, int ri, int ci,
			 const uint8_t *wire, int nwire, struct vf_rng *r)
{
	int p = 0, i, start;
	uint8_t ck[2];
	out[p++] = c15_ham84((unsigned)c->channel);
	out[p++] = c15_ham84(15);
	out[p++] = c15_ham84((unsigned)(c->have_ri << 1 | c->have_ci << 2 | c->have_dl << 3));
	out[p++] = c15_ham84((unsigned)(c->alen | c->dependent << 3));
	for (i = 0; i < c->alen; i++)
		out[p++] = c15_ham84((c->addr >> (4 * i)) & 15);
	if (c->have_ri) out[p++] = (uint8_t)ri;
	start = p;
	if (c->have_ci) out[p++] = (uint8_t)ci;
	if (c->have_dl) out[p++] = (uint8_t)nwire;
	for (i = 0; i < nwire; i++) out[p++] = wire[i];
	while (p < 40) out[p++] = (uint8_t)(r ? vf_below(r, 256) : 0x5A);
	{
		unsigned rem = crc_feed(0, out + start, 40 - start);
		/* implicit CI: the receiver's register shall read CI, CI instead of 0, 0 */
		if (!c->have_ci) rem ^= crc_unstep16(crc_from_bytes((unsigned)ci, (unsigned)ci));
		crc_bytes(rem, ck);
	}
	out[40] = ck[0];
	out[41] = ck[1];
}

/* ---- reference parser (one packet, stateless) ---- */

struct parsed {
	int hamm_err;           /* uncorrectable Hamming error in a field we had to read */
	int channel, desig, ft, ial, alen, dependent, ri, ci, crc_ok;
	unsigned addr;
	uint8_t data[40]; int n;
};

/* quirk=1: the run counter of the dummy-byte rule is seeded with the CI value
 * even when CI is not the byte in front of the user data (implicit CI, or DL in between) */
static void ref_parse(const uint8_t b[42], struct parsed *q, int quirk)
{
	int i, p, start, v, n, hist, cnt;
	uint8_t res[2];
	memset(q, 0, sizeof *q);
	q->channel = c15_unham84(b[0]);
	q->desig = c15_unham84(b[1]);
	if (q->channel < 0 || q->desig < 0) { q->hamm_err = 1; return; }
	if (q->desig != 15) return;
	q->ft = c15_unham84(b[2]);
	q->ial = c15_unham84(b[3]);
	if (q->ft < 0 || q->ial < 0) { q->hamm_err = 1; return; }
	q->alen = q->ial & 7;
	q->dependent = (q->ial >> 3) & 1;
	if ((q->ft & 1) || q->alen == 7) return;
	p = 4;
	for (i = 0; i < q->alen; i++) {
		v = c15_unham84(b[p++]);
		if (v < 0) { q->hamm_err = 1; return; }
		q->addr |= (unsigned)v << (4 * i);
	}
	if (q->ft & 2) q->ri = b[p++];
	start = p;
	crc_residue(b + start, 42 - start, res);
	if (q->ft & 4) {
		q->ci = b[p++];
		q->crc_ok = (res[0] == 0 && res[1] == 0);
	} else {
		q->ci = res[0];
		q->crc_ok = (res[0] == res[1]);
	}
	if (q->ft & 8) {
		n = b[p++] & 0x3F;
		if (n > 40 - p) n = 40 - p;
	} else
		n = 40 - p;
	/* dummy byte removal over the byte group CI, DL, user data as on the wire */
	hist = -1; cnt = 0;
	if (((q->ft & 4) && !(q->ft & 8)) || quirk) {
		hist = q->ci;
		cnt = (hist == 0 || hist == 0xFF) ? 1 : 0;
	}
	/* receiver side of the rule: a byte that follows exactly eight equal 0x00/0xFF bytes
	   and differs from them is the dummy byte */
	for (i = 0; i < n; i++) {
		int t = b[p + i];
		if ((t == 0 || t == 0xFF) && t == hist) {
			cnt++;
		} else {
			int dummy = (cnt == 8);
			hist = t; cnt = (t == 0 || t == 0xFF) ? 1 : 0;
			if (dummy) continue;      /* the dummy is a byte on the wire like any other for what follows */
		}
		q->data[q->n++] = (uint8_t)t;
	}
}

/* ---- generator ---- */

struct ugen { int mode, left, val; };

static int next_user(struct vf_rng *r, struct ugen *g)
{
	if (g->left <= 0) {
		switch (vf_below(r, 8)) {
		case 0: case 1: case 2:       /* long run of 00 / FF */
			g->mode = 1; g->val = vf_chance(r, 1, 2) ? 0x00 : 0xFF;
			g->left = vf_chance(r, 1, 3) ? vf_range(r, 7, 9) : vf_range(r, 1, 30);
			break;
		case 3:                        /* run of another value: no stuffing */
			g->mode = 1; g->val = vf_chance(r, 1, 2) ? 0xAA : (int)vf_below(r, 256);
			g->left = vf_range(r, 6, 12);
			break;
		default:
			g->mode = 0; g->left = vf_range(r, 1, 9);
		}
	}
	g->left--;
	if (g->mode) return g->val;
	return vf_chance(r, 1, 6) ? (vf_chance(r, 1, 2) ? 0x00 : 0xFF) : (int)vf_below(r, 256);
}

static int is_run_byte(int t) { return t == 0 || t == 0xFF; }

/* Fill the user data area of one packet.  Returns number of wire bytes. */
static int gen_payload(struct vf_rng *r, const struct conf *c, struct lpk *l, struct ugen *g,
		       uint8_t *wire, int want_ambig)
{
	int cap = capacity(c), nwire, w = 0, hist = -1, cnt = 0, first = 1;
	int ci_adjacent = c->have_ci && !c->have_dl;
	int ci_run = is_run_byte(l->ci);
	if (c->have_dl) {
		switch (vf_below(r, 6)) {
		case 0: nwire = cap; break;
		case 1: nwire = vf_range(r, 0, 2); break;
		default: nwire = vf_range(r, 0, cap);
		}
	} else
		nwire = cap;
	if (ci_adjacent) { hist = l->ci; cnt = ci_run ? 1 : 0; }
	l->nuser = l->ndummy = 0; l->ambig = 0;
	if (want_ambig && ci_run && !ci_adjacent) {   /* 7 or 8 bytes equal to the (not adjacent) CI value first */
		g->mode = 1; g->val = l->ci; g->left = vf_range(r, 7, 9);
	}
	while (w < nwire) {
		int u = next_user(r, g);
		if (first && ci_run && !ci_adjacent && u == l->ci && !want_ambig) {
			/* keep out of the class where readings of 6.5.7.1 differ */
			u ^= 0x5A; g->left = 0;
		}
		if (first && ci_run && !ci_adjacent && u == l->ci) l->ambig = 1;
		first = 0;
		wire[w++] = (uint8_t)u;
		l->user[l->nuser++] = (uint8_t)u;
		if (is_run_byte(u) && u == hist) cnt++;
		else { hist = u; cnt = is_run_byte(u) ? 1 : 0; }
		if (cnt == 8 && w < nwire) {
			int d;
			switch (vf_below(r, 3)) {
			case 0: d = 0xAA; break;
			case 1: d = 0x55; break;
			default: d = vf_range(r, 1, 0xFE);
			}
			wire[w++] = (uint8_t)d;
			l->ndummy++;
			hist = d; cnt = 0;
		}
	}
	l->endrun = cnt;
	return nwire;
}

static void gen_conf(struct vf_rng *r, struct conf *c)
{
	int opts = (int)vf_below(r, 8);
	c->channel = (int)vf_below(r, 16);
	c->have_ri = opts & 1; c->have_ci = (opts >> 1) & 1; c->have_dl = (opts >> 2) & 1;
	c->alen = (int)vf_below(r, 7);
	c->dependent = (int)vf_below(r, 2);
	c->addr = c->alen ? (unsigned)(vf_u32(r) & ((1u << (4 * c->alen)) - 1)) : 0;
	if (c->alen && vf_chance(r, 1, 8)) c->addr = (1u << (4 * c->alen)) - 1;
}

static void push_wire(const uint8_t b[42], int lpi, int rep)
{
	if (n_w >= MAXW) return;
	memcpy(wv[n_w].b, b, 42);
	wv[n_w].lp = lpi; wv[n_w].rep = rep; wv[n_w].fate = F_OK;
	n_w++;
}

static void gen_foreign(struct vf_rng *r, const struct conf *sel)
{
	uint8_t b[42], wire[40];
	struct conf c;
	struct lpk tmp;
	struct ugen g = { 0, 0, 0 };
	int n;
	memset(&tmp, 0, sizeof tmp);
	switch (vf_below(r, 6)) {
	case 0:                                  /* ordinary Teletext packet, any magazine, rows 0..29 */
		c15_plain_packet(r, b, (int)vf_below(r, 8), (int)vf_below(r, 30));
		break;
	case 1:                                  /* same service but format B / reserved address length */
		c = *sel;
		tmp.ci = (int)vf_below(r, 256);
		n = gen_payload(r, &c, &tmp, &g, wire, 0);
		build_packet(b, &c, 0, tmp.ci, wire, n, r);
		if (vf_chance(r, 1, 2)) b[2] = c15_ham84((unsigned)(1 | (int)vf_below(r, 8) << 1));
		else b[3] = c15_ham84(7u | (unsigned)vf_below(r, 2) << 3);
		break;
	case 2:                                  /* other channel, same address */
		c = *sel;
		c.channel = (sel->channel + 1 + (int)vf_below(r, 15)) & 15;
		tmp.ci = (int)vf_below(r, 256);
		n = gen_payload(r, &c, &tmp, &g, wire, 0);
		build_packet(b, &c, 0, tmp.ci, wire, n, r);
		break;
	default:                                 /* same channel, numerically different address */
		do {
			gen_conf(r, &c);
			c.channel = sel->channel;
			if (vf_chance(r, 1, 2) && sel->alen) {   /* differs in one nibble only */
				c.alen = sel->alen;
				c.addr = sel->addr ^ (1u << vf_below(r, (unsigned)(4 * sel->alen)));
			}
		} while (c.addr == sel->addr);
		tmp.ci = (int)vf_below(r, 256);
		n = gen_payload(r, &c, &tmp, &g, wire, 0);
		build_packet(b, &c, c.have_ri ? (int)(vf_below(r, 3) | (vf_below(r, 2) << 7)) : 0, tmp.ci, wire, n, r);
		break;
	}
	push_wire(b, -1, 0);
}

/* ---- faults ---- */

/* bytes of the CRC group (from CI on) get a burst of at most 16 bits: always detected with an explicit CI;
 * with an implicit CI the reference parser is asked, and we draw again if the burst is not detected */
static void corrupt_crc(struct vf_rng *r, struct wire *w, const struct conf *c)
{
	int start = 4 + c->alen + c->have_ri, tries;
	uint8_t save[42];
	struct parsed q;
	memcpy(save, w->b, 42);
	for (tries = 0; tries < 100; tries++) {
		int p = vf_range(r, start, 41);
		memcpy(w->b, save, 42);
		w->b[p] ^= (uint8_t)(1 + vf_below(r, 255));
		if (p < 41 && vf_chance(r, 1, 3)) w->b[p + 1] ^= (uint8_t)vf_below(r, 256);
		ref_parse(w->b, &q, 0);
		if (!q.crc_ok) return;
	}
	w->b[41] ^= 1; w->b[40] ^= 2;
}

static void apply_fault(struct vf_rng *r, int wi, int kind, const struct conf *c)
{
	struct wire *w = &wv[wi];
	int p = (int)vf_below(r, (unsigned)(4 + c->alen));
	switch (kind) {
	case F_BENIGN: w->b[p] = c15_flip1(r, w->b[p]); w->fate = F_BENIGN; break;
	case F_HAMM:   w->b[p] = c15_flip2(r, w->b[p]); w->fate = F_HAMM; break;
	case F_CRC:    corrupt_crc(r, w, c); w->fate = F_CRC; break;
	}
}

/* ---- consumer ---- */

static vbi_bool idl_cb(vbi_idl_demux *dx, const uint8_t *buffer, unsigned int n_bytes, unsigned int flags, void *ud)
{
	(void)dx; (void)ud;
	vf_log("callback during wire %d: %u bytes flags 0x%x\n", cur_w, n_bytes, flags);
	if (n_dv < MAXDEL) {
		struct deliv *d = &dv[n_dv++];
		d->w = cur_w; d->n = n_bytes; d->flags = flags;
		d->toolong = n_bytes > 36;
		memcpy(d->d, buffer, n_bytes > 40 ? 40 : n_bytes);
	}
	return TRUE;
}

static int expect_ret(const struct wire *w)
{
	if (w->fate == F_OK || w->fate == F_BENIGN) return 1;
	if (w->lp >= 0) return 0;
	return -1;
}

static void evaluate(const char *iface, const struct conf *c, int quirk_possible)
{
	int i, prev_lp = -1, prev_w = -1, k, j;
	for (k = 0; k < n_lp; k++) lp[k].ndeliv = 0;
	for (i = 0; i < n_dv; i++) {
		struct deliv *d = &dv[i];
		struct wire *w = &wv[d->w];
		struct lpk *l;
		int lost = 0, trouble = 0;
		if (w->lp < 0) {
			vf_fail("model:C15:idl:foreign-delivery", "%s: callback while feeding packet %d which is not of channel %d address 0x%x: %s -> %u bytes %s",
				iface, d->w, c->channel, c->addr, vf_hex(w->b, 42), d->n, vf_hex(d->d, d->n > 40 ? 40 : d->n));
			return;
		}
		if (w->fate == F_CRC || w->fate == F_HAMM) {
			vf_fail("model:C15:idl:corrupt-packet-delivered", "%s: packet %d (%s error) delivered: %s",
				iface, d->w, w->fate == F_CRC ? "CRC" : "Hamming", vf_hex(w->b, 42));
			return;
		}
		l = &lp[w->lp];
		if (d->toolong || (int)d->n != l->nuser || memcmp(d->d, l->user, (size_t)l->nuser)) {
			struct parsed q;
			ref_parse(w->b, &q, 1);
			if (quirk_possible && l->ambig && (int)d->n == q.n && 0 == memcmp(d->d, q.data, (size_t)q.n)) {
				vf_fail("model:C15:idl:Q-dummy-run-seeded-by-absent-ci",
					"%s: packet %d (CI %s=0x%02x%s) user data starts with a run of the CI value; sent %d bytes %s, delivered %u bytes %s; "
					"explained exactly by counting the CI value as first byte of the run although it is not the byte in front of the user data",
					iface, d->w, c->have_ci ? "explicit" : "implicit", l->ci, c->have_dl ? ", DL between" : "",
					l->nuser, vf_hex(l->user, (size_t)l->nuser), d->n, vf_hex(d->d, d->n > 40 ? 40 : d->n));
				vf_count("quirk_dummy_explained", 1);
			} else {
				vf_fail("model:C15:idl:content-mismatch", "%s: packet %d %s: sent %d bytes %s, delivered %u bytes %s (dummies=%d)",
					iface, d->w, vf_hex(w->b, 42), l->nuser, vf_hex(l->user, (size_t)l->nuser), d->n, vf_hex(d->d, d->n > 40 ? 40 : d->n), l->ndummy);
				return;
			}
		}
		if (l->ndeliv++) {
			vf_fail("model:C15:idl:duplicate-delivery", "%s: logical packet %d (CI 0x%02x) delivered again by its repeat %d (wire %d)",
				iface, w->lp, l->ci, w->rep, d->w);
			return;
		}
		for (j = prev_lp + 1; j < w->lp; j++) lost = 1;
		for (j = prev_w + 1; j < d->w; j++)
			if (wv[j].lp >= 0 && wv[j].fate == F_CRC) trouble = 1;
		if (d->flags & ~(unsigned)(VBI_IDL_DATA_LOST | VBI_IDL_DEPENDENT)) {
			vf_fail("model:C15:idl:flags-undefined-bits", "%s: delivery %d flags=0x%x contains bits other than DATA_LOST|DEPENDENT", iface, i, d->flags);
			return;
		}
		if (!!(d->flags & VBI_IDL_DEPENDENT) != c->dependent) {
			vf_fail("model:C15:idl:dependent-flag", "%s: delivery %d flags=0x%x but IAL bit 3 sent as %d", iface, i, d->flags, c->dependent);
			return;
		}
		if (lost && prev_lp >= 0 && !(d->flags & VBI_IDL_DATA_LOST)) {
			vf_fail("model:C15:idl:data-lost-not-flagged", "%s: delivery %d is logical packet %d (CI 0x%02x), previous delivery was packet %d: %d packet(s) missing but flags=0x%x",
				iface, i, w->lp, l->ci, prev_lp, w->lp - prev_lp - 1, d->flags);
			return;
		}
		if (!lost && !trouble && (d->flags & VBI_IDL_DATA_LOST)) {
			vf_fail("model:C15:idl:spurious-data-lost", "%s: delivery %d is logical packet %d (CI 0x%02x) right after packet %d, nothing lost or corrupted in between, flags=0x%x",
				iface, i, w->lp, l->ci, prev_lp, d->flags);
			return;
		}
		if (d->flags & VBI_IDL_DATA_LOST) vf_count("idl_data_lost_flagged", 1);
		prev_lp = w->lp; prev_w = d->w;
	}
	for (k = 0; k < n_lp; k++)
		if (lp[k].orig_ok && !lp[k].ndeliv) {
			vf_fail("model:C15:idl:not-delivered", "%s: logical packet %d (CI 0x%02x, %d bytes %s) was fed intact but not delivered",
				iface, k, lp[k].ci, lp[k].nuser, vf_hex(lp[k].user, (size_t)lp[k].nuser));
			return;
		}
}

static void poison_heap(void)
{
	/* freed chunks of the demux context's size carry 0xFF, so uninitialised fields do not read as zero by luck */
	void *p[4]; int i;
	for (i = 0; i < 4; i++) { p[i] = malloc(40 + 8 * (size_t)i); if (p[i]) memset(p[i], 0xFF, 40 + 8 * (size_t)i); }
	for (i = 0; i < 4; i++) free(p[i]);
}

int c15_idl_case(struct vf_rng *r, long idx)
{
	struct conf c;
	struct ugen g = { 0, 0, 0 };
	uint8_t wire[40], b[42], *pk;
	int ci, k, i, nf, kinds = 0, want_ambig, any_ambig = 0, maxend = 0, totdummy = 0, anyrep = 0, nforeign = 0, recovered = 0;
	vbi_idl_demux *dx;
	(void)idx;

	gen_conf(r, &c);
	want_ambig = vf_chance(r, 1, 8);
	n_lp = vf_range(r, 1, vf_chance(r, 1, 2) ? 4 : 12);
	ci = (int)vf_below(r, 256);
	if (vf_chance(r, 1, 3) || want_ambig) ci = (254 + (int)vf_below(r, 4) - (int)vf_below(r, (unsigned)n_lp)) & 255;   /* visit FF/00 and the wrap */
	n_w = 0;
	for (k = 0; k < n_lp; k++) {
		struct lpk *l = &lp[k];
		int n, rep;
		memset(l, 0, sizeof *l);
		l->ci = (ci + k) & 255;
		l->nrep = c.have_ri ? (vf_chance(r, 1, 2) ? 0 : vf_range(r, 1, 3)) : 0;
		n = gen_payload(r, &c, l, &g, wire, want_ambig);
		any_ambig |= l->ambig;
		if (l->endrun > maxend) maxend = l->endrun;
		totdummy += l->ndummy;
		anyrep |= l->nrep > 0;
		for (rep = 0; rep <= l->nrep; rep++) {
			while (nforeign < 200 && vf_chance(r, 1, 3)) { gen_foreign(r, &c); nforeign++; }
			build_packet(b, &c, rep | (rep < l->nrep ? 0x80 : 0), l->ci, wire, n, rep ? NULL : r);
			if (rep) {      /* a repeat is the same packet except for RI (and, with implicit CI, nothing else) */
				int last = n_w - 1;
				while (last >= 0 && wv[last].lp != k) last--;
				memcpy(b, wv[last].b, 42);
				b[4 + c.alen] = (uint8_t)(rep | (rep < l->nrep ? 0x80 : 0));
			}
			push_wire(b, k, rep);
		}
	}
	while (nforeign < 200 && vf_chance(r, 1, 3)) { gen_foreign(r, &c); nforeign++; }

	/* self-check: the reference parser reads every packet of the service as sent */
	for (i = 0; i < n_w; i++) {
		struct parsed q;
		struct lpk *l;
		if (wv[i].lp < 0) continue;
		l = &lp[wv[i].lp];
		ref_parse(wv[i].b, &q, 0);
		if (q.hamm_err || !q.crc_ok || q.channel != c.channel || q.addr != c.addr || q.ci != l->ci
		    || q.n != l->nuser || memcmp(q.data, l->user, (size_t)q.n) || (c.have_ri && (q.ri & 15) != wv[i].rep)) {
			vf_fail("selfcheck:C15:idl-parser-vs-packetiser", "packet %s parsed ci=%02x n=%d crc_ok=%d; packetiser ci=%02x n=%d",
				vf_hex(wv[i].b, 42), q.ci, q.n, q.crc_ok, l->ci, l->nuser);
			return 0;
		}
	}

	/* faults: patterns of up to 4 events on packets of the selected service */
	nf = vf_chance(r, 2, 5) ? 0 : vf_range(r, 1, 4);
	for (i = 0; i < nf; i++) {
		int wi, tries = 0, kind;
		do wi = (int)vf_below(r, (unsigned)n_w); while ((wv[wi].lp < 0 || wv[wi].fate != F_OK) && ++tries < 50);
		if (wv[wi].lp < 0 || wv[wi].fate != F_OK) break;
		kind = (int)vf_below(r, 4);
		if (kind == 0) {                /* drop */
			memmove(&wv[wi], &wv[wi + 1], sizeof wv[0] * (size_t)(n_w - wi - 1));
			n_w--;
			kinds |= 1;
			if (n_w == 0) break;
		} else {
			apply_fault(r, wi, kind, &c);
			kinds |= 1 << kind;
		}
	}
	for (i = 0; i < n_w; i++)
		if (wv[i].lp >= 0 && (wv[i].fate == F_OK || wv[i].fate == F_BENIGN)) {
			lp[wv[i].lp].any_ok = 1;
			if (wv[i].rep == 0) lp[wv[i].lp].orig_ok = 1;
		}

	vf_sample("idl ch=%d addr=%0*x/%d ft=%s%s%s dep=%d packets=%d wire=%d foreign=%d dummies=%d endrun=%d faults=0x%x ambig=%d ci0=%02x",
		  c.channel, c.alen ? c.alen : 1, c.addr, c.alen, c.have_ri ? "R" : "-", c.have_ci ? "C" : "-", c.have_dl ? "L" : "-",
		  c.dependent, n_lp, n_w, nforeign, totdummy, maxend, kinds, any_ambig, ci);

	if (vf_verbose)
		for (i = 0; i < n_w; i++)
			vf_log("wire %d: lp=%d rep=%d fate=%d %s\n", i, wv[i].lp, wv[i].rep, wv[i].fate, vf_hex(wv[i].b, 42));
	pk = malloc(42);
	if (!pk) { vf_fail("harness:alloc", "malloc"); return 0; }

	/* 1. packet interface */
	vf_phase("vbi_idl_demux_feed");
	poison_heap();
	dx = vbi_idl_a_demux_new((unsigned)c.channel, c.addr, idl_cb, NULL);
	if (!dx) { vf_fail("harness:alloc", "vbi_idl_a_demux_new failed"); free(pk); return 0; }
	n_dv = 0;
	for (i = 0; i < n_w; i++) {
		vbi_bool ok;
		int e = expect_ret(&wv[i]);
		memcpy(pk, wv[i].b, 42);
		cur_w = i;
		ok = vbi_idl_demux_feed(dx, pk);
		if (e == 1 && !ok)
			vf_fail("model:C15:idl:feed-false-on-good-packet", "feed returned FALSE for intact packet %d %s", i, vf_hex(pk, 42));
		else if (e == 0 && ok)
			vf_fail("model:C15:idl:feed-true-on-bad-packet", "feed returned TRUE for packet %d of the service with %s error %s",
				i, wv[i].fate == F_CRC ? "a CRC" : "an uncorrectable Hamming", vf_hex(pk, 42));
	}
	evaluate("feed", &c, 1);
	for (k = 0; k < n_lp; k++) if (lp[k].ndeliv && !lp[k].orig_ok) recovered++;
	vbi_idl_demux_delete(dx);

	/* 2. frame interface: several lines per frame, other services around; a frame ends after a packet
	 *    for which FALSE is expected (feed_frame stops there by contract) */
	vf_phase("vbi_idl_demux_feed_frame");
	poison_heap();
	dx = vbi_idl_a_demux_new((unsigned)c.channel, c.addr, idl_cb, NULL);
	if (!dx) { vf_fail("harness:alloc", "vbi_idl_a_demux_new failed"); free(pk); return 0; }
	n_dv = 0;
	for (i = 0; i < n_w; ) {
		vbi_sliced sl[8];
		int n = 0, last_e = 1, first = i;
		vbi_bool ok;
		memset(sl, 0, sizeof sl);
		sl[n].id = VBI_SLICED_VPS; sl[n].line = 16; memset(sl[n].data, 0x55, 13); n++;
		cur_w = -1;
		while (i < n_w && n < 6) {
			if (wv[i].lp >= 0 && cur_w >= 0 && wv[cur_w].lp >= 0) break;   /* one packet of the service per frame */
			if (wv[i].lp >= 0 || cur_w < 0) cur_w = i;
			sl[n].id = (i & 1) ? VBI_SLICED_TELETEXT_B : VBI_SLICED_TELETEXT_B_L25_625;
			sl[n].line = (uint32_t)(7 + n);
			memcpy(sl[n].data, wv[i].b, 42);
			n++;
			last_e = expect_ret(&wv[i]);
			i++;
			if (last_e != 1 || vf_chance(r, 1, 3)) break;
		}
		if (last_e == 1) { sl[n].id = VBI_SLICED_CAPTION_625; sl[n].line = 22; sl[n].data[0] = 0x80; sl[n].data[1] = 0x80; n++; }
		ok = vbi_idl_demux_feed_frame(dx, sl, (unsigned)n);
		if (last_e == 1 && !ok)
			vf_fail("model:C15:idl:feed-false-on-good-packet", "feed_frame returned FALSE for a frame of intact packets %d..%d", first, i - 1);
		else if (last_e == 0 && ok)
			vf_fail("model:C15:idl:feed-true-on-bad-packet", "feed_frame returned TRUE although packet %d of the service is damaged", i - 1);
	}
	evaluate("feed_frame", &c, 1);
	vbi_idl_demux_delete(dx);
	free(pk);

	vf_count("idl_packets_fed", n_w);
	vf_count("idl_logical_packets", n_lp);
	vf_count("idl_foreign_packets", nforeign);
	vf_count("idl_dummy_bytes", totdummy);
	vf_count("idl_recovered_by_repeat", recovered);
	if (kinds & 1) vf_count("idl_fault_drop", 1);
	if (kinds & 2) vf_count("idl_fault_hamming_correctable", 1);
	if (kinds & 4) vf_count("idl_fault_crc", 1);
	if (kinds & 8) vf_count("idl_fault_hamming_uncorrectable", 1);
	if (maxend == 8) vf_count("idl_run8_at_packet_end", 1);
	if (any_ambig) vf_count("idl_ambiguous_run_start", 1);
	vf_sig("idl ft=%d alen=%s endrun=%s rep=%d faults=0x%x ambig=%d", c.have_ri | c.have_ci << 1 | c.have_dl << 2,
	       c.alen == 0 ? "0" : c.alen == 6 ? "6" : "1-5",
	       maxend == 8 ? "8" : maxend == 7 ? "7" : maxend ? "1-6" : "0", anyrep, kinds, any_ambig);
	return 1;
}

void c15_idl_selftest(void)
{
	/* CRC: x^16 divided by G leaves x^9+x^7+x^4+1; a single 1 bit as the very first message bit of 1 byte */
	uint8_t one[1] = { 0x01 }, msg[5] = { 0x12, 0x00, 0xFF, 0x80, 0x01 }, buf[7], res[2], ck[2];
	struct conf c = { 3, 0, 1, 0, 2, 1, 0xA5 };
	struct parsed q;
	uint8_t wire[40], b[42];
	unsigned r = crc_feed(0, one, 1), r2;
	int i;
	/* 0x01: the 1 bit comes first, followed by 7 zero bits: remainder of x^(7+16) */
	r2 = 0x0291;
	for (i = 0; i < 7; i++) r2 = ((r2 << 1) & 0xFFFF) ^ ((r2 & 0x8000) ? 0x0291 : 0);
	if (r != r2) vf_fail("selftest:C15:crc", "bit-serial CRC of 0x01 is %04x, x^23 mod G is %04x", r, r2);
	crc_bytes(crc_feed(0, msg, 5), ck);
	memcpy(buf, msg, 5); buf[5] = ck[0]; buf[6] = ck[1];
	crc_residue(buf, 7, res);
	if (res[0] || res[1]) vf_fail("selftest:C15:crc", "message plus check word leaves %02x %02x", res[0], res[1]);
	if (crc_feed(0, buf, 7) != 0) vf_fail("selftest:C15:crc", "dividing message and check word as one polynomial leaves a remainder");
	buf[2] ^= 0x10;
	crc_residue(buf, 7, res);
	if (!res[0] && !res[1]) vf_fail("selftest:C15:crc", "single bit error not detected");

	/* packet: explicit CI 0x00 directly before 7 zero data bytes -> dummy after the 7th */
	memset(wire, 0x11, sizeof wire);
	memset(wire, 0, 7); wire[7] = 0xAA; wire[8] = 0x42;
	build_packet(b, &c, 0, 0x00, wire, capacity(&c), NULL);
	ref_parse(b, &q, 0);
	if (q.hamm_err || !q.crc_ok || q.channel != 3 || q.addr != 0xA5 || !q.dependent || q.ci != 0 || q.n != capacity(&c) - 1
	    || q.data[6] != 0 || q.data[7] != 0x42)
		vf_fail("selftest:C15:idl", "hand packet with explicit CI not parsed back (n=%d crc_ok=%d)", q.n, q.crc_ok);
	if (b[0] != 0x5E || b[1] != 0xEA || b[2] != 0x64 /* FT=4 */ || b[3] != 0x8C /* IAL=2|8 */ || b[4] != 0x73 || b[5] != 0x8C || b[6] != 0x00)
		vf_fail("selftest:C15:idl", "hand packet header bytes wrong: %s", vf_hex(b, 8));
	/* implicit CI: remainder reads CI twice; 7 zeros are not a full run then */
	c.have_ci = 0;
	build_packet(b, &c, 0, 0x00, wire, capacity(&c), NULL);
	ref_parse(b, &q, 0);
	if (!q.crc_ok || q.ci != 0 || q.n != capacity(&c) || q.data[7] != 0xAA)
		vf_fail("selftest:C15:idl", "implicit CI hand packet: crc_ok=%d ci=%02x n=%d", q.crc_ok, q.ci, q.n);
	ref_parse(b, &q, 1);
	if (q.n != capacity(&c) - 1) vf_fail("selftest:C15:idl", "quirk reading does not differ on the ambiguous hand packet");
	build_packet(b, &c, 0, 0xC3, wire, capacity(&c), NULL);
	ref_parse(b, &q, 0);
	if (!q.crc_ok || q.ci != 0xC3) vf_fail("selftest:C15:idl", "implicit CI 0xC3 read back as %02x (crc_ok=%d)", q.ci, q.crc_ok);
	b[20] ^= 0x04;
	ref_parse(b, &q, 0);
	if (q.crc_ok) vf_fail("selftest:C15:idl", "bit error with implicit CI not detected");
}
