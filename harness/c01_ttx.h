/* C01 - Teletext "station": page set with roles and the page builders.
 * Included by c01_decoder_fuzz.c only.  All random choices come from the
 * generation rng passed in; packets go to the queue tq[] via tq_push(), which
 * applies the seeded byte/bit mutation. */
#ifndef C01_TTX_H
#define C01_TTX_H
#include "c01_gen.h"

enum role { R_LOP, R_BTT, R_AIT, R_MPT, R_MPTEX, R_MOT, R_MIP, R_GPOP, R_POP, R_GDRCS, R_DRCS, R_TRIG, R_DATA, R_FILL, N_ROLES };
static const char *role_name[N_ROLES] = { "lop", "btt", "ait", "mpt", "mptex", "mot", "mip", "gpop", "pop", "gdrcs", "drcs", "trig", "data", "fill" };

struct spage { int pgno; int role; int nsub; int next_sub; unsigned cflags; int sent; };
#define MAXSP 40
static struct {
	struct spage p[MAXSP];
	int n;
	int serial;           /* C11 magazine serial */
	int mags[8], nmags;
	int cni_idx;
} st;

/* features of the transmission */
#define F_SUB   0x0001
#define F_FLOF  0x0002
#define F_X26   0x0004
#define F_X28   0x0008
#define F_M29   0x0010
#define F_MOT   0x0020
#define F_POP   0x0040
#define F_DRCS  0x0080
#define F_MIP   0x0100
#define F_TOP   0x0200
#define F_TRIG  0x0400
#define F_830   0x0800
#define F_DATA  0x1000
#define F_HOSTILE_STRUCT 0x2000   /* reorder / duplicate / drop packets, wrong designations */
static unsigned feat;
static int short_countdown;      /* EACEM triggers: countdown attributes of at most 10 frames */
static int odd_sub_rate = 12;     /* 1/n of the LOP transmissions carry a random 14 bit subcode; 0 = never */

/* mutation: probability per packet in 1/65536, and intensity */
static unsigned mut_rate;
static long n_mutated;

#define TQ_MAX 6000
static struct g_pkt tq[TQ_MAX];
static int tq_n, tq_head;

static void mutate_bytes(struct vf_rng *r, uint8_t *b, int n)
{
	int k;
	switch (vf_below(r, 8)) {
	case 0: b[vf_below(r, (unsigned)n)] ^= (uint8_t)(1u << vf_below(r, 8)); break;
	case 1: for (k = vf_range(r, 2, 6); k > 0; k--) b[vf_below(r, (unsigned)n)] ^= (uint8_t)(1u << vf_below(r, 8)); break;
	case 2: b[vf_below(r, (unsigned)n)] = (uint8_t)vf_u32(r); break;
	case 3: { int a = (int)vf_below(r, (unsigned)n), l = vf_range(r, 1, n - a); vf_bytes(r, b + a, (size_t)l); break; }
	case 4: vf_bytes(r, b, (size_t)n); break;
	case 5: { int a = (int)vf_below(r, (unsigned)n), l = vf_range(r, 1, n - a); memset(b + a, vf_chance(r, 1, 2) ? 0 : 0xFF, (size_t)l); break; }
	case 6: b[vf_below(r, 2)] ^= (uint8_t)(1u << vf_below(r, 8)); break;   /* address bytes */
	case 7: if (n > 4) b[2] = (uint8_t)g_ham84(vf_below(r, 16)); break;     /* another valid designation / digit */
	}
}

static void tq_push(struct vf_rng *r, const struct g_pkt *p)
{
	if (tq_n >= TQ_MAX) return;
	tq[tq_n] = *p;
	if (mut_rate && (vf_u32(r) & 0xFFFF) < mut_rate) {
		mutate_bytes(r, tq[tq_n].b, 42);
		n_mutated++;
	}
	tq_n++;
	if ((feat & F_HOSTILE_STRUCT) && tq_n >= 2 && tq_n < TQ_MAX) {
		switch (vf_below(r, 40)) {
		case 0: tq[tq_n] = tq[tq_n - 1]; tq_n++; break;                                   /* duplicate */
		case 1: tq_n--; break;                                                            /* drop */
		case 2: { struct g_pkt t = tq[tq_n - 1]; tq[tq_n - 1] = tq[tq_n - 2]; tq[tq_n - 2] = t; break; } /* swap */
		default: break;
		}
	}
}

static struct spage *st_find_role(struct vf_rng *r, int role)
{
	int i, c = 0, pick;
	for (i = 0; i < st.n; i++) if (st.p[i].role == role) c++;
	if (!c) return NULL;
	pick = (int)vf_below(r, (unsigned)c);
	for (i = 0; i < st.n; i++) if (st.p[i].role == role && pick-- == 0) return &st.p[i];
	return NULL;
}

static int st_any_pgno(struct vf_rng *r)
{
	if (st.n && vf_chance(r, 7, 8)) return st.p[vf_below(r, (unsigned)st.n)].pgno;
	return vf_range(r, 0x100, 0x8FF);
}
static int st_lop_pgno(struct vf_rng *r)
{
	struct spage *s = st_find_role(r, R_LOP);
	return s ? s->pgno : 0x100;
}

/* Coherent objects (EN 300 706 section 13): for most POP / GPOP pages of a station the pointer rows,
 * the definition triplets and the invocations in X/26 packets of normal pages and inside other objects
 * agree with each other, so that object invocations really resolve and nest (active -> adaptive -> passive),
 * including invocations the standard forbids: of the same or a lower type, of the object itself, in cycles.
 * An object is found like this (resolve_obj_address): invocation triplet address = 48 (POP) / 56 (GPOP)
 * + pointer packet 0..3, mode 0x10 + type, data = group << 5 | half << 4 | S1 of the object page;
 * pointer packet 1..4 triplet group * 3 + type, low or high 9 bits = index of the definition triplet,
 * which has mode 0x14 + type, the same data and the same low two address bits. */
struct sobj { int type, pp, g, h, idx, len; };
#define MAXOBJ 6
static struct { int coherent, n; struct sobj o[MAXOBJ]; } pobj[40 /* MAXSP */];
static struct spage *cur_popp, *cur_gpopp;      /* object pages the normal page under construction links to */

static void objects_build(struct vf_rng *r, int sp)
{
	int k, j, n = vf_range(r, 1, MAXOBJ);
	pobj[sp].coherent = vf_chance(r, 4, 5);
	pobj[sp].n = 0;
	for (k = 0; k < n; k++) {
		struct sobj *o = &pobj[sp].o[pobj[sp].n];
		o->type = vf_range(r, 1, 3);
		o->pp = vf_chance(r, 3, 4) ? (int)vf_below(r, 2) : (int)vf_below(r, 4);
		o->g = (int)vf_below(r, 4);
		o->h = (int)vf_below(r, 2);
		o->idx = 26 + k * 44 + (int)vf_below(r, 20);           /* packets 5 ... 25, bodies do not overlap */
		o->len = vf_range(r, 2, 20);
		for (j = 0; j < pobj[sp].n; j++)
			if (pobj[sp].o[j].pp == o->pp && pobj[sp].o[j].g == o->g && pobj[sp].o[j].type == o->type && pobj[sp].o[j].h == o->h) break;
		if (j == pobj[sp].n) pobj[sp].n++;
	}
}

/* invocation of object o of station page t (NULL: none) */
static unsigned obj_invocation(struct vf_rng *r, struct spage *t, const struct sobj *o, int type_override)
{
	int s1 = t->nsub > 0 ? vf_range(r, 1, t->nsub) : 0;
	int ty = type_override ? type_override : o->type;
	return G_TRIP((t->role == R_GPOP ? 56 : 48) | (vf_below(r, 2) << 2) | (unsigned)o->pp, 0x10 + ty,
		      ((unsigned)o->g << 5) | ((unsigned)o->h << 4) | (unsigned)s1);
}

static struct sobj *obj_pick(struct vf_rng *r, struct spage *t)
{
	int sp;
	if (!t) return NULL;
	sp = (int)(t - st.p);
	if (!pobj[sp].coherent || !pobj[sp].n) return NULL;
	return &pobj[sp].o[vf_below(r, (unsigned)pobj[sp].n)];
}

static int st_add(int pgno, int role, int nsub, unsigned cflags)
{
	int i;
	if (st.n >= MAXSP) return 0;
	for (i = 0; i < st.n; i++) if (st.p[i].pgno == pgno) return 0;
	st.p[st.n].pgno = pgno; st.p[st.n].role = role; st.p[st.n].nsub = nsub;
	st.p[st.n].next_sub = 0; st.p[st.n].cflags = cflags; st.p[st.n].sent = 0;
	st.n++;
	return 1;
}

static int bcd_page(struct vf_rng *r, int mag) { return mag * 0x100 + (int)vf_below(r, 10) * 16 + (int)vf_below(r, 10); }
static int hex_page(struct vf_rng *r, int mag)
{
	int p;
	do p = (int)vf_below(r, 0xFF); while ((p & 15) <= 9 && p <= 0x99);
	if (p == 0xFD || p == 0xFE) p = 0xAB;
	return mag * 0x100 + p;
}

static void station_build(struct vf_rng *r)
{
	int i, n;
	memset(&st, 0, sizeof st);
	st.serial = vf_chance(r, 1, 2);
	st.nmags = vf_range(r, 1, 3);
	st.mags[0] = 1;
	for (i = 1; i < st.nmags; i++) st.mags[i] = vf_range(r, 2, 8);
	st_add(0x100, R_LOP, (feat & F_SUB) ? vf_range(r, 0, 3) : 0, 0);
	n = vf_range(r, 2, 7);
	for (i = 0; i < n; i++) {
		int mag = st.mags[vf_below(r, (unsigned)st.nmags)];
		unsigned c = 0;
		if (vf_chance(r, 1, 5)) c |= GC6 | GC7;           /* subtitle */
		if (vf_chance(r, 1, 8)) c |= GC5 | GC7;           /* newsflash */
		if (vf_chance(r, 1, 10)) c |= GC10;
		if (vf_chance(r, 1, 3)) c |= vf_below(r, 8) << 8;  /* national option */
		st_add(vf_chance(r, 1, 4) ? mag * 0x100 + 0x11 * (int)vf_below(r, 10) : bcd_page(r, mag), R_LOP,
		       (feat & F_SUB) && vf_chance(r, 1, 2) ? vf_range(r, 2, 5) : 0, c);
	}
	if (feat & F_TOP) {
		st_add(0x1F0, R_BTT, 0, 0);
		n = vf_range(r, 1, 3);
		for (i = 0; i < n; i++) st_add(0x1F1 + i, R_AIT, 0, 0);
		if (vf_chance(r, 2, 3)) st_add(0x1F4, R_MPT, 0, 0);
		if (vf_chance(r, 2, 3)) st_add(0x1F5, R_MPTEX, 0, 0);
	}
	for (i = 0; i < st.nmags; i++) {
		int mag = st.mags[i];
		if ((feat & F_MOT) && (i == 0 || vf_chance(r, 1, 2))) st_add(mag * 0x100 + 0xFE, R_MOT, 0, 0);
		if ((feat & F_MIP) && (i == 0 || vf_chance(r, 1, 2))) st_add(mag * 0x100 + 0xFD, R_MIP, 0, 0);
		if (feat & F_POP) {
			if (i == 0) st_add(vf_chance(r, 3, 4) ? hex_page(r, mag) : bcd_page(r, mag), R_GPOP, vf_chance(r, 1, 3) ? 2 : 0, 0);
			st_add(vf_chance(r, 3, 4) ? hex_page(r, mag) : bcd_page(r, mag), R_POP, vf_chance(r, 1, 3) ? 2 : 0, 0);
		}
		if (feat & F_DRCS) {
			if (i == 0) st_add(hex_page(r, mag), R_GDRCS, vf_chance(r, 1, 3) ? 2 : 0, 0);
			st_add(vf_chance(r, 4, 5) ? hex_page(r, mag) : bcd_page(r, mag), R_DRCS, vf_chance(r, 1, 3) ? 2 : 0, 0);
		}
	}
	if (feat & F_TRIG) st_add(0x1E7, R_TRIG, 0, 0);
	if (feat & F_DATA) { st_add(hex_page(r, st.mags[0]), R_DATA, vf_range(r, 0, 3), 0); st_add(st.mags[0] * 0x100 + 0xFF, R_FILL, 0, 0); }
	st.cni_idx = (int)vf_below(r, 64);
	memset(pobj, 0, sizeof pobj);
	cur_popp = cur_gpopp = NULL;
	for (i = 0; i < st.n; i++)
		if (st.p[i].role == R_POP || st.p[i].role == R_GPOP) objects_build(r, i);
}

/* ---------------- row content ---------------- */

static const char *const snippets[] = {
	"www.example.com/index.html", "http://zapping.sf.net", "https://a.b-c.de/~x?y=1&z=2", "ftp://ftp.x.org/pub",
	"mail foo.bar@example.org now", "info(at)sender.de", "x(a)y.tv", "Seite 100", ">> 123 <<", "301/2", "1/3", "100-199",
	"TOP Index", "Nachrichten", "Wetter", "Sport", "Programm 20.15 Tagesschau", "12:34:56", "...", "999", "8FF", "0000",
	"@@@@", "www.", "http://", "a@b", "(at)", "www.a.b.c.d.e.f.g.h.i.j.k.l.m.n.o.p", "AbCdEfGhIjKlMnOpQrStUvWxYz",
};

static void fill_text_row(struct vf_rng *r, uint8_t *c, int style)
{
	int i = 0;
	memset(c, 0x20, 40);
	switch (style) {
	case 0: /* text with snippets */
		while (i < 40) {
			if (vf_chance(r, 1, 4)) { c[i++] = (uint8_t)vf_below(r, 0x20); continue; }           /* spacing attribute */
			if (vf_chance(r, 1, 2)) {
				const char *s = snippets[vf_below(r, sizeof snippets / sizeof snippets[0])];
				while (*s && i < 40) c[i++] = (uint8_t)*s++;
				if (i < 40) c[i++] = ' ';
			} else {
				int l = vf_range(r, 1, 12);
				while (l-- > 0 && i < 40) c[i++] = (uint8_t)vf_range(r, 0x20, 0x7F);
			}
		}
		break;
	case 1: /* attribute soup: sizes, boxes, hold mosaics, ESC */
		for (i = 0; i < 40; i++) {
			static const uint8_t at[] = { 0x0D, 0x0E, 0x0F, 0x0C, 0x0A, 0x0B, 0x0B, 0x0A, 0x1B, 0x1E, 0x1F, 0x18, 0x1D, 0x1C, 0x08, 0x09, 0x11, 0x17, 0x19, 0x1A };
			c[i] = vf_chance(r, 1, 2) ? at[vf_below(r, sizeof at)] : (uint8_t)vf_range(r, 0x20, 0x7F);
		}
		break;
	case 2: /* mosaic */
		c[0] = (uint8_t)(0x10 + vf_below(r, 8));
		for (i = 1; i < 40; i++) c[i] = (uint8_t)(vf_chance(r, 1, 10) ? vf_below(r, 0x20) : (0x20 | vf_below(r, 0x60)));
		break;
	default: /* any 7 bit */
		for (i = 0; i < 40; i++) c[i] = (uint8_t)vf_below(r, 0x80);
	}
}

/* EACEM trigger text for page 1E7 (uses round brackets, see TP 14-99-16) */
static int gen_eacem(struct vf_rng *r, char *o, int max)
{
	static const char *const urls[] = { "http://www.example.com/a", "http://x.tv/", "ttx://0000/100/0000", "ttx://0DC1/123/0001",
		"ttx://FFFF/100/0000", "dummy01", "dummy99x", "lid://a.b/c", "tw://x", "ttx://0000/0FF/0000", "gopher://x", "" };
	static const char *const attrs[] = { "n:Name", "name:Long Name", "e:20301231T235959", "e:20301231", "e:2030", "expires:99999999T999999",
		"c:0", "c:5", "c:50F10", "c:4000000000", "c:99999999", "countdown:1F99", "a:100", "a:98765432", "a:x", "active:0F0",
		"p:0", "p:9", "p:10", "s:do()", "script:\"a)b\"", "d:", "delete:1", "x:y", "q", "n:%41%42", "n:%1F", "n:%zz" };
	int n = 0, k, cs_from = 0;
	char tmp[300];
	n += snprintf(tmp + n, sizeof tmp - (size_t)n, "<%s>", urls[vf_below(r, sizeof urls / sizeof urls[0])]);
	for (k = vf_range(r, 0, 4); k > 0; k--) {
		const char *at = attrs[vf_below(r, sizeof attrs / sizeof attrs[0])];
		/* growth accounting over a few seconds of carousel: a trigger that waits 50 s for its fire time is
		   pending, not leaked; keep the countdowns below one carousel period there */
		if (short_countdown && (0 == strncmp(at, "c:", 2) || 0 == strncmp(at, "countdown:", 10))) at = vf_chance(r, 1, 2) ? "c:0" : "c:0F10";
		n += snprintf(tmp + n, sizeof tmp - (size_t)n, "(%s)", at);
	}
	if (vf_chance(r, 3, 4)) {
		unsigned cs = g_trigger_checksum(tmp + cs_from, n - cs_from);
		if (vf_chance(r, 1, 8)) cs ^= 1u << vf_below(r, 16);
		n += snprintf(tmp + n, sizeof tmp - (size_t)n, "(%04X)", cs);
	}
	if (n > max) n = max;
	memcpy(o, tmp, (size_t)n);
	return n;
}

/* ---------------- X/26 ---------------- */

static unsigned rand_triplet(struct vf_rng *r)
{
	static const uint8_t col_modes[] = { 0x00, 0x01, 0x02, 0x03, 0x06, 0x07, 0x08, 0x09, 0x0B, 0x0C, 0x0D, 0x0D, 0x0E, 0x0F, 0x10, 0x12, 0x1F, 0x04, 0x05, 0x0A };
	static const uint8_t row_modes[] = { 0x00, 0x01, 0x04, 0x04, 0x07, 0x08, 0x09, 0x0A, 0x0B, 0x0C, 0x0D, 0x10, 0x11, 0x12, 0x13, 0x15, 0x16, 0x17, 0x18, 0x1F, 0x02, 0x19 };
	if (vf_chance(r, 1, 10)) return vf_u32(r) & 0x3FFFF;
	if (vf_chance(r, 3, 5))
		return G_TRIP(vf_below(r, 40), col_modes[vf_below(r, sizeof col_modes)], vf_below(r, 128));
	return G_TRIP(40 + vf_below(r, 24), row_modes[vf_below(r, sizeof row_modes)], vf_below(r, 128));
}

/* object invocation + definition pair helpers.  An object of `type` 1..3 in a
 * POP/GPOP page is found through the pointer table: the invocation address a
 * (9 bits: data + low 2 address bits select, bits 4..8 locate the pointer) */
struct objref { int type; int s1; int ptr_packet, ptr_trip, ptr_half; int pointer; };

static void gen_x26(struct vf_rng *r, int mag, int have_pop, int have_drcs)
{
	unsigned t[16 * 13];
	int n_desig = vf_chance(r, 1, 8) ? vf_range(r, 1, 16) : vf_range(r, 1, 3), i, d, n = n_desig * 13;
	struct g_pkt p;
	for (i = 0; i < n; i++) t[i] = rand_triplet(r);
	/* structured pieces */
	i = 0;
	if (vf_chance(r, 1, 2)) t[i++] = G_TRIP(40 + vf_range(r, 1, 23), 0x04, vf_below(r, 40));          /* set active position */
	if (vf_chance(r, 1, 4)) t[i++] = G_TRIP(vf_below(r, 40), 0x0E, (vf_below(r, 8) << 4) | vf_below(r, 8));   /* font style (3.5): rows, italic/bold/proportional */
	if (have_drcs && vf_chance(r, 2, 3)) {
		t[i++] = G_TRIP(40 + vf_below(r, 24), 0x18, (vf_below(r, 2) << 6) | vf_below(r, 16));     /* DRCS mode */
		t[i++] = G_TRIP(vf_below(r, 40), 0x0D, (vf_below(r, 2) << 6) | vf_below(r, 50));          /* DRCS char */
		t[i++] = G_TRIP(vf_below(r, 40), 0x0D, (vf_below(r, 2) << 6) | vf_below(r, 64));
	}
	if (have_pop && vf_chance(r, 2, 3)) {
		int k;
		for (k = vf_range(r, 1, 3); k > 0 && i < n - 2; k--) {
			struct spage *op = vf_chance(r, 1, 2) ? cur_popp : cur_gpopp;
			struct sobj *o = obj_pick(r, op);
			if (vf_chance(r, 1, 3)) t[i++] = G_TRIP(40 + vf_below(r, 24), 0x10, vf_below(r, 80));  /* origin modifier */
			if (o && vf_chance(r, 1, 4)) t[i++] = G_TRIP(40 + vf_range(r, 1, 23), 0x04, vf_below(r, 40));
			if (o && vf_chance(r, 4, 5))
				t[i++] = obj_invocation(r, op, o, vf_chance(r, 1, 10) ? vf_range(r, 1, 3) : 0);
			else    /* invocation: address 48..55 POP, 56..63 GPOP; data = 7 bits */
				t[i++] = G_TRIP((vf_chance(r, 1, 2) ? 48 : 56) + vf_below(r, 8), 0x11 + vf_below(r, 3), vf_below(r, 128));
		}
	}
	if (vf_chance(r, 1, 3) && n >= 26) {
		/* local object: definition at designation 1 triplet k, invocation before */
		int k = (int)vf_below(r, 13), ty = vf_range(r, 1, 3);
		t[13 + k] = G_TRIP(40 + vf_below(r, 24), 0x14 + ty, vf_below(r, 128));
		if (i < 12) t[i++] = G_TRIP(40 + vf_below(r, 8), 0x10 + ty, (1 << 4) | k);
	}
	if (vf_chance(r, 1, 2)) { int k = vf_range(r, i, n - 1); t[k] = G_TRIP(63, 0x1F, 0x7F); }                 /* termination marker */
	for (d = 0; d < n_desig; d++) {
		int des = d;
		if ((feat & F_HOSTILE_STRUCT) && vf_chance(r, 1, 12)) des = (int)vf_below(r, 16);
		g_trip_row(&p, mag, 26, des, t + d * 13);
		tq_push(r, &p);
	}
}

/* ---------------- X/27, X/28, M/29 ---------------- */

static void gen_x27(struct vf_rng *r, int mag)
{
	struct g_pkt p;
	int i, des;
	if (vf_chance(r, 4, 5)) {
		g_addr(&p, mag, 27);
		p.b[2] = (uint8_t)g_ham84(0);
		for (i = 0; i < 6; i++) g_link6(p.b + 3 + i * 6, mag, vf_chance(r, 1, 6) ? 0x8FF : st_any_pgno(r), vf_chance(r, 1, 2) ? 0x3F7F : (int)vf_below(r, 0x4000));
		p.b[39] = (uint8_t)g_ham84(vf_below(r, 16) | (vf_chance(r, 3, 4) ? 8 : 0));
		p.b[40] = (uint8_t)vf_u32(r); p.b[41] = (uint8_t)vf_u32(r);
		tq_push(r, &p);
	}
	for (des = 1; des <= 3; des++)
		if (vf_chance(r, 1, 6)) {
			g_addr(&p, mag, 27);
			p.b[2] = (uint8_t)g_ham84((unsigned)des);
			for (i = 0; i < 6; i++) g_link6(p.b + 3 + i * 6, mag, st_any_pgno(r), (int)vf_below(r, 0x4000));
			p.b[39] = p.b[40] = p.b[41] = 0x15;
			tq_push(r, &p);
		}
	for (des = 4; des <= 5; des++)
		if ((feat & (F_POP | F_DRCS)) ? vf_chance(r, 1, 3) : vf_chance(r, 1, 10)) {
			/* format 1 links: GPOP, POP, GDRCS, DRCS, then 2 more (as the decoder under test reads them:
			   function bits 0-1, units bits 7-10, relative magazine 12-14, tens 15-17) */
			unsigned t[13];
			for (i = 0; i < 13; i++) t[i] = vf_u32(r) & 0x3FFFF;
			for (i = 0; i < 6; i++) {
				static const int roles[4] = { R_GPOP, R_POP, R_GDRCS, R_DRCS };
				struct spage *s = st_find_role(r, roles[i & 3]);
				if ((i & 3) == 0 && cur_gpopp && vf_chance(r, 3, 4)) s = cur_gpopp;
				if ((i & 3) == 1 && cur_popp && vf_chance(r, 3, 4)) s = cur_popp;
				if (s && vf_chance(r, 3, 4)) {
					unsigned pg = (unsigned)s->pgno;
					t[i * 2] = (unsigned)(i & 3) | ((pg & 15) << 7) | ((((pg >> 8) & 7) ^ ((unsigned)mag & 7)) << 12) | (((pg >> 4) & 7) << 15);
					t[i * 2 + 1] = (vf_u32(r) & 0xFFFF) << 3;
				}
			}
			g_trip_row(&p, mag, 27, des, t);
			tq_push(r, &p);
		}
	if (vf_chance(r, 1, 20)) { g_addr(&p, mag, 27); vf_bytes(r, p.b + 2, 40); p.b[2] = (uint8_t)g_ham84(vf_below(r, 16)); tq_push(r, &p); }
}

static void gen_x28_m29(struct vf_rng *r, int mag, int packet, int role)
{
	struct g_bits b;
	struct g_pkt p;
	int des, i;
	static const int dlist[] = { 0, 0, 0, 1, 3, 4, 4, 2, 5 };
	des = dlist[vf_below(r, sizeof dlist / sizeof dlist[0])];
	if (role == R_DRCS || role == R_GDRCS) des = vf_chance(r, 5, 6) ? 3 : des;
	g_bits_init(&b);
	switch (des) {
	case 0: case 4: {
		int fn = 0;
		if (vf_chance(r, 1, 6)) fn = (int)vf_below(r, 16);
		if (role == R_POP && vf_chance(r, 1, 2)) fn = 3;
		if (role == R_GPOP && vf_chance(r, 1, 2)) fn = 2;
		g_bits_put(&b, (unsigned)fn, 4);
		g_bits_put(&b, vf_below(r, 8), 3);
		{
			/* one designation in three names a non-Latin G0 set (EN 300 706 table 32: Cyrillic 1-3, Greek, Arabic,
			   Hebrew): other glyph ranges, other italic / bold variants of the renderers' fonts */
			static const uint8_t nonlatin[] = { 0x20, 0x24, 0x25, 0x24, 0x37, 0x40, 0x44, 0x47, 0x55, 0x57 };
			g_bits_put(&b, vf_chance(r, 1, 3) ? nonlatin[vf_below(r, sizeof nonlatin)] : vf_chance(r, 1, 2) ? vf_below(r, 128) : vf_below(r, 88), 7);   /* primary charset */
			g_bits_put(&b, vf_chance(r, 1, 3) ? nonlatin[vf_below(r, sizeof nonlatin)] : vf_chance(r, 1, 2) ? vf_below(r, 128) : vf_below(r, 88), 7);   /* secondary */
		}
		g_bits_put(&b, vf_below(r, 8), 3);                                              /* panels */
		g_bits_put(&b, vf_below(r, 16), 4);
		for (i = 0; i < 16; i++) g_bits_put(&b, vf_below(r, 4096), 12);
		g_bits_put(&b, vf_below(r, 32), 5);
		g_bits_put(&b, vf_below(r, 32), 5);
		g_bits_put(&b, vf_below(r, 2), 1);
		g_bits_put(&b, vf_below(r, 8), 3);
		break; }
	case 1:
		for (i = 0; i < 13; i++) b.t[i] = vf_u32(r) & 0x3FFFF;
		break;
	case 3: {
		int fn = (role == R_GDRCS) ? 4 : 5;
		if (role != R_DRCS && role != R_GDRCS) fn = (int)vf_below(r, 8);
		else if (vf_chance(r, 1, 10)) fn = (int)vf_below(r, 16);
		g_bits_put(&b, (unsigned)fn, 4);
		g_bits_put(&b, vf_below(r, 8), 3);
		g_bits_put(&b, vf_below(r, 2048), 11);
		{
			int uniform = vf_chance(r, 1, 3) ? (int)vf_below(r, 4) : -1;
			for (i = 0; i < 48; i++) {
				static const int modes[] = { 0, 0, 1, 2, 3, 3, 14, 15, 7 };
				g_bits_put(&b, uniform >= 0 ? (unsigned)uniform : (unsigned)modes[vf_below(r, sizeof modes / sizeof modes[0])], 4);
			}
		}
		break; }
	default:
		for (i = 0; i < 13; i++) b.t[i] = vf_u32(r) & 0x3FFFF;
	}
	g_trip_row(&p, mag, packet, des, b.t);
	tq_push(r, &p);
}

/* ---------------- page builders ---------------- */

static void gen_header(struct vf_rng *r, struct spage *s, int sub, unsigned extra)
{
	struct g_pkt p;
	char txt[33];
	unsigned c = s->cflags | extra | (st.serial ? GC11 : 0);
	int mag = (s->pgno >> 8) & 7;
	if (vf_chance(r, 1, 6)) c |= GC4;
	if (vf_chance(r, 1, 10)) c |= GC8;
	if ((feat & F_HOSTILE_STRUCT) && vf_chance(r, 1, 20)) c ^= GC11;
	/* rolling header: "ZVBI nnn Mon 01 Jan 12:34:56" style, page number inside */
	snprintf(txt, sizeof txt, " ZVBI %03x %s 12:34:%02d       ", (unsigned)s->pgno & 0xFFF, vf_chance(r, 1, 30) ? "Tue 02 Jan" : "Mon 01 Jan", (int)vf_below(r, 60));
	memset(txt + strlen(txt), ' ', sizeof txt - 1 - strlen(txt));
	if (vf_chance(r, 1, 25)) { int i; for (i = 0; i < 32; i++) txt[i] = (char)vf_below(r, 128); }
	g_header(&p, mag ? mag : 8, s->pgno & 0xFF, sub, c, txt);
	tq_push(r, &p);
}

static void gen_lop_body(struct vf_rng *r, struct spage *s)
{
	struct g_pkt p;
	uint8_t c[40];
	int mag = (s->pgno >> 8) & 7, row, style = (int)vf_below(r, 8);
	if (!mag) mag = 8;
	if (style > 3) style = 0;
	cur_popp = st_find_role(r, R_POP);
	cur_gpopp = st_find_role(r, R_GPOP);
	for (row = 1; row <= 25; row++) {
		if (row == 24 && !((feat & F_FLOF) && vf_chance(r, 1, 2))) continue;
		if (row == 25 && !vf_chance(r, 1, 10)) continue;
		if (row < 24 && vf_chance(r, 1, 4)) continue;
		fill_text_row(r, c, vf_chance(r, 3, 4) ? style : (int)vf_below(r, 4));
		if (row == 24) { int i; for (i = 0; i < 40; i += 10) c[i] = (uint8_t)(1 + vf_below(r, 7)); }
		g_text_row(&p, mag, row, c);
		if (vf_chance(r, 1, 60)) p.b[2 + vf_below(r, 40)] ^= 0x80;      /* parity error */
		tq_push(r, &p);
	}
	if ((feat & F_X26) && vf_chance(r, 2, 3)) gen_x26(r, mag, !!(feat & F_POP), !!(feat & F_DRCS));
	if ((feat & F_FLOF) && vf_chance(r, 2, 3)) gen_x27(r, mag);
	else if ((feat & (F_POP | F_DRCS)) && vf_chance(r, 1, 3)) gen_x27(r, mag);
	if ((feat & F_X28) && vf_chance(r, 1, 2)) gen_x28_m29(r, mag, 28, R_LOP);
}

static void gen_nibble_page(struct vf_rng *r, struct spage *s)
{
	/* BTT / MPT / MPT-EX / AIT / MOT / MIP rows */
	struct g_pkt p;
	uint8_t n[40];
	int mag = (s->pgno >> 8) & 7, row, i;
	if (!mag) mag = 8;
	switch (s->role) {
	case R_BTT:
		for (row = 1; row <= 20; row++) {
			if (vf_chance(r, 1, 5)) continue;
			for (i = 0; i < 40; i++) n[i] = (uint8_t)(vf_chance(r, 1, 2) ? 0 : vf_below(r, 16));
			/* mark the station's LOPs */
			for (i = 0; i < st.n; i++) {
				int pg = st.p[i].pgno, dec;
				if (st.p[i].role != R_LOP || (pg & 15) > 9 || (pg & 0xF0) > 0x90) continue;
				dec = ((pg >> 8) - 1) * 100 + ((pg >> 4) & 15) * 10 + (pg & 15);
				if (dec / 40 == row - 1) n[dec % 40] = (uint8_t)vf_range(r, 1, 11);
			}
			g_nibble_row(&p, mag, row, n);
			tq_push(r, &p);
		}
		for (row = 21; row <= 23; row++) {
			if (row > 21 && vf_chance(r, 1, 2)) continue;
			for (i = 0; i < 5; i++) {
				static const int roles[] = { R_AIT, R_AIT, R_MPT, R_MPTEX, R_AIT, R_LOP };
				int role = roles[vf_below(r, sizeof roles / sizeof roles[0])];
				struct spage *t = st_find_role(r, role);
				int fn = role == R_AIT ? 2 : role == R_MPT ? 1 : role == R_MPTEX ? 3 : (int)vf_below(r, 16);
				if (vf_chance(r, 1, 10)) fn = (int)vf_below(r, 16);
				if (t && vf_chance(r, 5, 6)) g_toplink(n + i * 8, t->pgno, vf_chance(r, 3, 4) ? 0 : (int)vf_below(r, 0x4000), fn);
				else { int k; for (k = 0; k < 8; k++) n[i * 8 + k] = (uint8_t)g_ham84(vf_chance(r, 1, 2) ? 15 : vf_below(r, 16)); }
			}
			for (i = 0; i < 40; i++) p.b[2 + i] = n[i];   /* already hammed */
			g_addr(&p, mag, row);
			tq_push(r, &p);
		}
		break;
	case R_AIT:
		for (row = 1; row <= 23; row++) {
			int h;
			if (vf_chance(r, 1, 3)) continue;
			g_addr(&p, mag, row);
			for (h = 0; h < 2; h++) {
				int pg = vf_chance(r, 4, 5) ? st_lop_pgno(r) : vf_range(r, 0, 0xFFF);
				g_toplink(p.b + 2 + h * 20, pg, vf_chance(r, 3, 4) ? 0 : (int)vf_below(r, 0x4000), (int)vf_below(r, 16));
				for (i = 0; i < 12; i++)
					p.b[2 + h * 20 + 8 + i] = (uint8_t)g_par_odd(vf_chance(r, 1, 12) ? vf_below(r, 0x20) : (unsigned)vf_range(r, 0x20, 0x7F));
			}
			tq_push(r, &p);
		}
		break;
	case R_MPT:
		for (row = 1; row <= 23; row++) {
			if (vf_chance(r, 1, 3)) continue;
			for (i = 0; i < 40; i++) n[i] = (uint8_t)(vf_chance(r, 2, 3) ? vf_below(r, 10) : vf_below(r, 16));
			g_nibble_row(&p, mag, row, n);
			tq_push(r, &p);
		}
		break;
	case R_MPTEX:
		for (row = 1; row <= 23; row++) {
			if (vf_chance(r, 1, 2)) continue;
			g_addr(&p, mag, row);
			for (i = 0; i < 5; i++)
				g_toplink(p.b + 2 + i * 8, vf_chance(r, 4, 5) ? st_lop_pgno(r) : vf_range(r, 0, 0xFFF), (int)vf_below(r, 0x4000), (int)vf_below(r, 16));
			tq_push(r, &p);
		}
		break;
	case R_MOT: {
		int pop_idx[8], drcs_idx[8];
		for (i = 0; i < 8; i++) { pop_idx[i] = (int)vf_below(r, 8); drcs_idx[i] = (int)vf_below(r, 8); }
		for (row = 1; row <= 14; row++) {
			if (vf_chance(r, 1, 4)) continue;
			for (i = 0; i < 40; i += 2) {
				n[i] = (uint8_t)(vf_chance(r, 1, 6) ? vf_below(r, 16) : vf_chance(r, 1, 3) ? 0 : (unsigned)vf_range(r, 1, 3));
				n[i + 1] = (uint8_t)(vf_chance(r, 1, 6) ? vf_below(r, 16) : vf_chance(r, 1, 3) ? 0 : (unsigned)vf_range(r, 1, 3));
			}
			g_nibble_row(&p, mag, row, n);
			tq_push(r, &p);
		}
		(void)pop_idx; (void)drcs_idx;
		for (row = 19; row <= 24; row++) {
			if (row >= 22 && vf_chance(r, 1, 2)) continue;
			if (row == 21 || row == 24) {
				for (i = 0; i < 8; i++) {
					struct spage *t = st_find_role(r, i == 0 ? R_GDRCS : R_DRCS);
					int pg = t && vf_chance(r, 5, 6) ? t->pgno : vf_chance(r, 1, 2) ? 0x8FF : vf_range(r, 0x100, 0x8FF);
					n[i * 4 + 0] = (uint8_t)((pg >> 8) & 7) | (uint8_t)(vf_below(r, 2) << 3);
					n[i * 4 + 1] = (uint8_t)((pg >> 4) & 15);
					n[i * 4 + 2] = (uint8_t)(pg & 15);
					n[i * 4 + 3] = (uint8_t)vf_below(r, 16);
				}
				for (i = 32; i < 40; i++) n[i] = (uint8_t)vf_below(r, 16);
			} else {
				for (i = 0; i < 4; i++) {
					int gl = ((row == 19 || row == 22) && i == 0);
					struct spage *t = st_find_role(r, gl ? R_GPOP : R_POP);
					int pg = t && vf_chance(r, 5, 6) ? t->pgno : vf_chance(r, 1, 2) ? 0x8FF : vf_range(r, 0x100, 0x8FF);
					uint8_t *q = n + i * 10;
					q[0] = (uint8_t)((pg >> 8) & 7); q[1] = (uint8_t)((pg >> 4) & 15); q[2] = (uint8_t)(pg & 15);
					q[3] = (uint8_t)vf_below(r, 16);
					q[4] = (uint8_t)vf_below(r, 16);
					q[5] = (uint8_t)(vf_chance(r, 1, 2) ? vf_below(r, 16) : (vf_below(r, 4) | (vf_below(r, 4) << 2)));
					q[6] = (uint8_t)vf_below(r, 16); q[7] = (uint8_t)vf_below(r, 16);
					q[8] = (uint8_t)vf_below(r, 16); q[9] = (uint8_t)vf_below(r, 16);
				}
			}
			g_nibble_row(&p, mag, row, n);
			tq_push(r, &p);
		}
		break; }
	case R_MIP:
		for (row = 1; row <= 14; row++) {
			if (vf_chance(r, 1, 4)) continue;
			for (i = 0; i < 20; i++) {
				static const uint8_t codes[] = { 0x00, 0x01, 0x02, 0x10, 0x50, 0x51, 0x70, 0x77, 0x78, 0x7B, 0x7C, 0x81, 0xD0, 0xD1, 0xE0, 0xE3,
					0xE5, 0xE6, 0xE7, 0xE8, 0xEC, 0xEF, 0xF8, 0xFC, 0xFD, 0xFE, 0xFF, 0x80, 0x52, 0xF4 };
				unsigned code = vf_chance(r, 1, 4) ? vf_below(r, 256) : codes[vf_below(r, sizeof codes)];
				n[i * 2] = (uint8_t)(code & 15); n[i * 2 + 1] = (uint8_t)(code >> 4);
			}
			/* steer the station's object pages: page xy of this magazine lives in row/col by number */
			for (i = 0; i < st.n; i++) {
				int pg = st.p[i].pgno, lo = pg & 0xFF, rr = -1, cc = -1;
				unsigned code;
				if (((pg >> 8) & 7) != (mag & 7)) continue;
				switch (st.p[i].role) {
				case R_GPOP: case R_POP: code = vf_chance(r, 1, 2) ? 0xE6 : 0xEC + vf_below(r, 4); break;
				case R_GDRCS: case R_DRCS: code = vf_chance(r, 1, 2) ? 0xE5 : 0xE8 + vf_below(r, 4); break;
				case R_TRIG: code = 0xFC; break;
				case R_LOP: code = (st.p[i].cflags & GC6) ? 0x70 + vf_below(r, 8) : vf_chance(r, 1, 2) ? 0x01 : 0x50 + vf_below(r, 2); break;
				default: continue;
				}
				if (!vf_chance(r, 2, 3)) continue;
				if ((lo & 15) <= 9) { rr = 1 + (lo >> 5); cc = ((lo >> 4) & 1) * 10 + (lo & 15); }
				else { rr = 9 + (lo >> 4) / 3; cc = ((lo >> 4) % 3) * 6 + (lo & 15) - 10; }
				if (rr == row && cc >= 0 && cc < 20) { n[cc * 2] = (uint8_t)(code & 15); n[cc * 2 + 1] = (uint8_t)(code >> 4); }
			}
			g_nibble_row(&p, mag, row, n);
			tq_push(r, &p);
		}
		for (row = 15; row <= 25; row++) {
			if (vf_chance(r, 1, 2)) continue;
			for (i = 0; i < 40; i++) n[i] = (uint8_t)vf_below(r, 16);
			g_nibble_row(&p, mag, row, n);
			tq_push(r, &p);
		}
		break;
	default: break;
	}
}

/* body of a coherent object: what objects really contain, and invocations of the other objects of the
   page (or of the global object page), whatever their type, and of itself */
static int obj_body(struct vf_rng *r, struct spage *s, const struct sobj *self, unsigned *t, int max)
{
	int n = 0, sp = (int)(s - st.p);
	static const uint8_t cm[] = { 0x00, 0x01, 0x02, 0x03, 0x07, 0x09, 0x09, 0x09, 0x0B, 0x0C, 0x0D, 0x0E, 0x0F, 0x10, 0x12, 0x1F };
	while (n < max && n < self->len) {
		unsigned k = vf_below(r, 12);
		if (k < 2) t[n++] = G_TRIP(40 + vf_below(r, 24), vf_chance(r, 1, 2) ? 0x04 : 0x01, vf_below(r, 128));      /* active position / row colour */
		else if (k < 8) t[n++] = G_TRIP(vf_below(r, 40), cm[vf_below(r, sizeof cm)], vf_chance(r, 1, 2) ? (unsigned)vf_range(r, 0x20, 0x7F) : vf_below(r, 128));
		else if (k < 11 && n + 2 < max) {
			struct spage *tp = s;
			const struct sobj *o;
			unsigned w = vf_below(r, 10);
			if (w == 0 && s->role == R_POP) { struct spage *g = st_find_role(r, R_GPOP); if (obj_pick(r, g)) tp = g; }
			o = (w < 3) ? self : &pobj[(int)(tp - st.p)].o[vf_below(r, (unsigned)pobj[(int)(tp - st.p)].n)];
			if (tp != s) o = obj_pick(r, tp);
			if (vf_chance(r, 1, 3)) t[n++] = G_TRIP(40 + vf_below(r, 24), 0x10, vf_below(r, 72));
			t[n++] = obj_invocation(r, tp, o, 0);
		} else t[n++] = rand_triplet(r);
	}
	(void)sp;
	if (n < max && vf_chance(r, 2, 3)) t[n++] = G_TRIP(63, 0x1F, 0x7F);
	return n;
}

static void gen_pop_body_coherent(struct vf_rng *r, struct spage *s, int sub)
{
	struct g_pkt p;
	unsigned trip[23 * 13], t[13];
	int mag = (s->pgno >> 8) & 7, sp = (int)(s - st.p), row, i, k, need34 = 0;
	unsigned ptr[4][12][2];
	if (!mag) mag = 8;
	for (row = 0; row < 4; row++) for (i = 0; i < 12; i++) { ptr[row][i][0] = vf_chance(r, 7, 8) ? 511 : vf_below(r, 512); ptr[row][i][1] = vf_chance(r, 7, 8) ? 511 : vf_below(r, 512); }
	for (i = 0; i < 23 * 13; i++) trip[i] = vf_chance(r, 1, 2) ? G_TRIP(63, 0x1F, 0x7F) : rand_triplet(r);
	for (k = 0; k < pobj[sp].n; k++) {
		const struct sobj *o = &pobj[sp].o[k];
		ptr[o->pp][o->g * 3 + o->type - 1][o->h] = (unsigned)o->idx;
		if (o->pp >= 2) need34 = 1;
		trip[o->idx] = G_TRIP(40 | (vf_below(r, 6) << 2) | (unsigned)o->pp, 0x14 + o->type,
				      ((unsigned)o->g << 5) | ((unsigned)o->h << 4) | ((unsigned)sub & 15));
		obj_body(r, s, o, trip + o->idx + 1, 23 * 13 - o->idx - 1 < 40 ? 23 * 13 - o->idx - 1 : 40);
	}
	for (row = 1; row <= 4; row++) {
		if (row > 2 && !need34 && vf_chance(r, 1, 2)) continue;
		if (row > 2 && !need34) {               /* packets 3, 4 as data rows */
			g_trip_row(&p, mag, row, (int)vf_below(r, 8) * 2, trip + (row - 3) * 13);
			tq_push(r, &p);
			continue;
		}
		t[0] = rand_triplet(r);
		for (i = 0; i < 12; i++) t[i + 1] = ptr[row - 1][i][0] | ptr[row - 1][i][1] << 9;
		g_trip_row(&p, mag, row, 1 + 2 * (int)vf_below(r, 8), t);
		tq_push(r, &p);
	}
	for (row = 5; row <= 25; row++) {
		g_trip_row(&p, mag, row, (int)vf_below(r, 16), trip + (row - 3) * 13);
		tq_push(r, &p);
	}
	if (vf_chance(r, 1, 6)) {
		for (i = 0; i < 13; i++) t[i] = rand_triplet(r);
		g_trip_row(&p, mag, 26, (int)vf_below(r, 16), t);
		tq_push(r, &p);
	}
	if (vf_chance(r, 1, 3)) gen_x28_m29(r, mag, 28, s->role);
}

static void gen_pop_body(struct vf_rng *r, struct spage *s, int sub)
{
	struct g_pkt p;
	unsigned t[13];
	int mag = (s->pgno >> 8) & 7, row, i, d;
	/* object definitions at a few known triplet indices, referenced by the pointer rows */
	int defs[6], ndefs = vf_range(r, 1, 6);
	if (pobj[(int)(s - st.p)].coherent && pobj[(int)(s - st.p)].n) { gen_pop_body_coherent(r, s, sub); return; }
	if (!mag) mag = 8;
	for (i = 0; i < ndefs; i++) defs[i] = vf_chance(r, 1, 8) ? vf_range(r, 0, 511) : vf_range(r, 0, 300);
	for (row = 1; row <= 4; row++) {
		int des = (row <= 2 || vf_chance(r, 1, 2)) ? 1 : 0;
		if ((feat & F_HOSTILE_STRUCT) && vf_chance(r, 1, 10)) des = (int)vf_below(r, 16);
		if (row > 2 && vf_chance(r, 1, 2)) continue;
		for (i = 0; i < 13; i++) {
			unsigned a = vf_chance(r, 2, 3) ? (unsigned)defs[vf_below(r, (unsigned)ndefs)] : vf_below(r, 512);
			unsigned b = vf_chance(r, 2, 3) ? (unsigned)defs[vf_below(r, (unsigned)ndefs)] : vf_below(r, 512);
			t[i] = (des & 1) ? (a | b << 9) : rand_triplet(r);
		}
		g_trip_row(&p, mag, row, des, t);
		tq_push(r, &p);
	}
	for (row = 5; row <= 25; row++) {
		if (vf_chance(r, 1, 3)) continue;
		for (i = 0; i < 13; i++) {
			int idx = (row - 3) * 13 + i, k;
			t[i] = rand_triplet(r);
			for (k = 0; k < ndefs; k++)
				if (defs[k] == idx) t[i] = G_TRIP(40 + vf_below(r, 24), 0x15 + vf_below(r, 3), vf_below(r, 128));
		}
		g_trip_row(&p, mag, row, (int)vf_below(r, 16), t);
		tq_push(r, &p);
	}
	for (d = 0; d < 16; d++) {
		if (!vf_chance(r, 1, 6)) continue;
		for (i = 0; i < 13; i++) t[i] = rand_triplet(r);
		g_trip_row(&p, mag, 26, d, t);
		tq_push(r, &p);
	}
	if (vf_chance(r, 1, 3)) gen_x28_m29(r, mag, 28, s->role);
}

static void gen_drcs_body(struct vf_rng *r, struct spage *s)
{
	struct g_pkt p;
	uint8_t c[40];
	int mag = (s->pgno >> 8) & 7, row, i;
	if (!mag) mag = 8;
	if (vf_chance(r, 3, 4)) gen_x28_m29(r, mag, 28, s->role);      /* X/28/3 first: modes */
	for (row = 1; row <= 24; row++) {
		if (vf_chance(r, 1, 8)) continue;
		for (i = 0; i < 40; i++) c[i] = (uint8_t)(0x40 | vf_below(r, 64));
		if (vf_chance(r, 1, 10)) c[vf_below(r, 40)] = (uint8_t)vf_below(r, 0x40);
		g_text_row(&p, mag, row, c);
		tq_push(r, &p);
	}
	if (vf_chance(r, 1, 4)) gen_x28_m29(r, mag, 28, s->role);      /* X/28/3 after the rows */
	if (vf_chance(r, 1, 10)) gen_x26(r, mag, 0, 0);
}

static void gen_trig_body(struct vf_rng *r, struct spage *s)
{
	struct g_pkt p;
	uint8_t c[24 * 40];
	int mag = (s->pgno >> 8) & 7, row, n = 0, k;
	if (!mag) mag = 8;
	memset(c, 0x20, sizeof c);
	for (k = vf_range(r, 1, 5); k > 0 && n < 800; k--) {
		n += gen_eacem(r, (char *)c + n, (int)sizeof c - n - 1);
		if (vf_chance(r, 1, 4)) n += (int)vf_below(r, 50);
	}
	for (row = 1; row <= 24 && (row - 1) * 40 < n + 40; row++) {
		g_text_row(&p, mag, row, c + (row - 1) * 40);
		tq_push(r, &p);
	}
}

static void gen_data_body(struct vf_rng *r, struct spage *s)
{
	struct g_pkt p;
	int mag = (s->pgno >> 8) & 7, row;
	if (!mag) mag = 8;
	for (row = 1; row <= 31; row++) {
		if (row >= 29 || vf_chance(r, 1, 2)) continue;
		g_addr(&p, mag, row);
		vf_bytes(r, p.b + 2, 40);
		if (row >= 26) p.b[2] = (uint8_t)g_ham84(vf_below(r, 16));
		tq_push(r, &p);
	}
}

static void gen_830(struct vf_rng *r)
{
	struct g_pkt p;
	int fmt2 = vf_chance(r, 1, 2), i;
	g_addr(&p, 8, 30);
	vf_bytes(r, p.b + 2, 40);
	p.b[2] = (uint8_t)g_ham84(fmt2 ? 2 + vf_below(r, 2) : vf_below(r, 2));
	if (vf_chance(r, 1, 12)) p.b[2] = (uint8_t)g_ham84(vf_below(r, 16));
	g_link6(p.b + 3, 0, vf_chance(r, 1, 4) ? 0x8FF : st_lop_pgno(r), vf_chance(r, 1, 2) ? 0x3F7F : (int)vf_below(r, 0x4000));
	if (!fmt2) {
		/* CNI (bit reversed in the packet) from a small fixed set so that it repeats */
		static const unsigned cnis[] = { 0x4901, 0x4902, 0x0D8F, 0x2C7F, 0x3333, 0x0000, 0x4301, 0x5BF1 };
		unsigned cni = cnis[(unsigned)st.cni_idx % 8], rv = 0;
		for (i = 0; i < 16; i++) if (cni & (1u << i)) rv |= 0x8000u >> i;
		p.b[9] = (uint8_t)(rv >> 8); p.b[10] = (uint8_t)rv;
		/* MJD / UTC digits +1 */
		for (i = 12; i <= 17; i++) p.b[i] = (uint8_t)(((vf_below(r, 10) + 1) << 4) | (vf_below(r, 10) + 1));
		p.b[11] = (uint8_t)vf_u32(r);
	} else {
		for (i = 8; i < 22; i++) p.b[i] = (uint8_t)g_ham84((unsigned)(st.cni_idx * 7 + i * 3) & 15);
		if (vf_chance(r, 1, 3)) for (i = 8; i < 22; i++) p.b[i] = (uint8_t)g_ham84(vf_below(r, 16));
	}
	for (i = 22; i < 42; i++) p.b[i] = (uint8_t)g_par_odd((unsigned)vf_range(r, 0x20, 0x7F));
	tq_push(r, &p);
	if (vf_chance(r, 2, 3)) tq_push(r, &p);       /* identical repetition -> network events */
}

/* one complete transmission of page s (header, body); the page is committed
 * by the decoder only when the next header arrives */
static void gen_page(struct vf_rng *r, struct spage *s)
{
	int sub = 0, mag = (s->pgno >> 8) & 7;
	if (!mag) mag = 8;
	if (s->nsub > 0) { sub = 1 + s->next_sub; s->next_sub = (s->next_sub + 1) % s->nsub; }
	if (s->role == R_LOP && odd_sub_rate && vf_chance(r, 1, (unsigned)odd_sub_rate)) sub = (int)vf_below(r, 0x4000);          /* clock-style / odd subcodes */
	if (s->role == R_DATA) sub = (int)vf_below(r, 0x4000) & 0x3F7F;
	if ((s->role == R_POP || s->role == R_GPOP || s->role == R_DRCS || s->role == R_GDRCS) && s->nsub == 0 && vf_chance(r, 1, 6)
	    && (odd_sub_rate || (s->pgno & 15) > 9 || (s->pgno & 0xF0) > 0x90))      /* at a BCD page number this is the Q-oddsub mix, too */
		sub = (int)vf_below(r, 16);
	gen_header(r, s, sub, 0);
	s->sent++;
	switch (s->role) {
	case R_LOP: gen_lop_body(r, s); break;
	case R_BTT: case R_AIT: case R_MPT: case R_MPTEX: case R_MOT: case R_MIP: gen_nibble_page(r, s); break;
	case R_GPOP: case R_POP: gen_pop_body(r, s, sub); break;
	case R_GDRCS: case R_DRCS: gen_drcs_body(r, s); break;
	case R_TRIG: gen_trig_body(r, s); break;
	case R_DATA: gen_data_body(r, s); break;
	default: break;
	}
	/* packets a normal page would carry, on a page of any other function (they share the assembly buffer) */
	if (s->role != R_LOP && s->role != R_FILL && vf_chance(r, 1, 4)) {
		switch (vf_below(r, 3)) {
		case 0: gen_x27(r, mag); break;
		case 1: gen_x26(r, mag, 1, 1); break;
		default: gen_x28_m29(r, mag, 28, R_LOP); break;
		}
	}
	if ((feat & F_M29) && vf_chance(r, 1, 6)) gen_x28_m29(r, mag, 29, R_LOP);
	if ((feat & F_830) && vf_chance(r, 1, 5)) gen_830(r);
}

/* pick the next page to send: system pages first (so that links resolve), then weighted */
static struct spage *st_next(struct vf_rng *r)
{
	int i;
	for (i = 0; i < st.n; i++)
		if (!st.p[i].sent && st.p[i].role != R_LOP && st.p[i].role != R_FILL && vf_chance(r, 3, 4)) return &st.p[i];
	return &st.p[vf_below(r, (unsigned)st.n)];
}

#endif
