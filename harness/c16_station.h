/* C16 page corpus, part 2: pages that only exist inside a coherent "station".
 *
 * The page under test is transmitted together with the system pages it depends
 * on, everything goes through vbi_decode() like in c16_corpus.h:
 *
 *  - Level 2.5 / 3.5 objects (EN 300 706 section 13): a Magazine Organization
 *    Table (xFE) or packet X/27/4 links the page to a POP and/or GPOP page;
 *    the object pages carry pointer rows and object definitions (active,
 *    adaptive, passive; objects invoking objects; double width / height / size,
 *    DRCS, full row colours, characters at columns 36-39 and in rows 23/24);
 *    the page invokes them from X/26 (set active position, origin modifier,
 *    invocation) or has no X/26 at all and gets the default objects of the MOT.
 *    After the fetch the object pages are transmitted once more with the same
 *    pointers and definitions but EMPTY bodies and the page is fetched again:
 *    "this page looks different because of an object" is measured, not assumed.
 *  - TOP: Basic TOP Table 1F0 (page types, links) + Additional Information
 *    Tables with titles; without FLOF the formatter builds row 24 from them.
 *    Page 900 is the TOP index the library makes up itself.
 *  - FLOF: X/27/0 with and without packet X/24.
 *  - a Magazine Inventory Page (xFD) that declares a page with a hexadecimal
 *    number a normal / subtitle / schedule page (only then it can be fetched)
 *    and object / DRCS pages with decimal numbers what they are.
 *  - subtitle / newsflash pages with boxed rows, with text outside any box,
 *    with the box given by Level 2.5 display attributes; suppressed header.
 *
 * Nothing here is an oracle.  The object data layout follows the generator
 * written for property C01 (harness/c01_ttx.h), reduced to coherent data.
 */
#ifndef C16_STATION_H
#define C16_STATION_H

#define SF_OBJ   0x001
#define SF_TOP   0x002
#define SF_FLOF  0x004
#define SF_HEX   0x008
#define SF_BOX   0x010
#define SF_INDEX 0x020
#define SF_MIP   0x040

static struct st_info {
	unsigned feat;
	int obj_invoked;          /* object pages linked and at least one invocation / default object sent */
	int obj_checked;          /* the page was also formatted with empty objects */
	int obj_changed;          /* ... and looks different */
	int via_mot, default_obj, gpop, pop, nested, l35_links, opage_declared, opage_x26;
	int types;                /* bit t: an object of type t is invoked from the page */
	int cells, cells_sized, cells_drcs, cells_right, cells_bottom, cells_row0;
	int top_titles, ait_pages;
	int boxed_rows, unboxed_rows;
	int mip_code;
} ST;

static const char st_hdr[] = "  ZVBI C16 test  Mon 01 Jan";   /* the same on every page: no channel switch heuristics */

/* ---------------- page numbers in use ---------------- */

static int st_used[24], st_nused;
static int st_bcd(int page) { return (page & 15) <= 9 && page <= 0x99; }
static int st_is_used(int mag, int page)
{
	int i;
	for (i = 0; i < st_nused; i++) if (st_used[i] == ((mag & 7) << 8 | page)) return 1;
	return 0;
}
static void st_use(int mag, int page) { if (st_nused < 24) st_used[st_nused++] = (mag & 7) << 8 | page; }
/* xFD MIP, xFE MOT, xFF filler, 1E7 trigger, 1F0.. TOP */
static int st_reserved(int mag, int page) { return page >= 0xFD || ((mag & 7) == 1 && (page == 0xE7 || (page >= 0xF0 && page <= 0xF5))); }

/* a free page number; hex: units A..F; tens <= tens_max (X/27/4 links carry three bits of the tens) */
static int st_pick(struct vf_rng *r, int mag, int hex, int tens_max)
{
	int page, tries = 200;
	do {
		if (hex) page = (int)(vf_below(r, (unsigned)tens_max + 1) << 4) | vf_range(r, 0xA, 0xF);
		else page = (int)(vf_below(r, tens_max > 9 ? 10 : (unsigned)tens_max + 1) << 4) | (int)vf_below(r, 10);
	} while ((st_is_used(mag, page) || st_reserved(mag, page)) && --tries > 0);
	st_use(mag, page);
	return page;
}

/* ---------------- Magazine Inventory Page ---------------- */

static struct st_mip { int mag, lo, code; } st_mip[8];
static int st_nmip;
static void st_mip_add(int mag, int lo, int code) { if (st_nmip < 8) { st_mip[st_nmip].mag = mag & 7; st_mip[st_nmip].lo = lo; st_mip[st_nmip].code = code; st_nmip++; } }

/* where the entry of page xx (low byte lo) lives: EN 300 706 section 11.3 */
static void st_mip_pos(int lo, int *row, int *pos)
{
	if ((lo & 15) <= 9) { *row = 1 + (lo >> 5); *pos = ((lo >> 4) & 1) * 10 + (lo & 15); }
	else { *row = 9 + (lo >> 4) / 3; *pos = ((lo >> 4) % 3) * 6 + (lo & 15) - 10; }
}

static void st_send_mips(struct vf_rng *r)
{
	int m, k, row;
	for (m = 0; m < 8; m++) {
		int any = 0;
		for (k = 0; k < st_nmip; k++) if (st_mip[k].mag == m) any = 1;
		if (!any) continue;
		cor_header(m, 0xFD, 0, 0, st_hdr);
		for (row = 1; row <= 14; row++) {
			uint8_t n[40];
			int have = 0, i;
			memset(n, 0xF, sizeof n);            /* 0xFF: nothing known about the page */
			for (i = 0; i < 20; i++) {           /* other decimal pages: "no page" or a normal page */
				int lo = row <= 8 ? ((row - 1) << 5) + (i < 10 ? i : 6 + i) : 0;
				if (row <= 8 && lo <= 0x99 && !st_is_used(m, lo) && vf_chance(r, 1, 4)) {
					unsigned c = vf_chance(r, 1, 2) ? 0x00 : vf_chance(r, 1, 2) ? 0x01 : 0x02 + vf_below(r, 0x30);
					n[i * 2] = (uint8_t)(c & 15); n[i * 2 + 1] = (uint8_t)(c >> 4);
				}
			}
			for (k = 0; k < st_nmip; k++) {
				int rr, pos;
				if (st_mip[k].mag != m) continue;
				st_mip_pos(st_mip[k].lo, &rr, &pos);
				if (rr != row) continue;
				n[pos * 2] = (uint8_t)(st_mip[k].code & 15); n[pos * 2 + 1] = (uint8_t)(st_mip[k].code >> 4);
				have = 1;
			}
			if (have || vf_chance(r, 1, 4)) cor_nibble_row(m, row, n);
		}
		cor_end_page(m);
	}
}

/* ---------------- TOP: BTT + AIT ---------------- */

static void st_toplink(uint8_t *p, int pgno, int subno, int fn)
{
	p[0] = cor_ham8((pgno >> 8) & 15); p[1] = cor_ham8((pgno >> 4) & 15); p[2] = cor_ham8(pgno & 15);
	p[3] = cor_ham8((subno >> 12) & 15); p[4] = cor_ham8((subno >> 8) & 15); p[5] = cor_ham8((subno >> 4) & 15); p[6] = cor_ham8(subno & 15);
	p[7] = cor_ham8(fn);
}
static int st_dec2pgno(int d) { return 0x100 + (d / 100) * 0x100 + ((d / 10) % 10) * 16 + d % 10; }

static void st_send_top(struct vf_rng *r, int target_pgno, int many)
{
	static const char *const names[] = { "Index", "Nachrichten", "Sport", "Wetter", "TV heute", "A", "", "Programm ARD", "Kultur [x]", "B\\rse {|}~", "#$@^_`", "Lotto 6/49", "Regional", "ZZZZZZZZZZZZ" };
	uint8_t code[800];
	int marked[96], nm = 0, tdec, n, k, i, row, all_rows = vf_chance(r, 1, 2), n_ait, per_ait, ti;
	uint8_t p[42];
	int t_mag = (target_pgno >> 8) & 15, t_tens = (target_pgno >> 4) & 15, t_units = target_pgno & 15;

	for (i = 0; i < 800; i++) code[i] = (uint8_t)(vf_chance(r, 1, 3) ? 8 + vf_below(r, 4) : vf_chance(r, 1, 30) ? vf_below(r, 16) : 0);
	tdec = (t_mag - 1) * 100 + (t_tens > 9 ? 9 : t_tens) * 10 + (t_units > 9 ? 9 : t_units);
	n = many ? vf_range(r, 20, 70) : vf_range(r, 2, 12);
	for (k = 0; k < n && nm < 90; k++) {
		int d = vf_chance(r, 2, 3) ? tdec + vf_range(r, -25, 25) : (int)vf_below(r, 800), j;
		d = ((d % 800) + 800) % 800;
		for (j = 0; j < nm; j++) if (marked[j] == d) break;
		if (j < nm) continue;
		code[d] = (uint8_t)(vf_chance(r, 2, 5) ? 4 + vf_below(r, 2) : 6 + vf_below(r, 2));   /* block : group */
		marked[nm++] = d;
	}
	if (st_bcd(target_pgno & 0xFF)) {
		int j;
		for (j = 0; j < nm; j++) if (marked[j] == tdec) break;
		if (j == nm) {
			if (vf_chance(r, 1, 4)) { code[tdec] = (uint8_t)(4 + vf_below(r, 4)); marked[nm++] = tdec; }
			else code[tdec] = (uint8_t)(vf_chance(r, 1, 8) ? 1 : vf_chance(r, 1, 6) ? 2 + vf_below(r, 2) : 8 + vf_below(r, 4));
		}
	}

	/* Basic TOP Table */
	cor_header(1, 0xF0, 0, 0, st_hdr);
	n_ait = nm > 40 ? 2 : vf_range(r, 1, 2);
	{       /* links first: the AIT pages get their function from them */
		int slot[5] = { 0, 0, 0, 0, 0 }, order[5] = { 0, 1, 2, 3, 4 };
		for (i = 4; i > 0; i--) { int j = (int)vf_below(r, (unsigned)i + 1), t = order[i]; order[i] = order[j]; order[j] = t; }
		slot[order[0]] = 1;                          /* AIT 1F1 */
		if (n_ait > 1) slot[order[1]] = 2;           /* AIT 1F2 */
		if (vf_chance(r, 1, 3)) slot[order[2]] = 3;  /* MPT 1F4, never transmitted */
		if (vf_chance(r, 1, 3)) slot[order[3]] = 4;  /* MPT-EX 1F5, never transmitted */
		cor_addr(p, 1, 21);
		for (i = 0; i < 5; i++) {
			switch (slot[i]) {
			case 1: st_toplink(p + 2 + i * 8, 0x1F1, 0, 2); break;
			case 2: st_toplink(p + 2 + i * 8, 0x1F2, 0, 2); break;
			case 3: st_toplink(p + 2 + i * 8, 0x1F4, 0, 1); break;
			case 4: st_toplink(p + 2 + i * 8, 0x1F5, 0, 3); break;
			default: st_toplink(p + 2 + i * 8, 0xFFF, 0xFFFF, 0xF); break;   /* unused */
			}
		}
		cor_tx(p);
		if (vf_chance(r, 1, 4)) {
			cor_addr(p, 1, 22);
			for (i = 0; i < 5; i++) st_toplink(p + 2 + i * 8, 0xFFF, 0xFFFF, 0xF);
			cor_tx(p);
		}
	}
	for (row = 1; row <= 20; row++) {
		int need = all_rows || tdec / 40 == row - 1 || vf_chance(r, 1, 3);
		for (k = 0; k < nm && !need; k++) if (marked[k] / 40 == row - 1) need = 1;
		if (need) cor_nibble_row(1, row, code + (row - 1) * 40);
	}

	/* Additional Information Tables: titles of the marked pages (most of them) and of a few others */
	ST.ait_pages = n_ait;
	per_ait = (nm + n_ait - 1) / n_ait;
	ti = 0;
	for (k = 0; k < n_ait; k++) {
		int e = 0, last = (k == n_ait - 1) ? nm : (k + 1) * per_ait;
		cor_header(1, 0xF1 + k, 0, 0, st_hdr);
		for (row = 1; row <= 23 && (ti < last || e == 0); row++) {
			int h;
			cor_addr(p, 1, row);
			for (h = 0; h < 2; h++) {
				uint8_t *q = p + 2 + h * 20;
				int pgno = -1;
				if (ti < last) {
					if (vf_chance(r, 5, 6)) pgno = st_dec2pgno(marked[ti]);
					else if (vf_chance(r, 1, 2)) pgno = st_dec2pgno((int)vf_below(r, 800));
					ti++;
				}
				if (pgno < 0 && e > 0) { st_toplink(q, 0xFFF, 0xFFFF, 0xF); memset(q + 8, cor_par(' '), 12); continue; }
				if (pgno < 0) pgno = st_dec2pgno((int)vf_below(r, 800));
				st_toplink(q, pgno, vf_chance(r, 3, 4) ? 0 : (int)vf_below(r, 0x10), (int)vf_below(r, 16));
				{
					const char *nm_ = names[vf_below(r, sizeof names / sizeof names[0])];
					size_t l = strlen(nm_);
					for (i = 0; i < 12; i++) q[8 + i] = cor_par((size_t)i < l ? (unsigned char)nm_[i] : ' ');
					if (vf_chance(r, 1, 8)) q[8 + vf_below(r, 12)] = cor_par(vf_below(r, 0x20));      /* control code inside a title */
					if (vf_chance(r, 1, 8)) for (i = 0; i < 12; i++) q[8 + i] = cor_par((unsigned)vf_range(r, 0x21, 0x7E));
				}
				e++; ST.top_titles++;
			}
			cor_tx(p);
		}
	}
	cor_end_page(1);
}

/* ---------------- object pages ---------------- */

struct st_obj { int type, pp, g, h, idx, n, defbits, nests; unsigned body[44]; };
struct st_opage {
	int present, gpop, mag, page, s1, declared, nobj, rows34_data, last;
	struct st_obj o[5];
};
static struct st_opage st_op[2];   /* [0] POP, [1] GPOP */

static void st_obj_identities(struct vf_rng *r, struct st_opage *op)
{
	int k, j, n = vf_range(r, 1, 5), need34 = 0;
	op->nobj = 0;
	for (k = 0; k < n; k++) {
		struct st_obj *o = &op->o[op->nobj];
		o->type = (k < 3 && vf_chance(r, 2, 3)) ? k + 1 : vf_range(r, 1, 3);
		o->pp = vf_chance(r, 3, 4) ? (int)vf_below(r, 2) : (int)vf_below(r, 4);
		o->g = (int)vf_below(r, 4);
		o->h = (int)vf_below(r, 2);
		o->defbits = (int)vf_below(r, 6);
		o->n = 0;
		for (j = 0; j < op->nobj; j++)
			if (op->o[j].pp == o->pp && op->o[j].g == o->g && op->o[j].type == o->type && op->o[j].h == o->h) break;
		if (j == op->nobj) { op->nobj++; if (o->pp >= 2) need34 = 1; }
	}
	op->rows34_data = !need34 && vf_chance(r, 1, 2);
}

static unsigned st_inv_triplet(struct vf_rng *r, const struct st_opage *tp, const struct st_obj *o)
{
	return TRIP((tp->gpop ? 56 : 48) | (vf_below(r, 2) << 2) | (unsigned)o->pp, 0x10 + o->type,
		    ((unsigned)o->g << 5) | ((unsigned)o->h << 4) | (unsigned)tp->s1);
}

/* what an object contains: positions (rows relative to the place of invocation), full row colours,
 * characters with attributes, and invocations of objects of a higher type (of the same page or of the
 * other object page); now and then one the standard forbids (same or lower type: ignored) */
static void st_obj_body(struct vf_rng *r, struct st_obj *self, int have_drcs)
{
	int n = 0, row = 0, col = 0, ops = vf_range(r, 2, 9), max = 40;
	unsigned *t = self->body;
	if (vf_chance(r, 2, 3)) {   /* print right at the origin */
		int k = vf_range(r, 1, 4);
		while (k-- > 0 && col < 40) { t[n++] = cor_col_triplet(r, col, have_drcs); col += vf_range(r, 0, 2); }
	}
	while (ops-- > 0 && n + 6 < max) {
		unsigned k = vf_below(r, 11);
		if (k < 3) {
			row += vf_chance(r, 1, 8) ? vf_range(r, 8, 23) : vf_range(r, 1, 3);
			if (row > 24) row = 24;
			col = vf_chance(r, 1, 3) ? vf_range(r, 33, 39) : (int)vf_below(r, 40);
			if (vf_chance(r, 1, 5)) { t[n++] = TRIP(40 + (row == 24 ? 0 : row), 0x01, vf_below(r, 32) | (vf_chance(r, 1, 3) ? 0x60 : 0)); col = 0; }
			else t[n++] = TRIP(40 + (row == 24 ? 0 : row), 0x04, col);
		} else if (k < 8) {
			int c = vf_range(r, 1, 4);
			while (c-- > 0 && col < 40 && n + 6 < max) { t[n++] = cor_col_triplet(r, col, have_drcs); col += vf_range(r, 0, 3); }
		} else if (k == 8) {
			if (self->type == 1) t[n++] = TRIP(40 + vf_range(r, 0, 23), 0x00, vf_below(r, 32));     /* full screen colour */
			else t[n++] = TRIP(col < 40 ? col : 39, 0x0C, 0x41);                                     /* double size */
		} else {
			/* nested invocation */
			const struct st_opage *tp = &st_op[vf_below(r, 2)];
			const struct st_obj *o;
			int tries = 6;
			if (!tp->present || !tp->nobj) tp = (st_op[0].present && st_op[0].nobj) ? &st_op[0] : &st_op[1];
			if (!tp->present || !tp->nobj) continue;
			do o = &tp->o[vf_below(r, (unsigned)tp->nobj)]; while (o->type <= self->type && --tries > 0 && !vf_chance(r, 1, 12));
			if (vf_chance(r, 1, 2)) t[n++] = TRIP(40 + vf_range(r, 0, 3), 0x10, vf_chance(r, 1, 6) ? vf_below(r, 72) : vf_below(r, 12));   /* origin modifier */
			t[n++] = st_inv_triplet(r, tp, o);
			if (o->type > self->type) self->nests = 1;
		}
	}
	if (vf_chance(r, 5, 6)) t[n++] = TRIP(63, 0x1F, 0x7F);
	self->n = n;
}

static void st_obj_layout(struct vf_rng *r, struct st_opage *op)
{
	int k, cursor = op->rows34_data ? (int)vf_below(r, 12) : 26 + (int)vf_below(r, 8);
	if (vf_chance(r, 1, 6)) cursor = 280 + (int)vf_below(r, 60);     /* into the packets 26 of the object page */
	for (k = 0; k < op->nobj; k++) {
		struct st_obj *o = &op->o[k];
		if (cursor + 1 + o->n > 506) { op->nobj = k; break; }
		o->idx = cursor;
		cursor += 1 + o->n + (int)vf_below(r, 4);
	}
	op->last = cursor;
}

/* pointer rows, definitions, bodies (or only terminators); everything but the bodies is the same */
static void st_send_opage(const struct st_opage *op, int empty, int erase)
{
	unsigned trip[39 * 13], t[13], ptr[4][12][2];
	int row, i, k, d;
	for (row = 0; row < 4; row++) for (i = 0; i < 12; i++) ptr[row][i][0] = ptr[row][i][1] = 511;
	for (i = 0; i < 39 * 13; i++) trip[i] = TRIP(63, 0x1F, 0x7F);
	for (k = 0; k < op->nobj; k++) {
		const struct st_obj *o = &op->o[k];
		ptr[o->pp][o->g * 3 + o->type - 1][o->h] = (unsigned)o->idx;
		trip[o->idx] = TRIP(40 | ((unsigned)o->defbits << 2) | (unsigned)o->pp, 0x14 + o->type, ((unsigned)o->g << 5) | ((unsigned)o->h << 4) | (unsigned)op->s1);
		if (!empty) memcpy(trip + o->idx + 1, o->body, (size_t)o->n * sizeof trip[0]);
	}
	cor_header(op->mag, op->page, op->s1, erase ? 1u : 0u, st_hdr);   /* bit 0 = C4 erase page */
	for (row = 1; row <= 4; row++) {
		if (row > 2 && op->rows34_data) { cor_trip_packet(op->mag, row, 0, trip + (row - 3) * 13); continue; }
		t[0] = TRIP(63, 0x1F, 0x7F);
		for (i = 0; i < 12; i++) t[i + 1] = ptr[row - 1][i][0] | ptr[row - 1][i][1] << 9;
		cor_trip_packet(op->mag, row, 1 + 2 * (row & 3), t);
	}
	for (row = 5; row <= 25; row++) cor_trip_packet(op->mag, row, row & 15, trip + (row - 3) * 13);
	for (d = 0; 299 + d * 13 < op->last && d < 16; d++) cor_x26(op->mag, d, trip + (23 + d) * 13);
	cor_end_page(op->mag);
}

/* Magazine Organization Table of the page's magazine */
static void st_mot_link(uint8_t *q, const struct st_opage *op, const int *dobj /* two object indices or -1 */)
{
	int j;
	if (!op || !op->present) { for (j = 0; j < 10; j++) q[j] = 0xF; q[0] = 7; return; }     /* xFF: no page */
	q[0] = (uint8_t)(op->mag & 7); q[1] = (uint8_t)(op->page >> 4); q[2] = (uint8_t)(op->page & 15);
	q[3] = 0;          /* number of subpages: ignored */
	q[4] = 1;          /* no fallback substitutions */
	q[5] = 0; q[6] = q[7] = q[8] = q[9] = 0;
	for (j = 0; j < 2; j++) {
		const struct st_obj *o;
		int a;
		if (!dobj || dobj[j] < 0) continue;
		o = &op->o[dobj[j]];
		a = (o->pp << 7) | (o->g << 5) | (o->h << 4) | op->s1;
		q[5] |= (uint8_t)(o->type << (2 * j));
		q[6 + 2 * j] = (uint8_t)(a & 15); q[7 + 2 * j] = (uint8_t)(a >> 4);
	}
}

static void st_send_mot(struct vf_rng *r, int mag, int page, int pi, int di, const int *dobj, int gdrcs_pg, int drcs_pg, int l35)
{
	uint8_t n[40];
	int row, pos, i, pass;
	cor_header(mag, 0xFE, 0, 0, st_hdr);
	st_mip_pos(page, &row, &pos);                 /* MOT rows 1..14 are laid out like those of the MIP */
	for (i = 0; i < 40; i++) n[i] = (uint8_t)vf_below(r, 8);
	n[pos * 2] = (uint8_t)(pi | (vf_below(r, 2) << 3));
	n[pos * 2 + 1] = (uint8_t)(di | (vf_below(r, 2) << 3));
	cor_nibble_row(mag, row, n);
	for (pass = 0; pass < (l35 ? 2 : 1); pass++) {
		int base = pass ? 22 : 19, k;
		int nodef[2] = { -1, -1 };
		for (k = 0; k < 2; k++) {
			for (i = 0; i < 4; i++) {
				int slot = k * 4 + i;
				if (slot == 0) st_mot_link(n, &st_op[1], NULL);
				else if (slot == pi) st_mot_link(n + i * 10, &st_op[0], pass ? nodef : dobj);
				else st_mot_link(n + i * 10, NULL, NULL);
			}
			if (k == 0 || pi >= 4 || vf_chance(r, 1, 3)) cor_nibble_row(mag, base + k, n);
		}
		/* DRCS links: slot 0 global, slot di normal */
		for (i = 0; i < 8; i++) {
			int pg = i == 0 ? gdrcs_pg : i == di ? drcs_pg : -1;
			n[i * 4 + 0] = (uint8_t)(pg < 0 ? 7 : (pg >> 8) & 7);
			n[i * 4 + 1] = (uint8_t)(pg < 0 ? 0xF : (pg >> 4) & 15);
			n[i * 4 + 2] = (uint8_t)(pg < 0 ? 0xF : pg & 15);
			n[i * 4 + 3] = 0;
		}
		for (i = 32; i < 40; i++) n[i] = 0;
		cor_nibble_row(mag, pass ? 24 : 21, n);
	}
	cor_end_page(mag);
}

/* X/26 of the page: ordinary enhancement blocks and object invocations, rows ascending */
static void st_gen_x26(struct vf_rng *r, struct cor_x26gen *g, int have_drcs, int max_ops)
{
	int row = vf_chance(r, 1, 6) ? 0 : vf_range(r, 1, 5), ninv = vf_range(r, 1, 3), blocks = ninv + vf_range(r, 0, max_ops > 8 ? 5 : 2);
	g->n = 0;
	if (vf_chance(r, 1, 4)) cor_t(g, TRIP(40 + vf_range(r, 0, 23), 0x00, vf_below(r, 32)));
	while (blocks-- > 0 && row <= 24) {
		int col = vf_chance(r, 1, 3) ? vf_range(r, 33, 39) : vf_range(r, 0, 39), k = vf_range(r, 1, 4);
		int inv = ninv > 0 && (blocks < ninv || vf_chance(r, 1, 2));
		if (row == 0) { cor_t(g, TRIP(0x3F, 0x07, vf_below(r, 32))); if (!inv && col < 8) col = 8 + (int)vf_below(r, 32); }
		else cor_t(g, TRIP(40 + (row == 24 ? 0 : row), 0x04, col));
		if (inv) {
			const struct st_opage *tp = &st_op[vf_below(r, 2)];
			const struct st_obj *o;
			if (!tp->present || !tp->nobj) tp = (st_op[0].present && st_op[0].nobj) ? &st_op[0] : &st_op[1];
			o = &tp->o[vf_below(r, (unsigned)tp->nobj)];
			if (vf_chance(r, 1, 3)) cor_t(g, TRIP(40 + vf_range(r, 0, 2), 0x10, vf_chance(r, 1, 6) ? vf_below(r, 72) : vf_below(r, 10)));
			cor_t(g, st_inv_triplet(r, tp, o));
			ST.types |= 1 << o->type;
			if (o->nests) ST.nested = 1;
			if (tp->gpop) ST.gpop = 1; else ST.pop = 1;
			ST.obj_invoked++;
			ninv--;
		} else
			while (k-- > 0 && col < 40) { cor_t(g, cor_col_triplet(r, col, have_drcs)); col += vf_range(r, 0, 3); }
		{
			int prev = row;
			row += vf_chance(r, 1, 4) ? vf_range(r, 8, 20) : vf_range(r, 1, 5);
			if (prev < 24 && blocks > 0 && (row > 24 || vf_chance(r, 1, 8))) row = vf_range(r, prev + 1 > 22 ? prev + 1 : 22, 24);   /* the bottom rows */
		}
	}
	cor_t(g, TRIP(0x3F, 0x1F, 0x7F));
	while (g->n % 13) g->t[g->n++] = TRIP(0x3F, 0x1F, 0x7F);
}

/* ---------------- rows ---------------- */

static void st_words(struct vf_rng *r, uint8_t *d, int from, int to)
{
	static const char *const w[] = { "Guten Abend", "und", "hier ist", "das Wetter", "- Ja.", "Nein!", "1:0", "[Musik]", "{|}~", "News 112", "www.zvbi.org" };
	int i = from;
	while (i < to) {
		const char *s = w[vf_below(r, sizeof w / sizeof w[0])];
		while (*s && i < to) d[i++] = (uint8_t)*s++;
		if (i < to) d[i++] = ' ';
	}
}

/* a subtitle / newsflash row; boxed: start box ... end box, else text outside any box */
static void st_box_row(struct vf_rng *r, uint8_t *d, int boxed, int dbl)
{
	int i = vf_range(r, 0, 10), end;
	memset(d, 0x20, 40);
	if (dbl) d[i++] = (uint8_t)(vf_chance(r, 3, 4) ? 0x0D : 0x0F);
	if (boxed) { d[i++] = 0x0B; d[i++] = 0x0B; }
	if (vf_chance(r, 1, 2)) d[i++] = (uint8_t)vf_range(r, 1, 7);
	end = vf_range(r, i + 2, 36);
	st_words(r, d, i, end);
	i = end;
	if (boxed && vf_chance(r, 7, 8)) { d[i++] = 0x0A; d[i++] = 0x0A; }
	if (boxed && vf_chance(r, 1, 6) && i < 34) { d[i++] = 0x0B; d[i++] = 0x0B; st_words(r, d, i, i + 3); i += 3; d[i++] = 0x0A; d[i++] = 0x0A; }
}

/* row 24 of a FLOF page: coloured labels (red, green, yellow, cyan) */
static void st_flof_row(struct vf_rng *r, uint8_t *d)
{
	static const uint8_t cols[4] = { 0x01, 0x02, 0x03, 0x06 };
	static const char *const lab[] = { "Index", "Sport", "<<", ">>", "Wetter 170", "TV", "", "Nachrichten" };
	int i = 0, k;
	memset(d, 0x20, 40);
	for (k = 0; k < 4 && i < 38; k++) {
		const char *s = lab[vf_below(r, sizeof lab / sizeof lab[0])];
		if (vf_chance(r, 1, 10)) continue;                  /* colour missing */
		d[i++] = vf_chance(r, 1, 12) ? (uint8_t)vf_range(r, 1, 7) : cols[k];
		while (*s && i < 39) d[i++] = (uint8_t)*s++;
		i += vf_range(r, 0, 3);
	}
}

/* ---------------- DRCS pages ---------------- */

static void st_send_drcs(struct vf_rng *r, int mag, int page)
{
	uint8_t d[40];
	int i, j;
	cor_header(mag, page, 0, 0, st_hdr);
	for (i = 1; i <= 24; i++) {
		for (j = 0; j < 40; j++) d[j] = (uint8_t)(0x40 | vf_below(r, 64));
		cor_row(mag, i, d);
	}
	cor_end_page(mag);
}

/* ---------------- the generator ---------------- */

static int st_same_cells(const vbi_page *a, const vbi_page *b)
{
	return a->rows == b->rows && a->columns == b->columns && a->screen_color == b->screen_color && a->screen_opacity == b->screen_opacity
		&& !memcmp(a->text, b->text, sizeof a->text[0] * (size_t)(a->rows * a->columns));
}

static int cor_gen_station(struct vf_rng *r)
{
	static const int levels[4] = { VBI_WST_LEVEL_1, VBI_WST_LEVEL_1p5, VBI_WST_LEVEL_2p5, VBI_WST_LEVEL_3p5 };
	static vbi_page pg0;
	int mag = (int)vf_below(r, 8), mag8 = mag ? mag : 8, page, subno, lv, rows, nav, i, k;
	unsigned ctrl = 0, feat;
	int have_drcs = 0, gdrcs_pg = -1, drcs_pg = -1, via_mot, pi = 0, di = 0, use_default = 0, l35 = 0, send_x26, n_x26 = 0, x28 = 0;
	int dobj[2] = { -1, -1 }, fetch_pgno, fetch_subno, missing = 0;
	uint8_t d[40];

	vf_phase("vbi_decode(teletext station)");
	memset(&META, 0, sizeof META);
	memset(&ST, 0, sizeof ST);
	memset(st_op, 0, sizeof st_op);
	META.station = 1;
	st_nused = st_nmip = 0;

	k = (int)vf_below(r, 100);
	feat = k < 40 ? SF_OBJ : k < 58 ? SF_TOP : k < 68 ? SF_FLOF : k < 78 ? SF_HEX : k < 92 ? SF_BOX : SF_INDEX;
	if (!(feat & SF_OBJ) && vf_chance(r, 1, 6)) feat |= SF_OBJ;
	if (!(feat & (SF_TOP | SF_FLOF)) && vf_chance(r, 1, 4)) feat |= vf_chance(r, 2, 3) ? SF_TOP : SF_FLOF;
	if ((feat & SF_TOP) && !(feat & SF_INDEX) && vf_chance(r, 1, 8)) feat |= SF_FLOF;     /* FLOF has priority */
	if (!(feat & SF_HEX) && vf_chance(r, 1, 8)) feat |= SF_HEX;
	if (!(feat & SF_BOX) && vf_chance(r, 1, 10)) feat |= SF_BOX;
	if (feat & SF_INDEX) feat |= SF_TOP;
	if ((feat & SF_HEX) || vf_chance(r, 1, 5)) feat |= SF_MIP;
	ST.feat = feat;

	lv = (feat & SF_OBJ) ? (vf_chance(r, 9, 10) ? vf_range(r, 2, 3) : (int)vf_below(r, 2)) : (int)vf_below(r, 4);

	/* page numbers */
	if (feat & SF_HEX) {
		do page = (int)vf_below(r, 0xFD); while (st_bcd(page) || st_reserved(mag, page));
		st_use(mag, page);
		subno = vf_chance(r, 1, 2) ? 0 : (int)vf_below(r, 10);
		ST.mip_code = (int[]){ 0x01, 0x05, 0x30, 0x70, 0x73, 0x78, 0x7C, 0x7D, 0x81, 0x90, 0xF4, 0xF7 }[vf_below(r, 12)];
		st_mip_add(mag, page, ST.mip_code);
		META.hex = 1;
	} else {
		page = st_pick(r, mag, 0, 9);
		subno = vf_chance(r, 1, 2) ? 0 : (int)(vf_below(r, 8) << 4 | vf_below(r, 10));
		if (subno == 0 && vf_chance(r, 1, 4)) subno = 1;
		if ((feat & SF_MIP) && vf_chance(r, 1, 2)) st_mip_add(mag, page, (feat & SF_BOX) ? 0x70 + (int)vf_below(r, 8) : 0x01);
	}
	if (feat & SF_BOX) ctrl |= 1u << ((vf_chance(r, 2, 3) ? 6 : 5) - 4);
	else if (vf_chance(r, 1, 12)) ctrl |= 1u << (10 - 4);
	if (vf_chance(r, 1, (feat & SF_BOX) ? 3 : 5)) ctrl |= 1u << (7 - 4);
	ctrl |= vf_below(r, 8) << (12 - 4);

	/* DRCS and object pages */
	via_mot = vf_chance(r, 1, 2);
	if (lv >= 2 && vf_chance(r, 1, 2)) have_drcs = vf_range(r, 1, 3);
	if (feat & SF_OBJ) {
		int which = vf_range(r, 1, 3);          /* bit 0 POP, bit 1 GPOP */
		if (!via_mot) have_drcs &= 1;           /* X/27/4: the library reads the POP link where it reads the DRCS link */
		for (k = 0; k < 2; k++) {
			struct st_opage *op = &st_op[k];
			if (!(which & (1 << k))) continue;
			op->present = 1; op->gpop = k;
			op->mag = vf_chance(r, 1, 2) ? mag : (int)vf_below(r, 8);
			op->declared = (feat & SF_MIP) && vf_chance(r, 1, 2);
			/* a decimal number only when the inventory says what the page is and no BTT says otherwise */
			op->page = st_pick(r, op->mag, !(op->declared && !(feat & SF_TOP) && vf_chance(r, 1, 2)), via_mot ? (op->declared ? 9 : 15) : 7);
			op->s1 = vf_chance(r, 2, 3) ? 0 : (int)vf_below(r, 10);
			if (op->declared) { st_mip_add(op->mag, op->page, k ? 0xE6 : (vf_chance(r, 1, 2) ? 0xE6 : 0xEC + (int)vf_below(r, 4))); ST.opage_declared = 1; }
			st_obj_identities(r, op);
		}
		for (k = 0; k < 2; k++) {
			struct st_opage *op = &st_op[k];
			if (!op->present) continue;
			for (i = 0; i < op->nobj; i++) st_obj_body(r, &op->o[i], have_drcs);
			st_obj_layout(r, op);
			if (op->last > 299) ST.opage_x26 = 1;
		}
	}
	if (have_drcs & 1) { int m = vf_chance(r, 1, 2) ? mag : (int)vf_below(r, 8); gdrcs_pg = (m << 8) | st_pick(r, m, 1, 7); }
	if (have_drcs & 2) { int m = vf_chance(r, 1, 2) ? mag : (int)vf_below(r, 8); drcs_pg = (m << 8) | st_pick(r, m, 1, 7); }

	if (via_mot && (st_op[0].present || st_op[1].present || have_drcs)) {
		if (st_op[0].present) pi = vf_range(r, 1, 7);
		if (have_drcs & 2) di = vf_range(r, 1, 7);
		l35 = vf_chance(r, 1, 2);
		if (st_op[0].present && st_op[0].nobj && vf_chance(r, 1, 3)) {    /* default objects instead of X/26 */
			int c[5], nc = 0;
			for (i = 0; i < st_op[0].nobj; i++) if (st_op[0].o[i].pp < 2) c[nc++] = i;
			if (nc) {
				dobj[0] = c[vf_below(r, (unsigned)nc)];
				if (nc > 1 && vf_chance(r, 1, 2)) do dobj[1] = c[vf_below(r, (unsigned)nc)]; while (dobj[1] == dobj[0]);
				if (vf_chance(r, 1, 2)) { int t = dobj[0]; dobj[0] = dobj[1]; dobj[1] = t; }
				use_default = vf_chance(r, 3, 4);
			}
		}
	} else via_mot = 0;

	/* ---- transmission: inventory, TOP, DRCS, MOT, object pages, the page itself ---- */
	if (st_nmip) st_send_mips(r);
	if (feat & SF_TOP) st_send_top(r, mag8 * 0x100 + page, (feat & SF_INDEX) && vf_chance(r, 2, 3));
	if (gdrcs_pg >= 0) st_send_drcs(r, gdrcs_pg >> 8, gdrcs_pg & 0xFF);
	if (drcs_pg >= 0) st_send_drcs(r, drcs_pg >> 8, drcs_pg & 0xFF);
	if (via_mot) { st_send_mot(r, mag, page, pi, di, dobj, gdrcs_pg, drcs_pg, l35); ST.via_mot = 1; ST.l35_links = l35; }
	for (k = 0; k < 2; k++) {
		if (!st_op[k].present) continue;
		if (vf_chance(r, 1, 16)) { missing = 1; continue; }     /* not received (yet): the page falls back to Level 1.5 */
		st_send_opage(&st_op[k], 0, 0);
	}

	cor_header(mag, page, subno, ctrl, st_hdr);
	if (lv >= 2 && vf_chance(r, 1, 2)) {
		struct cor_bits b;
		memset(&b, 0, sizeof b);
		cor_put(&b, 0, 4); cor_put(&b, 0, 3);
		cor_put(&b, vf_below(r, 88), 7); cor_put(&b, vf_below(r, 88), 7);
		cor_put(&b, 0, 3); cor_put(&b, 0, 4);
		for (i = 0; i < 16; i++) cor_put(&b, vf_below(r, 4096), 12);
		cor_put(&b, vf_below(r, 32), 5); cor_put(&b, vf_below(r, 32), 5);
		cor_put(&b, vf_below(r, 2), 1); cor_put(&b, vf_below(r, 8), 3);
		cor_x28(mag, 0, &b);
		x28 = 1;
	}
	if (!via_mot && (st_op[0].present || st_op[1].present || have_drcs)) {
		/* X/27/4: link 24 GPOP, 25 POP (read for normal DRCS too), 26 GDRCS; links not needed name a page nobody sends */
		uint8_t p[42];
		int dummy = (mag << 8) | st_pick(r, mag, 1, 7);
		cor_addr(p, mag, 27);
		p[2] = cor_ham8(4);
		for (i = 0; i < 6; i++) {
			int pg = dummy;
			unsigned t1;
			if (i == 0 && st_op[1].present) pg = (st_op[1].mag << 8) | st_op[1].page;
			if (i == 1 && st_op[0].present) pg = (st_op[0].mag << 8) | st_op[0].page;
			if (i == 1 && !st_op[0].present && drcs_pg >= 0) pg = drcs_pg;
			if (i == 2 && gdrcs_pg >= 0) pg = gdrcs_pg;
			t1 = (unsigned)(i & 3) | ((unsigned)(pg & 15) << 7) | ((unsigned)(((pg >> 8) ^ mag) & 7) << 12) | ((unsigned)((pg >> 4) & 7) << 15);
			cor_ham24(p + 3 + 6 * i, t1 & 0x3FFFF);
			cor_ham24(p + 6 + 6 * i, 0);
		}
		cor_tx(p);
	}
	if (feat & SF_FLOF) {
		uint8_t p[42];
		cor_addr(p, mag, 27);
		p[2] = cor_ham8(0);
		for (i = 0; i < 6; i++) {
			int lp = vf_chance(r, 1, 6) ? 0xFF : vf_chance(r, 1, 8) ? (int)vf_below(r, 0xFD) : (int)(vf_below(r, 10) << 4 | vf_below(r, 10));
			cor_link6(p + 3 + 6 * i, mag, (int)vf_below(r, 8), lp, vf_chance(r, 1, 2) ? 0x3F7F : (int)vf_below(r, 0x10));
		}
		p[39] = cor_ham8(vf_chance(r, 9, 10) ? 0xF : 0x7);
		if (vbi_unham8(p[39]) & 8) META.flof = 1;
		p[40] = 0; p[41] = 0;
		cor_tx(p);
	} else if ((feat & SF_TOP) && vf_chance(r, 1, 6)) {
		/* links but "do not display row 24": TOP is used */
		uint8_t p[42];
		cor_addr(p, mag, 27);
		p[2] = cor_ham8(0);
		for (i = 0; i < 6; i++) cor_link6(p + 3 + 6 * i, mag, (int)vf_below(r, 8), (int)(vf_below(r, 10) << 4 | vf_below(r, 10)), 0x3F7F);
		p[39] = cor_ham8(0x7); p[40] = 0; p[41] = 0;
		cor_tx(p);
	}

	send_x26 = lv >= 1 && !use_default && ((feat & SF_OBJ) || vf_chance(r, 5, 6));
	if (send_x26) {
		struct cor_x26gen g;
		if ((feat & SF_OBJ) && ((st_op[0].present && st_op[0].nobj) || (st_op[1].present && st_op[1].nobj)) && lv >= 2)
			st_gen_x26(r, &g, have_drcs, lv >= 2 ? 30 : 8);
		else
			cor_gen_x26(r, &g, have_drcs, lv >= 2 ? 30 : 8);
		n_x26 = g.n / 13;
		for (i = 0; i < n_x26; i++) cor_x26(mag, i, g.t + 13 * i);
	} else if (use_default && lv >= 2) {
		ST.default_obj = 1; ST.pop = 1;
		for (i = 0; i < 2; i++) if (dobj[i] >= 0) { ST.types |= 1 << st_op[0].o[dobj[i]].type; ST.obj_invoked++; if (st_op[0].o[dobj[i]].nests) ST.nested = 1; }
	}

	if (feat & SF_BOX) {
		int mode = (int)vf_below(r, 4);   /* 0 boxed, 1 mixed, 2 nothing boxed, 3 boxed + ordinary rows */
		int nrows = vf_range(r, 1, 4), row = vf_chance(r, 2, 3) ? vf_range(r, 16, 22) : vf_range(r, 1, 20);
		for (i = 1; i <= 24; i++) {
			if (i >= row && nrows > 0) {
				int dbl = i < 23 && vf_chance(r, 1, 2), boxed = mode == 0 || mode == 3 || (mode == 1 && vf_chance(r, 1, 2));
				st_box_row(r, d, boxed, dbl);
				cor_row(mag, i, d);
				if (boxed) ST.boxed_rows++; else ST.unboxed_rows++;
				nrows--;
				if (dbl) i++;
			} else if (mode == 3 && vf_chance(r, 1, 4)) {
				cor_gen_row(r, d, (int)vf_below(r, 5));
				cor_row(mag, i, d);
			} else if (i == 24 && (feat & SF_FLOF) && vf_chance(r, 1, 2)) {
				st_flof_row(r, d); cor_row(mag, 24, d); META.row24 = 1;
			}
		}
	} else {
		int base_style = (int)vf_below(r, 6), lastrow = 23;
		for (i = 1; i <= lastrow; i++) {
			int style = vf_chance(r, 1, 2) ? base_style : (int)vf_below(r, 6);
			if (vf_chance(r, 1, 12)) continue;
			cor_gen_row(r, d, style);
			cor_row(mag, i, d);
		}
		if ((feat & SF_FLOF) ? vf_chance(r, 1, 2) : vf_chance(r, 1, 3)) {
			if (feat & SF_FLOF) st_flof_row(r, d); else cor_gen_row(r, d, (int)vf_below(r, 6));
			cor_row(mag, 24, d);
			META.row24 = 1;
		}
	}
	cor_end_page(mag);
	cor_flush();

	rows = vf_chance(r, (feat & (SF_TOP | SF_FLOF)) ? 9 : 8, 10) ? 25 : vf_chance(r, 1, 4) ? 1 : vf_range(r, 2, 24);
	nav = (feat & (SF_TOP | SF_FLOF)) ? vf_chance(r, 9, 10) : vf_chance(r, 2, 3);
	fetch_pgno = mag8 * 0x100 + page;
	fetch_subno = vf_chance(r, 1, 2) ? VBI_ANY_SUBNO : subno;
	if (feat & SF_INDEX) { fetch_pgno = 0x900; fetch_subno = vf_chance(r, 1, 2) ? VBI_ANY_SUBNO : (int)vf_below(r, 4); }
	META.ctrl = ctrl; META.lv = lv; META.rows = rows; META.nav = nav;
	memset(&PG, 0, sizeof PG);
	vf_phase("vbi_fetch_vt_page");
	if (!vbi_fetch_vt_page(cor_dec, &PG, fetch_pgno, fetch_subno, (vbi_wst_level)levels[lv], rows, nav)) {
		snprintf(PG_desc, sizeof PG_desc, "station ttx %x/%04x feat=0x%x mip=0x%02x fetch failed", fetch_pgno, subno, feat, ST.mip_code);
		return 0;
	}
	PG_is_cc = 0;

	/* did the objects do anything?  the same page with empty objects */
	if (ST.obj_invoked && lv >= 2 && !missing && !(feat & SF_INDEX)) {
		for (k = 0; k < 2; k++) if (st_op[k].present) st_send_opage(&st_op[k], 1, 1);
		cor_flush();
		memset(&pg0, 0, sizeof pg0);
		vf_phase("vbi_fetch_vt_page");
		if (vbi_fetch_vt_page(cor_dec, &pg0, fetch_pgno, fetch_subno, (vbi_wst_level)levels[lv], rows, nav)) {
			int n = PG.rows * PG.columns;
			ST.obj_checked = 1;
			ST.obj_changed = !st_same_cells(&PG, &pg0);
			for (i = 0; i < n && pg0.rows == PG.rows; i++) {
				const vbi_char *a = &PG.text[i], *b = &pg0.text[i];
				if (!memcmp(a, b, sizeof *a)) continue;
				ST.cells++;
				if (a->size != VBI_NORMAL_SIZE) ST.cells_sized++;
				if (a->unicode >= 0xF000) ST.cells_drcs++;
				if (i % PG.columns >= 36 && i % PG.columns <= 39) ST.cells_right++;
				if (i / PG.columns >= 23) ST.cells_bottom++;
				if (i / PG.columns == 0) ST.cells_row0++;
			}
		}
	}
	snprintf(PG_desc, sizeof PG_desc,
		 "station ttx %x/%04x feat=0x%x ctrl=0x%x level=%d rows=%d nav=%d x26=%d x28=%d flof=%d x24=%d drcs=%d mot=%d pop=%d(%x,%d obj) gpop=%d(%x,%d obj) inv=%d default=%d changed=%d/%d mip=0x%02x",
		 fetch_pgno, subno, feat, ctrl, lv, rows, nav, n_x26, x28, META.flof, META.row24, have_drcs, via_mot,
		 st_op[0].present, (st_op[0].mag << 8) | st_op[0].page, st_op[0].nobj, st_op[1].present, (st_op[1].mag << 8) | st_op[1].page, st_op[1].nobj,
		 ST.obj_invoked, ST.default_obj, ST.obj_changed, ST.obj_checked, ST.mip_code);
	return 1;
}


/* page kinds: 1/5 caption, 3/10 a Teletext page on its own, 1/2 a Teletext page inside a station */
static int cor_gen_page(struct vf_rng *r)
{
	unsigned k = vf_below(r, 20);
	if (k < 4) return cor_gen_cc(r);
	if (k < 10) return cor_gen_ttx(r);
	return cor_gen_station(r);
}

#endif
