/* C05, session 6 extension - included by c05_raw_bounds.c (needs struct cfg5, put_line, check_out, EXACT_ALLOC,
 * phase_buf, wide[] ... of that file).
 *
 *  1. vbi3_bit_slicer_slice_with_points(): line, payload buffer and points array each exactly sized against a
 *     guard page; buffer_size exact / one byte short / zero; max_points exact / zero / too small / larger.
 *  2. Custom bit slicer parameters through vbi3_bit_slicer_set_params() and vbi_bit_slicer_init(): any CRI / FRC
 *     word and length, rates from far below to above the sampling rate, payload 1 ... 32767 bits, every
 *     modulation, sample offset and cri_end anywhere, samples_per_line 1 ... 32767.  A refusal is fine, whatever
 *     is accepted must stay inside the line with any content (flat, noise, and a synthesized waveform of the very
 *     CRI / FRC words swept over the last positions at which the run-in can still be recognised).
 *  3. Images with many rows (up to what _vbi_sampling_par_valid_log admits and beyond with unknown line
 *     numbers), signals on every row, padded lines, sequential and interlaced, sliced arrays of every size.
 */

/* g_r (declared by the including file): the case's generator, for sub-checks called from slice_line() */
static const uint8_t *g_y8;          /* luminance of the line slice_line() is given (samples_per_line bytes) */
static uint8_t *g_y8exact;           /* exactly samples_per_line bytes, aligned like the pass */

/* ------------------------------------------------------------------------------------------------------------
 * 1. vbi3_bit_slicer_slice_with_points
 * ------------------------------------------------------------------------------------------------------------ */

static vbi3_bit_slicer_point *pts_block;
static unsigned pts_cap;

static void pts_reserve(unsigned cap)
{
	if (cap <= pts_cap) return;
	if (pts_block) EXACT_FREE(pts_block);
	pts_block = EXACT_ALLOC(sizeof *pts_block * (size_t)cap, 1);
	pts_cap = cap;
}

static void pts_release(void)
{
	if (pts_block) EXACT_FREE(pts_block);
	pts_block = NULL;
	pts_cap = 0;
}

/* One call.  The points array is exactly max_points elements and ends at the guard page (max_points 0: it IS the
 * guard page); the same for buf / buf_size.  Judged here: n_points <= max_points. */
static int points_call(vbi3_bit_slicer *bs, const char *cls, const char *variant, uint8_t *buf_end, unsigned buf_size,
		       unsigned max_points, const uint8_t *line, const char *what, const char *cfg)
{
	vbi3_bit_slicer_point *pts = pts_block + (pts_cap - max_points);
	unsigned n = 0;
	int ok;
	memset(pts, PREFILL, sizeof *pts * (size_t)max_points);
	snprintf(phase_buf, sizeof phase_buf, "vbi3_bit_slicer_slice_with_points:%s%s", cls, variant);
	vf_phase(phase_buf);
	ok = vbi3_bit_slicer_slice_with_points(bs, buf_end - buf_size, buf_size, pts, &n, max_points, line);
	vf_count("points_calls", 1);
	if (n > max_points)
		vf_fail("model:C05:points:count-exceeds-max-points", "vbi3_bit_slicer_slice_with_points reported %u points, max_points %u (%s, buffer_size %u, returned %d, %s) | %s",
			n, max_points, cls, buf_size, ok, what, cfg);
	if (ok && n == max_points) vf_count("points_array_filled_completely", 1);
	return ok;
}

static void slice_points(const struct cfg5 *c, const struct svc *s, const _vbi_service_par *p, unsigned sample_offset, const uint8_t *line, const char *what)
{
	unsigned total = p->cri_bits + p->frc_bits + p->payload;
	unsigned nb = ((unsigned)s->payload_bits + 7) / 8, k;
	int variant;
	if (!total || !nb) return;
	pts_reserve(total + 8);
	for (variant = 0; variant < 2; variant++) {
		/* 0: the configured pixel format (points are collected by the low-pass slicer only, otherwise the documented
		 *    fall-back to plain slicing); 1: the same luminance as 8 bit samples, the format the function is written for */
		vbi_pixfmt fmt = variant ? VBI_PIXFMT_YUV420 : c->sp.sampling_format;
		const uint8_t *ln = line;
		const char *cls;
		uint8_t *buf, *buf_end;
		vbi3_bit_slicer *bs;
		char cfg[700];
		int ok;
		if (variant) {
			if (c->bpp == 1 || !g_y8 || !g_y8exact) break;
			memcpy(g_y8exact, g_y8, (size_t)c->spl);
			ln = g_y8exact;
		}
		bs = vbi3_bit_slicer_new();
		if (!bs) return;
		vf_phase("vbi3_bit_slicer_set_params");
		if (!vbi3_bit_slicer_set_params(bs, fmt, (unsigned)c->sp.sampling_rate, sample_offset, (unsigned)c->spl,
				p->cri_frc >> p->frc_bits, p->cri_frc_mask >> p->frc_bits, p->cri_bits, p->cri_rate, ~0u,
				p->cri_frc & ((1u << p->frc_bits) - 1), p->frc_bits, p->payload, p->bit_rate, (vbi3_modulation)p->modulation)) {
			vbi3_bit_slicer_delete(bs);
			continue;
		}
		cls = (bs->oversampling_rate == (unsigned)c->sp.sampling_rate) ? "lowpass" : c04_func_class(fmt);
		snprintf(cfg, sizeof cfg, "%s as %s sample_offset=%u | %s", s->name, variant ? "Y8" : "configured format", sample_offset, cfg_desc(c));
		buf = out_buffer((size_t)nb);
		buf_end = buf + nb;

		/* A. everything exactly as large as documented */
		next_prefill();
		memset(buf, PREFILL, nb);
		ok = points_call(bs, cls, "", buf_end, nb, total, ln, what, cfg);
		if (ok) { vf_count("points_slices_matched", 1); vf_sig("points %s matched", cls); }
		else {
			for (k = 0; k < nb; k++) if (buf[k] != PREFILL) {
				vf_fail("model:C05:points:buffer-modified-on-failure", "vbi3_bit_slicer_slice_with_points returned FALSE but wrote buffer[%u] (%s) | %s", k, what, cfg);
				break;
			}
		}
		if (!strcmp(cls, "lowpass")) vf_count("points_calls_lowpass", 1);
		else if (fmt == VBI_PIXFMT_YUV420) vf_count("points_calls_Y8", 1);
		else vf_count("points_calls_fallback", 1);

		/* B. buffer one byte short, C. no buffer at all: must be refused */
		if (nb > 1 && points_call(bs, cls, ":short-buffer", buf_end, nb - 1, total, ln, what, cfg))
			vf_fail("model:C05:points:short-buffer-accepted", "vbi3_bit_slicer_slice_with_points accepted a %u byte buffer for %d payload bits | %s", nb - 1, s->payload_bits, cfg);
		if (points_call(bs, cls, ":short-buffer", buf_end, 0, total, ln, what, cfg))
			vf_fail("model:C05:points:short-buffer-accepted", "vbi3_bit_slicer_slice_with_points accepted a 0 byte buffer for %d payload bits | %s", s->payload_bits, cfg);
		vf_count("points_short_buffer_calls", nb > 1 ? 2 : 1);

		/* D. no points array, E. an array smaller than CRI + FRC + payload bits: must be refused, and nothing stored */
		if (points_call(bs, cls, ":small-points-array", buf_end, nb, 0, ln, what, cfg))
			vf_fail("model:C05:points:small-array-accepted", "vbi3_bit_slicer_slice_with_points accepted max_points 0 for %u CRI, FRC and payload bits | %s", total, cfg);
		if (total > 1) {
			unsigned mp = (unsigned)vf_range(g_r, 1, (int)total - 1);
			if (vf_chance(g_r, 1, 3)) mp = total - 1;
			if (points_call(bs, cls, ":small-points-array", buf_end, nb, mp, ln, what, cfg))
				vf_fail("model:C05:points:small-array-accepted", "vbi3_bit_slicer_slice_with_points accepted max_points %u for %u CRI, FRC and payload bits | %s", mp, total, cfg);
		}
		vf_count("points_small_array_calls", total > 1 ? 2 : 1);

		/* F. a larger array: still at most max_points elements */
		if (vf_chance(g_r, 1, 2)) {
			next_prefill();
			memset(buf, PREFILL, nb);
			points_call(bs, cls, ":larger-points-array", buf_end, nb, total + (unsigned)vf_range(g_r, 1, 8), ln, what, cfg);
		}
		vbi3_bit_slicer_delete(bs);
	}
}

/* ------------------------------------------------------------------------------------------------------------
 * 2. custom bit slicer parameters
 * ------------------------------------------------------------------------------------------------------------ */

struct cust {
	vbi_pixfmt fmt;
	int bpp;
	unsigned rate, offset, spl, cri, cri_mask, cri_bits, cri_rate, cri_end, frc, frc_bits, payload, payload_rate;
	int modulation;
	int lo, hi;
	uint8_t bits[64];
};

static unsigned log_uniform(struct vf_rng *r, double lo, double hi)
{
	double v = lo * exp(vf_unit(r) * log(hi / lo));
	if (v < 1) return 1;
	if (v > 4294967295.0) return 4294967295u;
	return (unsigned)v;
}

static unsigned derived_rate(struct vf_rng *r, unsigned rate)
{
	double f, v;
	switch (vf_below(r, 8)) {
	case 0: case 1: case 2: f = 1.0 / (1.0 + vf_unit(r) * 39.0); break;         /* 1 ... 40 samples per bit */
	case 3: f = 0.9 + vf_unit(r) * 0.4; break;                                       /* around and above the sampling rate */
	case 4: f = exp(-vf_unit(r) * log(100000.0)); break;                             /* down to 1/100000 of it */
	case 5: f = 1.0 / (20.0 + vf_unit(r) * 30.0); break;                             /* low-pass slicer territory */
	case 6: return (unsigned[]){ 1, 2, 100, rate, rate > 1 ? rate - 1 : 1, rate < 4294967295u ? rate + 1 : rate, rate / 2 ? rate / 2 : 1, rate / 24 ? rate / 24 : 1 }[vf_below(r, 8)];
	default: f = 1.0 / (1.0 + vf_unit(r) * 9.0); break;
	}
	v = (double)rate * f;
	if (v < 1) return 1;
	if (v > 4294967295.0) return 4294967295u;
	return (unsigned)v;
}

static void gen_cust(struct vf_rng *r, struct cust *q)
{
	static const unsigned hw[] = { 13500000, 14750000, 27000000, 28636363, 35468950, 17734475, 12272727, 6750000, 40000000 };
	double need;
	memset(q, 0, sizeof *q);
	q->fmt = vf_chance(r, 1, 3) ? VBI_PIXFMT_YUV420 : c04_fmts[vf_below(r, C04_NFMT)];
	q->bpp = VBI_PIXFMT_BPP(q->fmt);
	switch (vf_below(r, 8)) {
	case 0: case 1: case 2: q->rate = hw[vf_below(r, sizeof hw / sizeof hw[0])]; break;
	case 3: case 4: case 5: q->rate = log_uniform(r, 1e6, 1e8); break;
	case 6: q->rate = log_uniform(r, 1e3, 4.2e9); break;
	default: q->rate = (unsigned[]){ 1, 2, 1000, 0x7FFFFFFFu, 0xFFFFFFFFu, 1u << 27, 1u << 30, 65536 }[vf_below(r, 8)]; break;
	}
	q->cri_rate = derived_rate(r, q->rate);
	switch (vf_below(r, 4)) {
	case 0: q->payload_rate = q->cri_rate; break;
	case 1: q->payload_rate = q->cri_rate / 2 ? q->cri_rate / 2 : 1; break;
	default: q->payload_rate = derived_rate(r, q->rate); break;
	}
	/* CRI word */
	switch (vf_below(r, 8)) {
	case 0: case 1:   /* "...0001": recognised when the first 1 bit is clocked in, i.e. as late as the content wants */
		q->cri_bits = (unsigned)vf_range(r, 1, 8); q->cri = 1; q->cri_mask = vf_chance(r, 1, 2) ? 1 : 3; break;
	case 2: case 3:   /* alternating run-in with a final pair of equal bits */
		q->cri_bits = (unsigned)vf_range(r, 4, 32); q->cri = 0xAAAAAAABu ^ (vf_chance(r, 1, 2) ? 0 : 2u); q->cri_mask = (1u << vf_range(r, 2, 16)) - 1; break;
	case 4: q->cri_bits = (unsigned)vf_range(r, 0, 32); q->cri = vf_u32(r); q->cri_mask = vf_u32(r) & vf_u32(r); break;
	case 5: q->cri_bits = (unsigned)vf_range(r, 0, 32); q->cri = vf_u32(r); q->cri_mask = 0; break;
	case 6: q->cri_bits = (unsigned)vf_range(r, 0, 32); q->cri = vf_u32(r); q->cri_mask = ~0u; break;
	default: q->cri_bits = (unsigned)vf_range(r, 1, 4); q->cri = vf_u32(r); q->cri_mask = 0xF; break;
	}
	switch (vf_below(r, 6)) {
	case 0: case 1: q->frc_bits = 0; break;
	case 2: case 3: case 4: q->frc_bits = (unsigned)vf_range(r, 1, 8); break;
	default: q->frc_bits = (unsigned)vf_range(r, 9, 32); break;
	}
	q->frc = vf_u32(r);
	if (q->frc_bits < 32) q->frc &= (1u << q->frc_bits) - 1;
	switch (vf_below(r, 16)) {
	case 0: case 1: q->payload = (unsigned)vf_range(r, 1, 7); break;
	case 2: case 3: q->payload = 8u * (unsigned)vf_range(r, 1, 42); break;
	case 4: q->payload = (unsigned)vf_range(r, 401, 4000); break;
	case 5: q->payload = vf_chance(r, 1, 4) ? 32767 - (unsigned)vf_below(r, 9) : (unsigned)vf_range(r, 4001, 32767); break;
	default: q->payload = (unsigned)vf_range(r, 8, 400); break;
	}
	q->modulation = (int)vf_below(r, 4);
	switch (vf_below(r, 4)) {
	case 0: q->offset = (unsigned)vf_range(r, 1, 60); break;
	case 1: q->offset = vf_chance(r, 1, 2) ? (unsigned)vf_range(r, 61, 3000) : 0; break;
	default: q->offset = 0; break;
	}
	need = (double)q->offset + (double)q->rate * q->cri_bits / q->cri_rate + (double)q->rate * (q->frc_bits + q->payload) / q->payload_rate;
	if (need > 40000) need = 40000;
	switch (vf_below(r, 8)) {
	case 0: case 1: case 2: q->spl = (unsigned)((int)need + vf_range(r, -4, 40)); break;
	case 3: q->spl = (unsigned)(need * (1.0 + vf_unit(r))) + 1; break;
	case 4: q->spl = (unsigned)vf_range(r, 1, 64); break;
	case 5: q->spl = (unsigned)vf_range(r, 1, 32767); break;
	case 6: q->spl = (unsigned)((int)need + vf_range(r, 10, 24)); break;     /* the 16 sample window of the low-pass slicer */
	default: q->spl = (unsigned)(need * (1.0 + vf_unit(r) * 0.2)) + 1; break;
	}
	if ((int)q->spl < 1) q->spl = 1;
	if (q->spl > 32767) q->spl = 32767;
	if (vf_chance(r, 1, 12)) q->offset = (unsigned)vf_range(r, q->spl > 2 ? (int)q->spl - 2 : 0, (int)q->spl + 2);   /* at / behind the end */
	switch (vf_below(r, 6)) {
	case 0: q->cri_end = (unsigned)vf_range(r, 0, (int)q->spl + 2); break;
	case 1: q->cri_end = q->offset + (unsigned)vf_range(r, 0, 40); break;
	default: q->cri_end = ~0u; break;
	}
	if (vf_chance(r, 1, 5)) { q->lo = 0; q->hi = 255; }
	else { q->lo = vf_range(r, 0, 90); q->hi = vf_range(r, 120, 255); }
	vf_bytes(r, q->bits, sizeof q->bits);
}

static const char *cust_desc(const struct cust *q)
{
	static char b[400];
	snprintf(b, sizeof b, "fmt=%s rate=%u sample_offset=%u samples_per_line=%u cri=0x%x cri_mask=0x%x cri_bits=%u cri_rate=%u cri_end=%u frc=0x%x frc_bits=%u payload_bits=%u payload_rate=%u modulation=%d",
		 c04_fmt_name(q->fmt), q->rate, q->offset, q->spl, q->cri, q->cri_mask, q->cri_bits, q->cri_rate, q->cri_end, q->frc, q->frc_bits, q->payload, q->payload_rate, q->modulation);
	return b;
}

/* The waveform of the CRI word (lsb last, at cri_rate, preceded by some more alternating run-in), the FRC word and
 * payload bits (at payload_rate, NRZ or bi-phase), the last CRI bit ending at sample position cri_ends_at. */
static void synth(uint8_t *y8, unsigned spl, const struct cust *q, double cri_ends_at)
{
	double spb_c = (double)q->rate / q->cri_rate, spb_p = (double)q->rate / q->payload_rate;
	double from = cri_ends_at - (q->cri_bits + 10.0) * spb_c, to = cri_ends_at + (q->frc_bits + q->payload + 1.0) * spb_p;
	unsigned x, x0, x1;
	int biphase = q->modulation >= 2;
	memset(y8, q->lo, spl);
	x0 = from < 0 ? 0 : from > spl ? spl : (unsigned)from;
	x1 = to < 0 ? 0 : to > spl ? spl : (unsigned)to;
	for (x = x0; x < x1; x++) {
		double t = (double)x + 0.5 - cri_ends_at;
		int bit;
		if (t < 0) {
			double kf = -t / spb_c;
			unsigned k = kf > 1000 ? 1000 : (unsigned)kf;           /* 0 = last CRI bit */
			if (k < q->cri_bits) bit = (int)((q->cri >> k) & 1);
			else if (k < q->cri_bits + 10) bit = (int)(((q->cri_bits ? (q->cri >> (q->cri_bits - 1)) : 0) ^ (k - q->cri_bits + 1)) & 1);
			else bit = 0;
		} else {
			double jf = t / spb_p;
			unsigned j = jf > 100000 ? 100000 : (unsigned)jf;
			double frac = jf - floor(jf);
			if (j < q->frc_bits) bit = (int)((q->frc >> (q->frc_bits - 1 - j)) & 1);
			else if (j - q->frc_bits < q->payload) { unsigned pj = (j - q->frc_bits) & 511; bit = (q->bits[pj >> 3] >> (pj & 7)) & 1; }
			else continue;
			if (biphase && frac >= 0.5) bit = !bit;
		}
		y8[x] = (uint8_t)(bit ? q->hi : q->lo);
	}
}

/* Supplementary oracle for reads that jump over the guard page: from the configured slicer state, the highest
 * sample index the slicing loops can address (documented in bit_slicer.c: the search reads sample n and n + 1,
 * resp. n ... n + 16; after a match at n the payload loop reads n + (i >> 16) and one more, resp. 16 more). */
static long new_reach(const vbi3_bit_slicer *bs)
{
	unsigned nbits = bs->frc_bits + ((bs->endian < 2) ? bs->payload * 8 : bs->payload), k;
	unsigned i = bs->phase_shift, top = 0;
	if ((uint64_t)bs->phase_shift + (uint64_t)bs->step * (nbits ? nbits - 1 : 0) < (1ull << 32))
		top = nbits ? (unsigned)(((uint64_t)bs->phase_shift + (uint64_t)bs->step * (nbits - 1)) >> 16) : 0;
	else
		for (k = 0; k < nbits; k++) { if ((i >> 16) > top) top = i >> 16; i += bs->step; }
	return (long)top;
}

static void fill_line(const struct cust *q, struct vf_rng *r, uint8_t *line, const uint8_t *y8)
{
	struct cfg5 c;
	memset(&c, 0, sizeof c);
	c.sp.sampling_format = q->fmt;
	c.spl = (int)q->spl;
	c.bpp = q->bpp;
	put_line(&c, r, line, y8, 1);
}

static void custom_params(struct vf_rng *r)
{
	struct cust q;
	vbi3_bit_slicer *bs;
	vbi_bit_slicer os;
	size_t nbytes, nb;
	uint8_t *line, *buf, *y8;
	int end_aligned = !vf_chance(r, 1, 3), ok, old_ok, lowpass = 0, fill, k, npos;
	unsigned u;
	long limit_new = -1, limit_old = -1;
	double pos[16];
	const char *cls = "refused";

	gen_cust(r, &q);
	nbytes = (size_t)q.spl * (size_t)q.bpp;
	nb = ((size_t)q.payload + 7) / 8;
	line = EXACT_ALLOC(nbytes, end_aligned);
	buf = EXACT_ALLOC(nb, 1);
	y8 = malloc((size_t)q.spl + 16);
	bs = vbi3_bit_slicer_new();
	if (!line || !buf || !y8 || !bs) { vf_fail("harness:C05:out-of-memory", "custom_params"); return; }
	vf_log("  custom %s\n", cust_desc(&q));

	vf_phase("vbi3_bit_slicer_set_params");
	ok = vbi3_bit_slicer_set_params(bs, q.fmt, q.rate, q.offset, q.spl, q.cri, q.cri_mask, q.cri_bits, q.cri_rate, q.cri_end,
					q.frc, q.frc_bits, q.payload, q.payload_rate, (vbi3_modulation)q.modulation);
	vf_count("custom_param_sets", 1);
	if (ok) {
		long top = new_reach(bs);
		lowpass = (bs->oversampling_rate == q.rate);
		cls = lowpass ? "lowpass" : c04_func_class(q.fmt);
		vf_count("custom_new_accepted", 1);
		if (lowpass) vf_count("custom_new_accepted_lowpass", 1);
		if (q.offset) vf_count("custom_new_accepted_with_offset", 1);
		if (q.cri_end != ~0u) vf_count("custom_new_accepted_with_cri_end", 1);
		if (q.payload > 400) vf_count("custom_new_accepted_long_payload", 1);
		if (bs->cri_samples <= 4) vf_count("custom_new_accepted_window_le4", 1);
		limit_new = (long)q.offset + (long)bs->cri_samples;
		/* highest sample addressed: last search position + payload reach */
		if (bs->cri_samples < 1 || (long)q.offset + (long)bs->cri_samples - 1 + top + (lowpass ? 16 : 1) > (long)q.spl - 1)
			vf_fail("model:C05:configured-reach-exceeds-line", "vbi3_bit_slicer_set_params accepted, but the configured search window (%u samples behind sample_offset) plus the reach of the payload loop (%ld + %d samples) ends at sample %ld of %u | %s",
				bs->cri_samples, top, lowpass ? 16 : 1, (long)q.offset + (long)bs->cri_samples - 1 + top + (lowpass ? 16 : 1), q.spl, cust_desc(&q));
	} else {
		vf_count("custom_new_refused", 1);
	}

	/* 0.2 interface: cannot refuse, must make itself harmless.  Its documentation limits cri_bits + frc_bits to 32.
	 * Left out (arithmetic in the initialisation that is undefined in C but addresses no memory, hence not this
	 * property's business): frc_bits 32 (cri_frc >> 32), sampling rates of 2^29 Hz and more (int sampling_rate * 4). */
	old_ok = (q.cri_bits + q.frc_bits <= 32 && q.frc_bits < 32 && q.rate <= 0x1FFFFFFFu && q.cri_rate <= 0x7FFFFFFFu && q.payload_rate <= 0x7FFFFFFFu && q.offset == 0 && q.cri_end == ~0u);
	if (old_ok) {
		memset(&os, 0, sizeof os);
		vf_phase("vbi_bit_slicer_init");
		vbi_bit_slicer_init(&os, (int)q.spl, (int)q.rate, (int)q.cri_rate, (int)q.payload_rate, (q.cri << q.frc_bits) | q.frc, q.cri_mask,
				    (int)q.cri_bits, (int)q.frc_bits, (int)q.payload, (vbi_modulation)q.modulation, q.fmt);
		vf_count("custom_old_inits", 1);
		if (os.cri_bytes > 0) {
			vf_count("custom_old_active", 1);
			limit_old = os.cri_bytes;
			{
				unsigned nbits = (unsigned)os.frc_bits + (unsigned)((os.endian < 2) ? os.payload * 8 : os.payload), kk, i = (unsigned)os.phase_shift, top = 0;
				for (kk = 0; kk < nbits; kk++) { if ((i >> 16) > top) top = i >> 16; i += (unsigned)os.step; }
				if ((long)os.cri_bytes - 1 + (long)top + 1 > (long)q.spl - 1)
					vf_fail("model:C05:configured-reach-exceeds-line", "vbi_bit_slicer_init: the configured search window (%d samples) plus the reach of the payload loop (%u + 1 samples) ends at sample %ld of %u | %s",
						os.cri_bytes, top, (long)os.cri_bytes - 1 + (long)top + 1, q.spl, cust_desc(&q));
			}
		} else vf_count("custom_old_inert", 1);
	}

	/* positions of the synthesized signal: the clock tick of the last CRI bit (half a CRI bit before its end) at the
	 * last positions of either search window, and a few anywhere */
	npos = 0;
	{
		double half = 0.5 * (double)q.rate / q.cri_rate;
		if (half > 40000) half = 40000;
		if (limit_new >= 0) for (k = -4; k <= 2; k++) pos[npos++] = (double)limit_new + half + k;
		if (limit_old >= 0 && limit_old != limit_new) for (k = -2; k <= 1; k++) pos[npos++] = (double)limit_old + half + k;
		for (k = 0; k < 3; k++) pos[npos++] = vf_unit(r) * q.spl;
	}
	for (fill = 0; fill < 2 + npos; fill++) {
		char what[64];
		if (fill == 0) { memset(y8, vf_chance(r, 1, 2) ? q.lo : q.hi, q.spl); snprintf(what, sizeof what, "flat"); }
		else if (fill == 1) { vf_bytes(r, y8, q.spl); snprintf(what, sizeof what, "noise"); }
		else { synth(y8, q.spl, &q, pos[fill - 2]); snprintf(what, sizeof what, "signal, CRI ends at %.1f", pos[fill - 2]); }
		fill_line(&q, r, line, y8);
		vf_log("   %s\n", what);
		if (bs) {
			next_prefill();
			memset(buf, PREFILL, nb);
			snprintf(phase_buf, sizeof phase_buf, "vbi3_bit_slicer_slice:custom-%s", ok ? cls : "refused");
			vf_phase(phase_buf);
			if (vbi3_bit_slicer_slice(bs, buf, (unsigned)nb, line)) {
				if (!ok) vf_fail("model:C05:slice-after-refused-params", "vbi3_bit_slicer_set_params returned FALSE, vbi3_bit_slicer_slice then TRUE (%s) | %s", what, cust_desc(&q));
				vf_count("custom_new_matches", 1);
				if (fill >= 2 && fill - 2 < 7 && limit_new >= 0) vf_count("custom_new_matches_at_window_end", 1);
				vf_sig("custom new %s match", cls);
			} else {
				for (u = 0; u < nb; u++) if (buf[u] != PREFILL) {
					vf_fail(ok ? "model:C05:buffer-modified-on-failure" : "model:C05:slice-after-refused-params", "vbi3_bit_slicer_slice returned FALSE but wrote buffer[%u] (%s, set_params returned %d) | %s", u, what, ok, cust_desc(&q));
					break;
				}
			}
			vf_count(ok ? "custom_new_slices" : "custom_new_slices_after_refusal", 1);
			if (!ok && fill >= 1) { /* two contents are enough for a refused configuration */ }
		}
		if (old_ok) {
			memset(buf, PREFILL, nb);
			snprintf(phase_buf, sizeof phase_buf, "vbi_bit_slice:custom-%s", c04_func_class(q.fmt));
			vf_phase(phase_buf);
			if (vbi_bit_slice(&os, line, buf)) {
				vf_count("custom_old_matches", 1);
				vf_sig("custom old %s match", c04_func_class(q.fmt));
			}
			vf_count("custom_old_slices", 1);
		}
		if (!ok && limit_old < 0 && fill >= 1) break;
	}
	vbi3_bit_slicer_delete(bs);
	free(y8);
	EXACT_FREE(buf);
	EXACT_FREE(line);
}

/* ------------------------------------------------------------------------------------------------------------
 * 3. images with many rows
 * ------------------------------------------------------------------------------------------------------------ */

/* 2x Caption has no generator in the library: its waveform from the service definition (12 CRI bits at 1006976 Hz,
 * 8 FRC bits, 32 payload bits NRZ at the same rate) */
static void synth_caption2x(uint8_t *y8, int spl, int rate, double at, struct vf_rng *r)
{
	struct cust q;
	memset(&q, 0, sizeof q);
	q.rate = (unsigned)rate;
	q.cri = 0x000554ED >> 8; q.cri_bits = 12; q.cri_rate = 1006976;
	q.frc = 0xED; q.frc_bits = 8; q.payload = 32; q.payload_rate = 1006976;
	q.modulation = 0; q.lo = 10; q.hi = 190;
	vf_bytes(r, q.bits, sizeof q.bits);
	synth(y8, (unsigned)spl, &q, at);
}

static void many_rows(const struct cfg5 *c0, struct vf_rng *r)
{
	struct cfg5 c = *c0;
	vbi_sampling_par *sp = &c.sp;
	vbi3_raw_decoder *rd3;
	vbi_raw_decoder rdo;
	unsigned adm3, admo;
	int cls = (int)vf_below(r, 10), pad, n0, n1, scan, row, d, f1max, f2min, f2max, end_aligned = (int)vf_below(r, 2), debug = 0, n_full, i, nsizes = 0;
	int sizes[40], flag_values = 0;
	size_t img_size, cap = cls == 9 ? (size_t)8 << 20 : (size_t)2 << 20;
	uint8_t *img, *y8;
	vbi_sliced *out;
	char desc[96];

	d = c.scanning == 625 ? 312 : 263;          /* first line of the second field */
	f1max = c.scanning == 625 ? 311 : 262;       /* start + count <= f1max, _vbi_sampling_par_valid_log */
	f2min = c.scanning == 625 ? 312 : 263;
	f2max = c.scanning == 625 ? 625 : 525;

	/* lines longer than the samples need ("padding": in the 0.2 interface samples_per_line IS bytes_per_line / bpp) */
	pad = vf_chance(r, 1, 2) ? 0 : vf_chance(r, 1, 2) ? vf_range(r, 1, 8) : vf_range(r, 9, 300);
	if (c0->spl + pad > 32767) pad = 32767 - c0->spl;   /* the bit slicer takes 32767 samples at most (vbi3_raw_decoder_add_services asserts it) */
	c.spl = c0->spl + pad;
	sp->bytes_per_line = c.spl * c.bpp;

	sp->interlaced = vf_chance(r, 1, 3);
	sp->synchronous = vf_chance(r, 1, 2);
	switch (cls) {
	case 9:   /* as many rows as the validation admits (known line numbers), or more with unknown ones */
		if (vf_chance(r, 1, 2)) {
			sp->start[0] = 1; n0 = f1max - 1;
			sp->start[1] = f2min; n1 = f2max - f2min;
			if (vf_chance(r, 1, 2)) { sp->start[0] += vf_range(r, 0, 3); n0 = f1max - sp->start[0]; }
			if (vf_chance(r, 1, 2)) { sp->start[1] += vf_range(r, 0, 3); n1 = f2max - sp->start[1]; }
			if (sp->interlaced) { if (n1 > n0) n1 = n0; else n0 = n1; }
		} else {
			sp->start[0] = 0; sp->start[1] = 0;
			n0 = vf_range(r, 300, 420); n1 = sp->interlaced ? n0 : vf_range(r, 0, 420);
		}
		break;
	case 6: case 7: case 8:   /* medium */
		n0 = vf_range(r, 13, 120); n1 = sp->interlaced ? n0 : vf_chance(r, 1, 4) ? 0 : vf_range(r, 1, 120);
		if (vf_chance(r, 1, 2)) { sp->start[0] = 0; sp->start[1] = 0; }
		else {
			sp->start[0] = vf_range(r, 1, f1max - n0); sp->start[1] = n1 ? vf_range(r, f2min, f2max - n1) : f2min;
		}
		break;
	default:  /* small: every size of the sliced array is tried */
		n0 = vf_range(r, 1, 12); n1 = sp->interlaced ? n0 : vf_chance(r, 1, 4) ? 0 : vf_range(r, 1, 12);
		if (vf_chance(r, 1, 3)) { sp->start[0] = 0; sp->start[1] = 0; }
		else {
			/* around the lines the requested services use */
			const struct svc *s = c.set[vf_below(r, (unsigned)c.nset)];
			int f = s->first[0] ? 0 : 1, tgt = vf_range(r, s->first[f], s->last[f]), t0 = f ? tgt - (c.scanning == 625 ? 313 : 263) : tgt;
			int st = t0 - vf_range(r, 0, n0 - 1);
			if (st < 1) st = 1;
			if (st + n0 > f1max) st = f1max - n0;
			sp->start[0] = st;
			sp->start[1] = st + (c.scanning == 625 ? 313 : 263);
			if (sp->start[1] + n1 > f2max) sp->start[1] = f2max - n1;
		}
		break;
	}
	if (!sp->interlaced && vf_chance(r, 1, 8)) { if (vf_chance(r, 1, 2)) { n0 = 0; sp->start[0] = 0; } else { n1 = 0; } }
	if (n0 + n1 < 1) n0 = 1;
	(void)d;
	/* bound the image */
	while ((size_t)(n0 + n1) * (size_t)sp->bytes_per_line > cap && n0 + n1 > 2) {
		if (sp->interlaced) { n0 = n1 = n0 / 2 > 0 ? n0 / 2 : 1; }
		else { n0 = (n0 + 1) / 2; n1 = n1 / 2; }
	}
	sp->count[0] = n0; sp->count[1] = n1;
	/* the flags are vbi_bool: any non-zero value is TRUE */
	if (sp->interlaced && vf_chance(r, 1, 4)) { sp->interlaced = (int[]){ 2, 3, -1, 255, 256 }[vf_below(r, 5)]; flag_values = 1; }
	if (sp->synchronous && vf_chance(r, 1, 8)) { sp->synchronous = (int[]){ 2, -1, 255 }[vf_below(r, 3)]; flag_values = 1; }
	scan = n0 + n1;
	img_size = (size_t)scan * (size_t)sp->bytes_per_line;
	/* WSS CPR-1204 and 2x Caption among the requested services */
	c.req |= VBI_SLICED_WSS_CPR1204 | VBI_SLICED_2xCAPTION_525;
	snprintf(desc, sizeof desc, "many rows: %d+%d%s, %d samples (+%d)", n0, n1, sp->interlaced ? " interlaced" : "", c.spl, pad);

	vf_phase("vbi3_raw_decoder_new");
	rd3 = vbi3_raw_decoder_new(sp);
	if (!rd3) { vf_fail("harness:C05:parameters-rejected", "vbi3_raw_decoder_new rejected (%s) %s", desc, cfg_desc(&c)); return; }
	vf_phase("vbi3_raw_decoder_add_services");
	adm3 = vbi3_raw_decoder_add_services(rd3, c.req, c.strict);
	if (c.bpp == 1 && c.sp.sampling_format == VBI_PIXFMT_YUV420 && vf_chance(r, 1, 3)) {
		/* the decoder's own user of vbi3_bit_slicer_slice_with_points() */
		vf_phase("vbi3_raw_decoder_debug");
		debug = vbi3_raw_decoder_debug(rd3, TRUE);
	}
	vbi_raw_decoder_init(&rdo);
	rdo.scanning = sp->scanning; rdo.sampling_format = sp->sampling_format; rdo.sampling_rate = sp->sampling_rate;
	rdo.bytes_per_line = sp->bytes_per_line; rdo.offset = sp->offset;
	rdo.start[0] = sp->start[0]; rdo.start[1] = sp->start[1]; rdo.count[0] = sp->count[0]; rdo.count[1] = sp->count[1];
	rdo.interlaced = sp->interlaced; rdo.synchronous = sp->synchronous;
	vf_phase("vbi_raw_decoder_add_services");
	admo = vbi_raw_decoder_add_services(&rdo, c.req, c.strict);
	vf_count("many_rows_images", 1);
	if (flag_values) vf_count("many_rows_images_bool_flag_not_0_1", 1);
	if (!adm3 && !admo) { vf_count("many_rows_nothing_admitted", 1); goto done; }
	if (adm3 & VBI_SLICED_2xCAPTION_525) vf_count("many_rows_caption2x_admitted", 1);
	if (adm3 & VBI_SLICED_WSS_CPR1204) vf_count("many_rows_cpr1204_admitted", 1);

	img = EXACT_ALLOC(img_size, end_aligned);
	y8 = malloc((size_t)c.spl + 16);
	out = EXACT_ALLOC(sizeof(vbi_sliced) * (size_t)scan, 1);
	if (!img || !y8 || !out) { vf_fail("harness:C05:out-of-memory", "many_rows"); goto done; }
	for (row = 0; row < scan; row++) {
		int k = (int)vf_below(r, (unsigned)c.nset), kind = (int)vf_below(r, 16);
		int last = (row == scan - 1) || (sp->interlaced ? row == scan - 2 : row == n0 - 1);
		if (kind == 0) vf_bytes(r, y8, (size_t)c.spl);
		else if (kind == 1) memset(y8, blank_level, (size_t)c.spl);
		else if (kind == 2 && c.scanning == 525) synth_caption2x(y8, c.spl, sp->sampling_rate, vf_unit(r) * c.spl, r);
		else if (wide_ok[k]) {
			int room = c.spl - wide_len[k], sh;
			if (last || kind < 6) {
				/* at the last positions where the run-in is still looked for */
				int cri_limit = -1;
				unsigned j;
				for (j = 0; j < rd3->n_jobs; j++) if (rd3->jobs[j].id & c.set[k]->id) cri_limit = (int)rd3->jobs[j].slicer.cri_samples;
				if (cri_limit < 0) cri_limit = c.spl - (wide_len[k] - wide_cri_end[k]);
				sh = cri_limit - wide_cri_end[k] - vf_range(r, 0, 3);
			} else sh = room > 0 ? vf_range(r, 0, room) : vf_range(r, room, 0);
			shifted(&c, k, sh, y8);
		} else memset(y8, blank_level, (size_t)c.spl);
		put_line(&c, r, img + (size_t)row * (size_t)sp->bytes_per_line, y8, kind == 3);
	}
	/* sizes of the sliced array */
	if (scan <= 24) for (i = 0; i <= scan; i++) sizes[nsizes++] = i;
	else {
		sizes[nsizes++] = scan; sizes[nsizes++] = 0; sizes[nsizes++] = 1; sizes[nsizes++] = scan - 1;
		for (i = 0; i < (cls == 9 ? 2 : 4); i++) sizes[nsizes++] = vf_range(r, 2, scan - 2);
	}
	n_full = -1;
	if (adm3) {
		int pass_n;
		/* the full array first: how many records this image yields */
		for (pass_n = -1; pass_n < nsizes + 3 && !vf_failed(); pass_n++) {
			int max_lines = pass_n < 0 ? scan : pass_n < nsizes ? sizes[pass_n] : n_full + (pass_n - nsizes) - 1, n;
			vbi_sliced *o;
			if (max_lines < 0 || max_lines > scan) continue;
			o = out + (scan - max_lines);
			next_prefill();
			memset(o, PREFILL, sizeof *o * (size_t)max_lines);
			snprintf(phase_buf, sizeof phase_buf, "vbi3_raw_decoder_decode:many-rows%s", debug ? "-debug" : "");
			vf_phase(phase_buf);
			n = (int)vbi3_raw_decoder_decode(rd3, o, (unsigned)max_lines, img);
			check_out(&c, "vbi3_raw_decoder_decode", o, n, max_lines, desc);
			if (pass_n < 0) n_full = n;
			vf_count("many_rows_decodes", 1);
			if (debug) vf_count("many_rows_decodes_debug", 1);
			if (n > 0) vf_count("many_rows_records", n);
			if (n_full > max_lines && n == max_lines) vf_count("many_rows_output_truncated", 1);
		}
		if (n_full > 2) vf_count("many_rows_records_not_on_a_last_row", n_full - 2);
		if (n_full > 0) vf_sig("many rows: %s %s records=%s", sp->interlaced ? "interlaced" : "sequential", scan >= 300 ? "ge300" : scan > 24 ? "25-299" : "le24", n_full >= scan ? "all" : n_full > scan / 2 ? "most" : "some");
	}
	if (admo && !vf_failed()) {
		int n;
		next_prefill();
		memset(out, PREFILL, sizeof *out * (size_t)scan);
		vf_phase("vbi_raw_decode:many-rows");
		n = vbi_raw_decode(&rdo, img, out);
		check_out(&c, "vbi_raw_decode", out, n, scan, desc);
		vf_count("many_rows_decodes_old", 1);
	}
	vf_count("many_rows_rows", scan);
	if (scan >= 300) vf_count("many_rows_images_ge300", 1);
	if (scan >= f1max - 1 + f2max - f2min) vf_count("many_rows_images_max_known_lines", 1);
	if (sp->interlaced) vf_count("many_rows_images_interlaced", 1);
	if (pad) vf_count("many_rows_images_padded", 1);
	if (!end_aligned) vf_count("many_rows_images_start_aligned", 1);
	EXACT_FREE(out);
	free(y8);
	EXACT_FREE(img);
done:
	vf_phase("vbi3_raw_decoder_delete");
	vbi3_raw_decoder_delete(rd3);
	vbi_raw_decoder_destroy(&rdo);
}
